"""Per-property configuration of the checks: which script families are generated, which
operations form the property's cone for the trace comparison, which monitors run."""
import os, sys, subprocess, re
sys.path.insert(0, os.path.join(os.path.dirname(os.path.abspath(__file__)), 'harness'))
import monitors as M
import check as C

THOROUGH_SCALE = int(os.environ.get('VERIF_THOROUGH_SCALE', '4'))

def q(run, quick, thorough):
    """size of a script family per tier; the thorough counts are multiplied by VERIF_THOROUGH_SCALE
    (default 4; counts only - step widths and value lists are taken as they are)"""
    if run.tier != 'thorough':
        return quick
    if isinstance(thorough, int) and not isinstance(thorough, bool) and thorough >= 50:
        return thorough * THOROUGH_SCALE
    return thorough

PRIORS_Q = [0x00, 0xff, 0xaa, 0x55, 0x01, 0x80, 0x08, 0x10]
PRIORS_T = list(range(256))

def chain(*mons):
    def f(run, script, il, iab, ml):
        for m in mons:
            m(run, script, il, iab, ml)
    return f

def c01(run):
    def gen(g):
        g.two_byte()
        g.hist(q(run, 400, 6000), (5, 70))
        g.lora_rx(q(run, 30, 300))
        g.fsk_rx(q(run, 30, 300))
        g.attach()
        g.faults(q(run, 20, 200))
        g.mixed(q(run, 40, 600))
    return C.execute(run, gen, monitor=M.mon_flags)

def c02(run):
    """two real builds in lock-step + each build against its own interpreter of the model"""
    def gen(g):
        g.two_byte()
        g.hist(q(run, 300, 4000), (5, 70))
        g.lora_rx(q(run, 20, 200)); g.lora_tx(q(run, 20, 200)); g.fsk_rx(q(run, 20, 200)); g.fsk_tx(q(run, 20, 200)); g.mixed(q(run, 40, 600)); g.dumps(q(run, 40, 400))
        g.exh_setters(q(run, [0x00, 0xff], [0, 0xff, 0xaa, 0x55]))
    divs = C.execute(run, gen, strip_faults=True)
    impl_c = run.impl
    scripts = list(run.by_hdr.values())
    binary, err = C.build_harness('nocache')
    if binary is None:
        run.violations.append(('uncached build does not compile: ' + err[-300:], ['# build'], {}))
        return divs
    impl_u = C.run_impl(binary, scripts)
    model_u = C.run_model(scripts, ['--nocache'])
    divs += C.compare(scripts, impl_u, model_u)
    for s in scripts:
        a, aab = impl_c.get(s[0], ([], None))
        b, bab = impl_u.get(s[0], ([], None))
        lockstep(run, s, a, aab, b, bab)
    write_faults(run, scripts, impl_c, impl_u, binary)
    return divs

def write_faults(run, scripts, impl_c, impl_u, bin_u):
    """transparency when a transfer fails.  Fault positions are transfer indices, which differ between the
    builds - but both builds issue the same writes in the same order, so 'the j-th write of operation i fails'
    means the same thing in both: its transfer index is looked up in each build's own fault-free trace and each
    build gets its own copy of the script.  Everything observable must then still agree."""
    import random
    rnd = random.Random(run.seed * 7919 + 13)
    bin_c, err = C.build_harness('cache')
    if bin_c is None:
        return
    cand = [s for s in scripts if not s[0].split()[2:3] == ['exh'] or rnd.random() < 0.05]
    rnd.shuffle(cand)
    want = q(run, 500, 6000)
    sc, su, origin = [], [], {}
    for s in cand:
        if len(sc) >= want:
            break
        a, aab = impl_c.get(s[0], ([], None))
        b, bab = impl_u.get(s[0], ([], None))
        a = [l for l in a if not l.startswith('!')]
        b = [l for l in b if not l.startswith('!')]
        body = [l for l in s[1:] if l.strip()]
        if aab or bab or len(a) != len(body) or len(b) != len(body):
            continue
        elig = []
        for i, (x, y) in enumerate(zip(a, b)):
            if not (M.is_op(x) and M.is_op(y)) or ' @' in body[i] or ' !' in body[i]:
                continue
            ex, ey = M.spi_entries(M.fields(x).get('spi')), M.spi_entries(M.fields(y).get('spi'))
            wx = [k for k, e in enumerate(ex) if e['kind'] in ('W', 'WB')]
            wy = [k for k, e in enumerate(ey) if e['kind'] in ('W', 'WB')]
            if ex and [(e['kind'], e['reg'], e['n']) for e in ex] == [(e['kind'], e['reg'], e['n']) for e in ey]:
                # both builds issue exactly the same transfers here (e.g. a raw dump, a handler that only touches
                # never-cache registers): any of them, reads included, can fail in both
                allk = list(range(len(ex)))
                elig.append((i, allk, allk))
            elif wx and len(wx) == len(wy):
                elig.append((i, wx, wy))
        if not elig:
            continue
        i, wx, wy = rnd.choice(elig)
        j = rnd.randrange(len(wx))
        code = rnd.choice([1, 0x101, 0x107])
        hdr = s[0] + ' wf%d' % len(sc)
        mk = lambda k: [hdr] + [l + (' !%d=%d' % (k, code) if n == i else '') for n, l in enumerate(body)] + ['dump']
        sc.append(mk(wx[j])); su.append(mk(wy[j]))
        origin[hdr] = (body[i], j)
    if not sc:
        return
    rc_ = C.run_impl(bin_c, sc)
    ru_ = C.run_impl(bin_u, su)
    run.cov['write_fault_scripts'] = len(sc)
    run.cov['programs'] += len(sc)
    hit = 0
    for x, y in zip(sc, su):
        a, aab = rc_.get(x[0], ([], None))
        b, bab = ru_.get(y[0], ([], None))
        if any('!' in e for l in a if M.is_op(l) for e in [M.fields(l).get('spi', '')]):
            hit += 1
        before = len(run.violations)
        lockstep(run, x, a, aab, b, bab)
        if len(run.violations) > before:
            t, scr, det = run.violations[-1]
            op, j = origin[x[0]]
            run.violations[-1] = ('with write #%d of `%s` failing: %s' % (j, op[:60], t), scr, dict(det, uncached_script=y))
    run.cov['write_faults_fired'] = hit

def lockstep(run, script, a, aab, b, bab):
    a = [l for l in a if not l.startswith('!')]
    b = [l for l in b if not l.startswith('!')]
    if (aab is None) != (bab is None) or len(a) != len(b):
        run.violation('cached and uncached builds end differently (%s / %s, %d / %d lines)' % (aab, bab, len(a), len(b)), script)
        return
    for x, y in zip(a, b):
        run.cov['monitor_checks'] += 1
        if x.startswith('chip ') or y.startswith('chip '):
            if x != y:
                run.violation('cached and uncached builds leave the chip in different states', script, {'cached': x[:600], 'uncached': y[:600]})
                return
            continue
        if not M.is_op(x):
            continue
        fx, fy = M.fields(x), M.fields(y)
        if fx.get('rc') != fy.get('rc') or fx.get('cb') != fy.get('cb'):
            run.violation('%s: cached build rc=%s cb=%s, uncached rc=%s cb=%s' % (fx['op'], fx.get('rc'), fx.get('cb', '')[:60], fy.get('rc'), fy.get('cb', '')[:60]), script,
                          {'cached': x[:600], 'uncached': y[:600]})
            return
        ex, ey = M.spi_entries(fx.get('spi')), M.spi_entries(fy.get('spi'))
        wx = [(e['kind'], e['reg'], e['data']) for e in ex if e['kind'] in ('W', 'WB')]
        wy = [(e['kind'], e['reg'], e['data']) for e in ey if e['kind'] in ('W', 'WB')]
        faulted = any(e['fault'] is not None for e in ex + ey)
        if faulted:
            continue   # the fault oracle is keyed by transfer index, which differs between the builds
        if wx != wy:
            run.violation('%s: write sequences differ between cached and uncached build' % fx['op'], script, {'cached': x[:600], 'uncached': y[:600]})
            return
        if len(ex) > len(ey):
            run.violation('%s: cached build issued more transfers (%d) than the uncached build (%d)' % (fx['op'], len(ex), len(ey)), script)
            return
        hx = re.sub(r'^', '', fx.get('h', ''))
        if hx != fy.get('h', ''):
            run.violation('%s: handle differs between cached and uncached build' % fx['op'], script, {'cached': hx, 'uncached': fy.get('h')})
            return

def c03(run):
    def gen(g):
        g.fsk_rx(q(run, 400, 6000)); g.nocb(q(run, 40, 600)); g.mixed(q(run, 80, 1200))
    return C.execute(run, gen, monitor=chain(M.mon_expect, M.mon_ack), cone={'irq'})

def c04(run):
    def gen(g):
        g.fsk_tx(q(run, 300, 4000)); g.nocb(q(run, 40, 600)); g.mixed(q(run, 80, 1200))
    return C.execute(run, gen, monitor=M.mon_expect,
                     cone={'irq', 'fsk_ook_tx_set_for_transmission', 'fsk_ook_tx_set_for_transmission_with_address'})

def c05(run):
    def gen(g):
        g.lora_rx(q(run, 400, 5000)); g.nocb(q(run, 40, 600)); g.mixed(q(run, 80, 1200)); g.faults(q(run, 60, 800))
    return C.execute(run, gen, monitor=M.mon_expect, cone={'irq', 'lora_set_implicit_header'})

def c06(run):
    def gen(g):
        g.lora_tx(q(run, 300, 4000)); g.nocb(q(run, 40, 600)); g.mixed(q(run, 80, 1200))
    return C.execute(run, gen, monitor=M.mon_expect, cone={'irq', 'lora_tx_set_for_transmission', 'lora_reset_fifo'})

def c07(run):
    def gen(g):
        g.lora_race(q(run, 150, 2000))
        g.lora_rx(q(run, 100, 1500)); g.lora_tx(q(run, 100, 1500)); g.hop(q(run, 60, 600))
        g.fsk_rx(q(run, 100, 1500)); g.fsk_tx(q(run, 100, 1500)); g.hist(q(run, 100, 1500)); g.nocb(q(run, 40, 600)); g.mixed(q(run, 60, 800)); g.cad_events(q(run, 60, 800))
    return C.execute(run, gen, monitor=chain(M.mon_ack, M.mon_expect), cone={'irq'})

def c08(run):
    def gen(g):
        g.hist(q(run, 300, 5000), (5, 70))
        g.fsk_rx(q(run, 100, 1500)); g.fsk_tx(q(run, 100, 1500)); g.lora_rx(q(run, 60, 800)); g.hop(q(run, 40, 400))
        g.exh_setters(q(run, [0x00, 0xff], PRIORS_Q))
        g.beacon(list(range(1, 1050, q(run, 7, 1))))
    divs = C.execute(run, gen, monitor=M.mon_aborts)
    # the packet paths again in builds with a small packet buffer (Kconfig SX127X_MAX_PACKET_SIZE):
    # the real driver under ASan against the model with the same capacity
    for cap in (16, 64, 255, 256):
        def gen_small(g, cap=cap):
            g.tag = 'cap%d' % cap
            g.fsk_rx(q(run, 40, 600)); g.fsk_tx(q(run, 40, 600)); g.lora_rx(q(run, 40, 500)); g.lora_tx(q(run, 15, 200))
            g.fsk_fault(q(run, 15, 200)); g.beacon([5, 100, 1000, 3000, 70000]); g.hist(q(run, 40, 600), (5, 50))
            g.stale_length(q(run, 30, 300), cap)
            g.oversize_fixed(q(run, 24, 240), cap)
        run.cov['caps'] = run.cov.get('caps', []) + [cap]
        divs += C.execute(run, gen_small, variants=('cap%d' % cap,), model_args=('--cap', str(cap)), monitor=M.mon_aborts, corpus=False)
    return divs

def c09(run):
    def gen(g):
        g.exh_setters(q(run, PRIORS_Q, PRIORS_T))
        g.setter_seqs(q(run, 300, 4000))
        g.setter_pairs()
    divs = C.execute(run, gen, monitor=mon_c09)
    return divs

def mon_c09(run, script, il, iab, ml):
    """the model is proven to satisfy the field-ownership rule, which determines the register
    file after a successful call uniquely; a different register file on the real driver is
    therefore a concrete violation"""
    a = [l for l in il if not l.startswith('!')]
    for k, (x, y) in enumerate(zip(a, ml)):
        if x.startswith('chip '):
            run.cov['monitor_checks'] += 1
            if x != y:
                dx, dy = M.dump_of(x), M.dump_of(y)
                diff = []
                for page in ('s', 'l', 'f'):
                    for i, (p, r) in enumerate(zip(dx[page], dy[page])):
                        if p != r:
                            diff.append('%s[%02x]: driver %02x, ownership rule %02x' % (page, i, p, r))
                prev = a[k - 1] if k else ''
                run.violation('after `%s` the chip registers differ from the field-ownership rule: %s' % (M.fields(prev).get('op', '?'), '; '.join(diff[:4])), script,
                              {'call': prev[:300], 'diff': diff[:20]})
                return
        elif M.is_op(x) and M.is_op(y):
            fx, fy = M.fields(x), M.fields(y)
            if fx.get('rc') != fy.get('rc') and '!' not in fx.get('spi', ''):
                run.cov['monitor_checks'] += 1
                run.violation('`%s` returned %s, the specification says %s' % (fx['op'], fx.get('rc'), fy.get('rc')), script, {'call': x[:300]})
                return

def c10(run):
    def gen(g):
        g.exh_setters(q(run, [0x00, 0xff], PRIORS_Q))
        g.hist(q(run, 300, 4000))
    return C.execute(run, gen, monitor=chain(M.mon_rejects, mon_refused))

def mon_refused(run, script, il, iab, ml):
    """C10, converse clause: a call that the specification (the model, for which C10/C09 are proved) accepts must not be
    refused by the real driver with an argument or state error while the bus is healthy"""
    a = [l for l in il if not l.startswith('!')]
    for x, y in zip(a, ml):
        if M.is_op(x) and M.is_op(y):
            fx, fy = M.fields(x), M.fields(y)
            if fx.get('op') != fy.get('op') or '!' in fx.get('spi', '') or '!' in fy.get('spi', ''):
                continue
            rx, ry = fx.get('rc', '').split(',')[0], fy.get('rc', '').split(',')[0]
            if ry == '0' and rx in ('102', '103'):
                run.cov['monitor_checks'] += 1
                run.violation('`%s` was refused (rc=%s) although its arguments are documented-valid and its modulation is active (the specification accepts it)' % (script_line_of(script, a, x), rx), script, {'call': x[:300]})
                return
            if x != y:
                return   # after a divergence the two sides are no longer in the same state

def script_line_of(script, a, x):
    try:
        return M.script_op_at(script, [l for l in a if not l.startswith('#')].index(x))
    except Exception:
        return M.fields(x).get('op', '?')

def c11(run):
    def gen(g):
        g.faults(q(run, 150, 2000))
        g.fsk_fault(q(run, 150, 2000))
        g.exh_setters(q(run, [0x00, 0xff], PRIORS_Q), fault=True)
        g.hist(q(run, 150, 2000))
        g.modem_switch_fault(q(run, 150, 2000))
    return C.execute(run, gen, monitor=chain(M.mon_faults, M.mon_expect, mon_stale_cache, mon_after_fault))

def mon_after_fault(run, script, il, iab, ml):
    """C11, 'once transfers succeed again ...': in a script in which a transfer was made to fail, every later chip dump
    equals the one the specification (the model) prescribes for the same history"""
    a = [l for l in il if not l.startswith('!')]
    faulted = False
    for k, (x, y) in enumerate(zip(a, ml)):
        if M.is_op(x):
            if M.is_op(y) and x != y and not faulted:
                return     # diverged before any failure: not this monitor's business
            if any(e['fault'] is not None for e in M.spi_entries(M.fields(x).get('spi'))):
                faulted = True
        elif faulted and x.startswith('chip ') and y.startswith('chip '):
            run.cov['monitor_checks'] += 1
            if x != y:
                dx, dy = M.dump_of(x), M.dump_of(y)
                diff = ['%s[%02x]: driver %02x, specification %02x' % (pg, i, p, r) for pg in ('s', 'l', 'f') for i, (p, r) in enumerate(zip(dx[pg], dy[pg])) if p != r]
                prev = next((l for l in reversed(a[:k]) if M.is_op(l)), '')
                run.violation('after a failed transfer and successful calls since, the chip is not configured as specified (last call `%s`): %s' % (M.fields(prev).get('op', '?'), '; '.join(diff[:4])), script, {'diff': diff[:20]})
                return

def mon_stale_cache(run, script, il, iab, ml):
    """C11, 'no stale cache content left by the failed attempt': in a script in which a transfer was made to fail, the
    harness' comparison of the register cache with the chip (the '!C01' lines) must stay silent afterwards"""
    faulted = False
    for l in il:
        if M.is_op(l):
            if not faulted and any(e['fault'] is not None for e in M.spi_entries(M.fields(l).get('spi'))):
                faulted = True
        elif faulted and l.startswith('!C01') and ' after env' not in l:   # scripts may rewrite the chip wholesale before a re-creation
            run.cov['monitor_checks'] += 1
            run.violation('after a failed transfer the register cache no longer matches the chip: ' + l[1:], script, {'monitor': l})
            return
    if faulted:
        run.cov['monitor_checks'] += 1

def c12(run):
    def gen(g):
        g.floats(q(run, 1500, 40000))
    return C.execute(run, gen, monitor=chain(M.mon_expect, M.mon_decode))

def c13(run):
    def gen(g):
        r = g.rnd
        pri = [(0, 0, 0), (0xff, 0xff, 0xff), (0x7f, 0xd4, 0x04), (0x92, 0xf0, 0x08), (0xa0, 0x50, 0xf7), (0x0e, 0x1f, 0xff)]
        pri += [(r.randint(0, 255), r.randint(0, 255), r.randint(0, 255)) for _ in range(q(run, 20, 600))]
        g.ldro(pri)
    return C.execute(run, gen, monitor=M.mon_ldro,
                     cone={'lora_set_bandwidth', 'lora_set_modem_config_2', 'lora_set_low_datarate_optimization', 'lora_get_bandwidth'})

def c14(run):
    def gen(g):
        r = g.rnd
        if run.tier == 'thorough':
            iv = list(range(1, 133621))
        else:
            iv = sorted(set(list(range(1, 1100)) + [r.randint(1, 133620) for _ in range(3000)] + list(range(2085, 2100)) + list(range(66820, 67900, 7)) + list(range(67845, 67870)) + list(range(66800, 66830)) + [133619, 133620]))
        g.beacon(iv)
        g.beacon_stale(q(run, 60, 600))
    return C.execute(run, gen, monitor=chain(M.mon_expect, mon_abort_generic), cone={'fsk_ook_tx_start_beacon', 'fsk_ook_tx_stop_beacon'})

def mon_abort_generic(run, script, il, iab, ml):
    if iab:
        n = len([l for l in il if not l.startswith('!') and not l.startswith('#')])
        last = M.script_op_at(script, n)
        run.violation('undefined behaviour in `%s`: %s' % (last, iab), script, {'abort': iab, 'op': last})

def c15(run):
    def gen(g):
        g.opmod(q(run, [0x00, 0xff, 0xa5], [0, 0xff, 0xa5, 0x5a, 0x3c, 0xc3, 0x0f, 0xf0]))
    return C.execute(run, gen, monitor=mon_c15, cone={'set_opmod'})

def mon_c15(run, script, il, iab, ml):
    a = [l for l in il if not l.startswith('!')]
    for k, (x, y) in enumerate(zip(a, ml)):
        if x.startswith('#= opmod'):
            run.cov['monitor_checks'] += 1
            # datasheet check, independent of the model: FSK/OOK RX/TX must program the FSK page
            op, mod = int(x.split()[2]), int(x.split()[3])
            call0 = M.fields(a[k - 1])
            if k + 1 < len(a) and a[k + 1].startswith('chip ') and call0.get('rc') == '0' and mod in (0, 0x20) and op in (3, 5, 6) and '!' not in call0.get('spi', ''):
                d = M.dump_of(a[k + 1])
                want35 = 0x9f if op == 3 else 0x1f
                if d['f'][0x35] != want35 or (op == 3 and d['f'][0x36] != 0x90):
                    run.violation('set_opmod(%d, 0x%02x) entered from the LoRa register page: RegFifoThresh / RegSeqConfig1 were written into the LoRa page, the FSK page still holds thresh=%02x seq=%02x' % (op, mod, d['f'][0x35], d['f'][0x36]), script, {'call': a[k - 1][:300]})
            # the set_opmod line and the dump that follows
            call, callm = a[k - 1], ml[k - 1]
            if k + 1 < len(a) and a[k + 1].startswith('chip ') and (a[k + 1] != ml[k + 1] or M.fields(call).get('h') != M.fields(callm).get('h') or M.fields(call).get('rc') != M.fields(callm).get('rc')):
                dx, dy = M.dump_of(a[k + 1]), M.dump_of(ml[k + 1])
                diff = ['%s[%02x]: driver %02x, specified %02x' % (pg, i, p, r) for pg in ('s', 'l', 'f') for i, (p, r) in enumerate(zip(dx[pg], dy[pg])) if p != r]
                run.violation('after `%s`: %s; handle %s (specified %s), rc %s (specified %s)' % (
                    x[9:], '; '.join(diff[:4]) or 'registers equal', M.fields(call).get('h', '')[:24], M.fields(callm).get('h', '')[:24],
                    M.fields(call).get('rc'), M.fields(callm).get('rc')), script, {'call': call[:300]})
                return

def c16(run):
    def gen(g):
        g.hop(q(run, 300, 4000))
    return C.execute(run, gen, monitor=chain(M.mon_expect, mon_abort_generic), cone={'irq', 'lora_set_frequency_hopping'})

def c17(run):
    def gen(g):
        g.attach()
        g.attach_fsk(q(run, 40, 600))
        for _ in range(q(run, 5, 60)):
            g.attach()
    return C.execute(run, gen, monitor=chain(M.mon_expect, mon_c17, mon_abort_generic), cone={'create', 'irq'})

def mon_c17(run, script, il, iab, ml):
    """the chip is bit-identical before and after handle creation"""
    a = [l for l in il if not l.startswith('!')]
    for k, x in enumerate(a):
        if x.startswith('#= attach'):
            run.cov['monitor_checks'] += 1
            # ... dump, create, '#= attach', dump
            if k >= 2 and k + 1 < len(a) and a[k - 2].startswith('chip ') and a[k + 1].startswith('chip '):
                if a[k - 2] != a[k + 1]:
                    run.violation('handle creation changed the chip state', script, {'before': a[k - 2][:400], 'after': a[k + 1][:400]})
        if M.is_op(x) and x.startswith('create '):
            f = M.fields(x)
            for e in M.spi_entries(f.get('spi')):
                run.cov['monitor_checks'] += 1
                if e['kind'] in ('W', 'WB') or e['reg'] == 0:
                    run.violation('handle creation wrote to the chip or touched the FIFO: %s' % f.get('spi'), script)

def c18(run):
    """link-level: no writable global state in the compiled library; plus the per-request
    device-pointer monitor of the harness on histories"""
    import tempfile, shutil
    d = C.scratch()
    obj = os.path.join(d, 'sx127x.o')
    r = C.sh(['gcc', '-std=gnu99', '-O1', '-c', '-I', os.path.join(C.REPO, 'include'), os.path.join(C.REPO, 'src', 'sx127x.c'), '-o', obj])
    if r.returncode != 0:
        run.violations.append(('library does not compile: ' + r.stderr[-300:], ['# build'], {}))
        return []
    nm = C.sh(['nm', obj]).stdout
    run.cov['monitor_checks'] += 1
    bad = [l for l in nm.splitlines() if re.search(r' [bBdDcCsSgG] ', l)]
    if bad:
        run.violation('library object has writable global/static data: ' + '; '.join(bad[:4]), ['# nm sx127x.o'] + bad)
    size = C.sh(['size', obj]).stdout.splitlines()[-1].split()
    if int(size[1]) != 0 or int(size[2]) != 0:
        run.violation('library object has data=%s bss=%s' % (size[1], size[2]), ['# size sx127x.o'])
    # the bundled SPI backends are part of the library: no writable static data there either
    H = os.path.join(C.ROOT, 'harness')
    for name, extra in (('sx127x_linux_spi', ['-include', 'arpa/inet.h']), ('sx127x_esp_spi', ['-I', os.path.join(H, 'esp_stub')])):
        o = os.path.join(d, name + '.o')
        r = C.sh(['gcc', '-std=gnu99', '-O1', '-w', '-c', '-I', os.path.join(C.REPO, 'include')] + extra + [os.path.join(C.REPO, 'src', name + '.c'), '-o', o])
        run.cov['monitor_checks'] += 1
        if r.returncode != 0:
            run.violation('bundled backend %s.c does not compile against the stubs: %s' % (name, r.stderr[-200:]), ['# build ' + name])
            continue
        bad = [l for l in C.sh(['nm', o]).stdout.splitlines() if re.search(r' [bBdDcCsSgG] ', l)]
        if bad:
            run.violation('bundled backend %s.o has writable global/static data: %s' % (name, '; '.join(bad[:4])), ['# nm ' + name + '.o'] + bad)
    def gen(g):
        g.hist(q(run, 150, 2000)); g.lora_rx(q(run, 20, 300)); g.lora_tx(q(run, 20, 300)); g.fsk_rx(q(run, 20, 300)); g.fsk_tx(q(run, 20, 300))
        g.hop(q(run, 40, 400)); g.mixed(q(run, 20, 300))
    divs = C.execute(run, gen, monitor=chain(M.mon_flags, mon_abort_generic))
    interleave(run)
    return divs

def interleave(run):
    """two histories on two handles bound to two simulated chips, interleaved at call granularity,
    against each history alone (real driver on both sides; the solo runs are also the ones compared
    with the model)"""
    import random
    r = random.Random(run.seed * 7919 + 18)
    solo = [s for s in run.by_hdr.values() if len(s) > 2 and s[1] == 'reset' and 'reset' not in s[2:]
            and run.impl.get(s[0], ([], None))[1] is None]
    r.shuffle(solo)
    pairs = [(solo[2 * k], solo[2 * k + 1]) for k in range(len(solo) // 2)]
    mixed = []
    for k, (a, b) in enumerate(pairs):
        lines = ['# script i%d interleaved' % k, 'reset']
        qa, qb = list(a[2:]), list(b[2:])
        cur = 0
        while qa or qb:
            pick = 0 if (qa and (not qb or r.random() < 0.5)) else 1
            if pick != cur:
                lines.append('dev %d' % pick)
                cur = pick
            # a burst of 1..4 lines of the same radio
            src = qa if pick == 0 else qb
            for _ in range(r.randint(1, 4)):
                if src:
                    lines.append(src.pop(0))
        mixed.append(lines)
    binary, err = C.build_harness('cache')
    if binary is None:
        return
    out = C.run_impl(binary, mixed)
    run.cov['interleaved_pairs'] = len(pairs)
    for k, (a, b) in enumerate(pairs):
        il, iab = out.get(mixed[k][0], ([], None))
        per = {0: [], 1: []}
        cur = 0
        for l in il[1:]:
            if l.startswith('dev '):
                cur = int(l.split()[1])
            else:
                per[cur].append(l)
        for d, sc in ((0, a), (1, b)):
            want = run.impl[sc[0]][0][1:]
            run.cov['monitor_checks'] += 1
            if iab or per[d] != want:
                j = next((j for j in range(min(len(per[d]), len(want))) if per[d][j] != want[j]), min(len(per[d]), len(want)))
                what = 'aborted: %s' % iab if iab else 'radio %d line %d: alone "%s" / interleaved "%s"' % (
                    d, j, (want[j] if j < len(want) else '<end>')[:120], (per[d][j] if j < len(per[d]) else '<end>')[:120])
                run.violation('a handle behaves differently when another radio is driven in between (%s)' % what, mixed[k],
                              {'solo_script': sc[0]})
                break

def backends(run):
    """backend half of C19: the real Linux and ESP-IDF backends from the working tree against an
    interposed ioctl() / stub spi_device_polling_transmit()"""
    d = C.scratch()
    H = os.path.join(C.ROOT, 'harness')
    ren = lambda p: ['-Dsx127x_spi_read_registers=%s_read_registers' % p, '-Dsx127x_spi_read_buffer=%s_read_buffer' % p,
                     '-Dsx127x_spi_write_register=%s_write_register' % p, '-Dsx127x_spi_write_buffer=%s_write_buffer' % p]
    base = ['gcc', '-std=gnu99', '-O1', '-g', '-fsanitize=address,undefined', '-fno-sanitize-recover=all', '-w', '-I', os.path.join(C.REPO, 'include')]
    cmds = [
        base + ['-Dioctl=sx_fake_ioctl', '-include', 'arpa/inet.h'] + ren('lin') + ['-c', os.path.join(C.REPO, 'src', 'sx127x_linux_spi.c'), '-o', os.path.join(d, 'lin.o')],
        base + ['-I', os.path.join(H, 'esp_stub')] + ren('esp') + ['-c', os.path.join(C.REPO, 'src', 'sx127x_esp_spi.c'), '-o', os.path.join(d, 'esp.o')],
        base + ['-I', os.path.join(H, 'esp_stub'), '-I', H, os.path.join(H, 'backends.c'), os.path.join(d, 'lin.o'), os.path.join(d, 'esp.o'), '-o', os.path.join(d, 'bk')],
    ]
    for c in cmds:
        r = C.sh(c)
        if r.returncode != 0:
            run.violation('bundled SPI backend does not build against the test stubs: ' + r.stderr[-300:], ['# backend build'])
            return
    req, ans = os.path.join(d, 'bk.req'), os.path.join(d, 'bk.ans')
    r = C.sh([os.path.join(d, 'bk'), req, ans], env=dict(os.environ, ASAN_OPTIONS='detect_leaks=0'))
    lines = r.stdout.splitlines()
    # correspondence: the same requests through the Lean model of the backends (Sx/Model/Backend.lean),
    # the theorems C19_backend_* are about that model
    if os.path.exists(req) and os.path.exists(ans):
        reqs = open(req).read().splitlines()
        impl = open(ans).read().splitlines()
        rm = C.sh([C.SXMODEL], input='\n'.join(reqs) + '\n')
        model = rm.stdout.splitlines()
        run.cov['backend_requests_compared'] = min(len(impl), len(model))
        run.cov['traces_validated'] = run.cov.get('traces_validated', 0) + 1
        bad_i = next((i for i in range(max(len(impl), len(model), len(reqs)))
                      if i >= len(impl) or i >= len(model) or impl[i] != model[i]), None)
        if bad_i is not None:
            q = reqs[bad_i] if bad_i < len(reqs) else '<none>'
            run.backend_divs = [{'script': q, 'kind': 'backend-model', 'index': bad_i,
                                 'impl': impl[bad_i] if bad_i < len(impl) else '<missing>',
                                 'model': model[bad_i] if bad_i < len(model) else '<missing>'}]
    m = re.search(r'checks=(\d+) violations=(\d+)', r.stdout)
    if m:
        run.cov['monitor_checks'] += int(m.group(1))
        run.cov['backend_checks'] = int(m.group(1))
    bad = [l for l in lines if l.startswith('!C19')]
    if r.returncode != 0 and not bad:
        bad = ['!C19 backend test aborted: ' + (r.stderr.strip().splitlines() or ['exit %d' % r.returncode])[0]]
    if bad:
        run.violation(bad[0][1:], ['# backend test (harness/backends.c)'] + bad[:40], {'count': len(bad)})

def c19(run):
    run.backend_divs = []
    backends(run)
    def gen(g):
        g.hist(q(run, 300, 4000)); g.two_byte(); g.fsk_rx(q(run, 60, 600)); g.fsk_tx(q(run, 60, 600)); g.lora_rx(q(run, 40, 400)); g.lora_tx(q(run, 40, 400))
        g.exh_setters(q(run, [0x00], [0, 0xff]))
    return C.execute(run, gen, monitor=M.mon_flags) + run.backend_divs

# ---------------------------------------------------------------------------------------------
# C20: register dump and the debug_registers tool

def fnv(bs):
    h = 2166136261
    for b in bs:
        h = ((h ^ b) * 16777619) & 0xffffffff
    return h

def chip_view(d):
    """what a read of each register 0x01..0x70 returns, from the simulator's own dump"""
    s, l, f = d['s'], d['l'], d['f']
    is_lora = (s[1] & 0x80) != 0 and (s[1] & 0x40) == 0
    out = [0]
    for a in range(1, 0x71):
        if 0x0d <= a <= 0x3f:
            if is_lora:
                v = l[a]
            elif a == 0x3f:
                v = f[0x3f] & 0x1f
                thr = f[0x35] & 0x3f
                n = len(d['fifo'])
                if n >= 64: v |= 0x80
                if n == 0: v |= 0x40
                if n > thr: v |= 0x20
            else:
                v = f[a]
        else:
            v = s[a]
        out.append(v)
    return out

def mon_c20(run, script, il, iab, ml):
    import json as _json
    for i, kind, args in M.expectations(il):
        if kind != 'dumpregs':
            continue
        ops = M.prev_ops(il, i)
        dumps = [M.dump_of(l) for l in ops if l.startswith('chip ')]
        call = next((M.fields(l) for l in reversed(ops) if l.startswith('dump_registers ')), None)
        if not dumps or call is None:
            run.cov['monitor_skipped'] = run.cov.get('monitor_skipped', 0) + 1
            continue
        run.cov['monitor_checks'] += 1
        ents = M.spi_entries(call.get('spi'))
        if len(ents) != 1 or ents[0]['kind'] != 'RB' or ents[0]['reg'] != 1 or ents[0]['n'] != 0x70 or ents[0]['fault'] is not None:
            run.violation('sx127x_dump_registers is not one raw burst read of 0x70 bytes from address 1: %s' % call.get('spi', '')[:60], script)
            continue
        data = [0] + list(bytes.fromhex(ents[0]['data']))
        rc = call.get('rc', '').split(',')
        if rc[0] != '0' or len(rc) < 2 or int(rc[1], 16) != fnv(data):
            run.violation('sx127x_dump_registers output is not 0 followed by the bytes read (rc=%s)' % call.get('rc'), script)
            continue
        want = chip_view(dumps[-1])
        if data != want:
            k = next(j for j in range(0x71) if data[j] != want[j])
            run.violation('register dump differs from the chip at 0x%02x: dump %02x, chip %02x' % (k, data[k], want[k]), script)
            continue
        cfg = _json.loads(args[0]) if args and args[0] != '{}' else None
        run.c20_cases.append((script, data, cfg))

def tool_kv(text):
    kv = {}
    for line in text.splitlines():
        if line.startswith('\t') and '=' in line:
            k, v = line[1:].split('=', 1)
            kv.setdefault(k, v.strip())
    return kv

LORA_BW = {0x00: '7.8 kHz', 0x10: '10.4 kHz', 0x20: '15.6 kHz', 0x30: '20.8kHz', 0x40: '31.25 kHz', 0x50: '41.7 kHz',
           0x60: '62.5 kHz', 0x70: '125 kHz', 0x80: '250 kHz', 0x90: '500 kHz'}
MODES = {0: 'SLEEP', 1: 'STDBY', 3: 'Transmit (TX)', 5: 'Receive continuous'}

def c20(run):
    d = C.scratch()
    run.c20_cases = []
    H = os.path.join(C.ROOT, 'harness')
    main_c = os.path.join(C.REPO, 'debug_registers', 'main.c')
    san = ['-std=gnu99', '-O1', '-g', '-fsanitize=address,undefined', '-fno-sanitize-recover=all', '-w']
    steps = [['gcc'] + san + ['-Dmain=tool_main', '-c', main_c, '-o', os.path.join(d, 'toolmain.o')],
             ['gcc'] + san + [os.path.join(H, 'toolh.c'), os.path.join(d, 'toolmain.o'), '-o', os.path.join(d, 'toolh')],
             ['gcc'] + san + [main_c, '-o', os.path.join(d, 'debug_registers')]]
    for c in steps:
        r = C.sh(c)
        if r.returncode != 0:
            run.violation('debug_registers does not build: ' + r.stderr[-300:], ['# tool build'])
            return []
    env = dict(os.environ, ASAN_OPTIONS='detect_leaks=0')
    # (a) dumps of configured chips: driver vs model, dump vs chip
    def gen(g):
        g.dumps(q(run, 80, 1200))
    divs = C.execute(run, gen, monitor=mon_c20)
    # (b) the real tool on the real dumps, printed as the README prescribes
    import math
    for script, data, cfg in run.c20_cases[:q(run, 120, 2000)]:
        arg = ','.join('0x%02x' % b for b in data)
        r = C.sh([os.path.join(d, 'debug_registers'), arg], env=env)
        run.cov['monitor_checks'] += 1
        run.cov['tool_runs'] = run.cov.get('tool_runs', 0) + 1
        if r.returncode != 0:
            run.violation('debug_registers fails on a dump in the README format: exit %d %s' % (r.returncode, (r.stderr.strip().splitlines() or [''])[0][:120]), script, {'argument': arg})
            continue
        kv = tool_kv(r.stdout)
        bad = []
        def expect(key, val):
            if kv.get(key) != val:
                bad.append('%s=%s (expected %s)' % (key, kv.get(key), val))
        lora = (data[1] & 0x80) != 0
        expect('LongRangeMode', 'LORA' if lora else 'FSK')
        if (data[1] & 7) in MODES:
            expect('Mode', MODES[data[1] & 7])
        frf = (data[6] << 16) | (data[7] << 8) | data[8]
        expect('Frf', str((frf * 32000000) >> 19))
        if lora:
            if (data[0x1d] & 0xf0) in LORA_BW:
                expect('Bw', LORA_BW[data[0x1d] & 0xf0])
            expect('ImplicitHeaderModeOn', str(data[0x1d] & 1))
            expect('SpreadingFactor', str(data[0x1e] >> 4))
            expect('SyncWord', str(data[0x39]))
            expect('PreambleLength', str((data[0x20] << 8) | data[0x21]))
            expect('PayloadLength', str(data[0x22]))
            expect('RxPayloadCrcOn', str((data[0x1e] >> 2) & 1))
            expect('CodingRate', {1: '4/5', 2: '4/6', 3: '4/7', 4: '4/8'}.get((data[0x1d] >> 1) & 7, kv.get('CodingRate')))
        else:
            div = ((data[2] << 8) | data[3]) + data[0x5d] / 16.0
            if div:
                expect('BitRate', '%f' % (32000000.0 / div))
            expect('Fdev', '%f' % ((32000000.0 / (1 << 19)) * (((data[4] & 0x3f) << 8) | data[5])))
            expect('PayloadLength', str(((data[0x31] & 7) << 8) | data[0x32]))
            for key, reg in (('RxBw', 0x12), ('AfcBw', 0x13)):
                mant = {0: 16, 1: 20, 2: 24}.get((data[reg] >> 3) & 3)
                if mant:   # datasheet: FXOSC / (RxBwMant * 2^(RxBwExp + 2)), the same for FSK and OOK as the driver encodes it
                    expect(key, '%f' % (32000000.0 / (mant * (1 << ((data[reg] & 7) + 2)))))
            expect('PacketFormat', 'Variable' if data[0x30] & 0x80 else 'Fixed')
            expect('CrcOn', '1' if data[0x30] & 0x10 else '0')
            expect('PreambleSize', str((data[0x25] << 8) | data[0x26]))
        # the configured values, where the script recorded them
        if cfg:
            if abs(int(kv.get('Frf', '0')) - cfg['freq']) >= 250:
                bad.append('Frf=%s for a configured carrier of %d Hz' % (kv.get('Frf'), cfg['freq']))
            if lora:
                if kv.get('Bw') != LORA_BW.get(cfg['bw']): bad.append('Bw=%s for bandwidth code %02x' % (kv.get('Bw'), cfg['bw']))
                if kv.get('SpreadingFactor') != str(cfg['sf'] >> 4): bad.append('SpreadingFactor=%s for %02x' % (kv.get('SpreadingFactor'), cfg['sf']))
                if kv.get('SyncWord') != str(cfg['syncword']): bad.append('SyncWord=%s for %d' % (kv.get('SyncWord'), cfg['syncword']))
                if kv.get('PreambleLength') != str(cfg['preamble']): bad.append('PreambleLength=%s for %d' % (kv.get('PreambleLength'), cfg['preamble']))
                if kv.get('ImplicitHeaderModeOn') != str(cfg['implicit']): bad.append('ImplicitHeaderModeOn=%s' % kv.get('ImplicitHeaderModeOn'))
            else:
                if kv.get('PayloadLength') != str(cfg['plen']): bad.append('PayloadLength=%s for a configured length of %d' % (kv.get('PayloadLength'), cfg['plen']))
                if kv.get('PacketFormat') != ('Variable' if cfg['fmt'] else 'Fixed'): bad.append('PacketFormat=%s' % kv.get('PacketFormat'))
                if kv.get('CrcOn') != ('0' if cfg['crc'] == 0x08 else '1'): bad.append('CrcOn=%s for crc type %02x' % (kv.get('CrcOn'), cfg['crc']))
                if kv.get('PreambleSize') != str(cfg['preamble']): bad.append('PreambleSize=%s for %d' % (kv.get('PreambleSize'), cfg['preamble']))
                br = float(kv.get('BitRate', 'nan'))
                step = br * br / 32000000.0 / (16 if cfg['mod'] == 0 else 1)
                if not (abs(br - cfg['bitrate']) <= step + 1e-6):
                    bad.append('BitRate=%s for a configured %r' % (kv.get('BitRate'), cfg['bitrate']))
                if 'fdev' in cfg and not (abs(float(kv.get('Fdev', 'nan')) - cfg['fdev']) < 61.04):
                    bad.append('Fdev=%s for a configured %r' % (kv.get('Fdev'), cfg['fdev']))
        if bad:
            run.violation('debug_registers decodes a dump differently from what was configured/is in the registers: ' + '; '.join(bad[:3]), script, {'argument': arg})
    # (c) argument strings: parser and main() of the real tool (ASan/UBSan) vs the Lean model
    import random as _random
    r = _random.Random(run.seed * 31 + 20)
    def rand_dump(n):
        return [r.randint(0, 255) for _ in range(n)]
    strs = ['', ',', ',,,,', '0x', '0x0', '0', 'x', '0x01', '0x01,', ',0x01', '0x01,0x02', '0X01', '0x1g', ' 0x01 : 0x02 , 0x03 ', '00x1',
            '0,9,26,11,0,82,108,128', 'ff' * 40, '0x' * 50, ',' * 300, '0x00' + ',0x00' * 0x70, '0x00' + ',0x81' * 0x70, '0x00' + ',0x00' * 0x6f]
    for _ in range(q(run, 300, 5000)):
        kind = r.random()
        n = r.choice([0, 1, 2, 0x70, 0x71, 0x72, 0x100, r.randint(0, 0x90)])
        vals = rand_dump(n)
        if kind < 0.3:
            t = ','.join('0x%02x' % v for v in vals)
        elif kind < 0.45:
            t = ','.join('%d' % v for v in vals)           # the README's run example
        elif kind < 0.6:
            t = ', '.join('0x%x' % v for v in vals) + r.choice(['', ',', ' ', ',,'])
        elif kind < 0.75:
            t = ','.join('0x%02x' % v for v in vals)
            t = t[:r.randint(0, len(t))]                     # truncated
        else:
            t = ''.join(r.choice('0123456789abcdefABCDEFx,: gz-') for _ in range(r.randint(0, 120)))
        strs.append(t)
    lines = []
    for t in strs:
        hx = t.encode('latin-1').hex() or '-'
        lines.append('parse ' + hx)
        lines.append('tool ' + hx)
    inp = '\n'.join(lines) + '\n'
    ri = C.sh([os.path.join(d, 'toolh')], input=inp, env=env)
    rm = C.sh([C.SXMODEL], input=inp)
    il, ml = ri.stdout.splitlines(), rm.stdout.splitlines()
    run.cov['tool_strings'] = len(strs)
    run.cov['evaluations'] += len(lines)
    if ri.returncode != 0:
        k = len(il)
        t = strs[min(k // 2, len(strs) - 1)]
        run.violation('debug_registers accesses memory out of bounds (sanitizer abort) for the argument %r: %s' % (t[:60], (ri.stderr.strip().splitlines() or ['?'])[0][:100]),
                      ['# tool argument'] + lines[max(0, k - 1):k + 1], {'argument': t})
    else:
        for k in range(len(lines)):
            a = il[k] if k < len(il) else '<end>'
            b = ml[k] if k < len(ml) else '<end>'
            run.cov['monitor_checks'] += 1
            if a != b:
                divs.append({'script': '# tool argument %r (%s)' % (strs[k // 2][:100], lines[k][:80]), 'kind': 'tool-parser', 'index': k, 'impl': a, 'model': b})
                break
    return divs

CHECKS = {'C01': c01, 'C02': c02, 'C03': c03, 'C04': c04, 'C05': c05, 'C06': c06, 'C07': c07, 'C08': c08, 'C09': c09,
          'C10': c10, 'C11': c11, 'C12': c12, 'C13': c13, 'C14': c14, 'C15': c15, 'C16': c16, 'C17': c17, 'C18': c18, 'C19': c19, 'C20': c20}
LEVEL = {}
