#!/bin/bash
# Runs the repository's pinned test suite (10 Unity tests) with no verification define set.
set -e
D=$(mktemp -d /var/tmp/sxbase.XXXXXX)
trap 'rm -rf "$D"' EXIT
cmake -S /repo/test -B "$D" -G Ninja >/dev/null
cmake --build "$D" >/dev/null
ctest --test-dir "$D" --output-on-failure
"$D/test_sx127x" | tail -15
