#!/usr/bin/env python3
"""check.py <Cxx> [--tier quick|thorough]   |   check.py replay <path>

Decides one property of dernasherbrezon/sx127x (see DESIGN.md):
  1. regenerate lean/Sx/Gen from the working tree, `lake build` the property's theorems,
     audit axioms and forbidden tokens;
  2. build the correspondence harness from the working tree, run generated operation scripts
     through the real driver (C, ASan+UBSan, chip simulator) and through `sxmodel` (the compiled
     Lean model), compare complete traces, evaluate the property's monitors on the real code;
  3. verdict: exit 0, or `VIOLATION property=<id> replay=<path>` and exit 1.
"""
import sys, os, json, time, subprocess, tempfile, shutil, re, hashlib, atexit
from concurrent.futures import ThreadPoolExecutor

ROOT = os.path.dirname(os.path.abspath(__file__))
sys.path.insert(0, os.path.join(ROOT, 'harness'))
REPO = os.environ.get('SX_REPO', '/repo')
LEAN = os.path.join(ROOT, 'lean')
SXMODEL = os.path.join(LEAN, '.lake', 'build', 'bin', 'sxmodel')
NCPU = min(16, os.cpu_count() or 4)
T0 = time.time()

import gen_ops
import monitors

SCRATCH = None
def scratch():
    global SCRATCH
    if SCRATCH is None:
        SCRATCH = tempfile.mkdtemp(prefix='sxverif.', dir='/var/tmp')
        atexit.register(lambda: shutil.rmtree(SCRATCH, ignore_errors=True))
    return SCRATCH

def sh(cmd, **kw):
    return subprocess.run(cmd, capture_output=True, text=True, **kw)

# ----------------------------------------------------------------------------- Lean side
FORBIDDEN = re.compile(r'\bsorry\b|\badmit\b|^\s*axiom\s|native_decide|bv_decide|implemented_by|\bunsafe\s|maxHeartbeats\s+0')

def strip_lean_comments(text):
    text = re.sub(r'/-.*?-/', '', text, flags=re.S)
    return re.sub(r'--[^\n]*', '', text)

def lean_prepare(prop):
    """regenerate facts, build model + theorems of `prop`, audit.  Returns (ok, info).
    Checks of different properties may run at the same time: the part that writes into the
    shared lake project is serialised by a file lock."""
    import fcntl
    with open(os.path.join(LEAN, '.prepare.lock'), 'w') as lk:
        fcntl.flock(lk, fcntl.LOCK_EX)
        try:
            return lean_prepare_locked(prop)
        finally:
            fcntl.flock(lk, fcntl.LOCK_UN)

def lean_prepare_locked(prop):
    info = {'theorems': [], 'axioms': {}, 'log': ''}
    r = sh([sys.executable, os.path.join(ROOT, 'gen', 'extract.py'), '--repo', REPO])
    info['log'] += r.stdout + r.stderr
    if r.returncode != 0:
        info['broken'] = 'extraction of constants from the working tree failed: ' + r.stderr.strip()[-400:]
        return False, info
    targets = ['Sx', 'sxmodel']
    props_file = os.path.join(LEAN, 'Sx', 'Props', prop + '.lean')
    has_props = os.path.exists(props_file)
    if has_props:
        targets.append('Sx.Props.' + prop)
    r = sh(['lake', 'build'] + targets, cwd=LEAN)
    info['log'] += r.stdout[-6000:] + r.stderr[-2000:]
    if r.returncode != 0:
        m = re.findall(r'error: ([^\n]*)', r.stdout + r.stderr)
        info['broken'] = 'lake build failed: ' + '; '.join(m[:4])
        return False, info
    # forbidden tokens anywhere in the library
    bad = []
    for dp, dn, fn in os.walk(os.path.join(LEAN, 'Sx')):
        for f in fn:
            if f.endswith('.lean'):
                txt = strip_lean_comments(open(os.path.join(dp, f)).read())
                for i, line in enumerate(txt.splitlines()):
                    if FORBIDDEN.search(line):
                        bad.append('%s:%d' % (f, i + 1))
    txt = strip_lean_comments(open(os.path.join(LEAN, 'Main.lean')).read())
    if FORBIDDEN.search(txt):
        bad.append('Main.lean')
    if bad:
        info['broken'] = 'forbidden token in ' + ', '.join(bad[:5])
        return False, info
    if has_props:
        src = strip_lean_comments(open(props_file).read())
        # fully qualified names of the theorems of the file (namespaces may be opened and closed)
        names, stack = [], []
        for line in src.splitlines():
            m = re.match(r'^namespace\s+([\w\.]+)', line)
            if m:
                stack.append(m.group(1))
                continue
            m = re.match(r'^end\s+([\w\.]+)\s*$', line)
            if m and stack and stack[-1] == m.group(1):
                stack.pop()
                continue
            m = re.match(r'^\s*theorem\s+([\w\.]+)', line)
            if m:
                names.append('.'.join(stack + [m.group(1)]))
        prefix = ''
        audit = os.path.join(scratch(), 'audit_%s.lean' % prop)
        with open(audit, 'w') as f:
            f.write('import Sx.Props.%s\n' % prop)
            for n in names:
                f.write('#print axioms %s\n' % n)
        r = sh(['lake', 'env', 'lean', audit], cwd=LEAN)
        out = r.stdout + r.stderr
        if r.returncode != 0:
            info['broken'] = 'axiom audit failed: ' + out[-400:]
            return False, info
        allowed = {'propext', 'Classical.choice', 'Quot.sound'}
        for m in re.finditer(r"'([\w\.]+)' depends on axioms: \[([^\]]*)\]", out, flags=re.S):
            axs = [a.strip() for a in m.group(2).replace('\n', ' ').split(',') if a.strip()]
            info['axioms'][m.group(1)] = axs
            if not set(axs) <= allowed:
                info['broken'] = 'theorem %s depends on %s' % (m.group(1), axs)
                return False, info
        for m in re.finditer(r"'([\w\.]+)' does not depend on any axioms", out):
            info['axioms'][m.group(1)] = []
        info['theorems'] = [prefix + n for n in names]
        missing = [t for t in info['theorems'] if t not in info['axioms']]
        if missing:
            info['broken'] = 'no axiom report for ' + ', '.join(missing[:3])
            return False, info
    return True, info

# ----------------------------------------------------------------------------- C side
def build_harness(variant='cache'):
    """variant: 'cache', 'nocache', 'cap<N>'[+'-nocache']"""
    out = os.path.join(scratch(), 'sxh_' + variant)
    if os.path.exists(out):
        return out, None
    flags = ['-std=gnu99', '-O1', '-g', '-DSXH_SANITIZE', '-fsanitize=address,undefined,float-cast-overflow',
             '-fno-sanitize-recover=all', '-ffp-contract=off', '-I', os.path.join(REPO, 'include')]
    if 'nocache' in variant:
        flags.append('-DCONFIG_SX127X_DISABLE_SPI_CACHE')
    covdir = os.environ.get('SXH_COVERAGE')
    if covdir:
        # line/branch coverage of src/sx127x.c under the scripts (tools/coverage.sh): the object
        # and its counters live in a directory that survives this run
        os.makedirs(covdir, exist_ok=True)
        flags = [f for f in flags if not f.startswith('-fsanitize') and not f.startswith('-fno-sanitize') and f != '-DSXH_SANITIZE']
        flags += ['--coverage', '-fprofile-update=atomic']
        out = os.path.join(covdir, 'sxh_' + variant)
        if os.path.exists(out):
            return out, None
    m = re.search(r'cap(\d+)', variant)
    if m:
        flags.append('-DCONFIG_SX127X_MAX_PACKET_SIZE=' + m.group(1))
    # the driver is compiled on its own so that its memcpy calls can be checked against the
    # sub-object they touch (harness/memcheck.h)
    obj = out + '_drv.o'
    r = sh(['gcc'] + flags + ['-include', os.path.join(ROOT, 'harness', 'memcheck.h'), '-c', os.path.join(REPO, 'src', 'sx127x.c'), '-o', obj])
    if r.returncode != 0:
        return None, r.stderr[-2000:]
    r = sh(['gcc'] + flags + [os.path.join(ROOT, 'harness', 'sxh.c'), obj, '-lm', '-o', out])
    if r.returncode != 0:
        return None, r.stderr[-2000:]
    return out, None

def split_scripts(text):
    """list of (header, [lines])"""
    scripts, cur = [], None
    for line in text.splitlines():
        if line.startswith('# script'):
            cur = [line]
            scripts.append(cur)
        elif cur is not None:
            cur.append(line)
    return scripts

def run_impl_chunk(binary, scripts):
    """run scripts through the C harness; a sanitizer abort ends one script and the run
    resumes with the next one.  Returns {header: (lines, abort_text or None)}"""
    res = {}
    i = 0
    env = dict(os.environ, ASAN_OPTIONS='detect_leaks=0:abort_on_error=0', UBSAN_OPTIONS='print_stacktrace=0')
    while i < len(scripts):
        text = '\n'.join('\n'.join(s) for s in scripts[i:]) + '\n'
        p = subprocess.run([binary], input=text, capture_output=True, text=True, env=env, timeout=3600)
        outs = split_out(p.stdout)
        for j, (hdr, lines) in enumerate(outs):
            res[hdr] = (lines, None)
        if p.returncode == 0:
            break
        # the last script printed is the one that aborted
        if not outs:
            res[scripts[i][0]] = ([], 'harness died before any output: ' + p.stderr[-300:])
            i += 1
            continue
        hdr, lines = outs[-1]
        err = p.stderr.strip().splitlines()
        msg = next((l for l in err if 'runtime error' in l or 'ERROR: AddressSanitizer' in l), err[0] if err else 'exit %d' % p.returncode)
        res[hdr] = (lines, msg)
        i += len(outs)
    return res

def split_out(stdout):
    outs, cur = [], None
    for line in stdout.splitlines():
        if line.startswith('# script'):
            cur = (line, [])
            outs.append(cur)
        elif cur is not None:
            cur[1].append(line)
    return outs

def run_parallel(fn, scripts, nchunks=NCPU):
    if not scripts:
        return {}
    n = max(1, min(nchunks, len(scripts)))
    size = (len(scripts) + n - 1) // n
    chunks = [scripts[k:k + size] for k in range(0, len(scripts), size)]
    res = {}
    with ThreadPoolExecutor(max_workers=n) as ex:
        for r in ex.map(fn, chunks):
            res.update(r)
    return res

def run_impl(binary, scripts):
    return run_parallel(lambda ch: run_impl_chunk(binary, ch), scripts)

def run_model(scripts, args=()):
    def chunk(ch):
        text = '\n'.join('\n'.join(s) for s in ch) + '\n'
        p = subprocess.run([SXMODEL] + list(args), input=text, capture_output=True, text=True, timeout=3600)
        res = {}
        for hdr, lines in split_out(p.stdout):
            ub = None
            if lines and ' UB ' in lines[-1] and not lines[-1].startswith('#'):
                ub = lines[-1]
            res[hdr] = (lines, ub)
        if p.returncode != 0:
            res['__error__'] = ([], p.stderr[-400:])
        return res
    return run_parallel(chunk, scripts)

def opname(line):
    return line.split(' ', 1)[0]

def compare(scripts, impl, model, cone=None):
    """first divergence per script between implementation and model traces.
    `cone`: set of operation names whose lines are compared (None = all)"""
    divs = []
    for s in scripts:
        hdr = s[0]
        il, iab = impl.get(hdr, ([], 'missing'))
        ml, mub = model.get(hdr, ([], 'missing'))
        il2 = [l for l in il if not l.startswith('!')]
        if iab:
            # both must stop at the same operation: the model with a UB outcome
            n = len(il2)
            if mub and len(ml) == n + 1 and ml[:n] == il2:
                continue
            divs.append({'script': hdr, 'kind': 'abort', 'index': n, 'impl': 'ABORT: ' + iab,
                         'model': ml[n] if len(ml) > n else '<end>'})
            continue
        if mub:
            n = len(ml) - 1
            divs.append({'script': hdr, 'kind': 'model-ub', 'index': n, 'impl': il2[n] if len(il2) > n else '<end>', 'model': mub})
            continue
        if il2 == ml:
            continue
        for k in range(max(len(il2), len(ml))):
            a = il2[k] if k < len(il2) else '<end>'
            b = ml[k] if k < len(ml) else '<end>'
            if a != b:
                if cone is not None and opname(a) not in cone and opname(b) not in cone and not a.startswith('chip '):
                    continue
                divs.append({'script': hdr, 'kind': classify(a, b), 'index': k, 'impl': a, 'model': b})
                break
    return divs

def classify(a, b):
    """driver divergence vs simulator mismatch: a response value that differs while all earlier
    requests agree points at the chip simulators"""
    fa, fb = monitors.fields(a), monitors.fields(b)
    if fa.get('spi') != fb.get('spi') and fa.get('spi') is not None and fb.get('spi') is not None:
        ea, eb = fa['spi'].split(';'), fb['spi'].split(';')
        for x, y in zip(ea, eb):
            if x != y:
                rx, ry = x.split('=')[0], y.split('=')[0]
                if rx == ry and x[0] == 'R':
                    return 'simulator'
                return 'driver-request'
        return 'driver-request'
    if a.startswith('chip ') or b.startswith('chip '):
        return 'chip-state'
    return 'driver-result'

# ----------------------------------------------------------------------------- verdicts
def write_replay(prop, tag, script_lines, detail):
    d = os.path.join(ROOT, 'replay')
    os.makedirs(d, exist_ok=True)
    h = hashlib.sha1(('\n'.join(script_lines) + tag).encode()).hexdigest()[:10]
    path = os.path.join(d, '%s-%s.ops' % (prop, h))
    with open(path, 'w') as f:
        f.write('\n'.join(script_lines) + '\n')
    with open(path + '.json', 'w') as f:
        json.dump(detail, f, indent=1)
    return path

def load_known():
    return json.load(open(os.path.join(ROOT, 'known_findings.json')))

def matches_known(prop, finding, known):
    for k in known.get('open', []):
        if k['property'] != prop and prop not in k.get('also', []):
            continue
        if re.search(k['signature'], finding):
            return k
    return None

class Run:
    def __init__(self, prop, tier, seed):
        self.prop, self.tier, self.seed = prop, tier, seed
        self.violations = []       # (text, script, detail)
        self.known_hits = {}
        self.cov = {'programs': 0, 'evaluations': 0, 'monitor_checks': 0, 'families': {}, 'samples': [],
                    'traces_validated_against_impl': 0}
        self.distinct = set()
        self.known = load_known()

    def violation(self, text, script_lines, detail=None):
        k = matches_known(self.prop, text, self.known)
        if k:
            self.known_hits.setdefault(k['id'], (k, text))
            return
        self.violations.append((text, script_lines, detail or {}))

def finish(run, lean_ok, lean_info, divs, scripts_by_hdr, level='proof', extra_assumptions=()):
    prop = run.prop
    rc = 0
    for kid, (k, text) in sorted(run.known_hits.items()):
        print('KNOWN-FINDING: property=%s %s [%s]' % (prop, k['what'], kid))
    lines = []
    if run.violations:
        text, script, detail = run.violations[0]
        import collections
        classes = collections.Counter(re.sub(r'\b[0-9a-f]*\d[0-9a-f]*\b', '#', v[0])[:90] for v in run.violations)
        detail = dict(detail, finding=text, count=len(run.violations), classes=classes.most_common(25))
        for c, k in classes.most_common(12):
            print('  finding class x%d: %s' % (k, c))
        path = write_replay(prop, text, script, detail)
        print('finding: ' + text)
        lines.append('VIOLATION property=%s replay=%s' % (prop, path))
        rc = 1
    elif not lean_ok:
        detail = {'broken_obligation': lean_info.get('broken'), 'log_tail': lean_info.get('log', '')[-1500:]}
        path = write_replay(prop, 'unproved', ['# no failing input found; the obligation below no longer checks'], detail)
        print('broken obligation: %s' % lean_info.get('broken'))
        lines.append('VIOLATION property=%s replay=%s no-failing-input-found' % (prop, path))
        rc = 1
    elif divs:
        d = divs[0]
        detail = {'correspondence': d, 'count': len(divs), 'kinds': sorted(set(x['kind'] for x in divs))}
        path = write_replay(prop, 'corr' + d['script'], scripts_by_hdr.get(d['script'], [d['script']]), detail)
        print('correspondence broken (%d scripts), first: %s op #%d kind=%s\n  impl : %s\n  model: %s' % (
            len(divs), d['script'], d['index'], d['kind'], d['impl'][:300], d['model'][:300]))
        lines.append('VIOLATION property=%s replay=%s no-failing-input-found' % (prop, path))
        rc = 1
    for l in lines:
        print(l)
    th = lean_info.get('theorems', [])
    cov = run.cov
    ev = {
        'property_id': prop, 'tier': run.tier, 'seed': run.seed, 'level': level,
        'coverage': {
            'obligations': max(1, len(th)), 'discharged': len(th) if lean_ok else 0,
            'checker_cmd': 'cd lean && lake build Sx.Props.%s && lake env lean <#print axioms of every theorem>' % prop,
            'trusted_base': ['Lean 4.33 kernel', 'axioms: ' + json.dumps(lean_info.get('axioms', {})),
                             'chip model Sx/Chip.lean (datasheet behaviour, also implemented by harness/sxh.c)',
                             'soft-float Sx/F.lean as a description of IEEE-754 binary32/64 RNE arithmetic',
                             'gen/extract.py, harness/sxh.c, harness/gen_ops.py, check.py (correspondence = differential testing)'] + list(extra_assumptions),
            'theorems': th,
            'programs': cov['programs'], 'evaluations': cov['evaluations'],
            'distinct_nontrivial': len(run.distinct),
            'rule': 'evaluations = operation lines executed on both the real driver and the model; distinct_nontrivial = distinct (operation, return code, request-shape of its SPI trace, callback kinds) tuples seen on the real driver',
            'traces_validated_against_impl': cov['traces_validated_against_impl'],
            'monitor_checks': cov['monitor_checks'], 'families': cov['families'],
            'correspondence_divergences': len(divs),
            'samples': cov['samples'][:6],
            'extra': {k: v for k, v in cov.items() if k not in ('programs', 'evaluations', 'monitor_checks', 'families', 'samples', 'traces_validated_against_impl')},
        },
        'assumptions': ['little-endian host', 'chip behaves as Sx/Chip.lean states (DESIGN.md section 4)'] + list(extra_assumptions),
        'wall_s': round(time.time() - T0, 2),
        'violations': len(run.violations) + (0 if lean_ok else 1),
    }
    os.makedirs(os.path.join(ROOT, 'evidence'), exist_ok=True)
    with open(os.path.join(ROOT, 'evidence', prop + '.json'), 'w') as f:
        json.dump(ev, f, indent=1)
    print('%s %s: %s (%d scripts, %d ops, %d monitor checks, %d theorems, %.1fs)' % (
        prop, run.tier, 'OK' if rc == 0 else 'FAIL', cov['programs'], cov['evaluations'], cov['monitor_checks'], len(th), time.time() - T0))
    return rc

def shape(line):
    f = monitors.fields(line)
    spi = f.get('spi', '')
    sh_ = ';'.join(re.sub(r'[=:].*', '', e) for e in spi.split(';') if e)
    cb = ','.join(re.sub(r':.*', '', e) for e in f.get('cb', '').split(';') if e)
    return (opname(line), f.get('rc', '').split(',')[0], sh_[:80], cb)

def execute(run, gen_fn, variants=('cache',), cone=None, monitor=None, model_args=(), strip_faults=False, corpus=True):
    """generate, run both sides, compare, monitor.  Returns divergences."""
    prop = run.prop
    g = gen_ops.Scripts(run.seed)
    # corpus first
    corpus_dir = os.path.join(ROOT, 'corpus')
    text = ''
    n = 0
    for fn in sorted(os.listdir(corpus_dir)) if corpus else []:
        if fn.endswith('.ops'):
            n += 1
            body = open(os.path.join(corpus_dir, fn)).read()
            text += '# script c%d corpus %s\n' % (n, fn) + '\n'.join(l for l in body.splitlines() if not l.startswith('# ')) + '\n'
    gen_fn(g)
    text += g.text()
    if strip_faults:
        # fault positions and in-operation schedules are keyed by transfer index, which is not
        # comparable between the cached and the uncached build: faults are dropped, scheduled
        # events are applied right before the operation instead
        text = re.sub(r' ![0-9]+=[0-9a-fx]+', '', text)
        out = []
        for line in text.splitlines():
            if ' @' in line and not line.startswith('#'):
                head, *evs = line.split(' @')
                for e in evs:
                    out.append('env ' + e.split(' ', 1)[1])
                out.append(head)
            else:
                out.append(line)
        text = '\n'.join(out) + '\n' 
    scripts = split_scripts(text)
    if len(variants) and variants[0] != 'cache':
        # keep the script names of different builds apart
        scripts = [[s[0] + ' [' + variants[0] + ']'] + s[1:] for s in scripts]
    by_hdr = {s[0]: s for s in scripts}
    run.by_hdr = dict(getattr(run, 'by_hdr', {}), **by_hdr)
    binary, err = build_harness(variants[0])
    if binary is None:
        run.violations.append(('harness does not build against the working tree: ' + err[-300:], ['# build failure'], {}))
        return []
    impl = run_impl(binary, scripts)
    model = run_model(scripts, model_args)
    run.impl, run.model = impl, model
    divs = compare(scripts, impl, model, cone)
    run.cov['programs'] += len(scripts)
    for s in scripts:
        fam = s[0].split()[3] if len(s[0].split()) > 3 else '?'
        run.cov['families'][fam] = run.cov['families'].get(fam, 0) + 1
        il = impl.get(s[0], ([], None))[0]
        ops = [l for l in il if not l.startswith('!') and not l.startswith('#')]
        run.cov['evaluations'] += len(ops)
        for l in ops:
            if ' rc=' in l:
                run.distinct.add(shape(l))
    run.cov['traces_validated_against_impl'] += len(scripts) - len(divs)
    for s in scripts[len(scripts) // 2: len(scripts) // 2 + 2]:
        run.cov['samples'].append({'script': s[:12], 'impl_trace_head': [l[:200] for l in impl.get(s[0], ([], None))[0][:6]]})
    if monitor:
        for s in scripts:
            il, iab = impl.get(s[0], ([], None))
            ml, _ = model.get(s[0], ([], None))
            monitor(run, s, il, iab, ml)
    return divs

def main():
    if len(sys.argv) >= 3 and sys.argv[1] == 'replay':
        return replay(sys.argv[2])
    prop = sys.argv[1]
    tier = 'quick'
    if '--tier' in sys.argv:
        tier = sys.argv[sys.argv.index('--tier') + 1]
    tier = os.environ.get('VERIF_TIER', tier)
    seed = int(os.environ.get('VERIF_SEED', '1'))
    import props
    if prop not in props.CHECKS:
        print('no check registered for ' + prop)
        return 2
    run = Run(prop, tier, seed)
    lean_ok, lean_info = lean_prepare(prop)
    if lean_ok and tier == 'thorough' and os.path.exists(os.path.join(LEAN, 'Sx', 'Props', prop + '.lean')):
        # independent re-check of the compiled property module by the toolchain's leanchecker
        r = sh(['lake', 'env', 'leanchecker', 'Sx.Props.' + prop], cwd=LEAN)
        lean_info['leanchecker'] = 'ok' if r.returncode == 0 else (r.stdout + r.stderr)[-300:]
        run.cov['leanchecker'] = lean_info['leanchecker'][:80]
        if r.returncode != 0:
            lean_ok = False
            lean_info['broken'] = 'leanchecker rejects Sx.Props.%s: %s' % (prop, lean_info['leanchecker'])
    if not os.path.exists(SXMODEL):
        print('sxmodel missing and cannot be built: ' + str(lean_info.get('broken')))
        lean_ok = False
        divs = []
    else:
        # when the model no longer builds from the regenerated facts, the previously built
        # executable still serves the search for a failing input
        divs = props.CHECKS[prop](run)
    return finish(run, lean_ok, lean_info, divs, getattr(run, 'by_hdr', {}), **props.LEVEL.get(prop, {}))

def replay_tool(path):
    """replay for C20: every line of the file is an argument string for debug_registers; the real
    parser and main() (ASan/UBSan) and the Lean model are run on it"""
    d = scratch()
    H = os.path.join(ROOT, 'harness')
    main_c = os.path.join(REPO, 'debug_registers', 'main.c')
    san = ['-std=gnu99', '-O1', '-g', '-fsanitize=address,undefined', '-fno-sanitize-recover=all', '-w']
    for c in (['gcc'] + san + ['-Dmain=tool_main', '-c', main_c, '-o', os.path.join(d, 'toolmain.o')],
              ['gcc'] + san + [os.path.join(H, 'toolh.c'), os.path.join(d, 'toolmain.o'), '-o', os.path.join(d, 'toolh')]):
        r = sh(c)
        if r.returncode != 0:
            print(r.stderr[-400:])
            return 2
    sh([sys.executable, os.path.join(ROOT, 'gen', 'extract.py'), '--repo', REPO])
    sh(['lake', 'build', 'sxmodel'], cwd=LEAN)
    args = [l.rstrip('\n') for l in open(path) if not l.startswith('#')]
    if os.path.exists(path + '.json'):
        try:
            a = json.load(open(path + '.json')).get('argument')
            if a is not None:
                args.append(a)
        except Exception:
            pass
    for t in args:
        hx = t.encode('latin-1').hex() or '-'
        inp = 'parse %s\ntool %s\n' % (hx, hx)
        ri = sh([os.path.join(d, 'toolh')], input=inp, env=dict(os.environ, ASAN_OPTIONS='detect_leaks=0'))
        rm = sh([SXMODEL], input=inp)
        print('argument %r' % t[:100])
        for l in ri.stdout.splitlines():
            print('  impl : ' + l[:200])
        if ri.returncode != 0:
            print('  impl aborted: ' + (ri.stderr.strip().splitlines() or ['?'])[0][:200])
        for l in rm.stdout.splitlines():
            print('  model: ' + l[:200])
    return 0

def replay(path):
    """re-run a replay script on a fresh harness build and print both traces"""
    head = open(path).read(200)
    if path.endswith('.args') or head.startswith('# tool'):
        return replay_tool(path)
    text = open(path).read()
    mcap = re.search(r'\[cap(\d+)\]', text.splitlines()[0] if text else '')
    binary, err = build_harness('cap' + mcap.group(1) if mcap else 'cache')
    if binary is None:
        print(err)
        return 2
    if not text.startswith('# script'):
        text = '# script r1 replay\n' + text
    scripts = split_scripts(text)
    impl = run_impl(binary, scripts)
    sh([sys.executable, os.path.join(ROOT, 'gen', 'extract.py'), '--repo', REPO])
    sh(['lake', 'build', 'sxmodel'], cwd=LEAN)
    model = run_model(scripts, ('--cap', mcap.group(1)) if mcap else ())
    for s in scripts:
        il, iab = impl.get(s[0], ([], None))
        ml, _ = model.get(s[0], ([], None))
        print(s[0])
        for k in range(max(len(il), len(ml))):
            a = il[k] if k < len(il) else '<end>'
            print('  impl : ' + a[:400])
            if a.startswith('!'):
                continue
        print('  -- model --')
        for l in ml:
            print('  model: ' + l[:400])
        if iab:
            print('  impl aborted: ' + iab)
    if os.path.exists(path + '.json'):
        print(open(path + '.json').read())
    return 0

if __name__ == '__main__':
    sys.exit(main())
