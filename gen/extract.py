#!/usr/bin/env python3
"""Regenerate lean/Sx/Gen/Consts.lean from the working tree of the repository.

Everything in the C sources that is a *table or constant* is read mechanically, with the
values coming from the compiler (a generated C program prints them), never from a regex:

  * REG* addresses                       include/sx127x_registers.h
  * every enumerator of every enum,      include/sx127x.h
    error codes, MAX_* sizes
  * object-like #defines of src/sx127x.c (integer ones as Nat, float ones as binary32 bits)
  * the never-cache list                 statements `shadow_registers_sync[X] = SHADOW_IGNORE`
                                         in the body of sx127x_create
  * sizeof / offsetof facts of struct sx127x_t for the default configuration

Usage: extract.py [--repo DIR] [--out FILE]; exit 2 when the source no longer has the
expected shape (the tie is broken; callers turn that into a verdict).
"""
import argparse, os, re, subprocess, sys, tempfile, shutil

def die(msg):
    print("extract: " + msg, file=sys.stderr)
    sys.exit(2)

def strip_comments(s):
    s = re.sub(r'/\*.*?\*/', '', s, flags=re.S)
    s = re.sub(r'//[^\n]*', '', s)
    return s

def main():
    ap = argparse.ArgumentParser()
    ap.add_argument('--repo', default=os.environ.get('SX_REPO', '/repo'))
    ap.add_argument('--out', default=os.path.join(os.path.dirname(os.path.abspath(__file__)), '..', 'lean', 'Sx', 'Gen', 'Consts.lean'))
    a = ap.parse_args()
    repo = a.repo
    inc = os.path.join(repo, 'include')
    hdr = open(os.path.join(inc, 'sx127x.h')).read()
    regs = open(os.path.join(inc, 'sx127x_registers.h')).read()
    src = open(os.path.join(repo, 'src', 'sx127x.c')).read()

    reg_names = re.findall(r'^\s*#define\s+(REG\w+)\s+\S+', regs, flags=re.M)
    if len(reg_names) < 80:
        die("register header: expected >= 80 REG* defines, found %d" % len(reg_names))
    hdr_nc = strip_comments(hdr)
    enum_names = []
    enum_groups = []
    for m in re.finditer(r'typedef\s+enum\s*\{(.*?)\}\s*(\w+)\s*;', hdr_nc, flags=re.S):
        body, tname = m.group(1), m.group(2)
        names = re.findall(r'\b([A-Za-z_]\w*)\s*(?:=[^,}]*)?(?:,|$)', body.strip(), flags=re.M)
        names = [n for n in names if n]
        enum_groups.append((tname, names))
        enum_names += names
    if len(enum_groups) < 20:
        die("sx127x.h: expected >= 20 enums, found %d" % len(enum_groups))
    hdr_defs = [n for n in re.findall(r'^\s*#define\s+(\w+)\s+\S+', hdr_nc, flags=re.M) if n != 'sx127x_h']
    src_nc = strip_comments(src)
    src_defs = re.findall(r'^\s*#define\s+(\w+)[ \t]+(\S[^\n]*)$', src_nc, flags=re.M)
    int_defs, flt_defs = [], []
    for n, body in src_defs:
        if n in ('ERROR_CHECK', 'ERROR_CHECK_NOCODE', 'CHECK_MODULATION', 'CHECK_FSK_OOK_MODULATION'):
            continue
        if re.search(r'\d\.\d*f|OSCILLATOR_FREQUENCY', body):
            flt_defs.append(n)
        else:
            int_defs.append(n)
    # the enum local to sx127x.c
    local_enums = []
    for m in re.finditer(r'typedef\s+enum\s*\{(.*?)\}\s*(\w+)\s*;', src_nc, flags=re.S):
        names = re.findall(r'\b([A-Za-z_]\w*)\s*(?:=[^,}]*)?(?:,|$)', m.group(1).strip(), flags=re.M)
        local_enums += [n for n in names if n]

    # never-cache list
    mc = re.search(r'int\s+sx127x_create\s*\([^)]*\)\s*\{(.*?)\n\}', src_nc, flags=re.S)
    if not mc:
        die("sx127x_create not found")
    ignore = re.findall(r'shadow_registers_sync\s*\[\s*(\w+)\s*\]\s*=\s*SHADOW_IGNORE\s*;', mc.group(1))
    if not ignore:
        die("no never-cache entries found in sx127x_create")

    tmp = tempfile.mkdtemp(prefix='sxgen.', dir='/var/tmp')
    try:
        cfile = os.path.join(tmp, 'p.c')
        with open(cfile, 'w') as f:
            f.write('#include <stdio.h>\n#include <string.h>\n#include <stddef.h>\n#include <stdint.h>\n#include "sx127x.h"\n#include "sx127x_registers.h"\n')
            # local defines of sx127x.c re-declared textually (object-like only)
            for n, body in src_defs:
                if n in int_defs or n in flt_defs:
                    f.write('#define %s %s\n' % (n, body))
            for m in re.finditer(r'typedef\s+enum\s*\{.*?\}\s*\w+\s*;', src_nc, flags=re.S):
                f.write(m.group(0) + '\n')
            f.write('int main(void){\n')
            for n in reg_names + enum_names + hdr_defs + int_defs + local_enums:
                f.write('  printf("I %s %%lld\\n", (long long)(%s));\n' % (n, n))
            for n in flt_defs:
                f.write('  { float v = (float)(%s); uint32_t u; memcpy(&u,&v,4); printf("F %s %%u\\n", u); }\n' % (n, n))
            for n in ignore:
                f.write('  printf("G %s %%lld\\n", (long long)(%s));\n' % (n, n))
            f.write('  printf("I SIZEOF_HANDLE %zu\\n", sizeof(struct sx127x_t));\n')
            f.write('  printf("I SIZEOF_PACKET %zu\\n", sizeof(((struct sx127x_t*)0)->packet));\n')
            f.write('  return 0; }\n')
        exe = os.path.join(tmp, 'p')
        r = subprocess.run(['gcc', '-std=gnu99', '-w', '-I', inc, cfile, '-o', exe], capture_output=True, text=True)
        if r.returncode != 0:
            die("constant printer does not compile:\n" + r.stderr[:2000])
        out = subprocess.run([exe], capture_output=True, text=True).stdout
    finally:
        shutil.rmtree(tmp, ignore_errors=True)

    ints, flts, ign = {}, {}, []
    for line in out.splitlines():
        k, n, v = line.split()
        if k == 'I':
            if n in ints and ints[n] != int(v):
                die("conflicting values for " + n)
            ints[n] = int(v)
        elif k == 'F':
            flts[n] = int(v)
        else:
            ign.append((n, int(v)))
    L = []
    L.append('/- GENERATED by gen/extract.py from the repository working tree. Do not edit. -/')
    L.append('namespace Sx.Gen')
    for n in sorted(ints):
        v = ints[n]
        if v < 0:
            L.append('def %s : Int := %d' % (n, v))
        else:
            L.append('@[reducible] def %s : Nat := 0x%x' % (n, v))
    for n in sorted(flts):
        L.append('/-- binary32 bit pattern of the float-valued macro -/')
        L.append('@[reducible] def %s_bits : UInt32 := 0x%08x' % (n, flts[n]))
    L.append('/-- addresses marked SHADOW_IGNORE in sx127x_create, in source order -/')
    L.append('@[reducible] def ignoreList : List Nat := [' + ', '.join('0x%02x' % v for _, v in ign) + ']')
    L.append('def ignoreNames : List String := [' + ', '.join('"%s"' % n for n, _ in ign) + ']')
    for t, names in enum_groups:
        L.append('@[reducible] def enum_%s : List Nat := [' % t + ', '.join(names) + ']')
    L.append('end Sx.Gen')
    text = '\n'.join(L) + '\n'
    os.makedirs(os.path.dirname(a.out), exist_ok=True)
    old = open(a.out).read() if os.path.exists(a.out) else None
    if old != text:
        with open(a.out, 'w') as f:
            f.write(text)
        print("extract: wrote %s (%d ints, %d floats, %d never-cache)" % (a.out, len(ints), len(flts), len(ign)))
    else:
        print("extract: unchanged (%d ints, %d floats, %d never-cache)" % (len(ints), len(flts), len(ign)))
    tool_facts(repo, os.path.join(os.path.dirname(a.out), 'Tool.lean'))
    backend_facts(repo, os.path.join(os.path.dirname(a.out), 'Backend.lean'))

def tool_facts(repo, out):
    """facts about debug_registers/main.c that the C20 theorems rest on: every index the decoders
    use on the register array is a literal, the largest of them, and the number of values main()
    insists on before it calls a decoder"""
    path = os.path.join(repo, 'debug_registers', 'main.c')
    src = strip_comments(open(path).read())
    idx = re.findall(r'\b(?:regs|output|registers)\s*\[([^\]]*)\]', src)
    LIT = r'\s*(0[xX][0-9a-fA-F]+|\d+)\s*'
    bounds = []
    literal = True
    for e in idx:
        if re.fullmatch(LIT, e):
            bounds.append(int(e.strip(), 0))
            continue
        # the one other shape that is understood: `BASE + i` inside `for (int i = 0; i < V; i++)`
        # where V was assigned `(… & MASK) + 1`: the index is at most BASE + MASK
        m = re.fullmatch(r'\s*(0[xX][0-9a-fA-F]+|\d+)\s*\+\s*(\w+)\s*', e)
        ok = False
        if m:
            base, var = int(m.group(1), 0), m.group(2)
            loop = re.search(r'for\s*\(\s*int\s+%s\s*=\s*0\s*;\s*%s\s*<\s*(\w+)\s*;\s*%s\+\+\s*\)[^;]*\[\s*%s\s*\+\s*%s\s*\]' % (var, var, var, re.escape(m.group(1)), var), src)
            if loop:
                lim = loop.group(1)
                asg = re.search(r'\b%s\s*=\s*\([^;&]*&\s*(0[bB][01]+|0[xX][0-9a-fA-F]+|\d+)\s*\)\s*\+\s*1\s*;' % lim, src)
                if asg:
                    t = asg.group(1)
                    mask = int(t[2:], 2) if t.lower().startswith('0b') else int(t, 0)
                    bounds.append(base + mask)
                    ok = True
        if not ok:
            literal = False
    mx = max(bounds or [0])
    m = re.search(r'if\s*\(\s*output_length\s*<\s*(0[xX][0-9a-fA-F]+|\d+)\s*\)\s*\{[^}]*return\s+EXIT_FAILURE', src, flags=re.S)
    guard = int(m.group(1), 0) if m else 0
    # the guard must stand between the parser and the first decoder call
    main_body = src[src.index('int main('):]
    guard_first = bool(m) and main_body.find('output_length <') < main_body.find('dump_lora_registers(')
    text = '\n'.join([
        '/- GENERATED by gen/extract.py from debug_registers/main.c. Do not edit. -/',
        'namespace Sx.Gen',
        '/-- every subscript of the register array in the tool is an integer literal (or the bounded sync-word loop index) -/',
        '@[reducible] def toolIndicesLiteral : Bool := %s' % ('true' if literal else 'false'),
        '/-- an upper bound of all of them -/',
        '@[reducible] def toolMaxIndex : Nat := 0x%x' % mx,
        '/-- main() returns EXIT_FAILURE before any decoder when fewer values than this were parsed (0 = no such guard) -/',
        '@[reducible] def toolMinValues : Nat := 0x%x' % (guard if guard_first else 0),
        'end Sx.Gen', ''])
    old = open(out).read() if os.path.exists(out) else None
    if old != text:
        open(out, 'w').write(text)
        print("extract: wrote %s" % out)

def backend_facts(repo, out):
    """constants of the bundled SPI backends: the transfer limit and the sizes of the local arrays
    of src/sx127x_linux_spi.c (values from the compiler), the error codes involved"""
    lin = strip_comments(open(os.path.join(repo, 'src', 'sx127x_linux_spi.c')).read())
    esp = strip_comments(open(os.path.join(repo, 'src', 'sx127x_esp_spi.c')).read())
    defs = re.findall(r'^\s*#define\s+(\w+)[ \t]+(\S[^\n]*)$', lin, flags=re.M)
    if not any(n == 'SPI_MAX_TRANSFER_SIZE' for n, _ in defs):
        die("sx127x_linux_spi.c: SPI_MAX_TRANSFER_SIZE not found")
    # local byte arrays: name -> size expression, per function
    arrays = []
    for fm in re.finditer(r'int\s+sx127x_spi_(\w+)\s*\([^)]*\)\s*\{(.*?)\n\}', lin, flags=re.S):
        for am in re.finditer(r'uint8_t\s+(\w+)\s*\[([^\]]+)\]', fm.group(2)):
            arrays.append((fm.group(1), am.group(1), am.group(2)))
    stub = os.path.join(os.path.dirname(os.path.abspath(__file__)), '..', 'harness', 'esp_stub')
    tmp = tempfile.mkdtemp(prefix='sxgen.', dir='/var/tmp')
    try:
        cfile = os.path.join(tmp, 'b.c')
        with open(cfile, 'w') as f:
            f.write('#include <stdio.h>\n#include <errno.h>\n#include <stdint.h>\n#include "esp_err.h"\n')
            for n, body in defs:
                f.write('#define %s %s\n' % (n, body))
            f.write('int main(void){\n')
            f.write('  printf("SPI_MAX_TRANSFER_SIZE %lld\\n", (long long)(SPI_MAX_TRANSFER_SIZE));\n')
            f.write('  printf("ENOMEM %lld\\n", (long long)(ENOMEM));\n')
            f.write('  printf("ESP_ERR_INVALID_ARG %lld\\n", (long long)(ESP_ERR_INVALID_ARG));\n')
            f.write('  printf("ESP_OK %lld\\n", (long long)(ESP_OK));\n')
            for fn, an, ex in arrays:
                f.write('  printf("LIN_%s_%s_SIZE %%lld\\n", (long long)(%s));\n' % (fn, an, ex))
            f.write('  return 0; }\n')
        exe = os.path.join(tmp, 'b')
        r = subprocess.run(['gcc', '-std=gnu99', '-w', '-I', stub, cfile, '-o', exe], capture_output=True, text=True)
        if r.returncode != 0:
            die("backend constant printer does not compile:\n" + r.stderr[:2000])
        vals = [l.split() for l in subprocess.run([exe], capture_output=True, text=True).stdout.splitlines()]
    finally:
        shutil.rmtree(tmp, ignore_errors=True)
    L = ['/- GENERATED by gen/extract.py from src/sx127x_linux_spi.c, src/sx127x_esp_spi.c, <errno.h> and the ESP-IDF stub header. Do not edit. -/',
         'namespace Sx.Gen']
    for n, v in vals:
        v = int(v)
        if n in ('ENOMEM', 'ESP_ERR_INVALID_ARG', 'ESP_OK'):
            L.append('@[reducible] def %s : Int := %d' % (n, v))
        else:
            L.append('@[reducible] def %s : Nat := %d' % (n, v))
    # the register-length guards, as written: `data_length == 0 || data_length > K`, per function
    for tag, txt in (('LIN', lin), ('ESP', esp)):
        for fn in ('read_registers', 'write_register'):
            fm = re.search(r'int\s+sx127x_spi_%s\s*\([^)]*\)\s*\{(.*?)\n\}' % fn, txt, flags=re.S)
            km = fm and re.search(r'data_length\s*==\s*0\s*\|\|\s*data_length\s*>\s*(\d+)', fm.group(1))
            if not km:
                die("%s backend: length guard of %s not found" % (tag, fn))
            L.append('/-- K in the guard `data_length == 0 || data_length > K` of sx127x_spi_%s -/' % fn)
            L.append('@[reducible] def %s_%s_GUARD : Nat := %s' % (tag, fn, km.group(1)))
    L += ['end Sx.Gen', '']
    text = '\n'.join(L)
    old = open(out).read() if os.path.exists(out) else None
    if old != text:
        open(out, 'w').write(text)
        print("extract: wrote %s" % out)

if __name__ == '__main__':
    main()
