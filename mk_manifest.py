#!/usr/bin/env python3
"""Writes MANIFEST.json from the table below (so that it stays valid and in sync with what is
actually built).  A property is claimed only when lean/Sx/Props/<id>.lean exists."""
import json, os
ROOT = os.path.dirname(os.path.abspath(__file__))

TRUST = ("Lean 4.33 kernel; axioms per theorem are printed into the evidence (only propext, Classical.choice, Quot.sound are accepted; "
         "no native_decide, no bv_decide, no sorry). The theorem is about the hand-written Lean model (lean/Sx/Model/Driver.lean, Sx/Exec.lean) "
         "and the chip model (Sx/Chip.lean, datasheet behaviour, an assumption). The tie to /repo is (a) constants, enumerators and the "
         "never-cache list regenerated from the working tree into Sx/Gen on every run and (b) the correspondence check: the real driver "
         "(ASan+UBSan, C chip simulator) and the compiled model run the same generated operation scripts and their complete traces "
         "(return codes, outputs, callbacks, every SPI request/response, handle, cache) are compared; this part is differential testing. "
         "Little-endian host.")

CLAIMS = {
    'C01': dict(
        text="Proof. Theorem Sx.C01_cache_coherent: for every initial chip (both pages arbitrary), every history of API calls with any arguments, "
             "handler invocations, re-creations, admissible environment events (also scheduled between the SPI transfers of a call) and any set of "
             "failing transfers, every cached entry equals what a read returns from the chip's active page. Proved by an invariant over the "
             "interpreter of the register cache (induction on the program tree), the frame lemmas of the chip model, the kernel-checked obligation "
             "that every volatile address of the chip model is on the regenerated never-cache list (fresh_wf, by decide), and a structural theorem "
             "(coh_api) over the model of all 57 API functions. The harness additionally compares shadow_registers with the simulator after every "
             "operation of every script.",
        technique="Lean 4 invariant proof over the cache interpreter + regenerated never-cache list + trace correspondence",
        design="7 C01"),
    'C02': dict(
        text="Proof. Theorem Sx.C02_cache_transparent: for any initial chip and any history of valid API calls, handler invocations, re-creations "
             "and admissible environment events between calls, the interpreter with the register cache and the one without it produce pairwise the "
             "same return codes, outputs and callbacks (with payloads and with the results of calls made inside callbacks), the same register/FIFO "
             "writes in the same order, never more transfers with the cache, and the same final chip and handle. It is a simulation proof by "
             "induction on the program tree (execG_sim) that reuses the coherence invariant of C01 and the contract theorem of C19; failing "
             "transfers and in-call schedules are outside the statement (they are keyed by transfer index, which differs between the builds). "
             "Each interpreter is tied to its own binary: both builds of src/sx127x.c are run against sxmodel / sxmodel --nocache, and the two real "
             "builds are additionally compared with each other in lock-step.",
        technique="Lean 4 simulation proof between two interpreters + two real builds in lock-step",
        design="7 C02"),
    'C03': dict(
        text="Proof against an abstract receive environment, which is proved to cover the uncached chip-model interpreter for operations "
             "without events inside them (rx_covers, env_rxByte, env_rxEnd, C03_step_on_chip: flag semantics, FIFO reads including the clearing of "
             "PayloadReady, flush, configuration registers), and from there the cached build from any coherent state (C03_step_on_chip_cached = C03_step_on_chip + the one-step simulation of C02 + C01). "
             "On the chip model the statement is also given in terms of what the application observes (C03_step_on_chip_obs / C03_observed_callbacks: the callbacks in the observation of the step are exactly what the invocation added to the ghost list - none, or the one receive callback with the payload and its length; a generic lemma, covers_cbs, ties the interpreter's callback log to the ghost's) "
             "and as a closed set of states: Receiving.byte, Receiving.fin, Receiving.irq - the next byte arrives, the end of the packet is signalled, the host runs the handler: the reception goes on unseen, or exactly this invocation delivers the payload once, or the packet is dropped for its CRC. C03_history_on_chip puts them together over Sys.run: for every admissible history of byte arrivals between operations, the end-of-packet signal and handler invocations (spurious and repeated ones included; frame with good or unchecked CRC), the application sees nothing until one invocation shows exactly one receive callback with exactly the payload and its length; C03_history_on_chip_cached is the same statement for the build with the register cache from any coherent state (each step of the cached system is observably the step of its uncached twin: step_sim of C02). Arrivals INSIDE a running handler are covered by the "
             "environment but tied to the chip model by the scripts only. The environment rxE (Sx/Lemmas/RxFifo.lean) is a 64-byte FIFO into which "
             "the demodulator may push any number of the frame's next bytes before EVERY SPI transfer (hence also between the transfers of a "
             "running handler) as long as the FIFO does not fill up (the property's hypothesis), PayloadReady raised at any moment after the "
             "last byte - also inside a running handler - with CrcOk per CRC outcome, flag bits consistent with the FIFO at the moment of the "
             "read, PayloadReady cleared when the FIFO becomes empty, anything inside the callback; any transfer may fail without effect on the chip (only the handler's recovery write is assumed to succeed). Theorems, "
             "for every buffer size, both packet formats, with and without address byte, every payload that fits, every CRC setting/outcome: "
             "header_spec (configuration registers, length byte, address byte), batch_level (the FIFO-level path takes the header and full "
             "batches only, stores them at the right offset, never takes the packet's last byte, never reads an empty FIFO), drain_spec / "
             "batch_ready (the payload-ready path takes exactly what is left; the byte-wise loop by induction on the fuel), rx_invocation "
             "(one handler invocation, whatever the flags - spurious ones included: still receiving, or delivered: callback exactly once "
             "with exactly the payload and its length and only with a good CRC, or dropped for CRC: no callback, FIFO flushed; in both cases "
             "the per-packet state is zero again; a failing transfer either changes nothing that cannot be repeated or, while the complete packet is read, drops it the same way - it never delivers it), C03_session (induction over any number of invocations), rx_start (the reset state is the "
             "start state of the next packet: no residue). The proof attempt exposed a genuine defect (PayloadReady lost when it is raised "
             "between the flag read and a FIFO read that empties the FIFO; repaired in /repo, 2b81b62). Not proved: overflow when the host is "
             "too slow (outside the hypothesis), buffers smaller than the payload (C08), back-to-back packets beyond the reset-state argument.",
        technique="Lean 4 weakest-precondition calculus over an abstract environment (all schedules of arrivals, all flag answers) + induction on the drain loop and on invocations + RX schedules with in-handler arrivals on the real driver",
        design="7 C03"),
    'C04': dict(
        text="Proof against an abstract transmit environment that is itself proved to cover the chip model; the assumption on the schedule "
             "(no underrun) and the behaviour after the callback are left to the scripts. The environment txE (Sx/Lemmas/TxFifo.lean) is a "
             "64-byte FIFO from which the modulator may take any number of bytes before EVERY SPI transfer (hence also between the transfers "
             "of a running handler), flag bits consistent with the FIFO level at the moment of the read (threshold 31), any transfer may fail, "
             "the application may do anything in the callback. Theorems, for every buffer size, frame, handle and FIFO content: tx_queue / "
             "tx_queue_addr (queuing writes exactly the first min(|frame|,64) bytes of length byte + address byte + payload into the empty "
             "FIFO), tx_invocation (one handler invocation hands over zero or more NEXT bytes of the frame, never more than the free space, "
             "touches no other register, and completes - state reset, callback exactly once - only after the chip reported PacketSent, or "
             "FifoEmpty with everything handed over shifted out), C04_session / C04_in_order (by induction over any number of invocations up "
             "to the callback: the bytes handed over are at every point exactly frame.take(sent), nothing is lost or duplicated in the FIFO, no "
             "overflow, no flush). tx_covers + C04_step_on_chip: the interpreter over the chip model, cached or uncached build, with any "
             "schedule of modulator events before any transfer and any failing transfers, is an instance of txE (flag facts decided in the "
             "kernel over all 256 register values), so the statements hold for executions on the simulated chip, whose overflow counter stays "
             "unchanged; C04_step_on_chip_obs states it in terms of the observation of the step (the callbacks shown are exactly what the invocation added to the ghost list: none, or the one transmit callback), TxRunning.event / TxRunning.irq make the running transmission a closed set of states, and C04_history_on_chip states over Sys.run that for every history of modulator events and handler invocations (either build, events and failing transfers inside the invocations too) the application sees nothing until one invocation shows exactly one transmit callback. Not proved: that the whole frame has been handed over when the chip reports completion (this is the no-underrun "
             "assumption on the schedule), and exactly-once delivery when the application queues the next packet or leaves TX inside the "
             "callback - decided by the scripts (stay/leave/chain behaviours, in-handler modulator events, faults) on the real driver.",
        technique="Lean 4 weakest-precondition calculus over an abstract environment (all schedules, all answers) + refinement of the chip-model interpreter to that environment + TX schedules on the real driver",
        design="7 C04"),
    'C05': dict(
        text="Proof for explicit and implicit header, every packet-buffer size. Theorems Sx.C05_rx_done, "
             "C05_rx_done_implicit (configured length, any 16-bit value: the low byte is used and RegRxNbBytes is not read), C05_crc_error "
             "(plain execution) and C05_cached / C05_cached_implicit (cached build after any admissible history): whenever RegIrqFlags holds RxDone without CadDone and PayloadCrcError "
             "(any other flags), for every RxNbBytes 0..255 that fits the packet buffer (any CONFIG_SX127X_MAX_PACKET_SIZE; C05_rx_too_long: a longer packet is neither read nor delivered and leaves the handle exactly as it was), every FifoRxCurrentAddr (wrap-around at 256 proved by induction on the burst), "
             "every buffer content, FIFO pointer and other handle fields, one handler invocation invokes exactly one callback, the receive "
             "callback with exactly the chip's bytes and length, acknowledges exactly the flags read and resets the per-packet state "
             "(so the outcome does not depend on the packets before); a packet with PayloadCrcError yields no callback. C05_sequence makes the last clause explicit over Sys.run: "
             "in the cached build, from an idle LoRa receiver, for EVERY sequence of packets (any lengths up to 255, any buffer positions, any contents, with and without CRC error, in any order), each followed by one "
             "handler invocation, every invocation shows exactly the callbacks of its own packet (LoraIdle is re-established after each packet; loraRx_chip describes the chip after the arrival). CadDone, which the chip "
             "raises in CAD mode only, takes precedence in the handler (C07_cad_done, any other flags); such flag bytes are additionally covered by the trace correspondence.",
        technique="Lean 4 weakest-precondition proof of the LoRa handler (both header modes) + induction on the FIFO burst + scheduler scripts",
        design="7 C05"),
    'C06': dict(
        text="Proof. Theorems Sx.C06_set_for_transmission (for every payload of 1..255 bytes, any prior FIFO pointer, buffer and register content: "
             "OK, payload-length register = byte count, byte i of the data at buffer address TxBase+i with TxBase = 0 as lora_reset_fifo programs, "
             "all other buffer bytes and registers unchanged; burst write with pointer wrap proved by induction), C06_empty_rejected (no transfer) "
             "and C06_tx_done (for every flag byte without RxDone: exactly one transmit callback iff TxDone and neither CadDone nor "
             "PayloadCrcError, none otherwise). Flag bytes with RxDone are covered by C05.",
        technique="Lean 4 weakest-precondition proof + induction on the FIFO burst write + scheduler scripts",
        design="7 C06"),
    'C07': dict(
        text="Proof for the LoRa clauses and the acknowledge=read clause of FSK/OOK; correspondence + schedule exploration for the FSK/OOK packet "
             "clauses. Theorems: C07_lora_ack_is_read / C07_fsk_ack_is_read (program shape: the handler's first request reads the flag register "
             "and its next request writes exactly the byte read, for every handle), C07_later_events_stay_pending with the chip's "
             "write-1-to-clear semantics (flags raised between sampling and acknowledgement are still set afterwards), C07_idle_lora (no callback, "
             "only the acknowledgement write), C07_idle_fsk (FSK/OOK, every mode and handle: when the flag registers show nothing pending for that mode, no callback, no write "
             "other than the acknowledgement of exactly the bytes read from RegIrqFlags2 and, in receive mode, RegIrqFlags1, handle unchanged; gwp calculus with a ghost that records any other action), "
             "C07_cad_done, and with C05_rx_done / C06_tx_done exactly one matching callback per event. "
             "The lora_race script family raises events at chosen transfer indices of a running handler on the real driver.",
        technique="Lean 4 program-shape theorems + W1C chip lemma + event injection between SPI transfers",
        design="7 C07"),
    'C08': dict(
        text="Proof for buffer, shadow-array, list and integer-arithmetic safety, for the callback length, for the bound of the handler's loop and for all eight float->integer conversions; sanitizer builds (and the transfer budget) for the calibration poll. "
             "Theorem Sx.C08_memory_safe: for either build, EVERY packet-buffer size (a parameter of the model, not five samples), any "
             "initial chip (both register pages, FIFO and every over-the-air length byte are universally quantified answers), any history of "
             "API calls with any arguments (the two raw register calls with register numbers 0x00..0x70), handler invocations, environment events between any two transfers, any failing transfers and any "
             "API call made by the application inside a callback: no operation accesses device->packet outside [0, cap) or the shadow arrays outside their 0x71 entries (every request is within the SPI "
             "contract of C19, and within it the shadow layer stays inside: Sx/Lemmas/ShadowSize.lean), reads the caller's "
             "hop table outside [0, frequencies_length) or through NULL, divides by zero or shifts a negative int; every receive callback in every observation has a length "
             "<= cap and is handed exactly that many bytes of the buffer (Sx.C08_callback_length; CbLen); and the handle invariant "
             "(buffer size; 1 <= frequencies_length <= entries handed over; bytes-received counter <= cap) and the size of the shadow arrays are preserved. It follows from s_api, a structural theorem over the "
             "model of all 57 API functions (Prog.Safe: every answer of chip and bus, burst answers of the requested length; the two callback sites use what a successful packet read is proved to leave "
             "in the handle: Sx/Lemmas/RxLen.lean batch_post / loraGuard_post, every answer and failure), lifted to the "
             "interpreter by induction on the program tree (execG_safe, together with contract_api). That the delivered bytes are the bytes the chip stored for THAT packet is C03 "
             "(rx_invocation) and C05 (C05_rx_done), under their hypothesis that chip and handle agree on the packet format. Float->integer conversions: all eight sites are proved defined "
             "for EVERY input (C08_cast_set_frequency: any uint64_t; C08_cast_get_frequency: any register content; C08_cast_ppm: any error and carrier, NaN/inf refused by the range check; "
             "C08_cast_bitrate / C08_cast_fdev: any binary32 argument; C08_cast_packet_rssi: any RSSI/SNR bytes and carrier; C08_cast_beacon / C08_beacon_timers_defined: any uint32_t interval - zero, the table of C14, and an analytic proof above 133620 ms - "
             "each as Prog.Safe for the class castRange, every answer of chip and bus). "
             "C08_cast_frequency_error: any content of the 3-byte LoRa / 2-byte FSK frequency-error registers and any bandwidth the chip can report - Prog.Safe now hands a register read of n bytes a value "
             "below 2^(8n), which the interpreter lemma sread_sz proves for both builds). "
             "Not proved (partial): termination of the calibration poll of rx_calibrate, which waits for the chip to clear ImageCalRunning (the other loop, the byte-wise FIFO drain of the handler, is "
             "proved to be bounded by the packet buffer for every answer of the chip: C08_handler_loop_bounded): these rest on the ASan/UBSan builds of the real driver at buffer sizes 16, 64, 255, 256 and 2047 "
             "with NaN/inf/huge arguments, hostile length bytes and retained chip configurations, and on the per-call SPI-transfer budget.",
        technique="Lean 4 structural safety theorem over all driver programs and all answers, for every buffer size + interpreter lift by induction + ASan/UBSan builds at five buffer sizes",
        design="7 C08"),
    'C09': dict(
        text="Proof for 39 setter cases. For each configuration function (FSK/OOK: crc, encoding, packet format, "
             "address filtering, preamble type/detector, sync-independent RxConfig fields (collision restart, AFC auto, trigger), RSSI config, "
             "bandwidths, temperature monitor, bit rate, deviation, data shaping; OOK demodulator modes; LoRa: sync word, FIFO bases, LDRO "
             "override, implicit/explicit header, hop period; both: preamble length, LNA gain/boost, OCP, PA configuration, carrier frequency) a "
             "theorem C09_<function> states that, for every argument, handle and prior register content, the call returns OK, leaves the stated "
             "handle and the chip equal to the prior chip with exactly a declared list of bit fields (register, field mask, datasheet "
             "encoding) updated. C09_frame/setFields_frame derive from any such list that every bit outside the listed fields of every "
             "register, the other page, the LoRa buffer and the FIFO are unchanged; C09_enumerators_fit_their_fields decides in the kernel, on "
             "the regenerated enumerator lists, that every documented argument lies inside its field; C09_fields_sharing_a_register_are_disjoint. "
             "Bandwidth/spreading factor are C13, set_opmod is C15, the beacon is C14. The FSK/OOK sync word (every word of 1..8 non-zero bytes: "
             "burst write = list of whole-register fields, writeN_regFields), the LoRa ppm correction (for every error whose float correction is "
             "representable: RegPpmCorrection holds its two's-complement byte) and rx_calibrate (standby, no calibration running: only ImageCalStart) "
             "have theorems of the same form. In addition the correspondence compares the register file of the real driver with that of the model after every call "
             "for all 256 prior values of each touched register.",
        technique="Lean 4 symbolic execution of each setter over a register-file view + generic frame theorem + kernel-decided enumerator facts + exhaustive prior-value scripts",
        design="7 C09"),
    'C10': dict(
        text="Proof. Theorems Sx.C10_gated (each of the 39 modulation-specific functions, called while another modulation is active, IS the "
             "program that returns INVALID_STATE at once: no request at all, handle untouched, for every argument and handle), "
             "C10_rejected_call_has_no_effect (every public function except create [C17] and the void handler, every argument, every handle, every "
             "chip state agreeing with the handle on the LoRa page: a return of INVALID_ARG/INVALID_STATE implies no write request and an unchanged "
             "handle) and C10_cached (the same in the cached build after any admissible history, through C01+C02). The refusal theorem is proved "
             "per function by a calculus for healthy-bus executions that is demonic in the chip's answers (a validation phase that writes nothing "
             "and leaves the handle, then a commit phase that cannot refuse); the two LDRO setters, whose read-back could refuse after a write "
             "for an arbitrary answer, use the chip semantics and C13 instead. 'Valid arguments are accepted' is covered by correspondence and by "
             "the acceptance monitors of C09/C13/C15 only.",
        technique="Lean 4 program-equality theorem for gating + two-phase (validate/commit) proof per function over demonic chip answers + trace monitors",
        design="7 C10"),
    'C11': dict(
        text="Proof for the structural clauses, fault enumeration for the behaviour after recovery. Theorems: C11_failed_transfer_ends_call "
             "(every public function but the void handler, every argument and handle, every answer of chip and bus: at every request the "
             "continuation for a failed transfer is literally 'return code' — no further request, hence no further write, and the caller gets "
             "the transfer's code; sole exemption the documented SNR read, C11_exemption_is_snr_read, after which nothing is written either), "
             "C11_no_delivery_after_failed_transfer (one handler invocation, LoRa/FSK/OOK, any flags and packet: the receive callback is never "
             "invoked after any of its transfers failed), C11_fsk_header_is_transactional and C11_lora_read_is_transactional (a failure while "
             "the per-packet state is being established leaves the handle exactly as it was), C11_failed_call_keeps_handle (every public function "
             "that is not a packet operation, any arguments and handle: if any transfer failed the handle is exactly what it was, so the driver's "
             "view of header mode, packet format, CRC type, hop list never runs ahead of an unwritten chip - proving it exposed fix fe89473), "
             "C11_failed_call_keeps_configuration (the FSK/OOK transmit calls included: at most the per-packet fields differ), "
             "C11_cache_after_failures (C01). "
             "'Subsequent packets are received and transmitted correctly': for FSK/OOK reception and transmission this is part of C03_session and "
             "C04_session, whose environments let any transfer fail (reception: except the handler's own recovery write) - the invariants from "
             "which the next bytes and the next packet are handled correctly survive every failure; for LoRa the handlers are stateless between "
             "packets apart from the restored length. In addition scripts fail one or two transfers at each index of the packet paths and of "
             "each API call and then run fault-free traffic against the delivery monitors (and compare the handle before and after each failed "
             "call); the defects found this way and by the proofs were repaired (see known_findings.json). Not covered by a theorem: two consecutive failures of which the second is the recovery write.",
        technique="Lean 4 structural theorems over all answers (values and failures) of chip and bus + fault injection at each transfer index with recovery traffic",
        design="7 C11"),
    'C12': dict(
        text="Proof for the encode clauses and for the decoders (carrier, frequency error in both modulations, packet strength, SNR, FSK RSSI, LoRa bandwidth); the raw temperature by monitors. The float code is modelled in "
             "soft-float over Rat (compared bit for bit with gcc on every run); general facts about round-to-nearest are proved once "
             "(Sx/Lemmas/Rnd.lean, FloatOps.lean, FloatSigned.lean - the only files importing Mathlib modules: relative error 2^-p, exactness on integers and dyadics, rounding is odd, "
             "floor(rnd x) >= floor x). Theorems, each for EVERY request in the documented range: C12_set_frequency (all 883 000 001 carriers "
             "137..1020 MHz in 1 Hz steps: the three bytes are the 24-bit value whose realised frequency is within 250 Hz), C12_get_frequency "
             "(every non-zero 24-bit RegFrf content decodes within 250 Hz), C12_fdev (600..200000 Hz: within one Fstep, 14 bits), "
             "C12_ook_bitrate and C12_fsk_bitrate / C12_fsk_bitrate_bits (every rate in range, for FSK every binary32 bit pattern — the "
             "conversion to double is proved exact: 32 MHz/(v+1) < rate <= 32 MHz/v (1+2^-24) resp. 512 MHz with 2^-53, i.e. within one "
             "divider step), C12_snr (all 256 values exactly value/4), C12_fsk_rssi, C12_packet_rssi (every RegPktRssiValue x RegPktSnrValue x port offset: the "
             "single-precision sum is exact, the result is the datasheet formula truncated toward zero), C12_fsk_frequency_error (all 65536 AFC readings: "
             "within 9/8 Hz of AFC*Fstep, two's complement), C12_lora_frequency_error (all 2^20 RegFei readings x the ten bandwidths: within 9/8 Hz of "
             "FreqError*2^24/Fxosc*BW/500kHz; four roundings, the inexact constant and the truncation accounted for), C12_lora_bandwidth_decode, "
             "C12_rx_bandwidth_table (each of the 21 datasheet receiver bandwidths is programmed with its datasheet code; kernel-decided), "
             "C12_rx_bandwidth_closest (EVERY requested bandwidth 2600..250000 Hz, any real number: the programmed code is one of the 21 points and no other point is closer, "
             "up to the single-precision rounding of the distances: |q-p|(1-2^-24) <= |q-p'|(1+2^-24)+2^-149; a fold-minimum lemma over the driver's own search plus the error bound of the float subtraction). "
             "Only the raw temperature decode (no datasheet formula beyond the register description) is decided by the monitors on the real driver alone.",
        technique="Lean 4 rounding-error analysis (general lemmas about round-to-nearest) for all inputs + kernel tables + float sweeps on the real driver",
        design="7 C12"),
    'C13': dict(
        text="Proof. Theorems Sx.C13_set_bandwidth, C13_set_spreading_factor, C13_override and their liftings to the cached build after any "
             "history (C13_bandwidth_cached, C13_spreading_factor_cached, via the bridge step_cached_of_wp = C02 + C01): for each of the ten "
             "bandwidths / seven spreading factors (checked against the regenerated enumerators by decide), every prior content of the three "
             "modem-configuration registers (including reserved spreading-factor codes) and of the rest of the chip, the call returns OK and bit 3 "
             "of RegModemConfig3 equals decide(2^SF*1000 > 16*BW) for the combination now programmed, every other bit of that register and every "
             "other register unchanged; the explicit override sets exactly bit 3. Byte-level facts are decided over all 256 values in the kernel. "
             "The monitor re-evaluates the rule on the real driver's trace for all 70 combinations in both call orders.",
        technique="Lean 4 weakest-precondition proof over the model + kernel-decided byte facts + exhaustive combination scripts",
        design="7 C13"),
    'C14': dict(
        text="Proof. C14_every_interval: for each of the 133 620 documented intervals the timer selection of the driver (modelled in soft-float, "
             "bit-exact with gcc on every interval in the thorough tier) yields two enabled timers whose period never exceeds the request and "
             "falls short of it by at most one step of the finer timer, at most 4.1 ms up to 67 855 ms (262 ms above, where only the coarsest "
             "resolution fits). The quantifier is a finite table and is evaluated interval by interval in the Lean kernel (`decide +kernel`, 96 "
             "chunk files, no native_decide; about 12 minutes of 16 cores from a clean build, cached afterwards). C14_start_beacon: for every "
             "payload of up to 64 bytes, prior register and FIFO content, the call programs exactly those coefficients, leaves exactly the "
             "payload in the FIFO, sets BeaconOn keeping the other bits of RegPacketConfig2 and starts the sequencer after that; "
             "C14_stop_beacon: sequencer stopped, FIFO flushed, BeaconOn cleared. The defect this check found (coefficient overflow on three "
             "interval ranges) is repaired in /repo.",
        technique="Lean 4 kernel evaluation of the whole interval table + weakest-precondition proof of the call + every interval on the real driver (thorough)",
        design="7 C14"),
    'C15': dict(
        text="Proof. Theorems Sx.C15_lora (all 8 modes, any previous mode/modulation, "
             "any prior register content: OK, RegOpMode = mode|0x80, RegDioMapping1 per the datasheet table dio1Spec, RegDioMapping2 untouched, "
             "handle updated, nothing else changes), C15_fsk_ook (8 modes x FSK/OOK with the FSK/OOK page selected: chip exactly fskModeSpec — "
             "DIO routing, FIFO threshold, sequencer armed instead of RegOpMode for TX — handle updated), dio_unclaimed (unclaimed pins keep "
             "their routing, bit-level), C15_unknown_modulation (rejected before any request), enum_modes_are_datasheet (regenerated enumerators). "
             "C15_handle_on_success / C15_handle_after (whenever the call reports success, whatever the chip answers, the handle records the new mode "
             "and modulation and - when the call crosses between the LoRa and the FSK/OOK modem - forgets the packet in progress; nothing else changes), "
             "C15_modem_switch_forgets_packet, C15_handle_unchanged_on_failure (any failing transfer: handle exactly as before). Open known finding: FSK/OOK RX/TX entered directly from the LoRa register page (see known_findings.json).",
        technique="Lean 4 weakest-precondition proof over 24 mode/modulation cases + fault-position enumeration",
        design="7 C15"),
    'C16': dict(
        text="Proof. Theorems Sx.C16_kth_hop_index (the j-th channel-change event after a packet boundary uses entry j mod len, for every list "
             "length >= 1 and every number of hops, by induction), C16_hop (one hop from any stored counter <= len: RegFrf is programmed with "
             "the encoding of an entry inside the list, the counter becomes index+1, nothing else is written but the acknowledgement), "
             "C16_restart_tx / _crc / _rx (TxDone, PayloadCrcError, RxDone — alone or together with the channel-change flag — reset the counter "
             "and program no frequency). The conversion of the frequency to register bytes is taken as given here (C12).",
        technique="Lean 4 induction over hop events + weakest-precondition proof of the dispatch order",
        design="7 C16"),
    'C17': dict(
        text="Proof. Theorems Sx.create_is_one_read (the program of sx127x_create is exactly one single-register read of RegVersion: no other "
             "request exists), C17_create (cached build, any old state, any environment events around the transfer, any fault: exactly one "
             "transfer on the bus, success iff the read succeeded and returned 0x12, and the chip afterwards is what the environment alone "
             "left — no register, FIFO content or pointer changed by the driver), C17_version_check (all 256 values) and C17_resume (a LoRa "
             "explicit-header packet pending while the handle is discarded and re-created is delivered with the same bytes and length as on "
             "the old handle, for any cached content, configuration, length and buffer position).",
        technique="Lean 4 program-shape theorem + symbolic execution with faults and schedules + resume equivalence via C05",
        design="7 C17"),
    'C18': dict(
        text="Proof about the model, decided on the code by the link check and two-radio runs. Theorem Sx.C18_handles_independent: for two radios "
             "(two chips, two handles with their caches, any build configuration and application reactions) and every interleaving at call "
             "granularity of two histories, each radio's observations (return codes, outputs, callbacks, every bus transfer) and final chip, "
             "cache and handle are those of its own history run alone (induction on the interleaving; C18_other_radio_irrelevant as corollary). "
             "The theorem rests on the shape of the model: a driver program is a function of the handle it is given and of the answers of the "
             "chip it runs against, nothing else. That the C code has this shape is checked, not proved: the compiled object has no writable "
             "data or bss symbol (nm/size), and the real driver runs pairs of histories interleaved on two handles bound to two simulated chips "
             "and alone; per-radio traces must be identical and no request may carry the other handle's spi device; the solo traces are the "
             "ones compared with the model.",
        technique="Lean 4 product-system theorem (induction on interleavings) + symbol-table check + interleaved-vs-solo runs of the real driver on two chips",
        design="7 C18"),
    'C19': dict(
        text="Proof for both halves. Driver: theorem Sx.C19_driver_requests_valid: for either build, any history "
             "(valid arguments, any chip, any schedule, any failing transfers) every transfer put on the bus carries 1..4 bytes (register calls) "
             "or at most 2047 bytes (buffer calls) and stays inside 0x00..0x70; it follows from contract_api, a structural theorem over the model "
             "of all 57 API functions for every handle and every answer of chip and bus. The harness' contract monitor checks the same on every "
             "request of the real driver. Backends: Sx/Model/Backend.lean models the eight functions of src/sx127x_linux_spi.c and "
             "src/sx127x_esp_spi.c (little-endian object representations, ntohl, the shift loop, the length guards and array sizes regenerated "
             "from the sources); theorems C19_backend_read_registers / write_register / read_buffer / write_buffer (every address 0..0x7f, every "
             "length in the contract, every answer of the chip, either backend: exactly one transaction = address byte with the write bit only for "
             "writes, then the data in order; reads most significant byte first / in wire order), C19_backend_failure_reported (a failing transaction "
             "is never reported as success, at most one transaction per call), C19_backend_lengths_guarded (out-of-contract lengths refused without a "
             "transaction; no transaction longer than the local arrays). The tie for the backends: the real files compiled from the working tree "
             "against an interposed ioctl / a stub spi_device_polling_transmit run ~22 000 requests (all addresses, lengths 0..5 and 0,1,2,64,2047,2048, "
             "success and failure) and every result line (return code, bytes of every transaction attempted, stored word/buffer) is compared with the "
             "model's. Modelled, not verified: the kernel spidev driver and ESP-IDF (their call is what is checked).",
        technique="Lean 4 structural theorem over all driver programs + Lean 4 model and theorems for the two SPI backends + request-by-request correspondence with the real backends",
        design="7 C19, 13.19"),
    'C20': dict(
        text="Proof for the dump and for the tool's argument parser; testing for the decoders. C20_dump_is_one_raw_burst (the program of "
             "sx127x_dump_registers is exactly one raw, uncached burst read of 0x70 bytes from address 1 — no FIFO access), C20_dump_is_the_chip "
             "(its output is 0 followed by the chip's content of every register, chip untouched). Tool: a Lean model of at_util_string2hex "
             "(compared with the real function on generated well-formed, truncated, prefix-less, separator-heavy and random strings under "
             "ASan/UBSan): parse_never_oob (for every argument string no store leaves the allocation), parse_render + "
             "C20_tool_reads_a_printed_dump (a dump printed as the README prescribes is read back value by value, the last included, and "
             "reaches the decoder selected by RegOpMode), toolMain_decodes_only_full_dumps with decoders_index_inside_the_dump (main calls a "
             "decoder only with at least 0x71 values and every subscript in the tool is a literal below that: facts regenerated from "
             "debug_registers/main.c on every run). That the decoders name the values correctly is decided by running the real tool (ASan) on "
             "real dumps of configured chips and comparing modulation, mode, frequency, bit rate, deviation, bandwidth and packet settings with "
             "what was configured. The defect found (heap overflow for the README's own example, last value dropped, no length check) is repaired.",
        technique="Lean 4 list-induction proofs about a parser model + program-shape theorem + real tool under ASan on real dumps",
        design="7 C20"),
}

def main():
    props = [json.loads(l) for l in open(os.path.join(ROOT, 'properties.jsonl'))]
    checks, na = [], []
    for p in props:
        pid = p['id']
        have = os.path.exists(os.path.join(ROOT, 'lean', 'Sx', 'Props', pid + '.lean')) and pid in CLAIMS
        if have:
            c = CLAIMS[pid]
            checks.append({
                'property_id': pid,
                'quick_cmd': './check.py %s --tier quick' % pid,
                'thorough_cmd': './check.py %s --tier thorough' % pid,
                'evidence_file': 'evidence/%s.json' % pid,
                'replay_cmd_template': './check.py replay {path}',
                'engine': 'lean4+correspondence',
                'level_claimed': {'category': c.get('category', 'proof'), 'text': c['text'], 'design_ref': 'DESIGN.md section ' + c['design']},
                'level_note': c.get('note', TRUST),
                'technique': c['technique'],
            })
        else:
            na.append({'property_id': pid, 'reason': 'check not registered yet: the theorem for this property is still being written (framework and monitors exist, see DESIGN.md section 13)'})
    m = {
        'version': 1,
        'setup_cmd': 'cd lean && lake build Sx sxmodel ' + ' '.join('Sx.Props.' + c['property_id'] for c in checks),
        'hooks': {'guard': 'SX127X_VERIF',
                  'enable': 'no source hooks are needed: the harness links the unchanged src/sx127x.c against its own SPI entry points (the guard name is reserved and unused); the only instrumentation is on the compiler command line of the harness build: harness/memcheck.h is force-included (-include) into the driver\'s translation unit so that its memcpy calls are checked against the sub-object they touch',
                  'baseline_off_cmd': 'bash /verif/baseline.sh', 'source_commits': [], 'add_only': True},
        'engines': [{'name': 'lean4+correspondence', 'path': 'check.py', 'serves_properties': [c['property_id'] for c in checks],
                     'kind_free_text': 'Lean 4 theorems about an executable model (lean/), tied to the code by regenerated constants (gen/extract.py) and by trace correspondence between the real driver under sanitizers with a chip simulator (harness/sxh.c) and the compiled model (sxmodel)'}],
        'checks': checks,
        'not_applicable': na,
        'notes': 'fix: commits in /repo (23, the last two found in this session through seeded changes: 7c730f6, 45f1662) and the one open finding are listed in known_findings.json; DESIGN.md section 13 is the as-built record (13.11 theorems per property, 13.5 the 137 seeded breaking changes under seeded/ and which check reports each, 13.19 the SPI backend model, 13.22 the float->integer conversions). Every check was run on the unchanged tree at VERIF_SEED 1..6 (quick) and once in the thorough tier without an alarm.',
    }
    json.dump(m, open(os.path.join(ROOT, 'MANIFEST.json'), 'w'), indent=1)
    print('MANIFEST: %d checks, %d not applicable' % (len(checks), len(na)))

if __name__ == '__main__':
    main()
