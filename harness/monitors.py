"""Property monitors: the statement of each property evaluated on the trace of the *real* driver
(running against the chip simulator).  They are not evidence that a property holds; they are the
engine that turns a broken proof obligation / broken correspondence into a concrete failing
input, and they keep the hand-written model honest."""
import re
from fractions import Fraction
import struct

def fields(line):
    f = {'op': line.split(' ', 1)[0]}
    for tok in line.split(' ')[1:]:
        if '=' in tok:
            k, v = tok.split('=', 1)
            f[k] = v
    return f

def spi_entries(spi):
    """list of dicts {kind:R|RB|W|WB, reg, n, data(bytes hex or value), fault}"""
    out = []
    for e in (spi or '').split(';'):
        if not e:
            continue
        m = re.match(r'(RB|R)([0-9a-f]+)/(\d+)=(.*)$', e)
        if m:
            v = m.group(4)
            out.append({'kind': m.group(1), 'reg': int(m.group(2), 16), 'n': int(m.group(3)),
                        'data': None if v.startswith('!') else v, 'fault': int(v[1:], 16) if v.startswith('!') else None})
            continue
        m = re.match(r'(WB|W)([0-9a-f]+):([0-9a-f]*)(?:!([0-9a-f]+))?$', e)
        if m:
            out.append({'kind': m.group(1), 'reg': int(m.group(2), 16), 'n': len(m.group(3)) // 2, 'data': m.group(3),
                        'fault': int(m.group(4), 16) if m.group(4) else None})
    return out

def cb_entries(cb):
    out = []
    for e in (cb or '').split(';'):
        if not e:
            continue
        reaction = None
        m = re.search(r'\[(.*)\]$', e)
        if m:
            reaction = m.group(1)
            e = e[:m.start()]
        p = e.split(':')
        if p[0] == 'rx':
            out.append({'kind': 'rx', 'len': int(p[1]), 'data': p[2] if len(p) > 2 else '', 'reaction': reaction})
        elif p[0] == 'cad':
            out.append({'kind': 'cad', 'detected': int(p[1]), 'reaction': reaction})
        else:
            out.append({'kind': p[0], 'reaction': reaction})
    return out

def handle_of(f):
    h = {}
    for kv in f.get('h', '').split(','):
        if ':' in kv:
            k, v = kv.split(':', 1)
            h[k] = v
    return h

def dump_of(line):
    """parse a `chip ...` dump line"""
    f = fields(line)
    d = {}
    d['s'] = bytes.fromhex(f.get('s', ''))
    d['l'] = bytes(0x0d) + bytes.fromhex(f.get('l', ''))
    d['f'] = bytes(0x0d) + bytes.fromhex(f.get('f', ''))
    d['buf'] = bytes.fromhex(f.get('buf', ''))
    d['fifo'] = bytes.fromhex(f.get('fifo', ''))
    d['air'] = bytes.fromhex(f.get('air', ''))
    d['uf'] = int(f.get('uf', '0'))
    d['of'] = int(f.get('of', '0'))
    return d

def is_op(l):
    return (not l.startswith('!')) and (not l.startswith('#')) and ' rc=' in l

LORA, FSK, OOK = 0x80, 0x00, 0x20

# ------------------------------------------------------------------------------------------
# Generic monitors that apply to every operation line

def mon_flags(run, script, il, iab, ml):
    """harness-side monitors: '!C01' (cache coherence), '!C19' (SPI contract), '!C18'"""
    tag = '!' + run.prop
    for l in il:
        if l.startswith(tag):
            run.cov['monitor_checks'] += 1
            run.violation(l[1:], script, {'monitor': l})
            return
    run.cov['monitor_checks'] += sum(1 for l in il if is_op(l))

def mon_aborts(run, script, il, iab, ml):
    """C08: no sanitizer report, callback length within what was stored"""
    run.cov['monitor_checks'] += 1
    if iab:
        ops = [l for l in script[1:] if not l.startswith('#') and l.split(' ')[0] not in ('reset',)]
        n = len([l for l in il if not l.startswith('!') and not l.startswith('#')])
        last = script_op_at(script, n)
        run.violation('undefined behaviour / memory error in `%s`: %s' % (last, iab), script, {'abort': iab, 'op': last})
    mcap = re.search(r'\[cap(\d+)\]', script[0] if script else '')
    cap = int(mcap.group(1)) if mcap else 2047
    prev_h = {}
    for l in il:
        if is_op(l):
            f = fields(l)
            for c in cb_entries(f.get('cb')):
                run.cov['monitor_checks'] += 1
                if c['kind'] == 'rx' and len(c['data']) != 2 * c['len']:
                    run.violation('receive callback length %d exceeds the packet buffer (%d bytes available) in %s' % (c['len'], len(c['data']) // 2, f['op']), script)
            # every FSK/OOK FIFO burst comes out of device->packet: it cannot be longer than the
            # buffer (sanitizers do not see an over-read that stays inside the handle struct)
            am = int(prev_h.get('am', '80'), 16)
            if f['op'] in ('fsk_ook_tx_set_for_transmission', 'fsk_ook_tx_set_for_transmission_with_address', 'fsk_ook_tx_start_beacon') or (f['op'] == 'irq' and am in (FSK, OOK)):
                # (a burst inside an invocation that also ran a callback may belong to a call the
                # application made from the callback: offset 0)
                off = int(prev_h.get('rcv', '0')) if f['op'] == 'irq' and not f.get('cb') else 0
                for e in spi_entries(f.get('spi')):
                    if e['kind'] == 'WB' and e['reg'] == 0:
                        run.cov['monitor_checks'] += 1
                        if off + e['n'] > cap:
                            run.violation('%s sent %d bytes from offset %d of the %d-byte packet buffer to the FIFO' % (f['op'], e['n'], off, cap), script, {'line': l})
            # ... and every FIFO read of the FSK/OOK handler lands in device->packet at the number of bytes
            # received so far (up to two header bytes - length, address - go to locals first)
            if f['op'] == 'irq' and am in (FSK, OOK) and int(prev_h.get('om', '0')) in (5, 6):
                off = int(prev_h.get('rcv', '0'))
                hdr_allow = 2 if prev_h.get('exp', '0') == '0' else 0
                for e in spi_entries(f.get('spi')):
                    if e['kind'] in ('RB', 'R') and e['reg'] == 0 and e['fault'] is None:
                        if hdr_allow > 0 and e['n'] <= hdr_allow and off == 0:
                            hdr_allow -= e['n']
                            continue
                        hdr_allow = 0
                        run.cov['monitor_checks'] += 1
                        if off + e['n'] > cap:
                            run.violation('%s read %d bytes from the FIFO to offset %d of the %d-byte packet buffer' % (f['op'], e['n'], off, cap), script, {'line': l})
                            break
                        off += e['n']
            prev_h = handle_of(f) or prev_h

def script_op_at(script, n):
    """the n-th executed line (0-based) of a script, counting the lines that produce output"""
    k = -1
    for l in script[1:]:
        if l.startswith('#'):
            continue
        k += 1
        if k == n:
            return l[:120]
    return '?'

def mon_rejects(run, script, il, iab, ml):
    """C10: a call that returns INVALID_ARG / INVALID_STATE has issued no write and left the
    handle unchanged; gating by modulation"""
    prev = None
    for l in il:
        if not is_op(l):
            continue
        f = fields(l)
        rc = f.get('rc', '').split(',')[0]
        if rc in ('102', '103') and prev is not None and not has_fault(f):
            run.cov['monitor_checks'] += 1
            writes = [e for e in spi_entries(f.get('spi')) if e['kind'] in ('W', 'WB')]
            if writes:
                run.violation('%s returned %s after writing %s' % (f['op'], rc, ','.join('%x' % e['reg'] for e in writes)), script, {'line': l})
            elif f.get('h') != prev.get('h'):   # cache fills by reads are not a change of configuration
                run.violation('%s returned %s but changed the handle: %s -> %s' % (f['op'], rc, prev.get('h'), f.get('h')), script, {'line': l})
        if prev is not None and not has_fault(f):
            am = int(handle_of(prev).get('am', '0'), 16)
            g = GATES.get(f['op'])
            if g is not None:
                run.cov['monitor_checks'] += 1
                ok_mod = (g == 'lora' and am == LORA) or (g == 'fsk' and am == FSK) or (g == 'ook' and am == OOK) or (g == 'fskook' and am in (FSK, OOK))
                if not ok_mod and rc != '103':
                    run.violation('%s is not gated: returned %s with modulation %x active' % (f['op'], rc, am), script, {'line': l})
        prev = f

def has_fault(f):
    return '!' in f.get('spi', '')

GATES = {
    'lora_reset_fifo': 'lora', 'lora_set_bandwidth': 'lora', 'lora_get_bandwidth': 'lora', 'lora_set_modem_config_2': 'lora',
    'lora_set_low_datarate_optimization': 'lora', 'lora_set_syncword': 'lora', 'lora_set_implicit_header': 'lora',
    'lora_tx_set_explicit_header': 'lora', 'lora_set_frequency_hopping': 'lora', 'lora_rx_get_packet_snr': 'lora',
    'lora_tx_set_for_transmission': 'lora', 'lora_set_ppm_offset': 'lora',
    'fsk_ook_tx_set_for_transmission': 'fskook', 'fsk_ook_tx_set_for_transmission_with_address': 'fskook',
    'fsk_ook_tx_start_beacon': 'fskook', 'fsk_ook_tx_stop_beacon': 'fskook', 'fsk_ook_set_bitrate': 'fskook',
    'fsk_set_fdev': 'fsk', 'ook_rx_set_peak_mode': 'ook', 'ook_rx_set_fixed_mode': 'ook', 'ook_rx_set_avg_mode': 'ook',
    'fsk_ook_rx_set_collision_restart': 'fskook', 'fsk_ook_rx_set_afc_auto': 'fskook', 'fsk_ook_rx_set_afc_bandwidth': 'fskook',
    'fsk_ook_rx_set_bandwidth': 'fskook', 'fsk_ook_rx_set_trigger': 'fskook', 'fsk_ook_set_syncword': 'fskook',
    'fsk_ook_rx_set_rssi_config': 'fskook', 'fsk_ook_set_packet_encoding': 'fskook', 'fsk_ook_set_crc': 'fskook',
    'fsk_ook_set_packet_format': 'fskook', 'fsk_ook_set_address_filtering': 'fskook', 'fsk_set_data_shaping': 'fsk',
    'ook_set_data_shaping': 'ook', 'fsk_ook_set_preamble_type': 'fskook', 'fsk_ook_rx_set_preamble_detector': 'fskook',
    'fsk_ook_rx_calibrate': 'fskook', 'fsk_ook_get_raw_temperature': 'fskook', 'fsk_ook_set_temp_monitor': 'fskook',
}

PACKET_OPS = ('create', 'irq', 'fsk_ook_tx_set_for_transmission', 'fsk_ook_tx_set_for_transmission_with_address', 'fsk_ook_tx_start_beacon')

def mon_faults(run, script, il, iab, ml):
    """C11: a failed transfer is reported by the call in progress, no further write follows, and
    (C11_failed_call_keeps_handle) a failed call that is not a packet operation leaves the handle
    as it was"""
    prev_h = None
    for l in il:
        if not is_op(l):
            continue
        f = fields(l)
        before, prev_h = prev_h, f.get('h')
        ents = spi_entries(f.get('spi'))
        idx = next((i for i, e in enumerate(ents) if e['fault'] is not None), None)
        if idx is None:
            continue
        if f['op'] not in PACKET_OPS and before is not None and f.get('h') is not None:
            run.cov['monitor_checks'] += 1
            if f.get('h') != before:
                run.violation('%s failed at transfer %d but changed the handle: %s -> %s' % (f['op'], idx, before, f.get('h')), script, {'line': l})
                continue
        run.cov['monitor_checks'] += 1
        rc = f.get('rc', '').split(',')[0]
        code = '%x' % ents[idx]['fault']
        op = f['op']
        later_writes = [e for e in ents[idx + 1:] if e['kind'] in ('W', 'WB')]
        if op == 'irq':
            # the handler never delivers a packet it could not read completely
            if any(c['kind'] == 'rx' for c in cb_entries(f.get('cb'))) and any(e['fault'] is not None and (e['kind'] in ('RB', 'R')) for e in ents):
                run.violation('handler delivered a packet although a transfer failed (%s)' % f.get('spi', '')[:80], script, {'line': l})
            continue
        if op == 'rx_get_packet_rssi' and ents[idx]['reg'] == 0x19:
            continue  # documented best-effort SNR read
        if rc != code:
            run.violation('%s returned %s although transfer %d failed with %s' % (op, rc, idx, code), script, {'line': l})
        elif later_writes:
            run.violation('%s wrote %s after a failed transfer' % (op, ','.join('%x' % e['reg'] for e in later_writes)), script, {'line': l})

def mon_ack(run, script, il, iab, ml):
    """C07 clause 1 and 3: the handler writes back to a flag register exactly what it read in
    that invocation; an idle invocation performs no callback and writes only flag registers"""
    for i, l in enumerate(il):
        if not is_op(l):
            continue
        f = fields(l)
        if f['op'] != 'irq':
            continue
        ents = spi_entries(f.get('spi'))
        last_read = {}
        for e in ents:
            if e['fault'] is not None:
                break
            if e['kind'] == 'R' and e['reg'] in (0x12, 0x3e, 0x3f):
                last_read[e['reg']] = int(e['data'], 16)
            if e['kind'] == 'W' and e['reg'] in (0x12, 0x3e, 0x3f):
                run.cov['monitor_checks'] += 1
                v = int(e['data'], 16)
                if e['reg'] == 0x3f and v == 0x10 and (last_read.get(0x3f, 0) & 0x04):
                    continue  # FIFO flush of a CRC-failed packet
                if e['reg'] not in last_read or last_read[e['reg']] != v:
                    run.violation('handler acknowledged %02x on flag register %x but had read %s' % (v, e['reg'], last_read.get(e['reg'])), script, {'line': l})

def expectations(il):
    """yield (index, kind, args) for '#= kind args' lines"""
    for i, l in enumerate(il):
        if l.startswith('#= '):
            p = l[3:].split(' ')
            yield i, p[0], p[1:]

def prev_ops(il, i, stop_kinds=None):
    """operation lines before index i back to the previous expectation line"""
    out = []
    k = i - 1
    while k >= 0 and not il[k].startswith('#= '):
        if is_op(il[k]) or il[k].startswith('chip '):
            out.append(il[k])
        k -= 1
    return list(reversed(out))

def mon_expect(run, script, il, iab, ml):
    """evaluate the '#=' expectations relevant to run.prop"""
    P = run.prop
    hoplist = None
    relisted = None
    hopk = 0
    air_before = b''
    for i, kind, args in expectations(il):
        ops = prev_ops(il, i)
        irqs = [fields(l) for l in ops if l.startswith('irq ')]
        cbs = [c for f in irqs for c in cb_entries(f.get('cb'))]
        last = fields(ops[-1]) if ops and not ops[-1].startswith('chip ') else None
        dumps = [dump_of(l) for l in ops if l.startswith('chip ')]
        if kind == 'fskrx' and P in ('C03', 'C07', 'C08', 'C11'):
            run.cov['monitor_checks'] += 1
            delivered, data = args[0] == '1', ('' if args[1] == '-' else args[1])
            rx = [c for c in cbs if c['kind'] == 'rx']
            if delivered:
                if len(rx) != 1:
                    run.violation('FSK/OOK packet of %d bytes delivered %d times' % (len(data) // 2, len(rx)), script)
                elif rx[0]['data'] != data or rx[0]['len'] != len(data) // 2:
                    run.violation('FSK/OOK packet delivered with wrong content/length: expected %d bytes, got %d' % (len(data) // 2, rx[0]['len']), script,
                                  {'expected': data, 'got': rx[0]['data']})
            elif rx:
                run.violation('CRC-failed FSK/OOK packet was delivered', script)
            # the packet format the chip applies (RegPacketConfig1 as the handler itself read it) is the one the
            # application configured through the API, i.e. the one the handle parses the FIFO with
            for fq in irqs:
                r30 = [e for e in spi_entries(fq.get('spi')) if e['kind'] == 'R' and e['reg'] == 0x30 and e['fault'] is None and e['data']]
                hf = handle_of(fq).get('fmt')
                if r30 and hf is not None and (int(r30[0]['data'], 16) & 0x80) != (int(hf, 16) & 0x80):
                    run.violation('the chip applies packet format bit %d (RegPacketConfig1=%s) while the handle parses the FIFO with format %s, after sx127x_fsk_ook_set_packet_format returned OK' % (
                        int(r30[0]['data'], 16) >> 7, r30[0]['data'], hf), script)
                    break
            if last and (last.get('uf') != '0'):
                run.violation('FIFO read while empty during FSK/OOK reception', script)
            if last:
                h = handle_of(last)
                if h.get('exp') != '0' or h.get('rcv') != '0':
                    run.violation('per-packet state not reset after FSK/OOK packet: exp=%s rcv=%s' % (h.get('exp'), h.get('rcv')), script)
        elif kind == 'fskfault' and P in ('C11',):
            # a packet during whose reception transfers failed: it may be lost, but it is never
            # delivered with bytes the handler could not read, and never twice
            run.cov['monitor_checks'] += 1
            data = '' if args[0] == '-' else args[0]
            rx = [c for c in cbs if c['kind'] == 'rx']
            if len(rx) > 1:
                run.violation('FSK/OOK packet delivered %d times after a failed transfer' % len(rx), script)
            elif rx and (rx[0]['data'] != data or rx[0]['len'] != len(data) // 2):
                run.violation('FSK/OOK packet delivered incomplete or wrong after a failed transfer: expected %d bytes, got %d' % (len(data) // 2, rx[0]['len']), script,
                              {'expected': data, 'got': rx[0]['data']})
        elif kind == 'fsktx_begin' and P in ('C04', 'C07', 'C11'):
            run._fsktx_from = i
        elif kind == 'fsktx_end' and P in ('C04', 'C07', 'C11'):
            run.cov['monitor_checks'] += 1
            leave = args[0] == '1'
            frames = ['' if a == '-' else a for a in args[1:]]
            stream = ''.join(frames)
            bounds = []
            acc = 0
            for fr in frames:
                acc += len(fr)
                bounds.append(acc)
            written = ''
            ntx = 0
            early = None
            window = [l for l in il[getattr(run, '_fsktx_from', 0):i] if is_op(l)]
            for l in window:
                f = fields(l)
                # order inside one operation: the handler's own transfers and callbacks, then what
                # the application did inside the callback; the trace lists SPI entries in order
                # and a callback that queues a packet appears as a reaction, so count callbacks
                # against the bytes written *before* this operation's reaction writes
                pre = written
                for e in spi_entries(f.get('spi')):
                    if e['kind'] == 'WB' and e['reg'] == 0 and e['fault'] is None:
                        written += e['data']
                for c in cb_entries(f.get('cb')):
                    if c['kind'] == 'tx':
                        ntx += 1
                        need = bounds[min(ntx, len(bounds)) - 1]
                        have = len(pre) if c.get('reaction') and 'tx_set_for_transmission' in (c.get('reaction') or '') else len(written)
                        if have < need and early is None:
                            early = 'transmit callback #%d after only %d of %d frame bytes were handed over' % (ntx, have // 2, need // 2)
            if written != stream:
                run.violation('FSK/OOK transmit wrote %d bytes to the FIFO, the frame(s) have %d (or the bytes differ)' % (len(written) // 2, len(stream) // 2), script,
                              {'frames': frames, 'written': written})
            if early:
                run.violation(early, script)
            if last and last.get('of') != '0':
                run.violation('FIFO overflow during FSK/OOK transmit', script)
            if leave and ntx != len(frames):
                run.violation('transmit callback fired %d times for %d packet(s)' % (ntx, len(frames)), script)
            if not leave and ntx < 1:
                run.violation('no transmit callback for a completed packet', script)
            if dumps:
                pass
        elif kind == 'lorarx' and P in ('C05', 'C07', 'C11', 'C08'):
            run.cov['monitor_checks'] += 1
            crcerr, data = args[0] == '1', ('' if args[1] == '-' else args[1])
            f = irqs[-1] if irqs else {}
            rx = [c for c in cb_entries(f.get('cb')) if c['kind'] == 'rx']
            if crcerr and rx:
                run.violation('LoRa packet with CRC error was delivered', script)
            if not crcerr and (len(rx) != 1 or rx[0]['data'] != data or rx[0]['len'] != len(data) // 2):
                run.violation('LoRa packet (%d bytes) delivered %d times / with wrong bytes' % (len(data) // 2, len(rx)), script,
                              {'expected': data, 'got': [c['data'] for c in rx]})
        elif kind == 'idle' and P in ('C05', 'C06', 'C07'):
            run.cov['monitor_checks'] += 1
            f = irqs[-1] if irqs else {}
            if cb_entries(f.get('cb')):
                run.violation('callback from an interrupt invocation with nothing pending', script)
            ws = [e for e in spi_entries(f.get('spi')) if e['kind'] in ('W', 'WB') and e['reg'] not in (0x12, 0x3e, 0x3f)]
            if ws:
                run.violation('idle interrupt invocation wrote register %x' % ws[0]['reg'], script)
        elif kind == 'loratx' and P in ('C06',):
            data = '' if args[0] == '-' else args[0]
            call = next((fields(l) for l in ops if l.startswith('lora_tx_set_for_transmission')), None)
            if call is None or not dumps:
                run.cov['monitor_skipped'] = run.cov.get('monitor_skipped', 0) + 1
                continue
            run.cov['monitor_checks'] += 1
            rc = call.get('rc')
            n = len(data) // 2
            if n == 0:
                if rc != '102' or [e for e in spi_entries(call.get('spi')) if e['kind'] in ('W', 'WB')]:
                    run.violation('empty LoRa packet not rejected cleanly (rc=%s)' % rc, script)
            else:
                d = dumps[-1]
                base = d['l'][0x0e]
                got = bytes(d['buf'][(base + k) % 256] for k in range(n)).hex()
                if rc != '0' or got != data or d['l'][0x22] != n:
                    run.violation('LoRa transmit buffer/length wrong: rc=%s length register=%d expected %d' % (rc, d['l'][0x22], n), script,
                                  {'expected': data, 'got': got})
        elif kind == 'cad' and P in ('C07',):
            run.cov['monitor_checks'] += 1
            f = irqs[-1] if irqs else {}
            cads = [c for c in cb_entries(f.get('cb')) if c['kind'] == 'cad']
            if len(cads) != 1:
                run.violation('the chip raised one CAD-done event: the cad callback fired %d times' % len(cads), script)
        elif kind == 'txonce' and P in ('C06', 'C07', 'C11'):
            run.cov['monitor_checks'] += 1
            ntx = len([c for c in cbs if c['kind'] == 'tx'])
            if ntx != 1:
                run.violation('one transmit-done event (its acknowledgement failed once, then succeeded): the transmit callback fired %d times' % ntx, script)
        elif kind == 'txdone' and P in ('C06', 'C07'):
            run.cov['monitor_checks'] += 1
            fl = int(args[0])
            f = irqs[-1] if irqs else {}
            ntx = len([c for c in cb_entries(f.get('cb')) if c['kind'] == 'tx'])
            expect = 1 if (fl & 0x08) and not (fl & 0x64) else 0
            if ntx != expect:
                run.violation('LoRa transmit callback fired %d times for flags %02x (expected %d)' % (ntx, fl, expect), script)
        elif kind == 'race' and P in ('C07',):
            run.cov['monitor_checks'] += 1
            want_rx, want_hops = int(args[0]), int(args[1])
            nrx = len([c for c in cbs if c['kind'] == 'rx'])
            nhop = sum(1 for f in irqs for e in spi_entries(f.get('spi')) if e['kind'] == 'W' and e['reg'] == 6)
            if nrx != want_rx:
                run.violation('the chip raised %d receive-done events (one of them between two transfers of a running handler), the application got %d receive callbacks' % (want_rx, nrx), script)
            if nhop != want_hops:
                run.violation('the chip raised a channel-change event between two transfers of a running handler; %d hops were performed, expected %d' % (nhop, want_hops), script)
            if irqs and cb_entries(irqs[-1].get('cb')):
                run.violation('callback from an interrupt invocation with nothing pending', script)
        elif kind == 'hoplist' and P == 'C16':
            hoplist = [int(x) for x in args[0].split(',')]
            hopk = 0
        elif kind == 'relist' and P == 'C16':
            # C16 fixes the sequence from a packet boundary for one list; after a change of the list in
            # the middle of a packet the index is checked again from the next boundary on
            relisted = [int(x) for x in args[0].split(',')]
            hoplist = None
        elif kind == 'hop' and P == 'C16' and relisted and not hoplist:
            # after a change of the list in the middle of a packet: whatever the index, an entry of the new list
            run.cov['monitor_checks'] += 1
            f = irqs[-1] if irqs else {}
            w6 = [e for e in spi_entries(f.get('spi')) if e['kind'] == 'W' and e['reg'] == 6]
            ok = {frf_bytes(x) for x in relisted}
            if len(w6) != 1 or w6[0]['data'] not in ok:
                run.violation('hop after a new list was registered programmed %s, which is not an entry of that list' % [e['data'] for e in w6], script)
        elif kind == 'hop' and P == 'C16' and hoplist:
            run.cov['monitor_checks'] += 1
            f = irqs[-1] if irqs else {}
            w6 = [e for e in spi_entries(f.get('spi')) if e['kind'] == 'W' and e['reg'] == 6]
            want = frf_bytes(hoplist[hopk % len(hoplist)])
            if len(w6) != 1 or w6[0]['data'] != want:
                run.violation('hop #%d programmed %s, expected list[%d] = %s' % (hopk, [e['data'] for e in w6], hopk % len(hoplist), want), script)
            hopk += 1
        elif kind == 'hopend' and P == 'C16' and hoplist:
            run.cov['monitor_checks'] += 1
            f = irqs[-1] if irqs else {}
            w6 = [e for e in spi_entries(f.get('spi')) if e['kind'] == 'W' and e['reg'] == 6]
            if w6:
                run.violation('channel change coinciding with the end of a packet caused a hop', script)
            if handle_of(f).get('cf') != '0':
                run.violation('hop index not reset at the end of a packet', script)
            hopk = 0
        elif kind == 'nohop' and P == 'C16':
            run.cov['monitor_checks'] += 1
            f = irqs[-1] if irqs else {}
            w6 = [e for e in spi_entries(f.get('spi')) if e['kind'] == 'W' and e['reg'] == 6]
            if w6:
                run.violation('a hop was performed between two packets although the chip raised no channel-change event (a flag of the previous packet was left pending)', script)
            if handle_of(f).get('cf') != '0':
                run.violation('hop index moved between two packets without a channel-change event', script)
        elif kind == 'hopend' and P == 'C16' and relisted:
            hoplist, relisted = relisted, None
            hopk = 0
        elif kind == 'ldro' and P == 'C13' and dumps:
            run.cov['monitor_checks'] += 1
            d = dumps[-1] if ops and ops[-1].startswith('chip ') else None
        elif kind == 'create' and P == 'C17':
            run.cov['monitor_checks'] += 1
            v = int(args[0])
            f = last or {}
            ents = spi_entries(f.get('spi'))
            if len(ents) != 1 or ents[0]['kind'] != 'R' or ents[0]['reg'] != 0x42 or ents[0]['n'] != 1:
                run.violation('handle creation performed transfers other than one read of the version register: %s' % f.get('spi'), script)
            elif ents[0]['fault'] is None:
                ok = f.get('rc') == '0'
                if ok != (v == 0x12):
                    run.violation('version register %02x: create returned %s' % (v, f.get('rc')), script)
        elif kind == 'attach' and P == 'C17' and len(dumps) >= 1:
            run.cov['monitor_checks'] += 1
            # the dump before the create is in the previous expectation window: compare textually
            k = i - 1
            chips = []
            while k >= 0 and len(chips) < 1:
                if il[k].startswith('chip '):
                    chips.append(il[k])
                k -= 1
        elif kind == 'resumehop' and P == 'C17':
            run.cov['monitor_checks'] += 1
            f = irqs[-1] if irqs else {}
            ws = [e for e in spi_entries(f.get('spi')) if e['kind'] in ('W', 'WB') and e['reg'] != 0x12]
            if ws or cb_entries(f.get('cb')):
                run.violation('a channel-change flag pending at wake-up made the fresh handle (no channel list registered) write register %x / run a callback' % (ws[0]['reg'] if ws else 0), script)
        elif kind == 'resumeopmod' and P == 'C17':
            run.cov['monitor_checks'] += 1
            want = int(args[0])
            f = last or {}
            w1 = [int(e['data'], 16) for e in spi_entries(f.get('spi')) if e['kind'] == 'W' and e['reg'] == 1]
            if any((v & 7) != want for v in w1):
                run.violation('while the fresh handle was told what the chip runs, the receiver was taken out of receive mode (RegOpMode written %s)' % ['%02x' % v for v in w1], script)
        elif kind == 'resume' and P == 'C17':
            run.cov['monitor_checks'] += 1
            data = '' if args[0] == '-' else args[0]
            f = irqs[-1] if irqs else {}
            rx = [c for c in cb_entries(f.get('cb')) if c['kind'] == 'rx']
            if data and (len(rx) != 1 or rx[0]['data'] != data):
                run.violation('packet pending across handle re-creation not delivered intact', script, {'expected': data, 'got': [c['data'] for c in rx]})
            if not data and rx and len(args) > 1 and args[1] == 'crc':
                run.violation('fresh handle delivered a pending packet that failed its CRC (the handle that never slept drops it)', script)
            elif not data and rx:
                run.violation('fresh handle delivered a packet although none was pending', script)
        elif kind == 'freq' and P == 'C12':
            run.cov['monitor_checks'] += 1
            req = int(args[0])
            w = [e for l in ops if is_op(l) for e in spi_entries(fields(l).get('spi')) if e['kind'] == 'W' and e['reg'] == 6]
            if w:
                raw = int(w[-1]['data'], 16)
                real = Fraction(raw * 32000000, 2 ** 19)
                if abs(real - req) >= 250:
                    run.violation('carrier %d Hz programmed as %s Hz (off by >= 250 Hz)' % (req, float(real)), script)
        elif kind == 'rawfreq' and P == 'C12':
            run.cov['monitor_checks'] += 1
            raw = int(args[0])
            f = last or {}
            rc = f.get('rc', '')
            if rc.startswith('0,'):
                got = int(rc.split(',')[1])
                real = Fraction(raw * 32000000, 2 ** 19)
                if abs(real - got) >= 250:
                    run.violation('frequency register %06x read back as %d Hz, programmed value is %s Hz' % (raw, got, float(real)), script)
        elif kind == 'bitrate' and P == 'C12':
            run.cov['monitor_checks'] += 1
            mod, bits = int(args[0]), int(args[1])
            x = f32(bits)
            f = next((fields(l) for l in reversed(ops) if is_op(l)), {})
            hi = 300000.0 if mod == FSK else 25000.0
            valid = (x == x) and 1200.0 <= x <= hi
            rc = f.get('rc')
            if valid != (rc == '0'):
                run.violation('bit rate %r: rc=%s (documented range 1200..%d)' % (x, rc, hi), script)
            elif valid and dumps:
                # what the chip holds after the call (RegBitrateMsb/Lsb, RegBitRateFrac)
                d = dumps[-1]
                div = d['s'][2] * 256 + d['s'][3]
                v = div * 16 + (d['s'][0x5d] & 15)
                exact = Fraction(32000000 * 16) / Fraction(x)
                if mod == OOK:
                    # no fractional part in OOK: one step is a whole divider unit.  The quotient is
                    # computed in binary32 and truncated: C12_ook_bitrate states exactly this window
                    # (32 MHz/(v+1) < rate <= 32 MHz/v * (1 + 2^-24))
                    if not (div > 0 and Fraction(32000000, div + 1) < Fraction(x) <= Fraction(32000000, div) * (1 + Fraction(1, 2 ** 24))):
                        run.violation('OOK bit rate %r programmed divider %d, exact %s' % (x, div, float(exact / 16)), script)
                elif not (v > 0 and Fraction(32000000 * 16, v + 1) < Fraction(x) <= Fraction(32000000 * 16, v) * (1 + Fraction(1, 2 ** 52))):
                    # FSK: computed in binary64 (C12_fsk_bitrate)
                    run.violation('FSK bit rate %r: the chip holds divider %d/16, exact %s/16' % (x, v, float(exact)), script)
        elif kind == 'fdev' and P == 'C12':
            run.cov['monitor_checks'] += 1
            x = f32(int(args[0]))
            f = last or {}
            valid = (x == x) and 600.0 <= x <= 200000.0
            if valid != (f.get('rc') == '0'):
                run.violation('deviation %r: rc=%s (documented range 600..200000)' % (x, f.get('rc')), script)
            elif valid:
                w = next((e for e in spi_entries(f.get('spi')) if e['kind'] == 'W' and e['reg'] == 4), None)
                if w:
                    v = int(w['data'], 16)
                    exact = Fraction(x) * 2 ** 19 / 32000000
                    if not (-1 < exact - v < 1):
                        run.violation('deviation %r programmed %d steps, exact %s' % (x, v, float(exact)), script)
        elif kind == 'bw' and P == 'C12':
            run.cov['monitor_checks'] += 1
            x = f32(int(args[0]))
            f = last or {}
            w = next((e for e in spi_entries(f.get('spi')) if e['kind'] == 'W' and e['reg'] in (0x12, 0x13)), None)
            if w and x == x and 2600.0 <= x <= 250000.0:
                code = int(w['data'], 16)
                m_, e_ = (code >> 3) & 3, code & 7
                pts = [(Fraction(32000000, (16 + 4 * m) * 2 ** (e + 2)), m, e) for e in range(1, 8) for m in range(3)]
                best = min(abs(Fraction(x) - p[0]) for p in pts)
                if m_ > 2 or e_ < 1:
                    run.violation('bandwidth %r programmed reserved code %02x' % (x, code), script)
                else:
                    got = abs(Fraction(x) - Fraction(32000000, (16 + 4 * m_) * 2 ** (e_ + 2)))
                    if got > best * (1 + Fraction(1, 2 ** 20)) + Fraction(x) / 2 ** 21:
                        run.violation('bandwidth %r programmed code %02x which is not the closest chip bandwidth' % (x, code), script)
        elif kind == 'beaconfifo' and P == 'C14':
            if not dumps:
                continue
            run.cov['monitor_checks'] += 1
            want = '' if args[0] == '-' else args[0]
            got = bytes(dumps[-1]['fifo']).hex()
            if last is None or True:
                if got != want:
                    run.violation('beacon: the FIFO holds %d bytes, the beacon payload has %d (or the bytes differ)' % (len(got) // 2, len(want) // 2), script,
                                  {'fifo': got, 'payload': want})
        elif kind == 'beacon' and P == 'C14':
            run.cov['monitor_checks'] += 1
            iv = int(args[0])
            f = last or {}
            if f.get('rc') != '0':
                if iv <= 133620:
                    run.violation('beacon interval %d ms rejected (rc=%s)' % (iv, f.get('rc')), script)
                continue
            ents = spi_entries(f.get('spi'))
            w = {}
            for e in ents:
                # single writes and bursts alike: the value each register ends up with
                if e['kind'] in ('W', 'WB') and e['reg'] != 0 and e['fault'] is None and e['data']:
                    for k in range(e['n']):
                        w[e['reg'] + k] = int(e['data'][2 * k:2 * k + 2], 16)
            order = [e['reg'] for e in ents if e['kind'] in ('W', 'WB')]
            res = {1: Fraction(64, 1000), 2: Fraction(41, 10), 3: Fraction(262)}
            if 0x38 in w and 0x39 in w and 0x3a in w:
                r1, r2 = (w[0x38] >> 2) & 3, w[0x38] & 3
                if r1 == 0 or r2 == 0:
                    run.violation('beacon %d ms: timer disabled (resolution %02x)' % (iv, w[0x38]), script)
                else:
                    total = res[r1] * w[0x39] + res[r2] * w[0x3a]
                    dev = Fraction(iv) - total
                    lim = Fraction(262) if iv > 67800 else Fraction(41, 10)   # "262 ms above 67.8 s"
                    fine = min(res[r1] if w[0x39] else res[r2], res[r2] if w[0x3a] else res[r1])
                    if not (0 <= dev < lim + Fraction(1, 1000)):
                        run.violation('beacon %d ms programmed as %s ms (T1=%d x %s, T2=%d x %s)' % (iv, float(total), w[0x39], float(res[r1]), w[0x3a], float(res[r2])), script)
            if 0x31 in order and 0x36 in order and order.index(0x31) > len(order) - 1 - order[::-1].index(0x36):
                run.violation('sequencer started before beacon mode was enabled', script)

def frf_bytes(freq):
    import struct as _s
    # float arithmetic of the driver is not re-implemented here: the exact register value is
    # floor(f * 2^19 / 32e6) up to the float rounding, so accept both neighbours via the model
    shifted = freq << 19
    f = _s.unpack('<f', _s.pack('<f', float(shifted)))[0]
    q = _s.unpack('<f', _s.pack('<f', f / _s.unpack('<f', _s.pack('<f', 32000000.0))[0]))[0]
    return '%06x' % (int(q) & 0xffffff)

def f32(bits):
    return struct.unpack('<f', struct.pack('<I', bits))[0]

def mon_ldro(run, script, il, iab, ml):
    """C13: after each bandwidth / spreading factor call, bit 3 of RegModemConfig3 follows the
    16 ms rule for the combination now programmed; other bits of the register unchanged"""
    BW = {0: 7800, 1: 10400, 2: 15600, 3: 20800, 4: 31250, 5: 41700, 6: 62500, 7: 125000, 8: 250000, 9: 500000}
    for l in il:
        if not is_op(l):
            continue
        f = fields(l)
        if f['op'] not in ('lora_set_bandwidth', 'lora_set_modem_config_2') or f.get('rc') != '0':
            continue
        ents = spi_entries(f.get('spi'))
        if any(e['fault'] is not None for e in ents):
            continue
        run.cov['monitor_checks'] += 1
        # registers as the chip holds them after the call, reconstructed from the trace
        val = {}
        for e in ents:
            if e['kind'] == 'R' and e['n'] == 1:
                val.setdefault(('r', e['reg']), int(e['data'], 16))
            if e['kind'] in ('R', 'W') and e['n'] == 1:
                val[e['reg']] = int(e['data'], 16)
        w26 = [e for e in ents if e['kind'] == 'W' and e['reg'] == 0x26]
        if 0x1d not in val or 0x1e not in val or not w26:
            run.violation('%s did not (re)compute low data rate optimisation: %s' % (f['op'], f.get('spi')), script)
            continue
        bw = BW.get(val[0x1d] >> 4)
        sf = val[0x1e] >> 4
        if bw is None:
            continue
        want = 1 if (2 ** sf) * 1000 > 16 * bw else 0
        got = (int(w26[-1]['data'], 16) >> 3) & 1
        if got != want:
            run.violation('LDRO=%d for SF%d / %d Hz (symbol %.3f ms)' % (got, sf, bw, (2 ** sf) * 1000.0 / bw), script, {'line': l})
        r26 = [e for e in ents if e['kind'] == 'R' and e['reg'] == 0x26]
        if r26 and (int(r26[-1]['data'], 16) & 0xf7) != (int(w26[-1]['data'], 16) & 0xf7):
            run.violation('automatic LDRO changed other bits of RegModemConfig3: %s -> %s' % (r26[-1]['data'], w26[-1]['data']), script)


def mon_decode(run, script, il, iab, ml):
    """C12, decoders: values returned by the getters equal the datasheet formulas applied to the
    raw register bytes that the call read (taken from its SPI trace)"""
    BW = {0: 7800, 1: 10400, 2: 15600, 3: 20800, 4: 31250, 5: 41700, 6: 62500, 7: 125000, 8: 250000, 9: 500000}
    frf = None      # RegFrf as last written or read on the bus (a later read may be served by the cache)
    for l in il:
        if not is_op(l):
            if l.startswith('reset') or l.startswith('env chiprand') or l.startswith('env chip s'):
                frf = None
            m = re.match(r'chip s=([0-9a-f]+)', l)
            if m:
                # a dump of the chip: RegFrf as the chip holds it (a fresh handle has not read it yet)
                frf = int(m.group(1)[12:18], 16)
            continue
        f = fields(l)
        op = f['op']
        rc = f.get('rc', '')
        for e in spi_entries(f.get('spi')):
            if e['reg'] == 6 and e['fault'] is None and e['kind'] in ('W', 'R') and len(e['data']) == 6:
                frf = int(e['data'], 16)
        if op == 'create':
            frf = None
        if not rc.startswith('0,'):
            continue
        ents = spi_entries(f.get('spi'))
        if any(e['fault'] is not None for e in ents):
            continue
        reads = {e['reg']: int(e['data'], 16) for e in ents if e['kind'] == 'R'}
        am = int(handle_of(f).get('am', '0'), 16)
        val = rc.split(',', 1)[1]
        if op == 'rx_get_frequency_error' and am == LORA and 0x28 in reads and 0x1d in reads:
            run.cov['monitor_checks'] += 1
            raw = reads[0x28] & 0xfffff
            if raw & 0x80000:
                raw -= 1 << 20
            bw = BW.get(reads[0x1d] >> 4)
            if bw is None:
                continue
            exact = Fraction(raw) * Fraction(2 ** 24, 32000000) * Fraction(bw, 500000)
            got = int(val)
            if abs(exact - got) > 1 + abs(exact) * Fraction(1, 2 ** 20):
                run.violation('LoRa frequency error decoded as %d Hz, datasheet formula gives %.2f Hz (RegFei=%05x, BW %d Hz)' % (got, float(exact), reads[0x28], bw), script, {'line': l})
        elif op == 'rx_get_frequency_error' and am in (FSK, OOK) and 0x1b in reads:
            run.cov['monitor_checks'] += 1
            raw = reads[0x1b] & 0xffff
            if raw & 0x8000:
                raw -= 1 << 16
            exact = Fraction(raw) * Fraction(32000000, 2 ** 19)
            got = int(val)
            if abs(exact - got) > 1 + abs(exact) * Fraction(1, 2 ** 20):
                run.violation('FSK AFC error decoded as %d Hz, formula gives %.2f Hz (raw %04x)' % (got, float(exact), reads[0x1b]), script, {'line': l})
        elif op == 'lora_rx_get_packet_snr' and 0x19 in reads:
            run.cov['monitor_checks'] += 1
            raw = reads[0x19]
            if raw >= 128:
                raw -= 256
            got = f32(int(val, 16))
            if got != raw / 4.0:
                run.violation('SNR decoded as %r, formula gives %r (raw %02x)' % (got, raw / 4.0, reads[0x19]), script, {'line': l})
        elif op == 'rx_get_packet_rssi' and am == LORA and 0x1a in reads and (0x06 in reads or frf is not None):
            run.cov['monitor_checks'] += 1
            freq = Fraction(reads.get(0x06, frf) * 32000000, 2 ** 19)
            rssi = reads[0x1a] - (164 if freq < 525000000 else 157)
            snr = reads.get(0x19)
            if snr is not None:
                s8 = snr - 256 if snr >= 128 else snr
                if s8 < 0:
                    rssi = int(rssi + s8 / 4.0)   # conversion back to int16 truncates toward zero
            got = int(val)
            if abs(freq - 525000000) > 200 and got != rssi:
                run.violation('packet RSSI decoded as %d, formula gives %d (raw rssi %02x, snr %s)' % (got, rssi, reads[0x1a], snr), script, {'line': l})
        elif op == 'fsk_ook_get_raw_temperature' and 0x3c in reads:
            run.cov['monitor_checks'] += 1
            v = reads[0x3c]
            want = 255 - v if v & 0x80 else -v
            if int(val) != want:
                run.violation('raw temperature decoded as %s, formula gives %d (raw %02x)' % (val, want, v), script, {'line': l})
        elif op in ('rx_get_frequency_error', 'lora_rx_get_packet_snr', 'rx_get_packet_rssi', 'fsk_ook_get_raw_temperature', 'lora_get_bandwidth') and not (
                (op == 'lora_get_bandwidth' and 0x1d in reads) or (op == 'rx_get_packet_rssi' and am in (FSK, OOK))):
            # a decoder call whose raw input is not on the bus (served by the cache): not evaluated
            run.cov['monitor_skipped'] = run.cov.get('monitor_skipped', 0) + 1
        elif op == 'lora_get_bandwidth' and 0x1d in reads:
            run.cov['monitor_checks'] += 1
            bw = BW.get(reads[0x1d] >> 4)
            if bw is not None and int(val) != bw:
                run.violation('bandwidth decoded as %s, table gives %d' % (val, bw), script, {'line': l})
