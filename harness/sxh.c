// Correspondence harness: the *unchanged* src/sx127x.c of the working tree linked against a
// simulated SX127x chip (DESIGN.md section 4) that provides the four sx127x_spi_* entry points.
// Reads an operation script on stdin (one operation per line), prints one trace line per
// operation on stdout.  The Lean executable `sxmodel` reads the same script and must print the
// same lines.  Lines starting with '!' are monitor findings of this side only.
#include <stdio.h>
#include <stdlib.h>
#include <string.h>
#include <stdint.h>
#include <stdbool.h>
#include <sx127x.h>
#include <sx127x_registers.h>
#include <sx127x_spi.h>

// ------------------------------------------------------------------ chip simulator
typedef struct {
  uint8_t shared[128], lora[128], fsk[128];
  uint8_t buf[256];
  uint8_t fifo[64];
  int fifo_len;
  unsigned underflow;  // FSK FIFO read while empty
  unsigned overflow;   // FSK FIFO write while full
  unsigned contract;   // SPI requests outside the documented contract
  uint8_t air[8192];   // bytes shifted out by the modulator
  int air_len;
} chip_t;

static chip_t chips[2];
static int cur;   // the radio the script is currently talking to (C18: two handles, two chips)
#define chip chips[cur]

static bool chip_is_lora(void) { return (chip.shared[1] & 0x80) != 0 && (chip.shared[1] & 0x40) == 0; }
static uint8_t *chip_cell(int a) {
  a &= 0x7f;
  if (a >= 0x0d && a <= 0x3f) return chip_is_lora() ? &chip.lora[a] : &chip.fsk[a];
  return &chip.shared[a];
}
static void fifo_flush(void) {
  chip.fifo_len = 0;
  chip.fsk[0x3f] &= (uint8_t) ~0x06;  // PayloadReady, CrcOk cleared when the FIFO is empty
}
static uint8_t chip_read(int a) {
  a &= 0x7f;
  if (a == 0) {
    if (chip_is_lora()) {
      uint8_t v = chip.buf[chip.lora[0x0d]];
      chip.lora[0x0d]++;
      return v;
    }
    if (chip.fifo_len == 0) {
      chip.underflow++;
      return 0;
    }
    uint8_t v = chip.fifo[0];
    memmove(chip.fifo, chip.fifo + 1, (size_t) (chip.fifo_len - 1));
    chip.fifo_len--;
    if (chip.fifo_len == 0) chip.fsk[0x3f] &= (uint8_t) ~0x06;
    return v;
  }
  if (a == 0x3f && !chip_is_lora()) {
    uint8_t v = chip.fsk[0x3f] & 0x1f;
    int thr = chip.fsk[0x35] & 0x3f;
    if (chip.fifo_len >= 64) v |= 0x80;
    if (chip.fifo_len == 0) v |= 0x40;
    if (chip.fifo_len > thr) v |= 0x20;
    return v;
  }
  return *chip_cell(a);
}
static void chip_write(int a, uint8_t v) {
  a &= 0x7f;
  if (a == 0) {
    if (chip_is_lora()) {
      chip.buf[chip.lora[0x0d]] = v;
      chip.lora[0x0d]++;
      return;
    }
    if (chip.fifo_len >= 64) {
      chip.overflow++;
      chip.fsk[0x3f] |= 0x10;
      return;
    }
    chip.fifo[chip.fifo_len++] = v;
    return;
  }
  if (chip_is_lora() && a == 0x12) {
    chip.lora[0x12] &= (uint8_t) ~v;
    return;
  }
  if (!chip_is_lora() && a == 0x3e) {
    chip.fsk[0x3e] &= (uint8_t) ~(v & 0x0b);
    return;
  }
  if (!chip_is_lora() && a == 0x3f) {
    if (v & 0x10) {
      chip.fsk[0x3f] &= (uint8_t) ~0x10;
      fifo_flush();
    }
    if (v & 0x01) chip.fsk[0x3f] &= (uint8_t) ~0x01;
    return;
  }
  *chip_cell(a) = v;
}

// ------------------------------------------------------------------ per-operation context
#define MAXEV 64
typedef struct { int at; char text[700]; } sched_ev_t;
static sched_ev_t sched[MAXEV];
static int nsched;
typedef struct { int at; int code; } fault_t;
static fault_t faults[MAXEV];
static int nfaults;
static int xfer;  // bus transfer index inside the current operation

static char *spilog;
static size_t spilog_len, spilog_cap;
static char *cblog;
static size_t cblog_len, cblog_cap;

static void app(char **buf, size_t *len, size_t *cap, const char *s) {
  size_t n = strlen(s);
  if (*len + n + 1 > *cap) {
    *cap = (*len + n + 1) * 2;
    *buf = realloc(*buf, *cap);
  }
  memcpy(*buf + *len, s, n + 1);
  *len += n;
}
static void app_hex(char **buf, size_t *len, size_t *cap, const uint8_t *d, size_t n) {
  static const char *hx = "0123456789abcdef";
  char tmp[3] = {0, 0, 0};
  for (size_t i = 0; i < n; i++) {
    tmp[0] = hx[d[i] >> 4];
    tmp[1] = hx[d[i] & 15];
    app(buf, len, cap, tmp);
  }
}
#define SPI(s) app(&spilog, &spilog_len, &spilog_cap, (s))
#define SPIHEX(d, n) app_hex(&spilog, &spilog_len, &spilog_cap, (d), (n))
#define CB(s) app(&cblog, &cblog_len, &cblog_cap, (s))
#define CBHEX(d, n) app_hex(&cblog, &cblog_len, &cblog_cap, (d), (n))

static void env_apply(char *text);

// fire scheduled environment events, then decide whether this transfer faults
static unsigned long op_transfers;   // reset at the start of every operation
static int pre_transfer(void) {
  if (++op_transfers > 300000) {
    printf("!C08 more than 300000 transfers in one operation (endless loop)\n");
    fflush(stdout);
    fprintf(stderr, "runtime error: more than 300000 SPI transfers in one operation (endless loop)\n");
    abort();
  }
  for (int i = 0; i < nsched; i++) {
    if (sched[i].at == xfer) {
      char tmp[700];
      strcpy(tmp, sched[i].text);
      env_apply(tmp);
    }
  }
  int code = 0;
  for (int i = 0; i < nfaults; i++) {
    if (faults[i].at == xfer) code = faults[i].code;
  }
  xfer++;
  return code;
}

#define the_spi_device ((void *) &chips[cur])
static unsigned wrong_device;
// the chip addressed by a request is identified by the spi_device pointer of the handle
static int enter_spi(void *spi_device) {
  int saved = cur;
  if (spi_device == (void *) &chips[0]) {
    if (cur != 0) wrong_device++;
    cur = 0;
  } else if (spi_device == (void *) &chips[1]) {
    if (cur != 1) wrong_device++;
    cur = 1;
  } else {
    wrong_device++;
  }
  return saved;
}

static bool contract(int reg, size_t n, bool buffer) {
  bool ok = reg >= 0 && reg <= 0x70;
  if (buffer) {
    ok = ok && n <= 2047;
  } else {
    ok = ok && n >= 1 && n <= 4;
  }
  if (reg != 0) ok = ok && (reg + (int) n <= 0x71);
  if (!ok) {
    chip.contract++;
    printf("!C19 contract reg=%x n=%zu buffer=%d\n", reg, n, (int) buffer);
  }
  return ok;
}

static int sx127x_spi_read_registers_impl(int reg, void *spi_device, size_t data_length, uint32_t *result) {
  if (!contract(reg, data_length, false) && (data_length == 0 || data_length > 4)) {
    SPI("R?/bad=!ffffffff;");   // what the bundled backends do with such a request: refuse it, no transaction
    return -1;
  }
  int code = pre_transfer();
  char tmp[64];
  snprintf(tmp, sizeof tmp, "R%x/%zu=", reg, data_length);
  SPI(tmp);
  if (code != 0) {
    snprintf(tmp, sizeof tmp, "!%x;", code);
    SPI(tmp);
    return code;
  }
  uint32_t v = 0;
  for (size_t i = 0; i < data_length; i++) {
    int a = (reg == 0) ? 0 : reg + (int) i;
    v = (v << 8) | chip_read(a);
  }
  *result = v;
  snprintf(tmp, sizeof tmp, "%x;", v);
  SPI(tmp);
  return 0;
}

int sx127x_spi_read_registers(int reg, void *spi_device, size_t data_length, uint32_t *result) {
  int saved = enter_spi(spi_device);
  int rc = sx127x_spi_read_registers_impl(reg, spi_device, data_length, result);
  cur = saved;
  return rc;
}

static int sx127x_spi_read_buffer_impl(int reg, uint8_t *buffer, size_t buffer_length, void *spi_device) {
  contract(reg, buffer_length, true);
  int code = pre_transfer();
  char tmp[64];
  snprintf(tmp, sizeof tmp, "RB%x/%zu=", reg, buffer_length);
  SPI(tmp);
  if (code != 0) {
    snprintf(tmp, sizeof tmp, "!%x;", code);
    SPI(tmp);
    return code;
  }
  for (size_t i = 0; i < buffer_length; i++) {
    int a = (reg == 0) ? 0 : reg + (int) i;
    buffer[i] = chip_read(a);
  }
  SPIHEX(buffer, buffer_length);
  SPI(";");
  return 0;
}

int sx127x_spi_read_buffer(int reg, uint8_t *buffer, size_t buffer_length, void *spi_device) {
  int saved = enter_spi(spi_device);
  int rc = sx127x_spi_read_buffer_impl(reg, buffer, buffer_length, spi_device);
  cur = saved;
  return rc;
}

static int sx127x_spi_write_register_impl(int reg, const uint8_t *data, size_t data_length, void *spi_device) {
  if (!contract(reg, data_length, false) && (data_length == 0 || data_length > 4)) {
    SPI("W?:bad!ffffffff;");
    return -1;
  }
  int code = pre_transfer();
  char tmp[64];
  snprintf(tmp, sizeof tmp, "W%x:", reg);
  SPI(tmp);
  SPIHEX(data, data_length);
  if (code != 0) {
    snprintf(tmp, sizeof tmp, "!%x;", code);
    SPI(tmp);
    return code;
  }
  for (size_t i = 0; i < data_length; i++) {
    int a = (reg == 0) ? 0 : reg + (int) i;
    chip_write(a, data[i]);
  }
  SPI(";");
  return 0;
}

int sx127x_spi_write_register(int reg, const uint8_t *data, size_t data_length, void *spi_device) {
  int saved = enter_spi(spi_device);
  int rc = sx127x_spi_write_register_impl(reg, data, data_length, spi_device);
  cur = saved;
  return rc;
}

static int sx127x_spi_write_buffer_impl(int reg, const uint8_t *buffer, size_t buffer_length, void *spi_device) {
  contract(reg, buffer_length, true);
  int code = pre_transfer();
  char tmp[64];
  snprintf(tmp, sizeof tmp, "WB%x:", reg);
  SPI(tmp);
  SPIHEX(buffer, buffer_length);
  if (code != 0) {
    snprintf(tmp, sizeof tmp, "!%x;", code);
    SPI(tmp);
    return code;
  }
  for (size_t i = 0; i < buffer_length; i++) {
    int a = (reg == 0) ? 0 : reg + (int) i;
    chip_write(a, buffer[i]);
  }
  SPI(";");
  return 0;
}

int sx127x_spi_write_buffer(int reg, const uint8_t *buffer, size_t buffer_length, void *spi_device) {
  int saved = enter_spi(spi_device);
  int rc = sx127x_spi_write_buffer_impl(reg, buffer, buffer_length, spi_device);
  cur = saved;
  return rc;
}

// ------------------------------------------------------------------ environment events
static uint32_t xs_state;
static uint32_t xorshift(void) {
  uint32_t x = xs_state;
  x ^= x << 13;
  x ^= x >> 17;
  x ^= x << 5;
  xs_state = x;
  return x;
}

static int hexval(char c) {
  if (c >= '0' && c <= '9') return c - '0';
  if (c >= 'a' && c <= 'f') return c - 'a' + 10;
  if (c >= 'A' && c <= 'F') return c - 'A' + 10;
  return -1;
}
// "-" is the empty byte string
static size_t parse_hex(const char *s, uint8_t *out, size_t cap) {
  if (s == NULL || strcmp(s, "-") == 0) return 0;
  size_t n = 0;
  while (s[0] && s[1] && n < cap) {
    out[n++] = (uint8_t) (hexval(s[0]) * 16 + hexval(s[1]));
    s += 2;
  }
  return n;
}
static long long num(const char *s) { return s ? strtoll(s, NULL, 0) : 0; }
static unsigned long long unum(const char *s) { return s ? strtoull(s, NULL, 0) : 0; }

static void env_apply(char *text) {
  char *tok[8];
  int n = 0;
  for (char *p = strtok(text, " "); p && n < 8; p = strtok(NULL, " ")) tok[n++] = p;
  if (n == 0) return;
  const char *e = tok[0];
  if (!strcmp(e, "rxbyte")) {
    uint8_t b = (uint8_t) num(tok[1]);
    if (chip.fifo_len >= 64) {
      chip.overflow++;
      chip.fsk[0x3f] |= 0x10;
    } else {
      chip.fifo[chip.fifo_len++] = b;
    }
  } else if (!strcmp(e, "rxend")) {
    bool crcok = num(tok[1]) != 0;
    bool crcon = (chip.fsk[0x30] & 0x10) != 0;
    bool autoclear_off = (chip.fsk[0x30] & 0x08) != 0;
    if (crcon && !crcok && !autoclear_off) {
      fifo_flush();
    } else {
      chip.fsk[0x3f] |= 0x04;
      if (crcon && crcok) {
        chip.fsk[0x3f] |= 0x02;
      } else {
        chip.fsk[0x3f] &= (uint8_t) ~0x02;
      }
    }
  } else if (!strcmp(e, "flag1")) {
    chip.fsk[0x3e] |= (uint8_t) num(tok[1]);
  } else if (!strcmp(e, "flag2")) {
    chip.fsk[0x3f] |= (uint8_t) (num(tok[1]) & 0x1f);
  } else if (!strcmp(e, "txshift")) {
    if (chip.fifo_len == 0) {
      chip.underflow++;
    } else {
      if (chip.air_len < (int) sizeof chip.air) chip.air[chip.air_len++] = chip.fifo[0];
      memmove(chip.fifo, chip.fifo + 1, (size_t) (chip.fifo_len - 1));
      chip.fifo_len--;
    }
  } else if (!strcmp(e, "txsent")) {
    chip.fsk[0x3f] |= 0x08;
  } else if (!strcmp(e, "lorarx")) {
    // lorarx <start> <crcerr> <hexbytes>
    uint8_t start = (uint8_t) num(tok[1]);
    bool crcerr = num(tok[2]) != 0;
    static uint8_t data[256];
    size_t len = parse_hex(tok[3], data, 255);
    for (size_t i = 0; i < len; i++) chip.buf[(uint8_t) (start + i)] = data[i];
    chip.lora[0x10] = start;
    chip.lora[0x13] = (uint8_t) len;
    chip.lora[0x25] = (uint8_t) (start + len);
    chip.lora[0x12] |= (uint8_t) (0x40 | 0x10 | (crcerr ? 0x20 : 0));
  } else if (!strcmp(e, "loraflags")) {
    chip.lora[0x12] |= (uint8_t) num(tok[1]);
  } else if (!strcmp(e, "chip")) {
    // chip <s|l|f> <addr> <val> : set a register of a given page
    int a = (int) num(tok[2]) & 0x7f;
    uint8_t v = (uint8_t) num(tok[3]);
    if (tok[1][0] == 's') chip.shared[a] = (a == 1) ? (uint8_t) ((chip.shared[1] & 0xc0) | (v & 0x3f)) : v;
    else if (tok[1][0] == 'l') chip.lora[a] = v;
    else chip.fsk[a] = v;
  } else if (!strcmp(e, "buf")) {
    chip.buf[(uint8_t) num(tok[1])] = (uint8_t) num(tok[2]);
  } else if (!strcmp(e, "chiprand")) {
    xs_state = (uint32_t) unum(tok[1]) | 1u;
    for (int i = 0; i < 128; i++) chip.shared[i] = (uint8_t) xorshift();
    for (int i = 0; i < 128; i++) chip.lora[i] = (uint8_t) xorshift();
    for (int i = 0; i < 128; i++) chip.fsk[i] = (uint8_t) xorshift();
    for (int i = 0; i < 256; i++) chip.buf[i] = (uint8_t) xorshift();
    chip.shared[0x42] = 0x12;
  } else {
    printf("!harness unknown env event %s\n", e);
  }
}

// ------------------------------------------------------------------ device + callbacks
static sx127x *devices[2];
#define device devices[cur]
static uint64_t *freq_lists[2];
#define freq_list freq_lists[cur]
static char oncbs[2][3][9000];
#define oncb oncbs[cur]  // reaction op for rx / tx / cad callbacks ("" = none)
static int run_api(char **tok, int n, char *out, size_t outcap);

static void react(int which) {
  if (oncb[which][0] == 0) return;
  static char tmp[9000];
  strcpy(tmp, oncb[which]);
  char *tok[16];
  int n = 0;
  for (char *p = strtok(tmp, " "); p && n < 16; p = strtok(NULL, " ")) tok[n++] = p;
  char out[256];
  char name[100];
  snprintf(name, sizeof name, "%s", tok[0]);
  int rc = run_api(tok, n, out, sizeof out);
  char t2[400];
  snprintf(t2, sizeof t2, "[%s=%x%s]", name, rc, out);
  CB(t2);
}
static void rx_callback(sx127x *d, uint8_t *data, uint16_t len) {
  char tmp[32];
  snprintf(tmp, sizeof tmp, "rx:%u:", (unsigned) len);
  CB(tmp);
  size_t n = len;
  if (n > sizeof d->packet) n = sizeof d->packet;
  CBHEX(data, n);
  react(0);
  CB(";");
}
static void tx_callback(sx127x *d) {
  (void) d;
  CB("tx");
  react(1);
  CB(";");
}
static void cad_callback(sx127x *d, int detected) {
  (void) d;
  char tmp[32];
  snprintf(tmp, sizeof tmp, "cad:%d", detected);
  CB(tmp);
  react(2);
  CB(";");
}

static uint32_t fnv(const uint8_t *d, size_t n) {
  uint32_t h = 2166136261u;
  for (size_t i = 0; i < n; i++) {
    h ^= d[i];
    h *= 16777619u;
  }
  return h;
}

static int verbose;

static void print_handle(void) {
  printf(" h=am:%x,om:%x,ih:%d,cb:%d%d%d,exp:%u,rcv:%u,ra:%d,rs:%d,fmt:%x,crc:%x,fq:%d,fl:%u,cf:%u,pk:%08x",
         (unsigned) device->active_modem, (unsigned) device->opmod, (int) device->use_implicit_header,
         device->rx_callback != NULL, device->tx_callback != NULL, device->cad_callback != NULL,
         (unsigned) device->expected_packet_length, (unsigned) device->fsk_ook_packet_sent_received,
         (int) device->fsk_rssi_available, (int) device->fsk_rssi, (unsigned) device->fsk_ook_format,
         (unsigned) device->fsk_crc_type, device->frequencies != NULL, (unsigned) device->frequencies_length,
         (unsigned) device->current_frequency, fnv(device->packet, sizeof device->packet));
#ifndef CONFIG_SX127X_DISABLE_SPI_CACHE
  uint8_t vals[MAX_NUMBER_OF_REGISTERS];
  for (int i = 0; i < MAX_NUMBER_OF_REGISTERS; i++) {
    vals[i] = device->spi_device.shadow_registers_sync[i] == 1 ? device->spi_device.shadow_registers[i] : 0;
  }
  printf(" c=%08x:%08x", fnv(device->spi_device.shadow_registers_sync, MAX_NUMBER_OF_REGISTERS), fnv(vals, MAX_NUMBER_OF_REGISTERS));
  if (verbose) {
    printf(" cache=");
    for (int i = 0; i < MAX_NUMBER_OF_REGISTERS; i++) {
      int s = device->spi_device.shadow_registers_sync[i];
      if (s == 1) printf("%02x", vals[i]);
      else printf(s == 2 ? "~~" : "..");
    }
  }
#endif
}

// C01 monitor: every cached entry equals the chip's content in the active page
static void monitor_cache(const char *op) {
#ifndef CONFIG_SX127X_DISABLE_SPI_CACHE
  for (int a = 1; a < MAX_NUMBER_OF_REGISTERS; a++) {
    if (device->spi_device.shadow_registers_sync[a] == 1) {
      uint8_t cv = device->spi_device.shadow_registers[a];
      uint8_t chv = (a == 0x3f && !chip_is_lora()) ? chip_read(a) : *chip_cell(a);
      if (cv != chv) {
        printf("!C01 incoherent after %s: addr=%x cache=%x chip=%x\n", op, a, cv, chv);
        return;
      }
    }
  }
#else
  (void) op;
#endif
}

static uint8_t *dup_bytes(const uint8_t *src, size_t n) {
  uint8_t *p = malloc(n ? n : 1);
  memcpy(p, src, n);
  return p;
}
static float f32_of_bits(uint32_t u) {
  float f;
  memcpy(&f, &u, 4);
  return f;
}

#define IS(x) (!strcmp(name, x))
#define A(i) ((i) < n ? tok[i] : NULL)
// executes one API call; returns rc, writes " out=..." style suffix into out
static int run_api(char **tok, int n, char *out, size_t outcap) {
  const char *name = tok[0];
  out[0] = 0;
  static uint8_t bytes[4096];
  if (IS("set_opmod")) return sx127x_set_opmod((sx127x_mode_t) num(A(1)), (sx127x_modulation_t) num(A(2)), device);
  if (IS("set_frequency")) return sx127x_set_frequency(unum(A(1)), device);
  if (IS("get_frequency")) {
    uint64_t f = 0;
    int rc = sx127x_get_frequency(device, &f);
    if (rc == 0) snprintf(out, outcap, ",%llu", (unsigned long long) f);
    return rc;
  }
  if (IS("lora_reset_fifo")) return sx127x_lora_reset_fifo(device);
  if (IS("rx_set_lna_gain")) return sx127x_rx_set_lna_gain((sx127x_gain_t) num(A(1)), device);
  if (IS("rx_set_lna_boost_hf")) return sx127x_rx_set_lna_boost_hf(num(A(1)) != 0, device);
  if (IS("lora_set_bandwidth")) return sx127x_lora_set_bandwidth((sx127x_bw_t) num(A(1)), device);
  if (IS("lora_get_bandwidth")) {
    uint32_t bw = 0;
    int rc = sx127x_lora_get_bandwidth(device, &bw);
    if (rc == 0) snprintf(out, outcap, ",%u", bw);
    return rc;
  }
  if (IS("lora_set_modem_config_2")) return sx127x_lora_set_modem_config_2((sx127x_sf_t) num(A(1)), device);
  if (IS("lora_set_low_datarate_optimization")) return sx127x_lora_set_low_datarate_optimization(num(A(1)) != 0, device);
  if (IS("lora_set_syncword")) return sx127x_lora_set_syncword((uint8_t) num(A(1)), device);
  if (IS("set_preamble_length")) return sx127x_set_preamble_length((uint16_t) num(A(1)), device);
  if (IS("lora_set_implicit_header")) {
    // lora_set_implicit_header <length> <crc> <coding_rate>   |  lora_set_implicit_header NULL
    if (A(1) && !strcmp(A(1), "NULL")) return sx127x_lora_set_implicit_header(NULL, device);
    sx127x_implicit_header_t hd = {.length = (uint8_t) num(A(1)), .enable_crc = num(A(2)) != 0, .coding_rate = (sx127x_cr_t) num(A(3))};
    return sx127x_lora_set_implicit_header(&hd, device);
  }
  if (IS("lora_tx_set_explicit_header")) {
    if (A(1) && !strcmp(A(1), "NULL")) return sx127x_lora_tx_set_explicit_header(NULL, device);
    sx127x_tx_header_t hd = {.enable_crc = num(A(1)) != 0, .coding_rate = (sx127x_cr_t) num(A(2))};
    return sx127x_lora_tx_set_explicit_header(&hd, device);
  }
  if (IS("lora_set_frequency_hopping")) {
    // lora_set_frequency_hopping <period> <length> <f1,f2,...|NULL>
    uint8_t period = (uint8_t) num(A(1));
    uint8_t len = (uint8_t) num(A(2));
    if (A(3) == NULL || !strcmp(A(3), "NULL")) return sx127x_lora_set_frequency_hopping(period, NULL, len, device);
    size_t cnt = 1;
    for (const char *p = A(3); *p; p++) cnt += (*p == ',');
    uint64_t *list = malloc(cnt * sizeof(uint64_t));
    char *copy = strdup(A(3));
    size_t i = 0;
    for (char *p = copy; p && i < cnt;) {
      char *q = strchr(p, ',');
      if (q) *q = 0;
      list[i++] = strtoull(p, NULL, 0);
      p = q ? q + 1 : NULL;
    }
    free(copy);
    int rc = sx127x_lora_set_frequency_hopping(period, list, len, device);
    if (device->frequencies == list) {
      free(freq_list);
      freq_list = list;
    } else {
      free(list);
    }
    return rc;
  }
  if (IS("rx_get_packet_rssi")) {
    int16_t v = 0;
    int rc = sx127x_rx_get_packet_rssi(device, &v);
    if (rc == 0 || rc == SX127X_ERR_NOT_FOUND) snprintf(out, outcap, ",%d", (int) v);
    return rc;
  }
  if (IS("lora_rx_get_packet_snr")) {
    float v = 0;
    int rc = sx127x_lora_rx_get_packet_snr(device, &v);
    uint32_t u;
    memcpy(&u, &v, 4);
    if (rc == 0) snprintf(out, outcap, ",%08x", u);
    return rc;
  }
  if (IS("rx_get_frequency_error")) {
    int32_t v = 0;
    int rc = sx127x_rx_get_frequency_error(device, &v);
    if (rc == 0) snprintf(out, outcap, ",%d", v);
    return rc;
  }
  if (IS("dump_registers")) {
    uint8_t *regs = malloc(MAX_NUMBER_OF_REGISTERS);
    memset(regs, 0xee, MAX_NUMBER_OF_REGISTERS);
    int rc = sx127x_dump_registers(regs, device);
    if (rc == 0) snprintf(out, outcap, ",%08x", fnv(regs, MAX_NUMBER_OF_REGISTERS));
    free(regs);
    return rc;
  }
  if (IS("tx_set_pa_config")) return sx127x_tx_set_pa_config((sx127x_pa_pin_t) num(A(1)), (int) num(A(2)), device);
  if (IS("tx_set_ocp")) return sx127x_tx_set_ocp(num(A(1)) != 0, (uint8_t) num(A(2)), device);
  if (IS("lora_tx_set_for_transmission")) {
    size_t len = parse_hex(A(1), bytes, 255);
    // optional explicit length argument (to pass 0)
    uint8_t *p = dup_bytes(bytes, len);
    int rc = sx127x_lora_tx_set_for_transmission(p, (uint8_t) len, device);
    free(p);
    return rc;
  }
  if (IS("lora_set_ppm_offset")) return sx127x_lora_set_ppm_offset((int32_t) num(A(1)), device);
  if (IS("fsk_ook_tx_set_for_transmission")) {
    size_t len = parse_hex(A(1), bytes, sizeof bytes);
    uint8_t *p = dup_bytes(bytes, len);
    int rc = sx127x_fsk_ook_tx_set_for_transmission(p, (uint16_t) len, device);
    free(p);
    return rc;
  }
  if (IS("fsk_ook_tx_set_for_transmission_with_address")) {
    size_t len = parse_hex(A(1), bytes, sizeof bytes);
    uint8_t *p = dup_bytes(bytes, len);
    int rc = sx127x_fsk_ook_tx_set_for_transmission_with_address(p, (uint16_t) len, (uint8_t) num(A(2)), device);
    free(p);
    return rc;
  }
  if (IS("fsk_ook_tx_start_beacon")) {
    size_t len = parse_hex(A(1), bytes, 255);
    uint8_t *p = dup_bytes(bytes, len);
    int rc = sx127x_fsk_ook_tx_start_beacon(p, (uint8_t) len, (uint32_t) unum(A(2)), device);
    free(p);
    return rc;
  }
  if (IS("fsk_ook_tx_stop_beacon")) return sx127x_fsk_ook_tx_stop_beacon(device);
  if (IS("fsk_ook_set_bitrate")) return sx127x_fsk_ook_set_bitrate(f32_of_bits((uint32_t) unum(A(1))), device);
  if (IS("fsk_set_fdev")) return sx127x_fsk_set_fdev(f32_of_bits((uint32_t) unum(A(1))), device);
  if (IS("ook_rx_set_peak_mode")) return sx127x_ook_rx_set_peak_mode((sx127x_ook_peak_thresh_step_t) num(A(1)), (uint8_t) num(A(2)), (sx127x_ook_peak_thresh_dec_t) num(A(3)), device);
  if (IS("ook_rx_set_fixed_mode")) return sx127x_ook_rx_set_fixed_mode((uint8_t) num(A(1)), device);
  if (IS("ook_rx_set_avg_mode")) return sx127x_ook_rx_set_avg_mode((sx127x_ook_avg_offset_t) num(A(1)), (sx127x_ook_avg_thresh_t) num(A(2)), device);
  if (IS("fsk_ook_rx_set_collision_restart")) return sx127x_fsk_ook_rx_set_collision_restart(num(A(1)) != 0, (uint8_t) num(A(2)), device);
  if (IS("fsk_ook_rx_set_afc_auto")) return sx127x_fsk_ook_rx_set_afc_auto(num(A(1)) != 0, device);
  if (IS("fsk_ook_rx_set_afc_bandwidth")) return sx127x_fsk_ook_rx_set_afc_bandwidth(f32_of_bits((uint32_t) unum(A(1))), device);
  if (IS("fsk_ook_rx_set_bandwidth")) return sx127x_fsk_ook_rx_set_bandwidth(f32_of_bits((uint32_t) unum(A(1))), device);
  if (IS("fsk_ook_rx_set_trigger")) return sx127x_fsk_ook_rx_set_trigger((sx127x_rx_trigger_t) num(A(1)), device);
  if (IS("fsk_ook_set_syncword")) {
    // fsk_ook_set_syncword <hexbytes> [length override]
    size_t len = parse_hex(A(1), bytes, 64);
    uint8_t *p = dup_bytes(bytes, len);
    int rc = sx127x_fsk_ook_set_syncword(p, (uint8_t) len, device);
    free(p);
    return rc;
  }
  if (IS("fsk_ook_rx_set_rssi_config")) return sx127x_fsk_ook_rx_set_rssi_config((sx127x_rssi_smoothing_t) num(A(1)), (int8_t) num(A(2)), device);
  if (IS("fsk_ook_set_packet_encoding")) return sx127x_fsk_ook_set_packet_encoding((sx127x_packet_encoding_t) num(A(1)), device);
  if (IS("fsk_ook_set_crc")) return sx127x_fsk_ook_set_crc((sx127x_crc_type_t) num(A(1)), device);
  if (IS("fsk_ook_set_packet_format")) return sx127x_fsk_ook_set_packet_format((sx127x_packet_format_t) num(A(1)), (uint16_t) num(A(2)), device);
  if (IS("fsk_ook_set_address_filtering")) return sx127x_fsk_ook_set_address_filtering((sx127x_address_filtering_t) num(A(1)), (uint8_t) num(A(2)), (uint8_t) num(A(3)), device);
  if (IS("fsk_set_data_shaping")) return sx127x_fsk_set_data_shaping((sx127x_fsk_data_shaping_t) num(A(1)), (sx127x_pa_ramp_t) num(A(2)), device);
  if (IS("ook_set_data_shaping")) return sx127x_ook_set_data_shaping((sx127x_ook_data_shaping_t) num(A(1)), (sx127x_pa_ramp_t) num(A(2)), device);
  if (IS("fsk_ook_set_preamble_type")) return sx127x_fsk_ook_set_preamble_type((sx127x_preamble_type_t) num(A(1)), device);
  if (IS("fsk_ook_rx_set_preamble_detector")) return sx127x_fsk_ook_rx_set_preamble_detector(num(A(1)) != 0, (uint8_t) num(A(2)), (uint8_t) num(A(3)), device);
  if (IS("fsk_ook_rx_calibrate")) return sx127x_fsk_ook_rx_calibrate(device);
  if (IS("fsk_ook_get_raw_temperature")) {
    int8_t v = 0;
    int rc = sx127x_fsk_ook_get_raw_temperature(device, &v);
    if (rc == 0) snprintf(out, outcap, ",%d", (int) v);
    return rc;
  }
  if (IS("fsk_ook_set_temp_monitor")) return sx127x_fsk_ook_set_temp_monitor(num(A(1)) != 0, device);
  if (IS("read_register")) {
    uint8_t v = 0;
    int rc = sx127x_read_register((int) num(A(1)), &device->spi_device, &v);
    if (rc == 0) snprintf(out, outcap, ",%x", v);
    return rc;
  }
  if (IS("write_register")) return sx127x_write_register((int) num(A(1)), (uint8_t) num(A(2)), &device->spi_device);
  if (IS("rx_set_callback")) {
    sx127x_rx_set_callback(num(A(1)) ? rx_callback : NULL, device);
    return 0;
  }
  if (IS("tx_set_callback")) {
    sx127x_tx_set_callback(num(A(1)) ? tx_callback : NULL, device);
    return 0;
  }
  if (IS("lora_cad_set_callback")) {
    sx127x_lora_cad_set_callback(num(A(1)) ? cad_callback : NULL, device);
    return 0;
  }
  if (IS("irq")) {
    sx127x_handle_interrupt(device);
    return 0;
  }
  if (IS("rehome")) {
    // the application moves the handle (a plain struct it owns) to other storage; the old storage is reused
    sx127x *n = malloc(sizeof(sx127x));
    memcpy(n, device, sizeof(sx127x));
    memset(device, 0xa5, sizeof(sx127x));
    free(device);
    device = n;
    return 0;
  }
  if (IS("create")) {
    // a fresh handle: the old one is discarded, as after a deep sleep
    sx127x *old = device;
    device = malloc(sizeof(sx127x));
    memset(device, 0xa5, sizeof(sx127x));
    free(old);
    free(freq_list);
    freq_list = NULL;
    return sx127x_create(the_spi_device, device);
  }
  printf("!harness unknown op %s\n", name);
  return -1;
}

static void dump_chip(void) {
  printf("chip s=");
  for (int i = 0; i < 128; i++) printf("%02x", chip.shared[i]);
  printf(" l=");
  for (int i = 0x0d; i <= 0x3f; i++) printf("%02x", chip.lora[i]);
  printf(" f=");
  for (int i = 0x0d; i <= 0x3f; i++) printf("%02x", chip.fsk[i]);
  printf(" buf=");
  for (int i = 0; i < 256; i++) printf("%02x", chip.buf[i]);
  printf(" fifo=");
  for (int i = 0; i < chip.fifo_len; i++) printf("%02x", chip.fifo[i]);
  printf(" air=");
  for (int i = 0; i < chip.air_len; i++) printf("%02x", chip.air[i]);
  printf(" uf=%u of=%u\n", chip.underflow, chip.overflow);
}

#ifdef SXH_SANITIZE
#include <sanitizer/common_interface_defs.h>
static const char *current_op = "?";
static void on_death(void) {
  printf("\n!UB sanitizer abort in %s\n", current_op);
  fflush(stdout);
}
#endif

int main(int argc, char **argv) {
  (void) argc;
  (void) argv;
#ifdef SXH_SANITIZE
  __sanitizer_set_death_callback(on_death);
#endif
  verbose = getenv("SXH_VERBOSE") != NULL;
  static char line[20000];
  setvbuf(stdout, NULL, _IOLBF, 1 << 16);
  while (fgets(line, sizeof line, stdin)) {
    size_t ln = strlen(line);
    while (ln > 0 && (line[ln - 1] == '\n' || line[ln - 1] == '\r' || line[ln - 1] == ' ')) line[--ln] = 0;
    if (ln == 0) continue;
    if (line[0] == '#') {
      // script delimiter: echoed so that a sanitizer abort can be attributed
      printf("%s\n", line);
      fflush(stdout);
      continue;
    }
    // split off scheduled events (@k ...) and faults (!k=code)
    nsched = 0;
    nfaults = 0;
    xfer = 0;
    char *tok[64];
    int n = 0;
    char *save = NULL;
    int cur_ev = -1;
    for (char *p = strtok_r(line, " ", &save); p; p = strtok_r(NULL, " ", &save)) {
      if (p[0] == '@') {
        if (nsched < MAXEV) {
          cur_ev = nsched++;
          sched[cur_ev].at = atoi(p + 1);
          sched[cur_ev].text[0] = 0;
        }
      } else if (p[0] == '!') {
        char *eq = strchr(p, '=');
        if (eq && nfaults < MAXEV) {
          faults[nfaults].at = atoi(p + 1);
          faults[nfaults].code = (int) strtol(eq + 1, NULL, 0);
          nfaults++;
        }
      } else if (cur_ev >= 0) {
        if (sched[cur_ev].text[0]) strcat(sched[cur_ev].text, " ");
        strncat(sched[cur_ev].text, p, sizeof sched[cur_ev].text - strlen(sched[cur_ev].text) - 2);
      } else if (n < 64) {
        tok[n++] = p;
      }
    }
    if (n == 0) continue;
    const char *name = tok[0];
    if (!strcmp(name, "reset")) {
      for (cur = 1; cur >= 0; cur--) {
        memset(&chip, 0, sizeof chip);
        chip.shared[0x42] = 0x12;
        chip.shared[0x01] = 0x09;  // power-on default: FSK, standby
        for (int i = 0; i < 3; i++) oncb[i][0] = 0;
        free(device);
        device = NULL;
        free(freq_list);
        freq_list = NULL;
      }
      cur = 0;
      wrong_device = 0;
      printf("reset\n");
      continue;
    }
    if (!strcmp(name, "dev")) {
      cur = (n > 1 && atoi(tok[1]) == 1) ? 1 : 0;
      printf("dev %d\n", cur);
      continue;
    }
    if (!strcmp(name, "env")) {
      char tmp[1400];
      tmp[0] = 0;
      for (int i = 1; i < n; i++) {
        strcat(tmp, tok[i]);
        strcat(tmp, " ");
      }
      env_apply(tmp);
      printf("env\n");
      if (device) monitor_cache("env");
      continue;
    }
    if (!strcmp(name, "oncb")) {
      int which = !strcmp(tok[1], "rx") ? 0 : !strcmp(tok[1], "tx") ? 1 : 2;
      oncb[which][0] = 0;
      if (n > 2 && strcmp(tok[2], "-") != 0) {
        for (int i = 2; i < n; i++) {
          strcat(oncb[which], tok[i]);
          strcat(oncb[which], " ");
        }
      }
      printf("oncb\n");
      continue;
    }
    if (!strcmp(name, "dump")) {
      dump_chip();
      continue;
    }
    if (device == NULL && strcmp(name, "create") != 0) {
      printf("!harness op before create: %s\n", name);
      continue;
    }
    spilog_len = 0;
    cblog_len = 0;
    if (spilog) spilog[0] = 0;
    op_transfers = 0;
    if (cblog) cblog[0] = 0;
    char out[256];
#ifdef SXH_SANITIZE
    current_op = name;
#endif
    int rc = run_api(tok, n, out, sizeof out);
    // scheduled events the operation did not reach happen right after it
    for (int i = 0; i < nsched; i++) {
      if (sched[i].at >= xfer) {
        char tmp[700];
        strcpy(tmp, sched[i].text);
        env_apply(tmp);
      }
    }
    nsched = 0;
    printf("%s rc=%x%s cb=%s spi=%s", name, rc, out, cblog_len ? cblog : "", spilog_len ? spilog : "");
    print_handle();
    printf(" uf=%u of=%u\n", chip.underflow, chip.overflow);
    if (wrong_device) printf("!C18 request for a foreign spi device\n");
    monitor_cache(name);
  }
  for (cur = 1; cur >= 0; cur--) {
    free(device);
    free(freq_list);
  }
  free(spilog);
  free(cblog);
  return 0;
}
