// Backend half of C19: the bundled Linux (spidev) and ESP-IDF backends, compiled from the
// working tree with renamed entry points, run against an interposed ioctl() / a stub
// spi_device_polling_transmit().  For every register address 0..0x7f, every register length
// 1..4 (and 0, 5), buffer lengths 0,1,2,64,2047,2048, structured and pseudo-random data, with
// the underlying transaction succeeding or failing, each request must become exactly one
// transaction: first byte = address with the write bit set only for writes, then the data
// bytes in order; multi-byte reads are returned most significant byte first; a failed
// transaction yields a non-zero code.  Prints "!C19 ..." lines; exit code 1 on any violation.
#include <errno.h>
#include <stdint.h>
#include <stdio.h>
#include <stdlib.h>
#include <string.h>
#include <linux/spi/spidev.h>
#include "esp_stub/driver/spi_master.h"

int lin_read_registers(int reg, void *spi_device, size_t data_length, uint32_t *result);
int lin_read_buffer(int reg, uint8_t *buffer, size_t buffer_length, void *spi_device);
int lin_write_register(int reg, const uint8_t *data, size_t data_length, void *spi_device);
int lin_write_buffer(int reg, const uint8_t *buffer, size_t buffer_length, void *spi_device);
int esp_read_registers(int reg, void *spi_device, size_t data_length, uint32_t *result);
int esp_read_buffer(int reg, uint8_t *buffer, size_t buffer_length, void *spi_device);
int esp_write_register(int reg, const uint8_t *data, size_t data_length, void *spi_device);
int esp_write_buffer(int reg, const uint8_t *buffer, size_t buffer_length, void *spi_device);

// ---- what the simulated wire saw
static int n_trans;
static uint8_t frame[4200];
static size_t frame_len;
static char frames_hex[3 * 4200];   // every transaction attempted in this call, hex, '|' separated
static size_t frames_hex_len;
static FILE *req_out, *ans_out;     // correspondence with the Lean model (Sx/Model/Backend.lean)

static void note_frame(const uint8_t *f, size_t n) {
  if (n_trans > 1 && frames_hex_len + 1 < sizeof frames_hex) frames_hex[frames_hex_len++] = '|';
  for (size_t i = 0; i < n && frames_hex_len + 3 < sizeof frames_hex; i++)
    frames_hex_len += (size_t) sprintf(frames_hex + frames_hex_len, "%02x", f[i]);
  frames_hex[frames_hex_len] = 0;
}
static void hexout(FILE *f, const uint8_t *d, size_t n) {
  if (n == 0) { fputc('-', f); return; }
  for (size_t i = 0; i < n; i++) fprintf(f, "%02x", d[i]);
}
static int fail_code(int fail, int lin) { return fail ? (lin ? EIO : ESP_FAIL) : 0; }
// one request and what the backend made of it, in the line format of `sxmodel`'s `bk` operation
static void emit(const char *impl, const char *fn, int reg, size_t n, int fail, const uint8_t *hex, size_t hexn,
                 int rc, int have_word, uint32_t word, const uint8_t *buf, size_t bufn) {
  if (!req_out) return;
  int lin = impl[0] == 'l';
  fprintf(req_out, "bk %s %s %d %zu %d 0xa5 ", lin ? "lin" : "esp", fn, reg, n, fail_code(fail, lin));
  hexout(req_out, hex, hexn);
  fputc('\n', req_out);
  fprintf(ans_out, "bk %s %s rc=%d frames=%s word=", lin ? "lin" : "esp", fn, rc, frames_hex);
  if (have_word) fprintf(ans_out, "%08x", word); else fputc('-', ans_out);
  fprintf(ans_out, " buf=");
  int touched = 0;
  for (size_t i = 0; i < bufn; i++) if (buf[i] != 0xee) touched = 1;
  if (touched) hexout(ans_out, buf, bufn); else fputc('-', ans_out);
  fputc('\n', ans_out);
}
#define RESET_CALL() do { n_trans = 0; frame_len = 0; frames_hex_len = 0; frames_hex[0] = 0; } while (0)
static int fail_next;
static uint8_t chip_answer[4200];   // bytes the chip shifts out after the address byte
static unsigned violations, checks;

#define BAD(...) do { violations++; printf("!C19 backend "); printf(__VA_ARGS__); printf("\n"); } while (0)

static spi_device_handle_t current_dev;   // the device named by the request under test
static void *current_dev_fwd(void) { return current_dev; }

static uint32_t rng = 12345;
static uint8_t rnd8(void) { rng = rng * 1664525u + 1013904223u; return (uint8_t) (rng >> 24); }

// interposed ioctl for the Linux backend (the source is compiled with -Dioctl=sx_fake_ioctl)
int sx_fake_ioctl(int fd, unsigned long request, void *arg) {
  (void) request;
  if (current_dev_fwd() && fd != *(int *) current_dev_fwd()) BAD("linux backend used file descriptor %d, the request names %d", fd, *(int *) current_dev_fwd());
  struct spi_ioc_transfer *tr = arg;
  n_trans++;
  frame_len = tr->len;
  if (frame_len > sizeof frame) frame_len = sizeof frame;
  memcpy(frame, (const void *) (uintptr_t) tr->tx_buf, frame_len);
  note_frame(frame, frame_len);
  if (fail_next) { errno = EIO; return -1; }
  if (tr->rx_buf) {
    uint8_t *rx = (uint8_t *) (uintptr_t) tr->rx_buf;
    rx[0] = 0xa5;   // garbage clocked in while the address goes out
    for (size_t i = 1; i < tr->len; i++) rx[i] = chip_answer[i - 1];
  }
  return 0;
}

// stub for the ESP backend: one transaction = address byte (8 address bits), then `length` bits
esp_err_t spi_device_polling_transmit(spi_device_handle_t handle, spi_transaction_t *t) {
  if (handle != current_dev) BAD("esp backend sent a transaction to a device other than the one of the request");
  n_trans++;
  size_t n = t->length / 8;
  frame[0] = (uint8_t) t->addr;
  frame_len = 1 + n;
  const uint8_t *tx = (t->flags & SPI_TRANS_USE_TXDATA) ? t->tx_data : (const uint8_t *) t->tx_buffer;
  for (size_t i = 0; i < n && i + 1 < sizeof frame; i++) frame[1 + i] = tx ? tx[i] : 0;
  note_frame(frame, frame_len);
  if (fail_next) return ESP_FAIL;
  uint8_t *rx = (t->flags & SPI_TRANS_USE_RXDATA) ? t->rx_data : (uint8_t *) t->rx_buffer;
  if (rx) for (size_t i = 0; i < t->rxlength / 8; i++) rx[i] = chip_answer[i];
  return ESP_OK;
}

// the rest of the ESP-IDF calls a backend might use: every one of them must name the device of the request
esp_err_t spi_device_acquire_bus(spi_device_handle_t device, TickType_t wait) {
  (void) wait;
  if (device != current_dev) BAD("esp backend acquired the bus for a device other than the one of the request");
  return ESP_OK;
}
void spi_device_release_bus(spi_device_handle_t dev) {
  if (dev != current_dev) BAD("esp backend released the bus of a device other than the one of the request");
}
esp_err_t spi_device_transmit(spi_device_handle_t handle, spi_transaction_t *t) { return spi_device_polling_transmit(handle, t); }

typedef struct {
  const char *name;
  int (*rr)(int, void *, size_t, uint32_t *);
  int (*rb)(int, uint8_t *, size_t, void *);
  int (*wr)(int, const uint8_t *, size_t, void *);
  int (*wb)(int, const uint8_t *, size_t, void *);
  int guards_buffer;   // rejects buffer lengths above 2047
} backend_t;

static int fd_storage = 3;

static int fd_storage2 = 4;
static void test_backend(const backend_t *b) {
  void *dev = &fd_storage;
  for (int reg = 0; reg <= 0x7f; reg++) {
    dev = (reg & 1) ? (void *) &fd_storage2 : (void *) &fd_storage;   // two radios, alternating
    current_dev = dev;
    for (int fail = 0; fail <= 1; fail++) {
      // register reads and writes, lengths 0..5
      for (size_t n = 0; n <= 5; n++) {
        for (int pattern = 0; pattern < 3; pattern++) {
          uint8_t data[8];
          for (size_t i = 0; i < 8; i++) data[i] = pattern == 0 ? (uint8_t) (0x11 * (i + 1)) : pattern == 1 ? (uint8_t) (0xf0 >> i) : rnd8();
          memcpy(chip_answer, data, 8);
          // read
          RESET_CALL(); fail_next = fail;
          uint32_t result = 0xdeadbeef;
          int rc = b->rr(reg, dev, n, &result);
          checks++;
          emit(b->name, "rr", reg, n, fail, data, n > 8 ? 8 : n, rc, result != 0xdeadbeef, result, NULL, 0);
          if (n == 0 || n > 4) {
            if (rc == 0) BAD("%s read_registers reg=%02x len=%zu accepted", b->name, reg, n);
            if (n_trans) BAD("%s read_registers reg=%02x len=%zu issued a transaction", b->name, reg, n);
          } else if (fail) {
            if (rc == 0) BAD("%s read_registers reg=%02x len=%zu: failed transaction reported as success", b->name, reg, n);
          } else {
            uint32_t want = 0;
            for (size_t i = 0; i < n; i++) want = (want << 8) | data[i];
            if (rc != 0) BAD("%s read_registers reg=%02x len=%zu returned %d", b->name, reg, n, rc);
            if (n_trans != 1) BAD("%s read_registers reg=%02x len=%zu used %d transactions", b->name, reg, n, n_trans);
            if (frame_len != n + 1 || frame[0] != (reg & 0x7f)) BAD("%s read_registers reg=%02x len=%zu: frame length %zu first byte %02x", b->name, reg, n, frame_len, frame[0]);
            if (result != want) BAD("%s read_registers reg=%02x len=%zu: result %08x, bytes on the wire give %08x (MSB first)", b->name, reg, n, result, want);
          }
          // write
          RESET_CALL(); fail_next = fail;
          rc = b->wr(reg, data, n, dev);
          checks++;
          emit(b->name, "wr", reg, n, fail, data, n, rc, 0, 0, NULL, 0);
          if (n == 0 || n > 4) {
            if (rc == 0) BAD("%s write_register reg=%02x len=%zu accepted", b->name, reg, n);
            if (n_trans) BAD("%s write_register reg=%02x len=%zu issued a transaction", b->name, reg, n);
          } else if (fail) {
            if (rc == 0) BAD("%s write_register reg=%02x len=%zu: failed transaction reported as success", b->name, reg, n);
          } else {
            if (rc != 0) BAD("%s write_register reg=%02x len=%zu returned %d", b->name, reg, n, rc);
            if (n_trans != 1) BAD("%s write_register reg=%02x len=%zu used %d transactions", b->name, reg, n, n_trans);
            if (frame_len != n + 1 || frame[0] != (uint8_t) (reg | 0x80)) BAD("%s write_register reg=%02x len=%zu: frame length %zu first byte %02x", b->name, reg, n, frame_len, frame[0]);
            else if (memcmp(frame + 1, data, n) != 0) BAD("%s write_register reg=%02x len=%zu: data bytes differ on the wire", b->name, reg, n);
          }
        }
      }
      // buffer transfers
      static const size_t lens[] = {0, 1, 2, 64, 2047, 2048};
      for (size_t li = 0; li < sizeof lens / sizeof lens[0]; li++) {
        size_t n = lens[li];
        if ((reg % 16) != 0 && n > 64) continue;   // the large lengths on a subset of addresses
        uint8_t *data = malloc(n + 1);
        uint8_t *got = malloc(n + 1);
        for (size_t i = 0; i < n; i++) { data[i] = rnd8(); if (data[i] == 0xee) data[i] = 0xed; chip_answer[i] = data[i]; }
        memset(got, 0xee, n + 1);
        RESET_CALL(); fail_next = fail;
        int rc = b->rb(reg, got, n, dev);
        checks++;
        emit(b->name, "rb", reg, n, fail, data, n, rc, 0, 0, got, n);
        if (n == 2048 && b->guards_buffer) {
          if (rc == 0) BAD("%s read_buffer reg=%02x len=2048 accepted", b->name, reg);
          if (n_trans) BAD("%s read_buffer reg=%02x len=2048 issued a transaction", b->name, reg);
        } else if (n >= 1 && fail) {
          if (rc == 0) BAD("%s read_buffer reg=%02x len=%zu: failed transaction reported as success", b->name, reg, n);
        } else if (n >= 1) {
          if (rc != 0) BAD("%s read_buffer reg=%02x len=%zu returned %d", b->name, reg, n, rc);
          if (n_trans != 1) BAD("%s read_buffer reg=%02x len=%zu used %d transactions", b->name, reg, n, n_trans);
          if (frame_len != n + 1 || frame[0] != (reg & 0x7f)) BAD("%s read_buffer reg=%02x len=%zu: frame length %zu first byte %02x", b->name, reg, n, frame_len, frame[0]);
          if (memcmp(got, data, n) != 0) BAD("%s read_buffer reg=%02x len=%zu: bytes returned differ from the wire", b->name, reg, n);
        }
        if (got[n] != 0xee) BAD("%s read_buffer reg=%02x len=%zu wrote past the caller's buffer", b->name, reg, n);
        RESET_CALL(); fail_next = fail;
        rc = b->wb(reg, data, n, dev);
        checks++;
        emit(b->name, "wb", reg, n, fail, data, n, rc, 0, 0, NULL, 0);
        if (n == 2048 && b->guards_buffer) {
          if (rc == 0) BAD("%s write_buffer reg=%02x len=2048 accepted", b->name, reg);
          if (n_trans) BAD("%s write_buffer reg=%02x len=2048 issued a transaction", b->name, reg);
        } else if (n >= 1 && fail) {
          if (rc == 0) BAD("%s write_buffer reg=%02x len=%zu: failed transaction reported as success", b->name, reg, n);
        } else if (n >= 1) {
          if (rc != 0) BAD("%s write_buffer reg=%02x len=%zu returned %d", b->name, reg, n, rc);
          if (n_trans != 1) BAD("%s write_buffer reg=%02x len=%zu used %d transactions", b->name, reg, n, n_trans);
          if (frame_len != n + 1 || frame[0] != (uint8_t) (reg | 0x80)) BAD("%s write_buffer reg=%02x len=%zu: frame length %zu first byte %02x", b->name, reg, n, frame_len, frame[0]);
          else if (memcmp(frame + 1, data, n) != 0) BAD("%s write_buffer reg=%02x len=%zu: data bytes differ on the wire", b->name, reg, n);
        }
        free(data);
        free(got);
      }
    }
  }
}

int main(int argc, char **argv) {
  if (argc > 2) { req_out = fopen(argv[1], "w"); ans_out = fopen(argv[2], "w"); }
  backend_t lin = {"linux", lin_read_registers, lin_read_buffer, lin_write_register, lin_write_buffer, 1};
  backend_t esp = {"esp", esp_read_registers, esp_read_buffer, esp_write_register, esp_write_buffer, 0};
  test_backend(&lin);
  test_backend(&esp);
  if (req_out) { fclose(req_out); fclose(ans_out); }
  printf("backends checks=%u violations=%u\n", checks, violations);
  return violations ? 1 : 0;
}
