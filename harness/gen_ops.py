#!/usr/bin/env python3
"""Operation-script generator for the correspondence check (DESIGN.md 5.3).

Every random choice derives from one PRNG (seeded by VERIF_SEED).  A script is a list of
lines of the harness line protocol; scripts are separated by '# script <n> <family> <info>'
lines and start with 'reset'.  Lines '#= ...' are expectations for the Python monitors.
"""
import random, re, struct, os

HERE = os.path.dirname(os.path.abspath(__file__))

def load_consts(path=None):
    path = path or os.path.join(HERE, '..', 'lean', 'Sx', 'Gen', 'Consts.lean')
    G = {}
    enums = {}
    for line in open(path):
        m = re.match(r'@\[reducible\] def (\w+) : Nat := (0x[0-9a-f]+)', line)
        if m:
            G[m.group(1)] = int(m.group(2), 16)
        m = re.match(r'@\[reducible\] def enum_(\w+) : List Nat := \[(.*)\]', line)
        if m:
            enums[m.group(1)] = [x.strip() for x in m.group(2).split(',') if x.strip()]
        m = re.match(r'@\[reducible\] def ignoreList : List Nat := \[(.*)\]', line)
        if m:
            G['ignoreList'] = [int(x, 16) for x in m.group(1).split(',') if x.strip()]
    return G, enums

def f32bits(x):
    return struct.unpack('<I', struct.pack('<f', x))[0]

def bits_f32(u):
    return struct.unpack('<f', struct.pack('<I', u))[0]

LORA, FSK, OOK = 0x80, 0x00, 0x20
MODS = [LORA, FSK, OOK]

# Registers the chip may change on its own (datasheet), per page: 's', 'l', 'f'
VOLATILE = {
    'l': [0x0d, 0x10, 0x12, 0x13, 0x14, 0x15, 0x16, 0x17, 0x18, 0x19, 0x1a, 0x1b, 0x1c, 0x25, 0x28, 0x29, 0x2a, 0x2c],
    'f': [0x0d, 0x11, 0x1a, 0x1b, 0x1c, 0x1d, 0x1e, 0x24, 0x36, 0x3b, 0x3c, 0x3e],
    's': [0x5b],
}

class API:
    """argument generators for every public function; valid = applicable modulations"""
    def __init__(self, G, enums, rnd):
        self.G, self.enums, self.rnd = G, enums, rnd
        E = lambda t: ('enum', t)
        self.table = {
            'set_frequency': ('any', [('freq',)]),
            'get_frequency': ('any', []),
            'lora_reset_fifo': ('lora', []),
            'rx_set_lna_gain': ('any', [E('sx127x_gain_t')]),
            'rx_set_lna_boost_hf': ('any', [('bool',)]),
            'lora_set_bandwidth': ('lora', [E('sx127x_bw_t')]),
            'lora_get_bandwidth': ('lora', []),
            'lora_set_modem_config_2': ('lora', [E('sx127x_sf_t')]),
            'lora_set_low_datarate_optimization': ('lora', [('bool',)]),
            'lora_set_syncword': ('lora', [('u8',)]),
            'set_preamble_length': ('any', [('u16',)]),
            'lora_set_implicit_header': ('lora', [('implicit',)]),
            'lora_tx_set_explicit_header': ('lora', [('explicit',)]),
            'lora_set_frequency_hopping': ('lora', [('hop',)]),
            'rx_get_packet_rssi': ('any', []),
            'lora_rx_get_packet_snr': ('lora', []),
            'rx_get_frequency_error': ('any', []),
            'dump_registers': ('any', []),
            'tx_set_pa_config': ('any', [E('sx127x_pa_pin_t'), ('int', -6, 22)]),
            'tx_set_ocp': ('any', [('bool',), ('ocp',)]),
            'lora_tx_set_for_transmission': ('lora', [('bytes', 0, 255)]),
            'lora_set_ppm_offset': ('lora', [('int', -400000, 400000)]),
            'fsk_ook_tx_set_for_transmission': ('fskook', [('bytes', 0, 2100)]),
            'fsk_ook_tx_set_for_transmission_with_address': ('fskook', [('bytes', 0, 2100), ('u8',)]),
            'fsk_ook_tx_start_beacon': ('fskook', [('bytes', 0, 66), ('beaconiv',)]),
            'fsk_ook_tx_stop_beacon': ('fskook', []),
            'fsk_ook_set_bitrate': ('fskook', [('f32', 1200.0, 300000.0)]),
            'fsk_set_fdev': ('fsk', [('f32', 600.0, 200000.0)]),
            'ook_rx_set_peak_mode': ('ook', [E('sx127x_ook_peak_thresh_step_t'), ('u8',), E('sx127x_ook_peak_thresh_dec_t')]),
            'ook_rx_set_fixed_mode': ('ook', [('u8',)]),
            'ook_rx_set_avg_mode': ('ook', [E('sx127x_ook_avg_offset_t'), E('sx127x_ook_avg_thresh_t')]),
            'fsk_ook_rx_set_collision_restart': ('fskook', [('bool',), ('u8',)]),
            'fsk_ook_rx_set_afc_auto': ('fskook', [('bool',)]),
            'fsk_ook_rx_set_afc_bandwidth': ('fskook', [('f32', 2600.0, 250000.0)]),
            'fsk_ook_rx_set_bandwidth': ('fskook', [('f32', 2600.0, 250000.0)]),
            'fsk_ook_rx_set_trigger': ('fskook', [E('sx127x_rx_trigger_t')]),
            'fsk_ook_set_syncword': ('fskook', [('sync',)]),
            'fsk_ook_rx_set_rssi_config': ('fskook', [E('sx127x_rssi_smoothing_t'), ('int', -18, 17)]),
            'fsk_ook_set_packet_encoding': ('fskook', [E('sx127x_packet_encoding_t')]),
            'fsk_ook_set_crc': ('fskook', [E('sx127x_crc_type_t')]),
            'fsk_ook_set_packet_format': ('fskook', [E('sx127x_packet_format_t'), ('plen',)]),
            'fsk_ook_set_address_filtering': ('fskook', [E('sx127x_address_filtering_t'), ('u8',), ('u8',)]),
            'fsk_set_data_shaping': ('fsk', [E('sx127x_fsk_data_shaping_t'), E('sx127x_pa_ramp_t')]),
            'ook_set_data_shaping': ('ook', [E('sx127x_ook_data_shaping_t'), E('sx127x_pa_ramp_t')]),
            'fsk_ook_set_preamble_type': ('fskook', [E('sx127x_preamble_type_t')]),
            'fsk_ook_rx_set_preamble_detector': ('fskook', [('bool',), ('int', 0, 4), ('u8',)]),
            'fsk_ook_get_raw_temperature': ('fskook', []),
            'fsk_ook_set_temp_monitor': ('fskook', [('bool',)]),
        }

    def applicable(self, name, mod):
        v = self.table[name][0]
        return v == 'any' or (v == 'lora' and mod == LORA) or (v == 'fsk' and mod == FSK) or \
            (v == 'ook' and mod == OOK) or (v == 'fskook' and mod in (FSK, OOK))

    def enum_values(self, t):
        return [self.G[n] for n in self.enums[t]]

    def arg(self, spec, valid_bias=0.9):
        r = self.rnd
        k = spec[0]
        if k == 'enum':
            vals = self.enum_values(spec[1])
            if r.random() < valid_bias:
                return [str(r.choice(vals))]
            return [str(r.choice([0xff, 0x100, 0x11, 0x9, 0xf0, 0xa0, 0x1000 + r.choice(vals), 7]))]
        if k == 'bool':
            return [str(r.randint(0, 1))]
        if k == 'u8':
            return [str(r.choice([0, 1, 0x7f, 0x80, 0xff, r.randint(0, 255)]))]
        if k == 'ocp':
            # the documented range 45..240 mA with its two formulas (<=120, >120) and their edges
            return [str(r.choice([0, 44, 45, 46, 50, 119, 120, 121, 125, 130, 239, 240, 241, 255, r.randint(0, 255), r.randint(45, 240)]))]
        if k == 'u16':
            return [str(r.choice([0, 1, 8, 0xff, 0x100, 0xffff, r.randint(0, 65535)]))]
        if k == 'int':
            return [str(r.randint(spec[1], spec[2]))]
        if k == 'freq':
            return [str(r.choice([137000000, 433000000, 437200000, 524999999, 525000000, 868000000, 915000000, 1020000000,
                                  r.randint(137000000, 1020000000), r.randint(0, 2000000000)]))]
        if k == 'f32':
            lo, hi = spec[1], spec[2]
            c = r.random()
            if c < 0.75:
                x = r.uniform(lo, hi)
            elif c < 0.85:
                x = r.choice([lo, hi, lo - 1, hi + 1, bits_f32(f32bits(lo) - 1), bits_f32(f32bits(hi) + 1)])
            elif c < 0.95:
                x = r.choice([0.0, 1.0, lo / 2, hi * 2, 4800.0, 9600.0, 5000.0, 10400.0])
            else:
                # special values as bit patterns: quiet/signalling NaN, infinities, negative zero, a subnormal
                return [str(r.choice([0x7fc00000, 0xffc00000, 0x7f800001, 0x7f800000, 0xff800000, 0x80000000, 0x00000001,
                                      f32bits(1e-30), f32bits(3e38), f32bits(-lo)]))]
            return [str(f32bits(x))]
        if k == 'bytes':
            n = r.choice([spec[1], 1, 2, 30, 31, 32, 62, 63, 64, 65, 66, 94, 255, r.randint(spec[1], min(spec[2], 300)), r.randint(spec[1], min(spec[2], 40)),
                          r.choice([254, 256, 2046, 2047, 2048, spec[2]]) if spec[2] > 300 else spec[2]])
            n = max(spec[1], min(spec[2], n))
            return [self.bytes_hex(n)]
        if k == 'implicit':
            if r.random() < 0.25:
                return ['NULL']
            return [str(r.choice([0, 1, 16, 255, r.randint(0, 255)])), str(r.randint(0, 1))] + self.arg(('enum', 'sx127x_cr_t'))
        if k == 'explicit':
            if r.random() < 0.15:
                return ['NULL']
            return [str(r.randint(0, 1))] + self.arg(('enum', 'sx127x_cr_t'))
        if k == 'hop':
            c = r.random()
            if c < 0.1:
                return [str(r.randint(0, 255)), str(r.randint(0, 3)), 'NULL']
            n = r.choice([1, 2, 3, 5, 255]) if c < 0.9 else 0
            fl = [str(r.randint(137000000, 1020000000)) for _ in range(max(n, 1))]
            return [str(r.randint(0, 255)), str(n), ','.join(fl)]
        if k == 'sync':
            n = r.choice([0, 1, 2, 4, 8, 9, r.randint(1, 8)])
            bs = [r.randint(1, 255) for _ in range(n)]
            if n and r.random() < 0.15:
                bs[r.randrange(n)] = 0
            return [''.join('%02x' % b for b in bs) or '-']
        if k == 'beaconiv':
            return [str(r.choice([1, 15, 20, 32, 33, 1000, 1045, r.randint(1, 1040), 1500, 2000, 70000, 100000, 133620]))]
        if k == 'plen':
            return [str(r.choice([0, 1, 16, 64, 255, 256, 2047, 2048, r.randint(1, 2047)]))]
        raise ValueError(k)

    def bytes_hex(self, n):
        if n == 0:
            return '-'
        return ''.join('%02x' % self.rnd.randint(0, 255) for _ in range(n))

    def call(self, name, valid_bias=0.9):
        toks = [name]
        for s in self.table[name][1]:
            toks += self.arg(s, valid_bias)
        return ' '.join(toks)

    def names_for(self, mod):
        return [n for n in self.table if self.applicable(n, mod)]


class Scripts:
    def __init__(self, seed):
        self.rnd = random.Random(seed)
        self.G, self.enums = load_consts()
        self.api = API(self.G, self.enums, self.rnd)
        self.out = []
        self.count = 0

    def begin(self, family, info=''):
        self.count += 1
        self.out.append(('# script %d %s %s' % (self.count, family, info)).rstrip())
        self.out.append('reset')

    def emit(self, line):
        self.out.append(line)

    def text(self):
        return '\n'.join(self.out) + '\n'

    # ---------------------------------------------------------------- helpers
    def prologue(self, mod, rand_chip=True, opmod=1, callbacks=True, clean_flags=True):
        r = self.rnd
        if rand_chip:
            self.emit('env chiprand %d' % r.randint(1, 2**31))
            # keep the polling loop of rx_calibrate finite and the LoRa pointer tame
            self.emit('env chip f 0x3b %d' % (r.randint(0, 255) & ~0x20))
            if clean_flags:
                # no phantom pending events from the random register file
                self.emit('env chip l 0x12 0')
                self.emit('env chip f 0x3e 0')
                self.emit('env chip f 0x3f 0')
        self.emit('create')
        if callbacks:
            self.emit('rx_set_callback 1')
            self.emit('tx_set_callback 1')
            self.emit('lora_cad_set_callback 1')
        self.emit('set_opmod %d %d' % (opmod, mod))

    def perturb(self, mod):
        r = self.rnd
        page = r.choice(['l', 'f', 's'])
        addr = r.choice(VOLATILE[page])
        return 'env chip %s %d %d' % (page, addr, r.randint(0, 255))

    # ---------------------------------------------------------------- families
    def hist(self, n_scripts, length=(5, 60)):
        """seeded random histories over the whole alphabet, mostly valid calls"""
        r = self.rnd
        for _ in range(n_scripts):
            mod = r.choice(MODS)
            self.begin('hist', 'mod=%x' % mod)
            self.prologue(mod, rand_chip=r.random() < 0.8, clean_flags=r.random() < 0.5)
            cur = mod
            for _ in range(r.randint(*length)):
                c = r.random()
                if c < 0.50:
                    names = self.api.names_for(cur)
                    line = self.api.call(r.choice(names))
                elif c < 0.58:
                    # a call of some other modulation (gating)
                    line = self.api.call(r.choice(list(self.api.table)))
                elif c < 0.68:
                    cur2 = r.choice(MODS + [cur] * 3)
                    op = r.choice([0, 1, 2, 3, 4, 5, 6, 7, 1, 5])
                    if r.random() < 0.03:
                        cur2 = r.choice([0x40, 0xa0, 0x100])
                    line = 'set_opmod %d %d' % (op, cur2)
                    if cur2 in MODS:
                        cur = cur2
                elif c < 0.76:
                    line = self.perturb(cur)
                elif c < 0.84:
                    a = r.randint(1, 0x70)
                    line = 'read_register %d' % a
                elif c < 0.88:
                    a = r.choice([x for x in range(2, 0x71)])
                    line = 'write_register %d %d' % (a, r.randint(0, 255))
                elif c < 0.90:
                    line = 'create'
                    cur = LORA
                elif c < 0.97:
                    line = self.irq_line(cur)
                else:
                    line = 'fsk_ook_rx_calibrate @1 chip f 0x3b 0 @2 chip f 0x3b 0 @3 chip f 0x3b 0'
                if r.random() < 0.07 and not line.startswith('env') and not line.startswith('create'):
                    line += ' !%d=%d' % (r.randint(0, 4), r.choice([1, 0x101, 0x107, 5]))
                self.emit(line)
                if line == 'create':
                    self.emit('rx_set_callback 1')
                    self.emit('tx_set_callback 1')
            self.emit('dump')

    def irq_line(self, mod):
        """an interrupt with a plausible cause raised just before"""
        r = self.rnd
        if mod == LORA:
            c = r.random()
            if c < 0.4:
                n = r.choice([1, 2, 16, 255, r.randint(1, 255)])
                self.emit('env lorarx %d %d %s' % (r.randint(0, 255), 1 if r.random() < 0.2 else 0, self.api.bytes_hex(n)))
            elif c < 0.9:
                self.emit('env loraflags %d' % r.choice([0x08, 0x04, 0x05, 0x02, 0x80, 0x0a, 0x42, 0x22, r.randint(0, 255)]))
            return 'irq'
        c = r.random()
        if c < 0.5:
            for _ in range(r.choice([0, 1, 3, 10, 33, 40, 63])):
                self.emit('env rxbyte %d' % r.randint(0, 255))
            if r.random() < 0.5:
                self.emit('env rxend %d' % r.randint(0, 1))
        elif c < 0.7:
            self.emit('env flag1 %d' % r.choice([1, 2, 3, 0x80, r.randint(0, 255)]))
        elif c < 0.85:
            self.emit('env txsent')
        return 'irq'

    def exh_setters(self, priors, fault=False, names=None):
        """per configuration function: every enumerator / boundary argument x given prior
        values of every register, in each modulation, cold and warm cache"""
        r = self.rnd
        for name in (names or sorted(self.api.table)):
            mode, specs = self.api.table[name]
            for mod in MODS:
                combos = self.arg_combos(specs)
                for args in combos:
                    self.begin('exh', '%s mod=%x' % (name, mod))
                    self.emit('env chiprand %d' % r.randint(1, 2**31))
                    self.emit('create')
                    self.emit('set_opmod 1 %d' % mod)
                    if name == 'lora_set_modem_config_2':
                        self.emit('lora_set_implicit_header 8 1 2')
                    if name == 'fsk_ook_tx_start_beacon':
                        self.emit('fsk_ook_set_packet_format 0 64')
                    line = ' '.join([name] + args)
                    self.emit(line)
                    self.emit('dump')
                    for v in priors:
                        # warm: the driver's own view; cold: a fresh handle on the same chip
                        self.emit('env chiprand %d' % ((v * 2654435761 + r.randint(1, 1000)) % 2**31 + 1))
                        self.emit('env chip f 0x3b 0')
                        self.emit('create')
                        self.emit('set_opmod 1 %d' % mod)
                        if name == 'lora_set_modem_config_2' and r.random() < 0.7:
                            self.emit('lora_set_implicit_header 8 1 2')
                        if name == 'fsk_ook_tx_start_beacon':
                            self.emit('fsk_ook_set_packet_format 0 64')
                        l2 = line
                        if fault and r.random() < 0.3:
                            l2 += ' !%d=%d' % (r.randint(0, 5), r.choice([1, 0x101, 0x107]))
                        self.emit(l2)
                        self.emit(l2.split(' !')[0])   # again, warm cache
                        self.emit('dump')

    def arg_combos(self, specs, cap=40):
        """cartesian product over enumerators / booleans / boundary values, capped by sampling"""
        r = self.rnd
        lists = []
        for s in specs:
            k = s[0]
            if k == 'enum':
                vals = [str(v) for v in self.api.enum_values(s[1])] + ['255', '4096']
                lists.append([[v] for v in vals])
            elif k == 'bool':
                lists.append([['0'], ['1']])
            elif k == 'u8':
                lists.append([[str(v)] for v in (0, 1, 0x2c, 0x2d, 0x78, 0x79, 0x80, 0xf0, 0xf1, 0xff)])
            elif k == 'ocp':
                lists.append([[str(v)] for v in (0, 44, 45, 46, 120, 121, 125, 240, 241, 255)])
            elif k == 'u16':
                lists.append([[str(v)] for v in (0, 1, 0xff, 0x100, 0x1234, 0xffff)])
            elif k == 'int':
                lists.append([[str(v)] for v in range(s[1], s[2] + 1)])
            elif k == 'freq':
                lists.append([[str(v)] for v in (137000000, 437200000, 524999999, 525000000, 868100000, 1020000000)])
            elif k == 'f32':
                lo, hi = s[1], s[2]
                xs = [lo, hi, bits_f32(f32bits(lo) - 1), bits_f32(f32bits(hi) + 1), (lo + hi) / 2, 4800.0, 9600.0, 50000.0, 5000.0]
                lists.append([[str(f32bits(x))] for x in xs] + [[str(b)] for b in (0x7fc00000, 0x7f800000, 0xff800000, 0x80000000)])
            elif k == 'bytes':
                lists.append([[self.api.bytes_hex(n)] for n in (0, 1, 2, 63, 64, 65, 255) if s[1] <= n <= s[2]])
            else:
                lists.append([self.api.arg(s, 0.8) for _ in range(6)])
        combos = [[]]
        for l in lists:
            combos = [c + x for c in combos for x in l]
        if len(combos) > cap:
            combos = r.sample(combos, cap)
        return combos

    def ldro(self, priors3):
        """C13: all bandwidths x spreading factors, both call orders, prior values of the three
        modem configuration registers (including reserved codes)"""
        r = self.rnd
        bws = self.api.enum_values('sx127x_bw_t')
        sfs = self.api.enum_values('sx127x_sf_t')
        # a spreading-factor code retained from an earlier session (all 16, including the reserved
        # ones) x every bandwidth, on a fresh handle
        self.begin('ldro', 'retained-sf')
        for sfc in range(16):
            for b in bws:
                self.emit('reset')
                self.emit('env chip s 1 0x81')
                self.emit('env chip l 0x1e %d' % ((sfc << 4) | r.randint(0, 15)))
                self.emit('env chip l 0x26 %d' % r.randint(0, 255))
                self.emit('create')
                self.emit('lora_set_bandwidth %d' % b)
                self.emit('dump')
        for (p1, p2, p3) in priors3:
            self.begin('ldro', 'prior=%02x,%02x,%02x' % (p1, p2, p3))
            self.emit('env chip l 0x1d %d' % p1)
            self.emit('env chip l 0x1e %d' % p2)
            self.emit('env chip l 0x26 %d' % p3)
            self.emit('create')
            self.emit('set_opmod 1 0x80')
            self.emit('lora_set_implicit_header 8 1 2')   # allows SF6
            self.emit('env chip l 0x1d %d' % p1)
            self.emit('env chip l 0x1e %d' % p2)
            self.emit('create')
            self.emit('set_opmod 1 0x80')
            first = True
            order = [(b, s) for b in bws for s in sfs]
            r.shuffle(order)
            for (b, s) in order[:len(order) if first else 8]:
                if r.random() < 0.5:
                    self.emit('lora_set_bandwidth %d' % b)
                    self.emit('read_register 0x26')
                    self.emit('lora_set_implicit_header 8 1 2')
                    self.emit('lora_set_modem_config_2 %d' % s)
                else:
                    self.emit('lora_set_implicit_header 8 1 2')
                    self.emit('lora_set_modem_config_2 %d' % s)
                    self.emit('read_register 0x26')
                    self.emit('lora_set_bandwidth %d' % b)
                self.emit('#= ldro')
                self.emit('dump')
                if r.random() < 0.2:
                    self.emit('lora_set_low_datarate_optimization %d' % r.randint(0, 1))
                    self.emit('lora_set_syncword %d' % r.randint(0, 255))
                    self.emit('dump')

    def opmod(self, priors):
        """C15: 8 modes x 3 modulations (+ invalid), from every previous mode/modulation,
        prior DIO / threshold / sequencer contents, a fault at each transfer"""
        r = self.rnd
        for prev_mod in MODS:
            for prev_op in range(8):
                self.begin('opmod', 'prev=%d,%x' % (prev_op, prev_mod))
                self.emit('env chiprand %d' % r.randint(1, 2**31))
                self.emit('create')
                for mod in MODS + [0x40, 0xa0]:
                    for op in range(8):
                        for v in priors:
                            self.emit('set_opmod %d %d' % (prev_op, prev_mod))
                            self.emit('write_register 0x40 %d' % v)
                            self.emit('write_register 0x41 %d' % ((v * 7 + 3) & 0xff))
                            self.emit('write_register 0x35 %d' % ((v * 13 + 1) & 0xff))
                            f = ''
                            if r.random() < 0.35:
                                f = ' !%d=%d' % (r.randint(0, 5), r.choice([1, 0x101, 0x107]))
                            self.emit('set_opmod %d %d%s' % (op, mod, f))
                            self.emit('#= opmod %d %d' % (op, mod))
                            self.emit('dump')

    def attach(self):
        """C17: all 256 version values; recreate at every cut point of a LoRa RX session"""
        r = self.rnd
        self.begin('attach', 'versions')
        for v in range(256):
            self.emit('reset')
            self.emit('env chiprand %d' % r.randint(1, 2**31))
            self.emit('env chip s 0x42 %d' % v)
            self.emit('create' + (' !0=%d' % r.choice([1, 0x101]) if r.random() < 0.05 else ''))
            self.emit('#= create %d' % v)
        for _ in range(40):
            self.begin('attach', 'resume')
            self.emit('env chiprand %d' % r.randint(1, 2**31))
            self.emit('env chip l 0x24 0')    # no frequency hopping configured
            self.emit('env chip l 0x12 0')    # nothing pending
            self.emit('create')
            self.emit('rx_set_callback 1')
            session = ['set_opmod 1 0x80', 'lora_reset_fifo', 'set_frequency 437200000', 'lora_set_bandwidth 0x70',
                       'lora_tx_set_explicit_header 1 2', 'lora_set_implicit_header NULL',
                       'lora_set_modem_config_2 0x90', 'lora_set_syncword 18', 'set_preamble_length 8', 'rx_set_lna_gain 0',
                       'set_opmod 5 0x80']
            n = r.choice([1, 2, 17, 255, r.randint(1, 255)])
            if r.random() < 0.35:
                # the session before the sleep ran with an implicit header (fixed length, payload CRC on)
                session[5] = 'lora_set_implicit_header %d 1 2' % n
            for i, l in enumerate(session):
                self.emit(l)
            data = self.api.bytes_hex(n)
            start = r.randint(0, 255)
            pending = r.random() < 0.8
            crcerr = pending and r.random() < 0.3
            if pending:
                self.emit('env lorarx %d %d %s' % (start, 1 if crcerr else 0, data))
            if crcerr:
                # a damaged packet is waiting: the handle that never slept would drop it
                pending = False
            self.emit('dump')
            self.emit('create')
            self.emit('#= attach')
            self.emit('dump')
            self.emit('rx_set_callback 1')
            if r.random() < 0.3:
                # the chip kept a hop period from the earlier session and raised a channel change while the host slept;
                # the fresh handle has no channel list: the flag is acknowledged, nothing else happens
                self.emit('env loraflags 2')
                if not pending or crcerr:
                    self.emit('irq')
                    self.emit('#= resumehop')
                    self.emit('dump')
            self.emit('irq')
            self.emit('#= resume %s%s' % (data if pending else '-', ' crc' if crcerr else ''))

    def attach_fsk(self, n):
        """C17 for a chip left in FSK/OOK reception: a packet is waiting in the FIFO (PayloadReady raised), the host
        wakes up, creates a fresh handle, tells it what the chip runs (the only way: set_opmod) and handles the interrupt"""
        r = self.rnd
        for _ in range(n):
            mod = r.choice([FSK, OOK])
            self.begin('attach', 'resume-fsk mod=%x' % mod)
            self.emit('env chiprand %d' % r.randint(1, 2**31))
            self.emit('env chip f 0x3b 0')
            self.emit('env chip f 0x3e 0')
            self.emit('env chip f 0x3f 0')
            self.emit('env chip l 0x12 0')
            self.emit('create')
            self.emit('rx_set_callback 1')
            self.emit('set_opmod 0 %d' % mod)
            self.emit('set_opmod 1 %d' % mod)
            self.emit('write_register 0x3f 0x10')
            self.emit('fsk_ook_set_crc 24')
            self.emit('fsk_ook_set_address_filtering 0 17 255')
            self.emit('fsk_ook_set_packet_format 0x80 255')
            self.emit('set_opmod 5 %d' % mod)
            plen = r.choice([1, 2, 17, 30, 50, r.randint(1, 60)])
            payload = [r.randint(0, 255) for _ in range(plen)]
            pending = r.random() < 0.85
            if pending:
                for b in [plen] + payload:
                    self.emit('env rxbyte %d' % b)
                self.emit('env rxend 1')
            self.emit('dump')
            self.emit('create')
            self.emit('#= attach')
            self.emit('dump')
            self.emit('rx_set_callback 1')
            self.emit('set_opmod 5 %d' % mod)
            self.emit('#= resumeopmod 5')
            self.emit('irq')
            self.emit('#= resume %s' % (''.join('%02x' % b for b in payload) if pending else '-'))

    def lora_rx(self, n):
        r = self.rnd
        for _ in range(n):
            self.begin('lorarx')
            self.prologue(LORA, rand_chip=r.random() < 0.7)
            self.emit('env chip l 0x24 0')
            self.emit('lora_reset_fifo')
            implicit = None
            self.emit('set_opmod %d 0x80' % r.choice([5, 5, 6]))
            for _ in range(r.randint(1, 8)):
                c = r.random()
                if c < 0.15:
                    ln = r.choice([1, 8, 255, r.randint(1, 255)])
                    self.emit('lora_set_implicit_header %d 1 2' % ln)
                    implicit = ln
                elif c < 0.25:
                    self.emit('lora_set_implicit_header NULL')
                    implicit = None
                elif c < 0.35:
                    # the other call that selects explicit-header mode
                    self.emit('lora_tx_set_explicit_header %d %d' % (r.randint(0, 1), r.choice([1, 2, 3, 4])))
                    implicit = None
                if c > 0.8:
                    # one handle, both modems: an FSK/OOK transmission in between (completed, or
                    # abandoned in the middle of a long frame), then back to LoRa reception
                    fm = r.choice([FSK, OOK])
                    abandoned = r.random() < 0.5
                    self.emit('set_opmod 0 0x80')
                    self.emit('set_opmod 0 %d' % fm)
                    self.emit('set_opmod 1 %d' % fm)
                    self.emit('fsk_ook_set_packet_format 0x80 255')
                    self.emit('write_register 0x3f 0x10')
                    k = r.randint(70, 200) if abandoned else r.randint(1, 40)
                    self.emit('fsk_ook_tx_set_for_transmission %s' % self.api.bytes_hex(k))
                    self.emit('set_opmod 3 %d' % fm)
                    if not abandoned:
                        for _ in range(k + 1):
                            self.emit('env txshift')
                        self.emit('env txsent')
                        self.emit('irq')
                        self.emit('env chip f 0x3f 0')
                    self.emit('set_opmod 0 %d' % fm)
                    self.emit('write_register 0x3f 0x10')
                    self.emit('set_opmod 0 0x80')
                    self.emit('set_opmod %d 0x80' % r.choice([5, 6]))
                n_b = implicit if implicit else r.choice([1, 2, 3, 64, 255, r.randint(1, 255)])
                if implicit and r.random() < 0.9:
                    # in implicit-header mode the chip reports the configured length in RxNbBytes
                    pass
                start = r.choice([0, 255, 200, r.randint(0, 255)])
                crcerr = r.random() < 0.25
                data = self.api.bytes_hex(n_b)
                self.emit('env lorarx %d %d %s' % (start, 1 if crcerr else 0, data))
                extra = r.choice([0, 0, 0, 0x80, 0x80, 0x02, 0x08, 0x01, 0x90])
                if extra:
                    self.emit('env loraflags %d' % extra)
                self.emit('irq')
                self.emit('#= lorarx %d %s' % (1 if crcerr else 0, data))
                if r.random() < 0.3:
                    self.emit('irq')
                    self.emit('#= idle')

    def lora_tx(self, n):
        r = self.rnd
        for _ in range(n):
            self.begin('loratx')
            self.prologue(LORA, rand_chip=r.random() < 0.7)
            self.emit('lora_reset_fifo')
            agreed = None
            for _ in range(r.randint(1, 8)):
                c = r.random()
                if c < 0.2:
                    agreed = r.choice([1, 8, 16, 255])
                    self.emit('lora_set_implicit_header %d 1 2' % agreed)
                elif c < 0.3:
                    self.emit(r.choice(['lora_set_implicit_header NULL', 'lora_tx_set_explicit_header 1 2']))
                    agreed = None
                if r.random() < 0.3:
                    # a reception in between moves the FIFO pointer
                    self.emit('set_opmod 5 0x80')
                    self.emit('env lorarx %d 0 %s' % (r.randint(0, 255), self.api.bytes_hex(r.randint(1, 40))))
                    self.emit('irq')
                    self.emit('set_opmod 1 0x80')
                n_b = r.choice([0, 1, 2, 255, r.randint(1, 255), r.randint(1, 255)])
                if agreed:
                    # alternate another length with the agreed one (the register must follow the call)
                    turn = getattr(self, '_turn', 0)
                    self._turn = turn + 1
                    if turn % 2 == 1 or r.random() < 0.2:
                        n_b = agreed
                data = self.api.bytes_hex(n_b)
                self.emit('lora_tx_set_for_transmission %s' % data)
                self.emit('dump')
                self.emit('#= loratx %s' % data)
                self.emit('set_opmod 3 0x80')
                fl = r.choice([0x08, 0x08, 0x08, 0x0a, 0x88, 0x00, 0x02])
                self.emit('env loraflags %d' % fl)
                if fl == 0x08 and r.random() < 0.3:
                    # the acknowledgement of the handler fails once; the event is handled by the next invocation - once
                    self.emit('irq !1=%d' % r.choice([1, 0x101]))
                    self.emit('irq')
                    self.emit('irq')
                    self.emit('#= txonce')
                    continue
                self.emit('irq')
                self.emit('#= txdone %d' % fl)
                self.emit('irq')
                self.emit('#= idle')

    def cad_events(self, n):
        """C07: every CAD-done event the chip raises in CAD mode leads to exactly one cad callback - also when the
        application has changed the mode in the meantime (its own timeout) or other flags are pending as well"""
        r = self.rnd
        for _ in range(n):
            self.begin('cad')
            self.prologue(LORA, rand_chip=r.random() < 0.5)
            self.emit('env chip l 0x24 0')
            for _ in range(r.randint(1, 5)):
                self.emit('set_opmod 7 0x80')
                det = r.choice([0, 1])
                self.emit('env loraflags %d' % (4 | det | r.choice([0, 0, 0x80, 0x10])))
                c = r.random()
                if c < 0.35:
                    self.emit('set_opmod %d 0x80' % r.choice([1, 5, 6, 0]))   # the application moved on before the handler ran
                self.emit('irq')
                self.emit('#= cad %d' % det)
                self.emit('irq')
                self.emit('#= idle')

    def lora_race(self, n):
        """C07: a chip-side event raised between any two SPI transfers of a running LoRa handler
        invocation: a second event of the same kind only after the acknowledgement write
        (transfer index >= 2), an event of a different kind at any boundary"""
        r = self.rnd
        for _ in range(n):
            self.begin('lorarace')
            self.prologue(LORA, rand_chip=r.random() < 0.5)
            self.emit('env chip l 0x24 0')
            fl = [r.randint(137000000, 1020000000) for _ in range(r.randint(1, 4))]
            self.emit('lora_set_frequency_hopping 5 %d %s' % (len(fl), ','.join(map(str, fl))))
            self.emit('lora_set_implicit_header NULL')
            self.emit('set_opmod 5 0x80')
            for _ in range(r.randint(2, 6)):
                a = self.api.bytes_hex(r.randint(1, 40))
                self.emit('env lorarx %d 0 %s' % (r.randint(0, 255), a))
                self.emit('#= mark')
                if r.random() < 0.5:
                    k = r.randint(2, 8)
                    b = self.api.bytes_hex(r.randint(1, 40))
                    self.emit('irq @%d lorarx %d 0 %s' % (k, r.randint(0, 255), b))
                    self.emit('irq')
                    self.emit('irq')
                    self.emit('#= race 2 0')
                else:
                    k = r.randint(0, 8)
                    self.emit('irq @%d loraflags 2' % k)
                    self.emit('irq')
                    self.emit('irq')
                    self.emit('#= race 1 %d' % (0 if k == 0 else 1))

    def hop(self, n):
        r = self.rnd
        for _ in range(n):
            self.begin('hop')
            self.prologue(LORA, rand_chip=r.random() < 0.5)
            ln = r.choice([1, 2, 3, 7, 255, r.randint(1, 255)])
            fl = [r.randint(137000000, 1020000000) for _ in range(ln)]
            self.emit('lora_set_frequency_hopping %d %d %s' % (r.randint(1, 255), ln, ','.join(map(str, fl))))
            self.emit('#= hoplist %s' % ','.join(map(str, fl)))
            if r.random() < 0.3:
                self.emit('rehome')   # the application moves the handle struct to other storage and reuses the old one
            self.emit('set_opmod %d 0x80' % r.choice([5, 3]))
            for _ in range(r.randint(1, 5)):
                hops = r.choice([0, 1, 2, ln - 1, ln, ln + 1, r.randint(0, min(2 * ln + 2, 300))])
                for _ in range(hops):
                    # the channel-change flag, now and then together with a flag that is not the end of a packet
                    self.emit('env loraflags %d' % r.choice([2, 2, 2, 0x12, 0x82]))
                    self.emit('irq')
                    self.emit('#= hop')
                if r.random() < 0.3:
                    # another list (often shorter) registered while the packet is still running
                    ln = r.choice([1, 2, max(1, ln // 2), r.randint(1, 255)])
                    fl = [r.randint(137000000, 1020000000) for _ in range(ln)]
                    self.emit('lora_set_frequency_hopping %d %d %s' % (r.randint(1, 255), ln, ','.join(map(str, fl))))
                    self.emit('#= relist %s' % ','.join(map(str, fl)))
                    for _ in range(r.choice([1, 2, ln + 1])):
                        self.emit('env loraflags 2')
                        self.emit('irq')
                        self.emit('#= hop')
                end = r.choice(['rx', 'tx', 'crc', 'rxhop', 'txhop'])
                if end in ('rx', 'rxhop'):
                    self.emit('env lorarx %d 0 %s' % (r.randint(0, 255), self.api.bytes_hex(r.randint(1, 20))))
                elif end in ('tx', 'txhop'):
                    self.emit('env loraflags 8')
                else:
                    self.emit('env lorarx %d 1 %s' % (r.randint(0, 255), self.api.bytes_hex(r.randint(1, 20))))
                if end.endswith('hop'):
                    self.emit('env loraflags 2')
                self.emit('irq')
                self.emit('#= hopend')
                if r.random() < 0.4:
                    # between two packets: an invocation for something that is neither a hop nor the end of a packet
                    fl_ = r.choice([0, 0x80, 0x10, 0x90])
                    if fl_:
                        self.emit('env loraflags %d' % fl_)
                    self.emit('irq')
                    self.emit('#= nohop')

    def mixed(self, n, maxlen_fixed=2047):
        """one handle, both modems, all four packet paths, in any order: every script is a random
        sequence of episodes (LoRa reception, LoRa transmission, FSK/OOK reception, FSK/OOK
        transmission, abandoned ones, configuration calls, handle re-creation), each complete
        episode followed by the expectation of its own property.  What one episode leaves in the
        handle, the cache or the chip is what the next one starts from."""
        r = self.rnd
        SAFE_LORA = ['set_frequency %d' % f for f in (433000000, 868100000, 915000000)] + [
            'lora_set_bandwidth 0x70', 'lora_set_bandwidth 0x90', 'lora_set_modem_config_2 0x90', 'lora_set_modem_config_2 0x70',
            'lora_set_syncword 18', 'set_preamble_length 8', 'rx_set_lna_gain 0', 'rx_set_lna_gain 0x20', 'rx_set_lna_boost_hf 1',
            'tx_set_pa_config 0x80 4', 'tx_set_pa_config 0 2', 'lora_set_low_datarate_optimization 1', 'rx_get_packet_rssi',
            'lora_rx_get_packet_snr', 'rx_get_frequency_error', 'lora_get_bandwidth', 'get_frequency', 'lora_set_ppm_offset 4000']
        SAFE_FSK = ['set_frequency %d' % f for f in (433000000, 868100000)] + [
            'fsk_ook_set_bitrate %d' % f32bits(4800.0), 'fsk_set_fdev %d' % f32bits(5000.0), 'set_preamble_length 4',
            'fsk_ook_rx_set_afc_auto 1', 'fsk_ook_rx_set_trigger 6', 'fsk_ook_set_packet_encoding 0', 'fsk_ook_set_preamble_type 1',
            'fsk_ook_rx_set_bandwidth %d' % f32bits(10000.0), 'rx_set_lna_gain 0', 'tx_set_pa_config 0x80 4', 'get_frequency',
            'fsk_ook_set_syncword 12ad', 'fsk_ook_rx_set_preamble_detector 1 2 10', 'rx_get_frequency_error', 'fsk_ook_set_temp_monitor 1']
        for _ in range(n):
            self.begin('mixed')
            self.prologue(LORA, rand_chip=r.random() < 0.5)
            self.emit('env chip l 0x24 0')      # no frequency hopping left over from a random chip
            st = {'mod': LORA, 'implicit': None}

            def to_modem(m):
                """the documented way across modems: sleep in the old one, sleep in the new one"""
                if st['mod'] != m:
                    if (st['mod'] == LORA) != (m == LORA):
                        self.emit('set_opmod 0 %d' % st['mod'])
                    self.emit('set_opmod 0 %d' % m)
                    st['mod'] = m
                self.emit('set_opmod 1 %d' % m)

            def fsk_mod():
                return st['mod'] if st['mod'] != LORA else r.choice([FSK, OOK])

            def ep_lora_rx(abandon=False):
                to_modem(LORA)
                c = r.random()
                if c < 0.2:
                    st['implicit'] = r.choice([1, 8, 255, r.randint(1, 255)])
                    self.emit('lora_set_implicit_header %d 1 2' % st['implicit'])
                elif c < 0.4:
                    self.emit(r.choice(['lora_set_implicit_header NULL', 'lora_tx_set_explicit_header 1 2']))
                    st['implicit'] = None
                self.emit('set_opmod %d 0x80' % r.choice([5, 6]))
                if abandon:
                    return
                for _ in range(r.randint(1, 3)):
                    n_b = st['implicit'] if st['implicit'] else r.choice([1, 2, 64, 255, r.randint(1, 255)])
                    crcerr = r.random() < 0.2
                    data = self.api.bytes_hex(n_b)
                    self.emit('env lorarx %d %d %s' % (r.choice([0, 255, r.randint(0, 255)]), 1 if crcerr else 0, data))
                    if r.random() < 0.3:
                        # a timeout / valid-header flag of an earlier attempt that nobody serviced
                        self.emit('env loraflags %d' % r.choice([0x80, 0x10, 0x90]))
                    self.emit('irq')
                    self.emit('#= lorarx %d %s' % (1 if crcerr else 0, data))

            def ep_lora_tx(abandon=False):
                to_modem(LORA)
                self.emit('lora_reset_fifo')
                n_b = r.choice([1, 2, 255, r.randint(1, 255)])
                if st['implicit'] and r.random() < 0.5:
                    n_b = st['implicit']
                data = self.api.bytes_hex(n_b)
                self.emit('lora_tx_set_for_transmission %s' % data)
                self.emit('dump')
                self.emit('#= loratx %s' % data)
                self.emit('set_opmod 3 0x80')
                if abandon:
                    return
                self.emit('env loraflags 8')
                self.emit('irq')
                self.emit('#= txdone 8')

            def fsk_config():
                variable = r.random() < 0.6
                crc = r.choice([0x08, 0x18, 0x19])
                filt = r.choice([0, 0, 2])
                self.emit('fsk_ook_set_crc %d' % crc)
                self.emit('fsk_ook_set_address_filtering %d 17 255' % filt)
                fixed_len = None
                if variable:
                    self.emit('fsk_ook_set_packet_format 0x80 255')
                else:
                    fixed_len = min(maxlen_fixed, r.choice([2, 30, 64, 65, 100, 255, 300, r.randint(2, 400)]))
                    self.emit('fsk_ook_set_packet_format 0 %d' % fixed_len)
                return variable, crc, filt, fixed_len

            def ep_fsk_rx(abandon=False):
                m = fsk_mod()
                to_modem(m)
                variable, crc, filt, fixed_len = fsk_config()
                self.emit('write_register 0x3f 0x10')
                self.emit('set_opmod 5 %d' % m)
                if abandon:
                    # the first batch of a long packet is read, then the application gives up
                    if variable and not filt:
                        self.emit('env rxbyte 150')
                        for _ in range(39):
                            self.emit('env rxbyte %d' % r.randint(0, 255))
                        self.emit('irq')
                    self.emit('set_opmod 1 %d' % m)
                    self.emit('write_register 0x3f 0x10')
                    return
                for _ in range(r.randint(1, 2)):
                    if variable:
                        plen = r.choice([0, 1, 30, 31, 62, 64, 65, 95, 200, 254, r.randint(0, 254)])
                    else:
                        plen = fixed_len - (1 if filt else 0)
                    payload = [r.randint(0, 255) for _ in range(plen)]
                    frame = self.fsk_frame(variable, 17 if filt else None, payload)
                    crcok = (crc == 0x08) or r.random() < 0.8
                    self.fsk_rx_schedule(frame, crc, crcok, variable, bool(filt))
                    self.emit('#= fskrx %d %s' % (1 if (crcok or crc == 0x08) else 0, ''.join('%02x' % b for b in payload) or '-'))
                self.emit('set_opmod 1 %d' % m)

            def ep_fsk_tx(abandon=False):
                m = fsk_mod()
                to_modem(m)
                variable, crc, filt, fixed_len = fsk_config()
                self.emit('write_register 0x3f 0x10')
                with_addr = r.random() < 0.3
                mx = (255 if variable else fixed_len) - (1 if with_addr else 0)
                plen = max(1, min(mx, r.choice([1, 2, 30, 63, 64, 65, 96, 200, 254, r.randint(1, 300)])))
                if abandon:
                    plen = max(1, min(mx, r.randint(70, 250)))
                payload = [r.randint(0, 255) for _ in range(plen)]
                hexp = ''.join('%02x' % b for b in payload)
                frame = self.fsk_frame(variable, 0x22 if with_addr else None, payload)
                call = ('fsk_ook_tx_set_for_transmission_with_address %s 0x22' % hexp) if with_addr else ('fsk_ook_tx_set_for_transmission %s' % hexp)
                self.emit('set_opmod 3 %d' % m)
                self.emit('oncb tx set_opmod 1 %d' % m)
                if abandon:
                    self.emit(call)
                    if r.random() < 0.5 and len(frame) > 64:
                        for _ in range(40):
                            self.emit('env txshift')
                        self.emit('irq')
                    self.emit('set_opmod 1 %d' % m)
                    self.emit('write_register 0x3f 0x10')
                    self.emit('oncb tx -')
                    return
                self.emit('#= fsktx_begin')
                self.emit(call)
                self.tx_schedule(len(frame))
                self.emit('env chip f 0x3f 0')
                self.emit('#= fsktx_end 1 %s' % ''.join('%02x' % b for b in frame))
                self.emit('oncb tx -')

            def ep_config():
                if st['mod'] == LORA:
                    self.emit('set_opmod 1 0x80')
                    for _ in range(r.randint(1, 4)):
                        self.emit(r.choice(SAFE_LORA))
                else:
                    self.emit('set_opmod 1 %d' % st['mod'])
                    for _ in range(r.randint(1, 4)):
                        self.emit(r.choice(SAFE_FSK))

            def ep_recreate():
                # a new handle on the chip as it is (the host restarted); the chip keeps its modem
                self.emit('set_opmod 1 %d' % st['mod'])
                if st['mod'] != LORA:
                    self.emit('write_register 0x3f 0x10')
                self.emit('create')
                self.emit('rx_set_callback 1')
                self.emit('tx_set_callback 1')
                self.emit('lora_cad_set_callback 1')
                # the fresh handle says LoRa; the application tells it what the chip runs
                self.emit('set_opmod 1 %d' % st['mod'])

            eps = [ep_lora_rx, ep_lora_tx, ep_fsk_rx, ep_fsk_tx]
            for _ in range(r.randint(3, 8)):
                if r.random() < 0.1:
                    self.emit('rehome')
                c = r.random()
                if c < 0.15:
                    ep_config()
                elif c < 0.22:
                    ep_recreate()
                elif c < 0.4:
                    r.choice(eps)(abandon=True)
                else:
                    r.choice(eps)()

    def fsk_frame(self, fmt_variable, address, payload):
        frame = []
        if fmt_variable:
            frame.append(len(payload) + (1 if address is not None else 0))
        if address is not None:
            frame.append(address)
        return frame + payload

    def fsk_rx(self, n, maxlen_fixed=2047):
        """C03: packets of every length, admissible schedules: the host services the FIFO so
        that it never holds 64 bytes when the handler samples the flags"""
        r = self.rnd
        for _ in range(n):
            mod = r.choice([FSK, OOK])
            self.begin('fskrx', 'mod=%x' % mod)
            self.prologue(mod, rand_chip=r.random() < 0.5)
            variable = r.random() < 0.6
            crc = r.choice([0x08, 0x18, 0x19])
            filt = r.choice([0, 0, 2, 4])
            self.emit('fsk_ook_set_crc %d' % crc)
            self.emit('fsk_ook_set_address_filtering %d 17 255' % filt)
            fixed_len = None
            retained = r.random() < 0.25
            if variable:
                vl = r.choice([255, 2047])
                if retained:
                    # an earlier session left the chip in the other packet format with the same length register;
                    # the host restarted, the new handle configures what it needs
                    self.emit('fsk_ook_set_packet_format 0 %d' % vl)
                    self.emit('create')
                    self.emit('rx_set_callback 1')
                    self.emit('set_opmod 1 %d' % mod)
                    self.emit('fsk_ook_set_crc %d' % crc)
                    self.emit('fsk_ook_set_address_filtering %d 17 255' % filt)
                self.emit('fsk_ook_set_packet_format 0x80 %d' % vl)
            else:
                fixed_len = r.choice([1, 2, 30, 31, 32, 62, 63, 64, 65, 66, 93, 94, 95, 255, 256, 2047, r.randint(1, 2047), r.randint(1, 200)])
                fixed_len = min(fixed_len, maxlen_fixed)
                if filt and fixed_len < 2:
                    fixed_len = 2
                self.emit('fsk_ook_set_packet_format 0 %d' % fixed_len)
            if r.random() < 0.3:
                # both modems are configured while asleep, then the receiver listens in FSK/OOK
                self.emit('set_opmod 0 0x80')
                self.emit('lora_set_bandwidth 0x70')
                if r.random() < 0.5:
                    self.emit('lora_set_implicit_header NULL')
                else:
                    # the LoRa side expects headerless packets of a fixed length
                    self.emit('lora_set_implicit_header %d 1 2' % r.choice([1, 10, 64, 255]))
                self.emit('lora_set_modem_config_2 %d' % r.choice([0x70, 0x90, 0xc0]))
                self.emit('lora_set_syncword 0x12')
                self.emit('set_opmod 0 %d' % mod)
            pre = r.random()
            if pre < 0.15:
                # a transmission abandoned in the middle of a long frame, the FIFO flushed, then reception
                self.emit('set_opmod 1 %d' % mod)
                self.emit('fsk_ook_tx_set_for_transmission %s' % self.api.bytes_hex(r.randint(70, 200) if variable or fixed_len > 70 else fixed_len))
                self.emit('set_opmod 3 %d' % mod)
                self.emit('set_opmod 1 %d' % mod)
                self.emit('write_register 0x3f 0x10')
            elif pre < 0.3 and variable and not filt:
                # a reception abandoned after the first batch of a long packet was read, the FIFO flushed, then reception again
                self.emit('set_opmod 5 %d' % mod)
                self.emit('env rxbyte 120')
                for _ in range(39):
                    self.emit('env rxbyte %d' % r.randint(0, 255))
                self.emit('irq')
                self.emit('set_opmod 1 %d' % mod)
                self.emit('write_register 0x3f 0x10')
            self.emit('set_opmod 5 %d' % mod)
            for _ in range(r.randint(1, 4)):
                if variable:
                    plen = r.choice([0, 1, 2, 29, 30, 31, 32, 33, 60, 61, 62, 63, 64, 65, 93, 94, 95, 253, 254, 255, r.randint(0, 255), r.randint(0, 255)])
                    if filt:
                        plen = min(plen, 254)
                else:
                    plen = fixed_len - (1 if filt else 0)
                payload = [r.randint(0, 255) for _ in range(plen)]
                frame = self.fsk_frame(variable, 17 if filt else None, payload)
                crcok = (crc == 0x08) or r.random() < 0.8
                self.fsk_rx_schedule(frame, crc, crcok, variable, bool(filt))
                delivered = crcok or crc == 0x08
                self.emit('#= fskrx %d %s' % (1 if delivered else 0, ''.join('%02x' % b for b in payload) or '-'))

    def fsk_rx_schedule(self, frame, crc, crcok, variable=True, filt=False):
        """arrival of `frame` interleaved with handler invocations.  A reference model of what
        the handler consumes per invocation keeps the schedule admissible: the FIFO never holds
        64 bytes when the handler samples the flags (the property's hypothesis)."""
        r = self.rnd
        n = len(frame)
        pos = 0          # bytes of the frame that have arrived
        occ = 0          # FIFO occupancy
        exp = None       # payload length once the handler has consumed the header
        rcv = 0
        hdr = (1 if variable else 0) + (1 if filt else 0)
        payload_len = n - hdr
        if r.random() < 0.3:
            self.emit('env flag1 %d' % r.choice([1, 2, 3]))
            self.emit('irq')
        ended = False
        while pos < n:
            room = 63 - occ
            burst = min(n - pos, room, r.choice([1, 2, 5, 20, 31, 32, 33, 40, 63, r.randint(1, 63)]))
            for i in range(burst):
                self.emit('env rxbyte %d' % frame[pos + i])
            pos += burst
            occ += burst
            # arrivals inside the invocation (after the flags were sampled or between reads),
            # possibly the last byte of the frame and PayloadReady itself
            inh = ''
            k = 0
            if pos >= n:
                if r.random() < 0.75:
                    break
                # the whole frame is in the FIFO; PayloadReady is raised while the handler runs
                inh = ' @%d rxend %d' % (r.randint(1, 6), 1 if crcok else 0)
                ended = True
            elif r.random() < 0.4 and occ <= 60:
                k = min(n - pos, 63 - occ, r.randint(1, 3))
                if k == n - pos and r.random() < 0.5:
                    k -= 1
                k = max(k, 0)
                idx = sorted(r.randint(1, 6) for _ in range(k))
                for i in range(k):
                    inh += ' @%d rxbyte %d' % (idx[i], frame[pos + i])
                if k > 0 and pos + k == n and r.random() < 0.6:
                    inh += ' @%d rxend %d' % (r.randint(idx[-1], 7), 1 if crcok else 0)
                    ended = True
            if r.random() < 0.25:
                # a delayed or coalesced preamble / sync-address interrupt in the middle of the packet
                self.emit('env flag1 %d' % r.choice([1, 2, 3]))
            self.emit('irq' + inh)
            if r.random() < 0.12:
                self.emit('rx_get_packet_rssi')   # a polling main loop reads the signal strength in the middle of the packet
            # reference consumption (flags sampled before the in-handler arrivals): on FIFO
            # level the handler takes the header and full batches only
            if 31 < occ < 64:
                if exp is None:
                    occ -= hdr
                    exp = payload_len
                if exp != rcv and rcv + 30 < exp:
                    occ -= 30
                    rcv += 30
            pos += k
            occ += k
            if ended:
                break
            if r.random() < 0.15:
                self.emit('irq')
                if 31 < occ < 64:
                    if exp is None:
                        occ -= hdr
                        exp = payload_len
                    if exp != rcv and rcv + 30 < exp:
                        occ -= 30
                        rcv += 30
        if not ended:
            self.emit('env rxend %d' % (1 if crcok else 0))
        self.emit('irq')
        if r.random() < 0.3:
            self.emit('irq')


    def nocb(self, n):
        """events that would invoke a callback while none is registered (NULL pointers): the
        handler must do everything else (acknowledge, read/flush, reset the per-packet state), so
        that the next packet or frame, with the callback registered, is handled as a first one.
        Decided by the trace correspondence and, for the second packet, by the monitors."""
        r = self.rnd
        for _ in range(n):
            kind = r.choice(['fskrx', 'fskrx', 'lorarx', 'fsktx', 'loratx', 'cad'])
            self.begin('nocb', kind)
            if kind == 'fskrx':
                mod = r.choice([FSK, OOK])
                self.prologue(mod, rand_chip=r.random() < 0.5, callbacks=False)
                crc = r.choice([0x08, 0x18])
                filt = r.choice([0, 2])
                self.emit('fsk_ook_set_crc %d' % crc)
                self.emit('fsk_ook_set_address_filtering %d 17 255' % filt)
                self.emit('fsk_ook_set_packet_format 0x80 255')
                self.emit('set_opmod 5 %d' % mod)
                for k in range(2):
                    plen = r.choice([0, 1, 30, 31, 62, 63, 64, 100, r.randint(0, 254)])
                    payload = [r.randint(0, 255) for _ in range(plen)]
                    frame = self.fsk_frame(True, 17 if filt else None, payload)
                    self.fsk_rx_schedule(frame, crc, True, True, bool(filt))
                    if k == 0:
                        self.emit('dump')
                        self.emit('rx_set_callback 1')
                    else:
                        self.emit('#= fskrx 1 %s' % (''.join('%02x' % b for b in payload) or '-'))
            elif kind == 'lorarx':
                self.prologue(LORA, rand_chip=r.random() < 0.5, callbacks=False)
                self.emit('env chip l 0x24 0')
                self.emit('lora_reset_fifo')
                self.emit('set_opmod 5 0x80')
                for k in range(2):
                    data = self.api.bytes_hex(r.choice([1, 5, 64, 255]))
                    self.emit('env lorarx %d 0 %s' % (r.choice([0, 200, r.randint(0, 255)]), data))
                    self.emit('irq')
                    if k == 0:
                        self.emit('dump')
                        self.emit('rx_set_callback 1')
                    else:
                        self.emit('#= lorarx 0 %s' % data)
            elif kind == 'fsktx':
                mod = r.choice([FSK, OOK])
                self.prologue(mod, rand_chip=r.random() < 0.5, callbacks=False)
                self.emit('fsk_ook_set_packet_format 0x80 255')
                self.emit('set_opmod 1 %d' % mod)
                for k in range(2):
                    plen = r.choice([1, 30, 63, 64, 65, 128, 254])
                    payload = [r.randint(0, 255) for _ in range(plen)]
                    frame = self.fsk_frame(True, None, payload)
                    self.emit('write_register 0x3f 0x10')
                    self.emit('set_opmod 3 %d' % mod)
                    if k == 1:
                        self.emit('oncb tx set_opmod 1 %d' % mod)
                        self.emit('#= fsktx_begin')
                    self.emit('fsk_ook_tx_set_for_transmission %s' % ''.join('%02x' % b for b in payload))
                    self.tx_schedule(len(frame))
                    self.emit('env chip f 0x3f 0')
                    if k == 0:
                        self.emit('dump')
                        self.emit('set_opmod 1 %d' % mod)
                        self.emit('tx_set_callback 1')
                    else:
                        self.emit('#= fsktx_end 1 %s' % ''.join('%02x' % b for b in frame))
                        self.emit('dump')
            elif kind == 'loratx':
                self.prologue(LORA, rand_chip=r.random() < 0.5, callbacks=False)
                self.emit('lora_reset_fifo')
                for k in range(2):
                    data = self.api.bytes_hex(r.choice([1, 16, 255]))
                    self.emit('lora_tx_set_for_transmission %s' % data)
                    self.emit('set_opmod 3 0x80')
                    self.emit('env loraflags 8')
                    self.emit('irq')
                    if k == 0:
                        self.emit('dump')
                        self.emit('tx_set_callback 1')
                    else:
                        self.emit('#= txdone 8')
            else:
                self.prologue(LORA, rand_chip=r.random() < 0.5, callbacks=False)
                self.emit('set_opmod 7 0x80')
                self.emit('env loraflags %d' % r.choice([0x04, 0x05]))
                self.emit('irq')
                self.emit('dump')
                self.emit('lora_cad_set_callback 1')
                self.emit('set_opmod 7 0x80')
                self.emit('env loraflags %d' % r.choice([0x04, 0x05]))
                self.emit('irq')

    def oversize_fixed(self, n, cap):
        """C08 (small packet buffers): fixed-length reception with a configured length above the buffer capacity
        (the API accepts up to 2047 whatever the build, and the chip may have retained it); only the memory
        monitors apply - the packet cannot be delivered"""
        r = self.rnd
        for _ in range(n):
            mod = r.choice([FSK, OOK])
            self.begin('oversize', 'mod=%x' % mod)
            self.prologue(mod, rand_chip=r.random() < 0.5)
            ln = min(2047, r.choice([cap + 1, cap + 29, cap + 30, cap + 31, cap + 45, cap + 100, 2 * cap + 7, 2047]))
            self.emit('fsk_ook_set_crc %d' % r.choice([0x08, 0x18]))
            self.emit('fsk_ook_set_address_filtering 0 17 255')
            self.emit('fsk_ook_set_packet_format 0 %d' % ln)
            if r.random() < 0.4:
                self.emit('create')        # a fresh handle on the chip that keeps the length
                self.emit('rx_set_callback 1')
                self.emit('set_opmod 1 %d' % mod)
                self.emit('fsk_ook_set_packet_format 0 %d' % ln)
            self.emit('write_register 0x3f 0x10')
            self.emit('set_opmod 5 %d' % mod)
            sent = 0
            while sent < ln:
                k = min(ln - sent, r.choice([31, 33, 40, 60]))
                for _ in range(k):
                    self.emit('env rxbyte %d' % r.randint(0, 255))
                sent += k
                self.emit('irq')
            self.emit('env rxend 1')
            self.emit('irq')
            self.emit('irq')
            self.emit('dump')

    def stale_length(self, n, cap):
        """C08 (small packet buffers): a transmit refill with a length in the handle that does not
        belong to the frame in the buffer — left behind by a LoRa implicit-header configuration made
        while the FSK/OOK frame was still in the FIFO.  The refill must not read the frame beyond
        `packet[cap]`; no delivery monitor applies (the history is not a sensible transmission)."""
        r = self.rnd
        for _ in range(n):
            mod = r.choice([FSK, OOK])
            self.begin('stalelen', 'mod=%x' % mod)
            self.prologue(mod, rand_chip=False)
            self.emit('fsk_ook_set_packet_format 0x80 255')
            self.emit('set_opmod 1 %d' % mod)
            self.emit('write_register 0x3f 0x10')
            plen = max(1, min(cap - 1, r.choice([cap - 1, cap - 2, cap // 2 + 8, r.randint(1, max(1, cap - 1))])))
            self.emit('fsk_ook_tx_set_for_transmission %s' % self.api.bytes_hex(min(plen, 255)))
            self.emit('set_opmod 3 %d' % mod)
            for _ in range(r.randint(0, 50)):
                self.emit('env txshift')
            self.emit('set_opmod 1 0x80')
            self.emit('lora_set_implicit_header %d 1 1' % r.choice([255, 200, cap + 1, cap + 30, r.randint(min(cap + 1, 255), 255)]))
            self.emit('set_opmod 1 %d' % mod)
            self.emit('set_opmod 3 %d' % mod)
            for _ in range(r.randint(1, 4)):
                for _ in range(r.randint(0, 20)):
                    self.emit('env txshift')
                self.emit('irq')
            self.emit('dump')

    def fsk_tx(self, n, maxlen_fixed=2047):
        """C04: frames of every length; the simulated modulator consumes bytes between and
        inside handler invocations, never running the FIFO dry before the frame is complete.
        The application either stays in TX, leaves TX from the callback, or queues the next
        packet from the callback."""
        r = self.rnd
        for _ in range(n):
            mod = r.choice([FSK, OOK])
            self.begin('fsktx', 'mod=%x' % mod)
            self.prologue(mod, rand_chip=r.random() < 0.5)
            variable = r.random() < 0.6
            if variable:
                self.emit('fsk_ook_set_packet_format 0x80 255')
            else:
                self.emit('fsk_ook_set_packet_format 0 %d' % r.randint(1, 2047))
            self.emit('set_opmod 1 %d' % mod)
            for _ in range(r.randint(1, 3)):
                behaviour = r.choice(['leave', 'leave', 'stay', 'chain', 'chain'])
                frames = []
                calls = []
                for k in range(2 if behaviour == 'chain' else 1):
                    with_addr = r.random() < 0.4
                    mx = (255 if variable else maxlen_fixed) - (1 if with_addr else 0)
                    plen = r.choice([0, 1, 2, 30, 31, 32, 61, 62, 63, 64, 65, 66, 93, 94, 95, 96, 127, 128, 254, mx, r.randint(0, mx), r.randint(0, min(mx, 300))])
                    plen = min(plen, mx)
                    payload = [r.randint(0, 255) for _ in range(plen)]
                    hexp = ''.join('%02x' % b for b in payload) or '-'
                    frames.append(self.fsk_frame(variable, 0x22 if with_addr else None, payload))
                    if with_addr:
                        calls.append('fsk_ook_tx_set_for_transmission_with_address %s 0x22' % hexp)
                    else:
                        calls.append('fsk_ook_tx_set_for_transmission %s' % hexp)
                if r.random() < 0.08:
                    # outside C04's hypotheses, for the correspondence only: the chip reports PacketSent while frame bytes
                    # are still outstanding (its PayloadLength is shorter than the queued frame); no expectation attached
                    self.emit('write_register 0x3f 0x10')
                    self.emit('set_opmod 3 %d' % mod)
                    self.emit('oncb tx set_opmod 1 %d' % mod)
                    self.emit('fsk_ook_tx_set_for_transmission %s' % self.api.bytes_hex(r.randint(100, 200 if variable else min(200, maxlen_fixed))))
                    for _ in range(r.choice([35, 40, 64])):
                        self.emit('env txshift')
                    self.emit('env txsent')
                    self.emit('irq')
                    self.emit('env chip f 0x3f 0')
                    self.emit('set_opmod 1 %d' % mod)
                    self.emit('write_register 0x3f 0x10')
                    self.emit('dump')
                pre = r.random()
                if pre < 0.2:
                    # a transmission abandoned in the middle of a long frame comes first
                    self.emit('write_register 0x3f 0x10')
                    self.emit('fsk_ook_tx_set_for_transmission %s' % self.api.bytes_hex(r.randint(70, 200 if variable else min(200, maxlen_fixed))))
                    self.emit('set_opmod 3 %d' % mod)
                    if r.random() < 0.5:
                        for _ in range(40):
                            self.emit('env txshift')
                        self.emit('irq')
                    self.emit('set_opmod 1 %d' % mod)
                elif pre < 0.35 and variable:
                    # half duplex: a long reception is in progress (one batch already read) when the application turns to transmit
                    self.emit('write_register 0x3f 0x10')
                    self.emit('set_opmod 5 %d' % mod)
                    self.emit('env rxbyte 120')
                    for _ in range(39):
                        self.emit('env rxbyte %d' % r.randint(0, 255))
                    self.emit('irq')
                    self.emit('set_opmod 1 %d' % mod)
                if behaviour == 'leave' and r.random() < 0.3:
                    # the frame is queued in standby and transmit mode is entered afterwards - as FSK or as OOK,
                    # both run the same packet engine
                    mod2 = r.choice([FSK, OOK])
                    self.emit('set_opmod 1 %d' % mod)
                    self.emit('write_register 0x3f 0x10')
                    self.emit('oncb tx set_opmod 1 %d' % mod2)
                    self.emit('#= fsktx_begin')
                    self.emit(calls[0])
                    self.emit('set_opmod 3 %d' % mod2)
                    self.tx_schedule(len(frames[0]))
                    self.emit('env chip f 0x3f 0')
                    self.emit('#= fsktx_end 1 %s' % (''.join('%02x' % b for b in frames[0]) or '-'))
                    self.emit('dump')
                    mod = mod2
                    continue
                self.emit('write_register 0x3f 0x10')  # flush
                self.emit('set_opmod 3 %d' % mod)
                if behaviour == 'leave':
                    self.emit('oncb tx set_opmod 1 %d' % mod)
                elif behaviour == 'stay':
                    self.emit('oncb tx -')
                else:
                    self.emit('oncb tx ' + calls[1])
                self.emit('#= fsktx_begin')
                self.emit(calls[0])
                self.tx_schedule(len(frames[0]))
                self.emit('env chip f 0x3f 0')   # PacketSent is cleared when the chip leaves / restarts TX
                if behaviour == 'chain':
                    self.emit('oncb tx set_opmod 1 %d' % mod)
                    self.tx_schedule(len(frames[1]))
                    self.emit('env chip f 0x3f 0')
                self.emit('#= fsktx_end %d %s' % (0 if behaviour == 'stay' else 1,
                          ' '.join((''.join('%02x' % b for b in f) or '-') for f in frames)))
                self.emit('dump')
                if behaviour == 'stay':
                    self.emit('set_opmod 1 %d' % mod)

    def tx_schedule(self, total, faulty=False):
        """consumption by the modulator and handler invocations until the frame of `total`
        bytes (already queued: the first min(64,total) bytes are in the FIFO) has left the chip;
        a reference model of the refill keeps the schedule admissible"""
        r = self.rnd
        occ = min(total, 64)
        written = occ
        while True:
            maxtake = occ - 1 if written < total else occ
            take = max(0, min(maxtake, r.choice([0, 1, 5, 20, 31, 32, 33, 40, 63, r.randint(0, 64)])))
            for _ in range(take):
                self.emit('env txshift')
            occ -= take
            done = written >= total and occ == 0
            if done:
                if r.random() < 0.5:
                    self.emit('env txsent')
                self.emit('irq')
                return
            k = 0
            inh = ''
            room = occ - 1 if written < total else occ
            if room > 0 and r.random() < 0.4:
                k = r.randint(1, min(2, room))
                for ix in sorted(r.randint(1, 4) for _ in range(k)):
                    inh += ' @%d txshift' % ix
            if faulty and r.random() < 0.4:
                # an invocation in which a transfer fails hands nothing over
                self.emit('irq !%d=%d' % (r.randint(0, 2), r.choice([1, 0x101])))
            self.emit('irq' + inh)
            if occ <= 31 and written < total:
                w = min(30, total - written)
                occ += w
                written += w
            occ -= k
            if r.random() < 0.1 and not (written >= total and occ == 0):
                self.emit('irq')
                if occ <= 31 and written < total:
                    w = min(30, total - written)
                    occ += w
                    written += w

    def fsk_fault(self, n):
        """C11, FSK/OOK packet paths: one or two failing transfers inside handler invocations of a
        reception or a transmission (and in the call that queues a packet), followed by fault-free
        traffic.  A failing transfer does not reach the chip.  The schedule keeps an upper bound of
        the FIFO occupancy so that it stays admissible whatever the failed invocation consumed."""
        r = self.rnd
        codes = [1, 0x101, 0x107]
        def fault(maxidx=7):
            t = ' !%d=%d' % (r.randint(0, maxidx), r.choice(codes))
            if r.random() < 0.3:
                t += ' !%d=%d' % (r.randint(0, maxidx), r.choice(codes))
            return t
        for _ in range(n):
            mod = r.choice([FSK, OOK])
            self.begin('fskfault', 'mod=%x' % mod)
            self.prologue(mod, rand_chip=r.random() < 0.5)
            variable = r.random() < 0.6
            crc = r.choice([0x08, 0x18])
            filt = r.choice([0, 0, 2, 4])
            self.emit('fsk_ook_set_crc %d' % crc)
            self.emit('fsk_ook_set_address_filtering %d 17 255' % filt)
            fixed_len = r.choice([2, 20, 40, 64, 65, 100, 180])
            if variable:
                self.emit('fsk_ook_set_packet_format 0x80 255')
            else:
                self.emit('fsk_ook_set_packet_format 0 %d' % fixed_len)
            if r.random() < 0.5:
                # a reconfiguration that fails (every transfer of the call): the chip keeps its CRC
                # setting, and so must the handle - the packets below are judged by the old setting
                c = r.choice(codes)
                self.emit('fsk_ook_set_crc %d !0=%d !1=%d' % (0x18 if crc == 0x08 else 0x08, c, c))
            if r.random() < 0.7:
                # reception: faulted packet, then fault-free packets
                self.emit('set_opmod 5 %d' % mod)
                for pk in range(r.randint(2, 4)):
                    faulty = pk % 2 == 0
                    plen = r.choice([1, 5, 28, 29, 30, 31, 40, 61, 62, 63, 64, 90, 150, r.randint(1, 200)]) if variable else fixed_len - (1 if filt else 0)
                    payload = [r.randint(0, 255) for _ in range(plen)]
                    frame = self.fsk_frame(variable, 17 if filt else None, payload)
                    nfr = len(frame)
                    pos, occ, rem = 0, 0, plen
                    while pos < nfr:
                        burst = max(1, min(nfr - pos, 45 - occ))
                        for i in range(burst):
                            self.emit('env rxbyte %d' % frame[pos + i])
                        pos += burst
                        occ += burst
                        if pos >= nfr:
                            break
                        if faulty and r.random() < 0.6:
                            self.emit('irq' + fault())
                        self.emit('irq')
                        if rem > 29:
                            occ -= 29
                            rem -= 29
                        else:
                            occ, rem = 0, 0
                    self.emit('env rxend 1')
                    if faulty and r.random() < 0.8:
                        self.emit('irq' + fault())
                    self.emit('irq')
                    self.emit('irq')
                    self.emit('#= %s %s' % ('fskfault' if faulty else 'fskrx 1', ''.join('%02x' % b for b in payload) or '-'))
            else:
                self.emit('set_opmod 1 %d' % mod)
                for pk in range(2):
                    mx = 255 if variable else 2047
                    plen = r.choice([1, 30, 63, 64, 65, 100, 200, r.randint(1, mx)])
                    payload = [r.randint(0, 255) for _ in range(plen)]
                    hexp = ''.join('%02x' % b for b in payload)
                    frame = self.fsk_frame(variable, None, payload)
                    self.emit('write_register 0x3f 0x10')
                    self.emit('set_opmod 3 %d' % mod)
                    self.emit('oncb tx set_opmod 1 %d' % mod)
                    self.emit('#= fsktx_begin')
                    if pk == 0:
                        self.emit('fsk_ook_tx_set_for_transmission %s !0=%d' % (hexp, r.choice(codes)))
                        self.emit('#= failed')
                    self.emit('fsk_ook_tx_set_for_transmission %s' % hexp)
                    self.tx_schedule(len(frame), faulty=(pk == 0))
                    self.emit('env chip f 0x3f 0')
                    self.emit('#= fsktx_end 1 %s' % ''.join('%02x' % b for b in frame))

    def dumps(self, n):
        """C20: configurations reachable through the API in LoRa and FSK/OOK mode (and random
        register files), then the simulator's view and sx127x_dump_registers"""
        import json as _json
        r = self.rnd
        for _ in range(n):
            mod = r.choice([LORA, FSK, FSK, OOK])
            self.begin('dumpcfg', 'mod=%x' % mod)
            self.prologue(mod, rand_chip=r.random() < 0.5)
            cfg = {'mod': mod}
            f = r.choice([137000000, 433920000, 868100000, 1020000000, r.randint(137000000, 1020000000)])
            self.emit('set_frequency %d' % f)
            cfg['freq'] = f
            if mod == LORA:
                bw = r.choice(self.api.enum_values('sx127x_bw_t'))
                sf = r.choice(self.api.enum_values('sx127x_sf_t'))
                cr = r.choice(self.api.enum_values('sx127x_cr_t'))
                implicit = sf == 0x60 or r.random() < 0.3
                if implicit:
                    ln = r.randint(1, 255)
                    self.emit('lora_set_implicit_header %d %d %d' % (ln, r.randint(0, 1), cr))
                    cfg['plen'] = ln
                else:
                    self.emit('lora_set_implicit_header NULL')
                    self.emit('lora_tx_set_explicit_header %d %d' % (r.randint(0, 1), cr))
                self.emit('lora_set_bandwidth %d' % bw)
                self.emit('lora_set_modem_config_2 %d' % sf)
                sw = r.randint(0, 255)
                self.emit('lora_set_syncword %d' % sw)
                pre = r.choice([6, 8, 12, 65535, r.randint(6, 65535)])
                self.emit('set_preamble_length %d' % pre)
                cfg.update({'bw': bw, 'sf': sf, 'cr': cr, 'implicit': int(implicit), 'syncword': sw, 'preamble': pre})
            else:
                lo, hi = (1200.0, 300000.0) if mod == FSK else (1200.0, 25000.0)
                br = r.choice([1200.0, 4800.0, 9600.0, hi, self.pick_valid_float(lo, hi)])
                self.emit('fsk_ook_set_bitrate %d' % f32bits(br))
                cfg['bitrate'] = br
                if mod == FSK:
                    fd = r.choice([600.0, 5000.0, 200000.0, self.pick_valid_float(600.0, 200000.0)])
                    self.emit('fsk_set_fdev %d' % f32bits(fd))
                    cfg['fdev'] = fd
                rxbw = r.choice([2600.0, 5000.0, 20000.0, 250000.0, self.pick_valid_float(2600.0, 250000.0)])
                self.emit('fsk_ook_rx_set_bandwidth %d' % f32bits(rxbw))
                self.emit('fsk_ook_rx_set_afc_bandwidth %d' % f32bits(r.choice([2600.0, 15625.0, 50000.0, 250000.0, self.pick_valid_float(2600.0, 250000.0)])))
                fmt = r.choice([0x00, 0x80])
                ln = r.choice([1, 255, 256, 1024, 1500, 2047, r.randint(1, 2047)]) if fmt == 0 else r.choice([255, 2047, r.randint(1, 255)])
                self.emit('fsk_ook_set_packet_format %d %d' % (fmt, ln))
                crc = r.choice(self.api.enum_values('sx127x_crc_type_t'))
                self.emit('fsk_ook_set_crc %d' % crc)
                filt = r.choice(self.api.enum_values('sx127x_address_filtering_t'))
                self.emit('fsk_ook_set_address_filtering %d %d %d' % (filt, r.randint(0, 255), r.randint(0, 255)))
                enc = r.choice(self.api.enum_values('sx127x_packet_encoding_t'))
                self.emit('fsk_ook_set_packet_encoding %d' % enc)
                pre = r.choice([0, 4, 65535, r.randint(0, 65535)])
                self.emit('set_preamble_length %d' % pre)
                cfg.update({'fmt': fmt, 'plen': ln, 'crc': crc, 'filt': filt, 'enc': enc, 'preamble': pre})
            opm = r.choice([0, 1, 3, 5])
            self.emit('set_opmod %d %d' % (opm, mod))
            cfg['opmod'] = opm
            self.emit('dump')
            self.emit('dump_registers')
            self.emit('#= dumpregs %s' % _json.dumps(cfg, separators=(',', ':')))
            # and with a few API calls having gone through the cache before
            self.emit('get_frequency')
            self.emit('read_register %d' % r.choice([0x1d, 0x30, 0x31, 0x09]))
            self.emit('dump')
            self.emit('dump_registers')
            self.emit('#= dumpregs {}')

    def floats(self, n):
        """C12: numeric setters / getters on step boundaries and random values"""
        r = self.rnd
        self.begin('float', 'freq')
        self.emit('create')
        for _ in range(n):
            f = r.choice([137000000, 1020000000, r.randint(137000000, 1020000000), r.randint(137000000, 1020000000)])
            self.emit('set_frequency %d' % f)
            self.emit('#= freq %d' % f)
            self.emit('get_frequency')
        for _ in range(n):
            raw = r.randint(0, 2**24 - 1)
            self.emit('create')
            self.emit('env chip s 6 %d' % (raw >> 16))
            self.emit('env chip s 7 %d' % ((raw >> 8) & 255))
            self.emit('env chip s 8 %d' % (raw & 255))
            self.emit('get_frequency')
            self.emit('#= rawfreq %d' % raw)
        for mod, lo, hi in ((FSK, 1200.0, 300000.0), (OOK, 1200.0, 25000.0)):
            self.begin('float', 'bitrate mod=%x' % mod)
            self.emit('create')
            self.emit('set_opmod 1 %d' % mod)
            # rates whose divider has a fractional part followed by rates whose divider is whole:
            # the fraction register must follow every call
            fixed = [9600.0, 50000.0, 4800.0, 100000.0, 1200.0, 250000.0, 38400.0, 200000.0] if mod == FSK else [4800.0, 25000.0, 1200.0, 20000.0]
            for k in range(n + len(fixed)):
                x = fixed[k] if k < len(fixed) else self.pick_float(lo, hi)
                self.emit('fsk_ook_set_bitrate %d' % f32bits(x))
                self.emit('dump')
                self.emit('#= bitrate %d %d' % (mod, f32bits(x)))
        self.begin('float', 'fdev')
        self.emit('create')
        self.emit('set_opmod 1 0')
        for _ in range(n):
            x = self.pick_float(600.0, 200000.0)
            self.emit('fsk_set_fdev %d' % f32bits(x))
            self.emit('#= fdev %d' % f32bits(x))
        self.begin('float', 'bw')
        self.emit('create')
        self.emit('set_opmod 1 0')
        # the 21 points the chip offers, the decision boundaries between neighbours (where a search
        # in other arithmetic than the driver's picks the other side) and a uniform sample
        pts = sorted(32000000.0 / ((16 + 4 * m) * 2 ** (e + 2)) for e in range(1, 8) for m in range(3))
        near = list(pts)
        for a, b in zip(pts, pts[1:]):
            mid = (a + b) / 2
            near += [mid - 2.0, mid - 0.7, mid - 0.3, mid + 0.3, mid + 0.7, mid + 2.0, bits_f32(f32bits(mid) - 1), bits_f32(f32bits(mid) + 1)]
        near = [x for x in near if 2600.0 <= x <= 250000.0]
        for k in range(n + len(near)):
            x = near[k] if k < len(near) else self.pick_float(2600.0, 250000.0)
            self.emit('%s %d' % (r.choice(['fsk_ook_rx_set_bandwidth', 'fsk_ook_rx_set_afc_bandwidth']), f32bits(x)))
            self.emit('#= bw %d' % f32bits(x))
        self.begin('float', 'decode')
        self.emit('create')
        self.emit('set_opmod 1 0x80')
        for _ in range(n):
            self.emit('env chip l 0x1a %d' % r.randint(0, 255))
            self.emit('env chip l 0x19 %d' % r.randint(0, 255))
            f = r.choice([433000000, 868000000, 524999990, 525000010])
            self.emit('set_frequency %d' % f)
            self.emit('rx_get_packet_rssi')
            self.emit('lora_rx_get_packet_snr')
            fe = r.choice([0, 1, 0x7ffff, 0x80000, 0xfffff, r.randint(0, 0xfffff)])
            self.emit('env chip l 0x28 %d' % (fe >> 16))
            self.emit('env chip l 0x29 %d' % ((fe >> 8) & 255))
            self.emit('env chip l 0x2a %d' % (fe & 255))
            self.emit('lora_set_bandwidth %d' % r.choice(self.api.enum_values('sx127x_bw_t')))
            self.emit('rx_get_frequency_error')
            self.emit('lora_get_bandwidth')
        # a new session on a chip that kept its carrier frequency (deep-sleep wake-up): the handle is fresh,
        # the band that selects the RSSI offset is whatever the chip holds
        for f in [868000000, 433000000, 915000000, 525000010, 169000000] * max(1, n // 20):
            self.emit('set_frequency %d' % f)
            self.emit('create')
            self.emit('env chip l 0x1a %d' % r.randint(0, 255))
            self.emit('env chip l 0x19 %d' % r.randint(0, 255))
            self.emit('dump')
            self.emit('rx_get_packet_rssi')
        self.emit('set_opmod 1 0')
        for _ in range(n):
            self.emit('env chip f 0x1b %d' % r.randint(0, 255))
            self.emit('env chip f 0x1c %d' % r.randint(0, 255))
            self.emit('rx_get_frequency_error')
            self.emit('env chip f 0x3c %d' % r.randint(0, 255))
            self.emit('fsk_ook_get_raw_temperature')
            self.emit('set_opmod 5 0')
            self.emit('env chip f 0x11 %d' % r.randint(0, 255))
            self.emit('env flag1 2')
            self.emit('irq')
            self.emit('rx_get_packet_rssi')
            self.emit('set_opmod 1 0')

    def pick_valid_float(self, lo, hi):
        """a binary32 value inside the documented range (the configuration must be accepted)"""
        while True:
            x = bits_f32(f32bits(self.pick_float(lo, hi)))
            if lo <= x <= hi:
                return x

    def pick_float(self, lo, hi):
        r = self.rnd
        c = r.random()
        if c < 0.6:
            return bits_f32(r.randint(f32bits(lo), f32bits(hi)))
        if c < 0.8:
            return float(r.randint(int(lo), int(hi)))
        if c < 0.9:
            return r.choice([lo, hi, bits_f32(f32bits(lo) - 1), bits_f32(f32bits(hi) + 1), lo - 0.5, hi + 0.5])
        return r.uniform(lo, hi)

    def beacon(self, intervals):
        r = self.rnd
        chunk = 400
        for i in range(0, len(intervals), chunk):
            self.begin('beacon', 'from=%d' % intervals[i])
            self.emit('create')
            self.emit('set_opmod 1 0')
            self.emit('fsk_ook_set_packet_format 0 %d' % 16)
            for iv in intervals[i:i + chunk]:
                n_b = r.choice([1, 16, 64, r.randint(1, 64)])
                self.emit('fsk_ook_tx_start_beacon %s %d' % (self.api.bytes_hex(n_b), iv))
                self.emit('#= beacon %d' % iv)
                if r.random() < 0.1:
                    self.emit('dump')
                    self.emit('fsk_ook_tx_stop_beacon')
                    self.emit('dump')

    def beacon_stale(self, n):
        """C14, payload clause: the beacon is started while the handle still holds the progress of an
        abandoned frame (or is in receive mode), and the handler runs before the first beacon is out"""
        r = self.rnd
        for _ in range(n):
            mod = r.choice([FSK, OOK])
            self.begin('beaconstale', 'mod=%x' % mod)
            self.prologue(mod, rand_chip=r.random() < 0.5)
            self.emit('fsk_ook_set_packet_format 0 %d' % r.choice([200, 255, 100]))
            kind = r.choice(['tx', 'rx', 'clean'])
            if kind == 'tx':
                self.emit('write_register 0x3f 0x10')
                self.emit('fsk_ook_tx_set_for_transmission %s' % self.api.bytes_hex(100))
                self.emit('set_opmod 3 %d' % mod)
            elif kind == 'rx':
                self.emit('set_opmod 5 %d' % mod)
            n_b = r.choice([1, 8, 31, 32, 40, 64, r.randint(1, 64)])
            data = self.api.bytes_hex(n_b)
            self.emit('fsk_ook_set_packet_format 0 %d' % n_b)
            self.emit('fsk_ook_tx_start_beacon %s %d' % (data, r.choice([15, 1000, 5000, 70000])))
            self.emit('dump')
            self.emit('#= beaconfifo %s' % data)
            # FIFO-level interrupts that were pending or fire now
            for _ in range(r.randint(1, 2)):
                self.emit('irq')
            self.emit('dump')
            self.emit('#= beaconfifo %s' % data)
            self.emit('fsk_ook_tx_stop_beacon')
            self.emit('dump')
            self.emit('#= beaconfifo -')

    def setter_seqs(self, n):
        """C09 on a warm cache: sequences of configuration calls within one modem (no RegOpMode write
        in between, so whatever an earlier call left in the cache is what a later one builds on); the
        register file is dumped after every call"""
        r = self.rnd
        skip = {'set_opmod', 'create', 'handle_interrupt', 'irq', 'fsk_ook_tx_start_beacon', 'fsk_ook_tx_stop_beacon',
                'fsk_ook_rx_calibrate', 'lora_tx_set_for_transmission', 'fsk_ook_tx_set_for_transmission',
                'fsk_ook_tx_set_for_transmission_with_address', 'write_register', 'read_register', 'dump_registers'}
        for _ in range(n):
            mod = r.choice(MODS)
            self.begin('setseq', 'mod=%x' % mod)
            self.prologue(mod, rand_chip=r.random() < 0.7)
            if mod == LORA:
                self.emit('lora_set_implicit_header 8 1 2')
            names = [x for x in self.api.names_for(mod) if x not in skip and 'callback' not in x and 'get_' not in x]
            group = r.sample(names, min(len(names), r.randint(2, 5)))
            for _ in range(r.randint(4, 14)):
                self.emit(self.api.call(r.choice(group), valid_bias=1.0))
                self.emit('dump')

    def setter_pairs(self):
        """C09 on a warm cache, systematically: for every ordered pair (f, g) of configuration functions of
        a modem the sequence g, f, g' - what f leaves in the cache is what g' builds on"""
        r = self.rnd
        skip = {'set_opmod', 'create', 'handle_interrupt', 'irq', 'fsk_ook_tx_start_beacon', 'fsk_ook_tx_stop_beacon',
                'fsk_ook_rx_calibrate', 'lora_tx_set_for_transmission', 'fsk_ook_tx_set_for_transmission',
                'fsk_ook_tx_set_for_transmission_with_address', 'write_register', 'read_register', 'dump_registers'}
        for mod in MODS:
            names = sorted(x for x in self.api.names_for(mod) if x not in skip and 'callback' not in x and 'get_' not in x)
            for f in names:
                self.begin('setpair', '%s mod=%x' % (f, mod))
                for g in names:
                    self.emit('env chiprand %d' % r.randint(1, 2**31))
                    self.emit('create')
                    self.emit('set_opmod 1 %d' % mod)
                    if mod == LORA:
                        self.emit('lora_set_implicit_header 8 1 2')
                    self.emit(self.api.call(g, valid_bias=1.0))
                    self.emit(self.api.call(f, valid_bias=1.0))
                    self.emit('dump')
                    self.emit(self.api.call(g, valid_bias=1.0))
                    self.emit('dump')

    def faults(self, n):
        """C11: a failure at each transfer index of each call, then fault-free traffic"""
        r = self.rnd
        names = sorted(self.api.table)
        for _ in range(n):
            mod = r.choice(MODS)
            self.begin('fault', 'mod=%x' % mod)
            self.prologue(mod, rand_chip=r.random() < 0.5)
            for _ in range(12):
                nm = r.choice(self.api.names_for(mod) + ['set_opmod'])
                line = self.api.call(nm, 0.97) if nm != 'set_opmod' else 'set_opmod %d %d' % (r.randint(0, 7), mod)
                for k in range(r.choice([1, 2, 6])):
                    self.emit(line + ' !%d=%d' % (k if r.random() < 0.8 else r.randint(0, 8), r.choice([1, 0x101, 0x107, 0x102])))
                self.emit(line)
            if mod == LORA:
                # a mode change whose DIO-mapping or RegOpMode transfer fails, then the mode the handle is still in
                for _ in range(2):
                    a, b = r.sample([5, 3, 7, 6], 2)
                    self.emit('set_opmod %d 0x80' % a)
                    self.emit('set_opmod %d 0x80 !%d=%d' % (b, r.choice([0, 1, 1, 2]), r.choice([1, 0x101])))
                    self.emit('set_opmod %d 0x80' % a)
                    self.emit('dump')
            # packet paths
            if mod == LORA:
                self.emit('lora_set_implicit_header NULL')
                self.emit('env chip l 0x24 0')
                self.emit('set_opmod 5 0x80')
                for _ in range(3):
                    la = r.randint(1, 60)
                    data = self.api.bytes_hex(la)
                    sa = r.randint(0, 255)
                    self.emit('env lorarx %d 0 %s' % (sa, data))
                    self.emit('irq !%d=%d' % (r.choice([0, 1, 2, 3, 4, 5, 5, 5]), r.choice([1, 0x101])))
                    self.emit('#= faulted')
                    self.emit('irq')
                    data = self.api.bytes_hex(r.randint(1, 60))
                    # the next packet often lies right behind the one whose read failed (continuous reception)
                    self.emit('env lorarx %d 0 %s' % ((sa + la) % 256 if r.random() < 0.6 else r.randint(0, 255), data))
                    self.emit('irq')
                    self.emit('#= lorarx 0 %s' % data)
                    # a reconfiguration whose first transfer fails reached neither the chip nor
                    # (C11: no stale state) the packet paths: the next packet is delivered whole
                    k = r.randint(1, 40)
                    c = r.choice([1, 0x101, 0x107])
                    self.emit('lora_set_implicit_header %d %d %d !0=%d' % (k, r.randint(1, 4), r.randint(0, 1), c))
                    data = self.api.bytes_hex(r.choice([n for n in range(1, 61) if n != k]))
                    self.emit('env lorarx %d 0 %s' % (r.randint(0, 255), data))
                    self.emit('irq')
                    self.emit('#= lorarx 0 %s' % data)
            self.emit('dump')

    def modem_switch_fault(self, n):
        """C11, cache clause: registers of one modem's page are cached, the RegOpMode write of the switch
        to the other modem fails once (or an earlier transfer of set_opmod does), the application retries,
        then configures the other modem with read-modify-write setters"""
        r = self.rnd
        WARM = {LORA: ['lora_set_ppm_offset 4000', 'lora_set_modem_config_2 0x90', 'rx_set_lna_gain 0x20', 'lora_set_bandwidth 0x70',
                       'lora_set_syncword 18', 'set_preamble_length 8', 'lora_set_low_datarate_optimization 1'],
                FSK: ['set_preamble_length 300', 'fsk_ook_set_syncword 12ad', 'fsk_ook_set_packet_format 0x80 255', 'fsk_ook_set_preamble_type 1',
                      'fsk_ook_set_crc 24', 'rx_set_lna_gain 0x20', 'fsk_ook_rx_set_afc_auto 1', 'fsk_ook_set_address_filtering 2 17 255']}
        WARM[OOK] = WARM[FSK]
        for _ in range(n):
            a = r.choice(MODS)
            b = r.choice([m for m in MODS if (m == LORA) != (a == LORA)])
            self.begin('switchfault', '%x->%x' % (a, b))
            self.prologue(a, rand_chip=r.random() < 0.7)
            if a == LORA:
                self.emit('set_frequency 868100000')
                self.emit('lora_set_implicit_header 8 1 2')
            for l in r.sample(WARM[a], r.randint(2, 5)):
                self.emit(l)
            self.emit('set_opmod 0 %d' % a)
            c = r.choice([1, 0x101, 0x107])
            target = r.choice([0, 0, 1, 5])
            for _ in range(r.randint(1, 2)):
                self.emit('set_opmod %d %d !%d=%d' % (target, b, r.choice([0, 0, 1, 2]), c))
            self.emit('set_opmod 0 %d' % b)
            self.emit('set_opmod 1 %d' % b)
            if b == LORA:
                self.emit('lora_set_implicit_header 8 1 2')
            for l in r.sample(WARM[b], r.randint(2, 5)):
                self.emit(l)
                self.emit('dump')

    def two_byte(self):
        """helper-level enumeration of the cache paths: every register address x single and
        multi-byte access x cold / warm, through the public low-level API and the drivers'
        multi-byte users"""
        r = self.rnd
        self.begin('cachepaths')
        self.emit('env chiprand %d' % r.randint(1, 2**31))
        self.emit('create')
        for mod in MODS:
            self.emit('set_opmod 1 %d' % mod)
            for a in range(1, 0x71):
                self.emit('read_register %d' % a)
                self.emit('read_register %d' % a)
                if a != 1:
                    self.emit('write_register %d %d' % (a, r.randint(0, 255)))
                    self.emit('read_register %d' % a)
            self.emit('get_frequency')
            self.emit('create')
            self.emit('set_opmod 1 %d' % mod)
            self.emit('get_frequency')
            self.emit('get_frequency')
            self.emit('read_register 7')
            self.emit('write_register 7 %d' % r.randint(0, 255))
            self.emit('get_frequency')
            self.emit('rx_get_frequency_error')
        self.emit('dump')


if __name__ == '__main__':
    import sys
    s = Scripts(int(os.environ.get('VERIF_SEED', '1')))
    fam = sys.argv[1] if len(sys.argv) > 1 else 'hist'
    if fam == 'hist':
        s.hist(int(sys.argv[2]) if len(sys.argv) > 2 else 20)
    elif fam == 'all':
        s.hist(20); s.two_byte(); s.lora_rx(5); s.lora_tx(5); s.hop(5); s.fsk_rx(10); s.fsk_tx(10); s.floats(20)
        s.attach(); s.faults(5); s.beacon(list(range(1, 50))); s.ldro([(0, 0, 0)]); s.opmod([0, 0xff])
        s.exh_setters([0, 0xff])
    sys.stdout.write(s.text())
