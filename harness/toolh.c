// Correspondence driver for debug_registers/main.c (C20): the tool is compiled into this file with
// its main() renamed; the argument parser is called directly on strings given in hex, and main()
// itself is run on the same strings with stdout discarded (ASan/UBSan watch both).
//   parse <hex of the argument bytes>   ->  parse rc=<rc> n=<count> bytes=<hex>
//   tool <hex of the argument bytes>    ->  tool rc=<exit code>
#include <stdio.h>
#include <stdlib.h>
#include <string.h>
#include <stdint.h>
#include <unistd.h>
#include <fcntl.h>

int tool_main(int argc, char **argv);
int at_util_string2hex(const char *str, uint8_t **output, size_t *output_length);

static char *unhex(const char *h) {
  size_t n = strlen(h) / 2;
  char *s = malloc(n + 1);   // exactly the string and its terminator: ASan sees any read beyond
  for (size_t i = 0; i < n; i++) {
    unsigned v;
    sscanf(h + 2 * i, "%2x", &v);
    s[i] = (char) v;
  }
  s[n] = 0;
  return s;
}

int main(void) {
  static char line[1 << 16];
  int devnull = open("/dev/null", O_WRONLY);
  while (fgets(line, sizeof line, stdin)) {
    size_t l = strlen(line);
    while (l && (line[l - 1] == '\n' || line[l - 1] == '\r')) line[--l] = 0;
    if (line[0] == '#' || l == 0) {
      if (l) puts(line);
      continue;
    }
    char *sp = strchr(line, ' ');
    const char *arg = sp ? sp + 1 : "";
    if (sp) *sp = 0;
    if (!strcmp(arg, "-")) arg = "";
    char *s = unhex(arg);
    if (!strcmp(line, "parse")) {
      uint8_t *out = NULL;
      size_t n = 0;
      int rc = at_util_string2hex(s, &out, &n);
      if (rc != 0) {
        printf("parse rc=-1\n");
      } else {
        printf("parse rc=0 n=%zu bytes=", n);
        for (size_t i = 0; i < n; i++) printf("%02x", out[i]);
        printf("\n");
        free(out);
      }
    } else if (!strcmp(line, "tool")) {
      fflush(stdout);
      int saved = dup(1);
      dup2(devnull, 1);
      char *argv[] = {(char *) "debug_registers", s, NULL};
      int rc = tool_main(2, argv);
      fflush(stdout);
      dup2(saved, 1);
      close(saved);
      printf("tool rc=%d\n", rc);
    } else {
      printf("!unknown op %s\n", line);
    }
    fflush(stdout);
    free(s);
  }
  return 0;
}
