/* Compiled into src/sx127x.c by the harness build only (gcc -include): every memcpy of the driver
   is checked against the size of the sub-object it writes to / reads from.  AddressSanitizer does
   not see an overflow that stays inside `struct sx127x_t` (e.g. from `packet` into the fields
   behind it); this does. */
#ifndef VERIF_MEMCHECK_H
#define VERIF_MEMCHECK_H
#include <string.h>
#include <stdio.h>
#include <stdlib.h>
static inline void *verif_memcpy(void *d, const void *s, size_t n, size_t dsz, size_t ssz, const char *file, int line) {
  if ((dsz != (size_t) -1 && n > dsz) || (ssz != (size_t) -1 && n > ssz)) {
    fflush(stdout);
    fprintf(stderr, "%s:%d:1: runtime error: memcpy of %zu bytes, destination sub-object has %zu, source sub-object has %zu\n", file, line, n,
            dsz, ssz);
    abort();
  }
  return (memcpy)(d, s, n);
}
#define memcpy(d, s, n) verif_memcpy((d), (s), (n), __builtin_dynamic_object_size((d), 1), __builtin_dynamic_object_size((s), 1), __FILE__, __LINE__)
#endif
