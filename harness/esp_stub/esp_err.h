#ifndef SX_STUB_ESP_ERR_H
#define SX_STUB_ESP_ERR_H
typedef int esp_err_t;
#define ESP_OK 0
#define ESP_FAIL -1
#define ESP_ERR_INVALID_ARG 0x102
#endif
