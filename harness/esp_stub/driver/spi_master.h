// Minimal stand-in for ESP-IDF's driver/spi_master.h: the fields of spi_transaction_t that
// sx127x_esp_spi.c uses, laid out like the real one (tx_data / rx_data share storage with the
// buffer pointers).  spi_device_polling_transmit is provided by the backend test.
#ifndef SX_STUB_SPI_MASTER_H
#define SX_STUB_SPI_MASTER_H
#include <stddef.h>
#include <stdint.h>
#include "esp_err.h"
#define SPI_TRANS_USE_RXDATA (1 << 2)
#define SPI_TRANS_USE_TXDATA (1 << 3)
typedef struct spi_transaction_t {
  uint32_t flags;
  uint16_t cmd;
  uint64_t addr;
  size_t length;
  size_t rxlength;
  void *user;
  union {
    const void *tx_buffer;
    uint8_t tx_data[4];
  };
  union {
    void *rx_buffer;
    uint8_t rx_data[4];
  };
} spi_transaction_t;
typedef void *spi_device_handle_t;
esp_err_t spi_device_polling_transmit(spi_device_handle_t handle, spi_transaction_t *trans_desc);
/* part of the real API; the bundled backend does not use them, a changed one might */
#ifndef portMAX_DELAY
#define portMAX_DELAY 0xffffffffUL
#endif
#include "freertos/FreeRTOS.h"
esp_err_t spi_device_acquire_bus(spi_device_handle_t device, TickType_t wait);
void spi_device_release_bus(spi_device_handle_t dev);
esp_err_t spi_device_transmit(spi_device_handle_t handle, spi_transaction_t *trans_desc);
#endif
