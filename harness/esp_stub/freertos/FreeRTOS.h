// stand-in for freertos/FreeRTOS.h (a changed backend may include it)
#ifndef SX_STUB_FREERTOS_H
#define SX_STUB_FREERTOS_H
#ifndef portMAX_DELAY
#define portMAX_DELAY 0xffffffffUL
#endif
typedef unsigned long TickType_t;
#endif
