import Sx.Api
/-
  The operation-level state machine: a chip, at most one device handle with its register cache,
  and the application's reactions inside callbacks.  `Sys.step` is what `sxmodel` executes per
  script line and what the property theorems quantify over (`Sys.run` over any list of `Op`).
-/
namespace Sx

/-- build configuration and application behaviour -/
structure SysCfg where
  cached : Bool := true                 -- CONFIG_SX127X_DISABLE_SPI_CACHE off
  cap : Nat := Gen.CONFIG_SX127X_MAX_PACKET_SIZE
  fuel : Nat := execFuel
  onRx : Option Api := none             -- API call made by the application inside the callback
  onTx : Option Api := none
  onCad : Option Api := none

def SysCfg.reaction (c : SysCfg) : Option Api → Option Reaction
  | none => none
  | some api => if api.isIrq then none else some { run := fun h => Api.prog c.cap c.fuel api h }

def SysCfg.toCfg (c : SysCfg) : Cfg :=
  { cached := c.cached, onRx := c.reaction c.onRx, onTx := c.reaction c.onTx, onCad := c.reaction c.onCad }

structure Sys where
  world : World := { chip := Chip.init }
  handle : Option Handle := none
  deriving Inhabited

/-- one step of a history -/
inductive Op
  /-- an API call (or `irq`: one handler invocation), with environment events scheduled before
      given bus transfers of the call and transfers that fail -/
  | api (a : Api) (sched : List (Nat × Env)) (faults : List (Nat × Code))
  /-- the chip does something on its own between two calls -/
  | env (e : Env)
  deriving Inhabited

/-- what an operation lets the application observe -/
inductive Obs
  | skipped                                   -- API call without a handle
  | env
  | ub (u : UB)
  | ret (r : Except Code Out) (cbs : List CbRec) (bus : List BusEv)
  deriving Inhabited

def Api.isCreate : Api → Bool
  | .create => true
  | _ => false

def Sys.step (c : SysCfg) (s : Sys) : Op → Sys × Obs
  | .env e => ({ s with world := { s.world with chip := e.apply s.world.chip } }, .env)
  | .api a sched faults =>
    if s.handle.isNone ∧ !a.isCreate then (s, .skipped) else
    let h0 : Handle := s.handle.getD {}
    let w0 : World := { s.world with xfer := 0, sched := sched, faults := faults, bus := [], cbs := [],
                                     cache := if a.isCreate then Cache.fresh else s.world.cache }
    match exec c.toCfg (Api.prog c.cap c.fuel a h0) w0 with
    | .ub u w => ({ world := w, handle := s.handle }, .ub u)
    | .done (r, h) w =>
      -- scheduled events the operation did not reach happen right after it
      let chip := w.sched.foldl (fun ch e => if e.1 ≥ w.xfer then e.2.apply ch else ch) w.chip
      ({ world := { w with chip := chip, sched := [], faults := [] }, handle := some h }, .ret r w.cbs.reverse w.bus.reverse)

/-- run a history; the observations are collected oldest first -/
def Sys.run (c : SysCfg) : Sys → List Op → Sys × List Obs
  | s, [] => (s, [])
  | s, op :: ops =>
    let (s1, o) := s.step c op
    let (s2, os) := Sys.run c s1 ops
    (s2, o :: os)

end Sx
