/-
  Basic vocabulary shared by the model of sx127x.c: byte memories, codes,
  undefined-behaviour kinds.  Core Lean only (no Mathlib) so that `sxmodel` links.
-/
namespace Sx

/-- C `int` return code.  `0` is `SX127X_OK`; SPI faults may return any non-zero value. -/
abbrev Code := Nat

/-- A byte array (register page, LoRa buffer, shadow array, packet buffer). -/
abbrev Mem := List UInt8

namespace Mem
@[inline] def rd (m : Mem) (a : Nat) : UInt8 := m.getD a 0
@[inline] def wr (m : Mem) (a : Nat) (v : UInt8) : Mem := m.set a v
/-- `memcpy(m + a, vs, |vs|)` -/
def wrs (m : Mem) (a : Nat) : List UInt8 → Mem
  | [] => m
  | v :: vs => wrs (m.wr a v) (a + 1) vs
/-- bytes `m[a .. a+n)` -/
def rds (m : Mem) (a n : Nat) : List UInt8 := (List.range n).map (fun i => m.rd (a + i))
def zeros (n : Nat) : Mem := List.replicate n 0
/-- `memset(m + a, v, n)` -/
def fill (m : Mem) (a n : Nat) (v : UInt8) : Mem := m.wrs a (List.replicate n v)
end Mem

/-- The kinds of undefined behaviour / unbounded execution the model tracks explicitly (C08). -/
inductive UB
  | oobPacket      -- access outside `device->packet`
  | oobShadow      -- access outside the shadow arrays
  | oobCaller      -- read past the caller's buffer / frequency list
  | nullDeref      -- `frequencies == NULL` dereferenced
  | divZero        -- integer division by zero
  | castRange      -- float→integer conversion out of range (C99 6.3.1.4) or NaN
  | shiftNeg       -- left shift of a negative `int`
  | fuel           -- a chip-bounded loop did not terminate within the fuel given
  deriving DecidableEq, Repr, Inhabited

def UB.name : UB → String
  | .oobPacket => "oobPacket" | .oobShadow => "oobShadow" | .oobCaller => "oobCaller"
  | .nullDeref => "nullDeref" | .divZero => "divZero" | .castRange => "castRange"
  | .shiftNeg => "shiftNeg" | .fuel => "fuel"

/-- output values of an API call, as the trace shows them -/
inductive Out
  | none
  | nat (n : Nat)
  | int (i : Int)
  | bits (u : UInt32)
  | byte (b : UInt8)
  deriving DecidableEq, Repr, Inhabited

/-- big-endian bytes as a number: what `v = (v << 8) | b` accumulates -/
def beNat : List UInt8 → Nat
  | [] => 0
  | b :: bs => b.toNat * 256 ^ bs.length + beNat bs

/-- big-endian bytes → `uint32_t`, as the SPI backends return multi-byte register reads -/
def be32 (bs : List UInt8) : UInt32 := UInt32.ofNat (beNat bs)

/-- byte `i` (0 = most significant) of an `n`-byte big-endian value held in a `uint32_t`:
    `(uint8_t)(v >> (8 * (n - 1 - i)))` -/
def byteOf (v : UInt32) (n i : Nat) : UInt8 := UInt8.ofNat (v.toNat / 256 ^ (n - 1 - i))

end Sx
