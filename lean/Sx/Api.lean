import Sx.Model.Driver
import Sx.Exec
/-
  The public API as an alphabet of operations (`Api`), each mapped to its model program, plus
  the operation-level state machine `Sys` that the property theorems quantify over and that
  `sxmodel` executes on scripts.
-/
namespace Sx
open Sx.Model

/-- one call of a public function of sx127x.h with its arguments -/
inductive Api
  | create
  | setOpmod (opmod modulation : Nat)
  | setFrequency (f : UInt64)
  | getFrequency
  | loraResetFifo
  | rxSetLnaGain (gain : Nat)
  | rxSetLnaBoostHf (enable : Bool)
  | loraSetBandwidth (bw : Nat)
  | loraGetBandwidth
  | loraSetModemConfig2 (sf : Nat)
  | loraSetLowDatarateOptimization (enable : Bool)
  | loraSetSyncword (v : UInt8)
  | setPreambleLength (v : UInt16)
  | loraSetImplicitHeader (header : Option (UInt8 × Bool × Nat))
  | loraTxSetExplicitHeader (header : Option (Bool × Nat))
  | loraSetFrequencyHopping (period : UInt8) (freqs : Option (List UInt64)) (len : UInt8)
  | rxGetPacketRssi
  | loraRxGetPacketSnr
  | rxGetFrequencyError
  | dumpRegisters
  | txSetPaConfig (pin : Nat) (power : Int)
  | txSetOcp (enable : Bool) (ma : UInt8)
  | loraTxSetForTransmission (data : List UInt8)
  | loraSetPpmOffset (err : Int)
  | fskOokTxSetForTransmission (data : List UInt8)
  | fskOokTxSetForTransmissionWithAddress (data : List UInt8) (addr : UInt8)
  | fskOokTxStartBeacon (data : List UInt8) (interval : Nat)
  | fskOokTxStopBeacon
  | fskOokSetBitrate (bits : UInt32)
  | fskSetFdev (bits : UInt32)
  | ookRxSetPeakMode (step : Nat) (floor : UInt8) (dec : Nat)
  | ookRxSetFixedMode (thr : UInt8)
  | ookRxSetAvgMode (off thr : Nat)
  | fskOokRxSetCollisionRestart (enable : Bool) (thr : UInt8)
  | fskOokRxSetAfcAuto (auto : Bool)
  | fskOokRxSetAfcBandwidth (bits : UInt32)
  | fskOokRxSetBandwidth (bits : UInt32)
  | fskOokRxSetTrigger (t : Nat)
  | fskOokSetSyncword (sw : List UInt8)
  | fskOokRxSetRssiConfig (smoothing : Nat) (offset : Int)
  | fskOokSetPacketEncoding (e : Nat)
  | fskOokSetCrc (c : Nat)
  | fskOokSetPacketFormat (fmt : Nat) (len : UInt16)
  | fskOokSetAddressFiltering (t : Nat) (node bcast : UInt8)
  | fskSetDataShaping (s r : Nat)
  | ookSetDataShaping (s r : Nat)
  | fskOokSetPreambleType (t : Nat)
  | fskOokRxSetPreambleDetector (enable : Bool) (size tol : UInt8)
  | fskOokRxCalibrate
  | fskOokGetRawTemperature
  | fskOokSetTempMonitor (enable : Bool)
  | readRegister (reg : Nat)
  | writeRegister (reg : Nat) (v : UInt8)
  | rxSetCallback (on : Bool)
  | txSetCallback (on : Bool)
  | loraCadSetCallback (on : Bool)
  | irq
  deriving Repr, Inhabited

/-- fuel for the two chip-bounded loops when a script is executed -/
def execFuel : Nat := 5000

def fnv (d : List UInt8) : UInt32 :=
  d.foldl (fun h b => (h ^^^ b.toUInt32) * 16777619) 2166136261

namespace Api
def isIrq : Api → Bool
  | irq => true
  | _ => false

/-- the model program of a call; `cap` = CONFIG_SX127X_MAX_PACKET_SIZE -/
def prog (cap fuel : Nat) : Api → DM Out
  | create => do Model.create cap; pure .none
  | setOpmod o m => do Model.setOpmod o m; pure .none
  | setFrequency f => do Model.setFrequency f; pure .none
  | getFrequency => do let f ← Model.getFrequency; pure (.nat f)
  | loraResetFifo => do Model.loraResetFifo; pure .none
  | rxSetLnaGain g => do Model.rxSetLnaGain g; pure .none
  | rxSetLnaBoostHf e => do Model.rxSetLnaBoostHf e; pure .none
  | loraSetBandwidth b => do Model.loraSetBandwidth b; pure .none
  | loraGetBandwidth => do let b ← Model.loraGetBandwidth; pure (.nat b)
  | loraSetModemConfig2 s => do Model.loraSetModemConfig2 s; pure .none
  | loraSetLowDatarateOptimization e => do Model.loraSetLowDatarateOptimization e; pure .none
  | loraSetSyncword v => do Model.loraSetSyncword v; pure .none
  | setPreambleLength v => do Model.setPreambleLength v; pure .none
  | loraSetImplicitHeader h => do Model.loraSetImplicitHeader h; pure .none
  | loraTxSetExplicitHeader h => do Model.loraTxSetExplicitHeader h; pure .none
  | loraSetFrequencyHopping p f l => do Model.loraSetFrequencyHopping p f l; pure .none
  | rxGetPacketRssi => do let r ← Model.rxGetPacketRssi; pure (.int r)
  | loraRxGetPacketSnr => do let s ← Model.loraRxGetPacketSnr; pure (.bits (F.toBits32 s))
  | rxGetFrequencyError => do let e ← Model.rxGetFrequencyError; pure (.int e)
  | dumpRegisters => do let d ← Model.dumpRegisters; pure (.bits (fnv d))
  | txSetPaConfig p w => do Model.txSetPaConfig p w; pure .none
  | txSetOcp e m => do Model.txSetOcp e m; pure .none
  | loraTxSetForTransmission d => do Model.loraTxSetForTransmission d; pure .none
  | loraSetPpmOffset e => do Model.loraSetPpmOffset e; pure .none
  | fskOokTxSetForTransmission d => do Model.fskOokTxSetForTransmission d; pure .none
  | fskOokTxSetForTransmissionWithAddress d a => do Model.fskOokTxSetForTransmissionWithAddress d a; pure .none
  | fskOokTxStartBeacon d i => do Model.fskOokTxStartBeacon d i; pure .none
  | fskOokTxStopBeacon => do Model.fskOokTxStopBeacon; pure .none
  | fskOokSetBitrate b => do Model.fskOokSetBitrate (F.ofBits32 b); pure .none
  | fskSetFdev b => do Model.fskSetFdev (F.ofBits32 b); pure .none
  | ookRxSetPeakMode s f d => do Model.ookRxSetPeakMode s f d; pure .none
  | ookRxSetFixedMode t => do Model.ookRxSetFixedMode t; pure .none
  | ookRxSetAvgMode o t => do Model.ookRxSetAvgMode o t; pure .none
  | fskOokRxSetCollisionRestart e t => do Model.fskOokRxSetCollisionRestart e t; pure .none
  | fskOokRxSetAfcAuto a => do Model.fskOokRxSetAfcAuto a; pure .none
  | fskOokRxSetAfcBandwidth b => do Model.fskOokRxSetAfcBandwidth (F.ofBits32 b); pure .none
  | fskOokRxSetBandwidth b => do Model.fskOokRxSetBandwidth (F.ofBits32 b); pure .none
  | fskOokRxSetTrigger t => do Model.fskOokRxSetTrigger t; pure .none
  | fskOokSetSyncword s => do Model.fskOokSetSyncword s; pure .none
  | fskOokRxSetRssiConfig s o => do Model.fskOokRxSetRssiConfig s o; pure .none
  | fskOokSetPacketEncoding e => do Model.fskOokSetPacketEncoding e; pure .none
  | fskOokSetCrc c => do Model.fskOokSetCrc c; pure .none
  | fskOokSetPacketFormat f l => do Model.fskOokSetPacketFormat f l; pure .none
  | fskOokSetAddressFiltering t n b => do Model.fskOokSetAddressFiltering t n b; pure .none
  | fskSetDataShaping s r => do Model.fskSetDataShaping s r; pure .none
  | ookSetDataShaping s r => do Model.ookSetDataShaping s r; pure .none
  | fskOokSetPreambleType t => do Model.fskOokSetPreambleType t; pure .none
  | fskOokRxSetPreambleDetector e s t => do Model.fskOokRxSetPreambleDetector e s t; pure .none
  | fskOokRxCalibrate => do Model.fskOokRxCalibrate fuel; pure .none
  | fskOokGetRawTemperature => do let t ← Model.fskOokGetRawTemperature; pure (.int t)
  | fskOokSetTempMonitor e => do Model.fskOokSetTempMonitor e; pure .none
  | readRegister r => do let v ← DM.rread r; pure (.byte v)
  | writeRegister r v => do Model.writeRegister r v; pure .none
  | rxSetCallback on => do DM.modH (fun h => { h with rxCb := on }); pure .none
  | txSetCallback on => do DM.modH (fun h => { h with txCb := on }); pure .none
  | loraCadSetCallback on => do DM.modH (fun h => { h with cadCb := on }); pure .none
  | irq => do
    -- a `void` function: early returns are not errors
    let _ ← DM.attempt (Model.handleInterrupt fuel)
    pure .none
end Api

end Sx
