import Sx.Lemmas.TxObs
import Sx.Lemmas.RunP
import Sx.Lemmas.TxSteps
import Sx.Lemmas.TxCovers
import Sx.Sys
/-
  C04 — FSK/OOK transmit writes exactly the framed packet and never overflows the FIFO.

  The statements are about the driver programs run against the *transmit environment* `txE`
  (Sx/Lemmas/TxFifo.lean): a 64-byte FIFO from which the modulator may take any number of bytes
  before every SPI transfer — so also between the transfers of a running handler —, flag bits
  that reflect the FIFO level at the moment they are read (FifoThreshold = 31), any transfer
  may fail, and the application may do anything inside the transmit callback.  `gwp` quantifies
  over every behaviour this environment admits; `poison` marks a FIFO overflow, a flush of the
  FIFO by acknowledging FifoOverrun, and any request foreign to the transmit path.

  * `tx_queue`, `tx_queue_addr`: queuing writes `min(|frame|, 64)` bytes — the first bytes of
    the frame (length byte in variable format, address byte, payload) — into the empty FIFO.
  * `tx_invocation`: one handler invocation hands over zero or more *next* bytes of the frame
    (`handed = frame.take sent` is an invariant), never more than the free space, and completes
    (state reset, transmit callback once) only when the chip reported PacketSent or FifoEmpty.
  * `C04_session`: any number of invocations, up to and including the one that invokes the
    callback.
  * `Sx/Lemmas/TxCovers.lean` shows that the interpreter over the chip model, in either build,
    with any schedule of modulator events and any failing transfers, is an instance of `txE`.
-/
namespace Sx
open Sx.Model DM

/-- a transmission of frame `F` is in progress: the frame lies at the start of the packet
    buffer, `expected_packet_length` is its length and `fsk_ook_packet_sent_received` counts
    the bytes handed over -/
structure TxSt (F : List UInt8) (h : Handle) : Prop where
  len : h.expected.toNat = F.length
  fits : F.length ≤ h.packet.length
  frame : h.packet.take F.length = F
  sent : h.received.toNat ≤ F.length

/-- the frame of a packet: length byte (variable format: payload plus address byte), optional
    address byte, payload -/
def fskFrame (format : Nat) (addr : Option UInt8) (data : List UInt8) : List UInt8 :=
  (if format = Gen.SX127X_VARIABLE then [u8 (data.length + addr.toList.length)] else []) ++ addr.toList ++ data

def QueuePost (F : List UInt8) (h : Handle) (g g' : TxG) (r : Except Code Unit) (h' : Handle) : Prop :=
  g'.poison = false ∧ g'.ended = false ∧ g'.cbs = g.cbs ∧ g'.Conserved ∧ h'.opmod = h.opmod ∧ h'.txCb = h.txCb ∧
  match r with
  | .ok _ => TxSt F h' ∧ h'.received.toNat = min F.length 64 ∧ g'.handed = F.take h'.received.toNat
  | .error _ => g'.handed = []

/-- the common tail: the frame is in the buffer -/
theorem tx_with_remaining (F : List UInt8) (h : Handle) (g : TxG) (hF : F.length < 65536)
    (hfits : F.length ≤ h.packet.length) (hframe : h.packet.take F.length = F)
    (hlive : g.live) (hempty : g.fifo = []) (hh : g.handed = []) (ho : g.out = []) :
    DM.gwp txE (fskOokTxWithRemaining (UInt16.ofNat F.length)) h g (fun g' r h' => QueuePost F h g g' r h') := by
  unfold fskOokTxWithRemaining
  have hlen : (UInt16.ofNat F.length).toNat = F.length := by simp [UInt16.toNat_ofNat']; omega
  rw [hlen]
  generalize hts : (if F.length > Gen.FIFO_SIZE_FSK then Gen.FIFO_SIZE_FSK else F.length) = ts
  have htsv : ts = min F.length 64 := by
    rw [← hts]; simp only [Gen.FIFO_SIZE_FSK]; split <;> omega
  rw [gwp_bind, gwp_modH]
  dsimp only
  rw [gwp_bind, gwp_getH]
  dsimp only
  have htsl : ts ≤ h.packet.length := by omega
  rw [if_pos htsl, gwp_bwrite]
  intro r g' hr
  have hc : g.Conserved := by unfold TxG.Conserved; rw [hh, ho, hempty]; rfl
  have hts16 : (UInt16.ofNat ts).toNat = ts := by simp [UInt16.toNat_ofNat']; omega
  cases r with
  | error c =>
    obtain ⟨hl, _⟩ := txR_fifo_err hlive _ c g' hr
    exact ⟨(hl.live hlive).1, (hl.live hlive).2, hl.cbs, hl.cons hc, rfl, rfl, hl.handed.trans hh⟩
  | ok u =>
    have hroom : g.fifo.length + (h.packet.rds 0 ts).length ≤ 64 := by
      rw [hempty]; simp only [Mem.rds, List.length_map, List.length_range, List.length_nil]; omega
    obtain ⟨hlive', hc', hh', hcbs', _⟩ := txR_fifo_ok hlive hc _ hroom u g' hr
    refine ⟨hlive'.1, hlive'.2, hcbs', hc', rfl, rfl, ⟨hlen, hfits, hframe, ?_⟩, ?_, ?_⟩
    · show (UInt16.ofNat ts).toNat ≤ _; rw [hts16]; omega
    · show (UInt16.ofNat ts).toNat = _; rw [hts16]; exact htsv
    · show g'.handed = F.take (UInt16.ofNat ts).toNat
      rw [hh', hh, hts16, List.nil_append, rds_eq_take _ _ htsl, ← hframe, List.take_take]
      congr 1; omega
theorem queue_fail {F h g} (hlive : g.live) (hc : g.Conserved) (hh : g.handed = []) (c : Code) :
    QueuePost F h g g (.error c) h := ⟨hlive.1, hlive.2, rfl, hc, rfl, rfl, hh⟩

theorem QueuePost_of_eq {F h h0 g g' r h'} (hq : QueuePost F h0 g g' r h') (ho : h0.opmod = h.opmod) (ht : h0.txCb = h.txCb) :
    QueuePost F h g g' r h' := by
  obtain ⟨a, b, c, d, e, f, k⟩ := hq
  exact ⟨a, b, c, d, e.trans ho, f.trans ht, k⟩

/-- `sx127x_fsk_ook_tx_set_for_transmission`: the initial fill -/
theorem tx_queue (data : List UInt8) (hd : data.length < 65536) (h : Handle) (g : TxG)
    (hlive : g.live) (hempty : g.fifo = []) (hh : g.handed = []) (ho : g.out = []) :
    DM.gwp txE (fskOokTxSetForTransmission data) h g
      (fun g' r h' => QueuePost (fskFrame h.format none data) h g g' r h') := by
  have hc : g.Conserved := by unfold TxG.Conserved; rw [hh, ho, hempty]; rfl
  unfold fskOokTxSetForTransmission checkFskOok
  rw [gwp_bind, gwp_bind, gwp_getH]
  dsimp only
  by_cases hmod : h.activeModem ≠ Gen.SX127x_MODULATION_FSK ∧ h.activeModem ≠ Gen.SX127x_MODULATION_OOK
  · rw [if_pos hmod, gwp_fail]; exact queue_fail hlive hc hh _
  rw [if_neg hmod, gwp_pure]
  dsimp only
  rw [gwp_bind, gwp_getH]
  dsimp only
  by_cases hv : h.format = Gen.SX127X_VARIABLE ∧ data.length > Gen.MAX_PACKET_SIZE
  · rw [if_pos hv, gwp_fail]; exact queue_fail hlive hc hh _
  rw [if_neg hv]
  by_cases hf : h.format = Gen.SX127X_FIXED ∧ data.length > Gen.MAX_PACKET_SIZE_FSK_FIXED
  · rw [if_pos hf, gwp_fail]; exact queue_fail hlive hc hh _
  rw [if_neg hf]
  by_cases hcap : data.length + (if h.format = Gen.SX127X_VARIABLE then 1 else 0) > h.packet.length
  · rw [if_pos hcap, gwp_fail]; exact queue_fail hlive hc hh _
  rw [if_neg hcap]
  by_cases hfmt : h.format = Gen.SX127X_VARIABLE
  · rw [if_pos hfmt] at hcap
    rw [if_pos hfmt]
    have hn : data.length ≤ 255 := by
      have : ¬data.length > Gen.MAX_PACKET_SIZE := fun hx => hv ⟨hfmt, hx⟩
      simp only [Gen.MAX_PACKET_SIZE] at this; omega
    unfold packetStore packetCopy
    rw [gwp_bind, gwp_bind, gwp_getH]
    dsimp only
    rw [if_pos (by omega), gwp_setH]
    dsimp only
    rw [gwp_bind, gwp_bind, gwp_getH]
    dsimp only
    rw [if_pos (by simp; omega), gwp_setH]
    dsimp only
    have hFl : (fskFrame h.format none data).length = data.length + 1 := by simp [fskFrame, hfmt]
    rw [← hFl]
    refine gwp_mono txE _ _ _ _ _ (fun g' r h' hq => QueuePost_of_eq hq rfl rfl) (tx_with_remaining _ _ g (by omega) ?_ ?_ hlive hempty hh ho)
    · simp; omega
    · show List.take (fskFrame h.format none data).length (Mem.wrs (Mem.wr h.packet 0 (u8 data.length)) 1 data) = _
      rw [hFl, Nat.add_comm, take_wrs _ _ _ (by simp; omega), take_one_wr0 _ _ (by omega)]
      simp [fskFrame, hfmt]
  · rw [if_neg hfmt] at hcap
    rw [if_neg hfmt]
    unfold packetCopy
    rw [gwp_bind, gwp_bind, gwp_getH]
    dsimp only
    rw [if_pos (by omega), gwp_setH]
    dsimp only
    have hFl : (fskFrame h.format none data).length = data.length := by simp [fskFrame, hfmt]
    rw [← hFl]
    refine gwp_mono txE _ _ _ _ _ (fun g' r h' hq => QueuePost_of_eq hq rfl rfl) (tx_with_remaining _ _ g ?_ ?_ ?_ hlive hempty hh ho)
    · omega
    · simp; omega
    · show List.take (fskFrame h.format none data).length (Mem.wrs h.packet 0 data) = _
      rw [hFl]
      have := take_wrs h.packet 0 data (by omega)
      rw [Nat.zero_add] at this
      rw [this]; simp [fskFrame, hfmt]
/-- `sx127x_fsk_ook_tx_set_for_transmission_with_address` -/
theorem tx_queue_addr (data : List UInt8) (hd : data.length < 65535) (addr : UInt8) (h : Handle) (g : TxG)
    (hlive : g.live) (hempty : g.fifo = []) (hh : g.handed = []) (ho : g.out = []) :
    DM.gwp txE (fskOokTxSetForTransmissionWithAddress data addr) h g
      (fun g' r h' => QueuePost (fskFrame h.format (some addr) data) h g g' r h') := by
  have hc : g.Conserved := by unfold TxG.Conserved; rw [hh, ho, hempty]; rfl
  unfold fskOokTxSetForTransmissionWithAddress checkFskOok
  rw [gwp_bind, gwp_bind, gwp_getH]
  dsimp only
  by_cases hmod : h.activeModem ≠ Gen.SX127x_MODULATION_FSK ∧ h.activeModem ≠ Gen.SX127x_MODULATION_OOK
  · rw [if_pos hmod, gwp_fail]; exact queue_fail hlive hc hh _
  rw [if_neg hmod, gwp_pure]
  dsimp only
  rw [gwp_bind, gwp_getH]
  dsimp only
  by_cases hv : h.format = Gen.SX127X_VARIABLE ∧ data.length > Gen.MAX_PACKET_SIZE - 1
  · rw [if_pos hv, gwp_fail]; exact queue_fail hlive hc hh _
  rw [if_neg hv]
  by_cases hf : h.format = Gen.SX127X_FIXED ∧ data.length > Gen.MAX_PACKET_SIZE_FSK_FIXED - 1
  · rw [if_pos hf, gwp_fail]; exact queue_fail hlive hc hh _
  rw [if_neg hf]
  by_cases hcap : data.length + (if h.format = Gen.SX127X_VARIABLE then 2 else 1) > h.packet.length
  · rw [if_pos hcap, gwp_fail]; exact queue_fail hlive hc hh _
  rw [if_neg hcap]
  by_cases hfmt : h.format = Gen.SX127X_VARIABLE
  · rw [if_pos hfmt] at hcap
    rw [if_pos hfmt]
    have hn : data.length ≤ 254 := by
      have : ¬data.length > Gen.MAX_PACKET_SIZE - 1 := fun hx => hv ⟨hfmt, hx⟩
      simp only [Gen.MAX_PACKET_SIZE] at this; omega
    unfold packetStore packetCopy
    rw [gwp_bind, gwp_bind, gwp_getH]
    dsimp only
    rw [if_pos (by omega), gwp_setH]
    dsimp only
    rw [gwp_bind, gwp_bind, gwp_getH]
    dsimp only
    rw [if_pos (by simp; omega), gwp_setH]
    dsimp only
    rw [gwp_bind, gwp_bind, gwp_getH]
    dsimp only
    rw [if_pos (by simp; omega), gwp_setH]
    dsimp only
    have hFl : (fskFrame h.format (some addr) data).length = data.length + 2 := by simp [fskFrame, hfmt]
    rw [← hFl]
    refine gwp_mono txE _ _ _ _ _ (fun g' r h' hq => QueuePost_of_eq hq rfl rfl) (tx_with_remaining _ _ g (by omega) ?_ ?_ hlive hempty hh ho)
    · simp; omega
    · show List.take (fskFrame h.format (some addr) data).length (Mem.wrs (Mem.wr (Mem.wr h.packet 0 (u8 (data.length + 1))) 1 addr) 2 data) = _
      rw [hFl, Nat.add_comm, take_wrs _ _ _ (by simp; omega), take_two_wr01 _ _ _ (by omega)]
      simp [fskFrame, hfmt]
  · rw [if_neg hfmt] at hcap
    rw [if_neg hfmt]
    unfold packetStore packetCopy
    rw [gwp_bind, gwp_bind, gwp_getH]
    dsimp only
    rw [if_pos (by omega), gwp_setH]
    dsimp only
    rw [gwp_bind, gwp_bind, gwp_getH]
    dsimp only
    rw [if_pos (by simp; omega), gwp_setH]
    dsimp only
    have hFl : (fskFrame h.format (some addr) data).length = data.length + 1 := by simp [fskFrame, hfmt]
    rw [← hFl]
    refine gwp_mono txE _ _ _ _ _ (fun g' r h' hq => QueuePost_of_eq hq rfl rfl) (tx_with_remaining _ _ g (by omega) ?_ ?_ hlive hempty hh ho)
    · simp; omega
    · show List.take (fskFrame h.format (some addr) data).length (Mem.wrs (Mem.wr h.packet 0 addr) 1 data) = _
      rw [hFl, Nat.add_comm, take_wrs _ _ _ (by simp; omega), take_one_wr0 _ _ (by omega)]
      simp [fskFrame, hfmt]


/-- the outcome of one handler invocation during a transmission -/
def TxPost (F : List UInt8) (h : Handle) (g g' : TxG) (h' : Handle) : Prop :=
  g'.poison = false ∧ g'.Conserved ∧
  ( (g'.ended = false ∧ g'.cbs = g.cbs ∧ TxSt F h' ∧ h.received.toNat ≤ h'.received.toNat
      ∧ g'.handed = F.take h'.received.toNat ∧ h'.txCb = h.txCb ∧ h'.opmod = h.opmod ∧ h'.activeModem = h.activeModem)
    ∨
    ((g'.irq &&& 0x08 ≠ 0 ∨ (g'.irq &&& 0x40 ≠ 0 ∧ g'.out = g'.handed)) ∧ g'.handed = g.handed
      ∧ ((h.txCb = true ∧ g'.ended = true ∧ g'.cbs = g.cbs ++ [.tx])
         ∨ (h.txCb = false ∧ g'.ended = false ∧ g'.cbs = g.cbs ∧ h' = resetState h))))

theorem txpost_same {F h g g1} (hst : TxSt F h) (hlive : g.live) (hc : g.Conserved) (hh : g.handed = F.take h.received.toNat)
    (hl : g.Later g1) : TxPost F h g g1 h :=
  ⟨(hl.live hlive).1, hl.cons hc, Or.inl ⟨(hl.live hlive).2, hl.cbs, hst, Nat.le_refl _, hl.handed.trans hh, rfl, rfl, rfl⟩⟩


theorem tx_complete {F h g g2} (hst : TxSt F h) (hlive : g.live) (hc : g.Conserved) (hl : g.Later g2)
    (hdone : g2.irq &&& 0x08 ≠ 0 ∨ (g2.irq &&& 0x40 ≠ 0 ∧ g2.fifo = [])) :
    DM.gwp txE (do modH resetState; txCallback) h g2 (fun g' _ h' => TxPost F h g g' h') := by
  rw [gwp_bind, gwp_modH]
  dsimp only
  unfold txCallback
  rw [gwp_bind, gwp_getH]
  dsimp only
  have hc2 := hl.cons hc
  have hout : g2.irq &&& 0x40 ≠ 0 ∧ g2.fifo = [] → g2.irq &&& 0x40 ≠ 0 ∧ g2.out = g2.handed := by
    intro ⟨h1, h2⟩
    refine ⟨h1, ?_⟩
    have := hc2; unfold TxG.Conserved at this; rw [this, h2]; simp
  by_cases hcb : h.txCb = true
  · have : (resetState h).txCb = true := hcb
    rw [if_pos this, gwp_cb]
    intro h' g' hcc
    have hg' : g' = { g2 with cbs := g2.cbs ++ [CbEvent.tx], ended := true } := hcc
    subst hg'
    refine ⟨(hl.live hlive).1, hc2, Or.inr ⟨?_, hl.handed, Or.inl ⟨hcb, rfl, ?_⟩⟩⟩
    · exact hdone.imp id hout
    · show g2.cbs ++ [CbEvent.tx] = _; rw [hl.cbs]
  · have hcb' : h.txCb = false := by cases hx : h.txCb <;> simp_all
    have : ¬(resetState h).txCb = true := hcb
    rw [if_neg this, gwp_pure]
    exact ⟨(hl.live hlive).1, hc2, Or.inr ⟨hdone.imp id hout, hl.handed, Or.inr ⟨hcb', (hl.live hlive).2, hl.cbs, rfl⟩⟩⟩

theorem tx_invocation (fuel : Nat) (F : List UInt8) (h : Handle) (g : TxG) (hst : TxSt F h) (hm : h.opmod = Gen.SX127x_MODE_TX)
    (hlive : g.live) (hc : g.Conserved) (hh : g.handed = F.take h.received.toNat) :
    DM.gwp txE (fskOokHandleInterrupt fuel) h g (fun g' _ h' => TxPost F h g g' h') := by
  unfold fskOokHandleInterrupt
  rw [gwp_bind, gwp_rread]
  intro r g1 hr
  obtain ⟨hl1, hr1⟩ := txR_read hlive r g1 hr
  cases r with
  | error c => exact txpost_same hst hlive hc hh hl1
  | ok v =>
    obtain ⟨hirq1, hPR, hOV, hLV, hEM⟩ := hr1
    dsimp only
    rw [gwp_bind, gwp_swrite]
    intro r2 g2 hr2
    obtain ⟨hl2, hirq2⟩ := txR_ack (hl1.live hlive) v hOV r2 g2 hr2
    have hl02 := hl1.trans hl2
    cases r2 with
    | error c => exact txpost_same hst hlive hc hh hl02
    | ok u =>
      dsimp only
      rw [gwp_bind, gwp_getH]
      dsimp only
      have cPR : u8 Gen.SX127X_FSK_IRQ_PAYLOAD_READY = 0x04 := rfl
      have cPS : u8 Gen.SX127X_FSK_IRQ_PACKET_SENT = 0x08 := rfl
      have cEM : u8 Gen.SX127X_FSK_IRQ_FIFO_EMPTY = 0x40 := rfl
      have cLV : u8 Gen.SX127X_FSK_IRQ_FIFO_LEVEL = 0x20 := rfl
      have cFU : u8 Gen.SX127X_FSK_IRQ_FIFO_FULL = 0x80 := rfl
      rw [cPR, cPS, cEM, cLV, cFU]
      rw [if_neg (by rw [hPR]; exact fun hn => hn rfl)]
      by_cases hps : v &&& 8 ≠ 0
      · rw [if_pos hps]
        exact tx_complete hst hlive hc hl02 (Or.inl (by rw [hirq2, hirq1]; exact hps))
      rw [if_neg hps, if_pos hm]
      by_cases hem : v &&& 64 ≠ 0
      · rw [if_pos hem]
        exact tx_complete hst hlive hc hl02 (Or.inr ⟨by rw [hirq2, hirq1]; exact hem, hl2.empty (hEM hem)⟩)
      rw [if_neg hem]
      by_cases hlv : v &&& 32 = 0 ∧ v &&& 128 = 0
      · rw [if_pos hlv]
        have hts := toSend_val h.expected h.received (by rw [hst.len]; exact hst.sent)
        dsimp only at hts
        generalize (if (h.expected.toNat : Int) - (h.received.toNat : Int) > ((Gen.HALF_MAX_FIFO_THRESHOLD - 1 : Nat) : Int) then
                    u8 (Gen.HALF_MAX_FIFO_THRESHOLD - 1)
                  else UInt8.ofNat (((h.expected.toNat : Int) - (h.received.toNat : Int)) % 256).toNat) = ts at hts ⊢
        by_cases hz : ts = 0
        · rw [if_pos hz, gwp_pure]
          exact txpost_same hst hlive hc hh hl02
        rw [if_neg hz]
        have hfit : h.received.toNat + ts.toNat ≤ F.length := by
          have := hst.sent; have := hst.len; omega
        have hfitp : h.received.toNat + ts.toNat ≤ h.packet.length := Nat.le_trans hfit hst.fits
        rw [if_neg (by omega), if_pos hfitp, gwp_bind, gwp_bwrite]
        intro r3 g3 hr3
        cases r3 with
        | error c =>
          obtain ⟨hl3, _⟩ := txR_fifo_err (hl02.live hlive) _ c g3 hr3
          exact txpost_same hst hlive hc hh (hl02.trans hl3)
        | ok u3 =>
          have hroom : g2.fifo.length + (h.packet.rds h.received.toNat ts.toNat).length ≤ 64 := by
            have := hLV hlv.1; have := hl2.len
            simp only [Mem.rds, List.length_map, List.length_range]; omega
          obtain ⟨hlive3, hc3, hh3, hcbs3, _⟩ := txR_fifo_ok (hl02.live hlive) (hl02.cons hc) _ hroom u3 g3 hr3
          dsimp only
          rw [gwp_modH]
          have hsum : (h.received + ts.toUInt16).toNat = h.received.toNat + ts.toNat := by
            have h1 : ts.toUInt16.toNat = ts.toNat := by simp
            rw [UInt16.toNat_add, h1]
            have := hst.len; have := h.expected.toNat_lt
            omega
          refine ⟨hlive3.1, hc3, Or.inl ⟨hlive3.2, hcbs3.trans hl02.cbs, ?_, ?_, ?_, rfl, rfl, rfl⟩⟩
          · exact ⟨hst.len, hst.fits, hst.frame, by show (h.received + ts.toUInt16).toNat ≤ _; rw [hsum]; exact hfit⟩
          · show h.received.toNat ≤ (h.received + ts.toUInt16).toNat; rw [hsum]; omega
          · show g3.handed = F.take (h.received + ts.toUInt16).toNat
            rw [hh3, hl02.handed, hh, hsum, ← hst.frame]
            exact (frame_chunk h.packet F.length _ _ hst.fits hfit).symm
      · rw [if_neg hlv, gwp_pure]
        exact txpost_same hst hlive hc hh hl02

/-! ### the whole transmission -/

/-- handler invocations, each against any behaviour the transmit environment admits, up to and
    including the one in which the transmit callback is invoked -/
inductive TxTrace (fuel : Nat) (h : Handle) (g : TxG) : Handle → TxG → Prop
  | nil : TxTrace fuel h g h g
  | irq {h1 g1 h2 g2 r} : TxTrace fuel h g h1 g1 → g1.ended = false →
      (fskOokHandleInterrupt fuel h1).Runs txE g1 g2 (r, h2) → TxTrace fuel h g h2 g2

/-- what holds at every point of a transmission of frame `F` -/
def TxSessInv (F : List UInt8) (g : TxG) (h' : Handle) (g' : TxG) : Prop :=
  g'.poison = false ∧ g'.Conserved ∧
  ( (g'.ended = false ∧ g'.cbs = g.cbs ∧ TxSt F h' ∧ h'.opmod = Gen.SX127x_MODE_TX ∧ h'.txCb = true
      ∧ g'.handed = F.take h'.received.toNat)
    ∨ (g'.ended = true ∧ g'.cbs = g.cbs ++ [.tx] ∧ (∃ k, g'.handed = F.take k)
      ∧ (g'.irq &&& 0x08 ≠ 0 ∨ (g'.irq &&& 0x40 ≠ 0 ∧ g'.out = g'.handed))))

/-- **C04.** For every frame, every handle in which it is queued (any buffer size, any number of
    bytes already handed over), any FIFO content, and every sequence of handler invocations against
    every admissible behaviour of chip and bus (the modulator taking bytes between any two
    transfers, any transfer failing, any flag byte consistent with the FIFO level):
    * the bytes written into the FIFO are, at every point, exactly the first `sent` bytes of
      the frame — each byte once, in order (`handed = F.take sent`);
    * no write exceeds the free space of the FIFO, the FIFO is never flushed, and no other
      register is touched (`poison = false`); nothing is lost inside the chip (`Conserved`);
    * no callback is invoked before completion; the invocation that completes invokes the
      transmit callback exactly once, and only after the chip has reported PacketSent, or
      FifoEmpty with every byte handed over so far shifted out. -/
theorem C04_session (fuel : Nat) (F : List UInt8) (h : Handle) (g : TxG) (hst : TxSt F h)
    (hm : h.opmod = Gen.SX127x_MODE_TX) (hcb : h.txCb = true)
    (hlive : g.live) (hc : g.Conserved) (hh : g.handed = F.take h.received.toNat)
    (h' : Handle) (g' : TxG) (ht : TxTrace fuel h g h' g') : TxSessInv F g h' g' := by
  induction ht with
  | nil => exact ⟨hlive.1, hc, Or.inl ⟨hlive.2, rfl, hst, hm, hcb, hh⟩⟩
  | @irq h1 g1 h2 g2 r _ hne hrun ih =>
    obtain ⟨hp1, hc1, hcase⟩ := ih
    rcases hcase with ⟨_, hcbs1, hst1, hm1, hcb1, hh1⟩ | ⟨he, _⟩
    · have hpost := Prog.gwp_runs hrun (tx_invocation fuel F h1 g1 hst1 hm1 ⟨hp1, hne⟩ hc1 hh1)
      obtain ⟨hp2, hc2, hcase2⟩ := hpost
      refine ⟨hp2, hc2, ?_⟩
      rcases hcase2 with ⟨he2, hcbs2, hst2, _, hh2, hcb2, hm2, _⟩ | ⟨hdone, hh2, hfin⟩
      · exact Or.inl ⟨he2, hcbs2.trans hcbs1, hst2, hm2.trans hm1, hcb2.trans hcb1, hh2⟩
      · rcases hfin with ⟨_, he2, hcbs2⟩ | ⟨hno, _⟩
        · exact Or.inr ⟨he2, by rw [hcbs2, hcbs1], ⟨_, hh2.trans hh1⟩, hdone⟩
        · rw [hcb1] at hno; cases hno
    · rw [he] at hne; cases hne

/-- in particular: what has been handed over is a prefix of the frame, at every point -/
theorem C04_in_order (fuel : Nat) (F : List UInt8) (h : Handle) (g : TxG) (hst : TxSt F h)
    (hm : h.opmod = Gen.SX127x_MODE_TX) (hcb : h.txCb = true)
    (hlive : g.live) (hc : g.Conserved) (hh : g.handed = F.take h.received.toNat)
    (h' : Handle) (g' : TxG) (ht : TxTrace fuel h g h' g') :
    g'.poison = false ∧ ∃ k, g'.handed = F.take k ∧ g'.out ++ g'.fifo = F.take k := by
  obtain ⟨hp, hcons, hcase⟩ := C04_session fuel F h g hst hm hcb hlive hc hh h' g' ht
  refine ⟨hp, ?_⟩
  rcases hcase with ⟨_, _, _, _, _, hh'⟩ | ⟨_, _, ⟨k, hk⟩, _⟩
  · exact ⟨_, hh', by rw [← hh']; exact hcons.symm⟩
  · exact ⟨k, hk, by rw [← hk]; exact hcons.symm⟩

/-! ### on the chip model: either build, any schedule, any failing transfers -/

theorem tx_api_irq (cap fuel : Nat) (F : List UInt8) (h : Handle) (g : TxG) (hst : TxSt F h)
    (hmod : h.activeModem = Gen.SX127x_MODULATION_FSK ∨ h.activeModem = Gen.SX127x_MODULATION_OOK)
    (hm : h.opmod = Gen.SX127x_MODE_TX) (hlive : g.live) (hc : g.Conserved) (hh : g.handed = F.take h.received.toNat) :
    (Api.prog cap fuel .irq h).gwp txE g (fun g' rh => TxPost F h g g' rh.2) := by
  show DM.gwp txE (do let _ ← DM.attempt (handleInterrupt fuel); pure Out.none) h g (fun g' _ h' => TxPost F h g g' h')
  rw [gwp_bind, gwp_attempt]
  unfold handleInterrupt
  rw [gwp_bind, gwp_getH]
  dsimp only
  have hnl : ¬h.activeModem = Gen.SX127x_MODULATION_LORA := by
    rcases hmod with e | e <;> rw [e] <;> decide
  rw [if_neg hnl, if_pos hmod]
  exact gwp_mono txE _ _ _ _ _ (fun g' r h' hq => hq) (tx_invocation fuel F h g hst hm hlive hc hh)

/-- a system in the middle of transmitting frame `F`: the handle, and a chip in FSK/OOK
    transmit mode whose FIFO is the ghost FIFO -/
structure TxRunning (n0 : Nat) (F : List UInt8) (c : SysCfg) (s : Sys) (h : Handle) (g : TxG) : Prop where
  handle : s.handle = some h
  st : TxSt F h
  modem : h.activeModem = Gen.SX127x_MODULATION_FSK ∨ h.activeModem = Gen.SX127x_MODULATION_OOK
  mode : h.opmod = Gen.SX127x_MODE_TX
  live : g.live
  cons : g.Conserved
  handed : g.handed = F.take h.received.toNat
  chip : TxChip n0 s.world.chip g.fifo
  cache : c.cached = true → s.world.cache.WF

/-- the world at the start of an operation (as `Sys.step` sets it up) -/
def opWorld (w : World) (sched : List (Nat × Env)) (faults : List (Nat × Code)) (k : Cache) : World :=
  { w with xfer := 0, sched := sched, faults := faults, bus := [], cbs := [], cache := k }

/-- **C04 on the chip model.** One handler invocation of the interpreter — cached or uncached
    build, any buffer size, modulator events scheduled before any of its transfers, any set of
    failing transfers, any application reaction in the callback — on a chip that is
    transmitting: the outcome is the one `tx_invocation` describes; in particular the chip's
    overflow counter is unchanged and, unless the callback has run, the chip FIFO is again the
    ghost FIFO (minus what the modulator took after the last transfer). -/
theorem C04_step_on_chip (n0 : Nat) (F : List UInt8) (c : SysCfg) (s : Sys) (h : Handle) (g : TxG)
    (hr : TxRunning n0 F c s h g) (sched : List (Nat × Env)) (faults : List (Nat × Code))
    (hsched : ∀ e ∈ sched, e.2 = .txShift ∨ e.2 = .txSent) :
    match s.step c (.api .irq sched faults) with
    | (s', .ret _ _ _) => ∃ h' g', s'.handle = some h' ∧ TxPost F h g g' h' ∧
        (g'.ended = false → ∃ k, TxChip n0 s'.world.chip (g'.fifo.drop k) ∧ (c.cached = true → s'.world.cache.WF))
    | (_, .ub _) => True
    | (_, _) => False := by
  unfold Sys.step
  dsimp only
  rw [if_neg (by simp [hr.handle])]
  have hw0 : txAbs n0 c.cached (opWorld s.world sched faults s.world.cache) g :=
    Or.inr (Or.inr ⟨hr.chip, hsched, hr.cache⟩)
  simp only [hr.handle, Option.getD_some]
  unfold exec
  generalize hout : execG c.toCfg.cached c.toCfg.onCb (Api.prog c.cap c.fuel Api.irq h) _ = out
  have hex : OutcomeP (txAbs n0 c.cached) (fun g' rh => TxPost F h g g' rh.2) out := by
    rw [← hout]
    exact execG_gwp' txE c.cached c.toCfg.onCb (txAbs n0 c.cached) (tx_covers n0 c.cached _)
      (Api.prog c.cap c.fuel .irq h) g _ (tx_api_irq c.cap c.fuel F h g hr.st hr.modem hr.mode hr.live hr.cons hr.handed) _ hw0
  cases out with
  | ub u w => trivial
  | done rh w =>
    obtain ⟨r, h'⟩ := rh
    obtain ⟨g', hab, hpost⟩ := hex
    refine ⟨h', g', rfl, hpost, fun hne => ?_⟩
    have hw := abs_live ⟨hpost.1, hne⟩ hab
    obtain ⟨k, hk⟩ := fold_tx (fun i => i ≥ w.xfer) w.sched hw.sched w.chip g'.fifo hw.chip
    exact ⟨k, hk, hw.cache⟩

/-- non-vacuity: a frame queued in a 16-byte buffer, two bytes already handed over and still in
    the FIFO, satisfies the hypotheses of `C04_session` -/
example : TxSt [3, 1, 2, 3] { packet := [3, 1, 2, 3] ++ Mem.zeros 12, expected := 4, received := 2, opmod := Gen.SX127x_MODE_TX, txCb := true }
    ∧ ({ fifo := [3, 1], handed := [3, 1] } : TxG).Conserved ∧ ({ fifo := [3, 1], handed := [3, 1] } : TxG).live :=
  ⟨⟨by decide, by decide, by decide, by decide⟩, rfl, rfl, rfl⟩

/-- non-vacuity: the environment admits a flag read that reports FifoEmpty on an empty FIFO
    and one that reports a level below the threshold -/
example : txR {} (.rread 0x3f) (.u8 (.ok 0x40)) { irq := 0x40 } ∧
    txR { fifo := [1, 2, 3] } (.rread 0x3f) (.u8 (.ok 0x00)) { fifo := [2, 3], out := [1], irq := 0 } := by
  constructor
  · unfold txR txRLive
    simp only [Bool.false_eq_true, or_self, ↓reduceIte]
    exact ⟨0, rfl, by decide, by decide, fun _ => by decide, fun _ => rfl⟩
  · unfold txR txRLive
    simp only [Bool.false_eq_true, or_self, ↓reduceIte]
    exact ⟨1, rfl, by decide, by decide, fun _ => by decide, fun h => absurd rfl h⟩

/-- **C04 on the chip model, as observed.** `C04_step_on_chip` with the callbacks the observation
    shows (either build, any in-call schedule of the modulator, any failing transfers, no
    application reaction): exactly what the invocation added to the ghost's list — nothing while
    the frame is still being handed over, the one transmit callback when the chip reports
    completion. -/
theorem C04_step_on_chip_obs (n0 : Nat) (F : List UInt8) (c : SysCfg) (hnr : c.NoReact) (s : Sys) (h : Handle) (g : TxG)
    (hr : TxRunning n0 F c s h g) (sched : List (Nat × Env)) (faults : List (Nat × Code))
    (hsched : ∀ e ∈ sched, e.2 = .txShift ∨ e.2 = .txSent) :
    match s.step c (.api .irq sched faults) with
    | (s', .ret _ cbs _) => ∃ h' g', s'.handle = some h' ∧ TxPost F h g g' h' ∧ g'.cbs = g.cbs ++ cbs.map (·.ev) ∧
        (g'.ended = false → ∃ k, TxChip n0 s'.world.chip (g'.fifo.drop k) ∧ (c.cached = true → s'.world.cache.WF))
    | (_, .ub _) => True
    | (_, _) => False := by
  unfold Sys.step
  dsimp only
  rw [if_neg (by simp [hr.handle])]
  have hw0 : txAbs n0 c.cached (opWorld s.world sched faults s.world.cache) g ∧
      CbsTie txK g.cbs (opWorld s.world sched faults s.world.cache) g :=
    ⟨Or.inr (Or.inr ⟨hr.chip, hsched, hr.cache⟩), Or.inr (by show g.cbs = g.cbs ++ _; simp [opWorld])⟩
  simp only [hr.handle, Option.getD_some]
  unfold exec
  rw [onCb_noReact' hnr]
  generalize hout : execG c.toCfg.cached logCb (Api.prog c.cap c.fuel Api.irq h) _ = out
  have hex : OutcomeP (fun w g' => txAbs n0 c.cached w g' ∧ CbsTie txK g.cbs w g') (fun g' rh => TxPost F h g g' rh.2) out := by
    rw [← hout]
    exact execG_gwp' txE c.cached logCb _
      (covers_cbs txE txK c.cached logCb (txAbs n0 c.cached) (tx_covers n0 c.cached _) (fun e h w h' w' ho => by cases ho; rfl) g.cbs)
      (Api.prog c.cap c.fuel .irq h) g _ (tx_api_irq c.cap c.fuel F h g hr.st hr.modem hr.mode hr.live hr.cons hr.handed) _ hw0
  cases out with
  | ub u w => trivial
  | done rh w =>
    obtain ⟨r, h'⟩ := rh
    obtain ⟨g', ⟨hab, htie⟩, hpost⟩ := hex
    refine ⟨h', g', rfl, hpost, ?_, fun hne => ?_⟩
    · rcases htie with hb | ht
      · have hb' : g'.poison = true := hb
        rw [hpost.1] at hb'; cases hb'
      · have ht' : g'.cbs = g.cbs ++ (w.cbs.map (·.ev)).reverse := ht
        rw [ht', List.map_reverse]
    · have hw := abs_live ⟨hpost.1, hne⟩ hab
      obtain ⟨k, hk⟩ := fold_tx (fun i => i ≥ w.xfer) w.sched hw.sched w.chip g'.fifo hw.chip
      exact ⟨k, hk, hw.cache⟩

/-! ### a transmission on the chip model, step by step -/

/-- **the modulator does something between two operations of the host** (takes a byte, or reports
    PacketSent): the transmission is still running, with the ghost FIFO shifted accordingly -/
theorem TxRunning.event {n0 F c s h g} (hr : TxRunning n0 F c s h g) (e : Env) (he : e = .txShift ∨ e = .txSent) :
    ∃ k, TxRunning n0 F c (s.step c (.env e)).1 h (g.shift k) ∧ (s.step c (.env e)).2 = .env := by
  obtain ⟨k, hk⟩ := txchip_event hr.chip e he
  refine ⟨k, ⟨hr.handle, hr.st, hr.modem, hr.mode, (TxG.later_shift g k).live hr.live, TxG.shift_conserved hr.cons k, ?_, hk, hr.cache⟩, rfl⟩
  exact (TxG.later_shift g k).handed.trans hr.handed

/-- **the host runs the interrupt handler** (either build, any modulator events before any of its
    transfers, any failing transfers; no application reaction): either the transmission is still
    running and the application saw nothing, or the chip reported completion and the application
    saw exactly one transmit callback (none if no callback is registered, with the per-packet
    state reset) -/
theorem TxRunning.irq {n0 F c s h g} (hnr : c.NoReact) (hr : TxRunning n0 F c s h g) (sched : List (Nat × Env))
    (faults : List (Nat × Code)) (hsched : ∀ e ∈ sched, e.2 = .txShift ∨ e.2 = .txSent) :
    match s.step c (.api .irq sched faults) with
    | (s', .ret _ cbs _) =>
        (∃ h' g', TxRunning n0 F c s' h' g' ∧ cbs.map (·.ev) = [] ∧ g'.cbs = g.cbs ∧ h.received.toNat ≤ h'.received.toNat) ∨
        (cbs.map (·.ev) = [.tx] ∧ h.txCb = true) ∨
        (cbs.map (·.ev) = [] ∧ h.txCb = false ∧ s'.handle = some (resetState h))
    | (_, .ub _) => True
    | (_, _) => False := by
  have := C04_step_on_chip_obs n0 F c hnr s h g hr sched faults hsched
  generalize hst : s.step c (.api .irq sched faults) = st at this
  obtain ⟨s', o⟩ := st
  cases o with
  | ub u => trivial
  | skipped => exact this
  | env => exact this
  | ret r cbs bus =>
    obtain ⟨h', g', hh', hpost, hcbs, hch⟩ := this
    obtain ⟨hpois, hcons, hcase⟩ := hpost
    have cancel : ∀ l : List CbEvent, g'.cbs = g.cbs ++ l → g.cbs ++ cbs.map (·.ev) = g.cbs ++ l := fun l e => by rw [← hcbs, e]
    rcases hcase with ⟨hend, e, hst', hmono, hhand, hcb, hop, hmo⟩ | ⟨_, _, hfin⟩
    · obtain ⟨k, hk, hcache⟩ := hch hend
      left
      refine ⟨h', g'.shift k, ⟨hh', hst', by rw [hmo]; exact hr.modem, hop.trans hr.mode, ?_, TxG.shift_conserved hcons k, ?_, hk, hcache⟩, ?_, ?_, hmono⟩
      · exact (TxG.later_shift g' k).live ⟨hpois, hend⟩
      · exact (TxG.later_shift g' k).handed.trans hhand
      · exact List.append_cancel_left (cancel [] (by rw [e]; simp))
      · rw [(TxG.later_shift g' k).cbs]; exact e
    · rcases hfin with ⟨hcb, _, e⟩ | ⟨hcb, _, e, hreset⟩
      · right; left
        exact ⟨List.append_cancel_left (cancel _ e), hcb⟩
      · right; right
        exact ⟨List.append_cancel_left (cancel [] (by rw [e]; simp)), hcb, by rw [hh', hreset]⟩

/-- the operations of a transmission history: the modulator takes a byte or reports PacketSent
    between two operations of the host, or the host runs the handler (with such events before any
    of its transfers, and any failing transfers) -/
def TxHistOp : Op → Prop
  | .env e => e = .txShift ∨ e = .txSent
  | .api a sched _ => a = .irq ∧ ∀ e ∈ sched, e.2 = .txShift ∨ e.2 = .txSent

/-- what the application sees of a whole transmission history: nothing, until one invocation shows
    exactly the transmit callback (the model's undefined-behaviour outcome, which C08 excludes
    for everything but loop fuel, ends the statement) -/
def TxSeen : List Obs → Prop
  | [] => True
  | o :: rest => (∃ u, o = .ub u) ∨ (o.cbEvents = [] ∧ TxSeen rest) ∨ o.cbEvents = [.tx]

theorem TxRunning.irq' {n0 F c s h g} (hnr : c.NoReact) (hr : TxRunning n0 F c s h g) (hcb : h.txCb = true)
    (sched : List (Nat × Env)) (faults : List (Nat × Code)) (hsched : ∀ e ∈ sched, e.2 = .txShift ∨ e.2 = .txSent) :
    match s.step c (.api .irq sched faults) with
    | (s', .ret _ cbs _) =>
        (∃ h' g', TxRunning n0 F c s' h' g' ∧ h'.txCb = true ∧ cbs.map (·.ev) = []) ∨ cbs.map (·.ev) = [.tx]
    | (_, .ub _) => True
    | (_, _) => False := by
  have := C04_step_on_chip_obs n0 F c hnr s h g hr sched faults hsched
  generalize hst : s.step c (.api .irq sched faults) = st at this
  obtain ⟨s', o⟩ := st
  cases o with
  | ub u => trivial
  | skipped => exact this
  | env => exact this
  | ret r cbs bus =>
    obtain ⟨h', g', hh', hpost, hcbs, hch⟩ := this
    obtain ⟨hpois, hcons, hcase⟩ := hpost
    have cancel : ∀ l : List CbEvent, g'.cbs = g.cbs ++ l → g.cbs ++ cbs.map (·.ev) = g.cbs ++ l := fun l e => by rw [← hcbs, e]
    rcases hcase with ⟨hend, e, hst', hmono, hhand, hcb', hop, hmo⟩ | ⟨_, _, hfin⟩
    · obtain ⟨k, hk, hcache⟩ := hch hend
      left
      refine ⟨h', g'.shift k, ⟨hh', hst', by rw [hmo]; exact hr.modem, hop.trans hr.mode, ?_, TxG.shift_conserved hcons k, ?_, hk, hcache⟩, hcb'.trans hcb, ?_⟩
      · exact (TxG.later_shift g' k).live ⟨hpois, hend⟩
      · exact (TxG.later_shift g' k).handed.trans hhand
      · exact List.append_cancel_left (cancel [] (by rw [e]; simp))
    · rcases hfin with ⟨_, _, e⟩ | ⟨hno, _⟩
      · right; exact List.append_cancel_left (cancel _ e)
      · rw [hcb] at hno; cases hno

/-- **C04 on the chip model, whole histories.** From a running transmission with a transmit
    callback registered, for every history of modulator events and handler invocations (either
    build, events and failing transfers also inside the invocations, no application reaction): the
    application sees nothing until one invocation shows exactly one transmit callback. -/
theorem C04_history_on_chip (n0 : Nat) (F : List UInt8) (c : SysCfg) (hnr : c.NoReact) (ops : List Op)
    (hops : ∀ op ∈ ops, TxHistOp op) (s : Sys) (h : Handle) (g : TxG) (hr : TxRunning n0 F c s h g) (hcb : h.txCb = true) :
    TxSeen (Sys.run c s ops).2 := by
  induction ops generalizing s h g with
  | nil => trivial
  | cons op rest ih =>
    have hop := hops op List.mem_cons_self
    have hrest : ∀ o ∈ rest, TxHistOp o := fun o ho => hops o (List.mem_cons_of_mem _ ho)
    simp only [Sys.run]
    cases op with
    | env e =>
      obtain ⟨k, hr', ho⟩ := hr.event (c := c) e hop
      right; left
      refine ⟨by rw [ho]; rfl, ih hrest _ h _ hr' hcb⟩
    | api a sched faults =>
      obtain ⟨ha, hsched⟩ := hop
      subst ha
      have := hr.irq' hnr hcb sched faults hsched
      generalize hst : s.step c (.api .irq sched faults) = st at this
      obtain ⟨s', o⟩ := st
      cases o with
      | ub u => left; exact ⟨u, rfl⟩
      | skipped => exact absurd this id
      | env => exact absurd this id
      | ret r cbs bus =>
        rcases this with ⟨h', g', hr', hcb', e⟩ | e
        · right; left; exact ⟨e, ih hrest s' h' g' hr' hcb'⟩
        · right; right; exact e

/-- non-vacuity of `TxSeen`: a history that shows the callback twice, or something else first, is
    not accepted -/
example : ¬TxSeen [.ret (.ok .none) [] [], .ret (.ok .none) [{ ev := .rx [] 0 }] []] ∧
    TxSeen [.env, .ret (.ok .none) [] [], .ret (.ok .none) [{ ev := .tx }] []] := by
  constructor
  · intro h
    rcases h with ⟨u, e⟩ | ⟨_, h2⟩ | e
    · cases e
    · rcases h2 with ⟨u, e⟩ | ⟨e, _⟩ | e
      · cases e
      · cases e
      · cases e
    · cases e
  · exact Or.inr (Or.inl ⟨rfl, Or.inr (Or.inl ⟨rfl, Or.inr (Or.inr rfl)⟩)⟩)

end Sx
