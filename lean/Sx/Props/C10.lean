import Sx.Lemmas.RejectAll
/-
  C10 — rejected calls have no effect; modulation-specific calls are gated.

  Helper lemmas (one per driver function) are in Sx/Lemmas/RejectAll.lean; the calculus for
  healthy-bus executions is in Sx/Lemmas/Reject.lean.
-/
namespace Sx
open Sx.Model DM Mem Chip

/-! ## Gating -/

/-- the modulation a function is documented for -/
inductive Gate
  | lora | fsk | ook | fskOok
  deriving DecidableEq, Repr

/-- the active modulation is not the one the function is documented for -/
def Gate.blocks : Gate → Nat → Prop
  | .lora, m => m ≠ Gen.SX127x_MODULATION_LORA
  | .fsk, m => m ≠ Gen.SX127x_MODULATION_FSK
  | .ook, m => m ≠ Gen.SX127x_MODULATION_OOK
  | .fskOok, m => m ≠ Gen.SX127x_MODULATION_FSK ∧ m ≠ Gen.SX127x_MODULATION_OOK

/-- sx127x.h: which functions are specific to one modulation (the `lora_`, `fsk_`, `ook_` and
    `fsk_ook_` prefixes of the public names) -/
def Api.gate : Api → Option Gate
  | .loraResetFifo | .loraSetBandwidth _ | .loraGetBandwidth | .loraSetModemConfig2 _
  | .loraSetLowDatarateOptimization _ | .loraSetSyncword _ | .loraSetImplicitHeader _ | .loraTxSetExplicitHeader _
  | .loraSetFrequencyHopping _ _ _ | .loraRxGetPacketSnr | .loraTxSetForTransmission _ | .loraSetPpmOffset _ => some .lora
  | .fskSetFdev _ | .fskSetDataShaping _ _ => some .fsk
  | .ookRxSetPeakMode _ _ _ | .ookRxSetFixedMode _ | .ookRxSetAvgMode _ _ | .ookSetDataShaping _ _ => some .ook
  | .fskOokTxSetForTransmission _ | .fskOokTxSetForTransmissionWithAddress _ _ | .fskOokTxStartBeacon _ _
  | .fskOokTxStopBeacon | .fskOokSetBitrate _ | .fskOokRxSetCollisionRestart _ _ | .fskOokRxSetAfcAuto _
  | .fskOokRxSetAfcBandwidth _ | .fskOokRxSetBandwidth _ | .fskOokRxSetTrigger _ | .fskOokSetSyncword _
  | .fskOokRxSetRssiConfig _ _ | .fskOokSetPacketEncoding _ | .fskOokSetCrc _ | .fskOokSetPacketFormat _ _
  | .fskOokSetAddressFiltering _ _ _ | .fskOokSetPreambleType _ | .fskOokRxSetPreambleDetector _ _ _
  | .fskOokRxCalibrate | .fskOokGetRawTemperature | .fskOokSetTempMonitor _ => some .fskOok
  | _ => none

/-- **C10, gating.** A function specific to one modulation, called while another modulation is
    active, is the program that returns `SX127X_ERR_INVALID_STATE` at once: it issues no request at
    all (so nothing is read, written or cached) and leaves the handle as it is — for every argument. -/
theorem C10_gated (cap fuel : Nat) (a : Api) (g : Gate) (hg : a.gate = some g) (h : Handle)
    (hb : g.blocks h.activeModem) :
    Api.prog cap fuel a h = .ret (.error Gen.SX127X_ERR_INVALID_STATE, h) := by
  cases a <;> simp only [Api.gate, reduceCtorEq, Option.some.injEq] at hg <;> subst hg <;> simp only [Gate.blocks] at hb <;>
  simp only [Api.prog, loraResetFifo, loraSetBandwidth, loraGetBandwidth, loraSetModemConfig2,
    loraSetLowDatarateOptimization, loraSetSyncword, loraSetImplicitHeader, loraTxSetExplicitHeader,
    loraSetFrequencyHopping, loraRxGetPacketSnr, loraTxSetForTransmission, loraSetPpmOffset, fskSetFdev,
    fskSetDataShaping, ookRxSetPeakMode, ookRxSetFixedMode, ookRxSetAvgMode, ookSetDataShaping,
    fskOokTxSetForTransmission, fskOokTxSetForTransmissionWithAddress, fskOokTxStartBeacon, fskOokTxStopBeacon,
    fskOokSetBitrate, fskOokRxSetCollisionRestart, fskOokRxSetAfcAuto, fskOokRxSetAfcBandwidth,
    fskOokRxSetBandwidth, fskOokRxSetTrigger, fskOokSetSyncword, fskOokRxSetRssiConfig, fskOokSetPacketEncoding,
    fskOokSetCrc, fskOokSetPacketFormat, fskOokSetAddressFiltering, fskOokSetPreambleType,
    fskOokRxSetPreambleDetector, fskOokRxCalibrate, fskOokGetRawTemperature, fskOokSetTempMonitor,
    checkModulation, checkFskOok, bind, DM.bind', getH, Prog.bind, if_pos hb, fail]

/-- non-vacuity: an FSK handle blocks the LoRa functions -/
example : Gate.blocks .lora ({ activeModem := Gen.SX127x_MODULATION_FSK } : Handle).activeModem := by
  unfold Gate.blocks; decide

/-- non-vacuity: a refusal exists (SF6 without implicit header on a LoRa handle) -/
example : ∃ c h' s', runP (Api.prog 16 10 (.loraSetModemConfig2 Gen.SX127x_SF_6) { activeModem := Gen.SX127x_MODULATION_LORA })
    ⟨Chip.init, [], []⟩ = .done (.error c, h') s' ∧ isReject c :=
  ⟨Gen.SX127X_ERR_INVALID_ARG, _, _, rfl, Or.inl rfl⟩



attribute [local irreducible] DM.rread DM.sread DM.swrite DM.bwrite DM.bread DM.rawbread DM.cb DM.modH DM.setH
  DM.getH DM.fail DM.ub DM.attempt DM.pure' DM.bind' DM.ofExcept
  freqOfRaw loraFreqError fskFreqError ppmFloat beaconTimers fskBitrateValue ookBitrateValue fdevValue
  calculateBwRegister rssiRefine snrOf bandwidthOfCode F.lt F.gt F.le F.toSInt F.toUInt F.ofBits32 F.div F.ofNat

/-- a call whose refusal is handled by C17 (`create`) or that returns nothing (`irq`) -/
def Api.Plain (a : Api) : Prop := a.isIrq = false ∧ a.isCreate = false

/-- arguments of enumeration type are one of the enumerators where the function stores them
    before a check that depends on the chip -/
def Api.EnumArgs : Api → Prop
  | .loraSetModemConfig2 sf => sf ∈ Gen.enum_sx127x_sf_t
  | _ => True

/-- **C10, refusals (plain execution).** For every public function except `create` (C17) and the
    `void` interrupt handler, every argument, every handle and every chip state that agrees with
    the handle on the LoRa page: if the call returns `SX127X_ERR_INVALID_ARG` or
    `SX127X_ERR_INVALID_STATE`, no write request was issued and the handle is unchanged. -/
theorem C10_rejected_call_has_no_effect (cap fuel : Nat) (a : Api) (hp : a.Plain) (he : a.EnumArgs)
    (h : Handle) (chip : Chip) (wf : chip.WF)
    (hpage : h.activeModem = Gen.SX127x_MODULATION_LORA → chip.isLora = true) :
    RejectClean (Api.prog cap fuel a) h chip := by
  cases a <;> unfold Api.prog
  case irq => exact absurd hp.1 (by decide)
  case create => exact absurd hp.2 (by decide)
  case loraSetBandwidth bw => exact (c10_setBandwidth bw h chip wf hpage).api _
  case loraSetModemConfig2 sf => exact (c10_setModemConfig2 sf he h chip wf hpage).api _
  all_goals first
    | exact (RC.clean (by first
        | exact rc_setOpmod _ _ | exact rc_setFrequency _ | exact rc_getFrequency | exact rc_loraResetFifo
        | exact rc_rxSetLnaGain _ | exact rc_rxSetLnaBoostHf _ | exact rc_loraGetBandwidth | exact rc_setLdro _
        | exact rc_loraSetSyncword _ | exact rc_setPreambleLength _ | exact rc_loraSetImplicitHeader _
        | exact rc_loraTxSetExplicitHeader _ | exact rc_loraSetFrequencyHopping _ _ _ | exact rc_rxGetPacketRssi
        | exact rc_snr | exact rc_rxGetFrequencyError | exact rc_dumpRegisters | exact rc_txSetPaConfig _ _
        | exact rc_txSetOcp _ _ | exact rc_loraTxSetForTransmission _ | exact rc_loraSetPpmOffset _
        | exact rc_fskOokTxSetForTransmission _ | exact rc_fskOokTxSetForTransmissionWithAddress _ _
        | exact rc_fskOokTxStartBeacon _ _ | exact rc_fskOokTxStopBeacon | exact rc_fskOokSetBitrate _
        | exact rc_fskSetFdev _ | exact rc_ookRxSetPeakMode _ _ _ | exact rc_ookRxSetFixedMode _
        | exact rc_ookRxSetAvgMode _ _ | exact rc_fskOokRxSetCollisionRestart _ _ | exact rc_fskOokRxSetAfcAuto _
        | exact rc_fskOokRxSetAfcBandwidth _ | exact rc_fskOokRxSetBandwidth _ | exact rc_fskOokRxSetTrigger _
        | exact rc_fskOokSetSyncword _ | exact rc_fskOokRxSetRssiConfig _ _ | exact rc_fskOokSetPacketEncoding _
        | exact rc_fskOokSetCrc _ | exact rc_fskOokSetPacketFormat _ _ | exact rc_fskOokSetAddressFiltering _ _ _
        | exact rc_fskSetDataShaping _ _ | exact rc_ookSetDataShaping _ _ | exact rc_fskOokSetPreambleType _
        | exact rc_fskOokRxSetPreambleDetector _ _ _ | exact rc_fskOokRxCalibrate _ | exact rc_fskOokGetRawTemperature
        | exact rc_fskOokSetTempMonitor _ | exact rc_writeRegister _ _) h chip).api _
    | exact RC.clean (by rc0) h chip

/-- **C10 in the build with the register cache, after any history.** From any state reachable by
    an admissible history (`Inv`, C01): if the call returns an argument or state error, the bus
    carried no write and the handle is the one before the call. -/
theorem C10_cached (c : SysCfg) (hc : c.cached = true) (hnr : c.NoReact) (s : Sys) (i : Inv s.world)
    (a : Api) (hv : a.Valid) (hp : a.Plain) (he : a.EnumArgs) (h : Handle) (hh : s.handle = some h)
    (hpage : h.activeModem = Gen.SX127x_MODULATION_LORA → s.world.chip.isLora = true)
    (code : Code) (hcode : isReject code) (cbs : List CbRec) (bus : List BusEv)
    (hret : (s.step c (.api a [] [])).2 = .ret (.error code) cbs bus) :
    (s.step c (.api a [] [])).1.handle = some h ∧ writesOf bus = [] := by
  obtain ⟨h', ps, hr, hhd, hw⟩ := step_cached_ret c hc hnr s i a hv h hh hp.2 _ cbs bus hret
  obtain ⟨e1, e2⟩ := C10_rejected_call_has_no_effect c.cap c.fuel a hp he h s.world.chip i.chip hpage code h' ps hr hcode
  subst e1
  refine ⟨hhd, ?_⟩
  rw [hw]
  rw [writesP_eq] at e2
  unfold writesOf at e2 ⊢
  rw [List.filter_reverse, e2]
  rfl


end Sx
