import Sx.Lemmas.SafeAll
import Sx.Lemmas.Exec
import Sx.Sys
import Sx.Lemmas.ShadowSize
import Sx.Lemmas.ShadowCbs
import Sx.Lemmas.LoopBound
import Sx.Props.C19
import Sx.Lemmas.CastFacts
import Sx.Props.C12
import Sx.Props.C14
/-
  C08 — memory safety for all air data, chip states and buffer sizes.

  What is proved here, for **every** packet-buffer size `cap` (CONFIG_SX127X_MAX_PACKET_SIZE), every
  argument, every answer of chip and bus (any register content, any FIFO content, any over-the-air
  length byte, any transfer failing), every history and every schedule:

  * no API call and no handler invocation accesses `device->packet` outside `[0, cap)`, the
    shadow arrays outside their 0x71 entries (every request stays within the SPI contract of
    C19, and within it the four shadow-layer entry points stay inside the arrays:
    Sx/Lemmas/ShadowSize.lean), reads the caller's frequency list outside
    `[0, frequencies_length)`, dereferences a NULL list, divides by zero or shifts a negative
    value (`memBad` = every kind of undefined behaviour of the model except the two below);
  * the handle invariant `HInv` (buffer size; a registered list has `1 ≤ length ≤` its array) and
    the size of the shadow arrays are preserved, also across application callbacks that call
    back into the API.

  * the length passed to the receive callback never exceeds the buffer capacity, and the bytes it
    announces are all inside the buffer (`CbLen`); that they are the bytes the chip stored *for
    that packet* is the content of C03 (`rx_invocation`) and C05 (`C05_rx_done`), which describe
    the delivered data exactly.

  What is *not* proved here and rests on the sanitizer builds (ASan/UBSan, five buffer sizes) of
  the correspondence check: that no float→integer conversion is out of range (`castRange`; for
  the beacon C14 proves it for all documented intervals, for frequency/bit rate/deviation C12
  proves the value is in range), and that the two chip-bounded polling loops terminate (`fuel`).
-/
namespace Sx
open Sx.Model DM

/-- **C08 (program level).** For every buffer size, every API call (other than `create`) started
    from a handle satisfying the invariant, whatever chip and bus answer. -/
theorem C08_api_memory_safe (cap fuel : Nat) (a : Api) (hc : a.isCreate = false) (hl : a.ListsFit)
    (h : Handle) (hh : HInv cap h) : (Api.prog cap fuel a h).Safe memBad (CbLen cap) (HInv cap) :=
  (s_api fuel a hc hl).s h hh

/-- `sx127x_create` from any memory content -/
theorem C08_create_memory_safe (cap fuel : Nat) (h : Handle) :
    (Api.prog cap fuel .create h).Safe memBad (CbLen cap) (HInv cap) := by
  unfold Api.prog
  show ((Model.create cap h).bind _).Safe memBad (CbLen cap) (HInv cap)
  apply Prog.Safe_bind (s_create h)
  intro ⟨r, h'⟩ hi
  cases r <;> exact hi

/-- **C08, bounded execution of the interrupt handler.** Its only loop — the byte-wise drain of
    the FIFO — is bounded by the packet buffer and not by the chip: for every buffer size up to
    65535 bytes (the byte counter is a `uint16_t`), every handle and every answer of chip and bus,
    a FIFO that never reports "empty" included, one invocation with more loop fuel than the buffer
    has bytes never exhausts it (`FuelBad` = the model's loop ran out of fuel).  The only other
    loop of the driver, the calibration poll of `sx127x_fsk_ook_rx_calibrate`, waits for the chip
    (`ImageCalRunning`) and is bounded by the chip alone. -/
theorem C08_handler_loop_bounded (cap fuel : Nat) (hc16 : cap ≤ 65535) (hf : cap < fuel) (h : Handle)
    (hh : h.packet.length = cap) : (Api.prog cap fuel .irq h).Safe FuelBad (fun _ => True) (LI cap) := by
  unfold Api.prog
  exact (SafeI_bind (SafeI_attempt (l_irq hc16 fuel hf)) (fun _ => SafeI_pure _)).s h hh

/-- non-vacuity: with no fuel at all the loop does run out (the bound is needed), and the
    interpreter's fuel exceeds every documented buffer size -/
example : ¬ (drainLoop 0 ({ packet := [0] } : Handle)).Safe FuelBad (fun _ => True) (LI 1) := fun h => h rfl
example : (2047 : Nat) < execFuel := by decide

/-! ### from programs to executions -/

theorem busReadBuf_len (w : World) (reg n : Nat) (d : List UInt8) (h : (w.busReadBuf reg n).1 = .ok d) : d.length = n := by
  unfold World.busReadBuf at h
  generalize w.pre = p at h
  obtain ⟨w0, code⟩ := p
  cases code with
  | some c => simp at h
  | none =>
    simp only at h
    cases h
    exact readN_length _ _ _

/-- every callback logged for the current operation satisfies `G` -/
def CbsOk (G : CbEvent → Prop) (w : World) : Prop := ∀ r ∈ w.cbs, G r.ev

theorem CbsOk_of_eq {G : CbEvent → Prop} {w w' : World} (e : w'.cbs = w.cbs) (h : CbsOk G w) : CbsOk G w' := by
  unfold CbsOk; rw [e]; exact h

/-- no excluded undefined behaviour; handle invariant and shadow-array size are kept; every
    callback made so far satisfies `G` -/
def SafeOut {β : Type} (bad : UB → Prop) (G : CbEvent → Prop) (P : β → Prop) : Outcome β → Prop
  | .done b w' => P b ∧ SzOk w' ∧ CbsOk G w'
  | .ub u w' => ¬bad u ∧ SzOk w'

/-- what an application reaction may do: given a callback the driver was entitled to make, it
    leaves a handle satisfying `I`, keeps the shadow arrays' size, logs the callback, and runs into
    no excluded undefined behaviour -/
def CbOk (bad : UB → Prop) (G : CbEvent → Prop) (I : Handle → Prop) (onCb : CbEvent → Handle → World → Outcome Handle) : Prop :=
  ∀ e h w, G e → I h → SzOk w → CbsOk G w → SafeOut bad G I (onCb e h w)

/-- **a safe program within the SPI contract executes safely**, in either build, from any world
    whose shadow arrays have their size (any chip, cache content, schedule of environment events,
    set of failing transfers): no excluded undefined behaviour — accesses outside the shadow
    arrays included —, the handle invariant and the array size are kept, and every callback the
    application sees satisfies `G` -/
theorem execG_safe {α : Type} (bad : UB → Prop) (G : CbEvent → Prop) (I : Handle → Prop) (cached : Bool)
    (onCb : CbEvent → Handle → World → Outcome Handle) (hcb : CbOk bad G I onCb)
    (p : Prog (Except Code α × Handle)) (hp : p.Safe bad G I) (hall : p.All ContractReq) (w : World) (hs : SzOk w)
    (hg : CbsOk G w) :
    SafeOut bad G (fun rh => I rh.2) (execG cached onCb p w) := by
  induction p generalizing w with
  | ret a => exact ⟨hp, hs, hg⟩
  | ub u => exact ⟨hp, hs⟩
  | sread reg n k ih =>
    simp only [execG]
    obtain ⟨r, w', he, hs', hb⟩ := sread_sz (cached := cached) hs reg n hall.1
    rw [he]; exact ih r (hp r hb) (hall.2 r) w' hs' (CbsOk_of_eq (sread_cbs he) hg)
  | rread reg k ih =>
    simp only [execG]
    obtain ⟨r, w', he, hs'⟩ := rread_sz (cached := cached) hs reg hall.1
    rw [he]; exact ih r (hp r) (hall.2 r) w' hs' (CbsOk_of_eq (rread_cbs he) hg)
  | swrite reg d k ih =>
    simp only [execG]
    obtain ⟨r, w', he, hs'⟩ := swrite_sz (cached := cached) hs reg d hall.1
    rw [he]; exact ih r (hp r) (hall.2 r) w' hs' (CbsOk_of_eq (swrite_cbs he) hg)
  | bwrite reg d k ih =>
    simp only [execG]
    obtain ⟨r, w', he, hs'⟩ := bwrite_sz (cached := cached) hs reg d hall.1
    rw [he]; exact ih r (hp r) (hall.2 r) w' hs' (CbsOk_of_eq (bwrite_cbs he) hg)
  | bread reg n k ih =>
    simp only [execG]
    have hl := busReadBuf_len w reg n
    have hc := busReadBuf_cache w reg n
    have hk := busReadBuf_cbs w reg n
    generalize w.busReadBuf reg n = br at hl hc hk
    obtain ⟨r, w'⟩ := br
    exact ih r (hp r (fun d e => hl d e)) (hall.2 r) w' (by unfold SzOk; rw [show w'.cache = w.cache from hc]; exact hs)
      (CbsOk_of_eq hk hg)
  | rawbread reg n k ih =>
    simp only [execG]
    have hl := busReadBuf_len w reg n
    have hc := busReadBuf_cache w reg n
    have hk := busReadBuf_cbs w reg n
    generalize w.busReadBuf reg n = br at hl hc hk
    obtain ⟨r, w'⟩ := br
    exact ih r (hp r (fun d e => hl d e)) (hall.2 r) w' (by unfold SzOk; rw [show w'.cache = w.cache from hc]; exact hs)
      (CbsOk_of_eq hk hg)
  | callback e h k ih =>
    simp only [execG]
    have hc := hcb e h w hp.1.1 hp.1.2 hs hg
    cases ho : onCb e h w with
    | done h' w' => rw [ho] at hc; exact ih h' (hp.2 h' hc.1) (hall h') w' hc.2.1 hc.2.2
    | ub u w' => rw [ho] at hc; exact hc

/-! ### the whole system: any history, re-entrant callbacks -/

theorem api_safe (cap fuel : Nat) (a : Api) (hl : a.ListsFit) (h : Handle)
    (hh : a.isCreate = false → HInv cap h) : (Api.prog cap fuel a h).Safe memBad (CbLen cap) (HInv cap) := by
  cases hc : a.isCreate with
  | false => exact C08_api_memory_safe cap fuel a hc hl h (hh hc)
  | true =>
    have : a = .create := by cases a <;> simp_all [Api.isCreate]
    subst this
    exact C08_create_memory_safe cap fuel h

def Op.Fits : Op → Prop
  | .env _ => True
  | .api a _ _ => a.ListsFit

/-- the calls the application makes inside callbacks hand over lists as long as they say -/
def SysCfg.Fits (c : SysCfg) : Prop :=
  (∀ a, c.onRx = some a → a.ListsFit) ∧ (∀ a, c.onTx = some a → a.ListsFit) ∧ (∀ a, c.onCad = some a → a.ListsFit)

/-- the world at the start of an operation (as `Sys.step` sets it up) -/
def startWorld (w : World) (sched : List (Nat × Env)) (faults : List (Nat × Code)) (k : Cache) : World :=
  { w with xfer := 0, sched := sched, faults := faults, bus := [], cbs := [], cache := k }

theorem logCb_ok (bad : UB → Prop) (G : CbEvent → Prop) (I : Handle → Prop) : CbOk bad G I logCb := by
  intro e h w hg hi hs hc
  refine ⟨hi, hs, ?_⟩
  intro r hr
  rcases List.mem_cons.mp hr with e' | e'
  · rw [e']; exact hg
  · exact hc r e'

theorem onCb_ok (c : SysCfg) (hc : c.Fits) (hv : c.Valid) : CbOk memBad (CbLen c.cap) (HInv c.cap) c.toCfg.onCb := by
  intro e h w hge hh hsz hcbs
  unfold Cfg.onCb
  cases hr : c.toCfg.reactionFor e with
  | none => exact logCb_ok _ _ _ e h w hge hh hsz hcbs
  | some re =>
    simp only
    have key : ∀ o : Option Api, (∀ a, o = some a → a.ListsFit) → (∀ a, o = some a → a.Valid) → c.reaction o = some re →
        (re.run h).Safe memBad (CbLen c.cap) (HInv c.cap) ∧ (re.run h).All ContractReq := by
      intro o hval hvalid ho
      cases o with
      | none => simp [SysCfg.reaction] at ho
      | some api =>
        simp only [SysCfg.reaction] at ho
        split at ho
        · cases ho
        · cases ho
          exact ⟨api_safe c.cap c.fuel api (hval api rfl) h (fun _ => hh), (contract_api c.cap c.fuel api (hvalid api rfl)).all h⟩
    have hall : (re.run h).Safe memBad (CbLen c.cap) (HInv c.cap) ∧ (re.run h).All ContractReq := by
      cases e with
      | rx d l => exact key c.onRx hc.1 hv.1 hr
      | tx => exact key c.onTx hc.2.1 hv.2.1 hr
      | cad d => exact key c.onCad hc.2.2 hv.2.2 hr
    have := execG_safe memBad (CbLen c.cap) (HInv c.cap) c.toCfg.cached logCb (logCb_ok _ _ _) (re.run h) hall.1 hall.2 w hsz hcbs
    unfold exec0
    cases hx : execG c.toCfg.cached logCb (re.run h) w with
    | done a w' =>
      rw [hx] at this
      obtain ⟨r, h'⟩ := a
      refine ⟨this.1, this.2.1, ?_⟩
      intro rec hrec
      rcases List.mem_cons.mp hrec with e' | e'
      · rw [e']; exact hge
      · exact this.2.2 rec e'
    | ub u w' => rw [hx] at this; exact this

/-- the handle of a system, if there is one, satisfies the invariant, and the shadow arrays have
    their size -/
def SysInv (cap : Nat) (s : Sys) : Prop := (∀ h, s.handle = some h → HInv cap h) ∧ SzOk s.world

theorem fresh_sz : Cache.fresh.size = 0x71 := Cache.fresh_wf.hs

/-- what an observation may show: no excluded undefined behaviour, and every receive callback
    with a length within the packet buffer and all of its bytes inside it -/
def ObsOk (cap : Nat) : Obs → Prop
  | .ub u => ¬memBad u
  | .ret _ cbs _ => ∀ r ∈ cbs, CbLen cap r.ev
  | _ => True

/-- **C08 (one operation).** In either build (cache on/off), for every packet-buffer size, any
    chip content, any environment schedule, any set of failing transfers, any application
    reaction inside the callbacks: the operation has none of the excluded undefined behaviours
    — every kind the model knows except an out-of-range float conversion and exhausted loop
    fuel; accesses outside the shadow arrays included —, every receive callback it makes has a
    length within the packet buffer, and handle and shadow arrays keep their invariants. -/
theorem C08_step (c : SysCfg) (hc : c.Fits) (hv : c.Valid) (s : Sys) (hs : SysInv c.cap s) (op : Op)
    (hop : op.Fits) (hov : op.Valid) :
    SysInv c.cap (s.step c op).1 ∧ ObsOk c.cap (s.step c op).2 := by
  cases op with
  | env e => exact ⟨⟨hs.1, hs.2⟩, trivial⟩
  | api a sched faults =>
    unfold Sys.step
    dsimp only
    split
    · exact ⟨hs, trivial⟩
    · rename_i hgate
      have hh : a.isCreate = false → HInv c.cap (s.handle.getD {}) := by
        intro hcr
        cases hsh : s.handle with
        | none => exfalso; apply hgate; simp [hsh, hcr]
        | some h => exact hs.1 h hsh
      have hsz0 : SzOk (startWorld s.world sched faults (if a.isCreate then Cache.fresh else s.world.cache)) := by
        unfold SzOk startWorld
        show (if a.isCreate = true then Cache.fresh else s.world.cache).size = 0x71
        split
        · exact fresh_sz
        · exact hs.2
      have hcb0 : CbsOk (CbLen c.cap) (startWorld s.world sched faults (if a.isCreate then Cache.fresh else s.world.cache)) := by
        intro r hr; cases hr
      have := execG_safe memBad (CbLen c.cap) (HInv c.cap) c.toCfg.cached c.toCfg.onCb (onCb_ok c hc hv) _
        (api_safe c.cap c.fuel a hop (s.handle.getD {}) hh) ((contract_api c.cap c.fuel a hov).all _) _ hsz0 hcb0
      unfold exec
      generalize hout : execG c.toCfg.cached c.toCfg.onCb (Api.prog c.cap c.fuel a (s.handle.getD {})) _ = out
      have this' : SafeOut memBad (CbLen c.cap) (fun rh => HInv c.cap rh.2) out := by rw [← hout]; exact this
      cases out with
      | ub u w => exact ⟨⟨hs.1, this'.2⟩, this'.1⟩
      | done rh w =>
        obtain ⟨r', h⟩ := rh
        refine ⟨⟨fun h' e => by cases e; exact this'.1, this'.2.1⟩, ?_⟩
        intro r hr
        exact this'.2.2 r (List.mem_reverse.mp hr)

/-- **C08.** The same for every history. -/
theorem C08_memory_safe (c : SysCfg) (hc : c.Fits) (hv : c.Valid) (s : Sys) (hs : SysInv c.cap s) (ops : List Op)
    (hops : ∀ op ∈ ops, op.Fits ∧ op.Valid) :
    SysInv c.cap (Sys.run c s ops).1 ∧ ∀ o ∈ (Sys.run c s ops).2, ObsOk c.cap o := by
  induction ops generalizing s with
  | nil => exact ⟨hs, fun o ho => by cases ho⟩
  | cons op ops ih =>
    have hopv := hops op (List.mem_cons_self ..)
    have h1 := C08_step c hc hv s hs op hopv.1 hopv.2
    have h2 := ih (s.step c op).1 h1.1 (fun o ho => hops o (List.mem_cons_of_mem _ ho))
    simp only [Sys.run]
    refine ⟨h2.1, fun o ho => ?_⟩
    rcases List.mem_cons.mp ho with e | e
    · rw [e]; exact h1.2
    · exact h2.2 o e

/-- **C08, callback length.** In every history, every receive callback the application sees has a
    length that does not exceed the packet buffer, and the `data` it is handed holds exactly that
    many bytes of the buffer. -/
theorem C08_callback_length (c : SysCfg) (hc : c.Fits) (hv : c.Valid) (s : Sys) (hs : SysInv c.cap s) (ops : List Op)
    (hops : ∀ op ∈ ops, op.Fits ∧ op.Valid) (r : Except Code Out) (cbs : List CbRec) (bus : List BusEv)
    (ho : Obs.ret r cbs bus ∈ (Sys.run c s ops).2) (rec : CbRec) (hrec : rec ∈ cbs) (d : List UInt8) (n : Nat)
    (he : rec.ev = .rx d n) : n ≤ c.cap ∧ d.length = n := by
  have := (C08_memory_safe c hc hv s hs ops hops).2 _ ho rec hrec
  rw [he] at this
  exact this

/-- the fresh system (no handle yet, shadow arrays as `sx127x_create` leaves them) satisfies the
    invariant for every buffer size -/
theorem sysInv_fresh (cap : Nat) (chip : Chip) : SysInv cap { world := { chip := chip }, handle := none } := by
  refine And.intro (fun h e => ?_) fresh_sz
  cases e

/-- non-vacuity: the excluded classes are inhabited by requests the model does make — a buffer
    access outside `packet` is a node the model can reach (`memBad .oobPacket`), and a concrete
    history delivers a packet through the guarded copy -/
example : ¬CbLen 16 (.rx (List.replicate 16 0) 200) ∧ CbLen 16 (.rx [1, 2, 3] 3) ∧ CbLen 16 .tx := by
  refine ⟨fun h => absurd h.1 (by decide), ⟨by decide, rfl⟩, trivial⟩

example : memBad .oobPacket ∧ memBad .oobShadow ∧ memBad .oobCaller ∧ memBad .nullDeref ∧ memBad .divZero ∧ memBad .shiftNeg := by decide

/-! ## Float → integer conversions (the class `castRange` that `C08_memory_safe` leaves out)

    All eight conversion sites of the driver are proved defined for **every** input here (carrier
    encode and decode, ppm correction, bit rate, deviation, packet RSSI refinement, frequency-error
    decode, beacon timers), each as a `Prog.Safe` statement for the class `castRange`: every answer
    of chip and bus, a register read of `n` bytes answering any value below `2^(8n)`. -/

/-- the class of undefined behaviour these theorems are about -/
def castBad (u : UB) : Prop := u = .castRange

/-- **C08, `sx127x_set_frequency`.** For every `uint64_t` argument, handle and answer of the bus:
    the conversion `(uint64_t)((frequency << 19) / 32e6f)` is defined, the call never reaches
    undefined behaviour. -/
theorem C08_cast_set_frequency (f : UInt64) :
    (∃ d, Model.frfOf f = some d) ∧ DM.SafeI castBad (fun _ => True) (fun _ => True) (Model.setFrequency f) := by
  obtain ⟨d, hd⟩ := cast_set_frequency f
  refine ⟨⟨d, hd⟩, ?_⟩
  unfold Model.setFrequency
  rw [hd]
  exact DM.SafeI_swrite _ _

/-- **C08, `sx127x_get_frequency`.** For every content of the frequency registers:
    `(uint64_t)(raw * 32e6f)` is defined. -/
theorem C08_cast_get_frequency :
    (∀ raw : UInt32, ∃ v, Model.freqOfRaw raw = some v) ∧
    DM.SafeI castBad (fun _ => True) (fun _ => True) Model.getFrequency := by
  refine ⟨cast_get_frequency, ?_⟩
  unfold Model.getFrequency
  apply DM.SafeI_bind (DM.SafeI_sread _ _)
  intro raw
  obtain ⟨v, hv⟩ := cast_get_frequency raw
  rw [hv]
  exact DM.SafeI_pure _

/-- **C08, `sx127x_lora_set_ppm_offset`.** For every frequency error (any `int32_t`, in fact any
    integer), every content of the frequency registers (zero included: the quotient is then an
    infinity or NaN and is refused by the range check), every handle and answer: the conversion to
    `int8_t` is only reached with a value in range. -/
theorem C08_cast_ppm (err : Int) :
    DM.SafeI castBad (fun _ => True) (fun _ => True) (Model.loraSetPpmOffset err) := by
  unfold Model.loraSetPpmOffset Model.checkModulation
  apply DM.SafeI_bind
  · apply DM.SafeI_bind DM.SafeI_getH; intro h
    split
    · exact DM.SafeI_fail _
    · exact DM.SafeI_pure _
  intro _
  apply DM.SafeI_bind C08_cast_get_frequency.2
  intro frequency
  dsimp only
  split
  · exact DM.SafeI_fail _
  · rename_i hg
    have hg' : (F.gt (Model.ppmFloat err frequency) (.fin (-129)) && F.lt (Model.ppmFloat err frequency) (.fin 128)) = true := by
      simpa using hg
    have h12 := Bool.and_eq_true_iff.mp hg'
    obtain ⟨v, hv⟩ := cast_ppm _ h12.1 h12.2
    rw [hv]
    exact DM.SafeI_swrite _ _

section casts2
open Sx.Model DM

theorem le_fin_of (x : F) (a : Rat) (h : F.le (.fin a) x = true) (b : Rat) (h2 : F.le x (.fin b) = true) :
    ∃ q, x = .fin q ∧ a ≤ q ∧ q ≤ b := by
  cases x with
  | nan => simp [F.le] at h
  | inf s => cases s <;> simp [F.le] at h h2
  | fin q => simp only [F.le, decide_eq_true_eq] at h h2; exact ⟨q, rfl, h, h2⟩

/-- **C08, `sx127x_fsk_ook_set_bitrate`.** For every binary32 argument (NaN, infinities, negative
    and out-of-range values included — they are refused by the range check), every handle and every
    answer: the conversions `(uint32_t)(32e6 * 16 / bitrate)` and `(uint16_t)(32e6f / bitrate)` are
    only reached with values in range. -/
theorem C08_cast_bitrate (bits : UInt32) :
    SafeI castBad (fun _ => True) (fun _ => True) (fskOokSetBitrate (F.ofBits32 bits)) := by
  unfold fskOokSetBitrate checkFskOok
  apply SafeI_bind
  · apply SafeI_bind SafeI_getH; intro h
    split
    · exact SafeI_fail _
    · exact SafeI_pure _
  intro _
  apply SafeI_bind SafeI_getH; intro h
  dsimp only
  split
  · split
    · exact SafeI_fail _
    · rename_i hr
      have hr' : F.le (F.fin 1200) (F.ofBits32 bits) = true ∧ F.le (F.ofBits32 bits) (F.fin 300000) = true := by
        simpa using hr
      obtain ⟨q, hq, h1, h2⟩ := le_fin_of _ _ hr'.1 _ hr'.2
      obtain ⟨v, hv, _⟩ := C12_fsk_bitrate_bits bits q hq h1 h2
      rw [hv]
      exact SafeI_bind (SafeI_swrite _ _) (fun _ => SafeI_swrite _ _)
  · split
    · split
      · exact SafeI_fail _
      · rename_i hr
        have hr' : F.le (F.fin 1200) (F.ofBits32 bits) = true ∧ F.le (F.ofBits32 bits) (F.fin 25000) = true := by
          simpa using hr
        obtain ⟨q, hq, h1, h2⟩ := le_fin_of _ _ hr'.1 _ hr'.2
        rw [hq]
        obtain ⟨v, hv, _⟩ := C12_ook_bitrate q h1 h2
        rw [hv]
        exact SafeI_bind (SafeI_swrite _ _) (fun _ => SafeI_swrite _ _)
    · exact SafeI_fail _

/-- **C08, `sx127x_fsk_set_fdev`.** Likewise for `(uint16_t)(fdev / FSTEP)`. -/
theorem C08_cast_fdev (bits : UInt32) :
    SafeI castBad (fun _ => True) (fun _ => True) (fskSetFdev (F.ofBits32 bits)) := by
  unfold fskSetFdev checkModulation
  apply SafeI_bind
  · apply SafeI_bind SafeI_getH; intro h
    split
    · exact SafeI_fail _
    · exact SafeI_pure _
  intro _
  split
  · exact SafeI_fail _
  · rename_i hr
    have hr' : F.le (F.fin 600) (F.ofBits32 bits) = true ∧ F.le (F.ofBits32 bits) (F.fin 200000) = true := by
      simpa using hr
    obtain ⟨q, hq, h1, h2⟩ := le_fin_of _ _ hr'.1 _ hr'.2
    rw [hq]
    obtain ⟨v, hv, _⟩ := C12_fdev q h1 h2
    rw [hv]
    exact SafeI_swrite _ _

theorem snr_post (h : Handle) :
    (loraRxGetPacketSnr h).fwp false (fun _ rh => ∀ snr, rh.1 = .ok snr → ∃ b : UInt8, snr = snrOf b) := by
  unfold loraRxGetPacketSnr checkModulation
  simp only [fwp_bind', fwp_getH, fwp_rread, fwp_pure, fwp_ite, fwp_fail]
  split
  · intro s e; cases e
  · refine ⟨fun v s e => ⟨v, ?_⟩, fun c s e => by cases e⟩
    cases e; rfl

theorem s_snr_cast : SafeI castBad (fun _ => True) (fun _ => True) loraRxGetPacketSnr := by
  unfold loraRxGetPacketSnr checkModulation
  apply SafeI_bind
  · apply SafeI_bind SafeI_getH; intro h
    split
    · exact SafeI_fail _
    · exact SafeI_pure _
  intro _
  exact SafeI_bind (SafeI_rread _) (fun _ => SafeI_pure _)

/-- **C08, `sx127x_rx_get_packet_rssi`.** For every RegPktRssiValue, RegPktSnrValue and carrier
    (either port offset), every handle and answer: the refinement `(int16_t)(rssi + snr)` is
    defined. -/
theorem C08_cast_packet_rssi : SafeI castBad (fun _ => True) (fun _ => True) rxGetPacketRssi := by
  unfold rxGetPacketRssi
  apply SafeI_bind SafeI_getH; intro h
  split
  · apply SafeI_bind (SafeI_rread _); intro value
    apply SafeI_bind C08_cast_get_frequency.2; intro frequency
    dsimp only
    refine SafeI_attempt_bind_post (fun r _ => ∀ snr, r = .ok snr → ∃ b : UInt8, snr = snrOf b) s_snr_cast snr_post ?_
    intro r h' _ hq
    cases r with
    | error c => exact trivial
    | ok snr =>
      obtain ⟨b, hb⟩ := hq snr rfl
      subst hb
      dsimp only
      split
      · have hoff : ∀ off : Int, (off = Gen.RSSI_OFFSET_HF_PORT ∨ off = Gen.RSSI_OFFSET_LF_PORT) →
            ((match rssiRefine ((value.toNat : Int) - off) (snrOf b) with
              | some v => (pure v : DM Int)
              | none => DM.ub .castRange) h').Safe castBad (fun _ => True) (fun _ => True) := by
          intro off ho
          rw [C12_packet_rssi value b off ho]
          exact trivial
        split
        · exact hoff _ (Or.inr rfl)
        · exact hoff _ (Or.inl rfl)
      · exact trivial
  · split
    · split
      · exact SafeI_fail _
      · exact SafeI_bind (SafeI_modH _ (fun _ _ => trivial)) (fun _ => SafeI_pure _)
    · exact SafeI_fail _


/-! the frequency-error decoders: the register read hands a value below `2^(8n)` to the conversion (`SafeI_sread_bind`) -/

theorem pos_mul {x y : F} {a b c d : Rat} (hx : Pos x a b) (hy : Pos y c d) (ha : (1 : Rat) / 1000000 ≤ a) (hb : b ≤ 10000000000)
    (hc : (1 : Rat) / 1000000 ≤ c) (hd : d ≤ 1000000) : Pos (F.mul b32 x y) (a * c / 2) (2 * (b * d)) := by
  obtain ⟨p, rfl, p1, p2⟩ := hx
  obtain ⟨q, rfl, q1, q2⟩ := hy
  have hmul : F.mul b32 (.fin p) (.fin q) = F.round b32 (p * q) := rfl
  rw [hmul]
  have hp : 0 < p := by linarith
  have hq : 0 < q := by linarith
  have ha0 : 0 < a := by linarith
  have hc0 : 0 < c := by linarith
  exact pos_round (p * q) (a * c) (b * d) (by nlinarith) (by nlinarith) (by nlinarith) (by nlinarith)

/-- the LoRa frequency-error conversion is defined for every 3-byte register value and every bandwidth
    the chip can report -/
theorem lora_freq_error_some (raw : UInt32) (h : raw.toNat < 2 ^ 24) (bw : Nat) (hbw : LoraBw bw) :
    ∃ v, loraFreqError raw bw = some v := by
  have hbw24 : 0 < bw ∧ bw < 2 ^ 24 := by
    rcases hbw with e | e | e | e | e | e | e | e | e | e <;> subst e <;> norm_num
  have hbwr : (7800 : Rat) ≤ (bw : Rat) ∧ (bw : Rat) ≤ 500000 := by
    rcases hbw with e | e | e | e | e | e | e | e | e | e <;> subst e <;> norm_num
  unfold loraFreqError
  simp only
  rw [factor_value, f32_500000, ofNat32_exact bw hbw24.1 hbw24.2]
  -- the magnitude, whichever branch computed it, is below 2^24
  generalize hmag : (if raw &&& 0x80000 ≠ 0 then (~~~raw + 1) &&& 0xFFFFF else raw) = mag
  have hm : mag.toNat < 2 ^ 24 := by
    rw [← hmag]
    split
    · have : ((~~~raw + 1) &&& 0xFFFFF).toNat ≤ 0xFFFFF := by
        rw [UInt32.toNat_and]; exact Nat.and_le_right
      omega
    · exact h
  generalize hsign : (if raw &&& 0x80000 ≠ 0 then (-1 : Int) else 1) = sign
  have hs : sign = -1 ∨ sign = 1 := by rw [← hsign]; split <;> simp
  rcases Nat.eq_zero_or_pos mag.toNat with hz | hpos
  · -- zero magnitude: everything is zero
    have h0 : F.ofNat b32 mag.toNat = .fin 0 := by rw [hz]; unfold F.ofNat; simpa using round_zero
    rw [h0]
    have e1 : F.mul b32 (F.fin 0) (F.fin (8796093 / 16777216)) = .fin 0 := by
      show F.round b32 (0 * _) = _; rw [zero_mul, round_zero]
    rw [e1]
    have e2 : F.mul b32 (F.fin 0) (F.fin (bw : Rat)) = .fin 0 := by
      show F.round b32 (0 * _) = _; rw [zero_mul, round_zero]
    rw [e2]
    have e3 : F.div b32 (F.fin 0) (F.fin 500000) = .fin 0 := by
      have : F.div b32 (F.fin 0) (F.fin 500000) = F.round b32 (0 / 500000) := by simp [F.div]
      rw [this, zero_div, round_zero]
    rw [e3]
    have e4 : F.mul b32 (F.ofInt b32 sign) (F.fin 0) = .fin 0 := by
      rcases hs with e | e <;> rw [e]
      · rw [ofInt_neg_one]; show F.round b32 (-1 * 0) = _; rw [mul_zero, round_zero]
      · rw [ofInt_one]; show F.round b32 (1 * 0) = _; rw [mul_zero, round_zero]
    rw [e4]
    unfold F.toSInt F.truncQ
    have hf : Rat.floor 0 = 0 := by rw [rfloor_eq]; exact Int.floor_zero
    simp [hf]
  · rw [ofNat32_exact _ hpos hm]
    have hmr1 : (1 : Rat) ≤ (mag.toNat : Rat) := by exact_mod_cast hpos
    have hmr2 : (mag.toNat : Rat) ≤ 16777216 := by
      have : (mag.toNat : Rat) < 16777216 := by exact_mod_cast hm
      linarith
    have PM : Pos (F.fin (mag.toNat : Rat)) 1 16777216 := ⟨_, rfl, hmr1, hmr2⟩
    have PF : Pos (F.fin (8796093 / 16777216)) (8796093 / 16777216) (8796093 / 16777216) := ⟨_, rfl, le_refl _, le_refl _⟩
    have PB : Pos (F.fin (bw : Rat)) 7800 500000 := ⟨_, rfl, hbwr.1, hbwr.2⟩
    have PD : Pos (F.fin 500000) 500000 500000 := ⟨_, rfl, le_refl _, le_refl _⟩
    have T1 := pos_mul PM PF (by norm_num) (by norm_num) (by norm_num) (by norm_num)
    have T2 := pos_mul T1 PB (by norm_num) (by norm_num) (by norm_num) (by norm_num)
    have T3 := pos_div T2 PD (by norm_num) (by norm_num) (by norm_num) (by norm_num)
    obtain ⟨P3, hP3, p3a, p3b⟩ := T3
    rw [hP3]
    have hP3pos : 0 < P3 := by
      have : (0 : Rat) < 1 * (8796093 / 16777216) / 2 * 7800 / 2 / 500000 / 2 := by norm_num
      linarith
    have q1 : (2 : Rat) ^ (-(100 : Int)) ≤ P3 := by
      rw [em100]
      have : (1 : Rat) / 1267650600228229401496703205376 ≤ 1 * (8796093 / 16777216) / 2 * 7800 / 2 / 500000 / 2 := by norm_num
      linarith
    have q2 : P3 ≤ (2 : Rat) ^ (100 : Int) := by
      rw [e100]
      have : 2 * (2 * (2 * ((16777216 : Rat) * (8796093 / 16777216)) * 500000) / 500000) ≤ 1267650600228229401496703205376 := by norm_num
      linarith
    obtain ⟨e, herr⟩ := round32w P3 q1 q2
    have habs := abs_le.mp herr
    have hr0 : 0 < rnd 24 (-126) P3 := by nlinarith [habs.1]
    have hr1 : rnd 24 (-126) P3 < 2147483648 := by
      have : P3 ≤ 2 * (2 * (2 * ((16777216 : Rat) * (8796093 / 16777216)) * 500000) / 500000) := p3b
      have : P3 ≤ 140737488 := by linarith [this, show 2 * (2 * (2 * ((16777216 : Rat) * (8796093 / 16777216)) * 500000) / 500000) = 70368744 from by norm_num]
      nlinarith [habs.2]
    rcases hs with e1 | e1 <;> rw [e1]
    · rw [ofInt_neg_one]
      have hm1 : F.mul b32 (F.fin (-1)) (F.fin P3) = F.round b32 (-P3) := by
        show F.round b32 (-1 * P3) = _; rw [neg_one_mul]
      rw [hm1]
      have hfin : rnd b32.p b32.emin P3 < (2 : Rat) ^ (b32.emax + 1) := by
        show rnd 24 (-126) P3 < (2 : Rat) ^ ((127 : Int) + 1)
        have : (2147483648 : Rat) ≤ (2 : Rat) ^ ((127 : Int) + 1) := by norm_num
        linarith
      rw [round_neg_fin b32 P3 hfin (le_of_lt hr0)]
      exact ⟨_, toSInt_neg' _ hr0 hr1⟩
    · rw [ofInt_one]
      have hm1 : F.mul b32 (F.fin 1) (F.fin P3) = F.round b32 P3 := by
        show F.round b32 (1 * P3) = _; rw [one_mul]
      rw [hm1, e, toSInt_pos' _ hr0 hr1]
      exact ⟨_, rfl⟩

theorem bw_of_code (c : UInt8) (b : Nat) (h : bandwidthOfCode c = some b) : LoraBw b := by
  unfold bandwidthOfCode at h
  unfold LoraBw
  repeat' split at h
  all_goals first | (cases h; simp) | (cases h)

theorem bw_post (h : Handle) :
    (loraGetBandwidth h).fwp false (fun _ rh => ∀ b, rh.1 = .ok b → LoraBw b) := by
  unfold loraGetBandwidth checkModulation
  simp only [fwp_bind', fwp_getH, fwp_rread, fwp_pure, fwp_ite, fwp_fail]
  split
  · intro b e; cases e
  · refine ⟨fun v => ?_, fun c b e => by cases e⟩
    cases hb : bandwidthOfCode (v >>> 4) with
    | none => simp only [fwp_fail]; intro b e; cases e
    | some b0 =>
      simp only [fwp_pure]
      intro b e
      have : b = b0 := by cases e; rfl
      rw [this]; exact bw_of_code _ _ hb

theorem cs_getBw : SafeI castBad (fun _ => True) (fun _ => True) loraGetBandwidth := by
  unfold loraGetBandwidth checkModulation
  apply SafeI_bind
  · apply SafeI_getH_bind; intro h _
    apply SafeI_ite
    · intro _; exact SafeI_fail _
    · intro _; exact SafeI_pure _
  intro _
  apply SafeI_bind (SafeI_rread _); intro v
  split
  · exact SafeI_pure _
  · exact SafeI_fail _

/-- **C08, `sx127x_rx_get_frequency_error`.** For every content of the frequency-error registers
    (three bytes in LoRa, two in FSK/OOK - the read hands a value below `2^24` resp. `2^16` to the
    conversion), every bandwidth the chip can report, every handle and answer: the conversions to
    `int32_t` are defined. -/
theorem C08_cast_frequency_error : SafeI castBad (fun _ => True) (fun _ => True) rxGetFrequencyError := by
  unfold rxGetFrequencyError
  apply SafeI_getH_bind; intro h _
  apply SafeI_ite
  · intro _
    apply SafeI_sread_bind; intro raw hraw
    refine SafeI_bind_post (fun r _ => ∀ b, r = .ok b → LoraBw b) cs_getBw bw_post ?_
    intro b h' _ hq
    obtain ⟨v, hv⟩ := lora_freq_error_some raw (by simpa using hraw) b (hq b rfl)
    rw [hv]
    exact trivial
  · intro _
    apply SafeI_ite
    · intro _
      apply SafeI_sread_bind; intro raw hraw
      obtain ⟨v, hv, _⟩ := C12_fsk_frequency_error raw (by simpa using hraw)
      rw [hv]
      exact SafeI_pure _
    · intro _; exact SafeI_fail _

end casts2

section beacon
open Sx.Model DM

attribute [local irreducible] DM.rread DM.sread DM.swrite DM.bwrite DM.bread DM.rawbread DM.cb DM.modH DM.setH

instance (u : UB) : Decidable (castBad u) := by unfold castBad; exact inferInstance

abbrev CS (x : DM α) : Prop := SafeI castBad (fun _ => True) (fun _ => True) x

theorem cs_ub (u : UB) (h : u ≠ .castRange) : CS (DM.ub u : DM α) := SafeI_ub u h

theorem cs_checkFskOok : CS checkFskOok := by
  unfold checkFskOok
  apply SafeI_getH_bind; intro h _
  apply SafeI_ite
  · intro _; exact SafeI_fail _
  · intro _; exact SafeI_pure _

theorem cs_packetStore (i : Nat) (v : UInt8) : CS (packetStore i v) := by
  unfold packetStore
  apply SafeI_getH_bind; intro h _
  apply SafeI_ite
  · intro _; exact SafeI_setH _ trivial
  · intro _; exact cs_ub _ (by decide)

theorem cs_packetCopy (off : Nat) (d : List UInt8) : CS (packetCopy off d) := by
  unfold packetCopy
  apply SafeI_getH_bind; intro h _
  apply SafeI_ite
  · intro _; exact SafeI_setH _ trivial
  · intro _; exact cs_ub _ (by decide)

theorem cs_withRemaining (n : UInt16) : CS (fskOokTxWithRemaining n) := by
  unfold fskOokTxWithRemaining
  dsimp only
  apply SafeI_bind (SafeI_modH _ (fun _ _ => trivial)); intro _
  apply SafeI_getH_bind; intro h _
  apply SafeI_ite
  · intro _; exact SafeI_bwrite _ _
  · intro _
    apply SafeI_bind (cs_ub _ (by decide)); intro _
    exact SafeI_bwrite _ _

theorem cs_txSet (data : List UInt8) : CS (fskOokTxSetForTransmission data) := by
  unfold fskOokTxSetForTransmission
  apply SafeI_bind cs_checkFskOok; intro _
  apply SafeI_getH_bind; intro h _
  dsimp only
  apply SafeI_ite
  · intro _; exact SafeI_fail _
  · intro _
    apply SafeI_ite
    · intro _; exact SafeI_fail _
    · intro _
      apply SafeI_ite
      · intro _; exact SafeI_fail _
      · intro _
        apply SafeI_ite
        · intro _
          apply SafeI_bind (cs_packetStore _ _); intro _
          apply SafeI_bind (cs_packetCopy _ _); intro _
          exact cs_withRemaining _
        · intro _
          apply SafeI_bind (cs_packetCopy _ _); intro _
          exact cs_withRemaining _

theorem cs_append (reg : Nat) (v m : UInt8) : CS (appendRegister reg v m) := by
  unfold appendRegister
  apply SafeI_bind (SafeI_rread _); intro _
  exact SafeI_swrite _ _

/-- **the timer selection of the beacon for every `uint32_t` interval** - zero, the documented
    range 1..133620 ms (the table of C14) and everything above it (every intermediate value is a
    positive float and `sx127x_timer_coefficient` saturates): no float is converted out of range -/
theorem C08_beacon_timers_defined (n : Nat) (h2 : n < 2 ^ 32) : ∃ t, beaconTimers n = some t := by
  rcases Nat.lt_or_ge 133620 n with h | h
  · exact beacon_some_large n h h2
  · rcases Nat.eq_zero_or_pos n with h0 | h0
    · subst h0
      have : (beaconTimers 0).isSome = true := by decide +kernel
      exact Option.isSome_iff_exists.mp this
    · obtain ⟨c1, c2, resol, ht, _⟩ := C14_every_interval n h0 h
      exact ⟨_, ht⟩

/-- **C08, `sx127x_fsk_ook_tx_start_beacon`.** For every payload, every `uint32_t` interval
    (outside the documented range too), every handle and answer: the call never reaches a
    float conversion out of range. -/
theorem C08_cast_beacon (data : List UInt8) (iv : Nat) (hiv : iv < 2 ^ 32) :
    SafeI castBad (fun _ => True) (fun _ => True) (fskOokTxStartBeacon data iv) := by
  obtain ⟨⟨c1, c2, resol⟩, ht⟩ := C08_beacon_timers_defined iv hiv
  unfold fskOokTxStartBeacon
  rw [ht]
  apply SafeI_bind cs_checkFskOok; intro _
  apply SafeI_getH_bind; intro h _
  apply SafeI_ite
  · intro _; exact SafeI_fail _
  · intro _
    apply SafeI_ite
    · intro _; exact SafeI_fail _
    · intro _
      dsimp only
      apply SafeI_bind (SafeI_swrite _ _); intro _
      apply SafeI_bind (SafeI_swrite _ _); intro _
      apply SafeI_bind (SafeI_swrite _ _); intro _
      apply SafeI_bind (SafeI_swrite _ _); intro _
      apply SafeI_bind (SafeI_swrite _ _); intro _
      apply SafeI_bind (cs_txSet data); intro _
      apply SafeI_bind (cs_append _ _ _); intro _
      exact SafeI_swrite _ _

end beacon

end Sx
