import Sx.Lemmas.SafeAll
import Sx.Lemmas.Exec
import Sx.Sys
/-
  C08 — memory safety for all air data, chip states and buffer sizes.

  What is proved here, for **every** packet-buffer size `cap` (CONFIG_SX127X_MAX_PACKET_SIZE), every
  argument, every answer of chip and bus (any register content, any FIFO content, any over-the-air
  length byte, any transfer failing), every history and every schedule:

  * no API call and no handler invocation accesses `device->packet` outside `[0, cap)`, reads
    the caller's frequency list outside `[0, frequencies_length)`, dereferences a NULL list,
    divides by zero or shifts a negative value (`memBad` = every kind of undefined behaviour of
    the model except the three below);
  * the handle invariant `HInv` (buffer size; a registered list has `1 ≤ length ≤` its array) is
    preserved, also across application callbacks that call back into the API.

  What is *not* proved here and rests on the sanitizer builds (ASan/UBSan, five buffer sizes) of
  the correspondence check: that no float→integer conversion is out of range (`castRange`; for
  the beacon C14 proves it for all documented intervals, for frequency/bit rate/deviation C12
  proves the value is in range), that the two chip-bounded polling loops terminate (`fuel`), the
  bounds of the shadow arrays (`oobShadow`: C01/C19), and that the length passed to the receive
  callback does not exceed the bytes stored.
-/
namespace Sx
open Sx.Model DM

/-- **C08 (program level).** For every buffer size, every API call (other than `create`) started
    from a handle satisfying the invariant, whatever chip and bus answer. -/
theorem C08_api_memory_safe (cap fuel : Nat) (a : Api) (hc : a.isCreate = false) (hl : a.ListsFit)
    (h : Handle) (hh : HInv cap h) : (Api.prog cap fuel a h).Safe memBad (HInv cap) :=
  (s_api fuel a hc hl).s h hh

/-- `sx127x_create` from any memory content -/
theorem C08_create_memory_safe (cap fuel : Nat) (h : Handle) :
    (Api.prog cap fuel .create h).Safe memBad (HInv cap) := by
  unfold Api.prog
  show ((Model.create cap h).bind _).Safe memBad (HInv cap)
  apply Prog.Safe_bind (s_create h)
  intro ⟨r, h'⟩ hi
  cases r <;> exact hi

/-! ### from programs to executions -/

theorem busReadBuf_len (w : World) (reg n : Nat) (d : List UInt8) (h : (w.busReadBuf reg n).1 = .ok d) : d.length = n := by
  unfold World.busReadBuf at h
  generalize w.pre = p at h
  obtain ⟨w0, code⟩ := p
  cases code with
  | some c => simp at h
  | none =>
    simp only at h
    cases h
    exact readN_length _ _ _


theorem sread_ub {c w reg n u} (h : Shadow.sread c w reg n = .ub u) : u = .oobShadow := by
  unfold Shadow.sread Shadow.sreadMiss Shadow.sreadFill Shadow.busStep at h
  repeat (first | split at h | cases h | rfl | dsimp only at h)
theorem rread_ub {c w reg u} (h : Shadow.rread c w reg = .ub u) : u = .oobShadow := by
  unfold Shadow.rread Shadow.rreadMiss Shadow.busStep1 at h
  repeat (first | split at h | cases h | rfl | dsimp only at h)
theorem swrite_ub {c w reg d u} (h : Shadow.swrite c w reg d = .ub u) : u = .oobShadow := by
  unfold Shadow.swrite Shadow.swriteStore at h
  repeat (first | split at h | cases h | rfl | dsimp only at h)
theorem bwrite_ub {c w reg d u} (h : Shadow.bwrite c w reg d = .ub u) : u = .oobShadow := by
  unfold Shadow.bwrite Shadow.bwriteStore at h
  repeat (first | split at h | cases h | rfl | dsimp only at h)

/-- what an application reaction may do: it leaves a handle satisfying `I` and no excluded
    undefined behaviour -/
def CbOk (bad : UB → Prop) (I : Handle → Prop) (onCb : CbEvent → Handle → World → Outcome Handle) : Prop :=
  ∀ e h w, I h → match onCb e h w with
    | .done h' _ => I h'
    | .ub u _ => ¬bad u

/-- **a safe program executes safely**, in either build, from any world (any chip, cache,
    schedule of environment events, set of failing transfers) -/
theorem execG_safe {α : Type} (bad : UB → Prop) (hsh : ¬bad .oobShadow) (I : Handle → Prop) (cached : Bool)
    (onCb : CbEvent → Handle → World → Outcome Handle) (hcb : CbOk bad I onCb)
    (p : Prog (Except Code α × Handle)) (hp : p.Safe bad I) (w : World) :
    match execG cached onCb p w with
    | .done rh _ => I rh.2
    | .ub u _ => ¬bad u := by
  induction p generalizing w with
  | ret a => exact hp
  | ub u => exact hp
  | sread reg n k ih =>
    simp only [execG]
    cases hs : Shadow.sread cached w reg n with
    | ok r w' => exact ih r (hp r) w'
    | ub u => cases sread_ub hs; exact hsh
  | rread reg k ih =>
    simp only [execG]
    cases hs : Shadow.rread cached w reg with
    | ok r w' => exact ih r (hp r) w'
    | ub u => cases rread_ub hs; exact hsh
  | swrite reg d k ih =>
    simp only [execG]
    cases hs : Shadow.swrite cached w reg d with
    | ok r w' => exact ih r (hp r) w'
    | ub u => cases swrite_ub hs; exact hsh
  | bwrite reg d k ih =>
    simp only [execG]
    cases hs : Shadow.bwrite cached w reg d with
    | ok r w' => exact ih r (hp r) w'
    | ub u => cases bwrite_ub hs; exact hsh
  | bread reg n k ih =>
    simp only [execG]
    have hl := busReadBuf_len w reg n
    generalize w.busReadBuf reg n = br at hl
    obtain ⟨r, w'⟩ := br
    exact ih r (hp r (fun d e => hl d e)) w'
  | rawbread reg n k ih =>
    simp only [execG]
    have hl := busReadBuf_len w reg n
    generalize w.busReadBuf reg n = br at hl
    obtain ⟨r, w'⟩ := br
    exact ih r (hp r (fun d e => hl d e)) w'
  | callback e h k ih =>
    simp only [execG]
    have hc := hcb e h w hp.1
    cases ho : onCb e h w with
    | done h' w' => rw [ho] at hc; exact ih h' (hp.2 h' hc) w'
    | ub u w' => rw [ho] at hc; exact hc

/-! ### the whole system: any history, re-entrant callbacks -/

theorem api_safe (cap fuel : Nat) (a : Api) (hl : a.ListsFit) (h : Handle)
    (hh : a.isCreate = false → HInv cap h) : (Api.prog cap fuel a h).Safe memBad (HInv cap) := by
  cases hc : a.isCreate with
  | false => exact C08_api_memory_safe cap fuel a hc hl h (hh hc)
  | true =>
    have : a = .create := by cases a <;> simp_all [Api.isCreate]
    subst this
    exact C08_create_memory_safe cap fuel h

def Op.Fits : Op → Prop
  | .env _ => True
  | .api a _ _ => a.ListsFit

/-- the calls the application makes inside callbacks hand over lists as long as they say -/
def SysCfg.Fits (c : SysCfg) : Prop :=
  (∀ a, c.onRx = some a → a.ListsFit) ∧ (∀ a, c.onTx = some a → a.ListsFit) ∧ (∀ a, c.onCad = some a → a.ListsFit)

theorem onCb_ok (c : SysCfg) (hc : c.Fits) : CbOk memBad (HInv c.cap) c.toCfg.onCb := by
  intro e h w hh
  unfold Cfg.onCb
  cases hr : c.toCfg.reactionFor e with
  | none => exact hh
  | some re =>
    simp only
    have key : ∀ o : Option Api, (∀ a, o = some a → a.ListsFit) → c.reaction o = some re →
        (re.run h).Safe memBad (HInv c.cap) := by
      intro o hval ho
      cases o with
      | none => simp [SysCfg.reaction] at ho
      | some api =>
        simp only [SysCfg.reaction] at ho
        split at ho
        · cases ho
        · cases ho
          exact api_safe c.cap c.fuel api (hval api rfl) h (fun _ => hh)
    have hall : (re.run h).Safe memBad (HInv c.cap) := by
      cases e with
      | rx d l => exact key c.onRx hc.1 hr
      | tx => exact key c.onTx hc.2.1 hr
      | cad d => exact key c.onCad hc.2.2 hr
    have := execG_safe memBad (by decide) (HInv c.cap) c.toCfg.cached logCb (fun _ _ _ j => j) (re.run h) hall w
    unfold exec0
    cases hx : execG c.toCfg.cached logCb (re.run h) w with
    | done a w' => rw [hx] at this; obtain ⟨r, h'⟩ := a; exact this
    | ub u w' => rw [hx] at this; exact this

/-- the handle of a system, if there is one, satisfies the invariant -/
def SysInv (cap : Nat) (s : Sys) : Prop := ∀ h, s.handle = some h → HInv cap h

/-- **C08 (one operation).** In either build (cache on/off), for every packet-buffer size, any
    chip content, any environment schedule, any set of failing transfers, any application
    reaction inside the callbacks: the operation has none of the excluded undefined behaviours,
    and the handle keeps its invariant. -/
theorem C08_step (c : SysCfg) (hc : c.Fits) (s : Sys) (hs : SysInv c.cap s) (op : Op) (hop : op.Fits) :
    SysInv c.cap (s.step c op).1 ∧ ∀ u, (s.step c op).2 = .ub u → ¬memBad u := by
  cases op with
  | env e => exact ⟨hs, fun u hu => by simp [Sys.step] at hu⟩
  | api a sched faults =>
    unfold Sys.step
    dsimp only
    split
    · exact ⟨hs, fun u hu => by cases hu⟩
    · rename_i hgate
      have hh : a.isCreate = false → HInv c.cap (s.handle.getD {}) := by
        intro hcr
        cases hsh : s.handle with
        | none => exfalso; apply hgate; simp [hsh, hcr]
        | some h => exact hs h hsh
      have := execG_safe memBad (by decide) (HInv c.cap) c.toCfg.cached c.toCfg.onCb (onCb_ok c hc) _
        (api_safe c.cap c.fuel a hop (s.handle.getD {}) hh)
        { s.world with xfer := 0, sched := sched, faults := faults, bus := [], cbs := [],
                       cache := if a.isCreate then Cache.fresh else s.world.cache }
      unfold exec
      generalize execG c.toCfg.cached c.toCfg.onCb (Api.prog c.cap c.fuel a (s.handle.getD {})) _ = out at this
      cases out with
      | ub u w => exact ⟨hs, fun u' hu' => by cases hu'; exact this⟩
      | done rh w =>
        obtain ⟨r', h⟩ := rh
        exact ⟨fun h' e => by cases e; exact this, fun u hu => by cases hu⟩

/-- **C08.** The same for every history. -/
theorem C08_memory_safe (c : SysCfg) (hc : c.Fits) (s : Sys) (hs : SysInv c.cap s) (ops : List Op)
    (hops : ∀ op ∈ ops, op.Fits) :
    SysInv c.cap (Sys.run c s ops).1 ∧ ∀ u, Obs.ub u ∈ (Sys.run c s ops).2 → ¬memBad u := by
  induction ops generalizing s with
  | nil => exact ⟨hs, fun u hu => by cases hu⟩
  | cons op ops ih =>
    have h1 := C08_step c hc s hs op (hops op (List.mem_cons_self ..))
    have h2 := ih (s.step c op).1 h1.1 (fun o ho => hops o (List.mem_cons_of_mem _ ho))
    simp only [Sys.run]
    refine ⟨h2.1, fun u hu => ?_⟩
    rcases List.mem_cons.mp hu with e | e
    · exact h1.2 u e.symm
    · exact h2.2 u e

/-- the fresh system (no handle yet) satisfies the invariant for every buffer size -/
theorem sysInv_fresh (cap : Nat) (w : World) : SysInv cap { world := w, handle := none } := by
  intro h e; cases e

/-- non-vacuity: the excluded classes are inhabited by requests the model does make — a buffer
    access outside `packet` is a node the model can reach (`memBad .oobPacket`), and a concrete
    history delivers a packet through the guarded copy -/
example : memBad .oobPacket ∧ memBad .oobCaller ∧ memBad .nullDeref ∧ memBad .divZero ∧ memBad .shiftNeg := by decide

end Sx
