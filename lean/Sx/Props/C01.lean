import Sx.Sys
import Sx.Lemmas.CohAll
/-
  C01 — the register cache is coherent with the chip.

  For every initial content of both register pages, every history of API calls (any arguments),
  handler invocations, handle re-creations, environment events (the chip changing its own
  status registers, packets arriving, flags being raised — also between the SPI transfers of a
  running call) and any subset of transfers failing: at every point between two calls, every
  cached entry equals what a read of that register would return from the chip now.
-/
namespace Sx
open Mem Chip Cache

/-- what the radio side may do during a session: admissible events only (`chipRand` and pokes of
    configuration registers describe initial states, which the theorem quantifies over anyway) -/
def Op.Admissible : Op → Prop
  | .env e => e.Admissible = true
  | .api _ sched _ => ∀ e ∈ sched, e.2.Admissible = true

theorem SysCfg.cohOk (c : SysCfg) (hc : c.cached = true) : c.toCfg.CohOk := by
  refine ⟨hc, ?_⟩
  intro e re hr h
  have key : ∀ o : Option Api, c.reaction o = some re → (re.run h).All CohReq := by
    intro o ho
    cases o with
    | none => simp [SysCfg.reaction] at ho
    | some api =>
      simp only [SysCfg.reaction] at ho
      split at ho
      · cases ho
      · cases ho
        exact (coh_api c.cap c.fuel api).all h
  cases e with
  | rx d l => exact key c.onRx hr
  | tx => exact key c.onTx hr
  | cad d => exact key c.onCad hr

theorem inv_start {w : World} (i : Inv w) (sched : List (Nat × Env)) (faults : List (Nat × Code))
    (hs : ∀ e ∈ sched, e.2.Admissible = true) (k : Cache) (hk : k.WF) (hc : Coh k w.chip) :
    Inv { w with xfer := 0, sched := sched, faults := faults, bus := [], cbs := [], cache := k } :=
  ⟨i.chip, hk, hc, hs⟩

/-- one step of a history preserves the invariant -/
theorem step_inv (c : SysCfg) (hc : c.cached = true) (s : Sys) (op : Op) (hop : op.Admissible)
    (i : Inv s.world) : Inv (s.step c op).1.world := by
  cases op with
  | env e =>
    have s1 := Env.apply_stable i.chip e hop
    exact ⟨s1.wf, i.cache, coh_stable i.cache i.coh s1, i.sched⟩
  | api a sched faults =>
    unfold Sys.step
    dsimp only
    split
    · exact i
    · have i0 := inv_start i sched faults hop (if a.isCreate then Cache.fresh else s.world.cache)
        (by split; exact fresh_wf; exact i.cache) (by split; exact fresh_coh _; exact i.coh)
      have ie := exec_inv c.toCfg (c.cohOk hc) _ ((coh_api c.cap c.fuel a).all (s.handle.getD {})) _ i0
      generalize exec c.toCfg (Api.prog c.cap c.fuel a (s.handle.getD {})) _ = out at ie
      cases out with
      | ub u w => exact ie
      | done rh w =>
        obtain ⟨r, h⟩ := rh
        have ie' : Inv w := ie
        have s1 := foldl_env_stable ie'.chip w.sched ie'.sched (fun e => decide (e.1 ≥ w.xfer))
        refine ⟨?_, ie'.cache, ?_, ?_⟩
        · simpa using s1.wf
        · have := coh_stable ie'.cache ie'.coh s1
          simpa using this
        · intro e he; cases he

theorem run_inv (c : SysCfg) (hc : c.cached = true) (s : Sys) (ops : List Op) (hops : ∀ op ∈ ops, op.Admissible)
    (i : Inv s.world) : Inv (Sys.run c s ops).1.world := by
  induction ops generalizing s with
  | nil => exact i
  | cons op rest ih =>
    simp only [Sys.run]
    exact ih (s.step c op).1 (fun o ho => hops o (List.mem_cons_of_mem _ ho))
      (step_inv c hc s op (hops op (List.mem_cons_self ..)) i)

/-- **C01.** After any admissible history from any initial chip, every cached register entry
    equals the value a read of that address returns from the chip in its currently selected
    page. -/
theorem C01_cache_coherent (c : SysCfg) (hc : c.cached = true) (chip0 : Chip) (hw : chip0.WF)
    (ops : List Op) (hops : ∀ op ∈ ops, op.Admissible) :
    let s := (Sys.run c { world := { chip := chip0 }, handle := none } ops).1
    ∀ a, a ≤ 0x70 → s.world.cache.isCached a = true → s.world.cache.vals.rd a = s.world.chip.peek a := by
  intro s a ha hcached
  have i0 : Inv ({ chip := chip0 } : World) := ⟨hw, fresh_wf, fresh_coh _, fun e he => by cases he⟩
  have i := run_inv c hc { world := { chip := chip0 }, handle := none } ops hops i0
  have haN : a < Cache.N := by rw [N_eq]; omega
  rw [i.coh a haN hcached, peek_eq_cell (not_vol_of_cached i.cache haN hcached)]

/-- the hypotheses are satisfiable and the conclusion is not vacuous: a concrete history after
    which a register is cached -/
example : let s := (Sys.run {} { world := { chip := Chip.init }, handle := none }
      [.api .create [] [], .api (.writeRegister 0x39 0x34) [] [], .env (.loraFlags 0x40)]).1
    s.world.cache.isCached 0x39 = true ∧ s.world.cache.vals.rd 0x39 = 0x34 ∧ s.world.chip.peek 0x39 = 0x34 := by
  decide +kernel

end Sx
