import Sx.Lemmas.FailFastAll
import Sx.Props.C13
import Sx.Lemmas.RxLen
/-
  C15 — mode changes keep handle, chip mode and interrupt routing consistent.
-/
set_option linter.unusedSimpArgs false

namespace Sx
open Sx.Model DM Mem Chip

/-- datasheet: RegDioMapping1 after entering a mode (`old` = previous content).
    LoRa RX: DIO0 RxDone, DIO1 RxTimeout, DIO2 FhssChangeChannel, DIO3 CadDone (0x00);
    LoRa TX: DIO0 TxDone, DIO1 FhssChangeChannel (0x50); CAD: DIO0 CadDone, DIO1..3 untouched;
    FSK/OOK RX: DIO0 PayloadReady, DIO1 FifoLevel, DIO2 SyncAddress, DIO3 untouched;
    FSK/OOK TX: DIO0 PacketSent, DIO1 FifoLevel, DIO2 FifoFull, DIO3 FifoEmpty (0x00). -/
def dio1Spec (opmod modulation : Nat) (old : UInt8) : UInt8 :=
  if modulation = 0x80 then
    if opmod = 5 ∨ opmod = 6 then 0x00 else if opmod = 3 then 0x50
    else if opmod = 7 then (old &&& 0x3f) ||| 0x80 else old
  else
    if opmod = 5 ∨ opmod = 6 then (old &&& 0x03) ||| 0x0c else if opmod = 3 then 0x00 else old

/-- RegDioMapping2: FSK/OOK RX claims DIO4 (PreambleDetect) and MapPreambleDetect; DIO5 untouched -/
def dio2Spec (opmod modulation : Nat) (old : UInt8) : UInt8 :=
  if modulation ≠ 0x80 ∧ (opmod = 5 ∨ opmod = 6) then (old &&& 0x3e) ||| 0xc1 else old

/-- unclaimed pins keep their routing -/
theorem dio_unclaimed (old : UInt8) :
    -- CAD keeps DIO1..DIO3
    ((old &&& 0x3f) ||| 0x80) &&& 0x3f = old &&& 0x3f ∧
    -- FSK/OOK RX keeps DIO3 (RegDioMapping1 bits 1-0) and DIO5 (RegDioMapping2 bits 5-4)
    ((old &&& 0x03) ||| 0x0c) &&& 0x03 = old &&& 0x03 ∧
    ((old &&& 0x3e) ||| 0xc1) &&& 0x30 = old &&& 0x30 := by
  refine ⟨?_, ?_, ?_⟩ <;> byte_bits

theorem wr_rd_self (m : Mem) (a : Nat) : m.wr a (m.rd a) = m := by
  unfold Mem.wr Mem.rd
  by_cases h : a < m.length
  · apply List.ext_getElem (by simp)
    intro i h1 h2
    by_cases hia : a = i
    · subst hia; simp [List.getD, h]
    · simp [List.getElem_set, hia]
  · simp [List.set_eq_of_length_le (Nat.le_of_not_lt h)]

/-- writes of the mode-change function to shared registers -/
theorem write_40 (c : Chip) (v : UInt8) : c.write 0x40 v = { c with shared := c.shared.wr 0x40 v } :=
  write_shared c 0x40 v (by decide) (by decide) (by decide)
theorem write_41 (c : Chip) (v : UInt8) : c.write 0x41 v = { c with shared := c.shared.wr 0x41 v } :=
  write_shared c 0x41 v (by decide) (by decide) (by decide)
theorem write_01 (c : Chip) (v : UInt8) : c.write 0x01 v = { c with shared := c.shared.wr 0x01 v } :=
  write_shared c 0x01 v (by decide) (by decide) (by decide)

/-- the chip after a LoRa mode change, by the datasheet table -/
def loraModeSpec (opmod : Nat) (c : Chip) : Chip :=
  { c with shared := (c.shared.wr 0x40 (dio1Spec opmod 0x80 (c.shared.rd 0x40))).wr 0x01 (u8 opmod ||| 0x80) }

/-- **C15, LoRa.** For all eight modes with the LoRa modulation, from any previous mode and
    modulation, any prior register content: the call succeeds, RegOpMode := mode | 0x80,
    RegDioMapping1 as the datasheet table says (DIO4/DIO5, i.e. RegDioMapping2, untouched; for
    CAD also DIO1..DIO3; for the other modes all of it), the handle records the new mode and
    modulation, nothing else changes. -/
theorem C15_lora (opmod : Nat) (ho : opmod < 8) (h : Handle) (c : Chip) :
    wp (setOpmod opmod 0x80) h ⟨c, [], []⟩ (fun r h' s' =>
      r = .ok () ∧ h' = setActiveModem opmod 0x80 h ∧ s'.chip = loraModeSpec opmod c) := by
  have hcases : opmod = 0 ∨ opmod = 1 ∨ opmod = 2 ∨ opmod = 3 ∨ opmod = 4 ∨ opmod = 5 ∨ opmod = 6 ∨ opmod = 7 := by omega
  unfold setOpmod loraModeSpec appendRegister
  rcases hcases with rfl | rfl | rfl | rfl | rfl | rfl | rfl | rfl <;>
    simp only [show Gen.SX127x_MODULATION_LORA = 0x80 from rfl, show Gen.SX127x_MODE_RX_CONT = 5 from rfl,
      show Gen.SX127x_MODE_RX_SINGLE = 6 from rfl, show Gen.SX127x_MODE_TX = 3 from rfl, show Gen.SX127x_MODE_CAD = 7 from rfl,
      ↓reduceIte, wp_bind, wp_swrite, wp_rread, wp_pure, wp_modH, writeN_one, show Gen.REGDIOMAPPING1 = 0x40 from rfl,
      show Gen.REGOPMODE = 0x01 from rfl, Nat.reduceEqDiff, or_false, false_or, or_self, or_true, true_or,
      write_40, write_01, dio1Spec, wr_rd_self, readN_one _ 0x40 (by decide), show (0x40 % 128) = 0x40 from rfl,
      peek_shared _ 0x40 (by decide), be32_single]
  all_goals first
    | exact ⟨by trivial, by trivial, by trivial⟩
    | (refine ⟨by trivial, by trivial, ?_⟩; rfl)
    | trace_state


/-- the chip after an FSK/OOK mode change while the FSK/OOK page is selected, by the datasheet:
    RX: DIO0..2 and DIO4 routed, FIFO threshold 31, RegOpMode written;
    TX: DIO mapping for PacketSent / FifoLevel / FifoFull / FifoEmpty, TxStartCondition FifoEmpty +
    threshold 31, sequencer armed (RegSeqConfig1 = 0x90), RegOpMode *not* written;
    other modes: RegOpMode only. -/
def fskModeSpec (opmod modulation : Nat) (c : Chip) : Chip :=
  if opmod = 5 ∨ opmod = 6 then
    { c with shared := (((c.shared.wr 0x40 (dio1Spec opmod modulation (c.shared.rd 0x40))).wr 0x41
                          (dio2Spec opmod modulation (c.shared.rd 0x41))).wr 0x01 (u8 opmod ||| u8 modulation)),
             fsk := c.fsk.wr 0x35 0x1f }
  else if opmod = 3 then
    { c with shared := c.shared.wr 0x40 0x00, fsk := (c.fsk.wr 0x35 0x9f).wr 0x36 0x90 }
  else { c with shared := c.shared.wr 0x01 (u8 opmod ||| u8 modulation) }

theorem write_35 (c : Chip) (v : UInt8) (hl : c.isLora = false) : c.write 0x35 v = { c with fsk := c.fsk.wr 0x35 v } :=
  write_fsk c 0x35 v hl (by decide) (by decide) (by decide) (by decide)
theorem write_36 (c : Chip) (v : UInt8) (hl : c.isLora = false) : c.write 0x36 v = { c with fsk := c.fsk.wr 0x36 v } :=
  write_fsk c 0x36 v hl (by decide) (by decide) (by decide) (by decide)

theorem isLora_shared_40 (c : Chip) (v : UInt8) : ({ c with shared := c.shared.wr 0x40 v } : Chip).isLora = c.isLora := by
  simp [isLora, rd_wr_ne _ 0x40 1 _ (by decide)]
theorem isLora_shared_41 (c : Chip) (m : Mem) (v : UInt8) (hm : m.rd 1 = c.shared.rd 1) :
    ({ c with shared := m.wr 0x41 v } : Chip).isLora = c.isLora := by
  simp [isLora, rd_wr_ne _ 0x41 1 _ (by decide), hm]

/-- **C15, FSK and OOK.** For all eight modes with the FSK or OOK modulation, when the chip's
    FSK/OOK register page is the selected one, any prior register content: the call succeeds
    and leaves the chip exactly as the datasheet table prescribes (`fskModeSpec`), and the handle
    records the new mode and modulation. -/
theorem C15_fsk_ook (opmod modulation : Nat) (ho : opmod < 8) (hmod : modulation = 0x00 ∨ modulation = 0x20)
    (h : Handle) (c : Chip) (hl : c.isLora = false) :
    wp (setOpmod opmod modulation) h ⟨c, [], []⟩ (fun r h' s' =>
      r = .ok () ∧ h' = setActiveModem opmod modulation h ∧ s'.chip = fskModeSpec opmod modulation c) := by
  have hcases : opmod = 0 ∨ opmod = 1 ∨ opmod = 2 ∨ opmod = 3 ∨ opmod = 4 ∨ opmod = 5 ∨ opmod = 6 ∨ opmod = 7 := by omega
  have hl40 : ∀ v, ({ c with shared := c.shared.wr 0x40 v } : Chip).isLora = false := fun v => by rw [isLora_shared_40, hl]
  have hl41 : ∀ v w, ({ c with shared := (c.shared.wr 0x40 v).wr 0x41 w } : Chip).isLora = false := fun v w => by
    rw [isLora_shared_41 c _ w (rd_wr_ne _ 0x40 1 _ (by decide)), hl]
  have hl40f : ∀ v m, ({ c with shared := c.shared.wr 0x40 v, fsk := m } : Chip).isLora = false := fun v m => hl40 v
  unfold setOpmod fskModeSpec appendRegister
  rcases hmod with rfl | rfl <;>
  rcases hcases with rfl | rfl | rfl | rfl | rfl | rfl | rfl | rfl <;>
    simp only [show Gen.SX127x_MODULATION_LORA = 0x80 from rfl, show Gen.SX127x_MODULATION_FSK = 0x00 from rfl,
      show Gen.SX127x_MODULATION_OOK = 0x20 from rfl, show Gen.SX127x_MODE_RX_CONT = 5 from rfl,
      show Gen.SX127x_MODE_RX_SINGLE = 6 from rfl, show Gen.SX127x_MODE_TX = 3 from rfl, show Gen.SX127x_MODE_CAD = 7 from rfl,
      ↓reduceIte, wp_bind, wp_swrite, wp_rread, wp_pure, wp_modH, writeN_one, show Gen.REGDIOMAPPING1 = 0x40 from rfl,
      show Gen.REGDIOMAPPING2 = 0x41 from rfl, show Gen.REGFIFOTHRESH = 0x35 from rfl, show Gen.REGSEQCONFIG1 = 0x36 from rfl,
      show Gen.REGOPMODE = 0x01 from rfl, Nat.reduceEqDiff, or_false, false_or, or_self, or_true, true_or,
      write_40, write_41, write_01, dio1Spec, dio2Spec, readN_one _ 0x40 (by decide), readN_one _ 0x41 (by decide),
      show (0x40 % 128) = 0x40 from rfl, show (0x41 % 128) = 0x41 from rfl,
      peek_shared _ 0x40 (by decide), peek_shared _ 0x41 (by decide), be32_single,
      rd_wr_ne _ 0x40 0x41 _ (by decide), Nat.reduceEqDiff, ne_eq, not_false_eq_true, and_self, true_and, and_true]
  all_goals first
    | exact ⟨by trivial, by trivial, by trivial⟩
    | (refine ⟨by trivial, by trivial, ?_⟩; rfl)
    | (simp only [write_35, write_36, isLora_fsk_upd, hl40, hl41, hl40f, write_01]
       first
         | exact ⟨by trivial, by trivial, by trivial⟩
         | (refine ⟨by trivial, by trivial, ?_⟩; rfl)
         | rfl
         | trace_state)


/-- **C15, unknown modulation.** A modulation value other than the three enumerators is rejected
    before any request is issued: the program is a plain return, for every handle. -/
theorem C15_unknown_modulation (opmod modulation : Nat) (h : Handle)
    (hm : modulation ≠ 0x80 ∧ modulation ≠ 0x00 ∧ modulation ≠ 0x20) :
    setOpmod opmod modulation h = .ret (.error Gen.SX127X_ERR_INVALID_ARG, h) := by
  unfold setOpmod
  simp only [show Gen.SX127x_MODULATION_LORA = 0x80 from rfl, show Gen.SX127x_MODULATION_FSK = 0x00 from rfl,
    show Gen.SX127x_MODULATION_OOK = 0x20 from rfl, hm.1, hm.2.1, hm.2.2, ↓reduceIte, or_self]
  rfl

/-- the regenerated enumerators are the datasheet's mode and modulation codes -/
theorem enum_modes_are_datasheet :
    Gen.enum_sx127x_mode_t = [0, 1, 2, 3, 4, 5, 6, 7] ∧ Gen.enum_sx127x_modulation_t = [0x80, 0x00, 0x20] := by decide

/-- non-vacuity: entering FSK RX from a chip in FSK standby routes DIO and selects the mode -/
example : (fskModeSpec 5 0 Chip.init).shared.rd 0x01 = 0x05 ∧ (fskModeSpec 5 0 Chip.init).shared.rd 0x40 = 0x0c
    ∧ (fskModeSpec 5 0 Chip.init).fsk.rd 0x35 = 0x1f ∧ Chip.init.isLora = false := by decide +kernel


/-- the call switches between the LoRa modem and the FSK/OOK modem -/
def CrossesModems (h : Handle) (modulation : Nat) : Prop :=
  (h.activeModem = Gen.SX127x_MODULATION_LORA) ≠ (modulation = Gen.SX127x_MODULATION_LORA)
/-- the call starts the FSK/OOK receiver (from a mode other than the requested one) -/
def StartsFskRx (h : Handle) (opmod modulation : Nat) : Prop :=
  modulation ≠ Gen.SX127x_MODULATION_LORA ∧ (opmod = Gen.SX127x_MODE_RX_CONT ∨ opmod = Gen.SX127x_MODE_RX_SINGLE) ∧ h.opmod ≠ opmod

theorem resetState_idem (h : Handle) : resetState (resetState h) = resetState h := rfl
theorem resetState_opmod (h : Handle) : (resetState h).opmod = h.opmod := rfl

theorem setActiveModem_reset (opmod modulation : Nat) (h : Handle)
    (hx : CrossesModems h modulation ∨ StartsFskRx h opmod modulation) :
    setActiveModem opmod modulation h = { resetState h with activeModem := modulation, opmod := opmod } := by
  unfold setActiveModem CrossesModems StartsFskRx at *
  dsimp only
  split <;> split
  · rfl
  · rfl
  · rfl
  · rename_i h1 h2; exact absurd hx (fun e => e.elim h1 h2)

theorem setActiveModem_keep (opmod modulation : Nat) (h : Handle)
    (hx : ¬ (CrossesModems h modulation ∨ StartsFskRx h opmod modulation)) :
    setActiveModem opmod modulation h = { h with activeModem := modulation, opmod := opmod } := by
  unfold setActiveModem CrossesModems StartsFskRx at *
  dsimp only
  split <;> split
  · rename_i h1 _; exact absurd (Or.inl h1) hx
  · rename_i h1 _; exact absurd (Or.inl h1) hx
  · rename_i _ h2; exact absurd (Or.inr h2) hx
  · rfl

/-- **C15, what the handle records.** The new mode and modulation; when the call switches between
    the LoRa modem and the FSK/OOK modem, or starts the FSK/OOK receiver, the packet in progress
    (expected length, bytes sent or received so far, FSK RSSI sample) is forgotten — it belongs
    to the modem that is left, or to a transmission or reception that was abandoned; otherwise
    nothing else changes.  Every other field is kept in either case. -/
theorem C15_handle_after (opmod modulation : Nat) (h : Handle) :
    let h' := setActiveModem opmod modulation h
    h'.activeModem = modulation ∧ h'.opmod = opmod ∧
    ((CrossesModems h modulation ∨ StartsFskRx h opmod modulation) →
        h' = { resetState h with activeModem := modulation, opmod := opmod } ∧ h'.expected = 0 ∧ h'.received = 0) ∧
    (¬ (CrossesModems h modulation ∨ StartsFskRx h opmod modulation) →
        h' = { h with activeModem := modulation, opmod := opmod }) ∧
    h'.implicitHeader = h.implicitHeader ∧ h'.rxCb = h.rxCb ∧ h'.txCb = h.txCb ∧ h'.cadCb = h.cadCb ∧
    h'.packet = h.packet ∧ h'.format = h.format ∧ h'.crcType = h.crcType ∧ h'.freqs = h.freqs ∧
    h'.freqLen = h.freqLen ∧ h'.curFreq = h.curFreq := by
  intro h'
  by_cases hx : CrossesModems h modulation ∨ StartsFskRx h opmod modulation
  · have e : h' = { resetState h with activeModem := modulation, opmod := opmod } := setActiveModem_reset opmod modulation h hx
    rw [e]
    exact ⟨rfl, rfl, fun _ => ⟨rfl, rfl, rfl⟩, fun n => absurd hx n, rfl, rfl, rfl, rfl, rfl, rfl, rfl, rfl, rfl, rfl⟩
  · have e : h' = { h with activeModem := modulation, opmod := opmod } := setActiveModem_keep opmod modulation h hx
    rw [e]
    exact ⟨rfl, rfl, fun y => absurd y hx, fun _ => rfl, rfl, rfl, rfl, rfl, rfl, rfl, rfl, rfl, rfl, rfl⟩

/-- **C15, the handle after a successful mode change**, for every mode, modulation, handle and
    every answer of chip and bus (no assumption on the chip at all): whenever `sx127x_set_opmod`
    reports success the handle is `setActiveModem opmod modulation` of the old one. -/
theorem C15_handle_on_success (opmod modulation : Nat) (h : Handle) :
    (setOpmod opmod modulation h).fwp false
      (fun _ rh => rh.1 = .ok () → rh.2 = setActiveModem opmod modulation h) := by
  unfold setOpmod appendRegister
  simp only [DM.fwp_bind', DM.fwp_rread, DM.fwp_swrite, DM.fwp_modH, DM.fwp_ite, DM.fwp_fail]
  repeat' split
  all_goals simp

/-- **Switching modems, and starting the FSK/OOK receiver, start from a clean packet state** (the
    hypothesis `expected = 0` of the C05 theorems and `expected = 0 ∧ received = 0` of C03's
    `rx_start`): a successful mode change from FSK/OOK into LoRa or from LoRa into FSK/OOK, and a
    successful start of the FSK/OOK receiver from any other mode, leave no expected length and no
    byte count behind — whatever an abandoned transmission, a half-received packet or a configured
    implicit-header length had left in the handle, and whatever the chip answers. -/
theorem C15_modem_switch_forgets_packet (opmod modulation : Nat) (h : Handle)
    (hx : CrossesModems h modulation ∨ StartsFskRx h opmod modulation) :
    (setOpmod opmod modulation h).fwp false
      (fun _ rh => rh.1 = .ok () → rh.2.expected = 0 ∧ rh.2.received = 0 ∧ rh.2.activeModem = modulation) := by
  refine Prog.fwp_mono _ _ _ _ ?_ (C15_handle_on_success opmod modulation h)
  intro f rh hq hok
  rw [hq hok]
  have := C15_handle_after opmod modulation h
  exact ⟨(this.2.2.1 hx).2.1, (this.2.2.1 hx).2.2, this.1⟩

/-- non-vacuity: a handle in FSK with a 101-byte frame half sent enters LoRa sleep; a handle in FSK
    standby with a half-received packet starts the receiver; a mode change that does neither keeps
    the frame that was queued for transmission -/
example : (setActiveModem 0 0x80 { activeModem := 0, expected := 101, received := 64 }).expected = 0 := by decide
example : (setActiveModem 5 0 { activeModem := 0, opmod := 1, expected := 120, received := 30 }).received = 0 := by decide
example : (setActiveModem 3 0 { activeModem := 0, opmod := 1, expected := 101, received := 64 }).expected = 101 := by decide

/-- **A frame queued under FSK may be sent as OOK and vice versa** (both run the same packet engine):
    entering transmit mode - or any mode other than receive - in FSK or OOK from FSK or OOK keeps the
    frame progress (expected length, bytes handed over so far) exactly as it was. -/
theorem C15_fsk_ook_change_keeps_frame (opmod modulation : Nat) (h : Handle)
    (hm : modulation = Gen.SX127x_MODULATION_FSK ∨ modulation = Gen.SX127x_MODULATION_OOK)
    (ha : h.activeModem = Gen.SX127x_MODULATION_FSK ∨ h.activeModem = Gen.SX127x_MODULATION_OOK)
    (hop : opmod ≠ Gen.SX127x_MODE_RX_CONT ∧ opmod ≠ Gen.SX127x_MODE_RX_SINGLE) :
    (setActiveModem opmod modulation h).expected = h.expected ∧
    (setActiveModem opmod modulation h).received = h.received ∧
    (setActiveModem opmod modulation h).packet = h.packet := by
  have hnot : ¬ (CrossesModems h modulation ∨ StartsFskRx h opmod modulation) := by
    intro hx
    rcases hx with hc | hs
    · unfold CrossesModems at hc
      apply hc
      have h1 : ¬ (h.activeModem = Gen.SX127x_MODULATION_LORA) := by
        rcases ha with e | e <;> rw [e] <;> decide
      have h2 : ¬ (modulation = Gen.SX127x_MODULATION_LORA) := by
        rcases hm with e | e <;> rw [e] <;> decide
      exact propext ⟨fun a => absurd a h1, fun a => absurd a h2⟩
    · exact hs.2.1.elim hop.1 hop.2
  rw [setActiveModem_keep opmod modulation h hnot]
  exact ⟨rfl, rfl, rfl⟩

section failure
open DM
theorem KeepH_swrite (reg : Nat) (d : List UInt8) : KeepH (swrite reg d) := ⟨fun _ _ => by simp [DM.swrite, Prog.fwp]⟩
theorem keep_append (reg : Nat) (v m : UInt8) : KeepH (appendRegister reg v m) := by
  unfold appendRegister
  exact KeepH_bind (KeepH_rread _) (fun _ => KeepH_swrite _ _)
theorem fs_append (reg : Nat) (v m : UInt8) : FS (appendRegister reg v m) := by
  unfold appendRegister
  exact FS_bind (FS_rread _) (fun _ => FS_swrite _ _)

/-- **C15, failure clause.** For every mode and modulation value, every handle and every answer
    of chip and bus: if any transfer of `sx127x_set_opmod` fails, the handle is exactly what it
    was (so the handle's modulation and mode change only if the call succeeds). -/
theorem C15_handle_unchanged_on_failure (opmod modulation : Nat) : TX (setOpmod opmod modulation) := by
  unfold setOpmod
  dsimp only
  have fin : TX (do swrite Gen.REGOPMODE [u8 opmod ||| u8 modulation]
                    modH (setActiveModem opmod modulation)) :=
    TX_bind_keep (KeepH_swrite _ _) (FS_swrite _ _) (fun _ => ⟨fun _ e => by cases e⟩)
  have modT : ∀ (g : Handle → Handle), TX (modH g) := fun g => ⟨fun _ e => by cases e⟩
  split
  · -- LoRa
    split
    · apply TX_bind_keep (KeepH_swrite _ _) (FS_swrite _ _); intro _
      exact fin
    · split
      · apply TX_bind_keep (KeepH_swrite _ _) (FS_swrite _ _); intro _
        exact fin
      · split
        · apply TX_bind_keep (keep_append _ _ _) (fs_append _ _ _); intro _
          exact fin
        · exact fin
  · split
    · -- FSK / OOK
      split
      · apply TX_bind_keep (keep_append _ _ _) (fs_append _ _ _); intro _
        apply TX_bind_keep (keep_append _ _ _) (fs_append _ _ _); intro _
        apply TX_bind_keep (KeepH_swrite _ _) (FS_swrite _ _); intro _
        exact fin
      · split
        · apply TX_bind_keep (KeepH_swrite _ _) (FS_swrite _ _); intro _
          apply TX_bind_keep (KeepH_swrite _ _) (FS_swrite _ _); intro _
          apply TX_bind_keep (KeepH_swrite _ _) (FS_swrite _ _); intro _
          exact modT _
        · exact fin
    · exact TX_of_keepH (KeepH_fail _)
end failure

end Sx
