import Sx.Lemmas.FloatSigned
import Sx.Lemmas.FloatOps
import Sx.Lemmas.RxLen
/-
  C12 — physical quantities are encoded and decoded within one register step.

  The float code of the driver is modelled in soft-float over `Rat` (Sx/F.lean, compared bit for
  bit with gcc on every run); the theorems are about that model and hold for *every* request in
  the documented ranges, not for samples: they rest on general facts about round-to-nearest
  (Sx/Lemmas/Rnd.lean: relative error 2^-p, exactness on integers, `floor (rnd x) ≥ floor x`).
-/
namespace Sx
open Sx.Model

/-- **C12, carrier frequency (encode).** For every carrier from 137 MHz to 1020 MHz in 1 Hz steps
    the three bytes written to RegFrf are the big-endian bytes of a 24-bit value whose realised
    frequency `Frf * 32 MHz / 2^19` differs from the request by less than 250 Hz. -/
theorem C12_set_frequency (f : UInt64) (h1 : 137000000 ≤ f.toNat) (h2 : f.toNat ≤ 1020000000) :
    ∃ adj : Nat, frfOf f = some [u8 (adj / 65536), u8 (adj / 256), u8 adj] ∧ adj < 2 ^ 24 ∧
      |(adj : Rat) * 32000000 / 524288 - (f.toNat : Rat)| < 250 := by
  unfold frfOf
  simp only
  rw [shift19 f h2, osc_value]
  unfold F.ofNat
  have hX1 : (1 : Rat) ≤ ((f.toNat * 524288 : Nat) : Rat) := by
    have : 1 ≤ f.toNat * 524288 := by omega
    exact_mod_cast this
  have hX2 : ((f.toNat * 524288 : Nat) : Rat) ≤ (2 : Rat) ^ (100 : Int) := by
    have : f.toNat * 524288 ≤ 534773760000000 := by omega
    have h' : ((f.toNat * 524288 : Nat) : Rat) ≤ 534773760000000 := by exact_mod_cast this
    have : (534773760000000 : Rat) ≤ (2 : Rat) ^ (100 : Int) := by norm_num
    linarith
  obtain ⟨r1, e1⟩ := round32 _ hX1 hX2
  rw [r1]
  set X : Rat := ((f.toNat * 524288 : Nat) : Rat) with hXdef
  set A := rnd 24 (-126) X with hA
  have hXlo : (71827456000000 : Rat) ≤ X := by
    have : 71827456000000 ≤ f.toNat * 524288 := by omega
    rw [hXdef]; exact_mod_cast this
  have hXhi : X ≤ 534773760000000 := by
    have : f.toNat * 524288 ≤ 534773760000000 := by omega
    rw [hXdef]; exact_mod_cast this
  have hu : (2 : Rat) ^ (-(24 : Int)) = 1 / 16777216 := by norm_num
  rw [hu] at e1
  have a1 := abs_le.mp e1
  -- the quotient
  have hdiv : F.div b32 (F.fin A) (F.fin 32000000) = F.round b32 (A / 32000000) := by
    unfold F.div
    simp only
    rw [if_neg (by norm_num)]
  rw [hdiv]
  have hB1 : (1 : Rat) ≤ A / 32000000 := by
    rw [le_div_iff₀ (by norm_num)]; linarith [a1.1]
  have hB2 : A / 32000000 ≤ (2 : Rat) ^ (100 : Int) := by
    rw [div_le_iff₀ (by norm_num)]
    have : (2 : Rat) ^ (100 : Int) * 32000000 ≥ 534773760000000 * 2 := by norm_num
    linarith [a1.2]
  obtain ⟨r2, e2⟩ := round32 _ hB1 hB2
  rw [r2]
  set Q := rnd 24 (-126) (A / 32000000) with hQ
  rw [hu] at e2
  have a2 := abs_le.mp e2
  have hAB : A / 32000000 = A * (1 / 32000000) := by ring
  -- bounds on Q around x = X / 32e6
  have q_lo : X / 32000000 - 2 ≤ Q := by
    have : X / 32000000 = X * (1 / 32000000) := by ring
    rw [hAB] at a2; rw [this]
    nlinarith [a1.1, a1.2, a2.1, a2.2]
  have q_hi : Q ≤ X / 32000000 + 2 := by
    have : X / 32000000 = X * (1 / 32000000) := by ring
    rw [hAB] at a2; rw [this]
    nlinarith [a1.1, a1.2, a2.1, a2.2]
  have hQpos : 0 < Q := by linarith
  have hfl1 := Rat.floor_le Q
  have hfl2 := Rat.lt_floor_add_one Q
  push_cast at hfl2
  have hfl0 : 0 ≤ Q.floor := by
    rw [rfloor_eq]; exact Int.floor_nonneg.mpr (le_of_lt hQpos)
  have hflhi : Q.floor < 16777216 := by
    have : (Q.floor : Rat) < 16777216 := by linarith
    exact_mod_cast this
  refine ⟨Q.floor.toNat, ?_, ?_, ?_⟩
  · unfold F.toUInt F.truncQ
    simp only
    rw [if_neg (not_lt.mpr (le_of_lt hQpos))]
    have : (0 ≤ Q.floor ∧ Q.floor < (2 : Int) ^ 64) := ⟨hfl0, by omega⟩
    rw [if_pos this]
  · have : (Q.floor.toNat : Int) = Q.floor := Int.toNat_of_nonneg hfl0
    omega
  · have hc : ((Q.floor.toNat : Nat) : Rat) = (Q.floor : Rat) := by
      have : (Q.floor.toNat : Int) = Q.floor := Int.toNat_of_nonneg hfl0
      exact_mod_cast this
    rw [hc]
    have hf : (f.toNat : Rat) = X / 524288 := by
      rw [hXdef]; push_cast; ring
    rw [hf, abs_lt]
    constructor <;> nlinarith [hfl1, hfl2, q_lo, q_hi]

/-- **C12, carrier frequency (decode).** For every non-zero 24-bit content of RegFrf,
    `sx127x_get_frequency` returns a value within 250 Hz of `Frf * 32 MHz / 2^19`. -/
theorem C12_get_frequency (raw : UInt32) (h0 : 0 < raw.toNat) (h : raw.toNat < 2 ^ 24) :
    ∃ r : Nat, freqOfRaw raw = some r ∧ |(r : Rat) - (raw.toNat : Rat) * 32000000 / 524288| < 250 := by
  unfold freqOfRaw
  simp only
  rw [osc_value, ofNat32_exact raw.toNat h0 h]
  have hmul : F.mul b32 (F.fin (raw.toNat : Rat)) (F.fin 32000000) = F.round b32 ((raw.toNat : Rat) * 32000000) := rfl
  rw [hmul]
  set n : Rat := (raw.toNat : Rat) with hn
  have hn1 : (1 : Rat) ≤ n := by rw [hn]; exact_mod_cast h0
  have hn2 : n < 16777216 := by rw [hn]; exact_mod_cast h
  have hq1 : (1 : Rat) ≤ n * 32000000 := by nlinarith
  have hq2 : n * 32000000 ≤ (2 : Rat) ^ (100 : Int) := by
    have : (16777216 : Rat) * 32000000 ≤ (2 : Rat) ^ (100 : Int) := by norm_num
    nlinarith
  obtain ⟨r1, e1⟩ := round32 _ hq1 hq2
  rw [r1]
  set P := rnd 24 (-126) (n * 32000000) with hP
  have hu : (2 : Rat) ^ (-(24 : Int)) = 1 / 16777216 := by norm_num
  rw [hu] at e1
  have a1 := abs_le.mp e1
  have hPpos : 0 < P := by nlinarith [a1.1]
  have hfl1 := Rat.floor_le P
  have hfl2 := Rat.lt_floor_add_one P
  push_cast at hfl2
  have hfl0 : 0 ≤ P.floor := by rw [rfloor_eq]; exact Int.floor_nonneg.mpr (le_of_lt hPpos)
  have hflhi : P.floor < (2 : Int) ^ 64 := by
    have h1 : (P.floor : Rat) ≤ P := hfl1
    have h2 : P ≤ n * 32000000 + n * 32000000 * (1 / 16777216) := by linarith [a1.2]
    have h3 : (P.floor : Rat) < 1073741824000000 := by nlinarith
    have : P.floor < 1073741824000000 := by exact_mod_cast h3
    omega
  have htu : F.toUInt 64 (F.fin P) = some P.floor.toNat := by
    unfold F.toUInt F.truncQ
    simp only
    rw [if_neg (not_lt.mpr (le_of_lt hPpos)), if_pos ⟨hfl0, hflhi⟩]
  rw [htu]
  refine ⟨P.floor.toNat / 2 ^ 19, rfl, ?_⟩
  -- v = floor P, r = v / 2^19
  set v := P.floor.toNat with hv
  have hvc : (v : Rat) = (P.floor : Rat) := by
    have : (v : Int) = P.floor := Int.toNat_of_nonneg hfl0
    exact_mod_cast this
  have hd1 : ((v / 2 ^ 19 : Nat) : Rat) ≤ (v : Rat) / 524288 := by
    rw [le_div_iff₀ (by norm_num)]
    have : v / 2 ^ 19 * 524288 ≤ v := by
      have := Nat.div_mul_le_self v (2 ^ 19)
      norm_num at this ⊢; exact this
    exact_mod_cast this
  have hd2 : (v : Rat) / 524288 < ((v / 2 ^ 19 : Nat) : Rat) + 1 := by
    rw [div_lt_iff₀ (by norm_num)]
    have : v < (v / 2 ^ 19 + 1) * 524288 := by
      have := Nat.lt_div_mul_add (a := v) (b := 2 ^ 19) (by norm_num)
      norm_num at this ⊢; omega
    have : (v : Rat) < ((v / 2 ^ 19 + 1 : Nat) : Rat) * 524288 := by exact_mod_cast this
    push_cast at this; linarith
  rw [abs_lt]
  constructor <;> nlinarith [a1.1, a1.2, hfl1, hfl2, hd1, hd2, hvc]

/-- **C12, frequency deviation.** For every request from 600 Hz to 200 kHz the programmed value
    `v` (14 bits) realises `v * Fstep` within one step `Fstep = 32 MHz / 2^19` of the request. -/
theorem C12_fdev (q : Rat) (h1 : 600 ≤ q) (h2 : q ≤ 200000) :
    ∃ v : Nat, fdevValue (.fin q) = some v ∧ v < 2 ^ 14 ∧ |(v : Rat) * (32000000 / 524288) - q| < 32000000 / 524288 := by
  unfold fdevValue
  rw [fstep_value]
  have hdiv : F.div b32 (F.fin q) (F.fin (32000000 / 524288)) = F.round b32 (q / (32000000 / 524288)) := by
    unfold F.div
    simp only
    rw [if_neg (by norm_num)]
  rw [hdiv]
  set x := q / (32000000 / 524288) with hx
  have hxq : q = x * (32000000 / 524288) := by rw [hx]; field_simp
  have hx1 : (1 : Rat) ≤ x := by rw [hx, le_div_iff₀ (by norm_num)]; linarith
  have hx2 : x < 16777216 := by rw [hx, div_lt_iff₀ (by norm_num)]; linarith
  have hx3 : x ≤ 3277 := by rw [hx, div_le_iff₀ (by norm_num)]; linarith
  obtain ⟨v, hv, hlo, hhi⟩ := floor_rnd32 16 x hx1 hx2 (by norm_num; linarith)
  refine ⟨v, hv, ?_, ?_⟩
  · have : (v : Rat) < 16384 := by linarith
    exact_mod_cast this
  · have hfl2 := Rat.lt_floor_add_one x
    push_cast at hfl2
    have hfx0 : 0 ≤ x.floor := by rw [rfloor_eq]; exact Int.floor_nonneg.mpr (by linarith)
    have hc : ((x.floor.toNat : Nat) : Rat) = (x.floor : Rat) := by
      have : (x.floor.toNat : Int) = x.floor := Int.toNat_of_nonneg hfx0
      exact_mod_cast this
    have hlo' : (x.floor : Rat) ≤ (v : Rat) := by rw [← hc]; exact_mod_cast hlo
    rw [hxq, abs_lt]
    constructor <;> nlinarith

/-- **C12, OOK bit rate.** For every request from 1200 to 25000 b/s the programmed divider `v`
    (16 bits) satisfies `v ≤ 32 MHz / rate (1 + 2^-24)` and `32 MHz / rate < v + 1`: the realised
    rate `32 MHz / v` lies within one divider step of the request. -/
theorem C12_ook_bitrate (q : Rat) (h1 : 1200 ≤ q) (h2 : q ≤ 25000) :
    ∃ v : Nat, ookBitrateValue (.fin q) = some v ∧ 0 < v ∧ v < 2 ^ 16 ∧
      32000000 / ((v : Rat) + 1) < q ∧ q ≤ 32000000 / (v : Rat) * (1 + 1 / 16777216) := by
  unfold ookBitrateValue
  rw [osc_value]
  have hq0 : (0 : Rat) < q := by linarith
  have hdiv : F.div b32 (F.fin 32000000) (F.fin q) = F.round b32 (32000000 / q) := by
    unfold F.div
    simp only
    rw [if_neg (ne_of_gt hq0)]
  rw [hdiv]
  set x := 32000000 / q with hx
  have hxq : x * q = 32000000 := by rw [hx]; field_simp
  have hx1 : (1280 : Rat) ≤ x := by rw [hx, le_div_iff₀ hq0]; linarith
  have hx3 : x ≤ 26667 := by rw [hx, div_le_iff₀ hq0]; linarith
  obtain ⟨v, hv, hlo, hhi⟩ := floor_rnd32 16 x (by linarith) (by linarith) (by norm_num; linarith)
  have hfl1 := Rat.floor_le x
  have hfl2 := Rat.lt_floor_add_one x
  push_cast at hfl2
  have hfx0 : 0 ≤ x.floor := by rw [rfloor_eq]; exact Int.floor_nonneg.mpr (by linarith)
  have hc : ((x.floor.toNat : Nat) : Rat) = (x.floor : Rat) := by
    have : (x.floor.toNat : Int) = x.floor := Int.toNat_of_nonneg hfx0
    exact_mod_cast this
  have hlo' : (x.floor : Rat) ≤ (v : Rat) := by rw [← hc]; exact_mod_cast hlo
  have hvpos : (0 : Rat) < (v : Rat) := by linarith
  refine ⟨v, hv, by exact_mod_cast hvpos, ?_, ?_, ?_⟩
  · have : (v : Rat) < 65536 := by linarith
    exact_mod_cast this
  · rw [div_lt_iff₀ (by linarith)]
    nlinarith
  · have : q * (v : Rat) ≤ 32000000 * (1 + 1 / 16777216) := by nlinarith
    rw [div_mul_eq_mul_div, le_div_iff₀ hvpos]
    linarith

/-- **C12, FSK bit rate.** For every request from 1200 to 300000 b/s that is a binary64 value (as
    every binary32 value is), the programmed 20-bit divider `v` (RegBitrate * 16 + BitrateFrac)
    satisfies `512 MHz / (v + 1) < rate ≤ 512 MHz / v * (1 + 2^-53)`: the realised rate
    `512 MHz / v` lies within one divider step of the request. -/
theorem C12_fsk_bitrate (q : Rat) (h1 : 1200 ≤ q) (h2 : q ≤ 300000) (hrep : F.round b64 q = .fin q) :
    ∃ v : Nat, fskBitrateValue (.fin q) = some v ∧ 0 < v ∧ v < 2 ^ 20 ∧
      512000000 / ((v : Rat) + 1) < q ∧ q ≤ 512000000 / (v : Rat) * (1 + 1 / 9007199254740992) := by
  unfold fskBitrateValue
  simp only
  rw [osc_value]
  have hq0 : (0 : Rat) < q := by linarith
  have hcv : F.cvt b64 (F.fin 32000000) = F.fin 32000000 := by
    unfold F.cvt; simp only
    have := round64_nat 32000000 (by norm_num) (by norm_num)
    exact_mod_cast this
  have hcq : F.cvt b64 (F.fin q) = F.fin q := hrep
  rw [hcv, hcq]
  have hmul : F.mul b64 (F.fin 32000000) (F.fin 16) = F.fin 512000000 := by
    unfold F.mul; simp only
    have := round64_nat 512000000 (by norm_num) (by norm_num)
    norm_num at this ⊢; exact this
  rw [hmul]
  have hdiv : F.div b64 (F.fin 512000000) (F.fin q) = F.round b64 (512000000 / q) := by
    unfold F.div
    simp only
    rw [if_neg (ne_of_gt hq0)]
  rw [hdiv]
  set x := 512000000 / q with hx
  have hxq : x * q = 512000000 := by rw [hx]; field_simp
  have hx1 : (1706 : Rat) ≤ x := by rw [hx, le_div_iff₀ hq0]; linarith
  have hx3 : x ≤ 426667 := by rw [hx, div_le_iff₀ hq0]; linarith
  obtain ⟨v, hv, hlo, hhi⟩ := floor_rnd64 32 x (by linarith) (by linarith) (by norm_num; linarith)
  have hfl1 := Rat.floor_le x
  have hfl2 := Rat.lt_floor_add_one x
  push_cast at hfl2
  have hfx0 : 0 ≤ x.floor := by rw [rfloor_eq]; exact Int.floor_nonneg.mpr (by linarith)
  have hc : ((x.floor.toNat : Nat) : Rat) = (x.floor : Rat) := by
    have : (x.floor.toNat : Int) = x.floor := Int.toNat_of_nonneg hfx0
    exact_mod_cast this
  have hlo' : (x.floor : Rat) ≤ (v : Rat) := by rw [← hc]; exact_mod_cast hlo
  have hvpos : (0 : Rat) < (v : Rat) := by linarith
  refine ⟨v, hv, by exact_mod_cast hvpos, ?_, ?_, ?_⟩
  · have : (v : Rat) < 1048576 := by linarith
    exact_mod_cast this
  · rw [div_lt_iff₀ (by linarith)]
    nlinarith
  · have : q * (v : Rat) ≤ 512000000 * (1 + 1 / 9007199254740992) := by nlinarith
    rw [div_mul_eq_mul_div, le_div_iff₀ hvpos]
    linarith

/-- **C12, FSK bit rate, as the API receives it**: the request is a binary32 bit pattern. -/
theorem C12_fsk_bitrate_bits (bits : UInt32) (q : Rat) (hbits : F.ofBits32 bits = .fin q) (h1 : 1200 ≤ q) (h2 : q ≤ 300000) :
    ∃ v : Nat, fskBitrateValue (F.ofBits32 bits) = some v ∧ 0 < v ∧ v < 2 ^ 20 ∧
      512000000 / ((v : Rat) + 1) < q ∧ q ≤ 512000000 / (v : Rat) * (1 + 1 / 9007199254740992) := by
  rw [hbits]
  exact C12_fsk_bitrate q h1 h2 (cvt64_of_bits32 bits q hbits (by linarith))

/-- non-vacuity: 4800 b/s is the bit pattern 0x45960000 -/
example : F.ofBits32 0x45960000 = .fin 4800 := by
  unfold F.ofBits32
  have : (0x45960000 : UInt32).toNat = 1167458304 := by decide
  simp only [this]
  norm_num

/-- the signed value of a byte (two's complement) -/
def int8 (v : UInt8) : Int := if v.toNat ≥ 128 then (v.toNat : Int) - 256 else v.toNat

set_option maxRecDepth 100000 in
/-- **C12, SNR decode.** For all 256 values of RegPktSnrValue the result is exactly the datasheet
    formula `(signed) value / 4` dB (the product is exact in binary32). -/
theorem C12_snr_bv : ∀ b : BitVec 8, F.eq (snrOf ⟨b⟩) (.fin ((int8 ⟨b⟩ : Rat) / 4)) = true := by
  decide +kernel

theorem C12_snr (v : UInt8) : F.eq (snrOf v) (.fin ((int8 v : Rat) / 4)) = true := C12_snr_bv v.toBitVec

/-- **C12, FSK RSSI decode.** `-RssiValue / 2` dBm, truncated toward zero, for all 256 values. -/
theorem C12_fsk_rssi : ∀ v : UInt8, fskRssiOf v = -((v.toNat / 2 : Nat) : Int) := fun _ => rfl

/-- **C12, raw temperature decode.** The datasheet's reference conversion of RegTemp (-1 degree per
    LSB, two branches on bit 7): `255 - RegTemp` when bit 7 is set, `-RegTemp` otherwise, for all
    256 values; the result always fits the `int8_t` it is returned in (no implementation-defined
    narrowing), and the two branches cover 0..127 and -127..0. -/
theorem C12_raw_temperature_bv : ∀ b : BitVec 8,
    rawTemperatureOf ⟨b⟩ = (if 128 ≤ b.toNat then ((255 - b.toNat : Nat) : Int) else -(b.toNat : Int)) ∧
    -128 ≤ rawTemperatureOf ⟨b⟩ ∧ rawTemperatureOf ⟨b⟩ ≤ 127 := by
  decide +kernel

theorem C12_raw_temperature (v : UInt8) :
    rawTemperatureOf v = (if 128 ≤ v.toNat then ((255 - v.toNat : Nat) : Int) else -(v.toNat : Int)) ∧
    -128 ≤ rawTemperatureOf v ∧ rawTemperatureOf v ≤ 127 := C12_raw_temperature_bv v.toBitVec

/-- … and the call returns exactly that for the byte the chip holds in RegTemp, for every answer
    of the chip, with no write -/
theorem C12_raw_temperature_call (h : Handle) :
    (fskOokGetRawTemperature h).fwp false (fun _ rh => ∀ t, rh.1 = .ok t → ∃ v : UInt8, t = rawTemperatureOf v) := by
  unfold fskOokGetRawTemperature checkFskOok
  simp only [DM.fwp_bind', DM.fwp_getH, DM.fwp_rread, DM.fwp_pure, DM.fwp_ite, DM.fwp_fail]
  split
  · intro t e; cases e
  · refine ⟨fun v t e => ⟨v, ?_⟩, fun c t e => by cases e⟩
    cases e; rfl

/-- **C12, packet strength (LoRa).** For every RegPktRssiValue, every RegPktSnrValue and either
    port offset: the refined value `sx127x_rx_get_packet_rssi` computes for a negative SNR is the
    datasheet's `-offset + PacketRssi + PacketSnr * 0.25`, truncated toward zero — the single
    precision sum is exact. -/
theorem C12_packet_rssi (value snr : UInt8) (off : Int) (hoff : off = Gen.RSSI_OFFSET_HF_PORT ∨ off = Gen.RSSI_OFFSET_LF_PORT) :
    rssiRefine ((value.toNat : Int) - off) (snrOf snr) =
      some (F.truncQ ((((value.toNat : Int) - off : Int) : Rat) + (int8 snr : Rat) / 4)) := by
  rw [F.eq_fin (C12_snr snr)]
  have hv : value.toNat < 256 := value.toNat_lt
  have hs : snr.toNat < 256 := snr.toNat_lt
  have hk : -128 ≤ int8 snr ∧ int8 snr ≤ 127 := by unfold int8; split <;> omega
  have ho : off = 157 ∨ off = 164 := by
    rcases hoff with e | e <;> rw [e] <;> decide
  exact rssiRefine_exact _ (by rcases ho with e | e <;> omega) (by rcases ho with e | e <;> omega) _ hk.1 hk.2

/-- the 16-bit two's-complement reading of the AFC registers -/
def s16 (n : Nat) : Int := if 32768 ≤ n then (n : Int) - 65536 else n

/-- **C12, frequency error (FSK/OOK).** For every content of RegAfcMsb/RegAfcLsb the value
    `sx127x_rx_get_frequency_error` returns is within 9/8 Hz of `AFC * Fstep` (two's complement,
    `Fstep = 32 MHz / 2^19`): two exact sign/step products, one rounded product of at most
    2·10^6, one truncation. -/
theorem C12_fsk_frequency_error (raw : UInt32) (h : raw.toNat < 65536) :
    ∃ v : Int, fskFreqError raw = some v ∧ |(v : Rat) - (s16 raw.toNat : Rat) * (32000000 / 524288)| < 9 / 8 := by
  unfold fskFreqError
  simp only
  rw [fstep_value]
  by_cases hneg : 32768 ≤ raw.toNat
  · -- negative reading
    have hb := (bit15 raw h).mpr hneg
    simp only [if_pos hb, ofInt_neg_one]
    have hmag := neg16 raw h hneg
    have hm0 : 0 < 65536 - raw.toNat := by omega
    have hm1 : 65536 - raw.toNat ≤ 32768 := by omega
    obtain ⟨P, _, e2, hP1, hP2, herr⟩ := fstep_mul (65536 - raw.toNat) hm0 hm1
    have hmul1 : F.mul b32 (F.fin (-1)) (F.fin (32000000 / 524288)) = F.fin (-(32000000 / 524288)) := by
      show F.round b32 (-1 * (32000000 / 524288)) = _
      rw [show (-1 : Rat) * (32000000 / 524288) = -(32000000 / 524288) by ring]
      exact round_neg_fstep
    rw [hmul1, hmag, ofNat32_exact _ hm0 (by omega)]
    show ∃ v, F.toSInt 32 (F.round b32 (-(32000000 / 524288) * ((65536 - raw.toNat : Nat) : Rat))) = some v ∧ _
    rw [e2, toSInt_neg P hP1 hP2]
    refine ⟨-P.floor, rfl, ?_⟩
    have hs : (s16 raw.toNat : Rat) = -((65536 - raw.toNat : Nat) : Rat) := by
      unfold s16; rw [if_pos hneg]; push_cast [Nat.cast_sub (by omega : raw.toNat ≤ 65536)]; ring
    rw [hs]
    have hfl1 := Rat.floor_le P
    have hfl2 := Rat.lt_floor_add_one P
    push_cast at hfl2
    have a := abs_le.mp herr
    rw [abs_lt]
    push_cast
    constructor <;> nlinarith [a.1, a.2, hfl1, hfl2]
  · have hb : ¬(raw &&& 0x8000 ≠ 0) := fun hc => hneg ((bit15 raw h).mp hc)
    simp only [if_neg hb, ofInt_one]
    have hmul1 : F.mul b32 (F.fin 1) (F.fin (32000000 / 524288)) = F.fin (32000000 / 524288) := by
      show F.round b32 (1 * (32000000 / 524288)) = _
      rw [one_mul]; exact round_fstep
    rw [hmul1]
    have hs : (s16 raw.toNat : Rat) = (raw.toNat : Rat) := by unfold s16; rw [if_neg hneg]; push_cast; rfl
    rw [hs]
    by_cases hz : raw.toNat = 0
    · -- zero reading
      have hr0 : F.round b32 0 = .fin 0 := by
        unfold F.round rnd
        simp only [↓reduceIte, lt_self_iff_false]
        rw [if_neg (not_le.mpr (two_zpow_pos _))]
      have h0 : F.ofNat b32 raw.toNat = .fin 0 := by rw [hz]; unfold F.ofNat; simpa using hr0
      rw [h0]
      refine ⟨0, ?_, by rw [hz]; norm_num⟩
      show F.toSInt 32 (F.round b32 (32000000 / 524288 * 0)) = some 0
      rw [mul_zero, hr0]
      unfold F.toSInt F.truncQ
      have hf : Rat.floor 0 = 0 := by rw [rfloor_eq]; exact Int.floor_zero
      simp [hf]
    · have hm0 : 0 < raw.toNat := Nat.pos_of_ne_zero hz
      obtain ⟨P, e1, _, hP1, hP2, herr⟩ := fstep_mul raw.toNat hm0 (by omega)
      rw [ofNat32_exact _ hm0 (by omega)]
      show ∃ v, F.toSInt 32 (F.round b32 (32000000 / 524288 * (raw.toNat : Rat))) = some v ∧ _
      rw [e1, toSInt_pos P hP1 hP2]
      refine ⟨P.floor, rfl, ?_⟩
      have hfl1 := Rat.floor_le P
      have hfl2 := Rat.lt_floor_add_one P
      push_cast at hfl2
      have a := abs_le.mp herr
      rw [abs_lt]
      constructor <;> nlinarith [a.1, a.2, hfl1, hfl2]


/-- **C12, frequency error (LoRa).** For every 20-bit content of RegFei and each of the ten LoRa
    bandwidths, the value `sx127x_rx_get_frequency_error` returns is within 9/8 Hz of the
    datasheet formula `FreqError * 2^24 / Fxosc * BW / 500 kHz` (two's complement): four single
    precision roundings of a value below 2.8·10^5, the inexact constant, one truncation. -/
theorem C12_lora_frequency_error (raw : UInt32) (h : raw.toNat < 1048576) (bw : Nat) (hbw : LoraBw bw) :
    ∃ v : Int, loraFreqError raw bw = some v ∧
      |(v : Rat) - (s20 raw.toNat : Rat) * (16777216 / 32000000) * (bw : Rat) / 500000| < 9 / 8 := by
  have hbw24 : 0 < bw ∧ bw < 2 ^ 24 := by
    rcases hbw with e | e | e | e | e | e | e | e | e | e <;> subst e <;> norm_num
  unfold loraFreqError
  simp only
  rw [factor_value, f32_500000, ofNat32_exact bw hbw24.1 hbw24.2]
  by_cases hneg : 524288 ≤ raw.toNat
  · have hb := (bit19 raw h).mpr hneg
    simp only [if_pos hb, ofInt_neg_one]
    have hmag := neg20 raw h hneg
    have hm0 : 0 < 1048576 - raw.toNat := by omega
    have hm1 : 1048576 - raw.toNat ≤ 524288 := by omega
    obtain ⟨P1, P2, P3, P4, r1, r2, r3, _, r5, p4a, p4b, herr⟩ := lora_chain_err (1048576 - raw.toNat) hm0 hm1 bw hbw
    rw [hmag, ofNat32_exact _ hm0 (by omega)]
    show ∃ v, F.toSInt 32 (F.mul b32 (F.fin (-1)) (F.div b32 (F.mul b32 (F.round b32 (((1048576 - raw.toNat : Nat) : Rat) * (8796093 / 16777216))) (F.fin (bw : Rat))) (F.fin 500000))) = some v ∧ _
    rw [r1]
    show ∃ v, F.toSInt 32 (F.mul b32 (F.fin (-1)) (F.div b32 (F.round b32 (P1 * (bw : Rat))) (F.fin 500000))) = some v ∧ _
    rw [r2]
    have hdiv : F.div b32 (F.fin P2) (F.fin 500000) = F.round b32 (P2 / 500000) := by
      simp [F.div]
    rw [hdiv, r3]
    show ∃ v, F.toSInt 32 (F.round b32 (-1 * P3)) = some v ∧ _
    rw [r5, toSInt_neg' P4 p4a p4b]
    refine ⟨-P4.floor, rfl, ?_⟩
    have hs : (s20 raw.toNat : Rat) = -((1048576 - raw.toNat : Nat) : Rat) := by
      unfold s20; rw [if_pos hneg]; push_cast [Nat.cast_sub (by omega : raw.toNat ≤ 1048576)]; ring
    rw [hs]
    have hfl1 := Rat.floor_le P4
    have hfl2 := Rat.lt_floor_add_one P4
    push_cast at hfl2
    have a := abs_le.mp herr
    rw [abs_lt]
    push_cast
    constructor <;> nlinarith [a.1, a.2, hfl1, hfl2]
  · have hb : ¬(raw &&& 0x80000 ≠ 0) := fun hc => hneg ((bit19 raw h).mp hc)
    simp only [if_neg hb, ofInt_one]
    have hs : (s20 raw.toNat : Rat) = (raw.toNat : Rat) := by unfold s20; rw [if_neg hneg]; push_cast; rfl
    rw [hs]
    by_cases hz : raw.toNat = 0
    · have h0 : F.ofNat b32 raw.toNat = .fin 0 := by rw [hz]; unfold F.ofNat; simpa using round_zero
      rw [h0]
      refine ⟨0, ?_, by rw [hz]; norm_num⟩
      show F.toSInt 32 (F.mul b32 (F.fin 1) (F.div b32 (F.mul b32 (F.round b32 (0 * (8796093 / 16777216))) (F.fin (bw : Rat))) (F.fin 500000))) = some 0
      rw [zero_mul, round_zero]
      show F.toSInt 32 (F.mul b32 (F.fin 1) (F.div b32 (F.round b32 (0 * (bw : Rat))) (F.fin 500000))) = some 0
      rw [zero_mul, round_zero]
      have hdiv : F.div b32 (F.fin 0) (F.fin 500000) = F.round b32 (0 / 500000) := by
        simp [F.div]
      rw [hdiv, zero_div, round_zero]
      show F.toSInt 32 (F.round b32 (1 * 0)) = some 0
      rw [mul_zero, round_zero]
      unfold F.toSInt F.truncQ
      have hf : Rat.floor 0 = 0 := by rw [rfloor_eq]; exact Int.floor_zero
      simp [hf]
    · have hm0 : 0 < raw.toNat := Nat.pos_of_ne_zero hz
      obtain ⟨P1, P2, P3, P4, r1, r2, r3, r4, _, p4a, p4b, herr⟩ := lora_chain_err raw.toNat hm0 (by omega) bw hbw
      rw [ofNat32_exact _ hm0 (by omega)]
      show ∃ v, F.toSInt 32 (F.mul b32 (F.fin 1) (F.div b32 (F.mul b32 (F.round b32 ((raw.toNat : Rat) * (8796093 / 16777216))) (F.fin (bw : Rat))) (F.fin 500000))) = some v ∧ _
      rw [r1]
      show ∃ v, F.toSInt 32 (F.mul b32 (F.fin 1) (F.div b32 (F.round b32 (P1 * (bw : Rat))) (F.fin 500000))) = some v ∧ _
      rw [r2]
      have hdiv : F.div b32 (F.fin P2) (F.fin 500000) = F.round b32 (P2 / 500000) := by
        simp [F.div]
      rw [hdiv, r3]
      show ∃ v, F.toSInt 32 (F.round b32 (1 * P3)) = some v ∧ _
      rw [r4, toSInt_pos' P4 p4a p4b]
      refine ⟨P4.floor, rfl, ?_⟩
      have hfl1 := Rat.floor_le P4
      have hfl2 := Rat.lt_floor_add_one P4
      push_cast at hfl2
      have a := abs_le.mp herr
      rw [abs_lt]
      constructor <;> nlinarith [a.1, a.2, hfl1, hfl2]

/-- the bandwidth a register code realises, as a rational -/
def bwP (me : Nat × Nat) : Rat := match bwPoint me.1 me.2 with | .fin p => p | _ => 0

theorem bwPoints_fin_all :
    bwPoints.all (fun me => match bwPoint me.1 me.2 with | .fin p => decide (2604 ≤ p ∧ p ≤ 250000) | _ => false) = true := by
  decide +kernel

theorem bwPoint_first : (match bwPoint 2 7 with | .fin p => decide (p ≤ 2605) | _ => false) = true := by decide +kernel

theorem bwPoints_fin (me : Nat × Nat) (h : me ∈ bwPoints) :
    bwPoint me.1 me.2 = .fin (bwP me) ∧ 2604 ≤ bwP me ∧ bwP me ≤ 250000 := by
  have := List.all_eq_true.mp bwPoints_fin_all me h
  unfold bwP
  cases hb : bwPoint me.1 me.2 with
  | nan => rw [hb] at this; simp at this
  | inf s => rw [hb] at this; simp at this
  | fin p => rw [hb] at this; simp at this; exact ⟨rfl, this.1, this.2⟩

/-- the driver's distance measure for a request `q` and a point: `fabsf(bandwidth - point)` -/
def bwTol (q : Rat) (me : Nat × Nat) : Rat := |rnd 24 (-126) (q + -(bwP me))|

theorem bwTol_model (q : Rat) (h1 : 2600 ≤ q) (h2 : q ≤ 250000) (me : Nat × Nat) (h : me ∈ bwPoints) :
    F.abs (F.sub b32 (.fin q) (bwPoint me.1 me.2)) = .fin (bwTol q me) ∧
    |bwTol q me - abs (q - bwP me)| ≤ abs (q - bwP me) * (1 / 16777216) + (2 : Rat) ^ (-(150 : Int)) := by
  obtain ⟨hb, hlo, hhi⟩ := bwPoints_fin me h
  have hx : |q + -(bwP me)| ≤ (2 : Rat) ^ (100 : Int) := by
    have : (250000 : Rat) ≤ (2 : Rat) ^ (100 : Int) := by norm_num
    rw [abs_le]; constructor <;> linarith
  obtain ⟨r, e⟩ := round_any (q + -(bwP me)) hx
  constructor
  · rw [hb]
    show F.abs (F.round b32 (q + -(bwP me))) = _
    rw [r]
    unfold F.abs bwTol
    simp only
    congr 1
    split
    · rename_i hn; rw [abs_of_neg hn]
    · rename_i hn; rw [abs_of_nonneg (not_lt.mp hn)]
  · unfold bwTol
    have hsub : q + -(bwP me) = q - bwP me := by ring
    rw [hsub] at e ⊢
    exact le_trans (abs_abs_sub_abs_le _ _) e



/-- the search of `sx127x_fsk_ook_calculate_bw_register` over rationals -/
def bwStepR (q : Rat) (acc : Rat × UInt8) (me : Nat × Nat) : Rat × UInt8 :=
  if bwTol q me < acc.1 then (bwTol q me, u8 (me.1 * 8 ||| me.2)) else acc

theorem bw_fold_sim (q : Rat) (h1 : 2600 ≤ q) (h2 : q ≤ 250000) (L : List (Nat × Nat)) (hL : ∀ me ∈ L, me ∈ bwPoints)
    (a : Rat) (c : UInt8) :
    L.foldl (fun (acc : F × UInt8) (me : Nat × Nat) =>
        if F.lt (F.abs (F.sub b32 (.fin q) (bwPoint me.1 me.2))) acc.1 = true
        then (F.abs (F.sub b32 (.fin q) (bwPoint me.1 me.2)), u8 (me.1 * 8 ||| me.2)) else acc) (.fin a, c)
      = (.fin (L.foldl (bwStepR q) (a, c)).1, (L.foldl (bwStepR q) (a, c)).2) := by
  induction L generalizing a c with
  | nil => rfl
  | cons x xs ih =>
    simp only [List.foldl_cons]
    have hx := (bwTol_model q h1 h2 x (hL x List.mem_cons_self)).1
    rw [hx]
    have hlt : F.lt (F.fin (bwTol q x)) (F.fin a) = decide (bwTol q x < a) := rfl
    rw [hlt]
    unfold bwStepR
    by_cases hc : bwTol q x < a
    · simp only [hc, decide_true, ↓reduceIte]
      exact ih (fun me hme => hL me (List.mem_cons_of_mem _ hme)) _ _
    · simp only [hc, decide_false, Bool.false_eq_true, ↓reduceIte]
      exact ih (fun me hme => hL me (List.mem_cons_of_mem _ hme)) _ _

/-- **C12, receiver bandwidth: the closest point.** For every requested bandwidth in the
    documented range 2600..250000 Hz (any real number, not only the 21 table values) the register
    programmed by `sx127x_fsk_ook_rx_set_bandwidth` / `…_set_afc_bandwidth` is the code of one of
    the 21 bandwidths the chip offers, and no other of them is closer to the request — up to the
    single-precision rounding of the distances: `|q - p| (1 - 2^-24) ≤ |q - p'| (1 + 2^-24) + 2^-149`
    for every other point `p'`. -/
theorem C12_rx_bandwidth_closest (q : Rat) (h1 : 2600 ≤ q) (h2 : q ≤ 250000) :
    ∃ me ∈ bwPoints, calculateBwRegister (.fin q) = u8 (me.1 * 8 ||| me.2) ∧
      ∀ me' ∈ bwPoints, |q - bwP me| * (1 - 1 / 16777216) ≤ |q - bwP me'| * (1 + 1 / 16777216) + (2 : Rat) ^ (-(149 : Int)) := by
  have hsim := bw_fold_sim q h1 h2 bwPoints (fun _ h => h) q 0
  have hcalc : calculateBwRegister (.fin q) = (bwPoints.foldl (bwStepR q) (q, 0)).2 := by
    unfold calculateBwRegister
    simp only
    rw [hsim]
  obtain ⟨m1, m2, m3⟩ := foldl_min bwPoints (bwTol q) (fun me => u8 (me.1 * 8 ||| me.2)) q 0
  have hfold : ∀ (a : Rat) (c : UInt8), bwPoints.foldl (bwStepR q) (a, c) =
      bwPoints.foldl (fun acc i => if bwTol q i < acc.1 then (bwTol q i, u8 (i.1 * 8 ||| i.2)) else acc) (a, c) := fun _ _ => rfl
  rw [← hfold] at m1 m2 m3
  -- the first point beats the initial tolerance
  have hfirst : ((2, 7) : Nat × Nat) ∈ bwPoints := by decide
  obtain ⟨_, e0⟩ := bwTol_model q h1 h2 (2, 7) hfirst
  obtain ⟨_, p0lo, _⟩ := bwPoints_fin (2, 7) hfirst
  have p0hi : bwP (2, 7) ≤ 2605 := by
    have := bwPoint_first
    unfold bwP
    cases hb : bwPoint 2 7 with
    | nan => rw [hb] at this; simp at this
    | inf s => rw [hb] at this; simp at this
    | fin p => rw [hb] at this; simp at this; exact this
  have tiny : (2 : Rat) ^ (-(150 : Int)) ≤ 1 / 1000 := by norm_num
  have hbeat : bwTol q (2, 7) < q := by
    have a := abs_le.mp e0
    have habs : |q - bwP (2, 7)| ≤ q - 2590 := by
      rw [abs_le]; constructor <;> linarith
    nlinarith [a.2, abs_nonneg (q - bwP (2, 7))]
  have hne : bwPoints.foldl (bwStepR q) (q, 0) ≠ (q, 0) := by
    intro e
    have := m2 (2, 7) hfirst
    rw [e] at this
    exact absurd (lt_of_le_of_lt this hbeat) (lt_irrefl _)
  rcases m3 with e | ⟨i, hi, e⟩
  · exact absurd e hne
  · refine ⟨i, hi, by rw [hcalc, e], ?_⟩
    intro j hj
    have hij := m2 j hj
    rw [e] at hij
    have ei := abs_le.mp (bwTol_model q h1 h2 i hi).2
    have ej := abs_le.mp (bwTol_model q h1 h2 j hj).2
    have t2 : (2 : Rat) ^ (-(149 : Int)) = 2 * (2 : Rat) ^ (-(150 : Int)) := by norm_num
    rw [t2]
    nlinarith [ei.1, ej.2, hij]

/-- **C12, LoRa bandwidth decode.** The ten bandwidth codes of RegModemConfig1 decode to the
    datasheet's bandwidths in Hz; the six reserved codes are refused. -/
theorem C12_lora_bandwidth_decode :
    (List.range 16).map (fun c => bandwidthOfCode (UInt8.ofNat c)) =
      [some 7800, some 10400, some 15600, some 20800, some 31250, some 41700, some 62500, some 125000,
       some 250000, some 500000, none, none, none, none, none, none] := by decide

/-- the single-side receiver bandwidths of the datasheet (FSK column of the RxBw table, Hz) with
    their register code `RxBwMant << 3 | RxBwExp` -/
def rxBwTable : List (Nat × UInt8) :=
  [(2600, 0x17), (3100, 0x0f), (3900, 0x07), (5200, 0x16), (6300, 0x0e), (7800, 0x06),
   (10400, 0x15), (12500, 0x0d), (15600, 0x05), (20800, 0x14), (25000, 0x0c), (31300, 0x04),
   (41700, 0x13), (50000, 0x0b), (62500, 0x03), (83300, 0x12), (100000, 0x0a), (125000, 0x02),
   (166700, 0x11), (200000, 0x09), (250000, 0x01)]

/-- **C12, receiver bandwidth.** For each of the 21 bandwidths of the datasheet table, the value
    `sx127x_fsk_ook_rx_set_bandwidth` / `…_set_afc_bandwidth` write is the datasheet's register
    code (nearest-point search in single precision, decided in the kernel) -/
theorem C12_rx_bandwidth_table :
    rxBwTable.all (fun p => calculateBwRegister (F.ofNat b32 p.1) == p.2) = true := by decide +kernel

/-- every code of the table is one of the 21 non-reserved ones, each exactly once -/
theorem C12_rx_bandwidth_codes_distinct : (rxBwTable.map (·.2)).Nodup ∧ rxBwTable.length = 21 := by decide

/-- the constants the conversions use are the datasheet's: RSSI offsets -157 dBm (HF port) and
    -164 dBm (LF port), crystal 32 MHz (as binary32), Fstep = 32 MHz / 2^19 and the
    frequency-error factor 2^24 / 32 MHz as the compiler folds them to binary32 -/
theorem C12_constants_are_datasheet :
    Gen.RSSI_OFFSET_HF_PORT = 157 ∧ Gen.RSSI_OFFSET_LF_PORT = 164 ∧
    Gen.SX127x_OSCILLATOR_FREQUENCY_bits = 0x4bf42400 ∧ Gen.SX127x_FSTEP_bits = 0x42742400 ∧
    Gen.SX127x_FREQ_ERROR_FACTOR_bits = 0x3f0637bd := by
  decide

end Sx
