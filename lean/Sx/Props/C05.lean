import Sx.Lemmas.GhostCbs
import Sx.Lemmas.WpLib
import Sx.Lemmas.Fifo
/-
  C05 — LoRa reception delivers the chip's packet bytes and length exactly, once.
-/
namespace Sx
open Sx.Model DM Mem Chip

/-- the bytes the chip stored for a packet of `n` bytes starting at buffer address `start`,
    wrapping around the 256-byte buffer -/
def loraPacket (c : Chip) (start : UInt8) (n : Nat) : List UInt8 :=
  (List.range n).map (fun i => c.buf.rd ((start.toNat + i) % 256))

/-- the handle after a delivered LoRa packet -/
def afterLoraRx (h : Handle) (data : List UInt8) : Handle :=
  { h with packet := h.packet.wrs 0 data, expected := 0, curFreq := 0 }

theorem wp_handleInterrupt_lora (fuel : Nat) (h : Handle) (s : PState) (Q)
    (hm : h.activeModem = Gen.SX127x_MODULATION_LORA) :
    wp (handleInterrupt fuel) h s Q ↔ wp loraHandleInterrupt h s Q := by
  unfold handleInterrupt
  rw [wp_bind, wp_getH]
  simp only [hm, ↓reduceIte]

theorem write_lora_flags (c : Chip) (v : UInt8) (hl : c.isLora = true) :
    c.write 0x12 v = { c with lora := c.lora.wr 0x12 (c.lora.rd 0x12 &&& ~~~ v) } := by
  simp [Chip.write, hl]

theorem flag_consts :
    u8 Gen.SX127x_IRQ_FLAG_CADDONE = 0x04 ∧ u8 Gen.SX127x_IRQ_FLAG_PAYLOAD_CRC_ERROR = 0x20 ∧
    u8 Gen.SX127x_IRQ_FLAG_RXDONE = 0x40 ∧ u8 Gen.SX127x_IRQ_FLAG_TXDONE = 0x08 ∧
    u8 Gen.SX127x_IRQ_FLAG_FHSSCHANGECHANNEL = 0x02 ∧ u8 Gen.SX127x_IRQ_FLAG_CAD_DETECTED = 0x01 := by decide

/-- reading the payload: FIFO pointer := current RX address, burst read of the reported length -/
theorem wp_loraRxReadPayload (h : Handle) (c : Chip) (bus : List BusEv) (cbs : List CbEvent) (Q)
    (wf : c.WF) (hl : c.isLora = true) (hm : h.activeModem = Gen.SX127x_MODULATION_LORA) (hexp : h.expected = 0)
    (hcap : (c.lora.rd 0x13).toNat ≤ h.packet.length) :
    wp loraRxReadPayload h ⟨c, bus, cbs⟩ Q ↔
      Q (.ok ()) { h with expected := (c.lora.rd 0x13).toUInt16,
                          packet := h.packet.wrs 0 (loraPacket c (c.lora.rd 0x10) (c.lora.rd 0x13).toNat) }
        ⟨if (c.lora.rd 0x13).toNat = 0 then { c with lora := c.lora.wr 0x0d (c.lora.rd 0x10) }
          else { c with lora := c.lora.wr 0x0d (c.lora.rd 0x10 + UInt8.ofNat (c.lora.rd 0x13).toNat) },
         .rb 0 (c.lora.rd 0x13).toNat (.ok (loraPacket c (c.lora.rd 0x10) (c.lora.rd 0x13).toNat))
           :: .w 0x0d [c.lora.rd 0x10] (.ok ()) :: .r 0x10 1 (.ok (be32 [c.lora.rd 0x10]))
           :: .r 0x13 1 (.ok (be32 [c.lora.rd 0x13])) :: bus, cbs⟩ := by
  have hn : (c.lora.rd 0x13).toNat ≤ 255 := by have := (c.lora.rd 0x13).toNat_lt; omega
  have hlen0d : 0x0d < c.lora.length := by rw [wf.hl]; decide
  have wf1 : ({ c with lora := c.lora.wr 0x0d (c.lora.rd 0x10) } : Chip).WF := ⟨wf.hs, by simp [wf.hl], wf.hf, wf.hb⟩
  unfold loraRxReadPayload
  simp only [wp_bind, wp_checkModulation, hm, ne_eq, not_true_eq_false, ↓reduceIte, wp_getH, hexp, wp_rread, wp_modH,
    wp_swrite, show Gen.REGRXNBBYTES = 0x13 from rfl, show Gen.REGFIFORXCURRENTADDR = 0x10 from rfl,
    show Gen.REGFIFOADDRPTR = 0x0d from rfl, show Gen.REGFIFO = 0 from rfl,
    readN_one _ 0x13 (by decide), readN_one _ 0x10 (by decide), show (0x13 % 128) = 0x13 from rfl,
    show (0x10 % 128) = 0x10 from rfl, peek_lora _ _ hl (show inPage 0x13 = true by decide),
    peek_lora _ _ hl (show inPage 0x10 = true by decide), be32_single, writeN_one,
    write_lora _ 0x0d _ hl (by decide) (by decide) (by decide)]
  rw [wp_ite, if_neg (by omega)]
  simp only [wp_bind, wp_modH, wp_rread, wp_swrite, wp_getH, hm,
    readN_one _ 0x10 (by decide), show (0x10 % 128) = 0x10 from rfl,
    peek_lora _ _ hl (show inPage 0x10 = true by decide), be32_single, writeN_one,
    write_lora _ 0x0d _ hl (by decide) (by decide) (by decide)]
  rw [wp_ite, if_pos (by omega), wp_bind, wp_bread]
  rw [readN_fifo_lora _ (by exact hl) wf1]
  simp only [rd_wr_same _ _ _ hlen0d, wr_wr_same]
  unfold packetCopy
  simp only [wp_bind, wp_getH]
  have hlp : (loraPacket c (c.lora.rd 0x10) (c.lora.rd 0x13).toNat).length = (c.lora.rd 0x13).toNat := by
    simp [loraPacket]
  have hmap : ((List.range (c.lora.rd 0x13).toNat).map
      (fun i => c.buf.rd (((c.lora.rd 0x10).toNat + i) % 256))).length = (c.lora.rd 0x13).toNat := by simp
  rw [wp_ite, if_pos (by rw [hmap]; omega), wp_setH]
  unfold loraPacket
  exact Iff.rfl

/-- **C05, explicit header.** In LoRa mode, when the chip has raised RxDone without CadDone and
    without PayloadCrcError (any combination of the other flags), for every packet length
    0..255 reported in RegRxNbBytes that fits the packet buffer (any buffer size), every start address in RegFifoRxCurrentAddr (wrap-around
    included), every buffer content, every prior FIFO pointer and every other handle field: one
    handler invocation invokes the receive callback exactly once, with exactly the bytes the
    chip stored and the reported length, acknowledges exactly the flags it read, and leaves the
    per-packet state reset (the outcome does not depend on what preceded). -/
theorem C05_rx_done (fuel : Nat) (h : Handle) (c : Chip) (wf : c.WF) (hl : c.isLora = true)
    (hm : h.activeModem = Gen.SX127x_MODULATION_LORA) (hcb : h.rxCb = true) (hexp : h.expected = 0)
    (hcap : (c.lora.rd 0x13).toNat ≤ h.packet.length)
    (hcad : c.lora.rd 0x12 &&& 0x04 = 0) (hcrc : c.lora.rd 0x12 &&& 0x20 = 0) (hrx : c.lora.rd 0x12 &&& 0x40 ≠ 0) :
    wp (handleInterrupt fuel) h ⟨c, [], []⟩ (fun r h' s' =>
      s'.cbs = [.rx (loraPacket c (c.lora.rd 0x10) (c.lora.rd 0x13).toNat) (c.lora.rd 0x13).toNat] ∧
      h' = afterLoraRx h (loraPacket c (c.lora.rd 0x10) (c.lora.rd 0x13).toNat) ∧
      s'.chip.lora.rd 0x12 = c.lora.rd 0x12 &&& ~~~ c.lora.rd 0x12 ∧
      s'.chip.buf = c.buf ∧ s'.chip.shared = c.shared ∧ s'.chip.fsk = c.fsk) := by
  rw [wp_handleInterrupt_lora _ _ _ _ hm]
  unfold loraHandleInterrupt loraReadGuard
  simp only [wp_bind, wp_rread, wp_swrite, wp_getH, show Gen.REGIRQFLAGS = 0x12 from rfl,
    readN_one _ 0x12 (by decide), show (0x12 % 128) = 0x12 from rfl, peek_lora _ _ hl (show inPage 0x12 = true by decide),
    be32_single, writeN_one, flag_consts.1, flag_consts.2.1, flag_consts.2.2.1, hcad, hcrc, hrx, ne_eq,
    not_true_eq_false, not_false_eq_true, ↓reduceIte, write_lora_flags _ _ hl]
  have wf1 : ({ c with lora := c.lora.wr 0x12 (c.lora.rd 0x12 &&& ~~~ c.lora.rd 0x12) } : Chip).WF :=
    ⟨wf.hs, by simp [wf.hl], wf.hf, wf.hb⟩
  rw [wp_attempt, wp_loraRxReadPayload _ _ _ _ _ wf1 (by exact hl) hm hexp
    (by show ((c.lora.wr 0x12 _).rd 0x13).toNat ≤ _; rw [rd_wr_ne _ 0x12 0x13 _ (by decide)]; exact hcap)]
  simp only [rd_wr_ne _ 0x12 0x13 _ (by decide), rd_wr_ne _ 0x12 0x10 _ (by decide), loraPacket]
  unfold rxCallback
  simp only [wp_bind, wp_pure, wp_getH, hcb, ↓reduceIte, wp_cb, wp_modH]
  have hlen : ((List.range (c.lora.rd 0x13).toNat).map (fun i => c.buf.rd (((c.lora.rd 0x10).toNat + i) % 256))).length
      = (c.lora.rd 0x13).toNat := by simp
  have hn : (c.lora.rd 0x13).toNat ≤ 255 := by have := (c.lora.rd 0x13).toNat_lt; omega
  have htake := wrs_take h.packet _ (by rw [hlen]; omega : ((List.range (c.lora.rd 0x13).toNat).map
    (fun i => c.buf.rd (((c.lora.rd 0x10).toNat + i) % 256))).length ≤ h.packet.length)
  rw [hlen] at htake
  have hu16 : (c.lora.rd 0x13).toUInt16.toNat = (c.lora.rd 0x13).toNat := by simp
  simp only [hu16, htake]
  refine ⟨by trivial, ?_, ?_, ?_, ?_, ?_⟩
  · simp only [afterLoraRx, hm, hcb]
  · split <;> simp only [rd_wr_ne _ 0x0d 0x12 _ (by decide)] <;> exact rd_wr_same _ _ _ (by rw [wf.hl]; decide)
  · split <;> rfl
  · split <;> rfl
  · split <;> rfl

set_option linter.unusedSimpArgs false in
/-- reading the payload in implicit-header mode: the length is the configured one (as `uint8_t`),
    RegRxNbBytes is not read -/
theorem wp_loraRxReadPayload_implicit (h : Handle) (c : Chip) (bus : List BusEv) (cbs : List CbEvent) (Q)
    (wf : c.WF) (hl : c.isLora = true) (hm : h.activeModem = Gen.SX127x_MODULATION_LORA) (hexp : h.expected ≠ 0)
    (hcap : h.expected.toUInt8.toNat ≤ h.packet.length) :
    wp loraRxReadPayload h ⟨c, bus, cbs⟩ Q ↔
      Q (.ok ()) { h with expected := h.expected.toUInt8.toUInt16,
                          packet := h.packet.wrs 0 (loraPacket c (c.lora.rd 0x10) h.expected.toUInt8.toNat) }
        ⟨if h.expected.toUInt8.toNat = 0 then { c with lora := c.lora.wr 0x0d (c.lora.rd 0x10) }
          else { c with lora := c.lora.wr 0x0d (c.lora.rd 0x10 + UInt8.ofNat h.expected.toUInt8.toNat) },
         .rb 0 h.expected.toUInt8.toNat (.ok (loraPacket c (c.lora.rd 0x10) h.expected.toUInt8.toNat))
           :: .w 0x0d [c.lora.rd 0x10] (.ok ()) :: .r 0x10 1 (.ok (be32 [c.lora.rd 0x10]))
           :: bus, cbs⟩ := by
  have hn : h.expected.toUInt8.toNat ≤ 255 := by have := h.expected.toUInt8.toNat_lt; omega
  have hlen0d : 0x0d < c.lora.length := by rw [wf.hl]; decide
  have wf1 : ({ c with lora := c.lora.wr 0x0d (c.lora.rd 0x10) } : Chip).WF := ⟨wf.hs, by simp [wf.hl], wf.hf, wf.hb⟩
  unfold loraRxReadPayload
  simp only [wp_bind, wp_checkModulation, hm, ne_eq, not_true_eq_false, ↓reduceIte, wp_getH, hexp, wp_rread, wp_modH, wp_pure,
    wp_swrite, show Gen.REGRXNBBYTES = 0x13 from rfl, show Gen.REGFIFORXCURRENTADDR = 0x10 from rfl,
    show Gen.REGFIFOADDRPTR = 0x0d from rfl, show Gen.REGFIFO = 0 from rfl,
    readN_one _ 0x13 (by decide), readN_one _ 0x10 (by decide), show (0x13 % 128) = 0x13 from rfl,
    show (0x10 % 128) = 0x10 from rfl, peek_lora _ _ hl (show inPage 0x13 = true by decide),
    peek_lora _ _ hl (show inPage 0x10 = true by decide), be32_single, writeN_one,
    write_lora _ 0x0d _ hl (by decide) (by decide) (by decide)]
  rw [wp_ite, if_neg (by omega)]
  simp only [wp_bind, wp_modH, wp_rread, wp_swrite, wp_getH, hm,
    readN_one _ 0x10 (by decide), show (0x10 % 128) = 0x10 from rfl,
    peek_lora _ _ hl (show inPage 0x10 = true by decide), be32_single, writeN_one,
    write_lora _ 0x0d _ hl (by decide) (by decide) (by decide)]
  rw [wp_ite, if_pos (by omega), wp_bind, wp_bread]
  rw [readN_fifo_lora _ (by exact hl) wf1]
  simp only [rd_wr_same _ _ _ hlen0d, wr_wr_same]
  unfold packetCopy
  simp only [wp_bind, wp_getH]
  have hlp : (loraPacket c (c.lora.rd 0x10) h.expected.toUInt8.toNat).length = h.expected.toUInt8.toNat := by
    simp [loraPacket]
  have hmap : ((List.range h.expected.toUInt8.toNat).map
      (fun i => c.buf.rd (((c.lora.rd 0x10).toNat + i) % 256))).length = h.expected.toUInt8.toNat := by simp
  rw [wp_ite, if_pos (by rw [hmap]; omega), wp_setH]
  unfold loraPacket
  exact Iff.rfl

/-- **C05, implicit header.** With a length configured by `sx127x_lora_set_implicit_header`
    (`expected_packet_length ≠ 0`; any 16-bit value, the code uses its low byte), when the chip has
    raised RxDone without CadDone and without PayloadCrcError, every start address in RegFifoRxCurrentAddr (wrap-around
    included), every buffer content, every prior FIFO pointer and every other handle field: one
    handler invocation invokes the receive callback exactly once, with exactly the bytes the
    chip stored and the reported length, acknowledges exactly the flags it read, and leaves the
    per-packet state reset (the outcome does not depend on what preceded). -/
theorem C05_rx_done_implicit (fuel : Nat) (h : Handle) (c : Chip) (wf : c.WF) (hl : c.isLora = true)
    (hm : h.activeModem = Gen.SX127x_MODULATION_LORA) (hcb : h.rxCb = true) (hexp : h.expected ≠ 0)
    (hcap : h.expected.toUInt8.toNat ≤ h.packet.length)
    (hcad : c.lora.rd 0x12 &&& 0x04 = 0) (hcrc : c.lora.rd 0x12 &&& 0x20 = 0) (hrx : c.lora.rd 0x12 &&& 0x40 ≠ 0) :
    wp (handleInterrupt fuel) h ⟨c, [], []⟩ (fun r h' s' =>
      s'.cbs = [.rx (loraPacket c (c.lora.rd 0x10) h.expected.toUInt8.toNat) h.expected.toUInt8.toNat] ∧
      h' = afterLoraRx h (loraPacket c (c.lora.rd 0x10) h.expected.toUInt8.toNat) ∧
      s'.chip.lora.rd 0x12 = c.lora.rd 0x12 &&& ~~~ c.lora.rd 0x12 ∧
      s'.chip.buf = c.buf ∧ s'.chip.shared = c.shared ∧ s'.chip.fsk = c.fsk) := by
  rw [wp_handleInterrupt_lora _ _ _ _ hm]
  unfold loraHandleInterrupt loraReadGuard
  simp only [wp_bind, wp_rread, wp_swrite, wp_getH, show Gen.REGIRQFLAGS = 0x12 from rfl,
    readN_one _ 0x12 (by decide), show (0x12 % 128) = 0x12 from rfl, peek_lora _ _ hl (show inPage 0x12 = true by decide),
    be32_single, writeN_one, flag_consts.1, flag_consts.2.1, flag_consts.2.2.1, hcad, hcrc, hrx, ne_eq,
    not_true_eq_false, not_false_eq_true, ↓reduceIte, write_lora_flags _ _ hl]
  have wf1 : ({ c with lora := c.lora.wr 0x12 (c.lora.rd 0x12 &&& ~~~ c.lora.rd 0x12) } : Chip).WF :=
    ⟨wf.hs, by simp [wf.hl], wf.hf, wf.hb⟩
  rw [wp_attempt, wp_loraRxReadPayload_implicit _ _ _ _ _ wf1 (by exact hl) hm hexp hcap]
  simp only [rd_wr_ne _ 0x12 0x13 _ (by decide), rd_wr_ne _ 0x12 0x10 _ (by decide), loraPacket]
  unfold rxCallback
  simp only [wp_bind, wp_pure, wp_getH, hcb, ↓reduceIte, wp_cb, wp_modH]
  have hlen : ((List.range h.expected.toUInt8.toNat).map (fun i => c.buf.rd (((c.lora.rd 0x10).toNat + i) % 256))).length
      = h.expected.toUInt8.toNat := by simp
  have hn : h.expected.toUInt8.toNat ≤ 255 := by have := h.expected.toUInt8.toNat_lt; omega
  have htake := wrs_take h.packet _ (by rw [hlen]; omega : ((List.range h.expected.toUInt8.toNat).map
    (fun i => c.buf.rd (((c.lora.rd 0x10).toNat + i) % 256))).length ≤ h.packet.length)
  rw [hlen] at htake
  have hu16 : h.expected.toUInt8.toUInt16.toNat = h.expected.toUInt8.toNat := by simp
  simp only [hu16, htake]
  refine ⟨by trivial, ?_, ?_, ?_, ?_, ?_⟩
  · simp only [afterLoraRx, hm, hcb]
  · split <;> simp only [rd_wr_ne _ 0x0d 0x12 _ (by decide)] <;> exact rd_wr_same _ _ _ (by rw [wf.hl]; decide)
  · split <;> rfl
  · split <;> rfl
  · split <;> rfl



/-- **C05, a packet longer than the packet buffer** (builds with a small
    CONFIG_SX127X_MAX_PACKET_SIZE): it is not read and not delivered, the handle is exactly what
    it was, and the flags are acknowledged as read — the next packet is handled from scratch. -/
theorem C05_rx_too_long (fuel : Nat) (h : Handle) (c : Chip) (wf : c.WF) (hl : c.isLora = true)
    (hm : h.activeModem = Gen.SX127x_MODULATION_LORA) (hexp : h.expected = 0)
    (hlong : (c.lora.rd 0x13).toNat > h.packet.length)
    (hcad : c.lora.rd 0x12 &&& 0x04 = 0) (hcrc : c.lora.rd 0x12 &&& 0x20 = 0) (hrx : c.lora.rd 0x12 &&& 0x40 ≠ 0) :
    wp (handleInterrupt fuel) h ⟨c, [], []⟩ (fun _ h' s' =>
      s'.cbs = [] ∧ h' = h ∧
      s'.chip.lora.rd 0x12 = c.lora.rd 0x12 &&& ~~~ c.lora.rd 0x12 ∧
      s'.chip.buf = c.buf ∧ s'.chip.shared = c.shared ∧ s'.chip.fsk = c.fsk) := by
  rw [wp_handleInterrupt_lora _ _ _ _ hm]
  unfold loraHandleInterrupt loraReadGuard
  simp only [wp_bind, wp_rread, wp_swrite, wp_getH, show Gen.REGIRQFLAGS = 0x12 from rfl,
    readN_one _ 0x12 (by decide), show (0x12 % 128) = 0x12 from rfl, peek_lora _ _ hl (show inPage 0x12 = true by decide),
    be32_single, writeN_one, flag_consts.1, flag_consts.2.1, flag_consts.2.2.1, hcad, hcrc, hrx, ne_eq,
    not_true_eq_false, not_false_eq_true, ↓reduceIte, write_lora_flags _ _ hl]
  rw [wp_attempt]
  unfold loraRxReadPayload
  simp only [wp_bind, wp_checkModulation, hm, ne_eq, not_true_eq_false, ↓reduceIte, wp_getH, hexp, wp_rread,
    show Gen.REGRXNBBYTES = 0x13 from rfl, readN_one _ 0x13 (by decide), show (0x13 % 128) = 0x13 from rfl,
    peek_lora _ _ (show ({ c with lora := c.lora.wr 0x12 (c.lora.rd 0x12 &&& ~~~ c.lora.rd 0x12) } : Chip).isLora = true from hl)
      (show inPage 0x13 = true by decide), be32_single, rd_wr_ne _ 0x12 0x13 _ (by decide)]
  rw [wp_ite, if_pos hlong, wp_fail]
  simp only [wp_bind, wp_modH, wp_fail]
  refine ⟨trivial, ?_, ?_, trivial, trivial, trivial⟩
  · cases h; simp_all
  · exact rd_wr_same _ _ _ (by rw [wf.hl]; decide)

/-- the same in implicit-header mode: a configured length beyond the packet buffer -/
theorem C05_rx_too_long_implicit (fuel : Nat) (h : Handle) (c : Chip) (wf : c.WF) (hl : c.isLora = true)
    (hm : h.activeModem = Gen.SX127x_MODULATION_LORA) (hexp : h.expected ≠ 0)
    (hlong : h.expected.toUInt8.toNat > h.packet.length)
    (hcad : c.lora.rd 0x12 &&& 0x04 = 0) (hcrc : c.lora.rd 0x12 &&& 0x20 = 0) (hrx : c.lora.rd 0x12 &&& 0x40 ≠ 0) :
    wp (handleInterrupt fuel) h ⟨c, [], []⟩ (fun _ h' s' =>
      s'.cbs = [] ∧ h' = h ∧
      s'.chip.lora.rd 0x12 = c.lora.rd 0x12 &&& ~~~ c.lora.rd 0x12 ∧
      s'.chip.buf = c.buf ∧ s'.chip.shared = c.shared ∧ s'.chip.fsk = c.fsk) := by
  rw [wp_handleInterrupt_lora _ _ _ _ hm]
  unfold loraHandleInterrupt loraReadGuard
  simp only [wp_bind, wp_rread, wp_swrite, wp_getH, show Gen.REGIRQFLAGS = 0x12 from rfl,
    readN_one _ 0x12 (by decide), show (0x12 % 128) = 0x12 from rfl, peek_lora _ _ hl (show inPage 0x12 = true by decide),
    be32_single, writeN_one, flag_consts.1, flag_consts.2.1, flag_consts.2.2.1, hcad, hcrc, hrx, ne_eq,
    not_true_eq_false, not_false_eq_true, ↓reduceIte, write_lora_flags _ _ hl]
  rw [wp_attempt]
  unfold loraRxReadPayload
  simp only [wp_bind, wp_checkModulation, hm, ne_eq, not_true_eq_false, ↓reduceIte, wp_getH, hexp, wp_pure]
  rw [wp_ite, if_pos hlong, wp_fail]
  simp only [wp_bind, wp_modH, wp_fail]
  refine ⟨trivial, ?_, ?_, trivial, trivial, trivial⟩
  · cases h; simp_all
  · exact rd_wr_same _ _ _ (by rw [wf.hl]; decide)

/-- a packet flagged with a payload CRC error is never delivered: the handler only acknowledges
    the flags and restarts the hop sequence -/
theorem C05_crc_error (fuel : Nat) (h : Handle) (c : Chip) (hl : c.isLora = true)
    (hm : h.activeModem = Gen.SX127x_MODULATION_LORA)
    (hcad : c.lora.rd 0x12 &&& 0x04 = 0) (hcrc : c.lora.rd 0x12 &&& 0x20 ≠ 0) :
    wp (handleInterrupt fuel) h ⟨c, [], []⟩ (fun r h' s' =>
      s'.cbs = [] ∧ h' = { h with curFreq := 0 } ∧
      s'.bus = [.w 0x12 [c.lora.rd 0x12] (.ok ()), .r 0x12 1 (.ok (be32 [c.lora.rd 0x12]))]) := by
  rw [wp_handleInterrupt_lora _ _ _ _ hm]
  unfold loraHandleInterrupt
  simp only [wp_bind, wp_rread, wp_swrite, wp_getH, show Gen.REGIRQFLAGS = 0x12 from rfl,
    readN_one _ 0x12 (by decide), show (0x12 % 128) = 0x12 from rfl, peek_lora _ _ hl (show inPage 0x12 = true by decide),
    be32_single, writeN_one, flag_consts.1, flag_consts.2.1, hcad, hcrc, ne_eq,
    not_true_eq_false, not_false_eq_true, ↓reduceIte, wp_modH]
  exact ⟨by trivial, by trivial, by trivial⟩

/-- non-vacuity: a chip state meeting the hypotheses, with a packet that wraps around -/
example : let c : Chip := { Chip.init with shared := Chip.init.shared.wr 1 0x85,
                                             lora := ((Chip.init.lora.wr 0x12 0x50).wr 0x13 3).wr 0x10 0xff }
    c.WF ∧ c.isLora = true ∧ c.lora.rd 0x12 &&& 0x04 = 0 ∧ c.lora.rd 0x12 &&& 0x20 = 0 ∧ c.lora.rd 0x12 &&& 0x40 ≠ 0
      ∧ (loraPacket c (c.lora.rd 0x10) (c.lora.rd 0x13).toNat).length = 3 := by
  refine ⟨⟨by decide +kernel, by decide +kernel, by decide +kernel, by decide +kernel⟩, by decide +kernel, by decide +kernel,
    by decide +kernel, by decide +kernel, by decide +kernel⟩


/-- the `irq` operation is one handler invocation whose early returns are not errors -/
theorem wp_irq (cap fuel : Nat) (h : Handle) (s : PState) (Q : Except Code Unit → Handle → PState → Prop)
    (hw : wp (handleInterrupt fuel) h s Q) :
    wp (Api.prog cap fuel .irq) h s (fun r h' s' => r = .ok .none ∧ ∃ r0, Q r0 h' s') := by
  unfold Api.prog
  rw [wp_bind, wp_attempt]
  apply wp_mono _ _ _ _ _ _ hw
  intro r h' s' hq
  simp only [wp_pure]
  exact ⟨by trivial, r, hq⟩

/-- **C05 in the cached build, after any history.** From any state reachable by an admissible
    history, with LoRa active, explicit header, a receive callback registered: when the chip has
    raised RxDone (without CadDone / PayloadCrcError), one handler invocation reports exactly
    one callback, the receive callback with the chip's bytes and length. -/
theorem C05_cached (c : SysCfg) (hc : c.cached = true) (hnr : c.NoReact) (s : Sys) (i : Inv s.world)
    (h : Handle) (hh : s.handle = some h) (hl : s.world.chip.isLora = true)
    (hm : h.activeModem = Gen.SX127x_MODULATION_LORA) (hcb : h.rxCb = true) (hexp : h.expected = 0)
    (hcap : (s.world.chip.lora.rd 0x13).toNat ≤ h.packet.length)
    (hcad : s.world.chip.lora.rd 0x12 &&& 0x04 = 0) (hcrc : s.world.chip.lora.rd 0x12 &&& 0x20 = 0)
    (hrx : s.world.chip.lora.rd 0x12 &&& 0x40 ≠ 0) :
    let st := s.step c (.api .irq [] [])
    let ch := s.world.chip
    ∃ cbs bus, st.2 = .ret (.ok .none) cbs bus ∧
      cbs.map (·.ev) = [.rx (loraPacket ch (ch.lora.rd 0x10) (ch.lora.rd 0x13).toNat) (ch.lora.rd 0x13).toNat] ∧
      st.1.handle = some (afterLoraRx h (loraPacket ch (ch.lora.rd 0x10) (ch.lora.rd 0x13).toNat)) ∧
      Inv st.1.world := by
  intro st ch
  have hw := wp_irq c.cap c.fuel _ _ _ (C05_rx_done c.fuel h s.world.chip i.chip hl hm hcb hexp hcap hcad hcrc hrx)
  obtain ⟨r, h', ps, cbs, bus, hobs, hhd, hchip, hq, hcbs, _, hinv⟩ :=
    step_cached_of_wp c hc hnr s i .irq trivial h hh rfl _ hw
  obtain ⟨hr, r0, hq1, hq2, _⟩ := hq
  subst hr
  refine ⟨cbs, bus, hobs, ?_, ?_, hinv⟩
  · rw [hcbs, hq1]; rfl
  · show (s.step c (.api .irq [] [])).1.handle = _
    rw [hhd, hq2]

/-- **C05 in the cached build, implicit header.** From any state reachable by an admissible
    history, with LoRa active, a configured implicit-header length, a receive callback registered: when the chip has
    raised RxDone (without CadDone / PayloadCrcError), one handler invocation reports exactly
    one callback, the receive callback with the chip's bytes and length. -/
theorem C05_cached_implicit (c : SysCfg) (hc : c.cached = true) (hnr : c.NoReact) (s : Sys) (i : Inv s.world)
    (h : Handle) (hh : s.handle = some h) (hl : s.world.chip.isLora = true)
    (hm : h.activeModem = Gen.SX127x_MODULATION_LORA) (hcb : h.rxCb = true) (hexp : h.expected ≠ 0)
    (hcap : h.expected.toUInt8.toNat ≤ h.packet.length)
    (hcad : s.world.chip.lora.rd 0x12 &&& 0x04 = 0) (hcrc : s.world.chip.lora.rd 0x12 &&& 0x20 = 0)
    (hrx : s.world.chip.lora.rd 0x12 &&& 0x40 ≠ 0) :
    let st := s.step c (.api .irq [] [])
    let ch := s.world.chip
    ∃ cbs bus, st.2 = .ret (.ok .none) cbs bus ∧
      cbs.map (·.ev) = [.rx (loraPacket ch (ch.lora.rd 0x10) h.expected.toUInt8.toNat) h.expected.toUInt8.toNat] ∧
      st.1.handle = some (afterLoraRx h (loraPacket ch (ch.lora.rd 0x10) h.expected.toUInt8.toNat)) ∧
      Inv st.1.world := by
  intro st ch
  have hw := wp_irq c.cap c.fuel _ _ _ (C05_rx_done_implicit c.fuel h s.world.chip i.chip hl hm hcb hexp hcap hcad hcrc hrx)
  obtain ⟨r, h', ps, cbs, bus, hobs, hhd, hchip, hq, hcbs, _, hinv⟩ :=
    step_cached_of_wp c hc hnr s i .irq trivial h hh rfl _ hw
  obtain ⟨hr, r0, hq1, hq2, _⟩ := hq
  subst hr
  refine ⟨cbs, bus, hobs, ?_, ?_, hinv⟩
  · rw [hcbs, hq1]; rfl
  · show (s.step c (.api .irq [] [])).1.handle = _
    rw [hhd, hq2]


/-! ### sequences of packets -/

/-- writing `data[i]` at `(start + i) % 256` for `i < m ≤ 256`, then reading `(start + j) % 256`
    for `j < m`, gives `data[j]`; other cells keep their value -/
theorem fill_read (data : List UInt8) (start : Nat) (m : Nat) (hm : m ≤ 256) (b : Mem) (hb : b.length = 256) :
    ((List.range m).foldl (fun b i => b.wr ((start + i) % 256) (data.getD i 0)) b).length = 256 ∧
    ∀ j, j < m → ((List.range m).foldl (fun b i => b.wr ((start + i) % 256) (data.getD i 0)) b).rd ((start + j) % 256) = data.getD j 0 := by
  induction m with
  | zero => exact ⟨by simpa using hb, fun j hj => absurd hj (Nat.not_lt_zero _)⟩
  | succ n ih =>
    obtain ⟨hl, hr⟩ := ih (by omega)
    rw [List.range_succ, List.foldl_append]
    simp only [List.foldl_cons, List.foldl_nil]
    refine ⟨by rw [Mem.length_wr]; exact hl, ?_⟩
    intro j hj
    by_cases hjn : j = n
    · subst hjn
      exact rd_wr_same _ _ _ (by rw [hl]; exact Nat.mod_lt _ (by decide))
    · have hne : (start + n) % 256 ≠ (start + j) % 256 := by omega
      rw [rd_wr_ne _ _ _ _ hne]
      exact hr j (by omega)



/-- a LoRa packet as the chip receives it: where it is stored in the 256-byte buffer, whether
    its payload CRC failed, and its (at most 255) bytes -/
structure LoraPkt where
  start : UInt8
  crcErr : Bool
  data : List UInt8

/-- what the chip looks like after it received a packet, starting from cleared interrupt flags -/
theorem loraRx_chip (c : Chip) (wf : c.WF) (hflags : c.lora.rd 0x12 = 0) (p : LoraPkt) (hlen : p.data.length ≤ 255) :
    let c' := Env.apply c (.loraRx p.start p.crcErr p.data)
    c'.shared = c.shared ∧ c'.fsk = c.fsk ∧ c'.WF ∧
    c'.lora.rd 0x12 = 0x50 ||| (if p.crcErr then 0x20 else 0) ∧
    c'.lora.rd 0x10 = p.start ∧ (c'.lora.rd 0x13).toNat = p.data.length ∧
    loraPacket c' p.start p.data.length = p.data := by
  intro c'
  have htake : p.data.take 255 = p.data := List.take_of_length_le hlen
  have hc' : c' = { c with
      buf := (List.range p.data.length).foldl (fun b i => b.wr ((p.start.toNat + i) % 256) (p.data.getD i 0)) c.buf,
      lora := (((c.lora.wr 0x10 p.start).wr 0x13 (UInt8.ofNat p.data.length)).wr 0x25 (p.start + UInt8.ofNat p.data.length)).wr 0x12
        ((((c.lora.wr 0x10 p.start).wr 0x13 (UInt8.ofNat p.data.length)).wr 0x25 (p.start + UInt8.ofNat p.data.length)).rd 0x12 ||| 0x50 ||| (if p.crcErr then 0x20 else 0)) } := by
    show Env.apply c (.loraRx p.start p.crcErr p.data) = _
    unfold Env.apply
    simp only [htake]
  obtain ⟨hfl, hfr⟩ := fill_read p.data p.start.toNat p.data.length (by omega) c.buf wf.hb
  have l128 : ∀ (a : Nat) (v : UInt8) (m : Mem), m.length = 128 → (m.wr a v).length = 128 := fun a v m h => by rw [Mem.length_wr]; exact h
  rw [hc']
  refine ⟨rfl, rfl, ⟨wf.hs, ?_, wf.hf, hfl⟩, ?_, ?_, ?_, ?_⟩
  · exact l128 _ _ _ (l128 _ _ _ (l128 _ _ _ (l128 _ _ _ wf.hl)))
  · show ((((c.lora.wr 0x10 p.start).wr 0x13 _).wr 0x25 _).wr 0x12 _).rd 0x12 = _
    rw [rd_wr_same _ _ _ (by rw [l128 _ _ _ (l128 _ _ _ (l128 _ _ _ wf.hl))]; decide)]
    rw [rd_wr_ne _ 0x25 0x12 _ (by decide), rd_wr_ne _ 0x13 0x12 _ (by decide), rd_wr_ne _ 0x10 0x12 _ (by decide), hflags]
    simp
  · show ((((c.lora.wr 0x10 p.start).wr 0x13 _).wr 0x25 _).wr 0x12 _).rd 0x10 = _
    rw [rd_wr_ne _ 0x12 0x10 _ (by decide), rd_wr_ne _ 0x25 0x10 _ (by decide), rd_wr_ne _ 0x13 0x10 _ (by decide)]
    exact rd_wr_same _ _ _ (by rw [wf.hl]; decide)
  · show (((((c.lora.wr 0x10 p.start).wr 0x13 _).wr 0x25 _).wr 0x12 _).rd 0x13).toNat = _
    rw [rd_wr_ne _ 0x12 0x13 _ (by decide), rd_wr_ne _ 0x25 0x13 _ (by decide)]
    rw [rd_wr_same _ _ _ (by rw [l128 _ _ _ wf.hl]; decide)]
    simp; omega
  · unfold loraPacket
    apply List.ext_getElem
    · simp
    · intro i h1 h2
      simp only [List.getElem_map, List.getElem_range]
      have hi : i < p.data.length := by simpa using h1
      rw [hfr i hi]
      simp [List.getD_eq_getElem?_getD, hi]



/-- `C05_crc_error` with the chip afterwards: only the flags are acknowledged -/
theorem C05_crc_error_chip (fuel : Nat) (h : Handle) (c : Chip) (hl : c.isLora = true)
    (hm : h.activeModem = Gen.SX127x_MODULATION_LORA)
    (hcad : c.lora.rd 0x12 &&& 0x04 = 0) (hcrc : c.lora.rd 0x12 &&& 0x20 ≠ 0) :
    wp (handleInterrupt fuel) h ⟨c, [], []⟩ (fun _ h' s' =>
      s'.cbs = [] ∧ h' = { h with curFreq := 0 } ∧
      s'.chip = { c with lora := c.lora.wr 0x12 (c.lora.rd 0x12 &&& ~~~ c.lora.rd 0x12) }) := by
  rw [wp_handleInterrupt_lora _ _ _ _ hm]
  unfold loraHandleInterrupt
  simp only [wp_bind, wp_rread, wp_swrite, wp_getH, show Gen.REGIRQFLAGS = 0x12 from rfl,
    readN_one _ 0x12 (by decide), show (0x12 % 128) = 0x12 from rfl, peek_lora _ _ hl (show inPage 0x12 = true by decide),
    be32_single, writeN_one, flag_consts.1, flag_consts.2.1, hcad, hcrc, ne_eq,
    not_true_eq_false, not_false_eq_true, ↓reduceIte, wp_modH, write_lora_flags _ _ hl]
  exact ⟨by trivial, by trivial, by trivial⟩



theorem u8_and_not_self (x : UInt8) : x &&& ~~~ x = 0 := by
  apply UInt8.eq_of_toBitVec_eq
  simp

/-- a LoRa receiver between two packets: coherent cache, LoRa page selected, explicit-header
    reception with a callback, a buffer for the longest packet, all interrupt flags cleared -/
structure LoraIdle (s : Sys) (h : Handle) : Prop where
  inv : Inv s.world
  handle : s.handle = some h
  page : s.world.chip.isLora = true
  modem : h.activeModem = Gen.SX127x_MODULATION_LORA
  cb : h.rxCb = true
  exp : h.expected = 0
  cap : 255 ≤ h.packet.length
  flags : s.world.chip.lora.rd 0x12 = 0

/-- the callbacks a packet must produce -/
def LoraPkt.expected (p : LoraPkt) : List CbEvent := if p.crcErr then [] else [.rx p.data p.data.length]

/-- what the application sees of a sequence of packets, each followed by one handler invocation -/
def LoraSeen : List LoraPkt → List Obs → Prop
  | [], [] => True
  | p :: ps, .env :: o :: rest => o.cbEvents = p.expected ∧ (∃ r cbs bus, o = .ret r cbs bus) ∧ LoraSeen ps rest
  | _, _ => False

def loraOps (ps : List LoraPkt) : List Op :=
  ps.flatMap fun p => [.env (.loraRx p.start p.crcErr p.data), .api .irq [] []]

/-- one packet, one invocation -/
theorem LoraIdle.packet (c : SysCfg) (hc : c.cached = true) (hnr : c.NoReact) {s : Sys} {h : Handle} (hi : LoraIdle s h)
    (p : LoraPkt) (hlen : p.data.length ≤ 255) :
    let s1 := (s.step c (.env (.loraRx p.start p.crcErr p.data))).1
    (s.step c (.env (.loraRx p.start p.crcErr p.data))).2 = .env ∧
    ∃ r cbs bus h', (s1.step c (.api .irq [] [])).2 = .ret r cbs bus ∧ cbs.map (·.ev) = p.expected ∧
      LoraIdle (s1.step c (.api .irq [] [])).1 h' := by
  intro s1
  refine ⟨rfl, ?_⟩
  have hs1 : s1 = { s with world := { s.world with chip := Env.apply s.world.chip (.loraRx p.start p.crcErr p.data) } } := rfl
  obtain ⟨e1, e2, wf1, f12, f10, f13, hpkt⟩ := loraRx_chip s.world.chip hi.inv.chip hi.flags p hlen
  have st := Env.apply_stable hi.inv.chip (.loraRx p.start p.crcErr p.data) rfl
  have i1 : Inv s1.world := ⟨st.wf, hi.inv.cache, Cache.coh_stable hi.inv.cache hi.inv.coh st, hi.inv.sched⟩
  have hl1 : s1.world.chip.isLora = true := by
    show (Env.apply s.world.chip _).isLora = true
    unfold Chip.isLora; rw [e1]; exact hi.page
  have hh1 : s1.handle = some h := hi.handle
  cases hce : p.crcErr with
  | false =>
    have hflag : s1.world.chip.lora.rd 0x12 = 0x50 := by
      show (Env.apply s.world.chip _).lora.rd 0x12 = _; rw [f12, hce]; rfl
    have hw := wp_irq c.cap c.fuel _ _ _ (C05_rx_done c.fuel h s1.world.chip i1.chip hl1 hi.modem hi.cb hi.exp
      (by show ((Env.apply s.world.chip _).lora.rd 0x13).toNat ≤ _; rw [f13]; exact Nat.le_trans hlen hi.cap)
      (by rw [hflag]; decide) (by rw [hflag]; decide) (by rw [hflag]; decide))
    obtain ⟨r, h', ps, cbs, bus, hobs, hhd, hchip, hq, hcbs, _, hinv⟩ :=
      step_cached_of_wp c hc hnr s1 i1 .irq trivial h hh1 rfl _ hw
    obtain ⟨_, r0, q1, q2, q3, _, q5, _⟩ := hq
    have hp13 : (s1.world.chip.lora.rd 0x13).toNat = p.data.length := f13
    have hp10 : s1.world.chip.lora.rd 0x10 = p.start := f10
    refine ⟨r, cbs, bus, h', hobs, ?_, ⟨hinv, hhd, ?_, ?_, ?_, ?_, ?_, ?_⟩⟩
    · rw [hcbs, q1, hp10, hp13]
      show [CbEvent.rx (loraPacket (Env.apply s.world.chip _) p.start p.data.length) p.data.length].reverse = _
      rw [hpkt]; unfold LoraPkt.expected; rw [hce]; rfl
    · rw [hchip]; unfold Chip.isLora; rw [q5]; exact hl1
    · rw [q2]; exact hi.modem
    · rw [q2]; exact hi.cb
    · rw [q2]; rfl
    · rw [q2]; show (h.packet.wrs 0 _).length ≥ 255; rw [Mem.length_wrs]; exact hi.cap
    · rw [hchip, q3]; exact u8_and_not_self _
  | true =>
    have hflag : s1.world.chip.lora.rd 0x12 = 0x70 := by
      show (Env.apply s.world.chip _).lora.rd 0x12 = _; rw [f12, hce]; rfl
    have hw := wp_irq c.cap c.fuel _ _ _ (C05_crc_error_chip c.fuel h s1.world.chip hl1 hi.modem
      (by rw [hflag]; decide) (by rw [hflag]; decide))
    obtain ⟨r, h', ps, cbs, bus, hobs, hhd, hchip, hq, hcbs, _, hinv⟩ :=
      step_cached_of_wp c hc hnr s1 i1 .irq trivial h hh1 rfl _ hw
    obtain ⟨_, r0, q1, q2, q3⟩ := hq
    refine ⟨r, cbs, bus, h', hobs, ?_, ⟨hinv, hhd, ?_, ?_, ?_, ?_, ?_, ?_⟩⟩
    · rw [hcbs, q1]; unfold LoraPkt.expected; rw [hce]; rfl
    · rw [hchip, q3]; exact hl1
    · rw [q2]; exact hi.modem
    · rw [q2]; exact hi.cb
    · rw [q2]; exact hi.exp
    · rw [q2]; exact hi.cap
    · rw [hchip, q3]
      show (s1.world.chip.lora.wr 0x12 _).rd 0x12 = 0
      rw [rd_wr_same _ _ _ (by rw [i1.chip.hl]; decide)]
      exact u8_and_not_self _



theorem run_append (c : SysCfg) (s : Sys) (a b : List Op) :
    Sys.run c s (a ++ b) = ((Sys.run c (Sys.run c s a).1 b).1, (Sys.run c s a).2 ++ (Sys.run c (Sys.run c s a).1 b).2) := by
  induction a generalizing s with
  | nil => simp [Sys.run]
  | cons x xs ih =>
    simp only [List.cons_append, Sys.run]
    rw [ih]

/-- **C05, sequences of packets.** In the build with the register cache, from a LoRa receiver
    between two packets (any state reachable by an admissible history that leaves it idle), for
    every sequence of packets — any lengths up to 255, any buffer positions (wrap-around
    included), any contents, with and without payload CRC error, in any order — each followed by
    one handler invocation: every invocation shows exactly the callbacks of *its* packet (the
    receive callback with exactly the bytes and the length, or nothing for a CRC-failed packet);
    the outcome for a packet does not depend on what preceded it. -/
theorem C05_sequence (c : SysCfg) (hc : c.cached = true) (hnr : c.NoReact) (ps : List LoraPkt)
    (hlen : ∀ p ∈ ps, p.data.length ≤ 255) (s : Sys) (h : Handle) (hi : LoraIdle s h) :
    LoraSeen ps (Sys.run c s (loraOps ps)).2 := by
  induction ps generalizing s h with
  | nil => simp [loraOps, Sys.run, LoraSeen]
  | cons p rest ih =>
    obtain ⟨ho1, r, cbs, bus, h', ho2, hcbs, hi'⟩ := hi.packet c hc hnr p (hlen p List.mem_cons_self)
    have hops : loraOps (p :: rest) = [.env (.loraRx p.start p.crcErr p.data), .api .irq [] []] ++ loraOps rest := by
      simp [loraOps]
    rw [hops, run_append]
    have hrun2 : (Sys.run c s [.env (.loraRx p.start p.crcErr p.data), .api .irq [] []]).2 =
        [(s.step c (.env (.loraRx p.start p.crcErr p.data))).2,
         ((s.step c (.env (.loraRx p.start p.crcErr p.data))).1.step c (.api .irq [] [])).2] := by
      simp [Sys.run]
    have hrun1 : (Sys.run c s [.env (.loraRx p.start p.crcErr p.data), .api .irq [] []]).1 =
        ((s.step c (.env (.loraRx p.start p.crcErr p.data))).1.step c (.api .irq [] [])).1 := by
      simp [Sys.run]
    show LoraSeen (p :: rest) (_ ++ _)
    rw [hrun2, hrun1, ho1, ho2]
    exact ⟨hcbs, ⟨r, cbs, bus, rfl⟩, ih (fun q hq => hlen q (List.mem_cons_of_mem _ hq)) _ h' hi'⟩



/-- non-vacuity: a chip in LoRa receive mode with cleared flags, a fresh cache and a handle with a
    255-byte buffer is `LoraIdle` -/
example : LoraIdle
    { world := { chip := { shared := (Mem.zeros 128).wr 1 0x85 } },
      handle := some { activeModem := Gen.SX127x_MODULATION_LORA, rxCb := true, packet := Mem.zeros 255 } }
    { activeModem := Gen.SX127x_MODULATION_LORA, rxCb := true, packet := Mem.zeros 255 } :=
  ⟨⟨⟨by decide +kernel, by decide +kernel, by decide +kernel, by decide +kernel⟩, Cache.fresh_wf, Cache.fresh_coh _, fun e he => by cases he⟩,
    rfl, by decide +kernel, rfl, rfl, rfl, by decide +kernel, by decide +kernel⟩

/-- the expectation distinguishes packets: a CRC-failed packet must produce nothing, a good one
    exactly its bytes -/
example : (LoraPkt.mk 250 false [1, 2, 3]).expected = [.rx [1, 2, 3] 3] ∧ (LoraPkt.mk 0 true [9]).expected = [] := ⟨rfl, rfl⟩

end Sx
