import Sx.Lemmas.WpLib
import Sx.Lemmas.Fifo
/-
  C05 — LoRa reception delivers the chip's packet bytes and length exactly, once.
-/
namespace Sx
open Sx.Model DM Mem Chip

/-- the bytes the chip stored for a packet of `n` bytes starting at buffer address `start`,
    wrapping around the 256-byte buffer -/
def loraPacket (c : Chip) (start : UInt8) (n : Nat) : List UInt8 :=
  (List.range n).map (fun i => c.buf.rd ((start.toNat + i) % 256))

/-- the handle after a delivered LoRa packet -/
def afterLoraRx (h : Handle) (data : List UInt8) : Handle :=
  { h with packet := h.packet.wrs 0 data, expected := 0, curFreq := 0 }

theorem wp_handleInterrupt_lora (fuel : Nat) (h : Handle) (s : PState) (Q)
    (hm : h.activeModem = Gen.SX127x_MODULATION_LORA) :
    wp (handleInterrupt fuel) h s Q ↔ wp loraHandleInterrupt h s Q := by
  unfold handleInterrupt
  rw [wp_bind, wp_getH]
  simp only [hm, ↓reduceIte]

theorem write_lora_flags (c : Chip) (v : UInt8) (hl : c.isLora = true) :
    c.write 0x12 v = { c with lora := c.lora.wr 0x12 (c.lora.rd 0x12 &&& ~~~ v) } := by
  simp [Chip.write, hl]

theorem flag_consts :
    u8 Gen.SX127x_IRQ_FLAG_CADDONE = 0x04 ∧ u8 Gen.SX127x_IRQ_FLAG_PAYLOAD_CRC_ERROR = 0x20 ∧
    u8 Gen.SX127x_IRQ_FLAG_RXDONE = 0x40 ∧ u8 Gen.SX127x_IRQ_FLAG_TXDONE = 0x08 ∧
    u8 Gen.SX127x_IRQ_FLAG_FHSSCHANGECHANNEL = 0x02 ∧ u8 Gen.SX127x_IRQ_FLAG_CAD_DETECTED = 0x01 := by decide

/-- reading the payload: FIFO pointer := current RX address, burst read of the reported length -/
theorem wp_loraRxReadPayload (h : Handle) (c : Chip) (bus : List BusEv) (cbs : List CbEvent) (Q)
    (wf : c.WF) (hl : c.isLora = true) (hm : h.activeModem = Gen.SX127x_MODULATION_LORA) (hexp : h.expected = 0)
    (hcap : (c.lora.rd 0x13).toNat ≤ h.packet.length) :
    wp loraRxReadPayload h ⟨c, bus, cbs⟩ Q ↔
      Q (.ok ()) { h with expected := (c.lora.rd 0x13).toUInt16,
                          packet := h.packet.wrs 0 (loraPacket c (c.lora.rd 0x10) (c.lora.rd 0x13).toNat) }
        ⟨if (c.lora.rd 0x13).toNat = 0 then { c with lora := c.lora.wr 0x0d (c.lora.rd 0x10) }
          else { c with lora := c.lora.wr 0x0d (c.lora.rd 0x10 + UInt8.ofNat (c.lora.rd 0x13).toNat) },
         .rb 0 (c.lora.rd 0x13).toNat (.ok (loraPacket c (c.lora.rd 0x10) (c.lora.rd 0x13).toNat))
           :: .w 0x0d [c.lora.rd 0x10] (.ok ()) :: .r 0x10 1 (.ok (be32 [c.lora.rd 0x10]))
           :: .r 0x13 1 (.ok (be32 [c.lora.rd 0x13])) :: bus, cbs⟩ := by
  have hn : (c.lora.rd 0x13).toNat ≤ 255 := by have := (c.lora.rd 0x13).toNat_lt; omega
  have hlen0d : 0x0d < c.lora.length := by rw [wf.hl]; decide
  have wf1 : ({ c with lora := c.lora.wr 0x0d (c.lora.rd 0x10) } : Chip).WF := ⟨wf.hs, by simp [wf.hl], wf.hf, wf.hb⟩
  unfold loraRxReadPayload
  simp only [wp_bind, wp_checkModulation, hm, ne_eq, not_true_eq_false, ↓reduceIte, wp_getH, hexp, wp_rread, wp_modH,
    wp_swrite, show Gen.REGRXNBBYTES = 0x13 from rfl, show Gen.REGFIFORXCURRENTADDR = 0x10 from rfl,
    show Gen.REGFIFOADDRPTR = 0x0d from rfl, show Gen.REGFIFO = 0 from rfl,
    readN_one _ 0x13 (by decide), readN_one _ 0x10 (by decide), show (0x13 % 128) = 0x13 from rfl,
    show (0x10 % 128) = 0x10 from rfl, peek_lora _ _ hl (show inPage 0x13 = true by decide),
    peek_lora _ _ hl (show inPage 0x10 = true by decide), be32_single, writeN_one,
    write_lora _ 0x0d _ hl (by decide) (by decide) (by decide)]
  rw [wp_ite, if_neg (by omega)]
  simp only [wp_bind, wp_modH, wp_rread, wp_swrite, wp_getH, hm,
    readN_one _ 0x10 (by decide), show (0x10 % 128) = 0x10 from rfl,
    peek_lora _ _ hl (show inPage 0x10 = true by decide), be32_single, writeN_one,
    write_lora _ 0x0d _ hl (by decide) (by decide) (by decide)]
  rw [wp_ite, if_pos (by omega), wp_bind, wp_bread]
  rw [readN_fifo_lora _ (by exact hl) wf1]
  simp only [rd_wr_same _ _ _ hlen0d, wr_wr_same]
  unfold packetCopy
  simp only [wp_bind, wp_getH]
  have hlp : (loraPacket c (c.lora.rd 0x10) (c.lora.rd 0x13).toNat).length = (c.lora.rd 0x13).toNat := by
    simp [loraPacket]
  have hmap : ((List.range (c.lora.rd 0x13).toNat).map
      (fun i => c.buf.rd (((c.lora.rd 0x10).toNat + i) % 256))).length = (c.lora.rd 0x13).toNat := by simp
  rw [wp_ite, if_pos (by rw [hmap]; omega), wp_setH]
  unfold loraPacket
  exact Iff.rfl

/-- **C05, explicit header.** In LoRa mode, when the chip has raised RxDone without CadDone and
    without PayloadCrcError (any combination of the other flags), for every packet length
    0..255 reported in RegRxNbBytes that fits the packet buffer (any buffer size), every start address in RegFifoRxCurrentAddr (wrap-around
    included), every buffer content, every prior FIFO pointer and every other handle field: one
    handler invocation invokes the receive callback exactly once, with exactly the bytes the
    chip stored and the reported length, acknowledges exactly the flags it read, and leaves the
    per-packet state reset (the outcome does not depend on what preceded). -/
theorem C05_rx_done (fuel : Nat) (h : Handle) (c : Chip) (wf : c.WF) (hl : c.isLora = true)
    (hm : h.activeModem = Gen.SX127x_MODULATION_LORA) (hcb : h.rxCb = true) (hexp : h.expected = 0)
    (hcap : (c.lora.rd 0x13).toNat ≤ h.packet.length)
    (hcad : c.lora.rd 0x12 &&& 0x04 = 0) (hcrc : c.lora.rd 0x12 &&& 0x20 = 0) (hrx : c.lora.rd 0x12 &&& 0x40 ≠ 0) :
    wp (handleInterrupt fuel) h ⟨c, [], []⟩ (fun r h' s' =>
      s'.cbs = [.rx (loraPacket c (c.lora.rd 0x10) (c.lora.rd 0x13).toNat) (c.lora.rd 0x13).toNat] ∧
      h' = afterLoraRx h (loraPacket c (c.lora.rd 0x10) (c.lora.rd 0x13).toNat) ∧
      s'.chip.lora.rd 0x12 = c.lora.rd 0x12 &&& ~~~ c.lora.rd 0x12 ∧
      s'.chip.buf = c.buf ∧ s'.chip.shared = c.shared ∧ s'.chip.fsk = c.fsk) := by
  rw [wp_handleInterrupt_lora _ _ _ _ hm]
  unfold loraHandleInterrupt loraReadGuard
  simp only [wp_bind, wp_rread, wp_swrite, wp_getH, show Gen.REGIRQFLAGS = 0x12 from rfl,
    readN_one _ 0x12 (by decide), show (0x12 % 128) = 0x12 from rfl, peek_lora _ _ hl (show inPage 0x12 = true by decide),
    be32_single, writeN_one, flag_consts.1, flag_consts.2.1, flag_consts.2.2.1, hcad, hcrc, hrx, ne_eq,
    not_true_eq_false, not_false_eq_true, ↓reduceIte, write_lora_flags _ _ hl]
  have wf1 : ({ c with lora := c.lora.wr 0x12 (c.lora.rd 0x12 &&& ~~~ c.lora.rd 0x12) } : Chip).WF :=
    ⟨wf.hs, by simp [wf.hl], wf.hf, wf.hb⟩
  rw [wp_attempt, wp_loraRxReadPayload _ _ _ _ _ wf1 (by exact hl) hm hexp
    (by show ((c.lora.wr 0x12 _).rd 0x13).toNat ≤ _; rw [rd_wr_ne _ 0x12 0x13 _ (by decide)]; exact hcap)]
  simp only [rd_wr_ne _ 0x12 0x13 _ (by decide), rd_wr_ne _ 0x12 0x10 _ (by decide), loraPacket]
  unfold rxCallback
  simp only [wp_bind, wp_pure, wp_getH, hcb, ↓reduceIte, wp_cb, wp_modH]
  have hlen : ((List.range (c.lora.rd 0x13).toNat).map (fun i => c.buf.rd (((c.lora.rd 0x10).toNat + i) % 256))).length
      = (c.lora.rd 0x13).toNat := by simp
  have hn : (c.lora.rd 0x13).toNat ≤ 255 := by have := (c.lora.rd 0x13).toNat_lt; omega
  have htake := wrs_take h.packet _ (by rw [hlen]; omega : ((List.range (c.lora.rd 0x13).toNat).map
    (fun i => c.buf.rd (((c.lora.rd 0x10).toNat + i) % 256))).length ≤ h.packet.length)
  rw [hlen] at htake
  have hu16 : (c.lora.rd 0x13).toUInt16.toNat = (c.lora.rd 0x13).toNat := by simp
  simp only [hu16, htake]
  refine ⟨by trivial, ?_, ?_, ?_, ?_, ?_⟩
  · simp only [afterLoraRx, hm, hcb]
  · split <;> simp only [rd_wr_ne _ 0x0d 0x12 _ (by decide)] <;> exact rd_wr_same _ _ _ (by rw [wf.hl]; decide)
  · split <;> rfl
  · split <;> rfl
  · split <;> rfl

set_option linter.unusedSimpArgs false in
/-- reading the payload in implicit-header mode: the length is the configured one (as `uint8_t`),
    RegRxNbBytes is not read -/
theorem wp_loraRxReadPayload_implicit (h : Handle) (c : Chip) (bus : List BusEv) (cbs : List CbEvent) (Q)
    (wf : c.WF) (hl : c.isLora = true) (hm : h.activeModem = Gen.SX127x_MODULATION_LORA) (hexp : h.expected ≠ 0)
    (hcap : h.expected.toUInt8.toNat ≤ h.packet.length) :
    wp loraRxReadPayload h ⟨c, bus, cbs⟩ Q ↔
      Q (.ok ()) { h with expected := h.expected.toUInt8.toUInt16,
                          packet := h.packet.wrs 0 (loraPacket c (c.lora.rd 0x10) h.expected.toUInt8.toNat) }
        ⟨if h.expected.toUInt8.toNat = 0 then { c with lora := c.lora.wr 0x0d (c.lora.rd 0x10) }
          else { c with lora := c.lora.wr 0x0d (c.lora.rd 0x10 + UInt8.ofNat h.expected.toUInt8.toNat) },
         .rb 0 h.expected.toUInt8.toNat (.ok (loraPacket c (c.lora.rd 0x10) h.expected.toUInt8.toNat))
           :: .w 0x0d [c.lora.rd 0x10] (.ok ()) :: .r 0x10 1 (.ok (be32 [c.lora.rd 0x10]))
           :: bus, cbs⟩ := by
  have hn : h.expected.toUInt8.toNat ≤ 255 := by have := h.expected.toUInt8.toNat_lt; omega
  have hlen0d : 0x0d < c.lora.length := by rw [wf.hl]; decide
  have wf1 : ({ c with lora := c.lora.wr 0x0d (c.lora.rd 0x10) } : Chip).WF := ⟨wf.hs, by simp [wf.hl], wf.hf, wf.hb⟩
  unfold loraRxReadPayload
  simp only [wp_bind, wp_checkModulation, hm, ne_eq, not_true_eq_false, ↓reduceIte, wp_getH, hexp, wp_rread, wp_modH, wp_pure,
    wp_swrite, show Gen.REGRXNBBYTES = 0x13 from rfl, show Gen.REGFIFORXCURRENTADDR = 0x10 from rfl,
    show Gen.REGFIFOADDRPTR = 0x0d from rfl, show Gen.REGFIFO = 0 from rfl,
    readN_one _ 0x13 (by decide), readN_one _ 0x10 (by decide), show (0x13 % 128) = 0x13 from rfl,
    show (0x10 % 128) = 0x10 from rfl, peek_lora _ _ hl (show inPage 0x13 = true by decide),
    peek_lora _ _ hl (show inPage 0x10 = true by decide), be32_single, writeN_one,
    write_lora _ 0x0d _ hl (by decide) (by decide) (by decide)]
  rw [wp_ite, if_neg (by omega)]
  simp only [wp_bind, wp_modH, wp_rread, wp_swrite, wp_getH, hm,
    readN_one _ 0x10 (by decide), show (0x10 % 128) = 0x10 from rfl,
    peek_lora _ _ hl (show inPage 0x10 = true by decide), be32_single, writeN_one,
    write_lora _ 0x0d _ hl (by decide) (by decide) (by decide)]
  rw [wp_ite, if_pos (by omega), wp_bind, wp_bread]
  rw [readN_fifo_lora _ (by exact hl) wf1]
  simp only [rd_wr_same _ _ _ hlen0d, wr_wr_same]
  unfold packetCopy
  simp only [wp_bind, wp_getH]
  have hlp : (loraPacket c (c.lora.rd 0x10) h.expected.toUInt8.toNat).length = h.expected.toUInt8.toNat := by
    simp [loraPacket]
  have hmap : ((List.range h.expected.toUInt8.toNat).map
      (fun i => c.buf.rd (((c.lora.rd 0x10).toNat + i) % 256))).length = h.expected.toUInt8.toNat := by simp
  rw [wp_ite, if_pos (by rw [hmap]; omega), wp_setH]
  unfold loraPacket
  exact Iff.rfl

/-- **C05, implicit header.** With a length configured by `sx127x_lora_set_implicit_header`
    (`expected_packet_length ≠ 0`; any 16-bit value, the code uses its low byte), when the chip has
    raised RxDone without CadDone and without PayloadCrcError, every start address in RegFifoRxCurrentAddr (wrap-around
    included), every buffer content, every prior FIFO pointer and every other handle field: one
    handler invocation invokes the receive callback exactly once, with exactly the bytes the
    chip stored and the reported length, acknowledges exactly the flags it read, and leaves the
    per-packet state reset (the outcome does not depend on what preceded). -/
theorem C05_rx_done_implicit (fuel : Nat) (h : Handle) (c : Chip) (wf : c.WF) (hl : c.isLora = true)
    (hm : h.activeModem = Gen.SX127x_MODULATION_LORA) (hcb : h.rxCb = true) (hexp : h.expected ≠ 0)
    (hcap : h.expected.toUInt8.toNat ≤ h.packet.length)
    (hcad : c.lora.rd 0x12 &&& 0x04 = 0) (hcrc : c.lora.rd 0x12 &&& 0x20 = 0) (hrx : c.lora.rd 0x12 &&& 0x40 ≠ 0) :
    wp (handleInterrupt fuel) h ⟨c, [], []⟩ (fun r h' s' =>
      s'.cbs = [.rx (loraPacket c (c.lora.rd 0x10) h.expected.toUInt8.toNat) h.expected.toUInt8.toNat] ∧
      h' = afterLoraRx h (loraPacket c (c.lora.rd 0x10) h.expected.toUInt8.toNat) ∧
      s'.chip.lora.rd 0x12 = c.lora.rd 0x12 &&& ~~~ c.lora.rd 0x12 ∧
      s'.chip.buf = c.buf ∧ s'.chip.shared = c.shared ∧ s'.chip.fsk = c.fsk) := by
  rw [wp_handleInterrupt_lora _ _ _ _ hm]
  unfold loraHandleInterrupt loraReadGuard
  simp only [wp_bind, wp_rread, wp_swrite, wp_getH, show Gen.REGIRQFLAGS = 0x12 from rfl,
    readN_one _ 0x12 (by decide), show (0x12 % 128) = 0x12 from rfl, peek_lora _ _ hl (show inPage 0x12 = true by decide),
    be32_single, writeN_one, flag_consts.1, flag_consts.2.1, flag_consts.2.2.1, hcad, hcrc, hrx, ne_eq,
    not_true_eq_false, not_false_eq_true, ↓reduceIte, write_lora_flags _ _ hl]
  have wf1 : ({ c with lora := c.lora.wr 0x12 (c.lora.rd 0x12 &&& ~~~ c.lora.rd 0x12) } : Chip).WF :=
    ⟨wf.hs, by simp [wf.hl], wf.hf, wf.hb⟩
  rw [wp_attempt, wp_loraRxReadPayload_implicit _ _ _ _ _ wf1 (by exact hl) hm hexp hcap]
  simp only [rd_wr_ne _ 0x12 0x13 _ (by decide), rd_wr_ne _ 0x12 0x10 _ (by decide), loraPacket]
  unfold rxCallback
  simp only [wp_bind, wp_pure, wp_getH, hcb, ↓reduceIte, wp_cb, wp_modH]
  have hlen : ((List.range h.expected.toUInt8.toNat).map (fun i => c.buf.rd (((c.lora.rd 0x10).toNat + i) % 256))).length
      = h.expected.toUInt8.toNat := by simp
  have hn : h.expected.toUInt8.toNat ≤ 255 := by have := h.expected.toUInt8.toNat_lt; omega
  have htake := wrs_take h.packet _ (by rw [hlen]; omega : ((List.range h.expected.toUInt8.toNat).map
    (fun i => c.buf.rd (((c.lora.rd 0x10).toNat + i) % 256))).length ≤ h.packet.length)
  rw [hlen] at htake
  have hu16 : h.expected.toUInt8.toUInt16.toNat = h.expected.toUInt8.toNat := by simp
  simp only [hu16, htake]
  refine ⟨by trivial, ?_, ?_, ?_, ?_, ?_⟩
  · simp only [afterLoraRx, hm, hcb]
  · split <;> simp only [rd_wr_ne _ 0x0d 0x12 _ (by decide)] <;> exact rd_wr_same _ _ _ (by rw [wf.hl]; decide)
  · split <;> rfl
  · split <;> rfl
  · split <;> rfl



/-- **C05, a packet longer than the packet buffer** (builds with a small
    CONFIG_SX127X_MAX_PACKET_SIZE): it is not read and not delivered, the handle is exactly what
    it was, and the flags are acknowledged as read — the next packet is handled from scratch. -/
theorem C05_rx_too_long (fuel : Nat) (h : Handle) (c : Chip) (wf : c.WF) (hl : c.isLora = true)
    (hm : h.activeModem = Gen.SX127x_MODULATION_LORA) (hexp : h.expected = 0)
    (hlong : (c.lora.rd 0x13).toNat > h.packet.length)
    (hcad : c.lora.rd 0x12 &&& 0x04 = 0) (hcrc : c.lora.rd 0x12 &&& 0x20 = 0) (hrx : c.lora.rd 0x12 &&& 0x40 ≠ 0) :
    wp (handleInterrupt fuel) h ⟨c, [], []⟩ (fun _ h' s' =>
      s'.cbs = [] ∧ h' = h ∧
      s'.chip.lora.rd 0x12 = c.lora.rd 0x12 &&& ~~~ c.lora.rd 0x12 ∧
      s'.chip.buf = c.buf ∧ s'.chip.shared = c.shared ∧ s'.chip.fsk = c.fsk) := by
  rw [wp_handleInterrupt_lora _ _ _ _ hm]
  unfold loraHandleInterrupt loraReadGuard
  simp only [wp_bind, wp_rread, wp_swrite, wp_getH, show Gen.REGIRQFLAGS = 0x12 from rfl,
    readN_one _ 0x12 (by decide), show (0x12 % 128) = 0x12 from rfl, peek_lora _ _ hl (show inPage 0x12 = true by decide),
    be32_single, writeN_one, flag_consts.1, flag_consts.2.1, flag_consts.2.2.1, hcad, hcrc, hrx, ne_eq,
    not_true_eq_false, not_false_eq_true, ↓reduceIte, write_lora_flags _ _ hl]
  rw [wp_attempt]
  unfold loraRxReadPayload
  simp only [wp_bind, wp_checkModulation, hm, ne_eq, not_true_eq_false, ↓reduceIte, wp_getH, hexp, wp_rread,
    show Gen.REGRXNBBYTES = 0x13 from rfl, readN_one _ 0x13 (by decide), show (0x13 % 128) = 0x13 from rfl,
    peek_lora _ _ (show ({ c with lora := c.lora.wr 0x12 (c.lora.rd 0x12 &&& ~~~ c.lora.rd 0x12) } : Chip).isLora = true from hl)
      (show inPage 0x13 = true by decide), be32_single, rd_wr_ne _ 0x12 0x13 _ (by decide)]
  rw [wp_ite, if_pos hlong, wp_fail]
  simp only [wp_bind, wp_modH, wp_fail]
  refine ⟨trivial, ?_, ?_, trivial, trivial, trivial⟩
  · cases h; simp_all
  · exact rd_wr_same _ _ _ (by rw [wf.hl]; decide)

/-- the same in implicit-header mode: a configured length beyond the packet buffer -/
theorem C05_rx_too_long_implicit (fuel : Nat) (h : Handle) (c : Chip) (wf : c.WF) (hl : c.isLora = true)
    (hm : h.activeModem = Gen.SX127x_MODULATION_LORA) (hexp : h.expected ≠ 0)
    (hlong : h.expected.toUInt8.toNat > h.packet.length)
    (hcad : c.lora.rd 0x12 &&& 0x04 = 0) (hcrc : c.lora.rd 0x12 &&& 0x20 = 0) (hrx : c.lora.rd 0x12 &&& 0x40 ≠ 0) :
    wp (handleInterrupt fuel) h ⟨c, [], []⟩ (fun _ h' s' =>
      s'.cbs = [] ∧ h' = h ∧
      s'.chip.lora.rd 0x12 = c.lora.rd 0x12 &&& ~~~ c.lora.rd 0x12 ∧
      s'.chip.buf = c.buf ∧ s'.chip.shared = c.shared ∧ s'.chip.fsk = c.fsk) := by
  rw [wp_handleInterrupt_lora _ _ _ _ hm]
  unfold loraHandleInterrupt loraReadGuard
  simp only [wp_bind, wp_rread, wp_swrite, wp_getH, show Gen.REGIRQFLAGS = 0x12 from rfl,
    readN_one _ 0x12 (by decide), show (0x12 % 128) = 0x12 from rfl, peek_lora _ _ hl (show inPage 0x12 = true by decide),
    be32_single, writeN_one, flag_consts.1, flag_consts.2.1, flag_consts.2.2.1, hcad, hcrc, hrx, ne_eq,
    not_true_eq_false, not_false_eq_true, ↓reduceIte, write_lora_flags _ _ hl]
  rw [wp_attempt]
  unfold loraRxReadPayload
  simp only [wp_bind, wp_checkModulation, hm, ne_eq, not_true_eq_false, ↓reduceIte, wp_getH, hexp, wp_pure]
  rw [wp_ite, if_pos hlong, wp_fail]
  simp only [wp_bind, wp_modH, wp_fail]
  refine ⟨trivial, ?_, ?_, trivial, trivial, trivial⟩
  · cases h; simp_all
  · exact rd_wr_same _ _ _ (by rw [wf.hl]; decide)

/-- a packet flagged with a payload CRC error is never delivered: the handler only acknowledges
    the flags and restarts the hop sequence -/
theorem C05_crc_error (fuel : Nat) (h : Handle) (c : Chip) (hl : c.isLora = true)
    (hm : h.activeModem = Gen.SX127x_MODULATION_LORA)
    (hcad : c.lora.rd 0x12 &&& 0x04 = 0) (hcrc : c.lora.rd 0x12 &&& 0x20 ≠ 0) :
    wp (handleInterrupt fuel) h ⟨c, [], []⟩ (fun r h' s' =>
      s'.cbs = [] ∧ h' = { h with curFreq := 0 } ∧
      s'.bus = [.w 0x12 [c.lora.rd 0x12] (.ok ()), .r 0x12 1 (.ok (be32 [c.lora.rd 0x12]))]) := by
  rw [wp_handleInterrupt_lora _ _ _ _ hm]
  unfold loraHandleInterrupt
  simp only [wp_bind, wp_rread, wp_swrite, wp_getH, show Gen.REGIRQFLAGS = 0x12 from rfl,
    readN_one _ 0x12 (by decide), show (0x12 % 128) = 0x12 from rfl, peek_lora _ _ hl (show inPage 0x12 = true by decide),
    be32_single, writeN_one, flag_consts.1, flag_consts.2.1, hcad, hcrc, ne_eq,
    not_true_eq_false, not_false_eq_true, ↓reduceIte, wp_modH]
  exact ⟨by trivial, by trivial, by trivial⟩

/-- non-vacuity: a chip state meeting the hypotheses, with a packet that wraps around -/
example : let c : Chip := { Chip.init with shared := Chip.init.shared.wr 1 0x85,
                                             lora := ((Chip.init.lora.wr 0x12 0x50).wr 0x13 3).wr 0x10 0xff }
    c.WF ∧ c.isLora = true ∧ c.lora.rd 0x12 &&& 0x04 = 0 ∧ c.lora.rd 0x12 &&& 0x20 = 0 ∧ c.lora.rd 0x12 &&& 0x40 ≠ 0
      ∧ (loraPacket c (c.lora.rd 0x10) (c.lora.rd 0x13).toNat).length = 3 := by
  refine ⟨⟨by decide +kernel, by decide +kernel, by decide +kernel, by decide +kernel⟩, by decide +kernel, by decide +kernel,
    by decide +kernel, by decide +kernel, by decide +kernel⟩


/-- the `irq` operation is one handler invocation whose early returns are not errors -/
theorem wp_irq (cap fuel : Nat) (h : Handle) (s : PState) (Q : Except Code Unit → Handle → PState → Prop)
    (hw : wp (handleInterrupt fuel) h s Q) :
    wp (Api.prog cap fuel .irq) h s (fun r h' s' => r = .ok .none ∧ ∃ r0, Q r0 h' s') := by
  unfold Api.prog
  rw [wp_bind, wp_attempt]
  apply wp_mono _ _ _ _ _ _ hw
  intro r h' s' hq
  simp only [wp_pure]
  exact ⟨by trivial, r, hq⟩

/-- **C05 in the cached build, after any history.** From any state reachable by an admissible
    history, with LoRa active, explicit header, a receive callback registered: when the chip has
    raised RxDone (without CadDone / PayloadCrcError), one handler invocation reports exactly
    one callback, the receive callback with the chip's bytes and length. -/
theorem C05_cached (c : SysCfg) (hc : c.cached = true) (hnr : c.NoReact) (s : Sys) (i : Inv s.world)
    (h : Handle) (hh : s.handle = some h) (hl : s.world.chip.isLora = true)
    (hm : h.activeModem = Gen.SX127x_MODULATION_LORA) (hcb : h.rxCb = true) (hexp : h.expected = 0)
    (hcap : (s.world.chip.lora.rd 0x13).toNat ≤ h.packet.length)
    (hcad : s.world.chip.lora.rd 0x12 &&& 0x04 = 0) (hcrc : s.world.chip.lora.rd 0x12 &&& 0x20 = 0)
    (hrx : s.world.chip.lora.rd 0x12 &&& 0x40 ≠ 0) :
    let st := s.step c (.api .irq [] [])
    let ch := s.world.chip
    ∃ cbs bus, st.2 = .ret (.ok .none) cbs bus ∧
      cbs.map (·.ev) = [.rx (loraPacket ch (ch.lora.rd 0x10) (ch.lora.rd 0x13).toNat) (ch.lora.rd 0x13).toNat] ∧
      st.1.handle = some (afterLoraRx h (loraPacket ch (ch.lora.rd 0x10) (ch.lora.rd 0x13).toNat)) ∧
      Inv st.1.world := by
  intro st ch
  have hw := wp_irq c.cap c.fuel _ _ _ (C05_rx_done c.fuel h s.world.chip i.chip hl hm hcb hexp hcap hcad hcrc hrx)
  obtain ⟨r, h', ps, cbs, bus, hobs, hhd, hchip, hq, hcbs, _, hinv⟩ :=
    step_cached_of_wp c hc hnr s i .irq trivial h hh rfl _ hw
  obtain ⟨hr, r0, hq1, hq2, _⟩ := hq
  subst hr
  refine ⟨cbs, bus, hobs, ?_, ?_, hinv⟩
  · rw [hcbs, hq1]; rfl
  · show (s.step c (.api .irq [] [])).1.handle = _
    rw [hhd, hq2]

/-- **C05 in the cached build, implicit header.** From any state reachable by an admissible
    history, with LoRa active, a configured implicit-header length, a receive callback registered: when the chip has
    raised RxDone (without CadDone / PayloadCrcError), one handler invocation reports exactly
    one callback, the receive callback with the chip's bytes and length. -/
theorem C05_cached_implicit (c : SysCfg) (hc : c.cached = true) (hnr : c.NoReact) (s : Sys) (i : Inv s.world)
    (h : Handle) (hh : s.handle = some h) (hl : s.world.chip.isLora = true)
    (hm : h.activeModem = Gen.SX127x_MODULATION_LORA) (hcb : h.rxCb = true) (hexp : h.expected ≠ 0)
    (hcap : h.expected.toUInt8.toNat ≤ h.packet.length)
    (hcad : s.world.chip.lora.rd 0x12 &&& 0x04 = 0) (hcrc : s.world.chip.lora.rd 0x12 &&& 0x20 = 0)
    (hrx : s.world.chip.lora.rd 0x12 &&& 0x40 ≠ 0) :
    let st := s.step c (.api .irq [] [])
    let ch := s.world.chip
    ∃ cbs bus, st.2 = .ret (.ok .none) cbs bus ∧
      cbs.map (·.ev) = [.rx (loraPacket ch (ch.lora.rd 0x10) h.expected.toUInt8.toNat) h.expected.toUInt8.toNat] ∧
      st.1.handle = some (afterLoraRx h (loraPacket ch (ch.lora.rd 0x10) h.expected.toUInt8.toNat)) ∧
      Inv st.1.world := by
  intro st ch
  have hw := wp_irq c.cap c.fuel _ _ _ (C05_rx_done_implicit c.fuel h s.world.chip i.chip hl hm hcb hexp hcap hcad hcrc hrx)
  obtain ⟨r, h', ps, cbs, bus, hobs, hhd, hchip, hq, hcbs, _, hinv⟩ :=
    step_cached_of_wp c hc hnr s i .irq trivial h hh rfl _ hw
  obtain ⟨hr, r0, hq1, hq2, _⟩ := hq
  subst hr
  refine ⟨cbs, bus, hobs, ?_, ?_, hinv⟩
  · rw [hcbs, hq1]; rfl
  · show (s.step c (.api .irq [] [])).1.handle = _
    rw [hhd, hq2]


end Sx
