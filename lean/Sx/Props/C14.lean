import Sx.Props.C14.Table
import Sx.Lemmas.FifoFsk
/-
  C14 — the beacon period is programmed to the requested interval.

  * `C14_every_interval`: for each of the 133 620 documented intervals the timer selection
    (`beaconTimers`, the model of l.1031-1081 of src/sx127x.c in soft-float) yields two enabled
    timers whose period never exceeds the request and falls short of it by at most one step of the
    finer timer, which is at most 4.1 ms up to 67 855 ms (only the 262 ms resolution fits above).
    The table is evaluated interval by interval in the kernel (Sx/Props/C14/Chunk*.lean).
  * `C14_start_beacon` / `C14_stop_beacon`: what the call does with those values, the payload,
    the beacon bit and the sequencer, for every payload, prior register content and FIFO content.
-/
namespace Sx
open Mem Chip Sx.Model DM

/-- **C14, the period.** -/
theorem C14_every_interval (iv : Nat) (h1 : 1 ≤ iv) (h2 : iv ≤ 133620) :
    ∃ c1 c2 resol, beaconTimers iv = some (c1, c2, resol) ∧
      (resol >>> 2) &&& 3 ≠ 0 ∧ resol &&& 3 ≠ 0 ∧ resol &&& 0xf0 = 0 ∧
      0 ≤ (iv : Rat) - (beaconPeriod c1 c2 resol).1 ∧
      (iv : Rat) - (beaconPeriod c1 c2 resol).1 ≤ (beaconPeriod c1 c2 resol).2 ∧
      ((beaconPeriod c1 c2 resol).2 ≤ 41/10 ∨ iv > 67855) := by
  have h := beacon_table iv h1 h2
  unfold beaconOk at h
  cases hb : beaconTimers iv with
  | none => rw [hb] at h; cases h
  | some t =>
    obtain ⟨c1, c2, resol⟩ := t
    rw [hb] at h
    simp only [Bool.and_eq_true, Bool.or_eq_true, decide_eq_true_eq] at h
    obtain ⟨⟨⟨⟨⟨k1, k2⟩, k3⟩, k4⟩, k5⟩, k6⟩ := h
    exact ⟨c1, c2, resol, rfl, k1, k2, k3, k4, k5, k6⟩

/-- non-vacuity / sample rows of the table: 1000 ms is 243 x 4.1 ms + 57 x 64 us -/
example : beaconTimers 1000 = some (243, 57, 0x09) := by decide +kernel

theorem wfsk (c : Chip) (a : Nat) (v : UInt8) (hl : c.isLora = false) (h : a < 128 ∧ inPage a = true ∧ a ≠ 0x3e ∧ a ≠ 0x3f) :
    c.write a v = { c with fsk := c.fsk.wr a v } := write_fsk c a v hl h.1 h.2.1 h.2.2.1 h.2.2.2

/-- **C14, starting the beacon.** In fixed packet format, for a payload of at most 64 bytes and an
    interval whose timers are `(c1, c2, resol)`: the call succeeds, the three timer registers hold
    exactly those values, the FIFO holds exactly the payload (whatever it held before), BeaconOn
    (bit 3 of RegPacketConfig2) is set with the other bits of that register kept, and the write
    that sets it precedes the write that starts the sequencer. -/
theorem C14_start_beacon (data : List UInt8) (hd : data.length ≤ 64) (iv : Nat) (c1 c2 resol : UInt8)
    (hbt : beaconTimers iv = some (c1, c2, resol)) (h : Handle) (c : Chip) (wf : c.WF)
    (hm : h.activeModem = Gen.SX127x_MODULATION_FSK ∨ h.activeModem = Gen.SX127x_MODULATION_OOK)
    (hl : c.isLora = false) (hfmt : h.format = Gen.SX127X_FIXED) (hcap : 64 ≤ h.packet.length) :
    wp (fskOokTxStartBeacon data iv) h ⟨c, [], []⟩ (fun r _ s' =>
      r = .ok () ∧ s'.chip.fsk.rd 0x39 = c1 ∧ s'.chip.fsk.rd 0x3a = c2 ∧ s'.chip.fsk.rd 0x38 = resol ∧
      s'.chip.fifo = data ∧ s'.chip.fsk.rd 0x31 = (c.fsk.rd 0x31 &&& 0xf7) ||| 0x08 ∧ s'.chip.fsk.rd 0x36 = 0xa4 ∧
      (∃ v rest, s'.bus = .w 0x36 [0xa4] (.ok ()) :: .w 0x31 [v] (.ok ()) :: rest ∧ v &&& 0x08 = 0x08) ∧
      s'.chip.shared = c.shared ∧ s'.chip.lora = c.lora ∧ s'.chip.buf = c.buf) := by
  have hgate : ¬(h.activeModem ≠ Gen.SX127x_MODULATION_FSK ∧ h.activeModem ≠ Gen.SX127x_MODULATION_OOK) := by
    rcases hm with e | e <;> simp [e]
  have hf1 : ¬h.format ≠ Gen.SX127X_FIXED := by simp [hfmt]
  have hf2 : ¬data.length > Gen.FIFO_SIZE_FSK := by have : Gen.FIFO_SIZE_FSK = 64 := rfl; omega
  have hf2' : ¬(data.length > Gen.FIFO_SIZE_FSK ∨ data.length > h.packet.length) := by
    have : Gen.FIFO_SIZE_FSK = 64 := rfl
    omega
  unfold fskOokTxStartBeacon
  simp only [wp_bind, wp_checkFskOok, if_neg hgate, wp_getH]
  rw [wp_ite, if_neg hf1, wp_ite, if_neg hf2']
  simp only [hbt]
  simp only [wp_bind, wp_swrite, writeN_one, show Gen.REGTIMER1COEF = 0x39 from rfl, show Gen.REGTIMER2COEF = 0x3a from rfl,
    show Gen.REGTIMERRESOL = 0x38 from rfl, show Gen.REGFIFOTHRESH = 0x35 from rfl]
  rw [wfsk c 0x39 c1 hl (by decide)]
  rw [wfsk _ 0x3a c2 (by exact hl) (by decide)]
  rw [wfsk _ 0x38 resol (by exact hl) (by decide)]
  rw [wfsk _ 0x35 _ (by exact hl) (by decide)]
  rw [write_flush_fsk _ (by exact hl)]
  -- the transmit call: fixed format, at most 64 bytes
  have h1 : ¬(h.format = Gen.SX127X_VARIABLE ∧ data.length > Gen.MAX_PACKET_SIZE) := by
    rw [hfmt]; intro ⟨e, _⟩; exact absurd e (by decide)
  have h2 : ¬(h.format = Gen.SX127X_FIXED ∧ data.length > Gen.MAX_PACKET_SIZE_FSK_FIXED) := by
    intro ⟨_, e⟩
    have : Gen.MAX_PACKET_SIZE_FSK_FIXED = 2047 := rfl
    omega
  have h3 : ¬h.format = Gen.SX127X_VARIABLE := by rw [hfmt]; decide
  unfold fskOokTxSetForTransmission
  simp only [wp_bind, wp_checkFskOok, if_neg hgate, wp_getH]
  have h4 : ¬(data.length + (if h.format = Gen.SX127X_VARIABLE then 1 else 0) > h.packet.length) := by
    rw [if_neg h3]; omega
  rw [wp_ite, if_neg h1, wp_ite, if_neg h2, wp_ite, if_neg h4, wp_ite, if_neg h3]
  unfold packetCopy fskOokTxWithRemaining
  simp only [wp_bind, wp_getH, wp_modH]
  have hn16 : (UInt16.ofNat data.length).toNat = data.length := by
    simp only [UInt16.toNat_ofNat']
    omega
  have hts : (if (UInt16.ofNat data.length).toNat > Gen.FIFO_SIZE_FSK then Gen.FIFO_SIZE_FSK
      else (UInt16.ofNat data.length).toNat) = data.length := by
    rw [hn16, if_neg hf2]
  rw [wp_ite, if_pos (by omega), wp_setH]
  simp only [hts]
  rw [wp_ite, if_pos (by simp; omega)]
  rw [wp_bwrite]
  simp only [rds_wrs_zero h.packet data (by omega), show Gen.REGFIFO = 0 from rfl]
  rw [writeN_fifo_fsk data _ (by exact hl) (by rw [flush10_fifo]; simp; omega)]
  simp only [flush10_fifo, List.nil_append]
  unfold appendRegister
  simp only [wp_bind, wp_rread, wp_swrite, writeN_one, show Gen.REGPACKETCONFIG2 = 0x31 from rfl,
    show Gen.REGSEQCONFIG1 = 0x36 from rfl, readN_one _ 0x31 (by decide), show (0x31 % 128) = 0x31 from rfl]
  rw [peek_fsk _ 0x31 (by exact hl) (by decide) (by decide), be32_single]
  rw [wfsk _ 0x31 _ (by exact hl) (by decide)]
  rw [wfsk _ 0x36 _ (by exact hl) (by decide)]
  refine ⟨trivial, ?_, ?_, ?_, rfl, ?_, ?_, ⟨_, _, rfl, ?_⟩, rfl, rfl, rfl⟩
  all_goals simp [Mem.rd_wr, flush10, Chip.fifoFlush, wf.hf]
  have : ∀ x : UInt8, (x &&& 247 ||| 8) &&& 8 = 8 := by apply forall_byte; decide
  exact this _

/-- **C14, stopping the beacon.** The sequencer is stopped, the FIFO flushed, and BeaconOn cleared
    with the other bits of RegPacketConfig2 kept. -/
theorem C14_stop_beacon (h : Handle) (c : Chip) (wf : c.WF)
    (hm : h.activeModem = Gen.SX127x_MODULATION_FSK ∨ h.activeModem = Gen.SX127x_MODULATION_OOK)
    (hl : c.isLora = false) :
    wp fskOokTxStopBeacon h ⟨c, [], []⟩ (fun r h' s' =>
      r = .ok () ∧ h' = h ∧ s'.chip.fifo = [] ∧ s'.chip.fsk.rd 0x31 = c.fsk.rd 0x31 &&& 0xf7 ∧
      s'.chip.fsk.rd 0x36 = 0x40 ∧ s'.chip.shared = c.shared ∧ s'.chip.lora = c.lora ∧ s'.chip.buf = c.buf) := by
  have hgate : ¬(h.activeModem ≠ Gen.SX127x_MODULATION_FSK ∧ h.activeModem ≠ Gen.SX127x_MODULATION_OOK) := by
    rcases hm with e | e <;> simp [e]
  unfold fskOokTxStopBeacon appendRegister
  simp only [wp_bind, wp_checkFskOok, if_neg hgate, wp_swrite, wp_rread, writeN_one,
    show Gen.REGSEQCONFIG1 = 0x36 from rfl, show Gen.REGIRQFLAGS2 = 0x3f from rfl, show Gen.REGPACKETCONFIG2 = 0x31 from rfl,
    readN_one _ 0x31 (by decide), show (0x31 % 128) = 0x31 from rfl]
  rw [wfsk c 0x36 _ hl (by decide)]
  rw [write_flush_fsk _ (by exact hl)]
  rw [peek_fsk _ 0x31 (by exact hl) (by decide) (by decide), be32_single]
  rw [wfsk _ 0x31 _ (by exact hl) (by decide)]
  refine ⟨trivial, trivial, rfl, ?_, ?_, rfl, rfl, rfl⟩
  all_goals simp [Mem.rd_wr, flush10, Chip.fifoFlush, wf.hf]

end Sx
