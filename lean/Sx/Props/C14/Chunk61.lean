import Sx.Props.C14.Defs
/- C14 table, intervals 84913 .. 86304 ms: one kernel evaluation of `beaconOk` per interval. -/
namespace Sx
set_option maxRecDepth 1000000 in
theorem beacon_chunk61 : allOk 84913 1392 = true := by decide +kernel
end Sx
