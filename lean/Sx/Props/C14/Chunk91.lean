import Sx.Props.C14.Defs
/- C14 table, intervals 126673 .. 128064 ms: one kernel evaluation of `beaconOk` per interval. -/
namespace Sx
set_option maxRecDepth 1000000 in
theorem beacon_chunk91 : allOk 126673 1392 = true := by decide +kernel
end Sx
