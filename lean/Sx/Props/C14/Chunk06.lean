import Sx.Props.C14.Defs
/- C14 table, intervals 8353 .. 9744 ms: one kernel evaluation of `beaconOk` per interval. -/
namespace Sx
set_option maxRecDepth 1000000 in
theorem beacon_chunk06 : allOk 8353 1392 = true := by decide +kernel
end Sx
