import Sx.Props.C14.Defs
/- C14 table, intervals 43153 .. 44544 ms: one kernel evaluation of `beaconOk` per interval. -/
namespace Sx
set_option maxRecDepth 1000000 in
theorem beacon_chunk31 : allOk 43153 1392 = true := by decide +kernel
end Sx
