import Sx.Props.C14.Defs
/- C14 table, intervals 1393 .. 2784 ms: one kernel evaluation of `beaconOk` per interval. -/
namespace Sx
set_option maxRecDepth 1000000 in
theorem beacon_chunk01 : allOk 1393 1392 = true := by decide +kernel
end Sx
