import Sx.Props.C14.Defs
/- C14 table, intervals 57073 .. 58464 ms: one kernel evaluation of `beaconOk` per interval. -/
namespace Sx
set_option maxRecDepth 1000000 in
theorem beacon_chunk41 : allOk 57073 1392 = true := by decide +kernel
end Sx
