import Sx.Props.C14.Defs
/- C14 table, intervals 80737 .. 82128 ms: one kernel evaluation of `beaconOk` per interval. -/
namespace Sx
set_option maxRecDepth 1000000 in
theorem beacon_chunk58 : allOk 80737 1392 = true := by decide +kernel
end Sx
