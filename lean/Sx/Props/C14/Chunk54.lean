import Sx.Props.C14.Defs
/- C14 table, intervals 75169 .. 76560 ms: one kernel evaluation of `beaconOk` per interval. -/
namespace Sx
set_option maxRecDepth 1000000 in
theorem beacon_chunk54 : allOk 75169 1392 = true := by decide +kernel
end Sx
