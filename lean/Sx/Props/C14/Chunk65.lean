import Sx.Props.C14.Defs
/- C14 table, intervals 90481 .. 91872 ms: one kernel evaluation of `beaconOk` per interval. -/
namespace Sx
set_option maxRecDepth 1000000 in
theorem beacon_chunk65 : allOk 90481 1392 = true := by decide +kernel
end Sx
