import Sx.Props.C14.Defs
/- C14 table, intervals 70993 .. 72384 ms: one kernel evaluation of `beaconOk` per interval. -/
namespace Sx
set_option maxRecDepth 1000000 in
theorem beacon_chunk51 : allOk 70993 1392 = true := by decide +kernel
end Sx
