import Sx.Props.C14.Defs
/- C14 table, intervals 45937 .. 47328 ms: one kernel evaluation of `beaconOk` per interval. -/
namespace Sx
set_option maxRecDepth 1000000 in
theorem beacon_chunk33 : allOk 45937 1392 = true := by decide +kernel
end Sx
