import Sx.Props.C14.Defs
/- C14 table, intervals 118321 .. 119712 ms: one kernel evaluation of `beaconOk` per interval. -/
namespace Sx
set_option maxRecDepth 1000000 in
theorem beacon_chunk85 : allOk 118321 1392 = true := by decide +kernel
end Sx
