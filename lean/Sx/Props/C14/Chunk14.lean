import Sx.Props.C14.Defs
/- C14 table, intervals 19489 .. 20880 ms: one kernel evaluation of `beaconOk` per interval. -/
namespace Sx
set_option maxRecDepth 1000000 in
theorem beacon_chunk14 : allOk 19489 1392 = true := by decide +kernel
end Sx
