import Sx.Props.C14.Defs
/- C14 table, intervals 119713 .. 121104 ms: one kernel evaluation of `beaconOk` per interval. -/
namespace Sx
set_option maxRecDepth 1000000 in
theorem beacon_chunk86 : allOk 119713 1392 = true := by decide +kernel
end Sx
