import Sx.Props.C14.Defs
/- C14 table, intervals 116929 .. 118320 ms: one kernel evaluation of `beaconOk` per interval. -/
namespace Sx
set_option maxRecDepth 1000000 in
theorem beacon_chunk84 : allOk 116929 1392 = true := by decide +kernel
end Sx
