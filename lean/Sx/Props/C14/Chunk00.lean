import Sx.Props.C14.Defs
/- C14 table, intervals 1 .. 1392 ms: one kernel evaluation of `beaconOk` per interval. -/
namespace Sx
set_option maxRecDepth 1000000 in
theorem beacon_chunk00 : allOk 1 1392 = true := by decide +kernel
end Sx
