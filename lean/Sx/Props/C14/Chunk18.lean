import Sx.Props.C14.Defs
/- C14 table, intervals 25057 .. 26448 ms: one kernel evaluation of `beaconOk` per interval. -/
namespace Sx
set_option maxRecDepth 1000000 in
theorem beacon_chunk18 : allOk 25057 1392 = true := by decide +kernel
end Sx
