import Sx.Props.C14.Defs
/- C14 table, intervals 36193 .. 37584 ms: one kernel evaluation of `beaconOk` per interval. -/
namespace Sx
set_option maxRecDepth 1000000 in
theorem beacon_chunk26 : allOk 36193 1392 = true := by decide +kernel
end Sx
