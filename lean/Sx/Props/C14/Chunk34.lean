import Sx.Props.C14.Defs
/- C14 table, intervals 47329 .. 48720 ms: one kernel evaluation of `beaconOk` per interval. -/
namespace Sx
set_option maxRecDepth 1000000 in
theorem beacon_chunk34 : allOk 47329 1392 = true := by decide +kernel
end Sx
