import Sx.Props.C14.Defs
/- C14 table, intervals 20881 .. 22272 ms: one kernel evaluation of `beaconOk` per interval. -/
namespace Sx
set_option maxRecDepth 1000000 in
theorem beacon_chunk15 : allOk 20881 1392 = true := by decide +kernel
end Sx
