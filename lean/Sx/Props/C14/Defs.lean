import Sx.Model.Beacon
/-
  C14 — what "the beacon period is programmed to the requested interval" means, as a decidable
  predicate per interval, and the reduction of a range of intervals to one kernel evaluation.
-/
namespace Sx
open Sx.Model

/-- nominal duration of one timer step (ms) for a resolution code of RegTimerResol (datasheet:
    01 = 64 us, 10 = 4.1 ms, 11 = 262 ms) -/
def timerStep (code : UInt8) : Rat := if code = 1 then 64/1000 else if code = 2 then 41/10 else 262

/-- the period the sequencer realises with the programmed coefficients, and the finer of the two
    resolutions in use -/
def beaconPeriod (c1 c2 resol : UInt8) : Rat × Rat :=
  let r1 := timerStep ((resol >>> 2) &&& 3)
  let r2 := timerStep (resol &&& 3)
  (r1 * c1.toNat + r2 * c2.toNat, min r1 r2)

/-- both timers enabled, no conversion out of range, the period does not exceed the request and
    falls short of it by at most one step of the finer timer, which is at most 4.1 ms unless only
    the coarsest resolution fits (above 67.8 s) -/
def beaconOk (iv : Nat) : Bool :=
  match beaconTimers iv with
  | none => false
  | some (c1, c2, resol) =>
    let (total, fine) := beaconPeriod c1 c2 resol
    let dev := (iv : Rat) - total
    decide ((resol >>> 2) &&& 3 ≠ 0) && decide (resol &&& 3 ≠ 0) && decide (resol &&& 0xf0 = 0) &&
      decide (0 ≤ dev) && decide (dev ≤ fine) && (decide (fine ≤ 41/10) || decide (iv > 67855))

def allOk (lo n : Nat) : Bool := (List.range n).all (fun i => beaconOk (lo + i))

theorem allOk_spec (lo n : Nat) (h : allOk lo n = true) (iv : Nat) (h1 : lo ≤ iv) (h2 : iv < lo + n) : beaconOk iv = true := by
  unfold allOk at h
  rw [List.all_eq_true] at h
  have := h (iv - lo) (by simp; omega)
  have e : lo + (iv - lo) = iv := by omega
  rw [e] at this
  exact this

end Sx
