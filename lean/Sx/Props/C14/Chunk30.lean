import Sx.Props.C14.Defs
/- C14 table, intervals 41761 .. 43152 ms: one kernel evaluation of `beaconOk` per interval. -/
namespace Sx
set_option maxRecDepth 1000000 in
theorem beacon_chunk30 : allOk 41761 1392 = true := by decide +kernel
end Sx
