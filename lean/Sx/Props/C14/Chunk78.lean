import Sx.Props.C14.Defs
/- C14 table, intervals 108577 .. 109968 ms: one kernel evaluation of `beaconOk` per interval. -/
namespace Sx
set_option maxRecDepth 1000000 in
theorem beacon_chunk78 : allOk 108577 1392 = true := by decide +kernel
end Sx
