import Sx.Props.C14.Defs
/- C14 table, intervals 77953 .. 79344 ms: one kernel evaluation of `beaconOk` per interval. -/
namespace Sx
set_option maxRecDepth 1000000 in
theorem beacon_chunk56 : allOk 77953 1392 = true := by decide +kernel
end Sx
