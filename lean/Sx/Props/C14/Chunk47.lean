import Sx.Props.C14.Defs
/- C14 table, intervals 65425 .. 66816 ms: one kernel evaluation of `beaconOk` per interval. -/
namespace Sx
set_option maxRecDepth 1000000 in
theorem beacon_chunk47 : allOk 65425 1392 = true := by decide +kernel
end Sx
