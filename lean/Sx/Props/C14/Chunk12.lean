import Sx.Props.C14.Defs
/- C14 table, intervals 16705 .. 18096 ms: one kernel evaluation of `beaconOk` per interval. -/
namespace Sx
set_option maxRecDepth 1000000 in
theorem beacon_chunk12 : allOk 16705 1392 = true := by decide +kernel
end Sx
