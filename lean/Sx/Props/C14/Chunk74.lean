import Sx.Props.C14.Defs
/- C14 table, intervals 103009 .. 104400 ms: one kernel evaluation of `beaconOk` per interval. -/
namespace Sx
set_option maxRecDepth 1000000 in
theorem beacon_chunk74 : allOk 103009 1392 = true := by decide +kernel
end Sx
