import Sx.Props.C14.Defs
/- C14 table, intervals 18097 .. 19488 ms: one kernel evaluation of `beaconOk` per interval. -/
namespace Sx
set_option maxRecDepth 1000000 in
theorem beacon_chunk13 : allOk 18097 1392 = true := by decide +kernel
end Sx
