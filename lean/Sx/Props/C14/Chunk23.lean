import Sx.Props.C14.Defs
/- C14 table, intervals 32017 .. 33408 ms: one kernel evaluation of `beaconOk` per interval. -/
namespace Sx
set_option maxRecDepth 1000000 in
theorem beacon_chunk23 : allOk 32017 1392 = true := by decide +kernel
end Sx
