import Sx.Props.C14.Defs
/- C14 table, intervals 22273 .. 23664 ms: one kernel evaluation of `beaconOk` per interval. -/
namespace Sx
set_option maxRecDepth 1000000 in
theorem beacon_chunk16 : allOk 22273 1392 = true := by decide +kernel
end Sx
