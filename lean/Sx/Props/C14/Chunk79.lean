import Sx.Props.C14.Defs
/- C14 table, intervals 109969 .. 111360 ms: one kernel evaluation of `beaconOk` per interval. -/
namespace Sx
set_option maxRecDepth 1000000 in
theorem beacon_chunk79 : allOk 109969 1392 = true := by decide +kernel
end Sx
