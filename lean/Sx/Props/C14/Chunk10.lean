import Sx.Props.C14.Defs
/- C14 table, intervals 13921 .. 15312 ms: one kernel evaluation of `beaconOk` per interval. -/
namespace Sx
set_option maxRecDepth 1000000 in
theorem beacon_chunk10 : allOk 13921 1392 = true := by decide +kernel
end Sx
