import Sx.Props.C14.Defs
/- C14 table, intervals 6961 .. 8352 ms: one kernel evaluation of `beaconOk` per interval. -/
namespace Sx
set_option maxRecDepth 1000000 in
theorem beacon_chunk05 : allOk 6961 1392 = true := by decide +kernel
end Sx
