import Sx.Props.C14.Defs
/- C14 table, intervals 54289 .. 55680 ms: one kernel evaluation of `beaconOk` per interval. -/
namespace Sx
set_option maxRecDepth 1000000 in
theorem beacon_chunk39 : allOk 54289 1392 = true := by decide +kernel
end Sx
