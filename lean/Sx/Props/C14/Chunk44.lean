import Sx.Props.C14.Defs
/- C14 table, intervals 61249 .. 62640 ms: one kernel evaluation of `beaconOk` per interval. -/
namespace Sx
set_option maxRecDepth 1000000 in
theorem beacon_chunk44 : allOk 61249 1392 = true := by decide +kernel
end Sx
