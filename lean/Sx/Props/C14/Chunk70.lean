import Sx.Props.C14.Defs
/- C14 table, intervals 97441 .. 98832 ms: one kernel evaluation of `beaconOk` per interval. -/
namespace Sx
set_option maxRecDepth 1000000 in
theorem beacon_chunk70 : allOk 97441 1392 = true := by decide +kernel
end Sx
