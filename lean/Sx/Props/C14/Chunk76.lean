import Sx.Props.C14.Defs
/- C14 table, intervals 105793 .. 107184 ms: one kernel evaluation of `beaconOk` per interval. -/
namespace Sx
set_option maxRecDepth 1000000 in
theorem beacon_chunk76 : allOk 105793 1392 = true := by decide +kernel
end Sx
