import Sx.Props.C14.Defs
/- C14 table, intervals 129457 .. 130848 ms: one kernel evaluation of `beaconOk` per interval. -/
namespace Sx
set_option maxRecDepth 1000000 in
theorem beacon_chunk93 : allOk 129457 1392 = true := by decide +kernel
end Sx
