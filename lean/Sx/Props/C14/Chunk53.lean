import Sx.Props.C14.Defs
/- C14 table, intervals 73777 .. 75168 ms: one kernel evaluation of `beaconOk` per interval. -/
namespace Sx
set_option maxRecDepth 1000000 in
theorem beacon_chunk53 : allOk 73777 1392 = true := by decide +kernel
end Sx
