import Sx.Props.C14.Defs
/- C14 table, intervals 130849 .. 132240 ms: one kernel evaluation of `beaconOk` per interval. -/
namespace Sx
set_option maxRecDepth 1000000 in
theorem beacon_chunk94 : allOk 130849 1392 = true := by decide +kernel
end Sx
