import Sx.Props.C14.Defs
/- C14 table, intervals 104401 .. 105792 ms: one kernel evaluation of `beaconOk` per interval. -/
namespace Sx
set_option maxRecDepth 1000000 in
theorem beacon_chunk75 : allOk 104401 1392 = true := by decide +kernel
end Sx
