import Sx.Props.C14.Defs
/- C14 table, intervals 55681 .. 57072 ms: one kernel evaluation of `beaconOk` per interval. -/
namespace Sx
set_option maxRecDepth 1000000 in
theorem beacon_chunk40 : allOk 55681 1392 = true := by decide +kernel
end Sx
