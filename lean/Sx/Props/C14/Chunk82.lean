import Sx.Props.C14.Defs
/- C14 table, intervals 114145 .. 115536 ms: one kernel evaluation of `beaconOk` per interval. -/
namespace Sx
set_option maxRecDepth 1000000 in
theorem beacon_chunk82 : allOk 114145 1392 = true := by decide +kernel
end Sx
