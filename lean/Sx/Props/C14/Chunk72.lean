import Sx.Props.C14.Defs
/- C14 table, intervals 100225 .. 101616 ms: one kernel evaluation of `beaconOk` per interval. -/
namespace Sx
set_option maxRecDepth 1000000 in
theorem beacon_chunk72 : allOk 100225 1392 = true := by decide +kernel
end Sx
