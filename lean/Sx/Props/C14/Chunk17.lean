import Sx.Props.C14.Defs
/- C14 table, intervals 23665 .. 25056 ms: one kernel evaluation of `beaconOk` per interval. -/
namespace Sx
set_option maxRecDepth 1000000 in
theorem beacon_chunk17 : allOk 23665 1392 = true := by decide +kernel
end Sx
