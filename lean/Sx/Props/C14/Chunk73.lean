import Sx.Props.C14.Defs
/- C14 table, intervals 101617 .. 103008 ms: one kernel evaluation of `beaconOk` per interval. -/
namespace Sx
set_option maxRecDepth 1000000 in
theorem beacon_chunk73 : allOk 101617 1392 = true := by decide +kernel
end Sx
