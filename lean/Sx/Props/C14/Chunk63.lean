import Sx.Props.C14.Defs
/- C14 table, intervals 87697 .. 89088 ms: one kernel evaluation of `beaconOk` per interval. -/
namespace Sx
set_option maxRecDepth 1000000 in
theorem beacon_chunk63 : allOk 87697 1392 = true := by decide +kernel
end Sx
