import Sx.Props.C14.Defs
/- C14 table, intervals 94657 .. 96048 ms: one kernel evaluation of `beaconOk` per interval. -/
namespace Sx
set_option maxRecDepth 1000000 in
theorem beacon_chunk68 : allOk 94657 1392 = true := by decide +kernel
end Sx
