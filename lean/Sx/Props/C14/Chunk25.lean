import Sx.Props.C14.Defs
/- C14 table, intervals 34801 .. 36192 ms: one kernel evaluation of `beaconOk` per interval. -/
namespace Sx
set_option maxRecDepth 1000000 in
theorem beacon_chunk25 : allOk 34801 1392 = true := by decide +kernel
end Sx
