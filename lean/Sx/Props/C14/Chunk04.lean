import Sx.Props.C14.Defs
/- C14 table, intervals 5569 .. 6960 ms: one kernel evaluation of `beaconOk` per interval. -/
namespace Sx
set_option maxRecDepth 1000000 in
theorem beacon_chunk04 : allOk 5569 1392 = true := by decide +kernel
end Sx
