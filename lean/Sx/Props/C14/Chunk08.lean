import Sx.Props.C14.Defs
/- C14 table, intervals 11137 .. 12528 ms: one kernel evaluation of `beaconOk` per interval. -/
namespace Sx
set_option maxRecDepth 1000000 in
theorem beacon_chunk08 : allOk 11137 1392 = true := by decide +kernel
end Sx
