import Sx.Props.C14.Defs
/- C14 table, intervals 44545 .. 45936 ms: one kernel evaluation of `beaconOk` per interval. -/
namespace Sx
set_option maxRecDepth 1000000 in
theorem beacon_chunk32 : allOk 44545 1392 = true := by decide +kernel
end Sx
