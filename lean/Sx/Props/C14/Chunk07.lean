import Sx.Props.C14.Defs
/- C14 table, intervals 9745 .. 11136 ms: one kernel evaluation of `beaconOk` per interval. -/
namespace Sx
set_option maxRecDepth 1000000 in
theorem beacon_chunk07 : allOk 9745 1392 = true := by decide +kernel
end Sx
