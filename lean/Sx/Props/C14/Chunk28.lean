import Sx.Props.C14.Defs
/- C14 table, intervals 38977 .. 40368 ms: one kernel evaluation of `beaconOk` per interval. -/
namespace Sx
set_option maxRecDepth 1000000 in
theorem beacon_chunk28 : allOk 38977 1392 = true := by decide +kernel
end Sx
