import Sx.Props.C14.Defs
/- C14 table, intervals 37585 .. 38976 ms: one kernel evaluation of `beaconOk` per interval. -/
namespace Sx
set_option maxRecDepth 1000000 in
theorem beacon_chunk27 : allOk 37585 1392 = true := by decide +kernel
end Sx
