import Sx.Props.C14.Defs
/- C14 table, intervals 33409 .. 34800 ms: one kernel evaluation of `beaconOk` per interval. -/
namespace Sx
set_option maxRecDepth 1000000 in
theorem beacon_chunk24 : allOk 33409 1392 = true := by decide +kernel
end Sx
