import Sx.Props.C14.Defs
/- C14 table, intervals 26449 .. 27840 ms: one kernel evaluation of `beaconOk` per interval. -/
namespace Sx
set_option maxRecDepth 1000000 in
theorem beacon_chunk19 : allOk 26449 1392 = true := by decide +kernel
end Sx
