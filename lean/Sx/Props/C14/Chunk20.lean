import Sx.Props.C14.Defs
/- C14 table, intervals 27841 .. 29232 ms: one kernel evaluation of `beaconOk` per interval. -/
namespace Sx
set_option maxRecDepth 1000000 in
theorem beacon_chunk20 : allOk 27841 1392 = true := by decide +kernel
end Sx
