import Sx.Props.C14.Defs
/- C14 table, intervals 122497 .. 123888 ms: one kernel evaluation of `beaconOk` per interval. -/
namespace Sx
set_option maxRecDepth 1000000 in
theorem beacon_chunk88 : allOk 122497 1392 = true := by decide +kernel
end Sx
