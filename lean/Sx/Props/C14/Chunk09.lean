import Sx.Props.C14.Defs
/- C14 table, intervals 12529 .. 13920 ms: one kernel evaluation of `beaconOk` per interval. -/
namespace Sx
set_option maxRecDepth 1000000 in
theorem beacon_chunk09 : allOk 12529 1392 = true := by decide +kernel
end Sx
