import Sx.Props.C14.Defs
/- C14 table, intervals 93265 .. 94656 ms: one kernel evaluation of `beaconOk` per interval. -/
namespace Sx
set_option maxRecDepth 1000000 in
theorem beacon_chunk67 : allOk 93265 1392 = true := by decide +kernel
end Sx
