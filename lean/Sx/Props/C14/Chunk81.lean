import Sx.Props.C14.Defs
/- C14 table, intervals 112753 .. 114144 ms: one kernel evaluation of `beaconOk` per interval. -/
namespace Sx
set_option maxRecDepth 1000000 in
theorem beacon_chunk81 : allOk 112753 1392 = true := by decide +kernel
end Sx
