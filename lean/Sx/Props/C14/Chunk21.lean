import Sx.Props.C14.Defs
/- C14 table, intervals 29233 .. 30624 ms: one kernel evaluation of `beaconOk` per interval. -/
namespace Sx
set_option maxRecDepth 1000000 in
theorem beacon_chunk21 : allOk 29233 1392 = true := by decide +kernel
end Sx
