import Sx.Props.C14.Defs
/- C14 table, intervals 89089 .. 90480 ms: one kernel evaluation of `beaconOk` per interval. -/
namespace Sx
set_option maxRecDepth 1000000 in
theorem beacon_chunk64 : allOk 89089 1392 = true := by decide +kernel
end Sx
