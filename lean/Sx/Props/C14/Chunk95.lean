import Sx.Props.C14.Defs
/- C14 table, intervals 132241 .. 133620 ms: one kernel evaluation of `beaconOk` per interval. -/
namespace Sx
set_option maxRecDepth 1000000 in
theorem beacon_chunk95 : allOk 132241 1380 = true := by decide +kernel
end Sx
