import Sx.Props.C14.Defs
/- C14 table, intervals 69601 .. 70992 ms: one kernel evaluation of `beaconOk` per interval. -/
namespace Sx
set_option maxRecDepth 1000000 in
theorem beacon_chunk50 : allOk 69601 1392 = true := by decide +kernel
end Sx
