import Sx.Props.C14.Defs
/- C14 table, intervals 91873 .. 93264 ms: one kernel evaluation of `beaconOk` per interval. -/
namespace Sx
set_option maxRecDepth 1000000 in
theorem beacon_chunk66 : allOk 91873 1392 = true := by decide +kernel
end Sx
