import Sx.Props.C14.Defs
/- C14 table, intervals 4177 .. 5568 ms: one kernel evaluation of `beaconOk` per interval. -/
namespace Sx
set_option maxRecDepth 1000000 in
theorem beacon_chunk03 : allOk 4177 1392 = true := by decide +kernel
end Sx
