import Sx.Props.C14.Defs
/- C14 table, intervals 48721 .. 50112 ms: one kernel evaluation of `beaconOk` per interval. -/
namespace Sx
set_option maxRecDepth 1000000 in
theorem beacon_chunk35 : allOk 48721 1392 = true := by decide +kernel
end Sx
