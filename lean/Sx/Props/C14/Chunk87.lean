import Sx.Props.C14.Defs
/- C14 table, intervals 121105 .. 122496 ms: one kernel evaluation of `beaconOk` per interval. -/
namespace Sx
set_option maxRecDepth 1000000 in
theorem beacon_chunk87 : allOk 121105 1392 = true := by decide +kernel
end Sx
