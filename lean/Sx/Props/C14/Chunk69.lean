import Sx.Props.C14.Defs
/- C14 table, intervals 96049 .. 97440 ms: one kernel evaluation of `beaconOk` per interval. -/
namespace Sx
set_option maxRecDepth 1000000 in
theorem beacon_chunk69 : allOk 96049 1392 = true := by decide +kernel
end Sx
