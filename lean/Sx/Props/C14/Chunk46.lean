import Sx.Props.C14.Defs
/- C14 table, intervals 64033 .. 65424 ms: one kernel evaluation of `beaconOk` per interval. -/
namespace Sx
set_option maxRecDepth 1000000 in
theorem beacon_chunk46 : allOk 64033 1392 = true := by decide +kernel
end Sx
