import Sx.Props.C14.Defs
/- C14 table, intervals 107185 .. 108576 ms: one kernel evaluation of `beaconOk` per interval. -/
namespace Sx
set_option maxRecDepth 1000000 in
theorem beacon_chunk77 : allOk 107185 1392 = true := by decide +kernel
end Sx
