import Sx.Props.C14.Defs
/- C14 table, intervals 52897 .. 54288 ms: one kernel evaluation of `beaconOk` per interval. -/
namespace Sx
set_option maxRecDepth 1000000 in
theorem beacon_chunk38 : allOk 52897 1392 = true := by decide +kernel
end Sx
