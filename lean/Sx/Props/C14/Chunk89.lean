import Sx.Props.C14.Defs
/- C14 table, intervals 123889 .. 125280 ms: one kernel evaluation of `beaconOk` per interval. -/
namespace Sx
set_option maxRecDepth 1000000 in
theorem beacon_chunk89 : allOk 123889 1392 = true := by decide +kernel
end Sx
