import Sx.Props.C14.Chunk00
import Sx.Props.C14.Chunk01
import Sx.Props.C14.Chunk02
import Sx.Props.C14.Chunk03
import Sx.Props.C14.Chunk04
import Sx.Props.C14.Chunk05
import Sx.Props.C14.Chunk06
import Sx.Props.C14.Chunk07
import Sx.Props.C14.Chunk08
import Sx.Props.C14.Chunk09
import Sx.Props.C14.Chunk10
import Sx.Props.C14.Chunk11
import Sx.Props.C14.Chunk12
import Sx.Props.C14.Chunk13
import Sx.Props.C14.Chunk14
import Sx.Props.C14.Chunk15
import Sx.Props.C14.Chunk16
import Sx.Props.C14.Chunk17
import Sx.Props.C14.Chunk18
import Sx.Props.C14.Chunk19
import Sx.Props.C14.Chunk20
import Sx.Props.C14.Chunk21
import Sx.Props.C14.Chunk22
import Sx.Props.C14.Chunk23
import Sx.Props.C14.Chunk24
import Sx.Props.C14.Chunk25
import Sx.Props.C14.Chunk26
import Sx.Props.C14.Chunk27
import Sx.Props.C14.Chunk28
import Sx.Props.C14.Chunk29
import Sx.Props.C14.Chunk30
import Sx.Props.C14.Chunk31
import Sx.Props.C14.Chunk32
import Sx.Props.C14.Chunk33
import Sx.Props.C14.Chunk34
import Sx.Props.C14.Chunk35
import Sx.Props.C14.Chunk36
import Sx.Props.C14.Chunk37
import Sx.Props.C14.Chunk38
import Sx.Props.C14.Chunk39
import Sx.Props.C14.Chunk40
import Sx.Props.C14.Chunk41
import Sx.Props.C14.Chunk42
import Sx.Props.C14.Chunk43
import Sx.Props.C14.Chunk44
import Sx.Props.C14.Chunk45
import Sx.Props.C14.Chunk46
import Sx.Props.C14.Chunk47
import Sx.Props.C14.Chunk48
import Sx.Props.C14.Chunk49
import Sx.Props.C14.Chunk50
import Sx.Props.C14.Chunk51
import Sx.Props.C14.Chunk52
import Sx.Props.C14.Chunk53
import Sx.Props.C14.Chunk54
import Sx.Props.C14.Chunk55
import Sx.Props.C14.Chunk56
import Sx.Props.C14.Chunk57
import Sx.Props.C14.Chunk58
import Sx.Props.C14.Chunk59
import Sx.Props.C14.Chunk60
import Sx.Props.C14.Chunk61
import Sx.Props.C14.Chunk62
import Sx.Props.C14.Chunk63
import Sx.Props.C14.Chunk64
import Sx.Props.C14.Chunk65
import Sx.Props.C14.Chunk66
import Sx.Props.C14.Chunk67
import Sx.Props.C14.Chunk68
import Sx.Props.C14.Chunk69
import Sx.Props.C14.Chunk70
import Sx.Props.C14.Chunk71
import Sx.Props.C14.Chunk72
import Sx.Props.C14.Chunk73
import Sx.Props.C14.Chunk74
import Sx.Props.C14.Chunk75
import Sx.Props.C14.Chunk76
import Sx.Props.C14.Chunk77
import Sx.Props.C14.Chunk78
import Sx.Props.C14.Chunk79
import Sx.Props.C14.Chunk80
import Sx.Props.C14.Chunk81
import Sx.Props.C14.Chunk82
import Sx.Props.C14.Chunk83
import Sx.Props.C14.Chunk84
import Sx.Props.C14.Chunk85
import Sx.Props.C14.Chunk86
import Sx.Props.C14.Chunk87
import Sx.Props.C14.Chunk88
import Sx.Props.C14.Chunk89
import Sx.Props.C14.Chunk90
import Sx.Props.C14.Chunk91
import Sx.Props.C14.Chunk92
import Sx.Props.C14.Chunk93
import Sx.Props.C14.Chunk94
import Sx.Props.C14.Chunk95
/- C14 table: all chunks together -/
namespace Sx

theorem beacon_table (iv : Nat) (h1 : 1 ≤ iv) (h2 : iv ≤ 133620) : beaconOk iv = true := by
  by_cases h_0 : iv < 1393
  · exact allOk_spec 1 1392 beacon_chunk00 iv (by omega) (by omega)
  by_cases h_1 : iv < 2785
  · exact allOk_spec 1393 1392 beacon_chunk01 iv (by omega) (by omega)
  by_cases h_2 : iv < 4177
  · exact allOk_spec 2785 1392 beacon_chunk02 iv (by omega) (by omega)
  by_cases h_3 : iv < 5569
  · exact allOk_spec 4177 1392 beacon_chunk03 iv (by omega) (by omega)
  by_cases h_4 : iv < 6961
  · exact allOk_spec 5569 1392 beacon_chunk04 iv (by omega) (by omega)
  by_cases h_5 : iv < 8353
  · exact allOk_spec 6961 1392 beacon_chunk05 iv (by omega) (by omega)
  by_cases h_6 : iv < 9745
  · exact allOk_spec 8353 1392 beacon_chunk06 iv (by omega) (by omega)
  by_cases h_7 : iv < 11137
  · exact allOk_spec 9745 1392 beacon_chunk07 iv (by omega) (by omega)
  by_cases h_8 : iv < 12529
  · exact allOk_spec 11137 1392 beacon_chunk08 iv (by omega) (by omega)
  by_cases h_9 : iv < 13921
  · exact allOk_spec 12529 1392 beacon_chunk09 iv (by omega) (by omega)
  by_cases h_10 : iv < 15313
  · exact allOk_spec 13921 1392 beacon_chunk10 iv (by omega) (by omega)
  by_cases h_11 : iv < 16705
  · exact allOk_spec 15313 1392 beacon_chunk11 iv (by omega) (by omega)
  by_cases h_12 : iv < 18097
  · exact allOk_spec 16705 1392 beacon_chunk12 iv (by omega) (by omega)
  by_cases h_13 : iv < 19489
  · exact allOk_spec 18097 1392 beacon_chunk13 iv (by omega) (by omega)
  by_cases h_14 : iv < 20881
  · exact allOk_spec 19489 1392 beacon_chunk14 iv (by omega) (by omega)
  by_cases h_15 : iv < 22273
  · exact allOk_spec 20881 1392 beacon_chunk15 iv (by omega) (by omega)
  by_cases h_16 : iv < 23665
  · exact allOk_spec 22273 1392 beacon_chunk16 iv (by omega) (by omega)
  by_cases h_17 : iv < 25057
  · exact allOk_spec 23665 1392 beacon_chunk17 iv (by omega) (by omega)
  by_cases h_18 : iv < 26449
  · exact allOk_spec 25057 1392 beacon_chunk18 iv (by omega) (by omega)
  by_cases h_19 : iv < 27841
  · exact allOk_spec 26449 1392 beacon_chunk19 iv (by omega) (by omega)
  by_cases h_20 : iv < 29233
  · exact allOk_spec 27841 1392 beacon_chunk20 iv (by omega) (by omega)
  by_cases h_21 : iv < 30625
  · exact allOk_spec 29233 1392 beacon_chunk21 iv (by omega) (by omega)
  by_cases h_22 : iv < 32017
  · exact allOk_spec 30625 1392 beacon_chunk22 iv (by omega) (by omega)
  by_cases h_23 : iv < 33409
  · exact allOk_spec 32017 1392 beacon_chunk23 iv (by omega) (by omega)
  by_cases h_24 : iv < 34801
  · exact allOk_spec 33409 1392 beacon_chunk24 iv (by omega) (by omega)
  by_cases h_25 : iv < 36193
  · exact allOk_spec 34801 1392 beacon_chunk25 iv (by omega) (by omega)
  by_cases h_26 : iv < 37585
  · exact allOk_spec 36193 1392 beacon_chunk26 iv (by omega) (by omega)
  by_cases h_27 : iv < 38977
  · exact allOk_spec 37585 1392 beacon_chunk27 iv (by omega) (by omega)
  by_cases h_28 : iv < 40369
  · exact allOk_spec 38977 1392 beacon_chunk28 iv (by omega) (by omega)
  by_cases h_29 : iv < 41761
  · exact allOk_spec 40369 1392 beacon_chunk29 iv (by omega) (by omega)
  by_cases h_30 : iv < 43153
  · exact allOk_spec 41761 1392 beacon_chunk30 iv (by omega) (by omega)
  by_cases h_31 : iv < 44545
  · exact allOk_spec 43153 1392 beacon_chunk31 iv (by omega) (by omega)
  by_cases h_32 : iv < 45937
  · exact allOk_spec 44545 1392 beacon_chunk32 iv (by omega) (by omega)
  by_cases h_33 : iv < 47329
  · exact allOk_spec 45937 1392 beacon_chunk33 iv (by omega) (by omega)
  by_cases h_34 : iv < 48721
  · exact allOk_spec 47329 1392 beacon_chunk34 iv (by omega) (by omega)
  by_cases h_35 : iv < 50113
  · exact allOk_spec 48721 1392 beacon_chunk35 iv (by omega) (by omega)
  by_cases h_36 : iv < 51505
  · exact allOk_spec 50113 1392 beacon_chunk36 iv (by omega) (by omega)
  by_cases h_37 : iv < 52897
  · exact allOk_spec 51505 1392 beacon_chunk37 iv (by omega) (by omega)
  by_cases h_38 : iv < 54289
  · exact allOk_spec 52897 1392 beacon_chunk38 iv (by omega) (by omega)
  by_cases h_39 : iv < 55681
  · exact allOk_spec 54289 1392 beacon_chunk39 iv (by omega) (by omega)
  by_cases h_40 : iv < 57073
  · exact allOk_spec 55681 1392 beacon_chunk40 iv (by omega) (by omega)
  by_cases h_41 : iv < 58465
  · exact allOk_spec 57073 1392 beacon_chunk41 iv (by omega) (by omega)
  by_cases h_42 : iv < 59857
  · exact allOk_spec 58465 1392 beacon_chunk42 iv (by omega) (by omega)
  by_cases h_43 : iv < 61249
  · exact allOk_spec 59857 1392 beacon_chunk43 iv (by omega) (by omega)
  by_cases h_44 : iv < 62641
  · exact allOk_spec 61249 1392 beacon_chunk44 iv (by omega) (by omega)
  by_cases h_45 : iv < 64033
  · exact allOk_spec 62641 1392 beacon_chunk45 iv (by omega) (by omega)
  by_cases h_46 : iv < 65425
  · exact allOk_spec 64033 1392 beacon_chunk46 iv (by omega) (by omega)
  by_cases h_47 : iv < 66817
  · exact allOk_spec 65425 1392 beacon_chunk47 iv (by omega) (by omega)
  by_cases h_48 : iv < 68209
  · exact allOk_spec 66817 1392 beacon_chunk48 iv (by omega) (by omega)
  by_cases h_49 : iv < 69601
  · exact allOk_spec 68209 1392 beacon_chunk49 iv (by omega) (by omega)
  by_cases h_50 : iv < 70993
  · exact allOk_spec 69601 1392 beacon_chunk50 iv (by omega) (by omega)
  by_cases h_51 : iv < 72385
  · exact allOk_spec 70993 1392 beacon_chunk51 iv (by omega) (by omega)
  by_cases h_52 : iv < 73777
  · exact allOk_spec 72385 1392 beacon_chunk52 iv (by omega) (by omega)
  by_cases h_53 : iv < 75169
  · exact allOk_spec 73777 1392 beacon_chunk53 iv (by omega) (by omega)
  by_cases h_54 : iv < 76561
  · exact allOk_spec 75169 1392 beacon_chunk54 iv (by omega) (by omega)
  by_cases h_55 : iv < 77953
  · exact allOk_spec 76561 1392 beacon_chunk55 iv (by omega) (by omega)
  by_cases h_56 : iv < 79345
  · exact allOk_spec 77953 1392 beacon_chunk56 iv (by omega) (by omega)
  by_cases h_57 : iv < 80737
  · exact allOk_spec 79345 1392 beacon_chunk57 iv (by omega) (by omega)
  by_cases h_58 : iv < 82129
  · exact allOk_spec 80737 1392 beacon_chunk58 iv (by omega) (by omega)
  by_cases h_59 : iv < 83521
  · exact allOk_spec 82129 1392 beacon_chunk59 iv (by omega) (by omega)
  by_cases h_60 : iv < 84913
  · exact allOk_spec 83521 1392 beacon_chunk60 iv (by omega) (by omega)
  by_cases h_61 : iv < 86305
  · exact allOk_spec 84913 1392 beacon_chunk61 iv (by omega) (by omega)
  by_cases h_62 : iv < 87697
  · exact allOk_spec 86305 1392 beacon_chunk62 iv (by omega) (by omega)
  by_cases h_63 : iv < 89089
  · exact allOk_spec 87697 1392 beacon_chunk63 iv (by omega) (by omega)
  by_cases h_64 : iv < 90481
  · exact allOk_spec 89089 1392 beacon_chunk64 iv (by omega) (by omega)
  by_cases h_65 : iv < 91873
  · exact allOk_spec 90481 1392 beacon_chunk65 iv (by omega) (by omega)
  by_cases h_66 : iv < 93265
  · exact allOk_spec 91873 1392 beacon_chunk66 iv (by omega) (by omega)
  by_cases h_67 : iv < 94657
  · exact allOk_spec 93265 1392 beacon_chunk67 iv (by omega) (by omega)
  by_cases h_68 : iv < 96049
  · exact allOk_spec 94657 1392 beacon_chunk68 iv (by omega) (by omega)
  by_cases h_69 : iv < 97441
  · exact allOk_spec 96049 1392 beacon_chunk69 iv (by omega) (by omega)
  by_cases h_70 : iv < 98833
  · exact allOk_spec 97441 1392 beacon_chunk70 iv (by omega) (by omega)
  by_cases h_71 : iv < 100225
  · exact allOk_spec 98833 1392 beacon_chunk71 iv (by omega) (by omega)
  by_cases h_72 : iv < 101617
  · exact allOk_spec 100225 1392 beacon_chunk72 iv (by omega) (by omega)
  by_cases h_73 : iv < 103009
  · exact allOk_spec 101617 1392 beacon_chunk73 iv (by omega) (by omega)
  by_cases h_74 : iv < 104401
  · exact allOk_spec 103009 1392 beacon_chunk74 iv (by omega) (by omega)
  by_cases h_75 : iv < 105793
  · exact allOk_spec 104401 1392 beacon_chunk75 iv (by omega) (by omega)
  by_cases h_76 : iv < 107185
  · exact allOk_spec 105793 1392 beacon_chunk76 iv (by omega) (by omega)
  by_cases h_77 : iv < 108577
  · exact allOk_spec 107185 1392 beacon_chunk77 iv (by omega) (by omega)
  by_cases h_78 : iv < 109969
  · exact allOk_spec 108577 1392 beacon_chunk78 iv (by omega) (by omega)
  by_cases h_79 : iv < 111361
  · exact allOk_spec 109969 1392 beacon_chunk79 iv (by omega) (by omega)
  by_cases h_80 : iv < 112753
  · exact allOk_spec 111361 1392 beacon_chunk80 iv (by omega) (by omega)
  by_cases h_81 : iv < 114145
  · exact allOk_spec 112753 1392 beacon_chunk81 iv (by omega) (by omega)
  by_cases h_82 : iv < 115537
  · exact allOk_spec 114145 1392 beacon_chunk82 iv (by omega) (by omega)
  by_cases h_83 : iv < 116929
  · exact allOk_spec 115537 1392 beacon_chunk83 iv (by omega) (by omega)
  by_cases h_84 : iv < 118321
  · exact allOk_spec 116929 1392 beacon_chunk84 iv (by omega) (by omega)
  by_cases h_85 : iv < 119713
  · exact allOk_spec 118321 1392 beacon_chunk85 iv (by omega) (by omega)
  by_cases h_86 : iv < 121105
  · exact allOk_spec 119713 1392 beacon_chunk86 iv (by omega) (by omega)
  by_cases h_87 : iv < 122497
  · exact allOk_spec 121105 1392 beacon_chunk87 iv (by omega) (by omega)
  by_cases h_88 : iv < 123889
  · exact allOk_spec 122497 1392 beacon_chunk88 iv (by omega) (by omega)
  by_cases h_89 : iv < 125281
  · exact allOk_spec 123889 1392 beacon_chunk89 iv (by omega) (by omega)
  by_cases h_90 : iv < 126673
  · exact allOk_spec 125281 1392 beacon_chunk90 iv (by omega) (by omega)
  by_cases h_91 : iv < 128065
  · exact allOk_spec 126673 1392 beacon_chunk91 iv (by omega) (by omega)
  by_cases h_92 : iv < 129457
  · exact allOk_spec 128065 1392 beacon_chunk92 iv (by omega) (by omega)
  by_cases h_93 : iv < 130849
  · exact allOk_spec 129457 1392 beacon_chunk93 iv (by omega) (by omega)
  by_cases h_94 : iv < 132241
  · exact allOk_spec 130849 1392 beacon_chunk94 iv (by omega) (by omega)
  exact allOk_spec 132241 1380 beacon_chunk95 iv (by omega) (by omega)

end Sx
