import Sx.Props.C14.Defs
/- C14 table, intervals 82129 .. 83520 ms: one kernel evaluation of `beaconOk` per interval. -/
namespace Sx
set_option maxRecDepth 1000000 in
theorem beacon_chunk59 : allOk 82129 1392 = true := by decide +kernel
end Sx
