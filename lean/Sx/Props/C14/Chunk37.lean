import Sx.Props.C14.Defs
/- C14 table, intervals 51505 .. 52896 ms: one kernel evaluation of `beaconOk` per interval. -/
namespace Sx
set_option maxRecDepth 1000000 in
theorem beacon_chunk37 : allOk 51505 1392 = true := by decide +kernel
end Sx
