import Sx.Props.C14.Defs
/- C14 table, intervals 83521 .. 84912 ms: one kernel evaluation of `beaconOk` per interval. -/
namespace Sx
set_option maxRecDepth 1000000 in
theorem beacon_chunk60 : allOk 83521 1392 = true := by decide +kernel
end Sx
