import Sx.Props.C14.Defs
/- C14 table, intervals 68209 .. 69600 ms: one kernel evaluation of `beaconOk` per interval. -/
namespace Sx
set_option maxRecDepth 1000000 in
theorem beacon_chunk49 : allOk 68209 1392 = true := by decide +kernel
end Sx
