import Sx.Props.C14.Defs
/- C14 table, intervals 115537 .. 116928 ms: one kernel evaluation of `beaconOk` per interval. -/
namespace Sx
set_option maxRecDepth 1000000 in
theorem beacon_chunk83 : allOk 115537 1392 = true := by decide +kernel
end Sx
