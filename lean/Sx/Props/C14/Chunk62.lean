import Sx.Props.C14.Defs
/- C14 table, intervals 86305 .. 87696 ms: one kernel evaluation of `beaconOk` per interval. -/
namespace Sx
set_option maxRecDepth 1000000 in
theorem beacon_chunk62 : allOk 86305 1392 = true := by decide +kernel
end Sx
