import Sx.Props.C14.Defs
/- C14 table, intervals 15313 .. 16704 ms: one kernel evaluation of `beaconOk` per interval. -/
namespace Sx
set_option maxRecDepth 1000000 in
theorem beacon_chunk11 : allOk 15313 1392 = true := by decide +kernel
end Sx
