import Sx.Props.C14.Defs
/- C14 table, intervals 59857 .. 61248 ms: one kernel evaluation of `beaconOk` per interval. -/
namespace Sx
set_option maxRecDepth 1000000 in
theorem beacon_chunk43 : allOk 59857 1392 = true := by decide +kernel
end Sx
