import Sx.Props.C14.Defs
/- C14 table, intervals 66817 .. 68208 ms: one kernel evaluation of `beaconOk` per interval. -/
namespace Sx
set_option maxRecDepth 1000000 in
theorem beacon_chunk48 : allOk 66817 1392 = true := by decide +kernel
end Sx
