import Sx.Props.C14.Defs
/- C14 table, intervals 40369 .. 41760 ms: one kernel evaluation of `beaconOk` per interval. -/
namespace Sx
set_option maxRecDepth 1000000 in
theorem beacon_chunk29 : allOk 40369 1392 = true := by decide +kernel
end Sx
