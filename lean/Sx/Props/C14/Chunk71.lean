import Sx.Props.C14.Defs
/- C14 table, intervals 98833 .. 100224 ms: one kernel evaluation of `beaconOk` per interval. -/
namespace Sx
set_option maxRecDepth 1000000 in
theorem beacon_chunk71 : allOk 98833 1392 = true := by decide +kernel
end Sx
