import Sx.Props.C14.Defs
/- C14 table, intervals 125281 .. 126672 ms: one kernel evaluation of `beaconOk` per interval. -/
namespace Sx
set_option maxRecDepth 1000000 in
theorem beacon_chunk90 : allOk 125281 1392 = true := by decide +kernel
end Sx
