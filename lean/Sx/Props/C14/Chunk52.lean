import Sx.Props.C14.Defs
/- C14 table, intervals 72385 .. 73776 ms: one kernel evaluation of `beaconOk` per interval. -/
namespace Sx
set_option maxRecDepth 1000000 in
theorem beacon_chunk52 : allOk 72385 1392 = true := by decide +kernel
end Sx
