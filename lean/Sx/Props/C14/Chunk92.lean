import Sx.Props.C14.Defs
/- C14 table, intervals 128065 .. 129456 ms: one kernel evaluation of `beaconOk` per interval. -/
namespace Sx
set_option maxRecDepth 1000000 in
theorem beacon_chunk92 : allOk 128065 1392 = true := by decide +kernel
end Sx
