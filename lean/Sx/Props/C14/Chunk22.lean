import Sx.Props.C14.Defs
/- C14 table, intervals 30625 .. 32016 ms: one kernel evaluation of `beaconOk` per interval. -/
namespace Sx
set_option maxRecDepth 1000000 in
theorem beacon_chunk22 : allOk 30625 1392 = true := by decide +kernel
end Sx
