import Sx.Props.C14.Defs
/- C14 table, intervals 76561 .. 77952 ms: one kernel evaluation of `beaconOk` per interval. -/
namespace Sx
set_option maxRecDepth 1000000 in
theorem beacon_chunk55 : allOk 76561 1392 = true := by decide +kernel
end Sx
