import Sx.Props.C14.Defs
/- C14 table, intervals 62641 .. 64032 ms: one kernel evaluation of `beaconOk` per interval. -/
namespace Sx
set_option maxRecDepth 1000000 in
theorem beacon_chunk45 : allOk 62641 1392 = true := by decide +kernel
end Sx
