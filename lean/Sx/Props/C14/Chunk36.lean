import Sx.Props.C14.Defs
/- C14 table, intervals 50113 .. 51504 ms: one kernel evaluation of `beaconOk` per interval. -/
namespace Sx
set_option maxRecDepth 1000000 in
theorem beacon_chunk36 : allOk 50113 1392 = true := by decide +kernel
end Sx
