import Sx.Props.C14.Defs
/- C14 table, intervals 2785 .. 4176 ms: one kernel evaluation of `beaconOk` per interval. -/
namespace Sx
set_option maxRecDepth 1000000 in
theorem beacon_chunk02 : allOk 2785 1392 = true := by decide +kernel
end Sx
