import Sx.Props.C14.Defs
/- C14 table, intervals 79345 .. 80736 ms: one kernel evaluation of `beaconOk` per interval. -/
namespace Sx
set_option maxRecDepth 1000000 in
theorem beacon_chunk57 : allOk 79345 1392 = true := by decide +kernel
end Sx
