import Sx.Props.C14.Defs
/- C14 table, intervals 58465 .. 59856 ms: one kernel evaluation of `beaconOk` per interval. -/
namespace Sx
set_option maxRecDepth 1000000 in
theorem beacon_chunk42 : allOk 58465 1392 = true := by decide +kernel
end Sx
