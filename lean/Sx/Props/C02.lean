import Sx.Props.C01
import Sx.Props.C19
import Sx.Lemmas.Refine
/-
  C02 — the cache is transparent.

  A program using the library observes the same return codes, output values, callback
  invocations and payloads, and leaves the chip in the same register and FIFO state, whether
  the library is built with the register cache or without.  The cached build issues the same
  writes in the same order and never more SPI transfers.

  Proved as a simulation between the two interpreters of the same program tree (`execG_sim`),
  lifted to histories.  Histories range over API calls with any valid arguments, handler
  invocations, handle re-creations and admissible environment events between calls; fault
  positions and in-call schedules are excluded from the statement because they are keyed by
  transfer index, which is not comparable between two builds that issue different numbers of
  transfers.
-/
namespace Sx
open Mem Chip Cache

/-- what the application can tell apart -/
def ObsRel : Obs → Obs → Prop
  | .skipped, .skipped => True
  | .env, .env => True
  | .ub u, .ub u' => u = u'
  | .ret r cbs bus, .ret r' cbs' bus' =>
    r = r' ∧ cbs = cbs' ∧ writesOf bus = writesOf bus' ∧ bus.length ≤ bus'.length
  | _, _ => False

/-- a history step without in-call schedule and without failing transfers -/
def Op.Plain : Op → Prop
  | .env _ => True
  | .api _ sched faults => sched = [] ∧ faults = []

/-- the two builds between two operations -/
structure SR (sc su : Sys) : Prop where
  handle : sc.handle = su.handle
  chip : sc.world.chip = su.world.chip
  inv : Inv sc.world

def SysCfg.uncached (c : SysCfg) : SysCfg := { c with cached := false }

theorem rw_logCb {wc wu : World} (r : RW wc wu) (e : CbEvent) (h : Handle) : OutRel (logCb e h wc) (logCb e h wu) := by
  refine ⟨rfl, r.chip, ⟨r.inv.chip, r.inv.cache, r.inv.coh, r.inv.sched⟩, ?_, r.writes, r.count, r.pc, r.pu⟩
  simp only [r.cbs]

theorem onCb_sim (c : SysCfg) (hc : c.cached = true) (hv : c.Valid) (e : CbEvent) (h : Handle) (wc wu : World)
    (r : RW wc wu) : OutRel (c.toCfg.onCb e h wc) (c.uncached.toCfg.onCb e h wu) := by
  have hreact : c.uncached.toCfg.reactionFor e = c.toCfg.reactionFor e := by
    cases e <;> rfl
  unfold Cfg.onCb
  rw [hreact]
  cases hr : c.toCfg.reactionFor e with
  | none => exact rw_logCb r e h
  | some re =>
    simp only
    have key : ∀ o : Option Api, (∀ a, o = some a → a.Valid) → c.reaction o = some re → (re.run h).All ContractReq := by
      intro o hval ho
      cases o with
      | none => simp [SysCfg.reaction] at ho
      | some api =>
        simp only [SysCfg.reaction] at ho
        split at ho
        · cases ho
        · cases ho
          exact (contract_api c.cap c.fuel api (hval api rfl)).all h
    have hall : (re.run h).All ContractReq := by
      cases e with
      | rx d l => exact key c.onRx hv.1 hr
      | tx => exact key c.onTx hv.2.1 hr
      | cad d => exact key c.onCad hv.2.2 hr
    have hsim := execG_sim logCb logCb (fun e h wc wu r => rw_logCb r e h) (re.run h) hall wc wu r
    have h1 : c.toCfg.cached = true := hc
    have h2 : c.uncached.toCfg.cached = false := rfl
    unfold exec0
    rw [h1, h2]
    generalize execG true logCb (re.run h) wc = a at hsim
    generalize execG false logCb (re.run h) wu = b at hsim
    cases a <;> cases b <;> simp only [OutRel] at hsim
    · rename_i av wa bv wb
      obtain ⟨hab, rr⟩ := hsim
      subst hab
      obtain ⟨res, h'⟩ := av
      refine ⟨rfl, rr.chip, ⟨rr.inv.chip, rr.inv.cache, rr.inv.coh, rr.inv.sched⟩, ?_, rr.writes, rr.count, rr.pc, rr.pu⟩
      simp only [rr.cbs]
    · exact hsim

theorem writesOf_reverse (l : List BusEv) : writesOf l.reverse = (writesOf l).reverse := by
  simp [writesOf, List.filter_reverse]

theorem rw_start {sc su : Sys} (r : SR sc su) (k ku : Cache) (hk : k.WF) (hcoh : Coh k sc.world.chip) :
    RW { sc.world with xfer := 0, sched := [], faults := [], bus := [], cbs := [], cache := k }
       { su.world with xfer := 0, sched := [], faults := [], bus := [], cbs := [], cache := ku } :=
  ⟨r.chip, ⟨r.inv.chip, hk, hcoh, fun e he => by cases he⟩, rfl, rfl, Nat.le_refl _, ⟨rfl, rfl⟩, ⟨rfl, rfl⟩⟩

/-- one step of a history: same observation, related states (unless the program itself reached
    undefined behaviour, in which case both builds did, of the same kind) -/
theorem step_sim (c : SysCfg) (hc : c.cached = true) (hv : c.Valid) (sc su : Sys) (r : SR sc su) (op : Op)
    (hp : op.Plain) (hval : op.Valid) (hadm : op.Admissible) :
    ObsRel (sc.step c op).2 (su.step c.uncached op).2 ∧
      ((∀ u, (sc.step c op).2 ≠ .ub u) → SR (sc.step c op).1 (su.step c.uncached op).1) := by
  cases op with
  | env e =>
    refine ⟨trivial, fun _ => ?_⟩
    have s1 := Env.apply_stable r.inv.chip e hadm
    refine ⟨r.handle, by simp only [Sys.step, r.chip], ?_⟩
    exact ⟨s1.wf, r.inv.cache, coh_stable r.inv.cache r.inv.coh s1, r.inv.sched⟩
  | api a sched faults =>
    obtain ⟨hs, hf⟩ := hp
    subst hs; subst hf
    unfold Sys.step
    dsimp only
    rw [← r.handle]
    by_cases hskip : sc.handle.isNone = true ∧ (!a.isCreate) = true
    · rw [if_pos hskip, if_pos hskip]
      exact ⟨trivial, fun _ => r⟩
    · rw [if_neg hskip, if_neg hskip]
      have hrw := rw_start r (if a.isCreate then Cache.fresh else sc.world.cache)
        (if a.isCreate then Cache.fresh else su.world.cache)
        (by split; exact fresh_wf; exact r.inv.cache) (by split; exact fresh_coh _; exact r.inv.coh)
      have hsim := execG_sim c.toCfg.onCb c.uncached.toCfg.onCb (onCb_sim c hc hv)
        (Api.prog c.cap c.fuel a (sc.handle.getD {})) ((contract_api c.cap c.fuel a hval).all _) _ _ hrw
      have h1 : c.toCfg.cached = true := hc
      have h2 : c.uncached.toCfg.cached = false := rfl
      have h3 : c.uncached.cap = c.cap := rfl
      have h4 : c.uncached.fuel = c.fuel := rfl
      unfold exec
      rw [h1, h2, h3, h4]
      generalize execG true c.toCfg.onCb (Api.prog c.cap c.fuel a (sc.handle.getD {})) _ = oc at hsim
      generalize execG false c.uncached.toCfg.onCb (Api.prog c.cap c.fuel a (sc.handle.getD {})) _ = ou at hsim
      cases oc <;> cases ou <;> simp only [OutRel] at hsim
      · rename_i av wa bv wb
        obtain ⟨hab, rr⟩ := hsim
        subst hab
        obtain ⟨res, h'⟩ := av
        simp only
        have hsc : wa.sched = [] := rr.pc.1
        have hsu : wb.sched = [] := rr.pu.1
        refine ⟨⟨rfl, by rw [rr.cbs], ?_, ?_⟩, fun _ => ⟨rfl, ?_, ?_⟩⟩
        · rw [writesOf_reverse, writesOf_reverse, rr.writes]
        · simp only [List.length_reverse]; exact rr.count
        · simp only [hsc, hsu, List.foldl_nil]; exact rr.chip
        · simp only [hsc, List.foldl_nil]
          exact ⟨rr.inv.chip, rr.inv.cache, rr.inv.coh, fun e he => by cases he⟩
      · refine ⟨hsim, fun hne => ?_⟩
        rename_i u wa u' wb
        exact absurd rfl (hne u)

/-- two lists related element by element (same length) -/
inductive Pointwise (R : α → β → Prop) : List α → List β → Prop
  | nil : Pointwise R [] []
  | cons {a b as bs} : R a b → Pointwise R as bs → Pointwise R (a :: as) (b :: bs)

/-- observations of a history, related pointwise -/
theorem run_sim (c : SysCfg) (hc : c.cached = true) (hv : c.Valid) (ops : List Op) (sc su : Sys) (r : SR sc su)
    (hp : ∀ op ∈ ops, op.Plain ∧ op.Valid ∧ op.Admissible)
    (hnoub : ∀ o ∈ (Sys.run c sc ops).2, ∀ u, o ≠ .ub u) :
    Pointwise ObsRel (Sys.run c sc ops).2 (Sys.run c.uncached su ops).2 ∧
      SR (Sys.run c sc ops).1 (Sys.run c.uncached su ops).1 := by
  induction ops generalizing sc su with
  | nil => exact ⟨Pointwise.nil, r⟩
  | cons op rest ih =>
    simp only [Sys.run] at hnoub ⊢
    obtain ⟨h1, h2, h3⟩ := hp op (List.mem_cons_self ..)
    have hstep := step_sim c hc hv sc su r op h1 h2 h3
    have hnu : ∀ u, (sc.step c op).2 ≠ .ub u := fun u => hnoub _ (List.mem_cons_self ..) u
    have hrest := ih (sc.step c op).1 (su.step c.uncached op).1 (hstep.2 hnu)
      (fun o ho => hp o (List.mem_cons_of_mem _ ho))
      (fun o ho => hnoub o (List.mem_cons_of_mem _ ho))
    exact ⟨Pointwise.cons hstep.1 hrest.1, hrest.2⟩

/-- **C02.** From any initial chip, for every history of valid API calls, handler invocations,
    re-creations and admissible environment events: the build with the register cache and the
    build without it yield pairwise the same return codes, output values and callback
    invocations with payloads, the same register/FIFO writes in the same order, never more
    transfers with the cache, and end with the same chip state and the same handle. -/
theorem C02_cache_transparent (c : SysCfg) (hc : c.cached = true) (hv : c.Valid) (chip0 : Chip) (hw : chip0.WF)
    (ops : List Op) (hp : ∀ op ∈ ops, op.Plain ∧ op.Valid ∧ op.Admissible) :
    let s0 : Sys := { world := { chip := chip0 }, handle := none }
    let rc := Sys.run c s0 ops
    let ru := Sys.run c.uncached s0 ops
    (∀ o ∈ rc.2, ∀ u, o ≠ .ub u) →
      Pointwise ObsRel rc.2 ru.2 ∧ rc.1.world.chip = ru.1.world.chip ∧ rc.1.handle = ru.1.handle := by
  intro s0 rc ru hnoub
  have r0 : SR s0 s0 := ⟨rfl, rfl, ⟨hw, fresh_wf, fresh_coh _, fun e he => by cases he⟩⟩
  have := run_sim c hc hv ops s0 s0 r0 hp hnoub
  exact ⟨this.1, this.2.chip, this.2.handle⟩

/-- non-vacuity: a history with a cache hit on one side and a transfer on the other -/
example :
    let ops : List Op := [.api .create [] [], .api (.writeRegister 0x39 0x34) [] [], .api (.readRegister 0x39) [] []]
    let rc := Sys.run {} { world := { chip := Chip.init } } ops
    let ru := Sys.run ({} : SysCfg).uncached { world := { chip := Chip.init } } ops
    (rc.2.map (fun o => o.bus.length)) = [1, 1, 0] ∧ (ru.2.map (fun o => o.bus.length)) = [1, 1, 1] := by
  decide +kernel

end Sx
