import Sx.Sys
/-
  C18 — device handles are independent.

  Two radios: two chips, two handles (each with its own register cache and its own application
  reactions).  A history is any interleaving, at call granularity, of operations on radio A and
  operations on radio B.  The model of the library (`Sx.Model.Driver`) is a family of programs in
  the driver monad `DM α = Handle → Prog (…× Handle)`: the only state a program can read or change
  is the handle it is given and the answers of the chip it is run against — there is nothing else
  in the type.  `Sys.step` runs such a program against one `Sys` (= chip + cache + handle).

  The theorem below states the consequence the property asks for: in every interleaving, what
  radio A observes and the state radio A ends in are exactly those of running A's operations
  alone, and the same for B.

  That the C code has the same shape (no writable global or static object, every request issued on
  the handle's own spi device) is not a consequence of this theorem: it is checked on the real
  object file (symbol table) and by running the real driver on interleaved and solo histories on two
  simulated chips (props.py, `interleave`), with the solo runs compared against this model.
-/
namespace Sx

/-- two independent radios on one host -/
structure Sys2 where
  a : Sys
  b : Sys

/-- an operation addressed to one of the two radios -/
inductive Op2
  | onA (op : Op)
  | onB (op : Op)

def Sys2.step (ca cb : SysCfg) (s : Sys2) : Op2 → Sys2 × (Bool × Obs)
  | .onA op => let r := s.a.step ca op; ({ s with a := r.1 }, (false, r.2))
  | .onB op => let r := s.b.step cb op; ({ s with b := r.1 }, (true, r.2))

def Sys2.run (ca cb : SysCfg) : Sys2 → List Op2 → Sys2 × List (Bool × Obs)
  | s, [] => (s, [])
  | s, op :: ops =>
    let (s1, o) := s.step ca cb op
    let (s2, os) := Sys2.run ca cb s1 ops
    (s2, o :: os)

/-- the operations of an interleaved history that are addressed to radio A / radio B -/
def projA : List Op2 → List Op
  | [] => []
  | .onA op :: r => op :: projA r
  | .onB _ :: r => projA r

def projB : List Op2 → List Op
  | [] => []
  | .onA _ :: r => projB r
  | .onB op :: r => op :: projB r

/-- the observations made on radio A / radio B -/
def obsOf (which : Bool) (l : List (Bool × Obs)) : List Obs :=
  (l.filter (fun o => o.1 == which)).map (·.2)

/-- **C18.** For every pair of initial radios, every build configuration and application behaviour of
each, and every interleaving of two histories: each radio's observations (return codes, outputs,
callbacks, every bus transfer) and final state (chip, cache, handle) are those of its own history
run alone. -/
theorem C18_handles_independent (ca cb : SysCfg) (s : Sys2) (ops : List Op2) :
    (Sys2.run ca cb s ops).1.a = (Sys.run ca s.a (projA ops)).1 ∧
    obsOf false (Sys2.run ca cb s ops).2 = (Sys.run ca s.a (projA ops)).2 ∧
    (Sys2.run ca cb s ops).1.b = (Sys.run cb s.b (projB ops)).1 ∧
    obsOf true (Sys2.run ca cb s ops).2 = (Sys.run cb s.b (projB ops)).2 := by
  induction ops generalizing s with
  | nil => simp [Sys2.run, Sys.run, projA, projB, obsOf]
  | cons op ops ih =>
    cases op with
    | onA op =>
      obtain ⟨h1, h2, h3, h4⟩ := ih { s with a := (s.a.step ca op).1 }
      simp [obsOf] at h2 h4
      refine ⟨?_, ?_, ?_, ?_⟩ <;> simp [Sys2.run, Sys2.step, projA, projB, Sys.run, obsOf, h1, h2, h3, h4]
    | onB op =>
      obtain ⟨h1, h2, h3, h4⟩ := ih { s with b := (s.b.step cb op).1 }
      simp [obsOf] at h2 h4
      refine ⟨?_, ?_, ?_, ?_⟩ <;> simp [Sys2.run, Sys2.step, projA, projB, Sys.run, obsOf, h1, h2, h3, h4]

/-- the other radio's history is irrelevant: two interleavings with the same A-part agree on A -/
theorem C18_other_radio_irrelevant (ca cb cb' : SysCfg) (s s' : Sys2) (ops ops' : List Op2)
    (hs : s.a = s'.a) (hp : projA ops = projA ops') :
    (Sys2.run ca cb s ops).1.a = (Sys2.run ca cb' s' ops').1.a ∧
    obsOf false (Sys2.run ca cb s ops).2 = obsOf false (Sys2.run ca cb' s' ops').2 := by
  have h1 := C18_handles_independent ca cb s ops
  have h2 := C18_handles_independent ca cb' s' ops'
  rw [h1.1, h1.2.1, h2.1, h2.2.1, hs, hp]
  exact ⟨rfl, rfl⟩

example : projA [.onA (.env .txSent), .onB (.api .create [] []), .onA (.api .create [] [])]
    = [.env .txSent, .api .create [] []] := rfl

end Sx
