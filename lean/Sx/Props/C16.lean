import Sx.Props.C06
/-
  C16 — frequency hopping cycles through the caller's list, restarting per packet.
-/
namespace Sx
open Sx.Model DM Mem Chip

/-- the list index the handler uses for a hop when the stored counter is `cur` -/
def hopIndex (cur len : Nat) : Nat := if cur ≥ len then 0 else cur

/-- the counter after `j` channel-change events since the last packet boundary -/
def hopCounter (len : Nat) : Nat → Nat
  | 0 => 0
  | j + 1 => hopIndex (hopCounter len j) len + 1

/-- **C16, cycling.** The `j`-th channel-change event (counting from 0) after a packet boundary
    uses entry `j mod len` of the list, for every list length ≥ 1 and every number of hops —
    more or fewer than the list length. -/
theorem succ_mod (j len : Nat) (hlen : 1 ≤ len) :
    (j + 1) % len = if j % len + 1 = len then 0 else j % len + 1 := by
  have hlt : j % len < len := Nat.mod_lt _ (by omega)
  rw [Nat.add_mod]
  by_cases h1 : len = 1
  · subst h1; simp [Nat.mod_one]
  · have h11 : 1 % len = 1 := Nat.mod_eq_of_lt (by omega)
    rw [h11]
    split
    · rename_i he; rw [he, Nat.mod_self]
    · exact Nat.mod_eq_of_lt (by omega)

theorem C16_kth_hop_index (len : Nat) (hlen : 1 ≤ len) (j : Nat) : hopIndex (hopCounter len j) len = j % len := by
  induction j with
  | zero =>
    show (if hopCounter len 0 ≥ len then 0 else hopCounter len 0) = 0 % len
    rw [Nat.zero_mod]
    show (if 0 ≥ len then 0 else 0) = 0
    exact ite_self 0
  | succ j ih =>
    have hlt : j % len < len := Nat.mod_lt _ (by omega)
    simp only [hopCounter, ih]
    rw [succ_mod j len hlen]
    unfold hopIndex
    split <;> split <;> omega

theorem hopCounter_le (len : Nat) (hlen : 1 ≤ len) (j : Nat) : hopCounter len j ≤ len := by
  cases j with
  | zero => simp [hopCounter]
  | succ j =>
    simp only [hopCounter, hopIndex]
    split <;> omega

/-- **C16, one hop.** In LoRa mode with a list of `len` (1..255) entries registered, when the
    chip raises FhssChangeChannel alone (no CadDone, PayloadCrcError, RxDone, TxDone), from any
    stored counter `cur ≤ len`: the handler programs RegFrf with the encoding of entry
    `hopIndex cur len` — an index inside the list — and stores that index plus one; nothing
    else is written except the flag acknowledgement. -/
theorem C16_hop (fuel : Nat) (h : Handle) (c : Chip) (hl : c.isLora = true)
    (hm : h.activeModem = Gen.SX127x_MODULATION_LORA)
    (list : List UInt64) (hfr : h.freqs = some list) (hlen : h.freqLen.toNat = list.length) (hl1 : 1 ≤ list.length)
    (hcur : h.curFreq.toNat ≤ list.length)
    (hflags : c.lora.rd 0x12 &&& 0x04 = 0 ∧ c.lora.rd 0x12 &&& 0x20 = 0 ∧ c.lora.rd 0x12 &&& 0x40 = 0 ∧
              c.lora.rd 0x12 &&& 0x08 = 0 ∧ c.lora.rd 0x12 &&& 0x02 ≠ 0)
    (d : List UInt8)
    (hfrf : frfOf (list.getD (hopIndex h.curFreq.toNat list.length) 0) = some d) :
    hopIndex h.curFreq.toNat list.length < list.length ∧
    wp (handleInterrupt fuel) h ⟨c, [], []⟩ (fun r h' s' =>
      h'.curFreq.toNat = hopIndex h.curFreq.toNat list.length + 1 ∧
      s'.cbs = [] ∧
      s'.bus = [.w 0x06 d (.ok ()), .w 0x12 [c.lora.rd 0x12] (.ok ()), .r 0x12 1 (.ok (be32 [c.lora.rd 0x12]))]) := by
  obtain ⟨hcad, hcrc, hrx, htx, hhop⟩ := hflags
  have hidx : hopIndex h.curFreq.toNat list.length < list.length := by
    unfold hopIndex; split <;> omega
  refine ⟨hidx, ?_⟩
  rw [wp_handleInterrupt_lora _ _ _ _ hm]
  unfold loraHandleInterrupt
  simp only [wp_bind, wp_rread, wp_swrite, wp_getH, show Gen.REGIRQFLAGS = 0x12 from rfl,
    readN_one _ 0x12 (by decide), show (0x12 % 128) = 0x12 from rfl, peek_lora _ _ hl (show inPage 0x12 = true by decide),
    be32_single, writeN_one, flag_consts.1, flag_consts.2.1, flag_consts.2.2.1, flag_consts.2.2.2.1,
    flag_consts.2.2.2.2.1, hcad, hcrc, hrx, htx, hhop, ne_eq, not_true_eq_false, not_false_eq_true, ↓reduceIte, hfr,
    wp_modH]
  -- the index as the driver computes it on bytes
  have hi : (if h.curFreq ≥ h.freqLen then (0 : UInt8) else h.curFreq).toNat = hopIndex h.curFreq.toNat list.length := by
    unfold hopIndex
    by_cases hge : h.curFreq ≥ h.freqLen
    · have : h.curFreq.toNat ≥ list.length := by rw [← hlen]; exact UInt8.le_iff_toNat_le.mp hge
      rw [if_pos hge, if_pos this]; rfl
    · have : ¬ h.curFreq.toNat ≥ list.length := by
        rw [← hlen]; intro hc; exact hge (UInt8.le_iff_toNat_le.mpr hc)
      rw [if_neg hge, if_neg this]
  rw [hi]
  have hget : list[hopIndex h.curFreq.toNat list.length]? = some (list.getD (hopIndex h.curFreq.toNat list.length) 0) := by
    simp [List.getD, hidx]
  simp only [hget]
  unfold setFrequency
  simp only [hfrf, wp_swrite, wp_modH, show Gen.REGFRFMSB = 0x06 from rfl]
  refine ⟨?_, rfl, rfl⟩
  have hlt : hopIndex h.curFreq.toNat list.length + 1 < 256 := by
    have := h.freqLen.toNat_lt; omega
  rw [UInt8.toNat_add, hi]
  simp only [UInt8.toNat_one]
  exact Nat.mod_eq_of_lt hlt


/-- **C16, restart and no hop at a packet end (transmit).** A transmit-done event — alone or
    together with a channel-change event — restarts the sequence at the first entry and programs
    no frequency: the only transfers are the flag read and its acknowledgement. -/
theorem C16_restart_tx (fuel : Nat) (h : Handle) (c : Chip) (hl : c.isLora = true)
    (hm : h.activeModem = Gen.SX127x_MODULATION_LORA)
    (hflags : c.lora.rd 0x12 &&& 0x04 = 0 ∧ c.lora.rd 0x12 &&& 0x20 = 0 ∧ c.lora.rd 0x12 &&& 0x40 = 0 ∧
              c.lora.rd 0x12 &&& 0x08 ≠ 0) :
    wp (handleInterrupt fuel) h ⟨c, [], []⟩ (fun r h' s' =>
      h'.curFreq = 0 ∧
      s'.bus = [.w 0x12 [c.lora.rd 0x12] (.ok ()), .r 0x12 1 (.ok (be32 [c.lora.rd 0x12]))]) := by
  obtain ⟨hcad, hcrc, hrx, htx⟩ := hflags
  rw [wp_handleInterrupt_lora _ _ _ _ hm]
  unfold loraHandleInterrupt
  simp only [wp_bind, wp_rread, wp_swrite, wp_getH, show Gen.REGIRQFLAGS = 0x12 from rfl,
    readN_one _ 0x12 (by decide), show (0x12 % 128) = 0x12 from rfl, peek_lora _ _ hl (show inPage 0x12 = true by decide),
    be32_single, writeN_one, flag_consts.1, flag_consts.2.1, flag_consts.2.2.1, flag_consts.2.2.2.1,
    hcad, hcrc, hrx, htx, ne_eq, not_true_eq_false, not_false_eq_true, ↓reduceIte, wp_modH]
  unfold txCallback
  rw [wp_bind, wp_getH]
  dsimp only
  split
  · simp only [wp_cb]; exact ⟨by trivial, by trivial⟩
  · simp only [wp_pure]; exact ⟨by trivial, by trivial⟩

/-- **C16, restart at a CRC-failed reception.** (`C05_crc_error`: the counter is reset, no
    frequency is programmed, whether or not a channel-change event is flagged as well.) -/
theorem C16_restart_crc (fuel : Nat) (h : Handle) (c : Chip) (hl : c.isLora = true)
    (hm : h.activeModem = Gen.SX127x_MODULATION_LORA)
    (hcad : c.lora.rd 0x12 &&& 0x04 = 0) (hcrc : c.lora.rd 0x12 &&& 0x20 ≠ 0) :
    wp (handleInterrupt fuel) h ⟨c, [], []⟩ (fun r h' s' =>
      h'.curFreq = 0 ∧
      s'.bus = [.w 0x12 [c.lora.rd 0x12] (.ok ()), .r 0x12 1 (.ok (be32 [c.lora.rd 0x12]))]) := by
  apply wp_mono _ _ _ _ _ _ (C05_crc_error fuel h c hl hm hcad hcrc)
  intro r h' s' ⟨_, hh, hb⟩
  exact ⟨by rw [hh], hb⟩

/-- **C16, restart at a completed reception.** (`C05_rx_done`: the handle afterwards has the
    counter reset.) -/
theorem C16_restart_rx (fuel : Nat) (h : Handle) (c : Chip) (wf : c.WF) (hl : c.isLora = true)
    (hm : h.activeModem = Gen.SX127x_MODULATION_LORA) (hcb : h.rxCb = true) (hexp : h.expected = 0)
    (hcap : (c.lora.rd 0x13).toNat ≤ h.packet.length)
    (hcad : c.lora.rd 0x12 &&& 0x04 = 0) (hcrc : c.lora.rd 0x12 &&& 0x20 = 0) (hrx : c.lora.rd 0x12 &&& 0x40 ≠ 0) :
    wp (handleInterrupt fuel) h ⟨c, [], []⟩ (fun r h' s' => h'.curFreq = 0 ∧ s'.chip.shared = c.shared) := by
  apply wp_mono _ _ _ _ _ _ (C05_rx_done fuel h c wf hl hm hcb hexp hcap hcad hcrc hrx)
  intro r h' s' ⟨_, hh, _, _, hs, _⟩
  exact ⟨by rw [hh]; rfl, hs⟩

/-- non-vacuity of the index lemma: three entries, five hops → 0, 1, 2, 0, 1 -/
example : (List.range 5).map (fun j => hopIndex (hopCounter 3 j) 3) = [0, 1, 2, 0, 1] := by decide

end Sx
