import Sx.Lemmas.WpLib
import Sx.Props.C05
/-
  C17 — attaching to a running chip is non-destructive.
-/
namespace Sx
open Sx.Model DM Mem Chip Cache

/-- what `sx127x_create` returns and leaves in the handle, as a function of the version read -/
def createResult (cap : Nat) (r : Except Code UInt8) : Except Code Out × Handle :=
  match r with
  | .error c => (.error c, zeroHandle cap)
  | .ok v => if v ≠ u8 Gen.SX127x_VERSION then (.error Gen.SX127X_ERR_INVALID_VERSION, zeroHandle cap)
             else (.ok .none, freshHandle cap)

/-- **Shape of handle creation.** Whatever handle memory it is given, `sx127x_create` is exactly
    one single-register read of RegVersion followed by a return: no other request exists in its
    program, in particular no write and no access to the FIFO address. -/
theorem create_is_one_read (cap fuel : Nat) (h : Handle) :
    Api.prog cap fuel .create h = .rread Gen.REGVERSION (fun r => .ret (createResult cap r)) := by
  unfold Api.prog Model.create
  show (fun h => _) h = _
  simp only [bind, DM.bind', DM.setH, DM.rread, DM.fail, Prog.bind, pure, DM.pure']
  congr 1
  funext r
  cases r with
  | error c => rfl
  | ok v =>
    simp only [createResult]
    split <;> rfl


theorem fresh_42 : Cache.fresh.isIgnore 0x42 = false ∧ Cache.fresh.isCached 0x42 = false ∧ Cache.fresh.size = 0x71 := by
  decide

/-- the environment events scheduled before the first (and only) transfer -/
def chipBefore (sched : List (Nat × Env)) (c : Chip) : Chip :=
  sched.foldl (fun ch e => if e.1 = 0 then e.2.apply ch else ch) c
/-- the events scheduled later happen after the call -/
def chipAfter (sched : List (Nat × Env)) (c : Chip) : Chip :=
  sched.foldl (fun ch e => if e.1 ≥ 1 then e.2.apply ch else ch) c
def faultAt0 (faults : List (Nat × Code)) : Option Code :=
  faults.foldl (fun r f => if f.1 = 0 then some f.2 else r) none

/-- the answer of the bus to the version read -/
def versionRead (sched : List (Nat × Env)) (faults : List (Nat × Code)) (c : Chip) : Except Code UInt32 :=
  match faultAt0 faults with
  | some code => .error code
  | none => .ok (be32 [(chipBefore sched c).peek 0x42])

/-- **C17, handle creation.** In the cached build, from any state (with or without an old
    handle), with any environment events around the transfer and any fault: `sx127x_create`
    puts exactly one transfer on the bus, a one-byte read of RegVersion; it reports success iff
    that read succeeded and returned 0x12; the chip afterwards is the chip as the environment
    alone left it — the driver changed nothing, in particular no register, no FIFO content and
    no FIFO pointer. -/
theorem C17_create (c : SysCfg) (hc : c.cached = true) (s : Sys) (sched : List (Nat × Env)) (faults : List (Nat × Code)) :
    let st := s.step c (.api .create sched faults)
    let res := versionRead sched faults s.world.chip
    st.2 = .ret (createResult c.cap (res.map UInt32.toUInt8)).1 [] [.r 0x42 1 res] ∧
    st.1.handle = some (createResult c.cap (res.map UInt32.toUInt8)).2 ∧
    st.1.world.chip = chipAfter sched (chipBefore sched s.world.chip) := by
  intro st res
  have hst : st = s.step c (.api .create sched faults) := rfl
  unfold Sys.step at hst
  simp only [Api.isCreate, Bool.not_true, Bool.false_eq_true, and_false, ↓reduceIte] at hst
  rw [create_is_one_read] at hst
  unfold exec at hst
  have hcc : c.toCfg.cached = true := hc
  rw [hcc] at hst
  simp only [execG, Shadow.rread, Bool.not_true, Bool.false_eq_true, ↓reduceIte, fresh_42.1, fresh_42.2.1,
    fresh_42.2.2, show ¬ (Gen.REGVERSION ≥ 0x71) by decide, Shadow.rreadMiss, World.busRead, World.pre] at hst
  cases hf : faultAt0 faults with
  | some code =>
    have hres : res = .error code := by simp only [res, versionRead, hf]
    unfold faultAt0 at hf
    simp only [hf] at hst
    rw [hst, hres]
    refine ⟨rfl, rfl, ?_⟩
    simp only [chipAfter, chipBefore]
  | none =>
    have hres : res = .ok (be32 [(chipBefore sched s.world.chip).peek 0x42]) := by simp only [res, versionRead, hf]
    unfold faultAt0 at hf
    simp only [hf, show Gen.REGVERSION = 0x42 from rfl, readN_one _ 0x42 (by decide), show (0x42 % 128) = 0x42 from rfl] at hst
    rw [hst, hres]
    simp only [Except.map, be32_single]
    refine ⟨rfl, rfl, ?_⟩
    simp only [chipAfter, chipBefore]

/-- `sx127x_create` reports a usable handle only if the version register identifies an SX127x,
    for all 256 values of the register -/
theorem C17_version_check (cap : Nat) (v : UInt8) :
    ((createResult cap (.ok v)).1 = .ok .none ↔ v = 0x12) ∧
    ∀ code, (createResult cap (.error code)).1 = .error code := by
  refine ⟨?_, fun _ => rfl⟩
  unfold createResult
  simp only [show u8 Gen.SX127x_VERSION = 0x12 from rfl]
  split
  · rename_i h; simp [h]
  · rename_i h
    have : v = 0x12 := by simpa using h
    simp [this]

/-- without environment events, creation leaves the chip bit-identical -/
theorem C17_chip_untouched (c : SysCfg) (hc : c.cached = true) (s : Sys) (faults : List (Nat × Code)) :
    (s.step c (.api .create [] faults)).1.world.chip = s.world.chip :=
  (C17_create c hc s [] faults).2.2


theorem wp_rxSetCallback (cap fuel : Nat) (on : Bool) (h : Handle) (s : PState) :
    wp (Api.prog cap fuel (.rxSetCallback on)) h s (fun r h' s' =>
      r = .ok .none ∧ h' = { h with rxCb := on } ∧ s' = s) := by
  unfold Api.prog
  rw [wp_bind, wp_modH]
  simp only [wp_pure]
  exact ⟨by trivial, by trivial, by trivial⟩

/-- **C17, resume equivalence.** A radio in LoRa explicit-header receive mode raised RxDone
    while the host slept.  Discarding the old handle at that point, creating a fresh one on the
    same chip (version register 0x12) and registering the receive callback again, then handling
    the interrupt, reports exactly the same receive callback — same bytes, same length — as
    handling it on the old handle, whatever the old handle had cached, whatever configuration
    the chip holds, wherever the packet lies in the buffer. -/
theorem C17_resume (c : SysCfg) (hc : c.cached = true) (hnr : c.NoReact) (hcap : 255 ≤ c.cap)
    (s : Sys) (i : Inv s.world) (h : Handle) (hh : s.handle = some h)
    (hl : s.world.chip.isLora = true) (hver : s.world.chip.peek 0x42 = 0x12)
    (hm : h.activeModem = Gen.SX127x_MODULATION_LORA) (hcb : h.rxCb = true) (hexp : h.expected = 0)
    (hpk : 255 ≤ h.packet.length)
    (hcad : s.world.chip.lora.rd 0x12 &&& 0x04 = 0) (hcrc : s.world.chip.lora.rd 0x12 &&& 0x20 = 0)
    (hrx : s.world.chip.lora.rd 0x12 &&& 0x40 ≠ 0) :
    let resumed := ((s.step c (.api .create [] [])).1.step c (.api (.rxSetCallback true) [] [])).1
    ∃ cbs1 bus1 cbs2 bus2,
      (s.step c (.api .irq [] [])).2 = .ret (.ok .none) cbs1 bus1 ∧
      (resumed.step c (.api .irq [] [])).2 = .ret (.ok .none) cbs2 bus2 ∧
      cbs2.map (·.ev) = cbs1.map (·.ev) ∧ cbs1.length = 1 := by
  intro resumed
  -- the old handle
  obtain ⟨cbs1, bus1, hobs1, hev1, _, _⟩ := C05_cached c hc hnr s i h hh hl hm hcb hexp
    (by have := (s.world.chip.lora.rd 0x13).toNat_lt; omega) hcad hcrc hrx
  -- handle creation: success, fresh handle, chip untouched
  have hcr := C17_create c hc s [] []
  have hres : versionRead [] [] s.world.chip = .ok (be32 [0x12]) := by
    simp only [versionRead, faultAt0, chipBefore, List.foldl_nil, hver]
  rw [hres] at hcr
  simp only [Except.map, be32_single, createResult, show u8 Gen.SX127x_VERSION = 0x12 from rfl, ne_eq,
    not_true_eq_false, ↓reduceIte, chipAfter, chipBefore, List.foldl_nil] at hcr
  obtain ⟨_, hh1, hchip1⟩ := hcr
  have i1 : Inv (s.step c (.api .create [] [])).1.world := step_inv c hc s _ (fun e he => by cases he) i
  -- callback registration: no transfer, chip untouched
  obtain ⟨r2, h2, ps2, _, _, _, hh2, hchip2, hq2, _, _, i2⟩ :=
    step_cached_of_wp c hc hnr _ i1 (.rxSetCallback true) trivial _ hh1 rfl _ (wp_rxSetCallback c.cap c.fuel true _ _)
  obtain ⟨_, hh2', hps2⟩ := hq2
  have hchipR : resumed.world.chip = s.world.chip := by
    show ((s.step c (.api .create [] [])).1.step c (.api (.rxSetCallback true) [] [])).1.world.chip = _
    rw [hchip2, hps2, hchip1]
  have hhR : resumed.handle = some { freshHandle c.cap with rxCb := true } := by
    show ((s.step c (.api .create [] [])).1.step c (.api (.rxSetCallback true) [] [])).1.handle = _
    rw [hh2, hh2']
  obtain ⟨cbs2, bus2, hobs2, hev2, _, _⟩ := C05_cached c hc hnr resumed i2 _ hhR (by rw [hchipR]; exact hl)
    rfl rfl rfl (by have := (resumed.world.chip.lora.rd 0x13).toNat_lt; simp [freshHandle]; omega) (by rw [hchipR]; exact hcad) (by rw [hchipR]; exact hcrc)
    (by rw [hchipR]; exact hrx)
  refine ⟨cbs1, bus1, cbs2, bus2, hobs1, hobs2, ?_, ?_⟩
  · rw [hev2, hev1, hchipR]
  · have := congrArg List.length hev1
    simpa using this

end Sx
