import Sx.Lemmas.ToolParser
import Sx.Lemmas.WpLib
/-
  C20 — register dump and the debug_registers decoder.

  * the dump: `sx127x_dump_registers` is one raw burst read of 0x70 bytes from address 1 (no
    cache, no FIFO access), and what it returns is the chip's content of every register;
  * the tool's argument parser (model in Sx/Model/DebugTool.lean, compared with the real
    `at_util_string2hex` on generated strings under ASan): no argument string makes a store leave
    the allocation, and a dump printed in the README's format is read back value by value, the
    last one included;
  * `main` calls a decoder only with at least `toolMinValues` values, and every index the decoders
    use is below that (facts regenerated from debug_registers/main.c on every run).
  That the decoders print the right names for the values is decided by running the real tool on
  real dumps and comparing with what was configured (props.py, c20) — not by a theorem.
-/
namespace Sx.Tool

/-- **memory safety of the argument parser**: for every argument string, no store leaves the
    allocation -/
theorem parse_never_oob (s : List Char) : parse s ≠ .oob :=
  scan_no_oob _ s 0 false [] (by simp; omega)

theorem parse_render (bs : List UInt8) : parse (render bs) = .ok bs := by
  cases bs with
  | nil => simp [parse, render, scan]
  | cons b r =>
    unfold parse
    rw [scan_render _ (b :: r) [] (by simp) (by rw [count_render]; simp; omega)]
    simp

/-- `main` never continues after an out-of-bounds store, because there is none -/
theorem toolMain_never_ub (arg : List Char) : toolMain arg ≠ .ub := by
  unfold toolMain
  have := parse_never_oob arg
  cases h : parse arg with
  | invalid => simp
  | oob => exact absurd h this
  | ok regs => simp only; split <;> (try split) <;> simp

/-- the decoders are only called with every register they index present: obligation on the facts
    regenerated from debug_registers/main.c (all subscripts are literals, the largest is below the
    number of values `main` insists on) -/
theorem decoders_index_inside_the_dump : Gen.toolIndicesLiteral = true ∧ Gen.toolMaxIndex < Gen.toolMinValues := by
  decide

theorem toolMain_decodes_only_full_dumps (arg : List Char) (regs : List UInt8)
    (h : toolMain arg = .lora regs ∨ toolMain arg = .fsk regs) : Gen.toolMaxIndex < regs.length := by
  have hidx := decoders_index_inside_the_dump.2
  unfold toolMain at h
  cases hp : parse arg with
  | invalid => rw [hp] at h; simp at h
  | oob => rw [hp] at h; simp at h
  | ok r =>
    rw [hp] at h
    simp only at h
    by_cases hl : r.length < Gen.toolMinValues
    · rw [if_pos hl] at h; simp at h
    · rw [if_neg hl] at h
      have : r = regs := by
        rcases h with h | h <;> (split at h <;> first | (cases h; rfl) | (cases h))
      subst this
      omega

/-- **C20, tool.** A dump of all 0x71 registers printed as the README prescribes (`0x%02x`, comma
    separated) reaches the decoder of the modulation selected by bit 7 of RegOpMode, with every
    value as dumped — the last one included. -/
theorem C20_tool_reads_a_printed_dump (regs : List UInt8) (hlen : regs.length = 0x71) :
    toolMain (render regs) = (if regs.getD 1 0 &&& 0x80 = 0x80 then .lora regs else .fsk regs) := by
  unfold toolMain
  rw [parse_render]
  simp only
  have : ¬regs.length < Gen.toolMinValues := by rw [hlen]; decide
  rw [if_neg this]

end Sx.Tool

namespace Sx
open Sx.Model DM Mem Chip

/-- **C20, dump (shape).** `sx127x_dump_registers` is exactly one request: a raw (not cached)
    burst read of 0x70 bytes starting at address 1; its result is 0 followed by those bytes. -/
theorem C20_dump_is_one_raw_burst (h : Handle) :
    dumpRegisters h = .rawbread 0x01 0x70 (fun r => match r with
      | .ok data => .ret (.ok (0 :: data), h)
      | .error c => .ret (.error c, h)) := by
  unfold dumpRegisters
  show Prog.rawbread 1 (Gen.MAX_NUMBER_OF_REGISTERS - 1) _ = _
  congr 1
  funext r
  cases r <;> rfl

/-- **C20, dump (content).** Under plain execution the dump is 0 followed by the chip's content of
    every register 0x01..0x70 in the selected page, and the chip is left exactly as it was. -/
theorem C20_dump_is_the_chip (h : Handle) (c : Chip) :
    wp dumpRegisters h ⟨c, [], []⟩ (fun r h' s' =>
      r = .ok (0 :: (List.range 0x70).map (fun i => c.peek (1 + i))) ∧ h' = h ∧ s'.chip = c) := by
  unfold dumpRegisters
  rw [wp_bind, wp_rawbread]
  have : c.readN 1 (Gen.MAX_NUMBER_OF_REGISTERS - 1) = ((List.range 0x70).map (fun i => c.peek (1 + i)), c) :=
    readN_pure c 1 0x70 (by decide) (by decide)
  simp only [this, wp_pure]
  exact ⟨trivial, trivial, trivial⟩

end Sx
