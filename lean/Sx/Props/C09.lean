import Sx.Lemmas.Cells
/-
  C09 — each configuration call changes exactly its own fields, to datasheet encoding.
-/
namespace Sx
open Mem Chip Sx.Model DM

attribute [local irreducible] DM.rread DM.sread DM.swrite DM.bwrite DM.bread DM.rawbread DM.cb DM.modH DM.setH
  DM.getH DM.fail DM.ub DM.attempt DM.pure' DM.bind' DM.ofExcept appendRegister wp Chip.setCell Chip.cell Chip.plain

/-- what a successful configuration call must leave behind: return OK, the handle `h'`, and the
    chip with exactly the listed bit fields updated -/
def Configures (x : DM Unit) (h : Handle) (c : Chip) (h' : Handle) (fs : List Field) : Prop :=
  wp x h ⟨c, [], []⟩ (fun r hh s' => r = .ok () ∧ hh = h' ∧ s'.chip = c.setFields fs)

/-- the modulation the handle holds and the register page the chip has selected agree -/
structure FskSide (h : Handle) (c : Chip) : Prop where
  modem : h.activeModem = Gen.SX127x_MODULATION_FSK ∨ h.activeModem = Gen.SX127x_MODULATION_OOK
  page : c.isLora = false

structure LoraSide (h : Handle) (c : Chip) : Prop where
  modem : h.activeModem = Gen.SX127x_MODULATION_LORA
  page : c.isLora = true

theorem FskSide.gate {h : Handle} {c : Chip} (s : FskSide h c) :
    ¬(h.activeModem ≠ Gen.SX127x_MODULATION_FSK ∧ h.activeModem ≠ Gen.SX127x_MODULATION_OOK) := by
  rcases s.modem with e | e <;> simp [e]

macro "c09_fsk" s:ident : tactic => `(tactic| (
  have hgate := FskSide.gate $s
  have hl := FskSide.page $s
  simp only [wp_bind, wp_checkFskOok, if_neg hgate]
  c09_run
  refine ⟨rfl, rfl, ?_⟩
  c09_fields))

theorem LoraSide.gate {h : Handle} {c : Chip} (s : LoraSide h c) : h.activeModem = Gen.SX127x_MODULATION_LORA := s.modem

macro "c09_lora" s:ident : tactic => `(tactic| (
  have hgate := LoraSide.gate $s
  have hl := LoraSide.page $s
  simp only [wp_bind, wp_checkModulation]
  rw [if_neg (fun hn => hn hgate)]
  c09_run
  refine ⟨rfl, rfl, ?_⟩
  c09_fields))

/-! ## FSK/OOK page -/

theorem C09_fsk_ook_set_crc (crc : Nat) (h : Handle) (c : Chip) (s : FskSide h c) :
    Configures (fskOokSetCrc crc) h c { h with crcType := crc } [⟨0x30, 0x19, u8 crc⟩] := by
  unfold Configures fskOokSetCrc
  c09_fsk s

theorem C09_fsk_ook_set_packet_encoding (e : Nat) (h : Handle) (c : Chip) (s : FskSide h c) :
    Configures (fskOokSetPacketEncoding e) h c h [⟨0x30, 0x60, u8 e⟩] := by
  unfold Configures fskOokSetPacketEncoding
  c09_fsk s

theorem C09_fsk_ook_rx_set_collision_restart (e : Bool) (thr : UInt8) (h : Handle) (c : Chip) (s : FskSide h c) :
    Configures (fskOokRxSetCollisionRestart e thr) h c h [⟨0x0f, 0xff, thr⟩, ⟨0x0d, 0x80, sel e 0x80 0x00⟩] := by
  unfold Configures fskOokRxSetCollisionRestart
  c09_fsk s

theorem C09_fsk_ook_rx_set_afc_auto (a : Bool) (h : Handle) (c : Chip) (s : FskSide h c) :
    Configures (fskOokRxSetAfcAuto a) h c h [⟨0x0d, 0x10, sel a 0x10 0x00⟩] := by
  unfold Configures fskOokRxSetAfcAuto
  c09_fsk s

theorem C09_fsk_ook_rx_set_trigger (t : Nat) (h : Handle) (c : Chip) (s : FskSide h c) :
    Configures (fskOokRxSetTrigger t) h c h [⟨0x0d, 0x07, u8 t⟩] := by
  unfold Configures fskOokRxSetTrigger
  c09_fsk s

theorem C09_fsk_ook_rx_set_afc_bandwidth (bw : F) (h : Handle) (c : Chip) (s : FskSide h c) :
    Configures (fskOokRxSetAfcBandwidth bw) h c h [⟨0x13, 0xff, calculateBwRegister bw⟩] := by
  unfold Configures fskOokRxSetAfcBandwidth
  c09_fsk s

theorem C09_fsk_ook_rx_set_bandwidth (bw : F) (h : Handle) (c : Chip) (s : FskSide h c) :
    Configures (fskOokRxSetBandwidth bw) h c h [⟨0x12, 0xff, calculateBwRegister bw⟩] := by
  unfold Configures fskOokRxSetBandwidth
  c09_fsk s

theorem C09_fsk_ook_set_preamble_type (t : Nat) (h : Handle) (c : Chip) (s : FskSide h c) :
    Configures (fskOokSetPreambleType t) h c h [⟨0x27, 0x20, u8 t⟩] := by
  unfold Configures fskOokSetPreambleType
  c09_fsk s

theorem C09_fsk_ook_set_temp_monitor (e : Bool) (h : Handle) (c : Chip) (s : FskSide h c) :
    Configures (fskOokSetTempMonitor e) h c h [⟨0x3b, 0x01, sel e 0x00 0x01⟩] := by
  unfold Configures fskOokSetTempMonitor
  c09_fsk s

theorem C09_fsk_ook_set_packet_encoding_and_crc_share_a_register : (0x60 : UInt8) &&& 0x19 = 0 := by decide

theorem C09_fsk_ook_rx_set_rssi_config (sm : Nat) (off : Int) (hoff : ¬(off < -16 ∨ off > 15)) (h : Handle) (c : Chip)
    (s : FskSide h c) :
    Configures (fskOokRxSetRssiConfig sm off) h c h
      [⟨0x0e, 0xff, ((UInt8.ofNat (off % 256).toNat) <<< 3) ||| u8 sm⟩] := by
  unfold Configures fskOokRxSetRssiConfig
  have hgate := s.gate
  have hl := s.page
  simp only [wp_bind, wp_checkFskOok, if_neg hgate]
  rw [wp_ite, if_neg hoff]
  c09_run
  refine ⟨rfl, rfl, ?_⟩
  c09_fields

theorem C09_fsk_ook_rx_set_preamble_detector (e : Bool) (size tol : UInt8) (hs : ¬(size > 3 ∨ size < 1)) (h : Handle)
    (c : Chip) (s : FskSide h c) :
    Configures (fskOokRxSetPreambleDetector e size tol) h c h
      [⟨0x1f, 0xff, sel e 0x80 0x00 ||| ((size - 1) <<< 5) ||| (tol &&& 0x1f)⟩] := by
  unfold Configures fskOokRxSetPreambleDetector
  have hgate := s.gate
  have hl := s.page
  simp only [wp_bind, wp_checkFskOok, if_neg hgate]
  rw [wp_ite, if_neg hs]
  c09_run
  refine ⟨rfl, rfl, ?_⟩
  c09_fields

theorem C09_fsk_ook_set_packet_format (fmt : Nat) (len : UInt16)
    (hv : ¬(fmt = Gen.SX127X_FIXED ∧ (len.toNat = 0 ∨ len.toNat > Gen.MAX_PACKET_SIZE_FSK_FIXED)))
    (hv2 : ¬(fmt = Gen.SX127X_VARIABLE ∧ (len.toNat = 0 ∨ (len.toNat > Gen.MAX_PACKET_SIZE ∧ len.toNat ≠ Gen.MAX_PACKET_SIZE_FSK_FIXED))))
    (h : Handle) (c : Chip) (s : FskSide h c) :
    Configures (fskOokSetPacketFormat fmt len) h c { h with format := fmt }
      [⟨0x31, 0x07, u8 ((len.toNat / 256) % 8)⟩, ⟨0x32, 0xff, u8 len.toNat⟩, ⟨0x30, 0x80, u8 fmt⟩] := by
  unfold Configures fskOokSetPacketFormat
  have hgate := s.gate
  have hl := s.page
  simp only [wp_bind, wp_checkFskOok, if_neg hgate]
  rw [wp_ite, if_neg hv, wp_ite, if_neg hv2]
  c09_run
  refine ⟨rfl, rfl, ?_⟩
  c09_fields

/-- address filtering: the node and broadcast address registers are written only for the modes
    that use them -/
theorem C09_fsk_ook_set_address_filtering (t : Nat) (node bcast : UInt8) (h : Handle) (c : Chip) (s : FskSide h c) :
    Configures (fskOokSetAddressFiltering t node bcast) h c h
      ((if t = Gen.SX127X_FILTER_NODE_AND_BROADCAST then [⟨0x34, 0xff, bcast⟩] else []) ++
       (if t = Gen.SX127X_FILTER_NODE_AND_BROADCAST ∨ t = Gen.SX127X_FILTER_NODE_ADDRESS then [⟨0x33, 0xff, node⟩] else []) ++
       [⟨0x30, 0x06, u8 t⟩]) := by
  unfold Configures fskOokSetAddressFiltering
  have hgate := s.gate
  have hl := s.page
  simp only [wp_bind, wp_checkFskOok, if_neg hgate]
  by_cases h1 : t = Gen.SX127X_FILTER_NODE_AND_BROADCAST
  · have h2 : t = Gen.SX127X_FILTER_NODE_AND_BROADCAST ∨ t = Gen.SX127X_FILTER_NODE_ADDRESS := Or.inl h1
    rw [wp_ite, if_pos h1]
    c09_run
    rw [wp_ite, if_pos h2]
    c09_run
    refine ⟨rfl, rfl, ?_⟩
    simp only [if_pos h1, if_pos h2, List.cons_append, List.nil_append]
    c09_fields
  · rw [wp_ite, if_neg h1]
    c09_run
    by_cases h2 : t = Gen.SX127X_FILTER_NODE_AND_BROADCAST ∨ t = Gen.SX127X_FILTER_NODE_ADDRESS
    · rw [wp_ite, if_pos h2]
      c09_run
      refine ⟨rfl, rfl, ?_⟩
      simp only [if_neg h1, if_pos h2, List.cons_append, List.nil_append]
      c09_fields
    · rw [wp_ite, if_neg h2]
      c09_run
      refine ⟨rfl, rfl, ?_⟩
      simp only [if_neg h1, if_neg h2, List.nil_append]
      c09_fields

/-- `sx127x_fsk_ook_set_syncword`: every sync word of 1..8 non-zero bytes; the size field, the
    sync-on bit and auto-restart mode of RegSyncConfig and the first `n` sync value registers -/
theorem C09_fsk_ook_set_syncword (sw : List UInt8) (hlen : ¬(sw.length = 0 ∨ sw.length > 8))
    (hnz : sw.any (· = 0) = false) (h : Handle) (c : Chip) (s : FskSide h c) :
    Configures (fskOokSetSyncword sw) h c h (⟨0x27, 0xd7, 0x50 ||| u8 (sw.length - 1)⟩ :: regFields 0x28 sw) := by
  unfold Configures fskOokSetSyncword
  have hgate := FskSide.gate s
  have hl := FskSide.page s
  simp only [wp_bind, wp_checkFskOok, if_neg hgate]
  rw [wp_ite, if_neg hlen, wp_ite, hnz]
  rw [if_neg (by decide), wp_bind, wp_appendRegister_plain]
  case hp => plain_tac
  dsimp only
  rw [wp_bwrite]
  refine ⟨rfl, rfl, ?_⟩
  show Chip.writeN _ Gen.REGSYNCVALUE1 sw = _
  rw [writeN_regFields]
  · simp only [Chip.setFields, List.foldl, Chip.setField]
    have : (40 : UInt8) = ~~~215 := by decide
    rw [this]
  · intro i hi
    refine plain_set _ _ _ _ (by decide) ?_
    exact plain_fsk _ hl _ (by unfold Gen.REGSYNCVALUE1; omega)

example : regFields 0x28 [0x12, 0xad] = [⟨0x28, 0xff, 0x12⟩, ⟨0x29, 0xff, 0xad⟩] := rfl

/-! ## OOK demodulator -/

structure OokSide (h : Handle) (c : Chip) : Prop where
  modem : h.activeModem = Gen.SX127x_MODULATION_OOK
  page : c.isLora = false

macro "c09_ook" s:ident : tactic => `(tactic| (
  have hgate := OokSide.modem $s
  have hl := OokSide.page $s
  simp only [wp_bind, wp_checkModulation]
  rw [if_neg (fun hn => hn hgate)]
  c09_run
  refine ⟨rfl, rfl, ?_⟩
  c09_fields))

theorem C09_ook_rx_set_peak_mode (step : Nat) (floor : UInt8) (dec : Nat) (h : Handle) (c : Chip) (s : OokSide h c) :
    Configures (ookRxSetPeakMode step floor dec) h c h
      [⟨0x15, 0xff, floor⟩, ⟨0x16, 0xe0, u8 dec⟩, ⟨0x14, 0x1f, u8 (0x08 ||| step)⟩] := by
  unfold Configures ookRxSetPeakMode
  c09_ook s

theorem C09_ook_rx_set_fixed_mode (thr : UInt8) (h : Handle) (c : Chip) (s : OokSide h c) :
    Configures (ookRxSetFixedMode thr) h c h [⟨0x15, 0xff, thr⟩, ⟨0x14, 0x18, 0x00⟩] := by
  unfold Configures ookRxSetFixedMode
  c09_ook s

theorem C09_ook_rx_set_avg_mode (off thr : Nat) (h : Handle) (c : Chip) (s : OokSide h c) :
    Configures (ookRxSetAvgMode off thr) h c h [⟨0x16, 0x0f, u8 (off ||| thr)⟩, ⟨0x14, 0x18, 0x10⟩] := by
  unfold Configures ookRxSetAvgMode
  c09_ook s

theorem C09_ook_set_data_shaping (sh ramp : Nat) (h : Handle) (c : Chip) (s : OokSide h c) :
    Configures (ookSetDataShaping sh ramp) h c h [⟨0x0a, 0xff, u8 (sh ||| ramp)⟩] := by
  unfold Configures ookSetDataShaping
  c09_ook s

/-! ## LoRa page -/

theorem C09_lora_set_syncword (v : UInt8) (h : Handle) (c : Chip) (s : LoraSide h c) :
    Configures (loraSetSyncword v) h c h [⟨0x39, 0xff, v⟩] := by
  unfold Configures loraSetSyncword
  c09_lora s

theorem C09_lora_reset_fifo (h : Handle) (c : Chip) (s : LoraSide h c) :
    Configures loraResetFifo h c h [⟨0x0e, 0xff, 0x00⟩, ⟨0x0f, 0xff, 0x00⟩] := by
  unfold Configures loraResetFifo
  c09_lora s

theorem C09_lora_set_low_datarate_optimization (e : Bool) (h : Handle) (c : Chip) (s : LoraSide h c) :
    Configures (loraSetLowDatarateOptimization e) h c h [⟨0x26, 0x08, sel e 0x08 0x00⟩] := by
  unfold Configures loraSetLowDatarateOptimization
  c09_lora s

theorem C09_lora_set_implicit_header (len : UInt8) (crc : Bool) (cr : Nat) (h : Handle) (c : Chip) (s : LoraSide h c) :
    Configures (loraSetImplicitHeader (some (len, crc, cr))) h c { h with expected := len.toUInt16, implicitHeader := true }
      [⟨0x1d, 0x0f, u8 (0x01 ||| cr)⟩, ⟨0x22, 0xff, len⟩, ⟨0x1e, 0x04, sel crc 0x04 0x00⟩] := by
  unfold Configures loraSetImplicitHeader
  c09_lora s

theorem C09_lora_set_explicit_header (h : Handle) (c : Chip) (s : LoraSide h c) :
    Configures (loraSetImplicitHeader none) h c { h with expected := 0, implicitHeader := false } [⟨0x1d, 0x01, 0x00⟩] := by
  unfold Configures loraSetImplicitHeader
  c09_lora s

theorem C09_lora_tx_set_explicit_header (crc : Bool) (cr : Nat) (h : Handle) (c : Chip) (s : LoraSide h c) :
    Configures (loraTxSetExplicitHeader (some (crc, cr))) h c { h with implicitHeader := false, expected := 0 }
      [⟨0x1d, 0x0f, u8 (cr ||| 0x00)⟩, ⟨0x1e, 0x04, sel crc 0x04 0x00⟩] := by
  unfold Configures loraTxSetExplicitHeader
  c09_lora s

theorem C09_lora_set_frequency_hopping (period : UInt8) (l : List UInt64) (len : UInt8) (hlen : len ≠ 0) (h : Handle)
    (c : Chip) (s : LoraSide h c) :
    Configures (loraSetFrequencyHopping period (some l) len) h c { h with freqs := some l, freqLen := len }
      [⟨0x24, 0xff, period⟩] := by
  unfold Configures loraSetFrequencyHopping
  have hgate := s.gate
  have hl := s.page
  simp only [wp_bind, wp_checkModulation]
  rw [if_neg (fun hn => hn hgate), wp_ite, if_neg hlen]
  c09_run
  refine ⟨rfl, rfl, ?_⟩
  c09_fields

/-! ## registers shared by both pages, and calls that dispatch on the modulation -/

theorem C09_rx_set_lna_boost_hf (e : Bool) (h : Handle) (c : Chip) :
    Configures (rxSetLnaBoostHf e) h c h [⟨0x0c, 0x03, sel e 0x03 0x00⟩] := by
  unfold Configures rxSetLnaBoostHf
  c09_run
  refine ⟨rfl, rfl, ?_⟩
  c09_fields

theorem C09_set_preamble_length_lora (v : UInt16) (h : Handle) (c : Chip) (s : LoraSide h c) :
    Configures (setPreambleLength v) h c h [⟨0x20, 0xff, (v >>> 8).toUInt8⟩, ⟨0x21, 0xff, v.toUInt8⟩] := by
  unfold Configures setPreambleLength
  have hgate := s.gate
  have hl := s.page
  simp only [wp_bind, wp_getH]
  rw [wp_ite, if_pos hgate]
  c09_run
  refine ⟨rfl, rfl, ?_⟩
  c09_fields

theorem C09_set_preamble_length_fsk (v : UInt16) (h : Handle) (c : Chip) (s : FskSide h c) :
    Configures (setPreambleLength v) h c h [⟨0x25, 0xff, (v >>> 8).toUInt8⟩, ⟨0x26, 0xff, v.toUInt8⟩] := by
  unfold Configures setPreambleLength
  have hl := s.page
  have hnl : ¬h.activeModem = Gen.SX127x_MODULATION_LORA := by
    rcases s.modem with e | e <;> rw [e] <;> decide
  simp only [wp_bind, wp_getH]
  rw [wp_ite, if_neg hnl, wp_ite, if_pos s.modem]
  c09_run
  refine ⟨rfl, rfl, ?_⟩
  c09_fields

theorem C09_rx_set_lna_gain_lora_auto (h : Handle) (c : Chip) (s : LoraSide h c) :
    Configures (rxSetLnaGain Gen.SX127x_LNA_GAIN_AUTO) h c h [⟨0x26, 0x04, 0x04⟩] := by
  unfold Configures rxSetLnaGain
  have hgate := s.gate
  have hl := s.page
  simp only [wp_bind, wp_getH]
  rw [wp_ite, if_pos hgate, wp_ite, if_pos (by first | trivial | rfl | decide)]
  c09_run
  refine ⟨rfl, rfl, ?_⟩
  c09_fields

theorem C09_rx_set_lna_gain_lora (g : Nat) (hg : g ≠ Gen.SX127x_LNA_GAIN_AUTO) (h : Handle) (c : Chip) (s : LoraSide h c) :
    Configures (rxSetLnaGain g) h c h [⟨0x26, 0x04, 0x00⟩, ⟨0x0c, 0xe0, u8 g⟩] := by
  unfold Configures rxSetLnaGain
  have hgate := s.gate
  have hl := s.page
  simp only [wp_bind, wp_getH]
  rw [wp_ite, if_pos hgate, wp_ite, if_neg hg]
  c09_run
  refine ⟨rfl, rfl, ?_⟩
  c09_fields

theorem C09_rx_set_lna_gain_fsk_auto (h : Handle) (c : Chip) (s : FskSide h c) :
    Configures (rxSetLnaGain Gen.SX127x_LNA_GAIN_AUTO) h c h [⟨0x0d, 0x08, 0x08⟩] := by
  unfold Configures rxSetLnaGain
  have hl := s.page
  have hnl : ¬h.activeModem = Gen.SX127x_MODULATION_LORA := by
    rcases s.modem with e | e <;> rw [e] <;> decide
  simp only [wp_bind, wp_getH]
  rw [wp_ite, if_neg hnl, wp_ite, if_pos s.modem, wp_ite, if_pos (by first | trivial | rfl | decide)]
  c09_run
  refine ⟨rfl, rfl, ?_⟩
  c09_fields

theorem C09_rx_set_lna_gain_fsk (g : Nat) (hg : g ≠ Gen.SX127x_LNA_GAIN_AUTO) (h : Handle) (c : Chip) (s : FskSide h c) :
    Configures (rxSetLnaGain g) h c h [⟨0x0d, 0x08, 0x00⟩, ⟨0x0c, 0xe0, u8 g⟩] := by
  unfold Configures rxSetLnaGain
  have hl := s.page
  have hnl : ¬h.activeModem = Gen.SX127x_MODULATION_LORA := by
    rcases s.modem with e | e <;> rw [e] <;> decide
  simp only [wp_bind, wp_getH]
  rw [wp_ite, if_neg hnl, wp_ite, if_pos s.modem, wp_ite, if_neg hg]
  c09_run
  refine ⟨rfl, rfl, ?_⟩
  c09_fields

/-- over-current protection: RegOcp is written as a whole (OcpOn and OcpTrim; bits 7-6 unused) -/
theorem C09_tx_set_ocp_off (ma : UInt8) (hma : ¬ma < 45) (h : Handle) (c : Chip) :
    Configures (txSetOcp false ma) h c h [⟨0x0b, 0xff, 0x00⟩] := by
  unfold Configures txSetOcp
  rw [wp_ite, if_neg hma, wp_ite, if_pos (by first | trivial | rfl | decide)]
  c09_run
  refine ⟨rfl, rfl, ?_⟩
  c09_fields

/-- the datasheet's OcpTrim encoding: 45..120 mA in 5 mA steps, 130..240 mA in 10 mA steps -/
def ocpTrim (ma : UInt8) : UInt8 :=
  if ma ≤ 120 then (ma - 45) / 5 else if ma ≤ 240 then u8 ((ma.toNat + 30) / 10) else 27

theorem C09_tx_set_ocp_on (ma : UInt8) (hma : ¬ma < 45) (h : Handle) (c : Chip) :
    Configures (txSetOcp true ma) h c h [⟨0x0b, 0xff, ocpTrim ma ||| 0x20⟩] := by
  unfold Configures txSetOcp
  rw [wp_ite, if_neg hma, wp_ite, if_neg (by first | (intro e; cases e) | decide)]
  dsimp only
  c09_run
  refine ⟨rfl, rfl, ?_⟩
  c09_fields

theorem C09_fsk_set_data_shaping (sh ramp : Nat) (h : Handle) (c : Chip)
    (hm : h.activeModem = Gen.SX127x_MODULATION_FSK) (hl : c.isLora = false) :
    Configures (fskSetDataShaping sh ramp) h c h [⟨0x0a, 0xff, u8 (sh ||| ramp)⟩] := by
  unfold Configures fskSetDataShaping
  simp only [wp_bind, wp_checkModulation]
  rw [if_neg (fun hn => hn hm)]
  c09_run
  refine ⟨rfl, rfl, ?_⟩
  c09_fields

theorem C09_fsk_set_fdev (fdev : F) (hv : ¬¬(F.le (F.fin 600) fdev ∧ F.le fdev (F.fin 200000))) (v : Nat)
    (hval : fdevValue fdev = some v) (h : Handle) (c : Chip)
    (hm : h.activeModem = Gen.SX127x_MODULATION_FSK) (hl : c.isLora = false) :
    Configures (fskSetFdev fdev) h c h [⟨0x04, 0xff, u8 (v / 256)⟩, ⟨0x05, 0xff, u8 v⟩] := by
  unfold Configures fskSetFdev
  simp only [wp_bind, wp_checkModulation]
  rw [if_neg (fun hn => hn hm), wp_ite, if_neg hv]
  simp only [hval]
  c09_run
  refine ⟨rfl, rfl, ?_⟩
  c09_fields

theorem C09_set_frequency (f : UInt64) (d0 d1 d2 : UInt8) (hval : frfOf f = some [d0, d1, d2]) (h : Handle) (c : Chip) :
    Configures (setFrequency f) h c h [⟨0x06, 0xff, d0⟩, ⟨0x07, 0xff, d1⟩, ⟨0x08, 0xff, d2⟩] := by
  unfold Configures setFrequency
  simp only [hval]
  c09_run
  refine ⟨rfl, rfl, ?_⟩
  c09_fields

theorem C09_fsk_ook_set_bitrate_fsk (b : F) (hv : ¬¬(F.le (F.fin 1200) b ∧ F.le b (F.fin 300000))) (v : Nat)
    (hval : fskBitrateValue b = some v) (h : Handle) (c : Chip)
    (hm : h.activeModem = Gen.SX127x_MODULATION_FSK) (hl : c.isLora = false) :
    Configures (fskOokSetBitrate b) h c h
      [⟨0x02, 0xff, u8 (((v / 16) % 65536) / 256)⟩, ⟨0x03, 0xff, u8 ((v / 16) % 65536)⟩, ⟨0x5d, 0xff, u8 (v % 16)⟩] := by
  unfold Configures fskOokSetBitrate
  have hgate : ¬(h.activeModem ≠ Gen.SX127x_MODULATION_FSK ∧ h.activeModem ≠ Gen.SX127x_MODULATION_OOK) := by simp [hm]
  simp only [wp_bind, wp_checkFskOok, if_neg hgate, wp_getH]
  rw [wp_ite, if_pos hm, wp_ite, if_neg hv]
  simp only [hval]
  c09_run
  refine ⟨rfl, rfl, ?_⟩
  c09_fields

theorem C09_fsk_ook_set_bitrate_ook (b : F) (hv : ¬¬(F.le (F.fin 1200) b ∧ F.le b (F.fin 25000))) (v : Nat)
    (hval : ookBitrateValue b = some v) (h : Handle) (c : Chip)
    (hm : h.activeModem = Gen.SX127x_MODULATION_OOK) (hl : c.isLora = false) :
    Configures (fskOokSetBitrate b) h c h
      [⟨0x02, 0xff, u8 (v / 256)⟩, ⟨0x03, 0xff, u8 v⟩, ⟨0x5d, 0xff, 0x00⟩] := by
  unfold Configures fskOokSetBitrate
  have hgate : ¬(h.activeModem ≠ Gen.SX127x_MODULATION_FSK ∧ h.activeModem ≠ Gen.SX127x_MODULATION_OOK) := by simp [hm]
  have hnf : ¬h.activeModem = Gen.SX127x_MODULATION_FSK := by rw [hm]; decide
  simp only [wp_bind, wp_checkFskOok, if_neg hgate, wp_getH]
  rw [wp_ite, if_neg hnf, wp_ite, if_pos hm, wp_ite, if_neg hv]
  simp only [hval]
  c09_run
  refine ⟨rfl, rfl, ?_⟩
  c09_fields

/-- RegPaConfig as the datasheet encodes pin and power: PaSelect (bit 7), MaxPower (6-4), OutputPower (3-0) -/
def paConfigValue (pin : Nat) (power : Int) : UInt8 :=
  let byteOfInt (i : Int) : UInt8 := UInt8.ofNat (i % 256).toNat
  if pin = Gen.SX127x_PA_PIN_RFO then
    (if power < 0 then (u8 Gen.SX127x_LOW_POWER ||| byteOfInt (power + 4)) else (u8 Gen.SX127x_MAX_POWER ||| byteOfInt power))
      ||| u8 Gen.SX127x_PA_PIN_RFO
  else
    (if power = 20 then u8 Gen.SX127x_PA_PIN_BOOST ||| 0x0f else u8 Gen.SX127x_PA_PIN_BOOST ||| byteOfInt (power - 2))

/-- power amplifier: RegPaDac, RegOcp and RegPaConfig are each written as a whole -/
theorem C09_tx_set_pa_config (pin : Nat) (power : Int)
    (h1 : ¬(pin = Gen.SX127x_PA_PIN_RFO ∧ (power < -4 ∨ power > 15)))
    (h2 : ¬(pin = Gen.SX127x_PA_PIN_BOOST ∧ (power < 2 ∨ power > 20 ∨ power = 18 ∨ power = 19)))
    (h : Handle) (c : Chip) :
    Configures (txSetPaConfig pin power) h c h
      [⟨0x4d, 0xff, if pin = Gen.SX127x_PA_PIN_BOOST ∧ power = 20 then u8 Gen.SX127x_HIGH_POWER_ON else u8 Gen.SX127x_HIGH_POWER_OFF⟩,
       ⟨0x0b, 0xff, ocpTrim (if pin = Gen.SX127x_PA_PIN_BOOST then (if power = 20 then 120 else 87) else 45) ||| 0x20⟩,
       ⟨0x09, 0xff, paConfigValue pin power⟩] := by
  unfold Configures txSetPaConfig txSetOcp
  rw [wp_ite, if_neg h1, wp_ite, if_neg h2]
  dsimp only
  have hmc : ¬(if pin = Gen.SX127x_PA_PIN_BOOST then (if power = 20 then (120 : UInt8) else 87) else 45) < 45 := by
    split <;> (try split) <;> decide
  c09_run
  rw [wp_ite, if_neg hmc, wp_ite, if_neg (by first | (intro e; cases e) | decide)]
  c09_run
  refine ⟨rfl, rfl, ?_⟩
  c09_fields

/-! ## what `Configures` means for the bits of the chip -/

theorem and_not_ff (m : UInt8) : m &&& ~~~ (0xff : UInt8) = 0 := by
  have : ~~~ (0xff : UInt8) = 0 := by decide
  rw [this]; simp

/-- `sx127x_lora_set_ppm_offset`: for every frequency error whose correction is representable
    (the carrier read back from RegFrf, the float expression of the driver in range, its conversion
    `v`): RegPpmCorrection holds the two's-complement byte of `v`, nothing else changes -/
theorem C09_lora_set_ppm_offset (e : Int) (h : Handle) (c : Chip) (s : LoraSide h c) (fr : Nat)
    (hfr : freqOfRaw (be32 [c.cell 6, c.cell 7, c.cell 8]) = some fr)
    (hrange : (F.gt (ppmFloat e fr) (.fin (-129)) && F.lt (ppmFloat e fr) (.fin 128)) = true) (v : Int)
    (hv : F.toSInt 8 (ppmFloat e fr) = some v) :
    Configures (loraSetPpmOffset e) h c h [⟨0x27, 0xff, UInt8.ofNat (v % 256).toNat⟩] := by
  unfold Configures loraSetPpmOffset getFrequency
  have hgate := LoraSide.gate s
  have hl := LoraSide.page s
  simp only [wp_bind, wp_checkModulation]
  rw [if_neg (fun hn => hn hgate), wp_sread]
  have h3 : c.readN Gen.REGFRFMSB 3 = ([c.cell 6, c.cell 7, c.cell 8], c) :=
    readN_plain3 c 6 (by plain_tac) (by plain_tac) (by plain_tac)
  simp only [h3, hfr, wp_pure]
  rw [wp_ite, if_neg (by rw [hrange]; decide)]
  simp only [hv]
  c09_run
  refine ⟨rfl, rfl, ?_⟩
  c09_fields

/-- non-vacuity: at 868 MHz a measured error of 10 kHz satisfies the three hypotheses (correction 10) -/
example : freqOfRaw (be32 [0xd9, 0, 0]) = some 868000000
    ∧ (F.gt (ppmFloat 10000 868000000) (.fin (-129)) && F.lt (ppmFloat 10000 868000000) (.fin 128)) = true
    ∧ F.toSInt 8 (ppmFloat 10000 868000000) = some 10 := by decide +kernel

/-- `sx127x_fsk_ook_rx_calibrate` in standby with no calibration running: only ImageCalStart is
    set (the polling loop reads RegImageCal once and ends) -/
theorem C09_fsk_ook_rx_calibrate (fuel : Nat) (h : Handle) (c : Chip) (s : FskSide h c)
    (hst : h.opmod = Gen.SX127x_MODE_STANDBY) (hidle : c.cell 0x3b &&& 0x20 = 0) (wf : c.WF) :
    Configures (fskOokRxCalibrate (fuel + 1)) h c h [⟨0x3b, 0x40, 0x40⟩] := by
  unfold Configures fskOokRxCalibrate calibrateLoop
  have hgate := FskSide.gate s
  have hl := FskSide.page s
  simp only [wp_bind, wp_checkFskOok, if_neg hgate, wp_getH]
  rw [wp_ite, if_neg (fun hn => hn hst)]
  c09_run
  have hcell : (c.setCell Gen.REGIMAGECAL (c.cell Gen.REGIMAGECAL &&& 191 ||| 64)).cell Gen.REGIMAGECAL
      = c.cell Gen.REGIMAGECAL &&& 191 ||| 64 := cell_setCell_same c wf _ _ (by decide) (by decide)
  have hbv : ∀ b : BitVec 8, (⟨b⟩ : UInt8) &&& 32 = 0 → ¬(((⟨b⟩ : UInt8) &&& 191 ||| 64) &&& 32 = 32) := by decide +kernel
  have hbit : ∀ x : UInt8, x &&& 32 = 0 → ¬((x &&& 191 ||| 64) &&& 32 = 32) := fun x => hbv x.toBitVec
  rw [wp_ite, hcell, if_neg (hbit _ hidle), wp_pure]
  refine ⟨rfl, rfl, ?_⟩
  simp only [Chip.setFields, List.foldl, Chip.setField]
  have : (191 : UInt8) = ~~~64 := by decide
  rw [this]

/-- **C09, frame rule.** If a call configures the field list `fs` (each on a plain register, each
    value inside its field), then after the call: in every register, every bit outside the fields
    listed for that register has the value it had before (take `M = 0` for a register that is not
    listed); the page selection, the LoRa data buffer and the FIFO are unchanged. -/
theorem C09_frame {x : DM Unit} {h h' : Handle} {c : Chip} {fs : List Field} (hc : Configures x h c h' fs)
    (wf : c.WF) (hok : ∀ f ∈ fs, f.Ok c) :
    wp x h ⟨c, [], []⟩ (fun r hh s' => r = .ok () ∧ hh = h' ∧
      (∀ b M, (∀ f ∈ fs, f.reg = b → f.mask &&& ~~~ M = 0) → s'.chip.cell b &&& ~~~ M = c.cell b &&& ~~~ M) ∧
      s'.chip.isLora = c.isLora ∧ s'.chip.buf = c.buf ∧ s'.chip.fifo = c.fifo) := by
  refine wp_mono _ _ _ _ _ ?_ hc
  intro r hh s' ⟨e1, e2, e3⟩
  refine ⟨e1, e2, ?_, ?_, ?_, ?_⟩
  · intro b M hM; rw [e3]; exact (setFields_frame fs c wf hok b M hM).1
  · rw [e3]; exact (setFields_frame fs c wf hok 0 0xff (fun f _ _ => and_not_ff f.mask)).2.1
  · rw [e3]; exact (setFields_frame fs c wf hok 0 0xff (fun f _ _ => and_not_ff f.mask)).2.2.1
  · rw [e3]; exact (setFields_frame fs c wf hok 0 0xff (fun f _ _ => and_not_ff f.mask)).2.2.2.1

/-- and the field itself holds the value -/
theorem C09_single_field_value (c : Chip) (wf : c.WF) (f : Field) (hok : f.Ok c) :
    (c.setFields [f]).cell f.reg &&& f.mask = f.value := (setField_frame c wf f hok).2.1

/-- **C09, documented arguments fit their fields.** Every enumerator of the header, encoded as the
    driver encodes it, lies inside the field its setter owns (obligation on the regenerated
    enumerator lists, decided in the kernel), so `Field.Ok` holds for every documented argument. -/
theorem C09_enumerators_fit_their_fields :
    (∀ e ∈ Gen.enum_sx127x_crc_type_t, u8 e &&& ~~~ (0x19 : UInt8) = 0) ∧
    (∀ e ∈ Gen.enum_sx127x_packet_encoding_t, u8 e &&& ~~~ (0x60 : UInt8) = 0) ∧
    (∀ e ∈ Gen.enum_sx127x_rx_trigger_t, u8 e &&& ~~~ (0x07 : UInt8) = 0) ∧
    (∀ e ∈ Gen.enum_sx127x_preamble_type_t, u8 e &&& ~~~ (0x20 : UInt8) = 0) ∧
    (∀ e ∈ Gen.enum_sx127x_packet_format_t, u8 e &&& ~~~ (0x80 : UInt8) = 0) ∧
    (∀ e ∈ Gen.enum_sx127x_address_filtering_t, u8 e &&& ~~~ (0x06 : UInt8) = 0) ∧
    (∀ e ∈ Gen.enum_sx127x_gain_t, u8 e &&& ~~~ (0xe0 : UInt8) = 0) ∧
    (∀ e ∈ Gen.enum_sx127x_ook_peak_thresh_step_t, u8 (0x08 ||| e) &&& ~~~ (0x1f : UInt8) = 0) ∧
    (∀ e ∈ Gen.enum_sx127x_ook_peak_thresh_dec_t, u8 e &&& ~~~ (0xe0 : UInt8) = 0) ∧
    (∀ o ∈ Gen.enum_sx127x_ook_avg_offset_t, ∀ t ∈ Gen.enum_sx127x_ook_avg_thresh_t, u8 (o ||| t) &&& ~~~ (0x0f : UInt8) = 0) ∧
    (∀ e ∈ Gen.enum_sx127x_cr_t, u8 (0x01 ||| e) &&& ~~~ (0x0f : UInt8) = 0 ∧ u8 (e ||| 0x00) &&& ~~~ (0x0f : UInt8) = 0) ∧
    (∀ b : Bool, sel b 0x80 0x00 &&& ~~~ (0x80 : UInt8) = 0 ∧ sel b 0x10 0x00 &&& ~~~ (0x10 : UInt8) = 0 ∧
      sel b 0x08 0x00 &&& ~~~ (0x08 : UInt8) = 0 ∧ sel b 0x04 0x00 &&& ~~~ (0x04 : UInt8) = 0 ∧
      sel b 0x03 0x00 &&& ~~~ (0x03 : UInt8) = 0 ∧ sel b 0x00 0x01 &&& ~~~ (0x01 : UInt8) = 0) := by
  decide

/-- fields of different setters that share a register do not overlap -/
theorem C09_fields_sharing_a_register_are_disjoint :
    (0x19 : UInt8) &&& 0x60 = 0 ∧ (0x19 : UInt8) &&& 0x80 = 0 ∧ (0x19 : UInt8) &&& 0x06 = 0 ∧ (0x60 : UInt8) &&& 0x86 = 0 ∧
    (0x80 : UInt8) &&& 0x17 = 0 ∧ (0x10 : UInt8) &&& 0x0f = 0 ∧ (0x08 : UInt8) &&& 0x07 = 0 ∧
    (0xe0 : UInt8) &&& 0x0f = 0 ∧ (0x1f : UInt8) &&& 0x20 = 0 ∧ (0xe0 : UInt8) &&& 0x03 = 0 ∧
    (0x0f : UInt8) &&& 0xf0 = 0 ∧ (0x04 : UInt8) &&& 0xf0 = 0 ∧ (0x08 : UInt8) &&& 0x04 = 0 := by decide

/-- non-vacuity: the power-on chip with an FSK handle is on the FSK side and its RegPacketConfig1 is plain -/
example : FskSide { activeModem := Gen.SX127x_MODULATION_FSK } Chip.init ∧
    Field.Ok Chip.init ⟨0x30, 0x19, u8 Gen.SX127X_CRC_CCITT⟩ := by
  refine ⟨⟨Or.inl rfl, by decide⟩, ?_, by decide⟩
  exact plain_fsk _ (by decide) _ (by decide)

/-! ### the constants of the header are the datasheet's

The theorems above are generic in the constants regenerated from `include/*.h`: a setter is
proved to store *its argument* in *its register*.  That the named register is the datasheet's
address and the named enumerator the datasheet's encoding is a separate obligation, stated here
with literals: the register addresses the model uses, and every enumerator a caller can pass to a
configuration function (bandwidths and spreading factors: C13; the DIO mappings: C15). -/

/-- register addresses (datasheet tables 41 and 42) -/
theorem C09_register_map_is_datasheet :
    Gen.REGFIFO = 0x00 ∧
    Gen.REGOPMODE = 0x01 ∧
    Gen.REGBITRATEMSB = 0x02 ∧
    Gen.REGFDEVMSB = 0x04 ∧
    Gen.REGFRFMSB = 0x06 ∧
    Gen.REGPACONFIG = 0x09 ∧
    Gen.REGPARAMP = 0x0a ∧
    Gen.REGOCP = 0x0b ∧
    Gen.REGLNA = 0x0c ∧
    Gen.REGFIFOADDRPTR = 0x0d ∧
    Gen.REGRXCONFIG = 0x0d ∧
    Gen.REGFIFOTXBASEADDR = 0x0e ∧
    Gen.REGRSSICONFIG = 0x0e ∧
    Gen.REGRSSICOLLISION = 0x0f ∧
    Gen.REGFIFORXCURRENTADDR = 0x10 ∧
    Gen.REGRSSIVALUE_FSK = 0x11 ∧
    Gen.REGIRQFLAGS = 0x12 ∧
    Gen.REGRXBW = 0x12 ∧
    Gen.REGAFCBW = 0x13 ∧
    Gen.REGRXNBBYTES = 0x13 ∧
    Gen.REGOOKPEAK = 0x14 ∧
    Gen.REGOOKFIX = 0x15 ∧
    Gen.REGOOKAVG = 0x16 ∧
    Gen.REGPKTSNRVALUE = 0x19 ∧
    Gen.REGPKTRSSIVALUE = 0x1a ∧
    Gen.REGAFCMSB = 0x1b ∧
    Gen.REGMODEMCONFIG1 = 0x1d ∧
    Gen.REGMODEMCONFIG2 = 0x1e ∧
    Gen.REGPREAMBLEDETECT = 0x1f ∧
    Gen.REGPREAMBLEMSB = 0x20 ∧
    Gen.REGPAYLOADLENGTH = 0x22 ∧
    Gen.REGHOPPERIOD = 0x24 ∧
    Gen.REGPREAMBLEMSB_FSK = 0x25 ∧
    Gen.REGMODEMCONFIG3 = 0x26 ∧
    Gen.REGSYNCCONFIG = 0x27 ∧
    Gen.REGFEIMSB = 0x28 ∧
    Gen.REGSYNCVALUE1 = 0x28 ∧
    Gen.REGPACKETCONFIG1 = 0x30 ∧
    Gen.REGDETECTOPTIMIZE = 0x31 ∧
    Gen.REGPACKETCONFIG2 = 0x31 ∧
    Gen.REGPAYLOADLENGTH_FSK = 0x32 ∧
    Gen.REGNODEADRS = 0x33 ∧
    Gen.REGBROADCASTADRS = 0x34 ∧
    Gen.REGFIFOTHRESH = 0x35 ∧
    Gen.REGSEQCONFIG1 = 0x36 ∧
    Gen.REGDETECTIONTHRESHOLD = 0x37 ∧
    Gen.REGTIMERRESOL = 0x38 ∧
    Gen.REGSYNCWORD = 0x39 ∧
    Gen.REGTIMER1COEF = 0x39 ∧
    Gen.REGTIMER2COEF = 0x3a ∧
    Gen.REGIMAGECAL = 0x3b ∧
    Gen.REGTEMP = 0x3c ∧
    Gen.REGIRQFLAGS1 = 0x3e ∧
    Gen.REGIRQFLAGS2 = 0x3f ∧
    Gen.REGDIOMAPPING1 = 0x40 ∧
    Gen.REGDIOMAPPING2 = 0x41 ∧
    Gen.REGVERSION = 0x42 ∧
    Gen.REGPADAC = 0x4d ∧
    Gen.REGBITRATEFRAC = 0x5d := by
  decide

/-- enumerator values of the public header, type by type, in declaration order -/
theorem C09_enumerators_are_datasheet :
    Gen.enum_sx127x_mode_t = [0x00, 0x01, 0x02, 0x03, 0x04, 0x05, 0x06, 0x07] ∧
    Gen.enum_sx127x_modulation_t = [0x80, 0x00, 0x20] ∧
    Gen.enum_sx127x_ook_peak_thresh_step_t = [0x00, 0x01, 0x02, 0x03, 0x04, 0x05, 0x06, 0x07] ∧
    Gen.enum_sx127x_ook_avg_offset_t = [0x00, 0x04, 0x08, 0x0c] ∧
    Gen.enum_sx127x_ook_avg_thresh_t = [0x00, 0x01, 0x02, 0x03] ∧
    Gen.enum_sx127x_ook_peak_thresh_dec_t = [0x00, 0x20, 0x40, 0x60, 0x80, 0xa0, 0xc0, 0xe0] ∧
    Gen.enum_sx127x_rx_trigger_t = [0x00, 0x01, 0x06, 0x07] ∧
    Gen.enum_sx127x_preamble_type_t = [0x20, 0x00] ∧
    Gen.enum_sx127x_rssi_smoothing_t = [0x00, 0x01, 0x02, 0x03, 0x04, 0x05, 0x06, 0x07] ∧
    Gen.enum_sx127x_packet_encoding_t = [0x00, 0x20, 0x40] ∧
    Gen.enum_sx127x_crc_type_t = [0x08, 0x18, 0x19] ∧
    Gen.enum_sx127x_packet_format_t = [0x00, 0x80] ∧
    Gen.enum_sx127x_address_filtering_t = [0x00, 0x02, 0x04] ∧
    Gen.enum_sx127x_gain_t = [0x20, 0x40, 0x60, 0x80, 0xa0, 0xc0, 0x00] ∧
    Gen.enum_sx127x_fsk_data_shaping_t = [0x00, 0x20, 0x40, 0x60] ∧
    Gen.enum_sx127x_ook_data_shaping_t = [0x00, 0x20, 0x40] ∧
    Gen.enum_sx127x_pa_ramp_t = [0x00, 0x01, 0x02, 0x03, 0x04, 0x05, 0x06, 0x07, 0x08, 0x09, 0x0a, 0x0b, 0x0c, 0x0d, 0x0e, 0x0f] ∧
    Gen.enum_sx127x_cr_t = [0x02, 0x04, 0x06, 0x08] ∧
    Gen.enum_sx127x_pa_pin_t = [0x00, 0x80] := by
  decide

end Sx
