import Sx.Lemmas.RxReady
import Sx.Lemmas.RxCovers
import Sx.Sys
import Sx.Props.C02
import Sx.Lemmas.RxObs
import Sx.Lemmas.RunP
/-
  C03 — FSK/OOK reception delivers each packet exactly once, byte-exact.

  The statements are about the driver programs run against the *receive environment* `rxE`
  (Sx/Lemmas/RxFifo.lean): a 64-byte FIFO into which the demodulator may push any number of the
  frame's next bytes before every SPI transfer — so also between the transfers of a running
  handler — as long as the FIFO does not fill up (the property's hypothesis); after the last
  byte it raises PayloadReady (at any later moment, also inside a running handler), with CrcOk
  according to the CRC outcome; the flag bits reflect the FIFO at the moment they are read;
  PayloadReady is cleared when the FIFO becomes empty; the application may do anything inside
  the callback.  `gwp` quantifies over every behaviour this environment admits; `poison` marks
  a FIFO read while empty and any request foreign to the receive path.  Any transfer may fail
  (without effect on the chip), except the recovery write with which the handler drops a packet
  it could not read: the statements therefore also cover C11's "failures do not corrupt later
  packets" for FSK/OOK reception.

  * `header_spec` / `header_any` (Sx/Lemmas/RxHeader.lean, RxLevel.lean): the header step —
    configuration registers, length byte, address byte — for both packet formats, with and
    without address filtering.
  * `batch_level`: the FIFO-level path takes the header and full batches only, stores them at
    the right place and never takes the last byte (so PayloadReady cannot be lost).
  * `drain_spec`, `batch_ready`: the payload-ready path takes exactly what is left.
  * `rx_invocation`: one handler invocation, whatever the flags: still receiving, or delivered
    (exactly the payload, exactly its length, only with a good CRC, state reset), or dropped
    because of the CRC (no callback, FIFO flushed, state reset: no residue).
  * `C03_session`: any number of invocations (spurious ones included).
-/
namespace Sx
open Sx.Model DM

set_option maxRecDepth 100000 in
theorem crc_bit_bv : ∀ b : BitVec 8, ((⟨b⟩ : UInt8) &&& 0x02 ≠ 0x02) ↔ ((⟨b⟩ : UInt8) &&& 0x02 = 0) := by decide +kernel
theorem crc_bit (x : UInt8) : (x &&& 0x02 ≠ 0x02) ↔ (x &&& 0x02 = 0) := crc_bit_bv x.toBitVec

/-- the outcome of one handler invocation during a reception -/
def RxPost (hdr P : List UInt8) (g g' : RxG) (h' : Handle) : Prop :=
  g'.poison = false ∧
  ( -- still receiving; only possible if the end of the packet had not been signalled before,
    -- or if a transfer failed (the invocation then changed nothing it cannot repeat)
    (g'.ended = false ∧ g'.cbs = g.cbs ∧ RxInv hdr P h' g' ∧ (g.over = false ∨ g'.faulted = true) ∧ g.Same g')
    ∨ -- delivered: exactly the payload, exactly its length, only with a good CRC, state reset
    (g'.ended = true ∧ g'.cbs = g.cbs ++ [.rx P P.length] ∧ (g.crcOn = true → g.crcGood = true)
      ∧ h'.expected = 0 ∧ h'.received = 0)
    ∨ -- dropped because the CRC check failed, or because a transfer failed while the rest of the
    -- complete packet was read: no callback, nothing left behind
    (((g.crcOn = true ∧ g.crcGood = false) ∨ g'.faulted = true) ∧ g'.ended = false ∧ g'.cbs = g.cbs ∧ h'.expected = 0 ∧ h'.received = 0
      ∧ g'.fifo = [] ∧ g'.pending = [] ∧ g'.over = true ∧ g'.ready = false))

theorem rx_invocation (fuel : Nat) (hfuel : 64 ≤ fuel) (hdr P : List UInt8) (h : Handle) (g : RxG) (hv : RxInv hdr P h g) :
    DM.gwp rxE (fskOokHandleInterrupt fuel) h g (fun g' _ h' => RxPost hdr P g g' h') := by
  unfold fskOokHandleInterrupt
  rw [gwp_bind, gwp_rread]
  intro r g1 hr
  have contF : ∀ {hx : Handle} {gx gy : RxG}, RxInv hdr P hx gx → g.Same gx → gx.AdvF gy → RxPost hdr P g gy hx := by
    intro hx gx gy hvx hsx hax
    obtain ⟨hvy, hsy, hfy⟩ := hvx.advF hax
    exact ⟨hvy.gi.live.1, Or.inl ⟨hvy.gi.live.2, (hsx.trans hsy).cbs, hvy, Or.inr hfy, hsx.trans hsy⟩⟩
  rcases rx_flags hv.gi.live r g1 hr with ⟨ce, hre, hae⟩ | ⟨v, g0, hrv, ha0, hg1, hfl⟩
  case inl => subst hre; exact contF hv (RxG.Same.refl g) hae
  subst hrv hg1
  obtain ⟨hv0, hs0, hl0, hov0⟩ := hv.adv ha0
  obtain ⟨hPR, hCRC, hPS, hOV, hLV, hEM, hFU⟩ := hfl
  dsimp only
  rw [gwp_bind, gwp_swrite]
  intro r2 g2 hr2
  have hv1 : RxInv hdr P h { g0 with irq := v } :=
    ⟨hv0.cfg.of_same ⟨rfl, rfl, rfl, rfl, rfl, rfl, rfl⟩ rfl rfl rfl rfl rfl rfl, hv0.gi.irq v, hv0.phase.of_eq rfl rfl rfl rfl, hv0.kept⟩
  have hs01 : g.Same { g0 with irq := v } := hs0.trans ⟨rfl, rfl, rfl, rfl, rfl, rfl, rfl⟩
  rcases rx_write3f hv1.gi.live v r2 g2 hr2 with ⟨ce, hre, _, hae⟩ | ⟨g1', hr2v, ha1, hg2⟩
  case inl => subst hre; exact contF hv1 hs01 hae
  rw [if_neg (fun hn => hn hOV)] at hg2
  subst hr2v hg2
  obtain ⟨hv2, hs2, hl2, hov2⟩ := hv1.adv ha1
  dsimp only
  rw [gwp_bind, gwp_getH]
  dsimp only
  have cPR : u8 Gen.SX127X_FSK_IRQ_PAYLOAD_READY = 0x04 := rfl
  have cPS : u8 Gen.SX127X_FSK_IRQ_PACKET_SENT = 0x08 := rfl
  have cEM : u8 Gen.SX127X_FSK_IRQ_FIFO_EMPTY = 0x40 := rfl
  have cLV : u8 Gen.SX127X_FSK_IRQ_FIFO_LEVEL = 0x20 := rfl
  have cFU : u8 Gen.SX127X_FSK_IRQ_FIFO_FULL = 0x80 := rfl
  have cCR : u8 Gen.SX127X_FSK_IRQ_CRC_OK = 0x02 := rfl
  have cOV : u8 Gen.SX127X_FSK_IRQ_FIFO_OVERRUN = 0x10 := rfl
  rw [cPR, cPS, cEM, cLV, cFU, cCR, cOV]
  have hsame02 : g.Same g2 := hs0.trans ⟨hs2.cfg1, hs2.cfg2, hs2.plen, hs2.crcGood, hs2.cbs, hs2.ended, hs2.poison⟩
  by_cases hpr : v &&& 0x04 ≠ 0
  · -- PayloadReady
    rw [if_pos hpr]
    have hrdy0 : g0.ready = true := hPR.mp hpr
    have hov0' : g0.over = true := hv0.gi.wf.readyOver hrdy0
    have hov2' : g2.over = true := hov2 hov0'
    have hcrcv : g0.crcFlag = (g0.crcOn && g0.crcGood) := hv0.gi.wf.crc hrdy0
    have hcrcOn : g0.crcOn = g.crcOn := by unfold RxG.crcOn; rw [hs0.cfg1]
    rw [hcrcOn, hs0.crcGood] at hcrcv
    by_cases hdrop : h.crcType ≠ Gen.SX127X_CRC_NONE ∧ v &&& 0x02 ≠ 0x02
    · -- CRC failed: flush, reset, no callback
      rw [if_pos hdrop, gwp_bind, gwp_swrite]
      intro r3 g3 hr3
      rcases rx_write3f hv2.gi.live 0x10 r3 g3 hr3 with ⟨ce, _, hbad0, _⟩ | ⟨g2', hr3v, ha2, hg3⟩
      case inl => exact absurd hbad0 (by decide)
      rw [if_pos (by decide)] at hg3
      subst hr3v hg3
      obtain ⟨hi2', hs2', ho2', _, _, hp2'⟩ := adv_over hv2.gi hov2' ha2
      obtain ⟨hwf, hsf, hff, hrf, hpf, _⟩ := RxG.flush_facts g2' hi2'.wf
      dsimp only
      rw [gwp_modH]
      have hon : g.crcOn = true := hv.cfg.crc.mp hdrop.1
      have hflag : g0.crcFlag = false := by
        have := (crc_bit v).mp hdrop.2
        cases hx : g0.crcFlag with
        | false => rfl
        | true => exact absurd this (hCRC.mpr hx)
      have hbad : g.crcGood = false := by
        rw [hflag, hon] at hcrcv
        cases hx : g.crcGood with
        | false => rfl
        | true => rw [hx] at hcrcv; cases hcrcv
      have hsall : g.Same g2'.flush := (hsame02.trans hs2').trans hsf
      exact ⟨hsall.poison.trans hv.gi.live.1, Or.inr (Or.inr ⟨Or.inl ⟨hon, hbad⟩, hsall.ended.trans hv.gi.live.2, hsall.cbs, rfl, rfl, hff, hpf.trans hp2', ho2', hrf⟩)⟩
    · rw [if_neg hdrop, gwp_bind, gwp_attempt]
      refine gwp_mono rxE _ _ _ _ _ ?_ (batch_ready fuel hfuel hdr P h g2 hv2.cfg hv2.gi hv2.phase hov2')
      intro g3 r3 h3 hpost3
      rcases hpost3 with ⟨hr3, hd3, hl3, hsm3, _, _⟩ | ⟨ce, hre, hfail⟩
      case inr =>
        -- a transfer failed: what is left of the packet is dropped
        subst hre
        dsimp only
        rw [gwp_bind, gwp_swrite]
        intro r4 g4 hr4
        rcases rx_write3f hfail.live 0x10 r4 g4 hr4 with ⟨_, _, hbad0, _⟩ | ⟨g3', hr4v, ha3, hg4⟩
        case inl => exact absurd hbad0 (by decide)
        rw [if_pos (by decide)] at hg4
        subst hr4v hg4
        obtain ⟨hw3', hs3', _, _, hov3', _, _, _⟩ := ha3.facts hfail.wf
        obtain ⟨ho3', _, _, _⟩ := hov3' hfail.over
        obtain ⟨_, hsf, hff, hrf, hpf, _⟩ := RxG.flush_facts g3' hw3'
        dsimp only
        rw [gwp_modH]
        have hsall : g.Same g3'.flush := ((hsame02.trans hfail.same).trans hs3').trans hsf
        have hflt : g3'.flush.faulted = true := by
          show g3'.faulted = true
          rw [ha3.faulted]; exact hfail.faulted
        exact ⟨hsall.poison.trans hv.gi.live.1, Or.inr (Or.inr ⟨Or.inr hflt, hsall.ended.trans hv.gi.live.2, hsall.cbs, rfl, rfl, hff,
          hpf.trans (hw3'.overPending ho3'), ho3', hrf⟩)⟩
      have hcbs3 : g3.cbs = g2.cbs := hsm3.cbs
      subst hr3
      dsimp only
      unfold rxCallback
      rw [gwp_bind, gwp_bind, gwp_getH]
      dsimp only
      rw [if_pos (by rw [hd3.cb]; exact hv.cfg.cb), gwp_cb]
      intro h4 g4 hc4
      have hg4 : g4 = { g3 with cbs := g3.cbs ++ [CbEvent.rx (h3.packet.take h3.expected.toNat) h3.expected.toNat], ended := true } := hc4
      subst hg4
      dsimp only
      rw [gwp_modH]
      refine ⟨hl3.1, Or.inr (Or.inl ⟨rfl, ?_, ?_, rfl, rfl⟩)⟩
      · show g3.cbs ++ [CbEvent.rx (h3.packet.take h3.expected.toNat) h3.expected.toNat] = _
        rw [hd3.exp, hd3.data, hcbs3, ← hsame02.cbs]
      · intro hon
        have hty : h.crcType ≠ Gen.SX127X_CRC_NONE := hv.cfg.crc.mpr hon
        have hbit : ¬(v &&& 0x02 ≠ 0x02) := fun hx => hdrop ⟨hty, hx⟩
        have hnz : v &&& 0x02 ≠ 0 := fun hz => hbit ((crc_bit v).mpr hz)
        have hflag : g0.crcFlag = true := hCRC.mp hnz
        rw [hflag, hon] at hcrcv
        cases hx : g.crcGood with
        | true => rfl
        | false => rw [hx] at hcrcv; cases hcrcv
  · rw [if_neg hpr]
    have hnr : g0.ready = false := by
      cases hx : g0.ready with
      | false => rfl
      | true => exact absurd (hPR.mpr hx) hpr
    have hno : g.over = false := by
      cases hx : g.over with
      | false => rfl
      | true => have := hv0.kept (hov0 hx); rw [hnr] at this; cases this
    rw [if_neg (fun hn => hn hPS)]
    have hnt : ¬h.opmod = Gen.SX127x_MODE_TX := by
      rcases hv.cfg.mode with e | e <;> rw [e] <;> decide
    rw [if_neg hnt, if_pos hv.cfg.mode]
    have cont : ∀ (g' : RxG) (h' : Handle), RxInv hdr P h' g' → g.Same g' → RxPost hdr P g g' h' :=
      fun g' h' hv' hs' => ⟨hv'.gi.live.1, Or.inl ⟨hv'.gi.live.2, hs'.cbs, hv', Or.inl hno, hs'⟩⟩
    by_cases hlv : v &&& 0x20 ≠ 0 ∧ v &&& 0x80 = 0
    · rw [if_pos hlv, gwp_bind, gwp_attempt]
      have hlen : 31 < g2.fifo.length := by
        have := hLV.mp hlv.1
        have h1 : g0.fifo.length ≤ g2.fifo.length := hl2
        omega
      refine gwp_mono rxE _ _ _ _ _ ?_ (batch_level fuel hdr P h g2 hv2 hlen)
      intro g3 r3 h3 ⟨hv3, _, _, hs3⟩
      show gwp rxE (pure ()) h3 g3 _
      rw [gwp_pure]
      exact cont g3 h3 hv3 (hsame02.trans hs3)
    · rw [if_neg hlv, gwp_bind, gwp_rread]
      intro r3 g3 hr3
      rcases rx_cfg hv2.gi.live _ r3 g3 hr3 with ⟨ce, hre, hae⟩ | hcf
      case inl => subst hre; exact contF hv2 hsame02 hae
      obtain ⟨⟨v3, hr3v⟩, ha3⟩ := hcf.2.2.2 (Or.inl rfl)
      subst hr3v
      obtain ⟨hv3, hs3, _, _⟩ := hv2.adv ha3
      dsimp only
      rw [gwp_bind, gwp_swrite]
      intro r4 g4 hr4
      rcases rx_write3e hv3.gi.live v3 r4 g4 hr4 with ⟨ce, hre, hae⟩ | ⟨hr4v, ha4⟩
      case inl => subst hre; exact contF hv3 (hsame02.trans hs3) hae
      subst hr4v
      obtain ⟨hv4, hs4, _, _⟩ := hv3.adv ha4
      dsimp only
      rw [gwp_bind, gwp_getH]
      dsimp only
      have hs04 : g.Same g4 := (hsame02.trans hs3).trans hs4
      have rssi : DM.gwp rxE fskOokGetRssi h g4 (fun g' _ h' => RxPost hdr P g g' h') := by
        unfold fskOokGetRssi
        rw [gwp_bind, gwp_rread]
        intro r5 g5 hr5
        rcases rx_cfg hv4.gi.live _ r5 g5 hr5 with ⟨ce, hre, hae⟩ | hcf5
        case inl => subst hre; exact contF hv4 hs04 hae
        obtain ⟨⟨v5, hr5v⟩, ha5⟩ := hcf5.2.2.2 (Or.inr rfl)
        subst hr5v
        obtain ⟨hv5, hs5, _, _⟩ := hv4.adv ha5
        dsimp only
        rw [gwp_modH]
        exact cont _ _ (hv5.handle rfl rfl rfl rfl rfl rfl rfl rfl) (hs04.trans hs5)
      split
      · exact rssi
      · split
        · exact rssi
        · rw [gwp_pure]; exact cont g4 h hv4 hs04

/-! ### the whole reception -/

/-- the packet has neither been delivered nor dropped -/
def RxG.Open (g : RxG) : Prop := g.ended = false ∧ g.Kept

/-- handler invocations, each against any behaviour the receive environment admits, for as
    long as the packet is open -/
inductive RxTrace (fuel : Nat) (h : Handle) (g : RxG) : Handle → RxG → Prop
  | nil : RxTrace fuel h g h g
  | irq {h1 g1 h2 g2 r} : RxTrace fuel h g h1 g1 → g1.Open →
      (fskOokHandleInterrupt fuel h1).Runs rxE g1 g2 (r, h2) → RxTrace fuel h g h2 g2

/-- what holds at every point of the reception of the frame `hdr ++ P` -/
def RxSessInv (hdr P : List UInt8) (g : RxG) (h' : Handle) (g' : RxG) : Prop :=
  g'.poison = false ∧
  ( (g'.ended = false ∧ g'.cbs = g.cbs ∧ RxInv hdr P h' g' ∧ g.Same g')
    ∨ (g'.ended = true ∧ g'.cbs = g.cbs ++ [.rx P P.length] ∧ (g.crcOn = true → g.crcGood = true)
        ∧ h'.expected = 0 ∧ h'.received = 0)
    ∨ (((g.crcOn = true ∧ g.crcGood = false) ∨ g'.faulted = true) ∧ g'.ended = false ∧ g'.cbs = g.cbs ∧ h'.expected = 0 ∧ h'.received = 0
        ∧ g'.fifo = [] ∧ g'.pending = [] ∧ g'.over = true ∧ g'.ready = false))

/-- **C03.** For every frame (either packet format, with or without address byte, any payload
    that fits the buffer), any CRC setting and outcome, and every sequence of handler
    invocations against every admissible behaviour of the chip — bytes arriving between any two
    transfers, PayloadReady raised at any moment after the last byte, any flag byte consistent
    with the FIFO, spurious invocations:
    * no FIFO read while empty and no foreign request (`poison = false`);
    * no callback before the packet is complete; when the handler sees PayloadReady it invokes
      the receive callback exactly once, with exactly the payload bytes and the exact length —
      and only if the CRC is good when CRC is on;
    * a packet with a bad CRC is dropped without callback, the FIFO flushed, nothing pending;
    * any transfer may fail (the recovery write excepted): the invocation then either changed
      nothing it cannot repeat, or — if the complete packet was being read — drops the packet
      in the same way; it never delivers a packet whose read failed;
    * in both cases `expected_packet_length` and the byte counter are zero afterwards: the next
      packet starts from the same state as the first one. -/
theorem C03_session (fuel : Nat) (hfuel : 64 ≤ fuel) (hdr P : List UInt8) (h : Handle) (g : RxG)
    (hv : RxInv hdr P h g) (h' : Handle) (g' : RxG) (ht : RxTrace fuel h g h' g') : RxSessInv hdr P g h' g' := by
  induction ht with
  | nil => exact ⟨hv.gi.live.1, Or.inl ⟨hv.gi.live.2, rfl, hv, RxG.Same.refl g⟩⟩
  | @irq h1 g1 h2 g2 r _ hopen hrun ih =>
    obtain ⟨_, hcase⟩ := ih
    rcases hcase with ⟨_, hcbs1, hv1, hsm1⟩ | ⟨he, _⟩ | ⟨_, _, _, _, _, _, _, hov, hrd⟩
    · have hs1 : g1.crcOn = g.crcOn ∧ g1.crcGood = g.crcGood := by
        refine ⟨?_, hsm1.crcGood⟩
        unfold RxG.crcOn; rw [hsm1.cfg1]
      obtain ⟨hp2, hcase2⟩ := Prog.gwp_runs hrun (rx_invocation fuel hfuel hdr P h1 g1 hv1)
      refine ⟨hp2, ?_⟩
      rcases hcase2 with ⟨he2, hcbs2, hv2, _, hsm2⟩ | ⟨he2, hcbs2, hcrc, hx, hy⟩ | ⟨hwhy, he2, hcbs2, hx, hy, hf, hp, ho, hr⟩
      · exact Or.inl ⟨he2, hcbs2.trans hcbs1, hv2, hsm1.trans hsm2⟩
      · exact Or.inr (Or.inl ⟨he2, by rw [hcbs2, hcbs1], by rw [← hs1.1, ← hs1.2]; exact hcrc, hx, hy⟩)
      · exact Or.inr (Or.inr ⟨hwhy.imp (fun ⟨hon, hbad⟩ => ⟨by rw [← hs1.1]; exact hon, by rw [← hs1.2]; exact hbad⟩) id,
          he2, hcbs2.trans hcbs1, hx, hy, hf, hp, ho, hr⟩)
    · rw [hopen.1] at he; cases he
    · have := hopen.2 hov; rw [hrd] at this; cases this

/-- the world at the start of an operation without events or faults -/
def opWorldRx (w : World) (k : Cache) : World :=
  { w with xfer := 0, sched := [], faults := [], bus := [], cbs := [], cache := k }

/-! ### on the chip model (uncached build; the cached one by C02) -/

theorem rx_api_irq (cap fuel : Nat) (hfuel : 64 ≤ fuel) (hdr P : List UInt8) (h : Handle) (g : RxG) (hv : RxInv hdr P h g)
    (hmod : h.activeModem = Gen.SX127x_MODULATION_FSK ∨ h.activeModem = Gen.SX127x_MODULATION_OOK) :
    (Api.prog cap fuel .irq h).gwp rxE g (fun g' rh => RxPost hdr P g g' rh.2) := by
  show DM.gwp rxE (do let _ ← DM.attempt (handleInterrupt fuel); pure Out.none) h g (fun g' _ h' => RxPost hdr P g g' h')
  rw [gwp_bind, gwp_attempt]
  unfold handleInterrupt
  rw [gwp_bind, gwp_getH]
  dsimp only
  have hnl : ¬h.activeModem = Gen.SX127x_MODULATION_LORA := by
    rcases hmod with e | e <;> rw [e] <;> decide
  rw [if_neg hnl, if_pos hmod]
  exact gwp_mono rxE _ _ _ _ _ (fun g' r h' hq => hq) (rx_invocation fuel hfuel hdr P h g hv)

/-- **C03 on the chip model.** One handler invocation of the uncached interpreter (no events
    or faults inside it) on a chip that is receiving the frame, related to the ghost state by
    `RxChip` (FIFO content, stored PayloadReady/CrcOk, threshold and configuration registers):
    the outcome is the one `rx_invocation` describes, and unless the callback has run the chip
    is again related to the ghost state.  The arrival of bytes and of the end of the packet
    between invocations are `env_rxByte` and `env_rxEnd`. -/
theorem C03_step_on_chip (hdr P : List UInt8) (c : SysCfg) (hc : c.cached = false) (hfuel : 64 ≤ c.fuel) (s : Sys) (h : Handle) (g : RxG)
    (hh : s.handle = some h) (hv : RxInv hdr P h g)
    (hmod : h.activeModem = Gen.SX127x_MODULATION_FSK ∨ h.activeModem = Gen.SX127x_MODULATION_OOK)
    (hchip : RxChip s.world.chip g) (hclean : g.faulted = false) :
    match s.step c (.api .irq [] []) with
    | (s', .ret _ _ _) => ∃ h' g', s'.handle = some h' ∧ RxPost hdr P g g' h' ∧
        (g'.ended = false → RxChip s'.world.chip g' ∧ g'.faulted = false)
    | (_, .ub _) => True
    | (_, _) => False := by
  unfold Sys.step
  dsimp only
  rw [if_neg (by simp [hh])]
  have hw0 : rxAbs g.pending g.over (opWorldRx s.world s.world.cache) g := Or.inr (Or.inr ⟨hchip, rfl, rfl, hclean, rfl, rfl⟩)
  simp only [hh, Option.getD_some]
  unfold exec
  generalize hout : execG c.toCfg.cached c.toCfg.onCb (Api.prog c.cap c.fuel Api.irq h) _ = out
  have hex : OutcomeP (rxAbs g.pending g.over) (fun g' rh => RxPost hdr P g g' rh.2) out := by
    rw [← hout]
    have hcc : c.toCfg.cached = false := hc
    rw [hcc]
    exact execG_gwp' rxE false c.toCfg.onCb (rxAbs g.pending g.over) (rx_covers _ _ _)
      (Api.prog c.cap c.fuel .irq h) g _ (rx_api_irq c.cap c.fuel hfuel hdr P h g hv hmod) _ hw0
  cases out with
  | ub u w => trivial
  | done rh w =>
    obtain ⟨r, h'⟩ := rh
    obtain ⟨g', hab, hpost⟩ := hex
    refine ⟨h', g', rfl, hpost, fun hne => ?_⟩
    have hw := rxAbs_live ⟨hpost.1, hne⟩ hab
    refine ⟨?_, hw.clean⟩
    show RxChip (w.sched.foldl _ w.chip) g'
    rw [hw.nosched]
    exact hw.chip

/-- **C03 on the chip model, cached build.** The same as `C03_step_on_chip` for the build with
    the register cache, from any state whose cache is coherent (C01: every state reachable by an
    admissible history): the cached handler invocation is observably the uncached one (C02). -/
theorem C03_step_on_chip_cached (hdr P : List UInt8) (c : SysCfg) (hc : c.cached = true) (hval : c.Valid)
    (hfuel : 64 ≤ c.fuel) (s : Sys) (i : Inv s.world) (h : Handle) (g : RxG)
    (hh : s.handle = some h) (hv : RxInv hdr P h g)
    (hmod : h.activeModem = Gen.SX127x_MODULATION_FSK ∨ h.activeModem = Gen.SX127x_MODULATION_OOK)
    (hchip : RxChip s.world.chip g) (hclean : g.faulted = false) :
    match s.step c (.api .irq [] []) with
    | (s', .ret _ _ _) => ∃ h' g', s'.handle = some h' ∧ RxPost hdr P g g' h' ∧
        (g'.ended = false → RxChip s'.world.chip g' ∧ g'.faulted = false) ∧ Inv s'.world
    | (_, .ub _) => True
    | (_, _) => False := by
  have hsim := step_sim c hc hval s s ⟨rfl, rfl, i⟩ (.api .irq [] []) ⟨rfl, rfl⟩ trivial (fun e he => by cases he)
  have hun := C03_step_on_chip hdr P c.uncached rfl hfuel s h g hh hv hmod hchip hclean
  generalize hsc : s.step c (.api .irq [] []) = rc at hsim
  generalize hsu : s.step c.uncached (.api .irq [] []) = ru at hsim hun
  obtain ⟨sc', oc⟩ := rc
  obtain ⟨su', ou⟩ := ru
  cases oc with
  | ub u => trivial
  | skipped => cases ou <;> simp [ObsRel] at hsim <;> exact hun
  | env => cases ou <;> simp [ObsRel] at hsim <;> exact hun
  | ret r cbs bus =>
    cases ou with
    | ret r' cbs' bus' =>
      obtain ⟨h', g', e1, e2, e3⟩ := hun
      have sr := hsim.2 (fun u hu => by cases hu)
      exact ⟨h', g', sr.handle.trans e1, e2, fun hne => by rw [sr.chip]; exact e3 hne, sr.inv⟩
    | _ => exact absurd hsim.1 (by simp [ObsRel])

/-- **C03 on the chip model, as observed.** The same as `C03_step_on_chip`, with the callbacks
    the observation of the step shows: they are exactly what the invocation added to the ghost's
    list — nothing while the packet is still being received or when it is dropped, the one
    receive callback with exactly the payload and its length when it is delivered. -/
theorem C03_step_on_chip_obs (hdr P : List UInt8) (c : SysCfg) (hc : c.cached = false) (hnr : c.NoReact)
    (hfuel : 64 ≤ c.fuel) (s : Sys) (h : Handle) (g : RxG)
    (hh : s.handle = some h) (hv : RxInv hdr P h g)
    (hmod : h.activeModem = Gen.SX127x_MODULATION_FSK ∨ h.activeModem = Gen.SX127x_MODULATION_OOK)
    (hchip : RxChip s.world.chip g) (hclean : g.faulted = false) :
    match s.step c (.api .irq [] []) with
    | (s', .ret _ cbs _) => ∃ h' g', s'.handle = some h' ∧ RxPost hdr P g g' h' ∧
        (g'.ended = false → RxChip s'.world.chip g' ∧ g'.faulted = false ∧ g'.pending = g.pending ∧ g'.over = g.over) ∧
        g'.cbs = g.cbs ++ cbs.map (·.ev)
    | (_, .ub _) => True
    | (_, _) => False := by
  unfold Sys.step
  dsimp only
  rw [if_neg (by simp [hh])]
  have hw0 : rxAbs g.pending g.over (opWorldRx s.world s.world.cache) g ∧ CbsTie rxK g.cbs (opWorldRx s.world s.world.cache) g :=
    ⟨Or.inr (Or.inr ⟨hchip, rfl, rfl, hclean, rfl, rfl⟩), Or.inr (by show g.cbs = g.cbs ++ _; simp [opWorldRx])⟩
  simp only [hh, Option.getD_some]
  unfold exec
  rw [onCb_noReact' hnr]
  generalize hout : execG c.toCfg.cached logCb (Api.prog c.cap c.fuel Api.irq h) _ = out
  have hex : OutcomeP (fun w g' => rxAbs g.pending g.over w g' ∧ CbsTie rxK g.cbs w g') (fun g' rh => RxPost hdr P g g' rh.2) out := by
    rw [← hout]
    have hcc : c.toCfg.cached = false := hc
    rw [hcc]
    exact execG_gwp' rxE false logCb _
      (covers_cbs rxE rxK false logCb (rxAbs g.pending g.over) (rx_covers _ _ _) (fun e h w h' w' ho => by cases ho; rfl) g.cbs)
      (Api.prog c.cap c.fuel .irq h) g _ (rx_api_irq c.cap c.fuel hfuel hdr P h g hv hmod) _ hw0
  cases out with
  | ub u w => trivial
  | done rh w =>
    obtain ⟨r, h'⟩ := rh
    obtain ⟨g', ⟨hab, htie⟩, hpost⟩ := hex
    have hcbs : g'.cbs = g.cbs ++ (w.cbs.reverse).map (·.ev) := by
      rcases htie with hb | ht
      · have hb' : g'.poison = true := hb
        rw [hpost.1] at hb'; cases hb'
      · have ht' : g'.cbs = g.cbs ++ (w.cbs.map (·.ev)).reverse := ht
        rw [ht', List.map_reverse]
    refine ⟨h', g', rfl, hpost, fun hne => ?_, hcbs⟩
    have hw := rxAbs_live ⟨hpost.1, hne⟩ hab
    refine ⟨?_, hw.clean, hw.pend, hw.ov⟩
    show RxChip (w.sched.foldl _ w.chip) g'
    rw [hw.nosched]
    exact hw.chip

/-- what the application sees of one invocation while a packet is received on the chip model:
    no callback, or exactly the receive callback with the payload -/
theorem C03_observed_callbacks (hdr P : List UInt8) (c : SysCfg) (hc : c.cached = false) (hnr : c.NoReact)
    (hfuel : 64 ≤ c.fuel) (s : Sys) (h : Handle) (g : RxG)
    (hh : s.handle = some h) (hv : RxInv hdr P h g)
    (hmod : h.activeModem = Gen.SX127x_MODULATION_FSK ∨ h.activeModem = Gen.SX127x_MODULATION_OOK)
    (hchip : RxChip s.world.chip g) (hclean : g.faulted = false) (s' : Sys) (r : Except Code Out) (cbs : List CbRec)
    (bus : List BusEv) (hstep : s.step c (.api .irq [] []) = (s', .ret r cbs bus)) :
    cbs.map (·.ev) = [] ∨ (cbs.map (·.ev) = [.rx P P.length] ∧ (g.crcOn = true → g.crcGood = true)) := by
  have := C03_step_on_chip_obs hdr P c hc hnr hfuel s h g hh hv hmod hchip hclean
  rw [hstep] at this
  obtain ⟨h', g', _, hpost, _, hcbs⟩ := this
  obtain ⟨_, hcase⟩ := hpost
  rcases hcase with ⟨_, e, _⟩ | ⟨_, e, hcrc, _⟩ | ⟨_, _, e, _⟩
  · left; rw [e] at hcbs; exact (List.append_cancel_left (by simpa using hcbs.symm : g.cbs ++ cbs.map (·.ev) = g.cbs ++ [])).trans rfl
  · right; rw [e] at hcbs; exact ⟨(List.append_cancel_left hcbs).symm, hcrc⟩
  · left; rw [e] at hcbs; exact (List.append_cancel_left (by simpa using hcbs.symm : g.cbs ++ cbs.map (·.ev) = g.cbs ++ []))

/-- the start of a packet: the handle in its reset state (as `create`, a delivery or a drop
    leave it), the FIFO empty, the whole frame still on the air -/
theorem rx_start (hdr P : List UInt8) (h : Handle) (g : RxG) (hc : RxCfg hdr P h g)
    (hexp : h.expected = 0) (hrcv : h.received = 0) (hl : g.live)
    (hf : g.fifo = []) (hp : g.pending = hdr ++ P) (ht : g.taken = []) (ho : g.over = false)
    (hr : g.ready = false) (hcf : g.crcFlag = false) : RxInv hdr P h g := by
  refine ⟨hc, ⟨⟨?_, ?_, ?_, ?_, ?_⟩, hl, ?_⟩, Or.inl ⟨hexp, hrcv, ht⟩, ?_⟩
  · intro h1; rw [ho] at h1; cases h1
  · intro h1; rw [hr] at h1; cases h1
  · intro h1; rw [hr] at h1; cases h1
  · intro h1; rw [hcf] at h1; cases h1
  · rw [hf]; exact Nat.zero_le _
  · rw [ht, hf, hp]; rfl
  · intro h1; rw [ho] at h1; cases h1

/-- non-vacuity: a variable-format frame `[2, 7, 9]` (length byte 2, payload `[7, 9]`), CRC on,
    no address filtering, a 16-byte buffer -/
example : RxInv [2] [7, 9]
    { opmod := Gen.SX127x_MODE_RX_CONT, rxCb := true, packet := Mem.zeros 16, format := Gen.SX127X_VARIABLE, crcType := Gen.SX127X_CRC_CCITT }
    { pending := [2, 7, 9], cfg1 := 0x98 } := by
  refine rx_start _ _ _ _ ⟨Or.inl rfl, Or.inl rfl, rfl, by decide, by decide, ?_, ?_⟩ rfl rfl ⟨rfl, rfl⟩ rfl rfl rfl rfl rfl rfl
  · exact Or.inl ⟨rfl, 2, [], rfl, by decide, by decide⟩
  · constructor
    · intro _; decide
    · intro _; decide

/-- non-vacuity: the environment admits the arrival of the first two bytes before a flag read -/
example : rxR { pending := [2, 7, 9], cfg1 := 0x98 } (.rread 0x3f) (.u8 (.ok 0x00))
    { fifo := [2, 7], pending := [9], cfg1 := 0x98, irq := 0 } := by
  unfold rxR
  simp only [Bool.false_eq_true, or_self, ↓reduceIte]
  refine Or.inl ⟨trivial, 2, false, ⟨by decide, by decide⟩, ?_⟩
  unfold rxAnswer
  simp only [↓reduceIte]
  refine ⟨rfl, ?_⟩
  unfold RxFlagsOk
  decide

/-! ### a reception on the chip model, step by step -/

theorem RxG.arrive_faulted (g : RxG) (k : Nat) (fin : Bool) : (g.arrive k fin).faulted = g.faulted := by
  unfold RxG.arrive
  repeat (first | rfl | split | dsimp only)

/-- a reception in progress on the chip model: the handle and the chip agree with the ghost state
    `g` of the receive environment (which holds the frame's bytes still on the air, the FIFO
    content, what the host has taken so far, and the callbacks made) -/
structure Receiving (hdr P : List UInt8) (s : Sys) (g : RxG) : Prop where
  handle : ∃ h, s.handle = some h ∧ RxInv hdr P h g
  chip : RxChip s.world.chip g
  clean : g.faulted = false

/-- **the next byte of the frame arrives** (between two operations of the host, FIFO not full) -/
theorem Receiving.byte {hdr P s g} (c : SysCfg) (hr : Receiving hdr P s g) (b : UInt8) (rest : List UInt8)
    (hp : g.pending = b :: rest) (hroom : g.fifo.length ≤ 62) :
    Receiving hdr P (s.step c (.env (.rxByte b))).1 (g.arrive 1 false) ∧ (s.step c (.env (.rxByte b))).2 = .env := by
  obtain ⟨h, hh, hv⟩ := hr.handle
  obtain ⟨hc', hadm⟩ := env_rxByte hr.chip b rest hp hroom
  refine ⟨⟨⟨h, hh, (hv.adv ⟨1, false, hadm, rfl⟩).1⟩, hc', ?_⟩, rfl⟩
  rw [RxG.arrive_faulted]; exact hr.clean

/-- **the demodulator signals the end of the packet** (all bytes have arrived; CrcAutoClearOff as
    the driver configures it) -/
theorem Receiving.fin {hdr P s g} (c : SysCfg) (hr : Receiving hdr P s g)
    (hp : g.pending = []) (ho : g.over = false) (hauto : g.cfg1 &&& 0x08 ≠ 0) :
    Receiving hdr P (s.step c (.env (.rxEnd g.crcGood))).1 (g.arrive 0 true) ∧ (s.step c (.env (.rxEnd g.crcGood))).2 = .env := by
  obtain ⟨h, hh, hv⟩ := hr.handle
  have hc' := env_rxEnd hr.chip hp ho hauto
  have hadm : g.Adm 0 := ⟨Nat.zero_le _, by have := hr.chip.room; omega⟩
  refine ⟨⟨⟨h, hh, (hv.adv ⟨0, true, hadm, rfl⟩).1⟩, hc', ?_⟩, rfl⟩
  rw [RxG.arrive_faulted]; exact hr.clean

/-- **the host runs the interrupt handler** (uncached build, no application reaction): either the
    reception goes on and the application saw nothing, or this invocation delivered exactly the
    payload — once, with its length, and only with a good CRC —, or the packet was dropped for
    its CRC and the application saw nothing; in the last two cases the per-packet state is reset -/
theorem Receiving.irq {hdr P s g} (c : SysCfg) (hc : c.cached = false) (hnr : c.NoReact) (hfuel : 64 ≤ c.fuel)
    (hr : Receiving hdr P s g) :
    match s.step c (.api .irq [] []) with
    | (s', .ret _ cbs _) =>
        (∃ g', Receiving hdr P s' g' ∧ cbs.map (·.ev) = [] ∧ g'.cbs = g.cbs ∧ g.over = false ∧
          g'.pending = g.pending ∧ g'.over = g.over ∧ g.Same g') ∨
        (cbs.map (·.ev) = [.rx P P.length] ∧ (g.crcOn = true → g.crcGood = true) ∧
          ∃ h', s'.handle = some h' ∧ h'.expected = 0 ∧ h'.received = 0) ∨
        (cbs.map (·.ev) = [] ∧ g.crcOn = true ∧ g.crcGood = false ∧
          ∃ h', s'.handle = some h' ∧ h'.expected = 0 ∧ h'.received = 0)
    | (_, .ub _) => True
    | (_, _) => False := by
  obtain ⟨h, hh, hv⟩ := hr.handle
  have := C03_step_on_chip_obs hdr P c hc hnr hfuel s h g hh hv hv.cfg.modem hr.chip hr.clean
  generalize hst : s.step c (.api .irq [] []) = st at this
  obtain ⟨s', o⟩ := st
  cases o with
  | ub u => trivial
  | skipped => exact this
  | env => exact this
  | ret r cbs bus =>
    obtain ⟨h', g', hh', hpost, hch, hcbs⟩ := this
    obtain ⟨hpois, hcase⟩ := hpost
    have cancel : ∀ l : List CbEvent, g'.cbs = g.cbs ++ l → g.cbs ++ cbs.map (·.ev) = g.cbs ++ l := fun l e => by rw [← hcbs, e]
    rcases hcase with ⟨hend, e, hinv, hov, hsame⟩ | ⟨hend, e, hcrc, he, hrc⟩ | ⟨hwhy, hend, e, he, hrc, _⟩
    · obtain ⟨hchip', hcl', hpe', hov'⟩ := hch hend
      left
      refine ⟨g', ⟨⟨h', hh', hinv⟩, hchip', hcl'⟩, ?_, e, ?_, hpe', hov', hsame⟩
      · exact List.append_cancel_left (cancel [] (by rw [e]; simp))
      · rcases hov with h1 | h1
        · exact h1
        · rw [hcl'] at h1; cases h1
    · right; left
      exact ⟨List.append_cancel_left (cancel _ e), hcrc, h', hh', he, hrc⟩
    · right; right
      have hcl' := (hch hend).2.1
      have hcrcbad : g.crcOn = true ∧ g.crcGood = false := by
        rcases hwhy with h1 | h1
        · exact h1
        · rw [hcl'] at h1; cases h1
      exact ⟨List.append_cancel_left (cancel [] (by rw [e]; simp)), hcrcbad.1, hcrcbad.2, h', hh', he, hrc⟩


/-- non-vacuity: a chip in FSK receive mode (CRC on, variable length, threshold 31) with an empty
    FIFO and a fresh handle is `Receiving` the frame `[2, 7, 9]` -/
example : Receiving [2] [7, 9]
    { world := { chip := { fsk := ((Mem.zeros 128).wr 0x30 0x98).wr 0x35 31 } },
      handle := some { opmod := Gen.SX127x_MODE_RX_CONT, rxCb := true, packet := Mem.zeros 16,
                       format := Gen.SX127X_VARIABLE, crcType := Gen.SX127X_CRC_CCITT } }
    { pending := [2, 7, 9], cfg1 := 0x98 } := by
  refine ⟨⟨_, rfl, ?_⟩, ?_, rfl⟩
  · refine rx_start _ _ _ _ ⟨Or.inl rfl, Or.inl rfl, rfl, by decide, by decide, ?_, ?_⟩ rfl rfl ⟨rfl, rfl⟩ rfl rfl rfl rfl rfl rfl
    · exact Or.inl ⟨rfl, 2, [], rfl, by decide, by decide⟩
    · constructor
      · intro _; decide
      · intro _; decide
  · exact ⟨rfl, by decide, by decide, by decide, by decide, by decide, by decide, by decide, by decide, by decide, by decide, by decide⟩

/-- admissible reception histories on the chip model, relative to the bytes of the frame that are
    still on the air (`rem`) and to whether the demodulator has signalled the end of the packet
    (`ov`): the next byte arrives while the FIFO has room (read off the chip), the end is
    signalled once after the last byte with the frame's CRC outcome, the host runs the handler -/
def RxHist (c : SysCfg) (crcGood : Bool) : Sys → List UInt8 → Bool → List Op → Prop
  | _, _, _, [] => True
  | s, rem, ov, op :: ops =>
    match op with
    | .env (.rxByte b) =>
      (match rem with
       | b' :: rest => b' = b ∧ s.world.chip.fifo.length ≤ 62 ∧ RxHist c crcGood (s.step c op).1 rest ov ops
       | [] => False)
    | .env (.rxEnd ok) => rem = [] ∧ ov = false ∧ ok = crcGood ∧ RxHist c crcGood (s.step c op).1 [] true ops
    | .api .irq [] [] => RxHist c crcGood (s.step c op).1 rem ov ops
    | _ => False

/-- what the application sees of a reception history: nothing, until one invocation shows exactly
    the receive callback with the payload and its length -/
def RxSeen (P : List UInt8) : List Obs → Prop
  | [] => True
  | o :: rest => (∃ u, o = .ub u) ∨ (o.cbEvents = [] ∧ RxSeen P rest) ∨ o.cbEvents = [.rx P P.length]

/-- **C03 on the chip model, whole histories.** From a reception in progress (uncached build, no
    application reaction, CrcAutoClearOff as the driver configures it), for a frame whose CRC is
    good or not checked, and for every admissible history of byte arrivals, the end-of-packet
    signal and handler invocations — spurious and repeated ones included —: the application sees
    nothing until one invocation shows exactly one receive callback with exactly the payload and
    its length. -/
theorem C03_history_on_chip (hdr P : List UInt8) (c : SysCfg) (hc : c.cached = false) (hnr : c.NoReact) (hfuel : 64 ≤ c.fuel)
    (ops : List Op) (s : Sys) (g : RxG) (hr : Receiving hdr P s g)
    (hcrc : g.crcOn = true → g.crcGood = true) (hauto : g.cfg1 &&& 0x08 ≠ 0)
    (hadm : RxHist c g.crcGood s g.pending g.over ops) : RxSeen P (Sys.run c s ops).2 := by
  induction ops generalizing s g with
  | nil => trivial
  | cons op rest ih =>
    simp only [Sys.run]
    unfold RxHist at hadm
    cases op with
    | env e =>
      cases e with
      | rxByte b =>
        simp only at hadm
        cases hp : g.pending with
        | nil => rw [hp] at hadm; exact absurd hadm id
        | cons b' tl =>
          rw [hp] at hadm
          obtain ⟨hb, hroom, hrest⟩ := hadm
          subst hb
          have hroom' : g.fifo.length ≤ 62 := by rw [← hr.chip.fifo]; exact hroom
          obtain ⟨hr', ho⟩ := hr.byte c b' tl hp hroom'
          obtain ⟨h, _, hv⟩ := hr.handle
          have hadv : g.Adv (g.arrive 1 false) := ⟨1, false, ⟨by rw [hp]; simp, by omega⟩, rfl⟩
          have hs := (hv.adv hadv).2.1
          have hpend : (g.arrive 1 false).pending = tl := by unfold RxG.arrive; simp [hp]
          have hover : (g.arrive 1 false).over = g.over := by unfold RxG.arrive; simp [hp]
          right; left
          refine ⟨by rw [ho]; rfl, ih _ _ hr' ?_ ?_ ?_⟩
          · unfold RxG.crcOn; rw [hs.cfg1, hs.crcGood]; exact hcrc
          · rw [hs.cfg1]; exact hauto
          · rw [hpend, hover, hs.crcGood]; exact hrest
      | rxEnd ok =>
        simp only at hadm
        obtain ⟨hp, hov, hok, hrest⟩ := hadm
        subst hok
        obtain ⟨hr', ho⟩ := hr.fin c hp hov hauto
        obtain ⟨h, _, hv⟩ := hr.handle
        have hadm0 : g.Adm 0 := ⟨Nat.zero_le _, by have := hr.chip.room; omega⟩
        have hs := (hv.adv ⟨0, true, hadm0, rfl⟩).2.1
        have hpend : (g.arrive 0 true).pending = [] := by unfold RxG.arrive; simp [hp]; split <;> rfl
        have hover : (g.arrive 0 true).over = true := by unfold RxG.arrive; simp [hp, hov]
        right; left
        refine ⟨by rw [ho]; rfl, ih _ _ hr' ?_ ?_ ?_⟩
        · unfold RxG.crcOn; rw [hs.cfg1, hs.crcGood]; exact hcrc
        · rw [hs.cfg1]; exact hauto
        · rw [hpend, hover, hs.crcGood]; exact hrest
      | _ => exact absurd hadm id
    | api a sched faults =>
      cases a with
      | irq =>
        cases sched with
        | cons _ _ => exact absurd hadm id
        | nil =>
          cases faults with
          | cons _ _ => exact absurd hadm id
          | nil =>
            simp only at hadm
            have := hr.irq c hc hnr hfuel
            generalize hst : s.step c (.api .irq [] []) = st at this hadm
            obtain ⟨s', o⟩ := st
            cases o with
            | ub u => left; exact ⟨u, rfl⟩
            | skipped => exact absurd this id
            | env => exact absurd this id
            | ret r cbs bus =>
              rcases this with ⟨g', hr', e, _, _, hpe, hov, hs⟩ | ⟨e, _⟩ | ⟨_, hon, hbad, _⟩
              · right; left
                refine ⟨e, ih s' g' hr' ?_ ?_ ?_⟩
                · unfold RxG.crcOn; rw [hs.cfg1, hs.crcGood]; exact hcrc
                · rw [hs.cfg1]; exact hauto
                · rw [hpe, hov, hs.crcGood]; exact hadm
              · right; right; exact e
              · rw [hcrc hon] at hbad; cases hbad
      | _ => exact absurd hadm id


theorem SysCfg.NoReact.uncached {c : SysCfg} (h : c.NoReact) : c.uncached.NoReact := h

/-- **C03 on the chip model, whole histories, cached build.** The same as `C03_history_on_chip` for
    the build with the register cache, from any state whose cache is coherent: every step of the
    cached system is observably the step of its uncached twin (C02), whose reception is followed
    with `Receiving`. -/
theorem C03_history_on_chip_cached (hdr P : List UInt8) (c : SysCfg) (hc : c.cached = true) (hnr : c.NoReact)
    (hfuel : 64 ≤ c.fuel) (ops : List Op) (sc su : Sys) (sr : SR sc su) (g : RxG) (hr : Receiving hdr P su g)
    (hcrc : g.crcOn = true → g.crcGood = true) (hauto : g.cfg1 &&& 0x08 ≠ 0)
    (hadm : RxHist c g.crcGood sc g.pending g.over ops) : RxSeen P (Sys.run c sc ops).2 := by
  induction ops generalizing sc su g with
  | nil => trivial
  | cons op rest ih =>
    simp only [Sys.run]
    unfold RxHist at hadm
    cases op with
    | env e =>
      cases e with
      | rxByte b =>
        simp only at hadm
        cases hp : g.pending with
        | nil => rw [hp] at hadm; exact absurd hadm id
        | cons b' tl =>
          rw [hp] at hadm
          obtain ⟨hb, hroom, hrest⟩ := hadm
          subst hb
          have hroom' : g.fifo.length ≤ 62 := by rw [← hr.chip.fifo, ← sr.chip]; exact hroom
          obtain ⟨hr', _⟩ := hr.byte c.uncached b' tl hp hroom'
          obtain ⟨h, _, hv⟩ := hr.handle
          have hadv : g.Adv (g.arrive 1 false) := ⟨1, false, ⟨by rw [hp]; simp, by omega⟩, rfl⟩
          have hs := (hv.adv hadv).2.1
          have hpend : (g.arrive 1 false).pending = tl := by unfold RxG.arrive; simp [hp]
          have hover : (g.arrive 1 false).over = g.over := by unfold RxG.arrive; simp [hp]
          have hsim := step_sim c hc hnr.valid sc su sr (.env (.rxByte b')) trivial trivial rfl
          right; left
          refine ⟨rfl, ih _ _ (hsim.2 (fun u hu => by cases hu)) _ hr' ?_ ?_ ?_⟩
          · unfold RxG.crcOn; rw [hs.cfg1, hs.crcGood]; exact hcrc
          · rw [hs.cfg1]; exact hauto
          · rw [hpend, hover, hs.crcGood]; exact hrest
      | rxEnd ok =>
        simp only at hadm
        obtain ⟨hp, hov, hok, hrest⟩ := hadm
        subst hok
        obtain ⟨hr', _⟩ := hr.fin c.uncached hp hov hauto
        obtain ⟨h, _, hv⟩ := hr.handle
        have hadm0 : g.Adm 0 := ⟨Nat.zero_le _, by have := hr.chip.room; omega⟩
        have hs := (hv.adv ⟨0, true, hadm0, rfl⟩).2.1
        have hpend : (g.arrive 0 true).pending = [] := by unfold RxG.arrive; simp [hp]; split <;> rfl
        have hover : (g.arrive 0 true).over = true := by unfold RxG.arrive; simp [hp, hov]
        have hsim := step_sim c hc hnr.valid sc su sr (.env (.rxEnd g.crcGood)) trivial trivial rfl
        right; left
        refine ⟨rfl, ih _ _ (hsim.2 (fun u hu => by cases hu)) _ hr' ?_ ?_ ?_⟩
        · unfold RxG.crcOn; rw [hs.cfg1, hs.crcGood]; exact hcrc
        · rw [hs.cfg1]; exact hauto
        · rw [hpend, hover, hs.crcGood]; exact hrest
      | _ => exact absurd hadm id
    | api a sched faults =>
      cases a with
      | irq =>
        cases sched with
        | cons _ _ => exact absurd hadm id
        | nil =>
          cases faults with
          | cons _ _ => exact absurd hadm id
          | nil =>
            simp only at hadm
            have hsim := step_sim c hc hnr.valid sc su sr (.api .irq [] []) ⟨rfl, rfl⟩ trivial (fun e he => by cases he)
            have hun := hr.irq c.uncached rfl hnr.uncached hfuel
            generalize hsc : sc.step c (.api .irq [] []) = stc at hsim hadm
            generalize hsu : su.step c.uncached (.api .irq [] []) = stu at hsim hun
            obtain ⟨sc', oc⟩ := stc
            obtain ⟨su', ou⟩ := stu
            cases oc with
            | ub u => left; exact ⟨u, rfl⟩
            | skipped => cases ou <;> simp [ObsRel] at hsim <;> exact absurd hun id
            | env => cases ou <;> simp [ObsRel] at hsim <;> exact absurd hun id
            | ret r cbs bus =>
              cases ou with
              | ret r' cbs' bus' =>
                have hrel : r = r' ∧ cbs = cbs' ∧ _ := hsim.1
                obtain ⟨_, hcbs, _⟩ := hrel
                subst hcbs
                have sr' := hsim.2 (fun u hu => by cases hu)
                rcases hun with ⟨g', hr', e, _, _, hpe, hov, hs⟩ | ⟨e, _⟩ | ⟨_, hon, hbad, _⟩
                · right; left
                  refine ⟨e, ih sc' su' sr' g' hr' ?_ ?_ ?_⟩
                  · unfold RxG.crcOn; rw [hs.cfg1, hs.crcGood]; exact hcrc
                  · rw [hs.cfg1]; exact hauto
                  · rw [hpe, hov, hs.crcGood]; exact hadm
                · right; right; exact e
                · rw [hcrc hon] at hbad; cases hbad
              | _ => exact absurd hsim.1 (by simp [ObsRel])
      | _ => exact absurd hadm id

/-- non-vacuity: on the chip of the `Receiving` example, the three bytes of the frame `[2, 7, 9]`,
    the end-of-packet signal and a handler invocation form an admissible history -/
example : RxHist { cached := false } true
    { world := { chip := { fsk := ((Mem.zeros 128).wr 0x30 0x98).wr 0x35 31 } },
      handle := some { opmod := Gen.SX127x_MODE_RX_CONT, rxCb := true, packet := Mem.zeros 16,
                       format := Gen.SX127X_VARIABLE, crcType := Gen.SX127X_CRC_CCITT } }
    [2, 7, 9] false
    [.env (.rxByte 2), .env (.rxByte 7), .env (.rxByte 9), .env (.rxEnd true), .api .irq [] []] :=
  ⟨rfl, by decide, rfl, by decide, rfl, by decide, rfl, rfl, rfl, trivial⟩

end Sx
