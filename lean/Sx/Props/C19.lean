import Sx.Sys
import Sx.Lemmas.ContractAll
/-
  C19 (driver side) — every SPI request the driver issues is valid for the documented SPI
  interface: register reads and writes carry 1 to 4 bytes, buffer transfers at most 2047 bytes,
  and every transfer stays inside the register map 0x00..0x70.

  `contract_api` (Sx/Lemmas/ContractAll.lean) shows it for the program tree of every API
  function; the theorems here carry it to the bus: every transfer any history puts on the bus —
  with or without the register cache, whatever the chip answers, with any schedule of
  environment events and any failing transfers — satisfies `BusOk`.

  The backend half of C19 (Linux spidev / ESP-IDF framing) is decided by the backend
  correspondence check only (see DESIGN.md); it is not part of these theorems.
-/
namespace Sx

/-- the documented SPI contract, per bus transfer -/
def BusOk : BusEv → Prop
  | .r reg n _ => 1 ≤ n ∧ n ≤ 4 ∧ reg ≤ 0x70 ∧ reg + n ≤ 0x71
  | .w reg d _ => 1 ≤ d.length ∧ d.length ≤ 4 ∧ reg ≤ 0x70 ∧ reg + d.length ≤ 0x71
  | .rb reg n _ => n ≤ 2047 ∧ (reg = 0 ∨ reg + n ≤ 0x71)
  | .wb reg d _ => d.length ≤ 2047 ∧ (reg = 0 ∨ reg + d.length ≤ 0x71)

def BusAllOk (w : World) : Prop := ∀ ev ∈ w.bus, BusOk ev

theorem pre_bus (w : World) : w.pre.1.bus = w.bus := rfl

theorem busRead_allOk {w : World} (j : BusAllOk w) (reg n : Nat) (h : BusOk (.r reg n (.ok 0))) :
    BusAllOk (w.busRead reg n).2 := by
  unfold World.busRead
  have hb := pre_bus w
  generalize w.pre = p at hb
  obtain ⟨w0, code⟩ := p
  cases code <;> (intro ev hev; simp only [List.mem_cons] at hev; rcases hev with rfl | hev
                  · exact h
                  · exact j ev (hb ▸ hev))

theorem busReadBuf_allOk {w : World} (j : BusAllOk w) (reg n : Nat) (h : BusOk (.rb reg n (.ok []))) :
    BusAllOk (w.busReadBuf reg n).2 := by
  unfold World.busReadBuf
  have hb := pre_bus w
  generalize w.pre = p at hb
  obtain ⟨w0, code⟩ := p
  cases code <;> (intro ev hev; simp only [List.mem_cons] at hev; rcases hev with rfl | hev
                  · exact h
                  · exact j ev (hb ▸ hev))

theorem busWrite_allOk {w : World} (j : BusAllOk w) (reg : Nat) (d : List UInt8) (h : BusOk (.w reg d (.ok ()))) :
    BusAllOk (w.busWrite reg d).2 := by
  unfold World.busWrite
  have hb := pre_bus w
  generalize w.pre = p at hb
  obtain ⟨w0, code⟩ := p
  cases code <;> (intro ev hev; simp only [List.mem_cons] at hev; rcases hev with rfl | hev
                  · exact h
                  · exact j ev (hb ▸ hev))

theorem busWriteBuf_allOk {w : World} (j : BusAllOk w) (reg : Nat) (d : List UInt8) (h : BusOk (.wb reg d (.ok ()))) :
    BusAllOk (w.busWriteBuf reg d).2 := by
  unfold World.busWriteBuf
  have hb := pre_bus w
  generalize w.pre = p at hb
  obtain ⟨w0, code⟩ := p
  cases code <;> (intro ev hev; simp only [List.mem_cons] at hev; rcases hev with rfl | hev
                  · exact h
                  · exact j ev (hb ▸ hev))


theorem sread_allOk {cached : Bool} {w : World} (j : BusAllOk w) (reg n : Nat) (hp : ContractReq (.sread reg n))
    (r : Except Code UInt32) (w' : World) (h : Shadow.sread cached w reg n = .ok r w') : BusAllOk w' := by
  have hb : BusOk (.r reg n (.ok 0)) := ⟨hp.1, hp.2.1, by have := hp.2.2.2; have := hp.1; omega, hp.2.2.2⟩
  have hbus := busRead_allOk j reg n hb
  have hstep : ∀ r w', Shadow.busStep w reg n = .ok r w' → BusAllOk w' := by
    intro r w' h
    unfold Shadow.busStep at h
    generalize w.busRead reg n = br at h hbus
    obtain ⟨r0, w0⟩ := br
    cases h; exact hbus
  unfold Shadow.sread at h
  split at h
  · exact hstep r w' h
  · split at h
    · cases h
    · split at h
      · exact hstep r w' h
      · split at h
        · cases h
        · split at h
          · cases h; exact j
          · unfold Shadow.sreadMiss at h
            generalize w.busRead reg n = br at h hbus
            obtain ⟨res, w1⟩ := br
            cases res with
            | error c => simp only at h; cases h; exact hbus
            | ok v =>
              simp only at h
              unfold Shadow.sreadFill at h
              split at h
              · cases h
              · cases h; exact hbus

theorem rread_allOk {cached : Bool} {w : World} (j : BusAllOk w) (reg : Nat) (hp : ContractReq (.rread reg))
    (r : Except Code UInt8) (w' : World) (h : Shadow.rread cached w reg = .ok r w') : BusAllOk w' := by
  have hp' : reg ≤ 0x70 := hp
  have hb : BusOk (.r reg 1 (.ok 0)) := ⟨by decide, by decide, hp', by omega⟩
  have hbus := busRead_allOk j reg 1 hb
  have hstep : ∀ r w', Shadow.busStep1 w reg = .ok r w' → BusAllOk w' := by
    intro r w' h
    unfold Shadow.busStep1 at h
    generalize w.busRead reg 1 = br at h hbus
    obtain ⟨r0, w0⟩ := br
    cases h; exact hbus
  unfold Shadow.rread at h
  split at h
  · exact hstep r w' h
  · split at h
    · cases h
    · split at h
      · exact hstep r w' h
      · split at h
        · cases h; exact j
        · unfold Shadow.rreadMiss at h
          generalize w.busRead reg 1 = br at h hbus
          obtain ⟨res, w1⟩ := br
          cases res with
          | error c => simp only at h; cases h; exact hbus
          | ok v => simp only at h; cases h; exact hbus

theorem swrite_allOk {cached : Bool} {w : World} (j : BusAllOk w) (reg : Nat) (d : List UInt8)
    (hp : ContractReq (.swrite reg d)) (r : Except Code Unit) (w' : World)
    (h : Shadow.swrite cached w reg d = .ok r w') : BusAllOk w' := by
  have hb : BusOk (.w reg d (.ok ())) := ⟨hp.1, hp.2.1, by have := hp.2.2.1; have := hp.1; omega, hp.2.2.1⟩
  have hbus := busWrite_allOk j reg d hb
  unfold Shadow.swrite at h
  generalize w.busWrite reg d = br at h hbus
  obtain ⟨res, w1⟩ := br
  cases res with
  | error c => simp only at h; cases h; exact hbus
  | ok u =>
    simp only at h
    split at h
    · cases h; exact hbus
    · unfold Shadow.swriteStore at h
      dsimp only at h
      by_cases hop : reg = Gen.REGOPMODE
      · rw [if_pos hop] at h
        split at h
        · cases h
        · cases h; exact hbus
      · rw [if_neg hop] at h
        split at h
        · cases h
        · cases h; exact hbus

theorem bwrite_allOk {cached : Bool} {w : World} (j : BusAllOk w) (reg : Nat) (d : List UInt8)
    (hp : ContractReq (.bwrite reg d)) (r : Except Code Unit) (w' : World)
    (h : Shadow.bwrite cached w reg d = .ok r w') : BusAllOk w' := by
  have hb : BusOk (.wb reg d (.ok ())) := ⟨hp.1, by rcases hp.2 with h0 | h2; exact Or.inl h0; exact Or.inr h2.2⟩
  have hbus := busWriteBuf_allOk j reg d hb
  unfold Shadow.bwrite at h
  generalize w.busWriteBuf reg d = br at h hbus
  obtain ⟨res, w1⟩ := br
  cases res with
  | error c => simp only at h; cases h; exact hbus
  | ok u =>
    simp only at h
    split at h
    · cases h; exact hbus
    · unfold Shadow.bwriteStore at h
      split at h
      · cases h; exact hbus
      · split at h
        · cases h
        · cases h; exact hbus

/-- every program whose requests are within the contract puts only valid transfers on the bus -/
theorem execG_allOk (cached : Bool) (onCb : CbEvent → Handle → World → Outcome Handle)
    (hcb : ∀ e h w, BusAllOk w → BusAllOk (onCb e h w).world)
    (p : Prog α) (hp : p.All ContractReq) (w : World) (j : BusAllOk w) : BusAllOk (execG cached onCb p w).world := by
  induction p generalizing w with
  | ret a => exact j
  | ub u => exact j
  | sread reg n k ih =>
    simp only [execG]
    cases hs : Shadow.sread cached w reg n with
    | ok r w' => exact ih r (hp.2 r) w' (sread_allOk j reg n hp.1 r w' hs)
    | ub u => exact j
  | rread reg k ih =>
    simp only [execG]
    cases hs : Shadow.rread cached w reg with
    | ok r w' => exact ih r (hp.2 r) w' (rread_allOk j reg hp.1 r w' hs)
    | ub u => exact j
  | swrite reg d k ih =>
    simp only [execG]
    cases hs : Shadow.swrite cached w reg d with
    | ok r w' => exact ih r (hp.2 r) w' (swrite_allOk j reg d hp.1 r w' hs)
    | ub u => exact j
  | bwrite reg d k ih =>
    simp only [execG]
    cases hs : Shadow.bwrite cached w reg d with
    | ok r w' => exact ih r (hp.2 r) w' (bwrite_allOk j reg d hp.1 r w' hs)
    | ub u => exact j
  | bread reg n k ih =>
    simp only [execG]
    have hb : BusOk (.rb reg n (.ok [])) := ⟨hp.1.1, by rcases hp.1.2 with h0 | h1; exact Or.inl h0; exact Or.inr h1.2⟩
    have := busReadBuf_allOk j reg n hb
    generalize w.busReadBuf reg n = br at this
    obtain ⟨r, w1⟩ := br
    exact ih r (hp.2 r) w1 this
  | rawbread reg n k ih =>
    simp only [execG]
    have hb : BusOk (.rb reg n (.ok [])) := ⟨hp.1.1, by rcases hp.1.2 with h0 | h1; exact Or.inl h0; exact Or.inr h1.2⟩
    have := busReadBuf_allOk j reg n hb
    generalize w.busReadBuf reg n = br at this
    obtain ⟨r, w1⟩ := br
    exact ih r (hp.2 r) w1 this
  | callback e h k ih =>
    simp only [execG]
    have := hcb e h w j
    cases hc : onCb e h w with
    | done h' w' => rw [hc] at this; exact ih h' (hp h') w' this
    | ub u w' => rw [hc] at this; exact this

/-- the calls of a history and of the application's callbacks take arguments within the
    documented C types and the register map -/
def Op.Valid : Op → Prop
  | .env _ => True
  | .api a _ _ => a.Valid

def SysCfg.Valid (c : SysCfg) : Prop :=
  (∀ a, c.onRx = some a → a.Valid) ∧ (∀ a, c.onTx = some a → a.Valid) ∧ (∀ a, c.onCad = some a → a.Valid)

theorem onCb_allOk (c : SysCfg) (hc : c.Valid) (e : CbEvent) (h : Handle) (w : World) (j : BusAllOk w) :
    BusAllOk (c.toCfg.onCb e h w).world := by
  unfold Cfg.onCb
  cases hr : c.toCfg.reactionFor e with
  | none => exact j
  | some re =>
    simp only
    have key : ∀ o : Option Api, (∀ a, o = some a → a.Valid) → c.reaction o = some re → (re.run h).All ContractReq := by
      intro o hval ho
      cases o with
      | none => simp [SysCfg.reaction] at ho
      | some api =>
        simp only [SysCfg.reaction] at ho
        split at ho
        · cases ho
        · cases ho
          exact (contract_api c.cap c.fuel api (hval api rfl)).all h
    have hall : (re.run h).All ContractReq := by
      cases e with
      | rx d l => exact key c.onRx hc.1 hr
      | tx => exact key c.onTx hc.2.1 hr
      | cad d => exact key c.onCad hc.2.2 hr
    have := execG_allOk c.toCfg.cached logCb (fun _ _ _ j => j) (re.run h) hall w j
    unfold exec0
    cases hx : execG c.toCfg.cached logCb (re.run h) w with
    | done a w' => rw [hx] at this; obtain ⟨r, h'⟩ := a; exact this
    | ub u w' => rw [hx] at this; exact this

theorem allOk_start (w : World) (sched : List (Nat × Env)) (faults : List (Nat × Code)) (k : Cache) :
    BusAllOk { w with xfer := 0, sched := sched, faults := faults, bus := [], cbs := [], cache := k } := by
  intro ev hev; cases hev

/-- **C19 (driver side).** For either build (register cache on or off), every packet-buffer
    size, any initial chip, any history of valid API calls, handler invocations, environment
    events (also between the transfers of a call) and failing transfers: every transfer the
    driver puts on the bus during any operation is within the SPI contract. -/
theorem C19_driver_requests_valid (c : SysCfg) (hc : c.Valid) (s : Sys) (op : Op) (hop : op.Valid)
    (r : Except Code Out) (cbs : List CbRec) (bus : List BusEv) (hobs : (s.step c op).2 = .ret r cbs bus) :
    ∀ ev ∈ bus, BusOk ev := by
  cases op with
  | env e => simp [Sys.step] at hobs
  | api a sched faults =>
    unfold Sys.step at hobs
    dsimp only at hobs
    split at hobs
    · cases hobs
    · have j0 := allOk_start s.world sched faults (if a.isCreate then Cache.fresh else s.world.cache)
      have := execG_allOk c.toCfg.cached c.toCfg.onCb (onCb_allOk c hc) _
        ((contract_api c.cap c.fuel a hop).all (s.handle.getD {})) _ j0
      unfold exec at hobs
      generalize execG c.toCfg.cached c.toCfg.onCb (Api.prog c.cap c.fuel a (s.handle.getD {})) _ = out at this hobs
      cases out with
      | ub u w => cases hobs
      | done rh w =>
        obtain ⟨r', h⟩ := rh
        simp only [Obs.ret.injEq] at hobs
        obtain ⟨_, _, hb⟩ := hobs
        intro ev hev
        rw [← hb] at hev
        have hev' : ev ∈ w.bus := by simpa using hev
        exact this ev hev'

def Obs.bus : Obs → List BusEv
  | .ret _ _ b => b
  | _ => []

/-- non-vacuity: a concrete valid operation with a transfer on the bus -/
example : (Sys.step {} { world := { chip := Chip.init } } (.api .create [] [])).2.bus.length = 1 := by
  decide +kernel

end Sx
