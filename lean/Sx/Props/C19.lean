import Sx.Sys
import Sx.Lemmas.ContractAll
import Sx.Lemmas.Backend
/-
  C19 (driver side) — every SPI request the driver issues is valid for the documented SPI
  interface: register reads and writes carry 1 to 4 bytes, buffer transfers at most 2047 bytes,
  and every transfer stays inside the register map 0x00..0x70.

  `contract_api` (Sx/Lemmas/ContractAll.lean) shows it for the program tree of every API
  function; the theorems here carry it to the bus: every transfer any history puts on the bus —
  with or without the register cache, whatever the chip answers, with any schedule of
  environment events and any failing transfers — satisfies `BusOk`.

  The backend half of C19 (Linux spidev / ESP-IDF framing) is decided by the backend
  correspondence check only (see DESIGN.md); it is not part of these theorems.
-/
namespace Sx

/-- the documented SPI contract, per bus transfer -/
def BusOk : BusEv → Prop
  | .r reg n _ => 1 ≤ n ∧ n ≤ 4 ∧ reg ≤ 0x70 ∧ reg + n ≤ 0x71
  | .w reg d _ => 1 ≤ d.length ∧ d.length ≤ 4 ∧ reg ≤ 0x70 ∧ reg + d.length ≤ 0x71
  | .rb reg n _ => n ≤ 2047 ∧ (reg = 0 ∨ reg + n ≤ 0x71)
  | .wb reg d _ => d.length ≤ 2047 ∧ (reg = 0 ∨ reg + d.length ≤ 0x71)

def BusAllOk (w : World) : Prop := ∀ ev ∈ w.bus, BusOk ev

theorem pre_bus (w : World) : w.pre.1.bus = w.bus := rfl

theorem busRead_allOk {w : World} (j : BusAllOk w) (reg n : Nat) (h : BusOk (.r reg n (.ok 0))) :
    BusAllOk (w.busRead reg n).2 := by
  unfold World.busRead
  have hb := pre_bus w
  generalize w.pre = p at hb
  obtain ⟨w0, code⟩ := p
  cases code <;> (intro ev hev; simp only [List.mem_cons] at hev; rcases hev with rfl | hev
                  · exact h
                  · exact j ev (hb ▸ hev))

theorem busReadBuf_allOk {w : World} (j : BusAllOk w) (reg n : Nat) (h : BusOk (.rb reg n (.ok []))) :
    BusAllOk (w.busReadBuf reg n).2 := by
  unfold World.busReadBuf
  have hb := pre_bus w
  generalize w.pre = p at hb
  obtain ⟨w0, code⟩ := p
  cases code <;> (intro ev hev; simp only [List.mem_cons] at hev; rcases hev with rfl | hev
                  · exact h
                  · exact j ev (hb ▸ hev))

theorem busWrite_allOk {w : World} (j : BusAllOk w) (reg : Nat) (d : List UInt8) (h : BusOk (.w reg d (.ok ()))) :
    BusAllOk (w.busWrite reg d).2 := by
  unfold World.busWrite
  have hb := pre_bus w
  generalize w.pre = p at hb
  obtain ⟨w0, code⟩ := p
  cases code <;> (intro ev hev; simp only [List.mem_cons] at hev; rcases hev with rfl | hev
                  · exact h
                  · exact j ev (hb ▸ hev))

theorem busWriteBuf_allOk {w : World} (j : BusAllOk w) (reg : Nat) (d : List UInt8) (h : BusOk (.wb reg d (.ok ()))) :
    BusAllOk (w.busWriteBuf reg d).2 := by
  unfold World.busWriteBuf
  have hb := pre_bus w
  generalize w.pre = p at hb
  obtain ⟨w0, code⟩ := p
  cases code <;> (intro ev hev; simp only [List.mem_cons] at hev; rcases hev with rfl | hev
                  · exact h
                  · exact j ev (hb ▸ hev))


theorem sread_allOk {cached : Bool} {w : World} (j : BusAllOk w) (reg n : Nat) (hp : ContractReq (.sread reg n))
    (r : Except Code UInt32) (w' : World) (h : Shadow.sread cached w reg n = .ok r w') : BusAllOk w' := by
  have hb : BusOk (.r reg n (.ok 0)) := ⟨hp.1, hp.2.1, by have := hp.2.2.2; have := hp.1; omega, hp.2.2.2⟩
  have hbus := busRead_allOk j reg n hb
  have hstep : ∀ r w', Shadow.busStep w reg n = .ok r w' → BusAllOk w' := by
    intro r w' h
    unfold Shadow.busStep at h
    generalize w.busRead reg n = br at h hbus
    obtain ⟨r0, w0⟩ := br
    cases h; exact hbus
  unfold Shadow.sread at h
  split at h
  · exact hstep r w' h
  · split at h
    · cases h
    · split at h
      · exact hstep r w' h
      · split at h
        · cases h
        · split at h
          · cases h; exact j
          · unfold Shadow.sreadMiss at h
            generalize w.busRead reg n = br at h hbus
            obtain ⟨res, w1⟩ := br
            cases res with
            | error c => simp only at h; cases h; exact hbus
            | ok v =>
              simp only at h
              unfold Shadow.sreadFill at h
              split at h
              · cases h
              · cases h; exact hbus

theorem rread_allOk {cached : Bool} {w : World} (j : BusAllOk w) (reg : Nat) (hp : ContractReq (.rread reg))
    (r : Except Code UInt8) (w' : World) (h : Shadow.rread cached w reg = .ok r w') : BusAllOk w' := by
  have hp' : reg ≤ 0x70 := hp
  have hb : BusOk (.r reg 1 (.ok 0)) := ⟨by decide, by decide, hp', by omega⟩
  have hbus := busRead_allOk j reg 1 hb
  have hstep : ∀ r w', Shadow.busStep1 w reg = .ok r w' → BusAllOk w' := by
    intro r w' h
    unfold Shadow.busStep1 at h
    generalize w.busRead reg 1 = br at h hbus
    obtain ⟨r0, w0⟩ := br
    cases h; exact hbus
  unfold Shadow.rread at h
  split at h
  · exact hstep r w' h
  · split at h
    · cases h
    · split at h
      · exact hstep r w' h
      · split at h
        · cases h; exact j
        · unfold Shadow.rreadMiss at h
          generalize w.busRead reg 1 = br at h hbus
          obtain ⟨res, w1⟩ := br
          cases res with
          | error c => simp only at h; cases h; exact hbus
          | ok v => simp only at h; cases h; exact hbus

theorem swrite_allOk {cached : Bool} {w : World} (j : BusAllOk w) (reg : Nat) (d : List UInt8)
    (hp : ContractReq (.swrite reg d)) (r : Except Code Unit) (w' : World)
    (h : Shadow.swrite cached w reg d = .ok r w') : BusAllOk w' := by
  have hb : BusOk (.w reg d (.ok ())) := ⟨hp.1, hp.2.1, by have := hp.2.2.1; have := hp.1; omega, hp.2.2.1⟩
  have hbus := busWrite_allOk j reg d hb
  unfold Shadow.swrite at h
  generalize w.busWrite reg d = br at h hbus
  obtain ⟨res, w1⟩ := br
  cases res with
  | error c => simp only at h; cases h; exact hbus
  | ok u =>
    simp only at h
    split at h
    · cases h; exact hbus
    · unfold Shadow.swriteStore at h
      dsimp only at h
      by_cases hop : reg = Gen.REGOPMODE
      · rw [if_pos hop] at h
        split at h
        · cases h
        · cases h; exact hbus
      · rw [if_neg hop] at h
        split at h
        · cases h
        · cases h; exact hbus

theorem bwrite_allOk {cached : Bool} {w : World} (j : BusAllOk w) (reg : Nat) (d : List UInt8)
    (hp : ContractReq (.bwrite reg d)) (r : Except Code Unit) (w' : World)
    (h : Shadow.bwrite cached w reg d = .ok r w') : BusAllOk w' := by
  have hb : BusOk (.wb reg d (.ok ())) := ⟨hp.1, by rcases hp.2 with h0 | h2; exact Or.inl h0; exact Or.inr h2.2⟩
  have hbus := busWriteBuf_allOk j reg d hb
  unfold Shadow.bwrite at h
  generalize w.busWriteBuf reg d = br at h hbus
  obtain ⟨res, w1⟩ := br
  cases res with
  | error c => simp only at h; cases h; exact hbus
  | ok u =>
    simp only at h
    split at h
    · cases h; exact hbus
    · unfold Shadow.bwriteStore at h
      split at h
      · cases h; exact hbus
      · split at h
        · cases h
        · cases h; exact hbus

/-- every program whose requests are within the contract puts only valid transfers on the bus -/
theorem execG_allOk (cached : Bool) (onCb : CbEvent → Handle → World → Outcome Handle)
    (hcb : ∀ e h w, BusAllOk w → BusAllOk (onCb e h w).world)
    (p : Prog α) (hp : p.All ContractReq) (w : World) (j : BusAllOk w) : BusAllOk (execG cached onCb p w).world := by
  induction p generalizing w with
  | ret a => exact j
  | ub u => exact j
  | sread reg n k ih =>
    simp only [execG]
    cases hs : Shadow.sread cached w reg n with
    | ok r w' => exact ih r (hp.2 r) w' (sread_allOk j reg n hp.1 r w' hs)
    | ub u => exact j
  | rread reg k ih =>
    simp only [execG]
    cases hs : Shadow.rread cached w reg with
    | ok r w' => exact ih r (hp.2 r) w' (rread_allOk j reg hp.1 r w' hs)
    | ub u => exact j
  | swrite reg d k ih =>
    simp only [execG]
    cases hs : Shadow.swrite cached w reg d with
    | ok r w' => exact ih r (hp.2 r) w' (swrite_allOk j reg d hp.1 r w' hs)
    | ub u => exact j
  | bwrite reg d k ih =>
    simp only [execG]
    cases hs : Shadow.bwrite cached w reg d with
    | ok r w' => exact ih r (hp.2 r) w' (bwrite_allOk j reg d hp.1 r w' hs)
    | ub u => exact j
  | bread reg n k ih =>
    simp only [execG]
    have hb : BusOk (.rb reg n (.ok [])) := ⟨hp.1.1, by rcases hp.1.2 with h0 | h1; exact Or.inl h0; exact Or.inr h1.2⟩
    have := busReadBuf_allOk j reg n hb
    generalize w.busReadBuf reg n = br at this
    obtain ⟨r, w1⟩ := br
    exact ih r (hp.2 r) w1 this
  | rawbread reg n k ih =>
    simp only [execG]
    have hb : BusOk (.rb reg n (.ok [])) := ⟨hp.1.1, by rcases hp.1.2 with h0 | h1; exact Or.inl h0; exact Or.inr h1.2⟩
    have := busReadBuf_allOk j reg n hb
    generalize w.busReadBuf reg n = br at this
    obtain ⟨r, w1⟩ := br
    exact ih r (hp.2 r) w1 this
  | callback e h k ih =>
    simp only [execG]
    have := hcb e h w j
    cases hc : onCb e h w with
    | done h' w' => rw [hc] at this; exact ih h' (hp h') w' this
    | ub u w' => rw [hc] at this; exact this

/-- the calls of a history and of the application's callbacks take arguments within the
    documented C types and the register map -/
def Op.Valid : Op → Prop
  | .env _ => True
  | .api a _ _ => a.Valid

def SysCfg.Valid (c : SysCfg) : Prop :=
  (∀ a, c.onRx = some a → a.Valid) ∧ (∀ a, c.onTx = some a → a.Valid) ∧ (∀ a, c.onCad = some a → a.Valid)

theorem onCb_allOk (c : SysCfg) (hc : c.Valid) (e : CbEvent) (h : Handle) (w : World) (j : BusAllOk w) :
    BusAllOk (c.toCfg.onCb e h w).world := by
  unfold Cfg.onCb
  cases hr : c.toCfg.reactionFor e with
  | none => exact j
  | some re =>
    simp only
    have key : ∀ o : Option Api, (∀ a, o = some a → a.Valid) → c.reaction o = some re → (re.run h).All ContractReq := by
      intro o hval ho
      cases o with
      | none => simp [SysCfg.reaction] at ho
      | some api =>
        simp only [SysCfg.reaction] at ho
        split at ho
        · cases ho
        · cases ho
          exact (contract_api c.cap c.fuel api (hval api rfl)).all h
    have hall : (re.run h).All ContractReq := by
      cases e with
      | rx d l => exact key c.onRx hc.1 hr
      | tx => exact key c.onTx hc.2.1 hr
      | cad d => exact key c.onCad hc.2.2 hr
    have := execG_allOk c.toCfg.cached logCb (fun _ _ _ j => j) (re.run h) hall w j
    unfold exec0
    cases hx : execG c.toCfg.cached logCb (re.run h) w with
    | done a w' => rw [hx] at this; obtain ⟨r, h'⟩ := a; exact this
    | ub u w' => rw [hx] at this; exact this

theorem allOk_start (w : World) (sched : List (Nat × Env)) (faults : List (Nat × Code)) (k : Cache) :
    BusAllOk { w with xfer := 0, sched := sched, faults := faults, bus := [], cbs := [], cache := k } := by
  intro ev hev; cases hev

/-- **C19 (driver side).** For either build (register cache on or off), every packet-buffer
    size, any initial chip, any history of valid API calls, handler invocations, environment
    events (also between the transfers of a call) and failing transfers: every transfer the
    driver puts on the bus during any operation is within the SPI contract. -/
theorem C19_driver_requests_valid (c : SysCfg) (hc : c.Valid) (s : Sys) (op : Op) (hop : op.Valid)
    (r : Except Code Out) (cbs : List CbRec) (bus : List BusEv) (hobs : (s.step c op).2 = .ret r cbs bus) :
    ∀ ev ∈ bus, BusOk ev := by
  cases op with
  | env e => simp [Sys.step] at hobs
  | api a sched faults =>
    unfold Sys.step at hobs
    dsimp only at hobs
    split at hobs
    · cases hobs
    · have j0 := allOk_start s.world sched faults (if a.isCreate then Cache.fresh else s.world.cache)
      have := execG_allOk c.toCfg.cached c.toCfg.onCb (onCb_allOk c hc) _
        ((contract_api c.cap c.fuel a hop).all (s.handle.getD {})) _ j0
      unfold exec at hobs
      generalize execG c.toCfg.cached c.toCfg.onCb (Api.prog c.cap c.fuel a (s.handle.getD {})) _ = out at this hobs
      cases out with
      | ub u w => cases hobs
      | done rh w =>
        obtain ⟨r', h⟩ := rh
        simp only [Obs.ret.injEq] at hobs
        obtain ⟨_, _, hb⟩ := hobs
        intro ev hev
        rw [← hb] at hev
        have hev' : ev ∈ w.bus := by simpa using hev
        exact this ev hev'

def Obs.bus : Obs → List BusEv
  | .ret _ _ b => b
  | _ => []

/-- non-vacuity: a concrete valid operation with a transfer on the bus -/
example : (Sys.step {} { world := { chip := Chip.init } } (.api .create [] [])).2.bus.length = 1 := by
  decide +kernel

end Sx

/-! ## The bundled SPI backends (`Sx/Model/Backend.lean`) -/

namespace Sx.Backend

/-- the transaction the SPI interface documents for a read of `n` bytes at `reg`: the address with
    the write bit clear, then `n` idle bytes while the chip answers -/
def readFrame (reg n : Nat) : List UInt8 := byte reg :: zeros n
/-- … and for a write: the address with the write bit set, then the data bytes in order -/
def writeFrame (reg : Nat) (data : List UInt8) : List UInt8 := byte (reg + 128) :: data

/-- the first byte of a read frame has the write bit clear, that of a write frame has it set, and
    the low seven bits are the address -/
theorem C19_backend_write_bit : ∀ reg, reg ≤ 0x7f →
    (byte reg).toNat = reg ∧ (byte (reg + 128)).toNat = reg + 128 := by
  decide +kernel

/-- which backend -/
inductive Impl | linux | esp
  deriving DecidableEq

def readRegisters : Impl → Nat → Nat → Wire → Out
  | .linux => linReadRegisters | .esp => espReadRegisters
def readBuffer : Impl → Nat → Nat → Wire → Out
  | .linux => linReadBuffer | .esp => espReadBuffer
def writeRegister : Impl → Nat → List UInt8 → Wire → Out
  | .linux => linWriteRegister | .esp => espWriteRegister
def writeBuffer : Impl → Nat → List UInt8 → Wire → Out
  | .linux => linWriteBuffer | .esp => espWriteBuffer

/-- **C19 (backends), register read.** For either backend, every register address, every length
    1..4, every byte clocked in during the address phase and every answer of the chip: exactly one
    transaction, whose bytes are the address with the write bit clear followed by idle bytes; the
    call returns 0 and stores the chip's bytes most significant first. -/
theorem C19_backend_read_registers (i : Impl) (reg n : Nat) (hr : reg ≤ 0x7f) (h1 : 1 ≤ n) (h4 : n ≤ 4)
    (g : UInt8) (ans : List UInt8) (hl : ans.length = n) :
    readRegisters i reg n { garbage := g, miso := ans } =
      { rc := 0, frames := [readFrame reg n], word := some (msbFirst ans) } := by
  have hn : ¬ (n = 0 ∨ n > 4) := by omega
  cases i with
  | linux =>
    simp only [readRegisters, linReadRegisters, Gen.LIN_read_registers_GUARD, if_neg hn, ne_eq, not_true_eq_false,
      if_false, and_7f_of_le reg hr, leBytes_small n reg (by omega), lin_word g ans n h1 h4 hl, readFrame]
  | esp =>
    simp only [readRegisters, espReadRegisters, Gen.ESP_read_registers_GUARD, if_neg hn, ne_eq, not_true_eq_false,
      if_false, and_7f_of_le' reg hr, readFrame]
    have := esp_word ans n h4 hl
    simp only [rxData] at this ⊢
    rw [this]

/-- **C19 (backends), register write.** Exactly one transaction: the address with the write bit
    set, then the data bytes in order; the call returns 0. -/
theorem C19_backend_write_register (i : Impl) (reg : Nat) (hr : reg ≤ 0x7f) (data : List UInt8)
    (h1 : 1 ≤ data.length) (h4 : data.length ≤ 4) (g : UInt8) (ans : List UInt8) :
    writeRegister i reg data { garbage := g, miso := ans } = { rc := 0, frames := [writeFrame reg data] } := by
  have hn : ¬ (data.length = 0 ∨ data.length > 4) := by omega
  cases i with
  | linux =>
    simp only [writeRegister, linWriteRegister, Gen.LIN_write_register_GUARD, if_neg hn, ne_eq, not_true_eq_false,
      if_false, or_80_of_le reg hr, writeFrame]
  | esp =>
    simp only [writeRegister, espWriteRegister, Gen.ESP_write_register_GUARD, if_neg hn, or_80_of_le reg hr, writeFrame]

/-- **C19 (backends), buffer read** of 1..2047 bytes: one transaction, the chip's bytes in order. -/
theorem C19_backend_read_buffer (i : Impl) (reg n : Nat) (hr : reg ≤ 0x7f) (h1 : 1 ≤ n) (hm : n ≤ 2047)
    (g : UInt8) (ans : List UInt8) (hl : ans.length = n) :
    readBuffer i reg n { garbage := g, miso := ans } = { rc := 0, frames := [readFrame reg n], buf := some ans } := by
  cases i with
  | linux =>
    have e := rxBytes_exact g ans n hl
    simp only [readBuffer, linReadBuffer, Gen.SPI_MAX_TRANSFER_SIZE, if_neg (show ¬ n < 1 by omega),
      if_neg (show ¬ n > 2047 by omega), ne_eq, not_true_eq_false, if_false, and_7f_of_le reg hr, readFrame, e]
  | esp =>
    have e := rxData_exact ans n hl
    simp only [rxData] at e
    simp only [readBuffer, espReadBuffer, ne_eq, not_true_eq_false, if_false, and_7f_of_le' reg hr, readFrame, rxData, e]

/-- **C19 (backends), buffer write** of 1..2047 bytes: one transaction, address with the write bit,
    then the caller's bytes in order. -/
theorem C19_backend_write_buffer (i : Impl) (reg : Nat) (hr : reg ≤ 0x7f) (data : List UInt8)
    (h1 : 1 ≤ data.length) (hm : data.length ≤ 2047) (g : UInt8) (ans : List UInt8) :
    writeBuffer i reg data { garbage := g, miso := ans } = { rc := 0, frames := [writeFrame reg data] } := by
  cases i with
  | linux =>
    simp [writeBuffer, linWriteBuffer, Gen.SPI_MAX_TRANSFER_SIZE, show ¬ data.length < 1 by omega,
      show ¬ data.length > 2047 by omega, or_80_of_le reg hr, writeFrame]
  | esp => simp [writeBuffer, espWriteBuffer, or_80_of_le reg hr, writeFrame]

/-- **C19 (backends), failures.** Whatever the request, a transaction that fails (the primitive
    reports a non-zero `errno` / `esp_err_t`) is never reported as success, and no call issues more
    than one transaction. -/
theorem C19_backend_failure_reported (i : Impl) (reg n : Nat) (data : List UInt8) (w : Wire) (hf : w.fail ≠ 0) :
    (∀ o ∈ [readRegisters i reg n w, readBuffer i reg n w, writeRegister i reg data w, writeBuffer i reg data w],
      o.frames.length ≤ 1 ∧ (o.frames ≠ [] → o.rc ≠ 0)) := by
  intro o ho
  simp only [List.mem_cons, List.mem_nil_iff, or_false] at ho
  cases i <;> rcases ho with rfl | rfl | rfl | rfl <;>
    simp only [readRegisters, readBuffer, writeRegister, writeBuffer, linReadRegisters, linReadBuffer, linWriteRegister,
      linWriteBuffer, espReadRegisters, espReadBuffer, espWriteRegister, espWriteBuffer] <;>
    (repeat' split) <;> simp_all

/-- **C19 (backends), out-of-contract lengths.** A register transfer of 0 or more than 4 bytes is
    refused by both backends without a transaction; the Linux backend also refuses a buffer
    transfer above 2047 bytes, and no transaction it issues is longer than the local arrays it
    is staged in. -/
theorem C19_backend_lengths_guarded (i : Impl) (reg n : Nat) (data : List UInt8) (w : Wire) :
    ((n = 0 ∨ n > 4) → (readRegisters i reg n w).rc ≠ 0 ∧ (readRegisters i reg n w).frames = []) ∧
    ((data.length = 0 ∨ data.length > 4) → (writeRegister i reg data w).rc ≠ 0 ∧ (writeRegister i reg data w).frames = []) ∧
    (∀ f ∈ (linReadRegisters reg n w).frames, f.length ≤ 8) ∧
    (∀ f ∈ (linWriteRegister reg data w).frames, f.length ≤ Gen.LIN_write_register_tmp_SIZE) ∧
    (∀ f ∈ (linReadBuffer reg n w).frames, f.length ≤ Gen.LIN_read_buffer_tx_buf_SIZE ∧ f.length ≤ Gen.LIN_read_buffer_rx_buf_SIZE) ∧
    (∀ f ∈ (linWriteBuffer reg data w).frames, f.length ≤ Gen.LIN_write_buffer_tx_buf_SIZE) ∧
    (n > 2047 → (linReadBuffer reg n w).rc ≠ 0 ∧ (linReadBuffer reg n w).frames = []) ∧
    (data.length > 2047 → (linWriteBuffer reg data w).rc ≠ 0 ∧ (linWriteBuffer reg data w).frames = []) := by
  have lz : ∀ k, (zeros k).length = k := zeros_length
  refine ⟨?_, ?_, ?_, ?_, ?_, ?_, ?_, ?_⟩
  · intro h; cases i <;> simp [readRegisters, linReadRegisters, espReadRegisters, Gen.LIN_read_registers_GUARD,
      Gen.ESP_read_registers_GUARD, h, EINVAL_LEN, Gen.ESP_ERR_INVALID_ARG]
  · intro h; cases i <;> simp only [writeRegister, linWriteRegister, espWriteRegister, Gen.LIN_write_register_GUARD,
      Gen.ESP_write_register_GUARD, if_pos h, EINVAL_LEN, Gen.ESP_ERR_INVALID_ARG] <;> decide
  · intro f hf
    simp only [linReadRegisters, Gen.LIN_read_registers_GUARD] at hf
    split at hf
    · simp at hf
    · rename_i hn
      have e : f = leBytes (n + 1) ((reg % 256) &&& 0x7f) := by split at hf <;> simpa using hf
      have : ∀ k x, (leBytes k x).length = k := by
        intro k; induction k with
        | zero => intro x; rfl
        | succ k ih => intro x; simp [leBytes, ih]
      rw [e, this]; omega
  · intro f hf
    simp only [linWriteRegister, Gen.LIN_write_register_GUARD] at hf
    split at hf
    · simp at hf
    · rename_i hn
      have e : f = byte (reg ||| 0x80) :: data := by split at hf <;> simpa using hf
      rw [e]; simp only [List.length_cons, Gen.LIN_write_register_tmp_SIZE]; omega
  · intro f hf
    simp only [linReadBuffer, Gen.SPI_MAX_TRANSFER_SIZE] at hf
    split at hf
    · simp at hf
    · split at hf
      · simp at hf
      · have e : f = byte ((reg % 256) &&& 0x7f) :: zeros n := by split at hf <;> simpa using hf
        rw [e]; simp only [List.length_cons, lz, Gen.LIN_read_buffer_tx_buf_SIZE, Gen.LIN_read_buffer_rx_buf_SIZE]; omega
  · intro f hf
    simp only [linWriteBuffer, Gen.SPI_MAX_TRANSFER_SIZE] at hf
    split at hf
    · simp at hf
    · split at hf
      · simp at hf
      · have e : f = byte (reg ||| 0x80) :: data := by split at hf <;> simpa using hf
        rw [e]; simp only [List.length_cons, Gen.LIN_write_buffer_tx_buf_SIZE]; omega
  · intro h
    simp [linReadBuffer, Gen.SPI_MAX_TRANSFER_SIZE, show ¬ n < 1 by omega, h, Gen.ENOMEM]
  · intro h
    simp [linWriteBuffer, Gen.SPI_MAX_TRANSFER_SIZE, show ¬ data.length < 1 by omega, h, Gen.ENOMEM]

/-- non-vacuity / a concrete instance: reading the three carrier registers through the Linux backend -/
example : linReadRegisters 0x06 3 { garbage := 0xa5, miso := [0x6c, 0x80, 0x01] } =
    { rc := 0, frames := [[0x06, 0, 0, 0]], word := some 0x6c8001 } := by decide +kernel
example : espWriteRegister 0x06 [0x6c, 0x80, 0x01] {} = { rc := 0, frames := [[0x86, 0x6c, 0x80, 0x01]] } := by
  decide +kernel
example : (linReadBuffer 0 2048 {}).rc = 12 ∧ (linReadRegisters 1 5 {}).rc = -1 ∧ (espReadRegisters 1 0 {}).rc = 258 := by
  decide +kernel

end Sx.Backend
