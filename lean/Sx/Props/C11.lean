import Sx.Lemmas.FailFastAll
import Sx.Lemmas.HandleKeep
import Sx.Props.C01
/-
  C11 — SPI failures are reported, contained, and do not corrupt later packets.

  The predicates are defined in Sx/Lemmas/FailFast.lean and quantify over *every* answer of chip
  and bus: any value of a successful transfer and any error code of a failing one, at any
  transfer, any number of times.

  * `Prog.FailFast ex p` — at every request of `p` not exempted by `ex`, the continuation for a
    failed transfer is literally `return code;`: no further request (so no further register
    write), and the transfer's code is what the caller gets.
  * `Prog.fwp p false Q` — `p` never invokes the receive callback after a transfer has failed.
  * `DM.TX x` — whenever a transfer of `x` has failed, `x` ends with the handle it started with
    (Sx/Lemmas/HandleKeep.lean proves it for every public function that is not a packet operation).

  Cache content after a failed transfer is C01 (`C01_cache_coherent` covers every set of failing
  transfers).  What fault-free traffic does afterwards is C05/C06 for LoRa (whose statements
  quantify over every handle content except `expected_packet_length`, restored here) and the
  fault scripts of the correspondence check for FSK/OOK.
-/
namespace Sx
open Sx.Model DM

/-- **C11, first clause.** For every public function except the `void` interrupt handler, every
    argument and every handle: a failing transfer ends the call at once with that transfer's
    error code — the program has no request after it. The only exemption is the one the header
    documents: the SNR read inside `sx127x_rx_get_packet_rssi`. -/
theorem C11_failed_transfer_ends_call (cap fuel : Nat) (a : Api) (hirq : a.isIrq = false) (h : Handle) :
    (Api.prog cap fuel a h).FailFast (match a with | .rxGetPacketRssi => snrRead | _ => fun _ => False) :=
  (ff_api cap fuel a hirq).ff h

/-- the exemption is a single register read -/
theorem C11_exemption_is_snr_read (q : Req) : snrRead q ↔ q = .rread Gen.REGPKTSNRVALUE := by
  cases q <;> simp [snrRead]

/-- even there, a failure is not followed by any write: the function has no write request at all -/
theorem C11_rssi_never_writes (h : Handle) :
    (rxGetPacketRssi h).All (fun q => match q with | .swrite _ _ => False | .bwrite _ _ => False | _ => True) := by
  have : DM.All (fun q => match q with | .swrite _ _ => False | .bwrite _ _ => False | _ => True) rxGetPacketRssi := by
    unfold rxGetPacketRssi loraRxGetPacketSnr getFrequency checkModulation
    repeat (first
      | dm_step | (apply DM.All_rread; trivial) | (apply DM.All_sread; trivial) | split | dsimp only)
  exact this.all h

/-- **C11, second clause.** One invocation of the interrupt handler — LoRa, FSK or OOK, any flags,
    any handle, any packet — never invokes the receive callback after one of its transfers has
    failed: a packet whose bytes could not be read completely is not delivered. -/
theorem C11_no_delivery_after_failed_transfer (cap fuel : Nat) (h : Handle) :
    (Api.prog cap fuel .irq h).fwp false (fun _ _ => True) := by
  have : OKH (Api.prog cap fuel .irq) := by
    unfold Api.prog
    exact OKH_bind_NR (OKH_attempt (okh_irq fuel)) (fun _ => NR_pure _)
  exact this.q h

/-- **C11, per-packet state (FSK/OOK).** Reading the packet header — address-filter configuration,
    fixed length registers, length byte and node id from the FIFO — either completes, or a transfer
    failed and the handle is exactly what it was: no length is recorded for a header that was not
    read completely, so the next invocation starts over. -/
theorem C11_fsk_header_is_transactional (h : Handle) :
    (readPayloadHeader h).fwp false (fun failed rh => failed = true → rh.2 = h) :=
  tx_header.q h

/-- **C11, per-packet state (LoRa).** If a transfer fails while a received LoRa packet is read,
    the handler returns with the handle exactly as it was before the invocation (the configured
    implicit-header length included). -/
theorem C11_lora_read_is_transactional (h : Handle) :
    (loraReadGuard h.expected h).fwp false (fun failed rh => failed = true → rh.2 = h) :=
  tx_loraGuard h

/-- **C11, no stale state from a failed call.** Every public function other than handle creation,
    the interrupt handler and the three FSK/OOK transmit calls, with any arguments on any handle: if
    one of its transfers failed, the handle is exactly what it was before the call — the driver's
    view of the configuration (header mode and implicit length, packet format, CRC type, hop list,
    modulation, mode) never runs ahead of a chip that was not written.  Proving this for
    `sx127x_lora_set_implicit_header`, `sx127x_lora_tx_set_explicit_header` and
    `sx127x_lora_set_frequency_hopping` is what exposed fix fe89473. -/
theorem C11_failed_call_keeps_handle (cap fuel : Nat) (a : Api) (hp : a.isPacketOp = false) (h : Handle) :
    (Api.prog cap fuel a h).fwp false (fun failed rh => failed = true → rh.2 = h) :=
  (tx_api cap fuel a hp).q h

/-- **C11, the transmit calls included.** Every public function except handle creation and the
    interrupt handler: after a failed transfer the handle differs from the one before the call at
    most in the per-packet fields (frame buffer, frame length, bytes sent) — which the next
    transmit call or received packet overwrites before using them (C04, C03). -/
theorem C11_failed_call_keeps_configuration (cap fuel : Nat) (a : Api) (hirq : a.isIrq = false) (hc : a ≠ .create)
    (h : Handle) :
    (Api.prog cap fuel a h).fwp false (fun failed rh => failed = true → h.cfgEq rh.2) :=
  cfg_api cap fuel a hirq hc h

/-- non-vacuity: the setters repaired by fe89473 are covered by the exact statement, and `cfgEq`
    distinguishes handles that differ in a configuration field -/
example : (Api.loraSetImplicitHeader (some (10, true, 1))).isPacketOp = false
    ∧ (Api.loraSetFrequencyHopping 5 (some [868000000]) 1).isPacketOp = false
    ∧ ¬ ({ implicitHeader := true, expected := 10 } : Handle).cfgEq ({} : Handle)
    ∧ ({ expected := 10 } : Handle).cfgEq ({} : Handle) := by
  refine ⟨rfl, rfl, ?_, rfl⟩
  intro h
  exact absurd (congrArg Handle.implicitHeader h) (by decide)

/-- **C11, cache.** (C01) After any history with any set of failing transfers the cache holds only
    values the chip's active page would return. -/
theorem C11_cache_after_failures (c : SysCfg) (hc : c.cached = true) (s : Sys) (i : Inv s.world)
    (ops : List Op) (hadm : ∀ op ∈ ops, op.Admissible) : Inv (Sys.run c s ops).1.world :=
  run_inv c hc s ops hadm i

/-- non-vacuity: the receive callback is a node of the handler's program (with a callback
    registered, `rxCallback` started after a failure would violate the predicate), so the second
    clause does not hold for want of callbacks -/
example : ¬ (rxCallback ({ rxCb := true } : Handle)).fwp true (fun _ _ => True) := by
  intro h
  have h' : (true = true → ∀ d n, CbEvent.rx (([] : Mem).take 0) 0 ≠ CbEvent.rx d n) ∧ _ := h
  exact (h'.1 rfl _ _) rfl

end Sx
