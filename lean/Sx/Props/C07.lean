import Sx.Lemmas.Ghost
import Sx.Props.C16
/-
  C07 — interrupt flags: every event is acted on once; none is lost or cleared unseen.
-/
namespace Sx
open Sx.Model DM Mem Chip

/-- the program starts with a single-register read of `reg`; if that fails it returns the error
    with the handle untouched, and otherwise its next request is a write of exactly the byte
    read to the same register -/
def AckIsRead (reg : Nat) (h : Handle) (p : Prog (Except Code Unit × Handle)) : Prop :=
  match p with
  | .rread r k => r = reg ∧ (∀ c, k (.error c) = .ret (.error c, h)) ∧
      ∀ v, ∃ k', k (.ok v) = .swrite reg [v] k'
  | _ => False

/-- **C07, acknowledge = read (LoRa).** Whatever handle it runs on, the LoRa handler begins with a
    read of RegIrqFlags and its very next request is a write of exactly the value read to the
    same register. -/
theorem C07_lora_ack_is_read (h : Handle) : AckIsRead 0x12 h (loraHandleInterrupt h) := by
  unfold loraHandleInterrupt
  simp only [bind, DM.bind', DM.rread, DM.swrite, Prog.bind, show Gen.REGIRQFLAGS = 0x12 from rfl, AckIsRead]
  exact ⟨trivial, fun _ => trivial, fun _ => ⟨_, rfl⟩⟩

/-- **C07, acknowledge = read (FSK/OOK, RegIrqFlags2).** -/
theorem C07_fsk_ack_is_read (fuel : Nat) (h : Handle) : AckIsRead 0x3f h (fskOokHandleInterrupt fuel h) := by
  unfold fskOokHandleInterrupt
  simp only [bind, DM.bind', DM.rread, DM.swrite, Prog.bind, show Gen.REGIRQFLAGS2 = 0x3f from rfl, AckIsRead]
  exact ⟨trivial, fun _ => trivial, fun _ => ⟨_, rfl⟩⟩

/-- **C07, nothing is cleared unseen.** On the chip's write-1-to-clear flag register, writing
    back the sampled value `v` clears exactly the sampled bits: whatever further flags `e` the
    chip raised between the sampling and the acknowledgement are still set afterwards. -/
theorem C07_later_events_stay_pending (c : Chip) (hl : c.isLora = true) (wf : c.WF) (v e : UInt8) :
    let c1 := Env.apply c (.loraFlags e)          -- raised after the handler sampled `v`
    let c2 := c1.write 0x12 v                     -- the acknowledgement
    c2.lora.rd 0x12 = (c.lora.rd 0x12 ||| e) &&& ~~~ v := by
  intro c1 c2
  have hl1 : c1.isLora = true := hl
  show (c1.write 0x12 v).lora.rd 0x12 = _
  rw [write_lora_flags c1 v hl1]
  show ((c1.lora.wr 0x12 (c1.lora.rd 0x12 &&& ~~~ v)).rd 0x12) = _
  have hlen : 0x12 < c1.lora.length := by
    show 0x12 < (c.lora.wr 0x12 _).length
    simp [wf.hl]
  rw [rd_wr_same _ _ _ hlen]
  show (c.lora.wr 0x12 (c.lora.rd 0x12 ||| e)).rd 0x12 &&& ~~~ v = _
  rw [rd_wr_same _ _ _ (by rw [wf.hl]; decide)]

/-- with `v` the value sampled before the event: every bit of `e` that was not sampled survives -/
theorem C07_unsampled_bits_survive (x e : UInt8) : ((x ||| e) &&& ~~~ x) ||| (e &&& ~~~ x) = (x ||| e) &&& ~~~ x := by
  apply UInt8.eq_of_toBitVec_eq
  simp only [UInt8.toBitVec_and, UInt8.toBitVec_or, UInt8.toBitVec_not]
  ext i hi
  simp only [BitVec.getElem_and, BitVec.getElem_or, BitVec.getElem_not]
  cases x.toBitVec[i] <;> cases e.toBitVec[i] <;> rfl

/-- **C07, idle invocation (LoRa).** With no flag pending the handler invokes no callback and
    writes nothing but the (empty) acknowledgement. -/
theorem C07_idle_lora (fuel : Nat) (h : Handle) (c : Chip) (hl : c.isLora = true)
    (hm : h.activeModem = Gen.SX127x_MODULATION_LORA) (hz : c.lora.rd 0x12 = 0) :
    wp (handleInterrupt fuel) h ⟨c, [], []⟩ (fun r h' s' =>
      s'.cbs = [] ∧ h' = h ∧ s'.bus = [.w 0x12 [0] (.ok ()), .r 0x12 1 (.ok (be32 [0]))]) := by
  rw [wp_handleInterrupt_lora _ _ _ _ hm]
  unfold loraHandleInterrupt
  simp only [wp_bind, wp_rread, wp_swrite, wp_getH, show Gen.REGIRQFLAGS = 0x12 from rfl,
    readN_one _ 0x12 (by decide), show (0x12 % 128) = 0x12 from rfl, peek_lora _ _ hl (show inPage 0x12 = true by decide),
    be32_single, writeN_one, hz]
  simp only [show ∀ x : UInt8, (0 : UInt8) &&& x = 0 from fun x => by simp, ne_eq, not_true_eq_false, ↓reduceIte, wp_pure]
  exact ⟨by trivial, by trivial, by trivial⟩

/-- **C07, CAD-done.** A CadDone event yields exactly one CAD callback carrying the detection bit
    and no other callback, whatever other flags are set. -/
theorem C07_cad_done (fuel : Nat) (h : Handle) (c : Chip) (hl : c.isLora = true)
    (hm : h.activeModem = Gen.SX127x_MODULATION_LORA) (hcb : h.cadCb = true) (hcad : c.lora.rd 0x12 &&& 0x04 ≠ 0) :
    wp (handleInterrupt fuel) h ⟨c, [], []⟩ (fun r h' s' =>
      s'.cbs = [.cad (c.lora.rd 0x12 &&& 0x01).toNat] ∧ h' = h) := by
  rw [wp_handleInterrupt_lora _ _ _ _ hm]
  unfold loraHandleInterrupt
  simp only [wp_bind, wp_rread, wp_swrite, wp_getH, show Gen.REGIRQFLAGS = 0x12 from rfl,
    readN_one _ 0x12 (by decide), show (0x12 % 128) = 0x12 from rfl, peek_lora _ _ hl (show inPage 0x12 = true by decide),
    be32_single, writeN_one, flag_consts.1, flag_consts.2.2.2.2.2, hcad, ne_eq, not_false_eq_true, ↓reduceIte, hcb, wp_cb]
  exact ⟨by trivial, by trivial⟩

/-- "nothing is pending" for the FSK/OOK handler in a given mode: no PayloadReady, no PacketSent;
    in TX mode the FIFO is neither empty nor below the threshold; in RX mode the FIFO is not above
    the threshold (or it is full, which the handler does not serve), and RegIrqFlags1 shows
    neither PreambleDetect nor SyncAddressMatch -/
def FskIdle (opmod : Nat) (v v1 : UInt8) : Prop :=
  v &&& 0x04 = 0 ∧ v &&& 0x08 = 0 ∧
  (opmod = Gen.SX127x_MODE_TX → v &&& 0x40 = 0 ∧ ¬(v &&& 0x20 = 0 ∧ v &&& 0x80 = 0)) ∧
  ((opmod = Gen.SX127x_MODE_RX_CONT ∨ opmod = Gen.SX127x_MODE_RX_SINGLE) →
    ¬(v &&& 0x20 ≠ 0 ∧ v &&& 0x80 = 0) ∧ v1 &&& 0x02 = 0 ∧ v1 &&& 0x01 = 0)

/-- the environment of an idle invocation: the two flag registers read `v` and `v1`; the ghost
    Boolean records whether the handler did anything but acknowledge them (a write to any other
    register, a burst write, a callback) -/
def idleE (v v1 : UInt8) : GEnv Bool where
  R g q a g' :=
    match q, a with
    | .rread reg, .u8 r => (reg = 0x3f → r = .ok v) ∧ (reg = 0x3e → r = .ok v1) ∧ g' = g
    | .swrite reg d, .unit _ => g' = (g || !((reg = 0x3f ∧ d = [v]) ∨ (reg = 0x3e ∧ d = [v1])))
    | .bwrite _ _, _ => g' = true
    | _, _ => g' = g
  C _ _ _ _ g' := g' = true



theorem idle_consts : u8 Gen.SX127X_FSK_IRQ_PAYLOAD_READY = 0x04 ∧ u8 Gen.SX127X_FSK_IRQ_PACKET_SENT = 0x08 ∧
    u8 Gen.SX127X_FSK_IRQ_FIFO_EMPTY = 0x40 ∧ u8 Gen.SX127X_FSK_IRQ_FIFO_LEVEL = 0x20 ∧ u8 Gen.SX127X_FSK_IRQ_FIFO_FULL = 0x80 ∧
    u8 Gen.SX127X_FSK_IRQ_PREAMBLE_DETECT = 0x02 ∧ u8 Gen.SX127X_FSK_IRQ_SYNC_ADDRESS_MATCH = 0x01 := by decide

/-- **C07, idle invocation (FSK/OOK).** In every mode, with any handle: when the flag registers
    show nothing pending for that mode, one invocation of the handler invokes no callback, writes
    nothing but the acknowledgement of exactly the flag bytes it read (RegIrqFlags2, and
    RegIrqFlags1 in receive mode), and leaves the handle as it was. -/
theorem C07_idle_fsk (fuel : Nat) (h : Handle) (v v1 : UInt8) (hidle : FskIdle h.opmod v v1) :
    DM.gwp (idleE v v1) (fskOokHandleInterrupt fuel) h false (fun g' _ h' => g' = false ∧ h' = h) := by
  obtain ⟨hpr, hps, htx, hrx⟩ := hidle
  unfold fskOokHandleInterrupt
  rw [gwp_bind, gwp_rread]
  intro r g1 hr
  obtain ⟨hr1, _, hg1⟩ := hr
  have hr1' := hr1 rfl
  subst hr1' hg1
  dsimp only
  rw [gwp_bind, gwp_swrite]
  intro r2 g2 hr2
  have hg2 : g2 = false := by
    have : g2 = (false || !((Gen.REGIRQFLAGS2 = 0x3f ∧ [v] = [v]) ∨ (Gen.REGIRQFLAGS2 = 0x3e ∧ [v] = [v1]))) := hr2
    rw [this]; simp
  subst hg2
  cases r2 with
  | error c => exact ⟨rfl, rfl⟩
  | ok u =>
    dsimp only
    rw [gwp_bind, gwp_getH]
    dsimp only
    simp only [idle_consts.1, idle_consts.2.1, idle_consts.2.2.1, idle_consts.2.2.2.1, idle_consts.2.2.2.2.1,
      idle_consts.2.2.2.2.2.1, idle_consts.2.2.2.2.2.2, hpr, hps, ne_eq, not_true_eq_false, ↓reduceIte]
    by_cases hmtx : h.opmod = Gen.SX127x_MODE_TX
    · obtain ⟨he, hl⟩ := htx hmtx
      rw [gwp_ite, if_pos hmtx, gwp_ite, if_neg (fun hn => hn he), gwp_ite, if_neg hl, gwp_pure]
      exact ⟨rfl, rfl⟩
    · rw [gwp_ite, if_neg hmtx]
      by_cases hmrx : h.opmod = Gen.SX127x_MODE_RX_CONT ∨ h.opmod = Gen.SX127x_MODE_RX_SINGLE
      · obtain ⟨hlv, hp1, hs1⟩ := hrx hmrx
        rw [gwp_ite, if_pos hmrx, gwp_ite, if_neg hlv, gwp_bind, gwp_rread]
        intro r3 g3 hr3
        obtain ⟨_, hr3', hg3⟩ := hr3
        have hr3'' := hr3' rfl
        subst hr3'' hg3
        dsimp only
        rw [gwp_bind, gwp_swrite]
        intro r4 g4 hr4
        have hg4 : g4 = false := by
          have : g4 = (false || !((Gen.REGIRQFLAGS1 = 0x3f ∧ [v1] = [v]) ∨ (Gen.REGIRQFLAGS1 = 0x3e ∧ [v1] = [v1]))) := hr4
          rw [this]; simp
        subst hg4
        cases r4 with
        | error c => exact ⟨rfl, rfl⟩
        | ok u4 =>
          dsimp only
          rw [gwp_bind, gwp_getH]
          dsimp only
          simp only [hp1, hs1, not_true_eq_false, false_and, ↓reduceIte]
          exact ⟨rfl, rfl⟩
      · rw [gwp_ite, if_neg hmrx, gwp_pure]
        exact ⟨rfl, rfl⟩

/-- non-vacuity: an empty FIFO in receive mode, a half-full FIFO in transmit mode and any flags
    without PayloadReady/PacketSent in standby are idle -/
example : FskIdle Gen.SX127x_MODE_RX_CONT 0x40 0x00 ∧ FskIdle Gen.SX127x_MODE_TX 0x20 0x00 ∧
    FskIdle Gen.SX127x_MODE_STANDBY 0xe0 0xff := by unfold FskIdle; decide

end Sx
