import Sx.Lemmas.WpLib
/-
  C13 — LoRa low-data-rate optimisation tracks the 16 ms symbol rule.
-/
namespace Sx
open Sx.Model DM Mem Chip

/-- datasheet: RegModemConfig1 bits 7-4 → signal bandwidth in Hz -/
def specBandwidthHz (code : Nat) : Nat :=
  match code with
  | 0 => 7800 | 1 => 10400 | 2 => 15600 | 3 => 20800 | 4 => 31250 | 5 => 41700
  | 6 => 62500 | 7 => 125000 | 8 => 250000 | 9 => 500000 | _ => 0

/-- the header's promise: optimisation on iff the symbol lasts longer than 16 ms,
    `2^SF / BW > 16 ms`, in exact arithmetic -/
def ldroWanted (bwHz sf : Nat) : Bool := decide (2 ^ sf * 1000 > 16 * bwHz)

def ldroBit (bwHz sf : Nat) : UInt8 := if ldroWanted bwHz sf then 0x08 else 0x00

/-- RegModemConfig3 as it must be after an automatic update: bit 3 by the rule, all other bits
    as they were -/
def ldroReg (c : Chip) (code : Nat) : UInt8 :=
  (c.lora.rd 0x26 &&& (0xf7 : UInt8)) ||| ldroBit (specBandwidthHz code) (c.lora.rd 0x1e >>> 4).toNat

/-- the LDRO computation of the driver on a chip whose bandwidth code is valid -/
theorem wp_reload (h : Handle) (c : Chip) (bus : List BusEv) (cbs : List CbEvent)
    (Q : Except Code Unit → Handle → PState → Prop)
    (hm : h.activeModem = Gen.SX127x_MODULATION_LORA) (hl : c.isLora = true) (code : Nat) (hc : code ≤ 9)
    (hcode : (c.lora.rd 0x1d >>> 4).toNat = code) :
    wp reloadLowDatarateOptimization h ⟨c, bus, cbs⟩ Q ↔
      Q (.ok ()) h ⟨{ c with lora := c.lora.wr 0x26 (ldroReg c code) },
        .w 0x26 [ldroReg c code] (.ok ()) :: .r 0x26 1 (.ok (be32 [c.lora.rd 0x26]))
          :: .r 0x1e 1 (.ok (be32 [c.lora.rd 0x1e])) :: .r 0x1d 1 (.ok (be32 [c.lora.rd 0x1d])) :: bus, cbs⟩ := by
  have hbw : bandwidthOfCode (c.lora.rd 0x1d >>> 4) = some (specBandwidthHz code) := by
    have : ∀ x : UInt8, ∀ k : Nat, k ≤ 9 → (x >>> 4).toNat = k → bandwidthOfCode (x >>> 4) = some (specBandwidthHz k) := by
      apply forall_byte
      decide
    exact this _ code hc hcode
  unfold reloadLowDatarateOptimization loraGetBandwidth
  simp only [wp_bind, wp_checkModulation, hm, ne_eq, not_true_eq_false, ↓reduceIte, wp_rread]
  simp only [show Gen.REGMODEMCONFIG1 = 0x1d from rfl, show Gen.REGMODEMCONFIG2 = 0x1e from rfl,
    readN_one _ 0x1d (by decide), readN_one _ 0x1e (by decide), peek_lora _ _ hl (show inPage (0x1d % 128) = true by decide),
    peek_lora _ _ hl (show inPage (0x1e % 128) = true by decide), be32_single, show (0x1d % 128) = 0x1d from rfl,
    show (0x1e % 128) = 0x1e from rfl, hbw, wp_pure]
  unfold loraSetLowDatarateOptimization
  simp only [wp_bind, wp_checkModulation, hm, ne_eq, not_true_eq_false, ↓reduceIte]
  rw [wp_appendRegister_lora _ _ _ _ _ _ _ _ hl (by decide) (by decide) (by decide)]
  simp only [show Gen.REGMODEMCONFIG3 = 0x26 from rfl, sel, ldroReg, ldroBit, ldroWanted]
  have : ∀ (b : Nat) (sf : Nat), (1000 * 2 ^ sf > 16 * b) = (2 ^ sf * 1000 > 16 * b) := by
    intro b sf; rw [Nat.mul_comm]
  simp only [this]
  exact Iff.rfl

/-- the statement of C13 about RegModemConfig3 (0x26) after an automatic update: bit 3 follows
    the 16 ms rule for the combination *now programmed* in RegModemConfig1/2, every other bit of
    the register is as before -/
structure LdroOk (before after : Chip) : Prop where
  bit : after.lora.rd 0x26 &&& (0x08 : UInt8) =
    ldroBit (specBandwidthHz (after.lora.rd 0x1d >>> 4).toNat) (after.lora.rd 0x1e >>> 4).toNat
  rest : after.lora.rd 0x26 &&& (0xf7 : UInt8) = before.lora.rd 0x26 &&& (0xf7 : UInt8)

theorem ldro_bits (x b : UInt8) (hb : b = 0x08 ∨ b = 0x00) :
    ((x &&& 0xf7) ||| b) &&& 0x08 = b ∧ ((x &&& 0xf7) ||| b) &&& 0xf7 = x &&& 0xf7 := by
  rcases hb with rfl | rfl <;> constructor <;> byte_bits

theorem ldroBit_cases (b s : Nat) : ldroBit b s = 0x08 ∨ ldroBit b s = 0x00 := by
  unfold ldroBit; split <;> simp

/-- the ten bandwidth codes of the datasheet -/
def bwCodes : List Nat := [0x00, 0x10, 0x20, 0x30, 0x40, 0x50, 0x60, 0x70, 0x80, 0x90]

/-- the header's enumerators are the datasheet codes (obligation on the regenerated constants) -/
theorem enum_bw_is_datasheet : Gen.enum_sx127x_bw_t = bwCodes := by decide

set_option maxRecDepth 100000 in
theorem bw_nibble_bv : ∀ b : BitVec 8, ∀ bw ∈ bwCodes,
    ((((⟨b⟩ : UInt8) &&& 0x0f) ||| u8 bw) >>> 4).toNat = bw / 16 ∧ bw / 16 ≤ 9 := by
  decide +kernel

theorem bw_nibble (x : UInt8) (bw : Nat) (h : bw ∈ bwCodes) :
    (((x &&& 0x0f) ||| u8 bw) >>> 4).toNat = bw / 16 ∧ bw / 16 ≤ 9 := bw_nibble_bv x.toBitVec bw h

/-- **C13, bandwidth setter.** For each of the ten bandwidths, any prior content of the three
    modem configuration registers (including reserved spreading-factor codes) and the rest of
    the chip: the call succeeds, programs the bandwidth code into bits 7-4 of RegModemConfig1
    keeping bits 3-0, and leaves RegModemConfig3 with bit 3 set iff 2^SF/BW > 16 ms and all
    other bits unchanged; no other register changes. -/
theorem C13_set_bandwidth (bw : Nat) (hbw : bw ∈ Gen.enum_sx127x_bw_t) (h : Handle)
    (hm : h.activeModem = Gen.SX127x_MODULATION_LORA) (c : Chip) (wf : c.WF) (hl : c.isLora = true) :
    wp (loraSetBandwidth bw) h ⟨c, [], []⟩ (fun r h' s' =>
      r = .ok () ∧ h' = h ∧
      s'.chip.lora.rd 0x1d = (c.lora.rd 0x1d &&& 0x0f) ||| u8 bw ∧
      LdroOk c s'.chip ∧
      (∀ a, a ≠ 0x1d → a ≠ 0x26 → s'.chip.lora.rd a = c.lora.rd a) ∧
      s'.chip.shared = c.shared ∧ s'.chip.fsk = c.fsk ∧ s'.chip.buf = c.buf ∧ s'.chip.fifo = c.fifo) := by
  rw [enum_bw_is_datasheet] at hbw
  have hvalid : ¬(bw % 16 ≠ 0 ∨ bw > Gen.SX127x_BW_500000) := by
    have : ∀ b ∈ bwCodes, ¬(b % 16 ≠ 0 ∨ b > Gen.SX127x_BW_500000) := by decide
    exact this bw hbw
  unfold loraSetBandwidth
  simp only [wp_bind, wp_checkModulation, hm, ne_eq, not_true_eq_false, ↓reduceIte]
  rw [wp_ite, if_neg hvalid, wp_bind]
  rw [wp_appendRegister_lora _ _ _ _ _ _ _ _ hl (by decide) (by decide) (by decide)]
  simp only [show Gen.REGMODEMCONFIG1 = 0x1d from rfl]
  have hn := bw_nibble (c.lora.rd 0x1d) bw hbw
  have h1d : (c.lora.wr 0x1d ((c.lora.rd 0x1d &&& 0x0f) ||| u8 bw)).rd 0x1d = (c.lora.rd 0x1d &&& 0x0f) ||| u8 bw :=
    rd_wr_same _ _ _ (by rw [wf.hl]; decide)
  rw [wp_reload h { c with lora := c.lora.wr 0x1d ((c.lora.rd 0x1d &&& 0x0f) ||| u8 bw) } _ _ _ hm hl (bw / 16) hn.2
    (by simp only [h1d]; exact hn.1)]
  simp only [ldroReg, rd_wr_ne _ 0x1d 0x26 _ (by decide), rd_wr_ne _ 0x1d 0x1e _ (by decide)]
  have hb := ldro_bits (c.lora.rd 0x26) _ (ldroBit_cases (specBandwidthHz (bw / 16)) (c.lora.rd 0x1e >>> 4).toNat)
  refine ⟨by trivial, by trivial, ?_, ⟨?_, ?_⟩, ?_, by trivial, by trivial, by trivial, by trivial⟩
  · rw [rd_wr_ne _ 0x26 0x1d _ (by decide), h1d]
  · rw [rd_wr_same _ _ _ (by simp [wf.hl]), rd_wr_ne _ 0x26 0x1d _ (by decide), rd_wr_ne _ 0x26 0x1e _ (by decide),
      h1d, rd_wr_ne _ 0x1d 0x1e _ (by decide), hn.1]
    exact hb.1
  · rw [rd_wr_same _ _ _ (by simp [wf.hl])]
    exact hb.2
  · intro a ha1 ha2
    rw [rd_wr_ne _ _ _ _ (Ne.symm ha2), rd_wr_ne _ _ _ _ (Ne.symm ha1)]


/-- the seven spreading factors of the datasheet (RegModemConfig2 bits 7-4 = 6..12) -/
def sfCodes : List Nat := [0x60, 0x70, 0x80, 0x90, 0xa0, 0xb0, 0xc0]

theorem enum_sf_is_datasheet : Gen.enum_sx127x_sf_t = sfCodes := by decide

set_option maxRecDepth 100000 in
theorem sf_nibble_bv : ∀ b : BitVec 8, ∀ sf ∈ sfCodes,
    ((((⟨b⟩ : UInt8) &&& 0x0f) ||| u8 sf) >>> 4).toNat = sf / 16 := by
  decide +kernel

set_option maxRecDepth 20000 in
/-- **C13, spreading-factor setter.** For each of the seven spreading factors (SF6 only with
    implicit header, as documented), any prior content of the modem configuration registers
    whose bandwidth code is one of the ten valid ones: the call succeeds, programs the
    detection registers, the spreading factor into bits 7-4 of RegModemConfig2 keeping bits
    3-0, and leaves RegModemConfig3 with bit 3 set iff 2^SF/BW > 16 ms for the new
    combination and all other bits unchanged; no other register changes. -/
theorem C13_set_spreading_factor (sf : Nat) (hsf : sf ∈ Gen.enum_sx127x_sf_t) (h : Handle)
    (hm : h.activeModem = Gen.SX127x_MODULATION_LORA) (h6 : sf = Gen.SX127x_SF_6 → h.implicitHeader = true)
    (c : Chip) (wf : c.WF) (hl : c.isLora = true) (hbwc : (c.lora.rd 0x1d >>> 4).toNat ≤ 9) :
    wp (loraSetModemConfig2 sf) h ⟨c, [], []⟩ (fun r h' s' =>
      r = .ok () ∧ h' = h ∧
      s'.chip.lora.rd 0x1e = (c.lora.rd 0x1e &&& 0x0f) ||| u8 sf ∧
      s'.chip.lora.rd 0x31 = (if sf = 0x60 then 0xc5 else 0xc3) ∧
      s'.chip.lora.rd 0x37 = (if sf = 0x60 then 0x0c else 0x0a) ∧
      LdroOk c s'.chip ∧
      (∀ a, a ≠ 0x1e → a ≠ 0x26 → a ≠ 0x31 → a ≠ 0x37 → s'.chip.lora.rd a = c.lora.rd a) ∧
      s'.chip.shared = c.shared ∧ s'.chip.fsk = c.fsk ∧ s'.chip.buf = c.buf ∧ s'.chip.fifo = c.fifo) := by
  rw [enum_sf_is_datasheet] at hsf
  have hrej : ¬(sf = Gen.SX127x_SF_6 ∧ (!h.implicitHeader) = true) := by
    intro ⟨e, hni⟩
    rw [h6 e] at hni
    cases hni
  have hbw : bandwidthOfCode (c.lora.rd 0x1d >>> 4) = some (specBandwidthHz (c.lora.rd 0x1d >>> 4).toNat) := by
    have : ∀ x : UInt8, (x >>> 4).toNat ≤ 9 → bandwidthOfCode (x >>> 4) = some (specBandwidthHz (x >>> 4).toNat) := by
      apply forall_byte
      decide
    exact this _ hbwc
  unfold loraSetModemConfig2 loraGetBandwidth
  simp only [wp_bind, wp_checkModulation, hm, ne_eq, not_true_eq_false, ↓reduceIte, wp_getH]
  rw [wp_ite, if_neg hrej]
  simp only [wp_bind, wp_checkModulation, hm, ne_eq, not_true_eq_false, ↓reduceIte, wp_rread,
    show Gen.REGMODEMCONFIG1 = 0x1d from rfl, readN_one _ 0x1d (by decide), show (0x1d % 128) = 0x1d from rfl,
    peek_lora _ _ hl (show inPage 0x1d = true by decide), be32_single, hbw, wp_pure, wp_swrite, writeN_one,
    show Gen.REGDETECTOPTIMIZE = 0x31 from rfl, show Gen.REGDETECTIONTHRESHOLD = 0x37 from rfl,
    write_lora _ 0x31 _ hl (by decide) (by decide) (by decide)]
  rw [write_lora _ 0x37 _ (by exact hl) (by decide) (by decide) (by decide)]
  rw [wp_appendRegister_lora _ _ _ _ _ _ _ _ (by exact hl) (by decide) (by decide) (by decide)]
  simp only [show Gen.REGMODEMCONFIG2 = 0x1e from rfl]
  have e1e : ∀ x y z, (((c.lora.wr 0x31 x).wr 0x37 y).wr 0x1e z).rd 0x1e = z :=
    fun x y z => rd_wr_same _ _ _ (by simp [wf.hl])
  have e1d : ∀ x y z, (((c.lora.wr 0x31 x).wr 0x37 y).wr 0x1e z).rd 0x1d = c.lora.rd 0x1d := by
    intro x y z
    rw [rd_wr_ne _ 0x1e 0x1d _ (by decide), rd_wr_ne _ 0x37 0x1d _ (by decide), rd_wr_ne _ 0x31 0x1d _ (by decide)]
  have e26 : ∀ x y z, (((c.lora.wr 0x31 x).wr 0x37 y).wr 0x1e z).rd 0x26 = c.lora.rd 0x26 := by
    intro x y z
    rw [rd_wr_ne _ 0x1e 0x26 _ (by decide), rd_wr_ne _ 0x37 0x26 _ (by decide), rd_wr_ne _ 0x31 0x26 _ (by decide)]
  have g1e : ∀ x y, ((c.lora.wr 0x31 x).wr 0x37 y).rd 0x1e = c.lora.rd 0x1e := by
    intro x y
    rw [rd_wr_ne _ 0x37 0x1e _ (by decide), rd_wr_ne _ 0x31 0x1e _ (by decide)]
  simp only [g1e]
  rw [wp_reload h _ _ _ _ hm (by exact hl) (c.lora.rd 0x1d >>> 4).toNat hbwc (by rw [e1d])]
  simp only [ldroReg, e1e, e26]
  have hn := sf_nibble_bv (c.lora.rd 0x1e).toBitVec sf hsf
  have hb := ldro_bits (c.lora.rd 0x26) _ (ldroBit_cases (specBandwidthHz (c.lora.rd 0x1d >>> 4).toNat)
    (((c.lora.rd 0x1e &&& 0x0f) ||| u8 sf) >>> 4).toNat)
  have h60 : Gen.SX127x_SF_6 = 0x60 := rfl
  have f26 : ∀ x y z w, ((((c.lora.wr 0x31 x).wr 0x37 y).wr 0x1e z).wr 0x26 w).rd 0x26 = w :=
    fun x y z w => rd_wr_same _ _ _ (by simp [wf.hl])
  have f1e : ∀ x y z w, ((((c.lora.wr 0x31 x).wr 0x37 y).wr 0x1e z).wr 0x26 w).rd 0x1e = z := by
    intro x y z w; rw [rd_wr_ne _ 0x26 0x1e _ (by decide)]; exact e1e x y z
  have f1d : ∀ x y z w, ((((c.lora.wr 0x31 x).wr 0x37 y).wr 0x1e z).wr 0x26 w).rd 0x1d = c.lora.rd 0x1d := by
    intro x y z w; rw [rd_wr_ne _ 0x26 0x1d _ (by decide)]; exact e1d x y z
  have f31 : ∀ x y z w, ((((c.lora.wr 0x31 x).wr 0x37 y).wr 0x1e z).wr 0x26 w).rd 0x31 = x := by
    intro x y z w
    rw [rd_wr_ne _ 0x26 0x31 _ (by decide), rd_wr_ne _ 0x1e 0x31 _ (by decide), rd_wr_ne _ 0x37 0x31 _ (by decide)]
    exact rd_wr_same _ _ _ (by simp [wf.hl])
  have f37 : ∀ x y z w, ((((c.lora.wr 0x31 x).wr 0x37 y).wr 0x1e z).wr 0x26 w).rd 0x37 = y := by
    intro x y z w
    rw [rd_wr_ne _ 0x26 0x37 _ (by decide), rd_wr_ne _ 0x1e 0x37 _ (by decide)]
    exact rd_wr_same _ _ _ (by simp [wf.hl])
  refine ⟨by trivial, by trivial, ?_, ?_, ?_, ⟨?_, ?_⟩, ?_, by trivial, by trivial, by trivial, by trivial⟩
  · simp only [f1e]
  · simp only [f31, h60]
  · simp only [f37, h60]
  · simp only [f26, f1d, f1e]
    exact hb.1
  · simp only [f26]
    exact hb.2
  · intro a ha1 ha2 ha3 ha4
    rw [rd_wr_ne _ _ _ _ (Ne.symm ha2), rd_wr_ne _ _ _ _ (Ne.symm ha1), rd_wr_ne _ _ _ _ (Ne.symm ha4),
      rd_wr_ne _ _ _ _ (Ne.symm ha3)]

/-- **C13, explicit override.** `lora_set_low_datarate_optimization` sets bit 3 to the caller's
    choice and keeps every other bit and register. -/
theorem C13_override (e : Bool) (h : Handle) (hm : h.activeModem = Gen.SX127x_MODULATION_LORA)
    (c : Chip) (wf : c.WF) (hl : c.isLora = true) :
    wp (loraSetLowDatarateOptimization e) h ⟨c, [], []⟩ (fun r h' s' =>
      r = .ok () ∧ h' = h ∧
      s'.chip.lora.rd 0x26 &&& 0x08 = (if e then 0x08 else 0x00) ∧
      s'.chip.lora.rd 0x26 &&& 0xf7 = c.lora.rd 0x26 &&& 0xf7 ∧
      (∀ a, a ≠ 0x26 → s'.chip.lora.rd a = c.lora.rd a) ∧
      s'.chip.shared = c.shared ∧ s'.chip.fsk = c.fsk) := by
  unfold loraSetLowDatarateOptimization
  simp only [wp_bind, wp_checkModulation, hm, ne_eq, not_true_eq_false, ↓reduceIte]
  rw [wp_appendRegister_lora _ _ _ _ _ _ _ _ hl (by decide) (by decide) (by decide)]
  simp only [show Gen.REGMODEMCONFIG3 = 0x26 from rfl, sel]
  have hb := ldro_bits (c.lora.rd 0x26) (if e = true then 0x08 else 0x00) (by cases e <;> simp)
  refine ⟨by trivial, by trivial, ?_, ?_, ?_, by trivial, by trivial⟩
  · rw [rd_wr_same _ 0x26 _ (by rw [wf.hl]; decide)]; exact hb.1
  · rw [rd_wr_same _ 0x26 _ (by rw [wf.hl]; decide)]; exact hb.2
  · intro a ha; rw [rd_wr_ne _ _ _ _ (Ne.symm ha)]

/-- non-vacuity and the headline case: SF11 at 125 kHz is a 16.384 ms symbol and needs the
    optimisation; SF10 at 125 kHz (8.192 ms) does not -/
example : ldroWanted 125000 11 = true ∧ ldroWanted 125000 10 = false ∧ ldroWanted 7800 6 = false
    ∧ ldroWanted 250000 12 = true ∧ ldroWanted 500000 12 = false := by decide


/-- **C13 in the cached build, after any history.**  From any state reachable by an admissible
    history (`Inv`), with LoRa active on handle and chip: `sx127x_lora_set_bandwidth` with any of
    the ten bandwidths returns OK and leaves the LDRO bit following the 16 ms rule for the
    combination now programmed, all other bits of RegModemConfig3 unchanged. -/
theorem C13_bandwidth_cached (c : SysCfg) (hc : c.cached = true) (hnr : c.NoReact) (s : Sys) (i : Inv s.world)
    (h : Handle) (hh : s.handle = some h) (hm : h.activeModem = Gen.SX127x_MODULATION_LORA)
    (hl : s.world.chip.isLora = true) (bw : Nat) (hbw : bw ∈ Gen.enum_sx127x_bw_t) :
    let st := s.step c (.api (.loraSetBandwidth bw) [] [])
    (∃ cbs bus, st.2 = .ret (.ok .none) cbs bus) ∧ LdroOk s.world.chip st.1.world.chip ∧ st.1.handle = some h
      ∧ Inv st.1.world := by
  intro st
  have hw := wp_api_unit _ _ _ _ (C13_set_bandwidth bw hbw h hm s.world.chip i.chip hl)
  obtain ⟨r, h', ps, cbs, bus, hobs, hhd, hchip, hq, _, _, hinv⟩ :=
    step_cached_of_wp c hc hnr s i (.loraSetBandwidth bw) trivial h hh rfl _ hw
  cases r with
  | error e => exact absurd hq.1 (by intro e'; cases e')
  | ok o =>
  obtain ⟨ho, hr, hh', _, hld, _⟩ := hq
  subst ho
  refine ⟨⟨cbs, bus, hobs⟩, ?_, ?_, hinv⟩
  · show LdroOk s.world.chip (s.step c (.api (.loraSetBandwidth bw) [] [])).1.world.chip
    rw [hchip]; exact hld
  · show (s.step c (.api (.loraSetBandwidth bw) [] [])).1.handle = some h
    rw [hhd, hh']

/-- the same for `sx127x_lora_set_modem_config_2` -/
theorem C13_spreading_factor_cached (c : SysCfg) (hc : c.cached = true) (hnr : c.NoReact) (s : Sys) (i : Inv s.world)
    (h : Handle) (hh : s.handle = some h) (hm : h.activeModem = Gen.SX127x_MODULATION_LORA)
    (hl : s.world.chip.isLora = true) (sf : Nat) (hsf : sf ∈ Gen.enum_sx127x_sf_t)
    (h6 : sf = Gen.SX127x_SF_6 → h.implicitHeader = true)
    (hbwc : (s.world.chip.lora.rd 0x1d >>> 4).toNat ≤ 9) :
    let st := s.step c (.api (.loraSetModemConfig2 sf) [] [])
    (∃ cbs bus, st.2 = .ret (.ok .none) cbs bus) ∧ LdroOk s.world.chip st.1.world.chip ∧ st.1.handle = some h
      ∧ Inv st.1.world := by
  intro st
  have hw := wp_api_unit _ _ _ _ (C13_set_spreading_factor sf hsf h hm h6 s.world.chip i.chip hl hbwc)
  obtain ⟨r, h', ps, cbs, bus, hobs, hhd, hchip, hq, _, _, hinv⟩ :=
    step_cached_of_wp c hc hnr s i (.loraSetModemConfig2 sf) trivial h hh rfl _ hw
  cases r with
  | error e => exact absurd hq.1 (by intro e'; cases e')
  | ok o =>
  obtain ⟨ho, hr, hh', _, _, _, hld, _⟩ := hq
  subst ho
  refine ⟨⟨cbs, bus, hobs⟩, ?_, ?_, hinv⟩
  · show LdroOk s.world.chip (s.step c (.api (.loraSetModemConfig2 sf) [] [])).1.world.chip
    rw [hchip]; exact hld
  · show (s.step c (.api (.loraSetModemConfig2 sf) [] [])).1.handle = some h
    rw [hhd, hh']

end Sx
