import Sx.Props.C05
/-
  C06 — LoRa transmission programs pointer, length and payload exactly; the transmit callback
  is invoked exactly once per transmit-done event and never otherwise.
-/
namespace Sx
open Sx.Model DM Mem Chip

/-- **C06, queueing a packet.** With LoRa active, for every payload of 1..255 bytes, every prior
    FIFO pointer, buffer content and register content: the call succeeds; afterwards the payload
    length register holds the byte count and byte `i` of the caller's data lies at buffer
    address `i` (the transmit base address 0 that `sx127x_lora_reset_fifo` programs), every
    other buffer byte and every other register is unchanged. -/
theorem C06_set_for_transmission (data : List UInt8) (hd1 : 1 ≤ data.length) (hd2 : data.length ≤ 255)
    (h : Handle) (hm : h.activeModem = Gen.SX127x_MODULATION_LORA) (c : Chip) (wf : c.WF) (hl : c.isLora = true) :
    wp (loraTxSetForTransmission data) h ⟨c, [], []⟩ (fun r h' s' =>
      r = .ok () ∧ h' = h ∧
      s'.chip.lora.rd 0x22 = UInt8.ofNat data.length ∧
      (∀ i, i < data.length → s'.chip.buf.rd i = data.getD i 0) ∧
      (∀ x, data.length ≤ x → s'.chip.buf.rd x = c.buf.rd x) ∧
      (∀ a, a ≠ 0x0d → a ≠ 0x22 → s'.chip.lora.rd a = c.lora.rd a) ∧
      s'.chip.shared = c.shared ∧ s'.chip.fsk = c.fsk) := by
  have hne : data ≠ [] := by intro e; subst e; simp at hd1
  unfold loraTxSetForTransmission
  simp only [wp_bind, wp_checkModulation, hm, ne_eq, not_true_eq_false, ↓reduceIte]
  rw [wp_ite, if_neg (by omega)]
  simp only [wp_bind, wp_swrite, wp_bwrite, writeN_one, show Gen.REGFIFOADDRPTR = 0x0d from rfl,
    show Gen.REGPAYLOADLENGTH = 0x22 from rfl, show Gen.REGFIFO = 0 from rfl, show u8 Gen.FIFO_TX_BASE_ADDR = 0 from rfl,
    write_lora _ 0x0d _ hl (by decide) (by decide) (by decide)]
  rw [write_lora _ 0x22 _ (by exact hl) (by decide) (by decide) (by decide)]
  have wf2 : ({ c with lora := (c.lora.wr 0x0d 0).wr 0x22 (u8 data.length) } : Chip).WF :=
    ⟨wf.hs, by simp [wf.hl], wf.hf, wf.hb⟩
  rw [writeN_fifo_lora _ (by exact hl) wf2, if_neg hne]
  have hp : ((c.lora.wr 0x0d 0).wr 0x22 (u8 data.length)).rd 0x0d = 0 := by
    rw [rd_wr_ne _ 0x22 0x0d _ (by decide)]
    exact rd_wr_same _ _ _ (by rw [wf.hl]; decide)
  simp only [hp]
  refine ⟨by trivial, by trivial, ?_, ?_, ?_, ?_, by trivial, by trivial⟩
  · rw [rd_wr_ne _ 0x0d 0x22 _ (by decide)]
    exact rd_wr_same _ _ _ (by simp [wf.hl])
  · intro i hi
    have := bufAfter_data c.buf wf.hb 0 data (by omega) i hi
    simpa [Nat.mod_eq_of_lt (show i < 256 by omega)] using this
  · intro x hx
    apply bufAfter_other
    intro j hj
    simp only [UInt8.toNat_zero, Nat.zero_add]
    rw [Nat.mod_eq_of_lt (by omega)]
    omega
  · intro a h1 h2
    rw [rd_wr_ne _ _ _ _ (Ne.symm h1), rd_wr_ne _ _ _ _ (Ne.symm h2), rd_wr_ne _ _ _ _ (Ne.symm h1)]

/-- an empty packet is rejected without any transfer -/
theorem C06_empty_rejected (h : Handle) (hm : h.activeModem = Gen.SX127x_MODULATION_LORA) (s : PState) :
    wp (loraTxSetForTransmission []) h s (fun r h' s' =>
      r = .error Gen.SX127X_ERR_INVALID_ARG ∧ h' = h ∧ s'.bus = s.bus ∧ s'.chip = s.chip) := by
  unfold loraTxSetForTransmission
  simp only [wp_bind, wp_checkModulation, hm, ne_eq, not_true_eq_false, ↓reduceIte]
  simp only [List.length_nil, ↓reduceIte, wp_ite, wp_fail]
  exact ⟨by trivial, by trivial, by trivial, by trivial⟩

/-- **C06, transmit-done dispatch.** In LoRa mode, for every flag byte without RxDone: the
    transmit callback is invoked exactly once if TxDone is set and neither CadDone nor
    PayloadCrcError is, and not at all otherwise; no receive callback occurs. -/
theorem C06_tx_done (fuel : Nat) (h : Handle) (c : Chip) (hl : c.isLora = true)
    (hm : h.activeModem = Gen.SX127x_MODULATION_LORA) (htx : h.txCb = true)
    (hnrx : c.lora.rd 0x12 &&& 0x40 = 0) (hnhop : c.lora.rd 0x12 &&& 0x02 = 0 ∨ h.freqs = none) :
    wp (handleInterrupt fuel) h ⟨c, [], []⟩ (fun r h' s' =>
      (s'.cbs.filter (· == .tx)).length =
        (if c.lora.rd 0x12 &&& 0x08 ≠ 0 ∧ c.lora.rd 0x12 &&& 0x04 = 0 ∧ c.lora.rd 0x12 &&& 0x20 = 0 then 1 else 0)
      ∧ ∀ d n, CbEvent.rx d n ∉ s'.cbs) := by
  rw [wp_handleInterrupt_lora _ _ _ _ hm]
  unfold loraHandleInterrupt
  simp only [wp_bind, wp_rread, wp_swrite, wp_getH, show Gen.REGIRQFLAGS = 0x12 from rfl,
    readN_one _ 0x12 (by decide), show (0x12 % 128) = 0x12 from rfl, peek_lora _ _ hl (show inPage 0x12 = true by decide),
    be32_single, writeN_one, flag_consts.1, flag_consts.2.1, flag_consts.2.2.1, flag_consts.2.2.2.1,
    flag_consts.2.2.2.2.1, hnrx, ne_eq, not_true_eq_false, not_false_eq_true, ↓reduceIte]
  by_cases hcad : c.lora.rd 0x12 &&& 0x04 = 0
  · by_cases hcrc : c.lora.rd 0x12 &&& 0x20 = 0
    · by_cases htxd : c.lora.rd 0x12 &&& 0x08 = 0
      · simp only [hcad, hcrc, htxd, not_true_eq_false, ↓reduceIte, false_and]
        rcases hnhop with hh | hh
        · simp only [hh, not_true_eq_false, ↓reduceIte, wp_pure]
          exact ⟨rfl, fun _ _ hmem => by cases hmem⟩
        · by_cases hhop : c.lora.rd 0x12 &&& 0x02 = 0
          · simp only [hhop, not_true_eq_false, ↓reduceIte, wp_pure]
            exact ⟨rfl, fun _ _ hmem => by cases hmem⟩
          · simp only [hhop, not_false_eq_true, ↓reduceIte, hh, wp_pure]
            exact ⟨rfl, fun _ _ hmem => by cases hmem⟩
      · simp only [hcad, hcrc, htxd, not_true_eq_false, not_false_eq_true, ↓reduceIte, and_self]
        unfold txCallback
        rw [wp_bind, wp_modH]
        dsimp only
        rw [wp_bind, wp_getH]
        dsimp only
        simp only [htx, ↓reduceIte, wp_cb]
        exact ⟨by rfl, fun _ _ hmem => by simp at hmem⟩
    · simp only [hcad, hcrc, not_true_eq_false, not_false_eq_true, ↓reduceIte, wp_modH, and_false, false_and]
      exact ⟨rfl, fun _ _ hmem => by cases hmem⟩
  · simp only [hcad, not_false_eq_true, ↓reduceIte, false_and, and_false]
    split
    · simp only [wp_cb]
      exact ⟨by rfl, fun _ _ hmem => by simp at hmem⟩
    · simp only [wp_pure]
      exact ⟨rfl, fun _ _ hmem => by cases hmem⟩

end Sx
