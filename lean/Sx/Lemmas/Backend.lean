import Sx.Model.Backend
/-
  Helper lemmas for the backend half of C19: byte strings of little-endian words, the byte swap
  of `ntohl`, and the shape of the frames.
-/
namespace Sx.Backend

theorem byte_toNat (n : Nat) : (byte n).toNat = n % 256 := by
  simp [byte]

theorem byte_of_lt {n : Nat} (h : n < 256) : (byte n).toNat = n := by
  rw [byte_toNat]; omega

/-- a 7-bit address masked with 0x7f is itself -/
theorem and_7f_of_le : ∀ reg, reg ≤ 0x7f → (reg % 256) &&& 0x7f = reg := by
  decide +kernel

theorem and_7f_of_le' : ∀ reg, reg ≤ 0x7f → reg &&& 0x7f = reg := by
  decide +kernel

/-- setting the write bit of a 7-bit address adds 128 -/
theorem or_80_of_le : ∀ reg, reg ≤ 0x7f → reg ||| 0x80 = reg + 128 := by
  decide +kernel

theorem leBytes_zero : ∀ k, leBytes k 0 = zeros k
  | 0 => rfl
  | k + 1 => by
    show byte 0 :: leBytes k (0 / 256) = 0 :: zeros k
    rw [Nat.zero_div, leBytes_zero k]; rfl

/-- the object representation of a small `uint64_t`: the byte, then zeros -/
theorem leBytes_small (k x : Nat) (h : x < 256) : leBytes (k + 1) x = byte x :: zeros k := by
  show byte x :: leBytes k (x / 256) = _
  rw [Nat.div_eq_of_lt h, leBytes_zero]

theorem zeros_length (n : Nat) : (zeros n).length = n := by simp [zeros]

theorem toNat_lt (b : UInt8) : b.toNat < 256 := b.toNat_lt

theorem bswap32_bytes (a b c d : Nat) (ha : a < 256) (hb : b < 256) (hc : c < 256) (hd : d < 256) :
    bswap32 (a + 256 * b + 65536 * c + 16777216 * d) = a * 16777216 + b * 65536 + c * 256 + d := by
  unfold bswap32
  have h1 : (a + 256 * b + 65536 * c + 16777216 * d) % 256 = a := by omega
  have h2 : (a + 256 * b + 65536 * c + 16777216 * d) / 256 % 256 = b := by omega
  have h3 : (a + 256 * b + 65536 * c + 16777216 * d) / 65536 % 256 = c := by omega
  have h4 : (a + 256 * b + 65536 * c + 16777216 * d) / 16777216 % 256 = d := by omega
  rw [h1, h2, h3, h4]

theorem lin_word (g : UInt8) (ans : List UInt8) (n : Nat) (h1 : 1 ≤ n) (h4 : n ≤ 4) (hl : ans.length = n) :
    bswap32 ((fromLE (rxBytes { garbage := g, miso := ans } (n + 1)) / 256) % 4294967296) / 2 ^ ((4 - n) * 8)
      = msbFirst ans := by
  have hn : n = 1 ∨ n = 2 ∨ n = 3 ∨ n = 4 := by omega
  rcases hn with rfl | rfl | rfl | rfl
  · match ans, hl with
    | [a], _ =>
      have := toNat_lt a; have := toNat_lt g
      have e : (fromLE (rxBytes { garbage := g, miso := [a] } 2) / 256) % 4294967296 = a.toNat + 256 * 0 + 65536 * 0 + 16777216 * 0 := by
        simp only [rxBytes, zeros, List.replicate, List.cons_append, List.nil_append, List.take, fromLE]; omega
      rw [e, bswap32_bytes _ _ _ _ (by omega) (by omega) (by omega) (by omega)]
      simp only [msbFirst, List.foldl]; omega
  · match ans, hl with
    | [a, b], _ =>
      have := toNat_lt a; have := toNat_lt g; have := toNat_lt b
      have e : (fromLE (rxBytes { garbage := g, miso := [a, b] } 3) / 256) % 4294967296 = a.toNat + 256 * b.toNat + 65536 * 0 + 16777216 * 0 := by
        simp only [rxBytes, zeros, List.replicate, List.cons_append, List.nil_append, List.take, fromLE]; omega
      rw [e, bswap32_bytes _ _ _ _ (by omega) (by omega) (by omega) (by omega)]
      simp only [msbFirst, List.foldl]; omega
  · match ans, hl with
    | [a, b, c], _ =>
      have := toNat_lt a; have := toNat_lt g; have := toNat_lt b; have := toNat_lt c
      have e : (fromLE (rxBytes { garbage := g, miso := [a, b, c] } 4) / 256) % 4294967296 = a.toNat + 256 * b.toNat + 65536 * c.toNat + 16777216 * 0 := by
        simp only [rxBytes, zeros, List.replicate, List.cons_append, List.nil_append, List.take, fromLE]; omega
      rw [e, bswap32_bytes _ _ _ _ (by omega) (by omega) (by omega) (by omega)]
      simp only [msbFirst, List.foldl]; omega
  · match ans, hl with
    | [a, b, c, d], _ =>
      have := toNat_lt a; have := toNat_lt g; have := toNat_lt b; have := toNat_lt c; have := toNat_lt d
      have e : (fromLE (rxBytes { garbage := g, miso := [a, b, c, d] } 5) / 256) % 4294967296 = a.toNat + 256 * b.toNat + 65536 * c.toNat + 16777216 * d.toNat := by
        simp only [rxBytes, zeros, List.replicate, List.cons_append, List.nil_append, List.take, fromLE]; omega
      rw [e, bswap32_bytes _ _ _ _ (by omega) (by omega) (by omega) (by omega)]
      simp only [msbFirst, List.foldl]; omega

/-- the shift-and-add loop of the ESP-IDF backend over the received bytes -/
theorem esp_word (ans : List UInt8) (n : Nat) (h4 : n ≤ 4) (hl : ans.length = n) :
    (rxData { miso := ans } n).foldl (fun acc b => ((acc * 256) % 4294967296 + b.toNat) % 4294967296) 0
      = msbFirst ans := by
  have hn : n = 0 ∨ n = 1 ∨ n = 2 ∨ n = 3 ∨ n = 4 := by omega
  rcases hn with rfl | rfl | rfl | rfl | rfl
  · match ans, hl with
    | [], _ => rfl
  · match ans, hl with
    | [a], _ =>
      have := toNat_lt a
      simp only [rxData, zeros, List.replicate, List.cons_append, List.nil_append, List.take, List.foldl, msbFirst]; omega
  · match ans, hl with
    | [a, b], _ =>
      have := toNat_lt a; have := toNat_lt b
      simp only [rxData, zeros, List.replicate, List.cons_append, List.nil_append, List.take, List.foldl, msbFirst]; omega
  · match ans, hl with
    | [a, b, c], _ =>
      have := toNat_lt a; have := toNat_lt b; have := toNat_lt c
      simp only [rxData, zeros, List.replicate, List.cons_append, List.nil_append, List.take, List.foldl, msbFirst]; omega
  · match ans, hl with
    | [a, b, c, d], _ =>
      have := toNat_lt a; have := toNat_lt b; have := toNat_lt c; have := toNat_lt d
      simp only [rxData, zeros, List.replicate, List.cons_append, List.nil_append, List.take, List.foldl, msbFirst]; omega

theorem rxData_exact (ans : List UInt8) (n : Nat) (hl : ans.length = n) : rxData { miso := ans } n = ans := by
  subst hl; simp [rxData]

theorem rxBytes_exact (g : UInt8) (ans : List UInt8) (n : Nat) (hl : ans.length = n) :
    (rxBytes { garbage := g, miso := ans } (n + 1)).drop 1 = ans := by
  subst hl; simp [rxBytes]

end Sx.Backend
