import Mathlib.Tactic.Linarith
import Mathlib.Tactic.Positivity
import Mathlib.Tactic.NormNum
import Mathlib.Tactic.Ring
import Mathlib.Tactic.FieldSimp
import Mathlib.Algebra.Order.Field.Power
import Mathlib.Data.Rat.Defs
import Mathlib.Data.Rat.Floor
import Sx.F
/-
  Facts about the soft-float rounding `rnd` of Sx/F.lean (round to nearest even to `p` significant
  bits): half-ulp and relative error bounds, exactness on integers below 2^p, and the squeeze by
  such integers (which gives `floor (rnd x) ≥ floor x`).  This file and its dependants are the only
  ones that import Mathlib (single modules); the executable model does not depend on them.
-/
namespace Sx


theorem two_zpow_pos (k : Int) : (0 : Rat) < 2 ^ k := by positivity

/-- bounds of a positive rational by the binary logarithms of numerator and denominator -/
theorem rat_log_bounds (a : Rat) (ha : 0 < a) :
    (2 : Rat) ^ (((Nat.log2 a.num.natAbs : Int) - (Nat.log2 a.den : Int)) - 1) < a ∧
    a < (2 : Rat) ^ (((Nat.log2 a.num.natAbs : Int) - (Nat.log2 a.den : Int)) + 1) := by
  have hn : 0 < a.num := Rat.num_pos.mpr ha
  have hd : 0 < a.den := a.den_pos
  set n := a.num.natAbs with hn_def
  have hnn : (n : Int) = a.num := by rw [hn_def]; exact Int.natAbs_of_nonneg (le_of_lt hn)
  have hn0 : n ≠ 0 := by intro e; rw [e] at hnn; simp at hnn; omega
  have hd0 : a.den ≠ 0 := by omega
  have h1 := Nat.log2_self_le hn0
  have h2 := @Nat.lt_log2_self n
  have h3 := Nat.log2_self_le hd0
  have h4 := @Nat.lt_log2_self a.den
  have ha' : a = (n : Rat) / (a.den : Rat) := by
    have e : ((n : Int) : Rat) = (n : Rat) := by push_cast; rfl
    rw [← e, hnn]
    exact (Rat.num_div_den a).symm
  have c1 : ((2 : Rat) ^ (Nat.log2 n : Int)) ≤ (n : Rat) := by
    rw [zpow_natCast]; exact_mod_cast h1
  have c2 : (n : Rat) < (2 : Rat) ^ ((Nat.log2 n : Int) + 1) := by
    have : ((Nat.log2 n : Int) + 1) = ((Nat.log2 n + 1 : Nat) : Int) := by push_cast; ring
    rw [this, zpow_natCast]; exact_mod_cast h2
  have c3 : ((2 : Rat) ^ (Nat.log2 a.den : Int)) ≤ (a.den : Rat) := by
    rw [zpow_natCast]; exact_mod_cast h3
  have c4 : (a.den : Rat) < (2 : Rat) ^ ((Nat.log2 a.den : Int) + 1) := by
    have : ((Nat.log2 a.den : Int) + 1) = ((Nat.log2 a.den + 1 : Nat) : Int) := by push_cast; ring
    rw [this, zpow_natCast]; exact_mod_cast h4
  have hdq : (0 : Rat) < (a.den : Rat) := by exact_mod_cast hd
  have key1 : (2 : Rat) ^ (((Nat.log2 n : Int) - (Nat.log2 a.den : Int)) - 1) * (a.den : Rat) < (n : Rat) := by
    have e : (2 : Rat) ^ (((Nat.log2 n : Int) - (Nat.log2 a.den : Int)) - 1) * (2 : Rat) ^ ((Nat.log2 a.den : Int) + 1)
        = (2 : Rat) ^ (Nat.log2 n : Int) := by
      rw [← zpow_add₀ (by norm_num : (2 : Rat) ≠ 0)]; congr 1; ring
    calc (2 : Rat) ^ (((Nat.log2 n : Int) - (Nat.log2 a.den : Int)) - 1) * (a.den : Rat)
        < (2 : Rat) ^ (((Nat.log2 n : Int) - (Nat.log2 a.den : Int)) - 1) * (2 : Rat) ^ ((Nat.log2 a.den : Int) + 1) := by
          apply mul_lt_mul_of_pos_left c4 (two_zpow_pos _)
      _ = (2 : Rat) ^ (Nat.log2 n : Int) := e
      _ ≤ (n : Rat) := c1
  have key2 : (n : Rat) < (2 : Rat) ^ (((Nat.log2 n : Int) - (Nat.log2 a.den : Int)) + 1) * (a.den : Rat) := by
    have e : (2 : Rat) ^ (((Nat.log2 n : Int) - (Nat.log2 a.den : Int)) + 1) * (2 : Rat) ^ (Nat.log2 a.den : Int)
        = (2 : Rat) ^ ((Nat.log2 n : Int) + 1) := by
      rw [← zpow_add₀ (by norm_num : (2 : Rat) ≠ 0)]; congr 1; ring
    calc (n : Rat) < (2 : Rat) ^ ((Nat.log2 n : Int) + 1) := c2
      _ = (2 : Rat) ^ (((Nat.log2 n : Int) - (Nat.log2 a.den : Int)) + 1) * (2 : Rat) ^ (Nat.log2 a.den : Int) := e.symm
      _ ≤ (2 : Rat) ^ (((Nat.log2 n : Int) - (Nat.log2 a.den : Int)) + 1) * (a.den : Rat) := by
          apply mul_le_mul_of_nonneg_left c3 (le_of_lt (two_zpow_pos _))
  have r1 := (lt_div_iff₀ hdq).mpr key1
  have r2 := (div_lt_iff₀ hdq).mpr key2
  rw [← ha'] at r1 r2
  exact ⟨r1, r2⟩

/-- `ilog2` is the floor of the binary logarithm -/
theorem ilog2_spec (a : Rat) (ha : 0 < a) : (2 : Rat) ^ (ilog2 a) ≤ a ∧ a < (2 : Rat) ^ (ilog2 a + 1) := by
  obtain ⟨b1, b2⟩ := rat_log_bounds a ha
  unfold ilog2
  rw [if_neg (not_le.mpr ha)]
  simp only
  split
  · rename_i h; exact absurd h (not_le.mpr b2)
  · split
    · rename_i h1 h2; exact ⟨h2, b2⟩
    · rename_i h1 h2
      refine ⟨le_of_lt b1, ?_⟩
      have : ((Nat.log2 a.num.natAbs : Int) - (Nat.log2 a.den : Int)) - 1 + 1 = (Nat.log2 a.num.natAbs : Int) - (Nat.log2 a.den : Int) := by ring
      rw [this]
      exact not_le.mp h2



theorem rfloor_eq (s : Rat) : Rat.floor s = ⌊s⌋ := rfl

theorem rhe_cases (s : Rat) : roundHalfEven s = s.floor ∨ roundHalfEven s = s.floor + 1 := by
  unfold roundHalfEven
  simp only
  by_cases h1 : s - s.floor < 1 / 2
  · rw [if_pos h1]; exact Or.inl rfl
  · rw [if_neg h1]
    by_cases h2 : 1 / 2 < s - s.floor
    · rw [if_pos h2]; exact Or.inr rfl
    · rw [if_neg h2]
      by_cases h3 : s.floor % 2 = 0
      · rw [if_pos h3]; exact Or.inl rfl
      · rw [if_neg h3]; exact Or.inr rfl

theorem rhe_err (s : Rat) : |((roundHalfEven s : Int) : Rat) - s| ≤ 1 / 2 := by
  have k1 := Rat.floor_le s
  have k2 := Rat.lt_floor_add_one s
  push_cast at k2
  unfold roundHalfEven
  simp only
  rw [abs_le]
  by_cases h1 : s - s.floor < 1 / 2
  · rw [if_pos h1]; constructor <;> linarith
  · rw [if_neg h1]
    by_cases h2 : 1 / 2 < s - s.floor
    · rw [if_pos h2]; push_cast; constructor <;> linarith
    · rw [if_neg h2]
      have : s - s.floor = 1 / 2 := le_antisymm (not_lt.mp h2) (not_lt.mp h1)
      by_cases h3 : s.floor % 2 = 0
      · rw [if_pos h3]; constructor <;> linarith
      · rw [if_neg h3]; push_cast; constructor <;> linarith

theorem rhe_int (n : Int) : roundHalfEven (n : Rat) = n := by
  unfold roundHalfEven
  simp only [Rat.floor_intCast, sub_self]
  norm_num

theorem rhe_ge_int (s : Rat) (n : Int) (h : (n : Rat) ≤ s) : n ≤ roundHalfEven s := by
  have : n ≤ s.floor := by rw [rfloor_eq]; exact Int.le_floor.mpr h
  rcases rhe_cases s with e | e <;> rw [e] <;> omega

theorem rhe_le_int (s : Rat) (n : Int) (h : s ≤ (n : Rat)) : roundHalfEven s ≤ n := by
  rcases eq_or_lt_of_le h with e | e
  · rw [e, rhe_int]
  · have : s.floor < n := by rw [rfloor_eq]; exact Int.floor_lt.mpr e
    rcases rhe_cases s with e' | e' <;> rw [e'] <;> omega




theorem rnd_pos_eq (p : Nat) (emin : Int) (q : Rat) (hq : 0 < q) :
    rnd p emin q = ((roundHalfEven (q / (2 : Rat) ^ (ulpExp p emin q)) : Int) : Rat) * (2 : Rat) ^ (ulpExp p emin q) := by
  unfold rnd
  rw [if_neg (ne_of_gt hq)]
  simp only [if_neg (not_lt.mpr (le_of_lt hq))]

theorem ulpExp_normal (p : Nat) (emin : Int) (q : Rat) (hn : emin ≤ ilog2 q) :
    ulpExp p emin q = ilog2 q - ((p : Int) - 1) := by
  unfold ulpExp
  exact max_eq_left (by omega)

/-- half an ulp -/
theorem rnd_err (p : Nat) (emin : Int) (q : Rat) (hq : 0 < q) :
    |rnd p emin q - q| ≤ (2 : Rat) ^ (ulpExp p emin q) / 2 := by
  rw [rnd_pos_eq p emin q hq]
  set e := ulpExp p emin q
  have he := two_zpow_pos e
  have h := rhe_err (q / (2 : Rat) ^ e)
  have : ((roundHalfEven (q / (2 : Rat) ^ e) : Int) : Rat) * (2 : Rat) ^ e - q
      = (((roundHalfEven (q / (2 : Rat) ^ e) : Int) : Rat) - q / (2 : Rat) ^ e) * (2 : Rat) ^ e := by
    field_simp
  rw [this, abs_mul, abs_of_pos he]
  calc |((roundHalfEven (q / (2 : Rat) ^ e) : Int) : Rat) - q / (2 : Rat) ^ e| * (2 : Rat) ^ e
      ≤ (1 / 2) * (2 : Rat) ^ e := mul_le_mul_of_nonneg_right h (le_of_lt he)
    _ = (2 : Rat) ^ e / 2 := by ring

/-- relative error 2^-p in the normal range -/
theorem rnd_rel (p : Nat) (emin : Int) (q : Rat) (hq : 0 < q) (hn : emin ≤ ilog2 q) :
    |rnd p emin q - q| ≤ q * (2 : Rat) ^ (-(p : Int)) := by
  have h := rnd_err p emin q hq
  rw [ulpExp_normal p emin q hn] at h
  have hs := (ilog2_spec q hq).1
  have e1 : (2 : Rat) ^ (ilog2 q - ((p : Int) - 1)) / 2 = (2 : Rat) ^ (ilog2 q) * (2 : Rat) ^ (-(p : Int)) := by
    rw [← zpow_add₀ (by norm_num : (2 : Rat) ≠ 0)]
    have : ilog2 q - ((p : Int) - 1) = (ilog2 q + -(p : Int)) + 1 := by ring
    rw [this, zpow_add₀ (by norm_num : (2 : Rat) ≠ 0)]
    simp
  rw [e1] at h
  calc |rnd p emin q - q| ≤ (2 : Rat) ^ (ilog2 q) * (2 : Rat) ^ (-(p : Int)) := h
    _ ≤ q * (2 : Rat) ^ (-(p : Int)) := mul_le_mul_of_nonneg_right hs (le_of_lt (two_zpow_pos _))

/-- a positive integer below 2^p that does not exceed `q` does not exceed the rounding of `q` -/
theorem rnd_ge_nat (p : Nat) (hp : 1 ≤ p) (emin : Int) (q : Rat) (hq : 0 < q) (hn : emin ≤ ilog2 q)
    (n : Nat) (hn0 : 0 < n) (hnp : n < 2 ^ p) (h : (n : Rat) ≤ q) : (n : Rat) ≤ rnd p emin q := by
  rw [rnd_pos_eq p emin q hq, ulpExp_normal p emin q hn]
  set L := ilog2 q
  set e := L - ((p : Int) - 1) with he_def
  have he := two_zpow_pos e
  obtain ⟨s1, s2⟩ := ilog2_spec q hq
  by_cases hc : (n : Rat) < (2 : Rat) ^ L
  · -- the rounding is at least the start of the binade
    have hk : (((2 ^ (p - 1) : Nat) : Int) : Rat) ≤ q / (2 : Rat) ^ e := by
      rw [le_div_iff₀ he]
      have : (((2 ^ (p - 1) : Nat) : Int) : Rat) * (2 : Rat) ^ e = (2 : Rat) ^ L := by
        push_cast
        rw [← zpow_natCast, ← zpow_add₀ (by norm_num : (2 : Rat) ≠ 0)]
        congr 1
        have : ((p - 1 : Nat) : Int) = (p : Int) - 1 := by omega
        rw [this, he_def]; ring
      rw [this]; exact s1
    have := rhe_ge_int _ _ hk
    have h2 : (((2 ^ (p - 1) : Nat) : Int) : Rat) * (2 : Rat) ^ e ≤ ((roundHalfEven (q / (2 : Rat) ^ e) : Int) : Rat) * (2 : Rat) ^ e := by
      apply mul_le_mul_of_nonneg_right _ (le_of_lt he)
      exact_mod_cast this
    have h3 : (((2 ^ (p - 1) : Nat) : Int) : Rat) * (2 : Rat) ^ e = (2 : Rat) ^ L := by
      push_cast
      rw [← zpow_natCast, ← zpow_add₀ (by norm_num : (2 : Rat) ≠ 0)]
      congr 1
      have : ((p - 1 : Nat) : Int) = (p : Int) - 1 := by omega
      rw [this, he_def]; ring
    rw [h3] at h2
    linarith
  · -- same binade: `n` is a multiple of the ulp
    have hc' : (2 : Rat) ^ L ≤ (n : Rat) := not_lt.mp hc
    have hLp : L < (p : Int) := by
      by_contra hcon
      have : (p : Int) ≤ L := not_lt.mp hcon
      have h1 : (2 : Rat) ^ (p : Int) ≤ (2 : Rat) ^ L := zpow_le_zpow_right₀ (by norm_num) this
      rw [zpow_natCast] at h1
      have h2 : (n : Rat) < (2 : Rat) ^ p := by exact_mod_cast hnp
      linarith
    have hneg : 0 ≤ -e := by rw [he_def]; omega
    obtain ⟨m, hm⟩ := Int.eq_ofNat_of_zero_le hneg
    have hpow : (2 : Rat) ^ e = 1 / (2 : Rat) ^ m := by
      have : e = -(m : Int) := by omega
      rw [this, zpow_neg, zpow_natCast]; simp
    have hk : (((n * 2 ^ m : Nat) : Int) : Rat) ≤ q / (2 : Rat) ^ e := by
      rw [hpow]
      push_cast
      have : q / (1 / (2 : Rat) ^ m) = q * (2 : Rat) ^ m := by field_simp
      rw [this]
      exact mul_le_mul_of_nonneg_right h (by positivity)
    have := rhe_ge_int _ _ hk
    have h2 : (((n * 2 ^ m : Nat) : Int) : Rat) * (2 : Rat) ^ e ≤ ((roundHalfEven (q / (2 : Rat) ^ e) : Int) : Rat) * (2 : Rat) ^ e := by
      apply mul_le_mul_of_nonneg_right _ (le_of_lt he)
      exact_mod_cast this
    have h3 : (((n * 2 ^ m : Nat) : Int) : Rat) * (2 : Rat) ^ e = (n : Rat) := by
      rw [hpow]; push_cast; field_simp
    rw [h3] at h2
    exact h2

/-- an integer below 2^p that is not below `q` is not below the rounding of `q` -/
theorem rnd_le_nat (p : Nat) (hp : 1 ≤ p) (emin : Int) (q : Rat) (hq : 0 < q) (hn : emin ≤ ilog2 q)
    (n : Nat) (hnp : n < 2 ^ p) (h : q ≤ (n : Rat)) : rnd p emin q ≤ (n : Rat) := by
  rw [rnd_pos_eq p emin q hq, ulpExp_normal p emin q hn]
  set L := ilog2 q
  set e := L - ((p : Int) - 1) with he_def
  have he := two_zpow_pos e
  obtain ⟨s1, s2⟩ := ilog2_spec q hq
  have hLn : (2 : Rat) ^ L ≤ (n : Rat) := le_trans s1 h
  have hLp : L < (p : Int) := by
    by_contra hcon
    have : (p : Int) ≤ L := not_lt.mp hcon
    have h1 : (2 : Rat) ^ (p : Int) ≤ (2 : Rat) ^ L := zpow_le_zpow_right₀ (by norm_num) this
    rw [zpow_natCast] at h1
    have h2 : (n : Rat) < (2 : Rat) ^ p := by exact_mod_cast hnp
    linarith
  have hneg : 0 ≤ -e := by rw [he_def]; omega
  obtain ⟨m, hm⟩ := Int.eq_ofNat_of_zero_le hneg
  have hpow : (2 : Rat) ^ e = 1 / (2 : Rat) ^ m := by
    have : e = -(m : Int) := by omega
    rw [this, zpow_neg, zpow_natCast]; simp
  have hk : q / (2 : Rat) ^ e ≤ (((n * 2 ^ m : Nat) : Int) : Rat) := by
    rw [hpow]
    push_cast
    have : q / (1 / (2 : Rat) ^ m) = q * (2 : Rat) ^ m := by field_simp
    rw [this]
    exact mul_le_mul_of_nonneg_right h (by positivity)
  have := rhe_le_int _ _ hk
  have h2 : ((roundHalfEven (q / (2 : Rat) ^ e) : Int) : Rat) * (2 : Rat) ^ e ≤ (((n * 2 ^ m : Nat) : Int) : Rat) * (2 : Rat) ^ e := by
    apply mul_le_mul_of_nonneg_right _ (le_of_lt he)
    exact_mod_cast this
  have h3 : (((n * 2 ^ m : Nat) : Int) : Rat) * (2 : Rat) ^ e = (n : Rat) := by
    rw [hpow]; push_cast; field_simp
  rw [h3] at h2
  exact h2

/-- integers below 2^p are represented exactly -/
theorem rnd_nat_exact (p : Nat) (hp : 1 ≤ p) (emin : Int) (hemin : emin ≤ 0) (n : Nat) (hn0 : 0 < n) (hnp : n < 2 ^ p) :
    rnd p emin (n : Rat) = (n : Rat) := by
  have hq : (0 : Rat) < (n : Rat) := by exact_mod_cast hn0
  have hL : emin ≤ ilog2 (n : Rat) := by
    have := (ilog2_spec (n : Rat) hq).2
    by_contra hc
    have hlt : ilog2 (n : Rat) + 1 ≤ 0 := by omega
    have h2 : (2 : Rat) ^ (ilog2 (n : Rat) + 1) ≤ (2 : Rat) ^ (0 : Int) := zpow_le_zpow_right₀ (by norm_num) hlt
    rw [zpow_zero] at h2
    have h1 : (1 : Rat) ≤ (n : Rat) := by exact_mod_cast hn0
    linarith
  exact le_antisymm (rnd_le_nat p hp emin _ hq hL n hnp (le_refl _)) (rnd_ge_nat p hp emin _ hq hL n hn0 hnp (le_refl _))


end Sx
