import Sx.Lemmas.FailFast
/-
  Per-function lemmas for C11: every driver function ends at once with the code of a failed
  transfer (`FF`), and the pieces of the interrupt handlers never deliver after a failure.
-/
namespace Sx
open Sx.Model DM

attribute [local irreducible] DM.rread DM.sread DM.swrite DM.bwrite DM.bread DM.rawbread DM.cb DM.modH DM.setH
  DM.getH DM.fail DM.ub DM.attempt DM.pure' DM.bind' DM.ofExcept
  freqOfRaw loraFreqError fskFreqError ppmFloat beaconTimers fskBitrateValue ookBitrateValue fdevValue
  calculateBwRegister rssiRefine snrOf bandwidthOfCode F.lt F.gt F.le F.toSInt F.toUInt F.ofBits32 F.div F.ofNat

variable {ex : Req → Prop}

theorem ff_checkModulation (m : Nat) : FF ex (checkModulation m) := by
  unfold checkModulation; repeat (first | ff_step | split)
theorem ff_checkFskOok : FF ex checkFskOok := by
  unfold checkFskOok; repeat (first | ff_step | split)
theorem ff_appendRegister (reg : Nat) (v m : UInt8) : FF ex (appendRegister reg v m) := by
  unfold appendRegister; repeat ff_step
theorem ff_getFrequency : FF ex getFrequency := by
  unfold getFrequency; repeat (first | ff_step | split | dsimp only)
theorem ff_setFrequency (f : UInt64) : FF ex (setFrequency f) := by
  unfold setFrequency; repeat (first | ff_step | split | dsimp only)
theorem ff_packetStore (i : Nat) (v : UInt8) : FF ex (packetStore i v) := by
  unfold packetStore; repeat (first | ff_step | split)
theorem ff_packetCopy (i : Nat) (d : List UInt8) : FF ex (packetCopy i d) := by
  unfold packetCopy; repeat (first | ff_step | split)
theorem ff_fixedLen : FF ex fskOokReadFixedPacketLength := by unfold fskOokReadFixedPacketLength; repeat ff_step
theorem ff_addrFilt : FF ex fskOokIsAddressFiltered := by unfold fskOokIsAddressFiltered; repeat (first | ff_step | dsimp only)

macro "ff1" : tactic => `(tactic| repeat (first
  | exact ff_checkModulation _ | exact ff_checkFskOok | exact ff_appendRegister _ _ _ | exact ff_getFrequency
  | exact ff_setFrequency _ | exact ff_packetStore _ _ | exact ff_packetCopy _ _ | exact ff_fixedLen | exact ff_addrFilt
  | ff_step | split | dsimp only))

theorem ff_setLdro (e : Bool) : FF ex (loraSetLowDatarateOptimization e) := by unfold loraSetLowDatarateOptimization; ff1
theorem ff_getBw : FF ex loraGetBandwidth := by unfold loraGetBandwidth; ff1
theorem ff_reload : FF ex reloadLowDatarateOptimization := by
  unfold reloadLowDatarateOptimization
  repeat (first | exact ff_getBw | exact ff_setLdro _ | ff_step | split | dsimp only)
theorem ff_snr : FF ex loraRxGetPacketSnr := by unfold loraRxGetPacketSnr; ff1
theorem ff_txSetOcp (e : Bool) (m : UInt8) : FF ex (txSetOcp e m) := by unfold txSetOcp; ff1
theorem ff_withRemaining (n : UInt16) : FF ex (fskOokTxWithRemaining n) := by unfold fskOokTxWithRemaining; ff1
theorem ff_calibrateLoop (fuel : Nat) : FF ex (calibrateLoop fuel) := by
  induction fuel with
  | zero => unfold calibrateLoop; exact FF_ub _
  | succ n ih =>
    unfold calibrateLoop
    apply FF_bind
    · exact FF_rread _
    · intro v
      split
      · exact ih
      · exact FF_pure _
theorem ff_fskTx (d : List UInt8) : FF ex (fskOokTxSetForTransmission d) := by
  unfold fskOokTxSetForTransmission
  repeat (first
    | exact ff_withRemaining _ | exact ff_checkFskOok | exact ff_packetStore _ _ | exact ff_packetCopy _ _
    | ff_step | split | dsimp only)

macro "ff0" : tactic => `(tactic| repeat (first
  | exact ff_setLdro _ | exact ff_getBw | exact ff_reload | exact ff_snr | exact ff_txSetOcp _ _ | exact ff_withRemaining _
  | exact ff_calibrateLoop _ | exact ff_fskTx _
  | exact ff_checkModulation _ | exact ff_checkFskOok | exact ff_appendRegister _ _ _ | exact ff_getFrequency
  | exact ff_setFrequency _ | exact ff_packetStore _ _ | exact ff_packetCopy _ _ | exact ff_fixedLen | exact ff_addrFilt
  | ff_step | split | dsimp only))

/-- the one documented best-effort read: the SNR refinement of the LoRa packet RSSI -/
def snrRead : Req → Prop
  | .rread reg => reg = Gen.REGPKTSNRVALUE
  | _ => False

/-- every API function except the interrupt handler; `rx_get_packet_rssi` with its exemption -/
theorem ff_api (cap fuel : Nat) (a : Api) (hirq : a.isIrq = false) :
    FF (match a with | .rxGetPacketRssi => snrRead | _ => fun _ => False) (Api.prog cap fuel a) := by
  cases a <;> unfold Api.prog
  case irq => exact absurd hirq (by decide)
  case rxGetPacketRssi =>
    dsimp only
    have hsnr : DM.All snrRead loraRxGetPacketSnr := by
      unfold loraRxGetPacketSnr checkModulation
      repeat (first | dm_step | (apply DM.All_rread; rfl) | split)
    unfold rxGetPacketRssi
    repeat (first | exact FF_attempt_of_all hsnr | exact ff_getFrequency | ff_step | split | dsimp only)
  all_goals (
    dsimp only
    first
    | (unfold Model.create; ff0; done)
    | (unfold setOpmod; ff0; done)
    | (unfold loraResetFifo; ff0; done)
    | (unfold rxSetLnaGain; ff0; done)
    | (unfold rxSetLnaBoostHf; ff0; done)
    | (unfold loraSetBandwidth; ff0; done)
    | (unfold loraSetModemConfig2; ff0; done)
    | (unfold loraSetSyncword; ff0; done)
    | (unfold setPreambleLength; ff0; done)
    | (unfold loraSetImplicitHeader; ff0; done)
    | (unfold loraTxSetExplicitHeader; ff0; done)
    | (unfold loraSetFrequencyHopping; ff0; done)
    | (unfold rxGetFrequencyError; ff0; done)
    | (unfold dumpRegisters; ff0; done)
    | (unfold txSetPaConfig; ff0; done)
    | (unfold loraTxSetForTransmission; ff0; done)
    | (unfold loraSetPpmOffset; ff0; done)
    | (unfold fskOokTxSetForTransmissionWithAddress; ff0; done)
    | (unfold fskOokTxStartBeacon; ff0; done)
    | (unfold fskOokTxStopBeacon; ff0; done)
    | (unfold fskOokSetBitrate; ff0; done)
    | (unfold fskSetFdev; ff0; done)
    | (unfold ookRxSetPeakMode; ff0; done)
    | (unfold ookRxSetFixedMode; ff0; done)
    | (unfold ookRxSetAvgMode; ff0; done)
    | (unfold fskOokRxSetCollisionRestart; ff0; done)
    | (unfold fskOokRxSetAfcAuto; ff0; done)
    | (unfold fskOokRxSetAfcBandwidth; ff0; done)
    | (unfold fskOokRxSetBandwidth; ff0; done)
    | (unfold fskOokRxSetTrigger; ff0; done)
    | (unfold fskOokSetSyncword; ff0; done)
    | (unfold fskOokRxSetRssiConfig; ff0; done)
    | (unfold fskOokSetPacketEncoding; ff0; done)
    | (unfold fskOokSetCrc; ff0; done)
    | (unfold fskOokSetPacketFormat; ff0; done)
    | (unfold fskOokSetAddressFiltering; ff0; done)
    | (unfold fskSetDataShaping; ff0; done)
    | (unfold ookSetDataShaping; ff0; done)
    | (unfold fskOokSetPreambleType; ff0; done)
    | (unfold fskOokRxSetPreambleDetector; ff0; done)
    | (unfold fskOokRxCalibrate; ff0; done)
    | (unfold fskOokGetRawTemperature; ff0; done)
    | (unfold fskOokSetTempMonitor; ff0; done)
    | (unfold Model.writeRegister; ff0; done)
    | (ff0; done))

/-! ### the interrupt handlers never deliver after a failed transfer -/

theorem fs_checkModulation (m : Nat) : FS (checkModulation m) := by
  unfold checkModulation; repeat (first | fs_step | split)
theorem fs_packetStore (i : Nat) (v : UInt8) : FS (packetStore i v) := by
  unfold packetStore; repeat (first | fs_step | split)
theorem fs_packetCopy (i : Nat) (d : List UInt8) : FS (packetCopy i d) := by
  unfold packetCopy; repeat (first | fs_step | split)
theorem fs_fixedLen : FS fskOokReadFixedPacketLength := by unfold fskOokReadFixedPacketLength; repeat fs_step
theorem fs_addrFilt : FS fskOokIsAddressFiltered := by unfold fskOokIsAddressFiltered; repeat (first | fs_step | dsimp only)
theorem fs_setFrequency (f : UInt64) : FS (setFrequency f) := by
  unfold setFrequency; repeat (first | fs_step | split | dsimp only)
theorem fs_header : FS readPayloadHeader := by
  unfold readPayloadHeader
  repeat (first | exact fs_fixedLen | exact fs_addrFilt | fs_step | split | dsimp only)
theorem fs_drainLoop (fuel : Nat) : FS (drainLoop fuel) := by
  induction fuel with
  | zero => unfold drainLoop; exact FS_ub _
  | succ n ih =>
    unfold drainLoop
    repeat (first | exact ih | exact fs_packetStore _ _ | fs_step | split | dsimp only)
theorem fs_batch (fuel : Nat) (b : Bool) : FS (fskOokReadPayloadBatch fuel b) := by
  unfold fskOokReadPayloadBatch
  repeat (first | exact fs_header | exact fs_drainLoop _ | exact fs_packetCopy _ _ | fs_step | split | dsimp only)
theorem fs_getRssi : FS fskOokGetRssi := by unfold fskOokGetRssi; repeat (first | fs_step | dsimp only)
theorem fs_rxCb : FS rxCallback := by unfold rxCallback; repeat (first | fs_step | split)
theorem fs_txCb : FS txCallback := by unfold txCallback; repeat (first | fs_step | split)
theorem nr_txCb : NR txCallback := by unfold txCallback; repeat (first | nr_step | split)
theorem fs_loraRead : FS loraRxReadPayload := by
  unfold loraRxReadPayload
  repeat (first | exact fs_checkModulation _ | exact fs_packetCopy _ _ | fs_step | split | dsimp only)

macro "fs0" : tactic => `(tactic| repeat (first
  | exact fs_checkModulation _ | exact fs_packetStore _ _ | exact fs_packetCopy _ _ | exact fs_setFrequency _
  | exact fs_getRssi | exact fs_rxCb | exact fs_txCb | exact fs_loraRead
  | fs_step | split | dsimp only))

macro "nr0" : tactic => `(tactic| repeat (first | exact nr_txCb | nr_step | split | dsimp only))

theorem okh_fskIrq (fuel : Nat) : OKH (fskOokHandleInterrupt fuel) := by
  unfold fskOokHandleInterrupt
  apply OKH_bind_FS (FS_rread _); intro irq
  apply OKH_bind_FS (FS_swrite _ _); intro _
  apply OKH_bind_FS FS_getH; intro h
  split
  · -- PayloadReady
    dsimp only
    split
    · exact OKH_of_FS (by fs0)
    · apply OKH_attempt_bind (fs_batch _ _)
      · intro a; exact OKH_of_FS (by fs0)
      · intro c; exact (by nr0)
  · split
    · exact OKH_of_FS (by fs0)
    · split
      · exact OKH_of_FS (by fs0)
      · split
        · split
          · exact OKH_attempt_bind (fs_batch _ _) (fun _ => OKH_pure _) (fun _ => NR_pure _)
          · exact OKH_of_FS (by fs0)
        · exact OKH_pure _

theorem fs_loraGuard (e : UInt16) : FS (loraReadGuard e) := by
  unfold loraReadGuard
  constructor
  intro h
  rw [fwp_bind', fwp_attempt]
  refine Prog.fwp_mono _ _ _ _ ?_ (fs_loraRead.q h)
  intro f' ⟨r, h'⟩ hq
  cases r with
  | error c =>
    dsimp only
    simp only [fwp_bind', fwp_modH, fwp_fail]
    exact fun _ => ⟨c, rfl⟩
  | ok a =>
    dsimp only
    rw [fwp_pure]
    exact hq

theorem okh_loraIrq : OKH loraHandleInterrupt := by
  unfold loraHandleInterrupt
  apply OKH_bind_FS (FS_rread _); intro v
  apply OKH_bind_FS (FS_swrite _ _); intro _
  apply OKH_bind_FS FS_getH; intro h
  split
  · exact OKH_of_FS (by fs0)
  · split
    · exact OKH_of_FS (by fs0)
    · split
      · apply OKH_bind_FS (fs_loraGuard _); intro _
        exact OKH_of_FS (by fs0)
      · split
        · exact OKH_of_FS (by fs0)
        · split
          · exact OKH_of_FS (by fs0)
          · exact OKH_pure _

theorem okh_irq (fuel : Nat) : OKH (handleInterrupt fuel) := by
  unfold handleInterrupt
  apply OKH_bind_FS FS_getH; intro h
  split
  · exact okh_loraIrq
  · split
    · exact okh_fskIrq _
    · exact OKH_pure _

/-! ### a failed transfer while the FSK/OOK packet header is read leaves the handle untouched -/

macro "keep0" : tactic => `(tactic| repeat (first
  | intro _ | exact KeepH_pure _ | exact KeepH_fail _ | exact KeepH_getH | exact KeepH_rread _ | exact KeepH_sread _ _
  | exact KeepH_bread _ _ | apply KeepH_bind | split | dsimp only))

theorem keep_fixedLen : KeepH fskOokReadFixedPacketLength := by unfold fskOokReadFixedPacketLength; keep0
theorem keep_addrFilt : KeepH fskOokIsAddressFiltered := by unfold fskOokIsAddressFiltered; keep0

theorem tx_header : TX readPayloadHeader := by
  unfold readPayloadHeader
  apply TX_bind_keep KeepH_getH FS_getH; intro h
  split
  · exact TX_pure _
  · apply TX_bind_keep keep_addrFilt fs_addrFilt; intro af
    split
    · apply TX_bind_keep keep_fixedLen fs_fixedLen; intro len
      dsimp only
      split
      · apply TX_bind_keep (KeepH_bread _ _) (FS_bread _ _); intro _
        exact TX_modH_pure _ _
      · exact TX_modH_pure _ _
    · split
      · dsimp only
        apply TX_bind_keep (KeepH_bread _ _) (FS_bread _ _); intro hdr
        exact TX_modH_pure _ _
      · exact TX_pure _

/-! ### a failed transfer while a LoRa packet is read leaves the handle untouched -/

theorem fwp_setH (h' h : Handle) (f Q) : (setH h' h).fwp f Q ↔ Q f (.ok (), h') := by unfold DM.setH; exact Iff.rfl

macro "lora_tail" : tactic => `(tactic| (
  dsimp only
  split
  · -- the packet does not fit into the buffer: refused before anything changes
    simp only [fwp_fail, fwp_bind', fwp_modH]
    intro e; cases e
  simp only [fwp_bind', fwp_getH, fwp_rread, fwp_swrite, fwp_modH, fwp_fail, fwp_pure]
  refine ⟨fun cur => ⟨?_, fun _ _ => trivial⟩, fun _ _ => trivial⟩
  split
  · simp only [fwp_pure, fwp_bind', fwp_bread, fwp_getH, fwp_modH, fwp_fail]
    refine ⟨fun data => ?_, fun _ _ => trivial⟩
    split
    · simp only [fwp_setH, fwp_pure]; intro e; cases e
    · simp only [fwp_ub]
  · simp only [fwp_ub, fwp_bind']))

theorem tx_loraGuard (h : Handle) :
    (loraReadGuard h.expected h).fwp false (fun f' rh => f' = true → rh.2 = h) := by
  unfold loraReadGuard loraRxReadPayload checkModulation packetCopy
  simp only [fwp_bind', fwp_attempt, fwp_getH]
  by_cases hm : h.activeModem ≠ Gen.SX127x_MODULATION_LORA
  · rw [if_pos hm, fwp_fail]
    simp only [fwp_bind', fwp_modH, fwp_fail]
    intro e; cases e
  · rw [if_neg hm, fwp_pure]
    dsimp only
    by_cases he : h.expected = 0
    · rw [if_pos he, fwp_rread]
      refine ⟨fun v => ?_, fun c => ?_⟩
      · lora_tail
      · simp only [fwp_modH, fwp_fail]
        intro _; trivial
    · rw [if_neg he, fwp_pure]
      lora_tail

end Sx
