import Sx.Lemmas.RxSteps
import Sx.Lemmas.TxCovers
import Sx.Lemmas.Exec
/-
  The receive environment `rxE` (Sx/Lemmas/RxFifo.lean) covers the uncached interpreter over the
  chip model for operations without events or faults inside them (`rx_covers`), and the chip's
  environment events `rxByte` / `rxEnd` between operations are the environment's arrivals
  (`env_rxByte`, `env_rxEnd`).  What this checks is the *content* of `rxE`: the flag semantics, the
  FIFO read semantics including the clearing of PayloadReady, the flush, the configuration
  registers.  Arrivals inside a running handler are covered by `rxE` itself but not by this
  refinement (their admissibility — the FIFO never fills — is a property of the run, not of the
  schedule).  The cached build follows by C02.
-/
namespace Sx
open Mem Chip

/-- the chip after the host has read `n ≥ 1` bytes out of the FSK/OOK FIFO (`n ≤` its content):
    PayloadReady and CrcOk are cleared when that empties the FIFO -/
def Chip.fifoTake (c : Chip) (n : Nat) : Chip :=
  if n = 0 then c else
  if c.fifo.drop n = [] then { c with fifo := [], fsk := c.fsk.wr 0x3f (c.fsk.rd 0x3f &&& 0xf9) }
  else { c with fifo := c.fifo.drop n }

theorem read_fifo_fsk (c : Chip) (v : UInt8) (rest : List UInt8) (hl : c.isLora = false) (hf : c.fifo = v :: rest) :
    c.read 0 = (v, c.fifoTake 1) := by
  unfold Chip.read Chip.fifoTake
  simp only [show (0 % 128) = 0 from rfl, ↓reduceIte, hl, Bool.false_eq_true, hf, List.drop_succ_cons, List.drop_zero,
    show ¬((1:Nat) = 0) by decide]
  cases rest with
  | nil => simp
  | cons w ws => simp

theorem readN_fifo_fsk : ∀ (n : Nat) (c : Chip), c.isLora = false → n ≤ c.fifo.length →
    c.readN 0 n = (c.fifo.take n, c.fifoTake n) := by
  intro n
  induction n with
  | zero => intro c _ _; simp [Chip.readN, Chip.fifoTake]
  | succ n ih =>
    intro c hl hn
    cases hf : c.fifo with
    | nil => rw [hf] at hn; simp at hn
    | cons v rest =>
      rw [hf] at hn
      simp only [List.length_cons] at hn
      simp only [Chip.readN, ↓reduceIte]
      rw [read_fifo_fsk c v rest hl hf]
      have hl1 : (c.fifoTake 1).isLora = false := by
        unfold Chip.fifoTake; simp only [show ¬((1:Nat) = 0) by decide, ↓reduceIte]; split <;> exact hl
      have hf1 : (c.fifoTake 1).fifo = rest := by
        unfold Chip.fifoTake; simp only [show ¬((1:Nat) = 0) by decide, ↓reduceIte, hf, List.drop_succ_cons, List.drop_zero]
        split
        · rename_i he; exact he.symm
        · rfl
      rw [ih (c.fifoTake 1) hl1 (by rw [hf1]; omega)]
      simp only [hf1, List.take_succ_cons, Prod.mk.injEq, true_and]
      -- the chip afterwards
      by_cases hn0 : n = 0
      · subst hn0; simp [Chip.fifoTake]
      · have hrne : rest ≠ [] := by intro he; rw [he] at hn; simp at hn; exact hn0 hn
        unfold Chip.fifoTake
        simp only [hn0, ↓reduceIte, show ¬(n + 1 = 0) by omega, show ¬((1:Nat) = 0) by decide, hf, List.drop_succ_cons, List.drop_zero, hrne]
/-- the chip while receiving in FSK/OOK packet mode, as the ghost state describes it -/
structure RxChip (c : Chip) (g : RxG) : Prop where
  fifo : c.fifo = g.fifo
  fsk : c.isLora = false
  thr : c.fsk.rd 0x35 &&& 0x3f = 31
  ready : c.fsk.rd 0x3f &&& 0x04 ≠ 0 ↔ g.ready = true
  crc : c.fsk.rd 0x3f &&& 0x02 ≠ 0 ↔ g.crcFlag = true
  sent : c.fsk.rd 0x3f &&& 0x08 = 0
  ovr : c.fsk.rd 0x3f &&& 0x10 = 0
  cfg1 : c.fsk.rd 0x30 = g.cfg1
  cfg2 : c.fsk.rd 0x31 = g.cfg2
  plen : c.fsk.rd 0x32 = g.plen
  room : g.fifo.length ≤ 63
  len : c.fsk.length = 128

set_option maxRecDepth 100000 in
theorem rxflags_bv : ∀ b : BitVec 8, ∀ p q r : Bool,
    (let s : UInt8 := ⟨b⟩
     let v0 := s &&& 0x1f
     let v1 := if p = true then v0 ||| 0x80 else v0
     let v2 := if q = true then v1 ||| 0x40 else v1
     let v := if r = true then v2 ||| 0x20 else v2
     (v &&& 0x04 ≠ 0 ↔ s &&& 0x04 ≠ 0) ∧ (v &&& 0x02 ≠ 0 ↔ s &&& 0x02 ≠ 0) ∧ (v &&& 0x08 = s &&& 0x08) ∧ (v &&& 0x10 = s &&& 0x10)
       ∧ (v &&& 0x20 ≠ 0 ↔ r = true) ∧ (v &&& 0x40 ≠ 0 ↔ q = true) ∧ (v &&& 0x80 ≠ 0 ↔ p = true)) := by
  decide +kernel

theorem rx_flags2_ok {c : Chip} {g : RxG} (h : RxChip c g) : RxFlagsOk c.flags2 g := by
  have hb := rxflags_bv (c.fsk.rd 0x3f).toBitVec (decide (c.fifo.length ≥ 64)) (decide (c.fifo.length = 0))
    (decide (c.fifo.length > (c.fsk.rd 0x35 &&& 0x3f).toNat))
  simp only [decide_eq_true_eq] at hb
  obtain ⟨h1, h2, h3, h4, h5, h6, h7⟩ := hb
  have hthr : (c.fsk.rd 0x35 &&& 0x3f).toNat = 31 := by rw [h.thr]; rfl
  have hroom := h.room
  refine ⟨h1.trans h.ready, h2.trans h.crc, h3.trans h.sent, h4.trans h.ovr, ?_, ?_, ?_⟩
  · rw [← h.fifo, ← hthr]; exact h5
  · rw [← h.fifo]; exact h6.trans List.length_eq_zero_iff
  · by_cases hx : c.flags2 &&& 0x80 = 0
    · exact hx
    · have := h7.mp hx; rw [h.fifo] at this; omega
theorem and_f9_04 (x : UInt8) : (x &&& 0xf9) &&& 0x04 = 0 := by byte_bits
theorem and_f9_02 (x : UInt8) : (x &&& 0xf9) &&& 0x02 = 0 := by byte_bits
theorem and_f9_08 (x : UInt8) : (x &&& 0xf9) &&& 0x08 = x &&& 0x08 := by byte_bits
theorem and_f9_10 (x : UInt8) : (x &&& 0xf9) &&& 0x10 = x &&& 0x10 := by byte_bits

/-- the stored flag byte and the FIFO replaced -/
theorem RxChip.store {c : Chip} {g : RxG} (h : RxChip c g) (f : List UInt8) (hf : f.length ≤ 63) (s' : UInt8) (r cf : Bool)
    (h4 : s' &&& 0x04 ≠ 0 ↔ r = true) (h2 : s' &&& 0x02 ≠ 0 ↔ cf = true) (h8 : s' &&& 0x08 = 0) (h10 : s' &&& 0x10 = 0) :
    RxChip { c with fifo := f, fsk := c.fsk.wr 0x3f s' } { g with fifo := f, ready := r, crcFlag := cf } := by
  have hrd : (c.fsk.wr 0x3f s').rd 0x3f = s' := rd_wr_same _ _ _ (by rw [h.len]; decide)
  refine ⟨rfl, h.fsk, ?_, ?_, ?_, ?_, ?_, ?_, ?_, ?_, hf, by simp [h.len]⟩
  · show (c.fsk.wr 0x3f _).rd 0x35 &&& 0x3f = 31; rw [rd_wr_ne _ _ _ _ (by decide)]; exact h.thr
  · show (c.fsk.wr 0x3f _).rd 0x3f &&& 0x04 ≠ 0 ↔ r = true; rw [hrd]; exact h4
  · show (c.fsk.wr 0x3f _).rd 0x3f &&& 0x02 ≠ 0 ↔ cf = true; rw [hrd]; exact h2
  · show (c.fsk.wr 0x3f _).rd 0x3f &&& 0x08 = 0; rw [hrd]; exact h8
  · show (c.fsk.wr 0x3f _).rd 0x3f &&& 0x10 = 0; rw [hrd]; exact h10
  · show (c.fsk.wr 0x3f _).rd 0x30 = g.cfg1; rw [rd_wr_ne _ _ _ _ (by decide)]; exact h.cfg1
  · show (c.fsk.wr 0x3f _).rd 0x31 = g.cfg2; rw [rd_wr_ne _ _ _ _ (by decide)]; exact h.cfg2
  · show (c.fsk.wr 0x3f _).rd 0x32 = g.plen; rw [rd_wr_ne _ _ _ _ (by decide)]; exact h.plen

/-- clearing PayloadReady and CrcOk in the stored flags -/
theorem RxChip.cleared {c : Chip} {g : RxG} (h : RxChip c g) (f : List UInt8) (hf : f.length ≤ 63) :
    RxChip { c with fifo := f, fsk := c.fsk.wr 0x3f (c.fsk.rd 0x3f &&& 0xf9) } { g with fifo := f, ready := false, crcFlag := false } :=
  h.store f hf _ false false (by rw [and_f9_04]; simp) (by rw [and_f9_02]; simp) (by rw [and_f9_08]; exact h.sent) (by rw [and_f9_10]; exact h.ovr)

/-- the host takes `n ≥ 1` bytes that are there -/
theorem RxChip.take {c : Chip} {g : RxG} (h : RxChip c g) (n : Nat) (hn : n ≤ g.fifo.length) :
    RxChip (c.fifoTake n) (g.take n) := by
  unfold Chip.fifoTake RxG.take
  by_cases h0 : n = 0
  · rw [if_pos h0, if_pos h0]; exact h
  rw [if_neg h0, if_neg h0, if_pos hn, h.fifo]
  dsimp only
  have hroom : (g.fifo.drop n).length ≤ 63 := by have := h.room; simp; omega
  by_cases he : g.fifo.drop n = []
  · rw [if_pos he, if_pos he]
    have := h.cleared [] (by simp)
    exact ⟨this.fifo.trans he.symm, this.fsk, this.thr, this.ready, this.crc, this.sent, this.ovr, this.cfg1, this.cfg2, this.plen,
      by show (g.fifo.drop n).length ≤ 63; exact hroom, this.len⟩
  · rw [if_neg he, if_neg he]
    exact ⟨rfl, h.fsk, h.thr, h.ready, h.crc, h.sent, h.ovr, h.cfg1, h.cfg2, h.plen, hroom, h.len⟩

theorem fl_a (x : UInt8) : ((x &&& 0xef) &&& 0xf9) &&& 0x04 = 0 := by byte_bits
theorem fl_b (x : UInt8) : ((x &&& 0xef) &&& 0xf9) &&& 0x02 = 0 := by byte_bits
theorem fl_c (x : UInt8) : ((x &&& 0xef) &&& 0xf9) &&& 0x08 = x &&& 0x08 := by byte_bits
theorem fl_d (x : UInt8) : ((x &&& 0xef) &&& 0xf9) &&& 0x10 = 0 := by byte_bits
theorem fe_4 (x : UInt8) : (x &&& 0xfe) &&& 0x04 = x &&& 0x04 := by byte_bits
theorem fe_2 (x : UInt8) : (x &&& 0xfe) &&& 0x02 = x &&& 0x02 := by byte_bits
theorem fe_8 (x : UInt8) : (x &&& 0xfe) &&& 0x08 = x &&& 0x08 := by byte_bits
theorem fe_10 (x : UInt8) : (x &&& 0xfe) &&& 0x10 = x &&& 0x10 := by byte_bits

/-- a write to RegIrqFlags2: FifoOverrun flushes the FIFO (PayloadReady and CrcOk go with it),
    LowBat is write-one-to-clear, everything else is read-only -/
theorem RxChip.write3f {c : Chip} {g : RxG} (h : RxChip c g) (v : UInt8) :
    RxChip (c.write 0x3f v) (if v &&& 0x10 ≠ 0 then g.flush else g) := by
  have h128 : 0x3f < c.fsk.length := by rw [h.len]; decide
  simp only [Chip.write, h.fsk, show (0x3f % 128) = 0x3f from rfl, show ¬(0x3f = 0) by decide, ↓reduceIte,
    Bool.false_eq_true, false_and, Bool.not_false, true_and, show ¬(0x3f = 0x3e) by decide]
  by_cases hv : v &&& 0x10 ≠ 0
  · rw [if_pos hv, if_pos hv]
    unfold Chip.fifoFlush RxG.flush
    simp only [rd_wr_same _ _ _ h128, wr_wr_same]
    by_cases h1 : v &&& 0x01 ≠ 0
    · rw [if_pos h1]
      exact h.store [] (by simp) _ false false (by rw [fe_4, fl_a]; simp) (by rw [fe_2, fl_b]; simp)
        (by rw [fe_8, fl_c]; exact h.sent) (by rw [fe_10, fl_d])
    · rw [if_neg h1]
      exact h.store [] (by simp) _ false false (by rw [fl_a]; simp) (by rw [fl_b]; simp) (by rw [fl_c]; exact h.sent) (by rw [fl_d])
  · rw [if_neg hv, if_neg hv]
    by_cases h1 : v &&& 0x01 ≠ 0
    · rw [if_pos h1]
      have := h.store g.fifo h.room (c.fsk.rd 0x3f &&& 0xfe) g.ready g.crcFlag (by rw [fe_4]; exact h.ready) (by rw [fe_2]; exact h.crc)
        (by rw [fe_8]; exact h.sent) (by rw [fe_10]; exact h.ovr)
      exact ⟨this.fifo.trans h.fifo.symm ▸ h.fifo, this.fsk, this.thr, this.ready, this.crc, this.sent, this.ovr, this.cfg1, this.cfg2, this.plen, h.room, this.len⟩
    · rw [if_neg h1]; exact h
/-! ### the interpreter (uncached build, no events and no faults inside an operation) -/

structure RxWorld (p0 : List UInt8) (o0 : Bool) (w : World) (g : RxG) : Prop where
  chip : RxChip w.chip g
  nosched : w.sched = []
  nofault : w.faults = []
  clean : g.faulted = false
  /-- nothing arrives inside an operation without scheduled events -/
  pend : g.pending = p0
  ov : g.over = o0

theorem RxG.take_pending (g : RxG) (n : Nat) (hp : ¬(g.take n).poison = true ∨ True) : (g.take n).pending = g.pending := by
  unfold RxG.take
  repeat (first | rfl | split | dsimp only)
theorem RxG.take_over (g : RxG) (n : Nat) : (g.take n).over = g.over := by
  unfold RxG.take
  repeat (first | rfl | split | dsimp only)

theorem RxG.take_faulted (g : RxG) (n : Nat) : (g.take n).faulted = g.faulted := by
  unfold RxG.take
  repeat (first | rfl | split | dsimp only)

def rxAbs (p0 : List UInt8) (o0 : Bool) (w : World) (g : RxG) : Prop := g.poison = true ∨ g.ended = true ∨ RxWorld p0 o0 w g

theorem pre_quiet (w : World) (hs : w.sched = []) (hf : w.faults = []) : w.pre = ({ w with xfer := w.xfer + 1 }, none) := by
  unfold World.pre; rw [hs, hf]; rfl

theorem RxG.arrive_zero (g : RxG) : g.arrive 0 false = g := by
  unfold RxG.arrive; simp

theorem rx_not_live {g : RxG} (hd : ¬g.live) : g.poison = true ∨ g.ended = true := by
  unfold RxG.live at hd
  cases hp : g.poison <;> cases he : g.ended <;> simp_all

theorem rxR_dead {g : RxG} (hd : ¬g.live) (q : Req) (a : Ans) : rxE.R g q a g := by
  show rxR g q a g
  unfold rxR
  rw [if_pos (rx_not_live hd)]

theorem rxAbs_dead {p0 o0} {g : RxG} (hd : ¬g.live) (w : World) : rxAbs p0 o0 w g := by
  rcases rx_not_live hd with h | h
  · exact Or.inl h
  · exact Or.inr (Or.inl h)

theorem rxAbs_live {p0 o0 w} {g : RxG} (hl : g.live) (ha : rxAbs p0 o0 w g) : RxWorld p0 o0 w g := by
  rcases ha with h | h | h
  · rw [hl.1] at h; cases h
  · rw [hl.2] at h; cases h
  · exact h

/-- introduction rule for the live relation with no arrival -/
theorem rxR_quiet {g : RxG} (hl : g.live) (hroom : g.fifo.length ≤ 63) (q : Req) (a : Ans) (g' : RxG) (hne : a.noErr)
    (hm : rxAnswer g g q a g') : rxE.R g q a g' := by
  rw [rxR_live hl]
  refine Or.inl ⟨hne, 0, false, ⟨Nat.zero_le _, by omega⟩, ?_⟩
  rw [RxG.arrive_zero]
  exact hm
theorem busRead_quiet (w : World) (hs : w.sched = []) (hf : w.faults = []) (reg n : Nat) :
    w.busRead reg n = (.ok (be32 (w.chip.readN reg n).1),
      { w with xfer := w.xfer + 1, chip := (w.chip.readN reg n).2, bus := .r reg n (.ok (be32 (w.chip.readN reg n).1)) :: w.bus }) := by
  unfold World.busRead; rw [pre_quiet w hs hf]
theorem busReadBuf_quiet (w : World) (hs : w.sched = []) (hf : w.faults = []) (reg n : Nat) :
    w.busReadBuf reg n = (.ok (w.chip.readN reg n).1,
      { w with xfer := w.xfer + 1, chip := (w.chip.readN reg n).2, bus := .rb reg n (.ok (w.chip.readN reg n).1) :: w.bus }) := by
  unfold World.busReadBuf; rw [pre_quiet w hs hf]
theorem busWrite_quiet (w : World) (hs : w.sched = []) (hf : w.faults = []) (reg : Nat) (d : List UInt8) :
    w.busWrite reg d = (.ok (), { w with xfer := w.xfer + 1, chip := w.chip.writeN reg d, bus := .w reg d (.ok ()) :: w.bus }) := by
  unfold World.busWrite; rw [pre_quiet w hs hf]
theorem busWriteBuf_quiet (w : World) (hs : w.sched = []) (hf : w.faults = []) (reg : Nat) (d : List UInt8) :
    w.busWriteBuf reg d = (.ok (), { w with xfer := w.xfer + 1, chip := w.chip.writeN reg d, bus := .wb reg d (.ok ()) :: w.bus }) := by
  unfold World.busWriteBuf; rw [pre_quiet w hs hf]

theorem sread_quiet (w : World) (hs : w.sched = []) (hf : w.faults = []) (reg n : Nat) :
    Shadow.sread false w reg n = .ok (.ok (be32 (w.chip.readN reg n).1))
      { w with xfer := w.xfer + 1, chip := (w.chip.readN reg n).2, bus := .r reg n (.ok (be32 (w.chip.readN reg n).1)) :: w.bus } := by
  unfold Shadow.sread Shadow.busStep
  rw [busRead_quiet w hs hf]; rfl
theorem rread_quiet (w : World) (hs : w.sched = []) (hf : w.faults = []) (reg : Nat) :
    Shadow.rread false w reg = .ok (.ok (be32 (w.chip.readN reg 1).1).toUInt8)
      { w with xfer := w.xfer + 1, chip := (w.chip.readN reg 1).2, bus := .r reg 1 (.ok (be32 (w.chip.readN reg 1).1)) :: w.bus } := by
  unfold Shadow.rread Shadow.busStep1
  rw [busRead_quiet w hs hf]; rfl
theorem swrite_quiet (w : World) (hs : w.sched = []) (hf : w.faults = []) (reg : Nat) (d : List UInt8) :
    Shadow.swrite false w reg d = .ok (.ok ())
      { w with xfer := w.xfer + 1, chip := w.chip.writeN reg d, bus := .w reg d (.ok ()) :: w.bus } := by
  unfold Shadow.swrite
  rw [busWrite_quiet w hs hf]; rfl
theorem bwrite_quiet (w : World) (hs : w.sched = []) (hf : w.faults = []) (reg : Nat) (d : List UInt8) :
    Shadow.bwrite false w reg d = .ok (.ok ())
      { w with xfer := w.xfer + 1, chip := w.chip.writeN reg d, bus := .wb reg d (.ok ()) :: w.bus } := by
  unfold Shadow.bwrite
  rw [busWriteBuf_quiet w hs hf]; rfl

theorem rxAbs_poison {p0 o0} (w : World) (g : RxG) : rxAbs p0 o0 w { g with poison := true } := Or.inl rfl

/-- **the uncached interpreter over the chip model is an instance of the receive environment**,
    for operations without events or faults inside them (arrivals between operations are
    `env_rxByte` / `env_rxEnd` below) -/
theorem rx_covers (p0 : List UInt8) (o0 : Bool) (onCb : CbEvent → Handle → World → Outcome Handle) : Covers rxE false onCb (rxAbs p0 o0) where
  sread := by
    intro w g reg n ha
    by_cases hl : g.live
    · have hw := rxAbs_live hl ha
      rw [sread_quiet w hw.nosched hw.nofault]
      exact ⟨{ g with poison := true }, rxR_quiet hl hw.chip.room _ _ _ trivial rfl, rxAbs_poison _ _⟩
    · cases hs : Shadow.sread false w reg n with
      | ub u => trivial
      | ok r w' => exact ⟨g, rxR_dead hl _ _, rxAbs_dead hl _⟩
  rawbread := by
    intro w g reg n ha
    by_cases hl : g.live
    · have hw := rxAbs_live hl ha
      rw [busReadBuf_quiet w hw.nosched hw.nofault]
      exact ⟨{ g with poison := true }, rxR_quiet hl hw.chip.room _ _ _ trivial rfl, rxAbs_poison _ _⟩
    · exact ⟨g, rxR_dead hl _ _, rxAbs_dead hl _⟩
  bwrite := by
    intro w g reg d ha
    by_cases hl : g.live
    · have hw := rxAbs_live hl ha
      rw [bwrite_quiet w hw.nosched hw.nofault]
      exact ⟨{ g with poison := true }, rxR_quiet hl hw.chip.room _ _ _ trivial rfl, rxAbs_poison _ _⟩
    · cases hs : Shadow.bwrite false w reg d with
      | ub u => trivial
      | ok r w' => exact ⟨g, rxR_dead hl _ _, rxAbs_dead hl _⟩
  cb := by
    intro w g e h ha
    cases ho : onCb e h w with
    | ub u w' => trivial
    | done h' w' => exact ⟨_, rfl, Or.inr (Or.inl rfl)⟩
  bread := by
    intro w g reg n ha
    by_cases hl : g.live
    · have hw := rxAbs_live hl ha
      rw [busReadBuf_quiet w hw.nosched hw.nofault]
      by_cases hreg : reg = 0
      · subst hreg
        by_cases hn : n ≤ g.fifo.length
        · have hn' : n ≤ w.chip.fifo.length := by rw [hw.chip.fifo]; exact hn
          rw [readN_fifo_fsk n w.chip hw.chip.fsk hn']
          refine ⟨g.take n, rxR_quiet hl hw.chip.room _ _ _ trivial ?_, Or.inr (Or.inr ⟨hw.chip.take n hn, hw.nosched, hw.nofault, by rw [RxG.take_faulted]; exact hw.clean, by rw [RxG.take_pending _ _ (Or.inr trivial)]; exact hw.pend, by rw [RxG.take_over]; exact hw.ov⟩)⟩
          unfold rxAnswer
          simp only [↓reduceIte]
          exact ⟨trivial, by rw [hw.chip.fifo]; simp; exact Nat.min_eq_left hn, fun _ => by rw [hw.chip.fifo]⟩
        · refine ⟨g.take n, rxR_quiet hl hw.chip.room _ _ _ trivial ?_, ?_⟩
          · unfold rxAnswer
            simp only [↓reduceIte]
            exact ⟨trivial, readN_length _ _ _, fun h => absurd h hn⟩
          · left
            unfold RxG.take
            rw [if_neg (by omega), if_neg hn]
      · refine ⟨{ g with poison := true }, rxR_quiet hl hw.chip.room _ _ _ trivial ?_, rxAbs_poison _ _⟩
        unfold rxAnswer
        simp only [hreg, ↓reduceIte]
    · exact ⟨g, rxR_dead hl _ _, rxAbs_dead hl _⟩
  swrite := by
    intro w g reg d ha
    by_cases hl : g.live
    · have hw := rxAbs_live hl ha
      rw [swrite_quiet w hw.nosched hw.nofault]
      by_cases h3f : reg = 0x3f ∧ d.length = 1
      · obtain ⟨hreg, hlen⟩ := h3f
        subst hreg
        obtain ⟨v, rfl⟩ : ∃ v, d = [v] := by
          match d, hlen with
          | [v], _ => exact ⟨v, rfl⟩
        refine ⟨if v &&& 0x10 ≠ 0 then g.flush else g, rxR_quiet hl hw.chip.room _ _ _ trivial ?_, Or.inr (Or.inr ⟨?_, hw.nosched, hw.nofault, by split <;> exact hw.clean, by split <;> exact hw.pend, by split <;> exact hw.ov⟩)⟩
        · unfold rxAnswer
          simp only [List.length_singleton, and_self, ↓reduceIte, List.headD_cons]
          rfl
        · show RxChip (w.chip.writeN 0x3f [v]) _
          rw [writeN_one]
          exact hw.chip.write3f v
      · by_cases h3e : reg = 0x3e ∧ d.length = 1
        · obtain ⟨hreg, hlen⟩ := h3e
          subst hreg
          obtain ⟨v, rfl⟩ : ∃ v, d = [v] := by
            match d, hlen with
            | [v], _ => exact ⟨v, rfl⟩
          refine ⟨g, rxR_quiet hl hw.chip.room _ _ _ trivial ?_, Or.inr (Or.inr ⟨?_, hw.nosched, hw.nofault, hw.clean, hw.pend, hw.ov⟩)⟩
          · unfold rxAnswer
            simp only [List.length_singleton, and_true, show ¬((0x3e:Nat) = 0x3f) by decide, ↓reduceIte]
          · show RxChip (w.chip.writeN 0x3e [v]) g
            rw [writeN_one]
            have hc := hw.chip
            have hwr : w.chip.write 0x3e v = { w.chip with fsk := w.chip.fsk.wr 0x3e (w.chip.fsk.rd 0x3e &&& ~~~ (v &&& 0x0b)) } := by
              simp [Chip.write, hc.fsk]
            rw [hwr]
            exact ⟨hc.fifo, hc.fsk, by show (w.chip.fsk.wr 0x3e _).rd 0x35 &&& 0x3f = 31; rw [rd_wr_ne _ _ _ _ (by decide)]; exact hc.thr,
              by show (w.chip.fsk.wr 0x3e _).rd 0x3f &&& 0x04 ≠ 0 ↔ _; rw [rd_wr_ne _ _ _ _ (by decide)]; exact hc.ready,
              by show (w.chip.fsk.wr 0x3e _).rd 0x3f &&& 0x02 ≠ 0 ↔ _; rw [rd_wr_ne _ _ _ _ (by decide)]; exact hc.crc,
              by show (w.chip.fsk.wr 0x3e _).rd 0x3f &&& 0x08 = 0; rw [rd_wr_ne _ _ _ _ (by decide)]; exact hc.sent,
              by show (w.chip.fsk.wr 0x3e _).rd 0x3f &&& 0x10 = 0; rw [rd_wr_ne _ _ _ _ (by decide)]; exact hc.ovr,
              by show (w.chip.fsk.wr 0x3e _).rd 0x30 = _; rw [rd_wr_ne _ _ _ _ (by decide)]; exact hc.cfg1,
              by show (w.chip.fsk.wr 0x3e _).rd 0x31 = _; rw [rd_wr_ne _ _ _ _ (by decide)]; exact hc.cfg2,
              by show (w.chip.fsk.wr 0x3e _).rd 0x32 = _; rw [rd_wr_ne _ _ _ _ (by decide)]; exact hc.plen,
              hc.room, by simp [hc.len]⟩
        · refine ⟨{ g with poison := true }, rxR_quiet hl hw.chip.room _ _ _ trivial ?_, rxAbs_poison _ _⟩
          unfold rxAnswer
          simp only [h3f, h3e, ↓reduceIte]
    · cases hs : Shadow.swrite false w reg d with
      | ub u => trivial
      | ok r w' => exact ⟨g, rxR_dead hl _ _, rxAbs_dead hl _⟩
  rread := by
    intro w g reg ha
    by_cases hl : g.live
    · have hw := rxAbs_live hl ha
      have hc := hw.chip
      rw [rread_quiet w hw.nosched hw.nofault]
      have same : ∀ (g' : RxG), RxChip w.chip g' → g'.faulted = false → g'.pending = p0 → g'.over = o0 → ∀ (a : Nat), a % 128 ≠ 0 →
          rxAbs p0 o0 { w with xfer := w.xfer + 1, chip := (w.chip.readN a 1).2, bus := .r a 1 (.ok (be32 (w.chip.readN a 1).1)) :: w.bus } g' := by
        intro g' hg' hcl hpe hov a ha0
        rw [readN_one _ _ ha0]
        exact Or.inr (Or.inr ⟨hg', hw.nosched, hw.nofault, hcl, hpe, hov⟩)
      by_cases h3f : reg = 0x3f
      · subst h3f
        refine ⟨{ g with irq := (be32 (w.chip.readN 0x3f 1).1).toUInt8 }, rxR_quiet hl hc.room _ _ _ trivial ?_,
          same { g with irq := (be32 (w.chip.readN 0x3f 1).1).toUInt8 } ⟨hc.fifo, hc.fsk, hc.thr, hc.ready, hc.crc, hc.sent, hc.ovr, hc.cfg1, hc.cfg2, hc.plen, hc.room, hc.len⟩ hw.clean hw.pend hw.ov 0x3f (by decide)⟩
        unfold rxAnswer
        simp only [↓reduceIte, true_and]
        rw [readN_one _ 0x3f (by decide)]
        simp only [show (0x3f % 128) = 0x3f from rfl, be32_single, peek_flags2 _ hc.fsk]
        exact rx_flags2_ok hc
      by_cases h00 : reg = 0
      · subst h00
        by_cases h1 : 1 ≤ g.fifo.length
        · have h1' : 1 ≤ w.chip.fifo.length := by rw [hc.fifo]; exact h1
          rw [readN_fifo_fsk 1 w.chip hc.fsk h1']
          refine ⟨g.take 1, rxR_quiet hl hc.room _ _ _ trivial ?_, Or.inr (Or.inr ⟨hc.take 1 h1, hw.nosched, hw.nofault, by rw [RxG.take_faulted]; exact hw.clean, by rw [RxG.take_pending _ _ (Or.inr trivial)]; exact hw.pend, by rw [RxG.take_over]; exact hw.ov⟩)⟩
          unfold rxAnswer
          simp only [show ¬((0:Nat) = 0x3f) by decide, ↓reduceIte, true_and]
          intro _
          rw [hc.fifo]
          cases hf : g.fifo with
          | nil => rw [hf] at h1; simp at h1
          | cons x xs => simp [be32_single]
        · refine ⟨g.take 1, rxR_quiet hl hc.room _ _ _ trivial ?_, ?_⟩
          · unfold rxAnswer
            simp only [show ¬((0:Nat) = 0x3f) by decide, ↓reduceIte, true_and]
            exact fun h => absurd h h1
          · left
            unfold RxG.take
            rw [if_neg (by decide), if_neg h1]
      by_cases h30 : reg = 0x30
      · subst h30
        refine ⟨g, rxR_quiet hl hc.room _ _ _ trivial ?_, same g hc hw.clean hw.pend hw.ov 0x30 (by decide)⟩
        unfold rxAnswer
        simp only [show ¬((0x30:Nat) = 0x3f) by decide, show ¬((0x30:Nat) = 0) by decide, ↓reduceIte, true_and]
        rw [readN_one _ 0x30 (by decide)]
        simp only [show (0x30 % 128) = 0x30 from rfl, be32_single, peek_fsk _ _ hc.fsk (show inPage 0x30 = true by decide) (by decide)]
        exact hc.cfg1
      by_cases h31 : reg = 0x31
      · subst h31
        refine ⟨g, rxR_quiet hl hc.room _ _ _ trivial ?_, same g hc hw.clean hw.pend hw.ov 0x31 (by decide)⟩
        unfold rxAnswer
        simp only [show ¬((0x31:Nat) = 0x3f) by decide, show ¬((0x31:Nat) = 0) by decide, show ¬((0x31:Nat) = 0x30) by decide, ↓reduceIte, true_and]
        rw [readN_one _ 0x31 (by decide)]
        simp only [show (0x31 % 128) = 0x31 from rfl, be32_single, peek_fsk _ _ hc.fsk (show inPage 0x31 = true by decide) (by decide)]
        exact hc.cfg2
      by_cases h32 : reg = 0x32
      · subst h32
        refine ⟨g, rxR_quiet hl hc.room _ _ _ trivial ?_, same g hc hw.clean hw.pend hw.ov 0x32 (by decide)⟩
        unfold rxAnswer
        simp only [show ¬((0x32:Nat) = 0x3f) by decide, show ¬((0x32:Nat) = 0) by decide, show ¬((0x32:Nat) = 0x30) by decide,
          show ¬((0x32:Nat) = 0x31) by decide, ↓reduceIte, true_and]
        rw [readN_one _ 0x32 (by decide)]
        simp only [show (0x32 % 128) = 0x32 from rfl, be32_single, peek_fsk _ _ hc.fsk (show inPage 0x32 = true by decide) (by decide)]
        exact hc.plen
      by_cases h3e : reg = 0x3e ∨ reg = 0x11
      · refine ⟨g, rxR_quiet hl hc.room _ _ _ trivial ?_, same g hc hw.clean hw.pend hw.ov reg (by rcases h3e with e | e <;> rw [e] <;> decide)⟩
        unfold rxAnswer
        simp only [h3f, h00, h30, h31, h32, h3e, ↓reduceIte]
      · refine ⟨{ g with poison := true }, rxR_quiet hl hc.room _ _ _ trivial ?_, rxAbs_poison _ _⟩
        unfold rxAnswer
        simp only [h3f, h00, h30, h31, h32, h3e, ↓reduceIte]
    · cases hs : Shadow.rread false w reg with
      | ub u => trivial
      | ok r w' => exact ⟨g, rxR_dead hl _ _, rxAbs_dead hl _⟩
/-! ### arrivals between operations -/

theorem or4_4 (x : UInt8) : (x ||| 0x04) &&& 0x04 ≠ 0 := by
  have : (x ||| 0x04) &&& 0x04 = 0x04 := by byte_bits
  rw [this]; decide
theorem or42_4 (x : UInt8) : ((x ||| 0x04) ||| 0x02) &&& 0x04 ≠ 0 := by
  have : ((x ||| 0x04) ||| 0x02) &&& 0x04 = 0x04 := by byte_bits
  rw [this]; decide
theorem or42_2 (x : UInt8) : ((x ||| 0x04) ||| 0x02) &&& 0x02 ≠ 0 := by
  have : ((x ||| 0x04) ||| 0x02) &&& 0x02 = 0x02 := by byte_bits
  rw [this]; decide
theorem or42_8 (x : UInt8) : ((x ||| 0x04) ||| 0x02) &&& 0x08 = x &&& 0x08 := by byte_bits
theorem or42_10 (x : UInt8) : ((x ||| 0x04) ||| 0x02) &&& 0x10 = x &&& 0x10 := by byte_bits
theorem or4fd_4 (x : UInt8) : ((x ||| 0x04) &&& 0xfd) &&& 0x04 ≠ 0 := by
  have : ((x ||| 0x04) &&& 0xfd) &&& 0x04 = 0x04 := by byte_bits
  rw [this]; decide
theorem or4fd_2 (x : UInt8) : ((x ||| 0x04) &&& 0xfd) &&& 0x02 = 0 := by byte_bits
theorem or4fd_8 (x : UInt8) : ((x ||| 0x04) &&& 0xfd) &&& 0x08 = x &&& 0x08 := by byte_bits
theorem or4fd_10 (x : UInt8) : ((x ||| 0x04) &&& 0xfd) &&& 0x10 = x &&& 0x10 := by byte_bits

/-- the demodulator pushes the next byte of the frame into a FIFO that is not full -/
theorem env_rxByte {c : Chip} {g : RxG} (h : RxChip c g) (b : UInt8) (rest : List UInt8)
    (hp : g.pending = b :: rest) (hroom : g.fifo.length ≤ 62) :
    RxChip (Env.apply c (.rxByte b)) (g.arrive 1 false) ∧ g.Adm 1 := by
  have hlt : ¬c.fifo.length ≥ 64 := by rw [h.fifo]; omega
  have ha : g.arrive 1 false = { g with fifo := g.fifo ++ [b], pending := rest } := by
    unfold RxG.arrive; simp [hp]
  rw [ha]
  refine ⟨?_, by rw [hp]; simp, by omega⟩
  show RxChip (if c.fifo.length ≥ 64 then _ else { c with fifo := c.fifo ++ [b] }) _
  rw [if_neg hlt]
  exact ⟨by show c.fifo ++ [b] = g.fifo ++ [b]; rw [h.fifo], h.fsk, h.thr, h.ready, h.crc, h.sent, h.ovr, h.cfg1, h.cfg2, h.plen,
    by show (g.fifo ++ [b]).length ≤ 63; simp; omega, h.len⟩

/-- the demodulator signals the end of the packet (CrcAutoClearOff, as the driver configures it) -/
theorem env_rxEnd {c : Chip} {g : RxG} (h : RxChip c g) (hp : g.pending = []) (ho : g.over = false)
    (hauto : g.cfg1 &&& 0x08 ≠ 0) :
    RxChip (Env.apply c (.rxEnd g.crcGood)) (g.arrive 0 true) := by
  have ha : g.arrive 0 true = { g with over := true, ready := true, crcFlag := g.crcOn && g.crcGood } := by
    unfold RxG.arrive; simp [hp, ho]
  rw [ha]
  have hcfg : c.fsk.rd 0x30 = g.cfg1 := h.cfg1
  show RxChip (let crcOn := c.fsk.rd 0x30 &&& 0x10 ≠ 0
               let autoClearOff := c.fsk.rd 0x30 &&& 0x08 ≠ 0
               if crcOn ∧ !g.crcGood ∧ !autoClearOff then c.fifoFlush
               else
                 let f := c.fsk.rd 0x3f ||| 0x04
                 let f := if crcOn ∧ g.crcGood then f ||| 0x02 else f &&& 0xfd
                 { c with fsk := c.fsk.wr 0x3f f }) _
  dsimp only
  rw [hcfg]
  have hnf : ¬(g.cfg1 &&& 0x10 ≠ 0 ∧ (!g.crcGood) = true ∧ (!decide (g.cfg1 &&& 0x08 ≠ 0)) = true) := by
    intro ⟨_, _, h3⟩
    simp [hauto] at h3
  rw [if_neg hnf]
  have hon : g.crcOn = decide (g.cfg1 &&& 0x10 ≠ 0) := by
    unfold RxG.crcOn
    by_cases hz : g.cfg1 &&& 0x10 = 0
    · simp [hz]
    · simp [hz, bne]
  by_cases hc : g.cfg1 &&& 0x10 ≠ 0 ∧ g.crcGood = true
  · rw [if_pos hc]
    have := h.store g.fifo h.room ((c.fsk.rd 0x3f ||| 0x04) ||| 0x02) true (g.crcOn && g.crcGood)
      (by simp [or42_4]) (by rw [hon]; simp [or42_2, hc.1, hc.2]) (by rw [or42_8]; exact h.sent) (by rw [or42_10]; exact h.ovr)
    exact ⟨h.fifo, this.fsk, this.thr, this.ready, this.crc, this.sent, this.ovr, this.cfg1, this.cfg2, this.plen, h.room, this.len⟩
  · rw [if_neg hc]
    have hcf : (g.crcOn && g.crcGood) = false := by
      rw [hon]
      by_cases h1 : g.cfg1 &&& 0x10 ≠ 0
      · have : g.crcGood = false := by cases hx : g.crcGood <;> simp_all
        simp [this]
      · simp [h1]
    have := h.store g.fifo h.room ((c.fsk.rd 0x3f ||| 0x04) &&& 0xfd) true (g.crcOn && g.crcGood)
      (by simp [or4fd_4]) (by rw [hcf, or4fd_2]; simp) (by rw [or4fd_8]; exact h.sent) (by rw [or4fd_10]; exact h.ovr)
    exact ⟨h.fifo, this.fsk, this.thr, this.ready, this.crc, this.sent, this.ovr, this.cfg1, this.cfg2, this.plen, h.room, this.len⟩
end Sx
