import Sx.Basic
/- Round trip between the big-endian value of a multi-byte register read and its bytes. -/
namespace Sx
theorem u8_ofNat_eq (x : Nat) (a : UInt8) (h : x % 256 = a.toNat) : UInt8.ofNat x = a := by
  apply UInt8.toNat_inj.mp
  simp [UInt8.toNat_ofNat', h]

theorem be32_toNat (vs : List UInt8) (h : vs.length ≤ 4) : (be32 vs).toNat = beNat vs := by
  unfold be32
  have hb : beNat vs < 4294967296 := by
    match vs, h with
    | [], _ => simp [beNat]
    | [a], _ => simp [beNat]; have := a.toNat_lt; omega
    | [a, b], _ => simp [beNat]; have := a.toNat_lt; have := b.toNat_lt; omega
    | [a, b, c], _ => simp [beNat]; have := a.toNat_lt; have := b.toNat_lt; have := c.toNat_lt; omega
    | [a, b, c, d], _ => simp [beNat]; have := a.toNat_lt; have := b.toNat_lt; have := c.toNat_lt; have := d.toNat_lt; omega
    | _ :: _ :: _ :: _ :: _ :: _, h => simp at h
  simp [UInt32.toNat_ofNat', Nat.mod_eq_of_lt hb]

theorem byteOf_be32 (vs : List UInt8) (h : vs.length ≤ 4) (i : Nat) (hi : i < vs.length) :
    byteOf (be32 vs) vs.length i = vs.getD i 0 := by
  unfold byteOf
  rw [be32_toNat vs h]
  apply u8_ofNat_eq
  match vs, h, i, hi with
  | [a], _, 0, _ => simp [beNat]
  | [a, b], _, 0, _ => simp [beNat]; have := a.toNat_lt; have := b.toNat_lt; omega
  | [a, b], _, 1, _ => simp [beNat]
  | [a, b, c], _, 0, _ => simp [beNat]; have := a.toNat_lt; have := b.toNat_lt; have := c.toNat_lt; omega
  | [a, b, c], _, 1, _ => simp [beNat]; have := a.toNat_lt; have := b.toNat_lt; have := c.toNat_lt; omega
  | [a, b, c], _, 2, _ => simp [beNat]; have := a.toNat_lt; have := b.toNat_lt; have := c.toNat_lt; omega
  | [a, b, c, d], _, 0, _ => simp [beNat]; have := a.toNat_lt; have := b.toNat_lt; have := c.toNat_lt; have := d.toNat_lt; omega
  | [a, b, c, d], _, 1, _ => simp [beNat]; have := a.toNat_lt; have := b.toNat_lt; have := c.toNat_lt; have := d.toNat_lt; omega
  | [a, b, c, d], _, 2, _ => simp [beNat]; have := a.toNat_lt; have := b.toNat_lt; have := c.toNat_lt; have := d.toNat_lt; omega
  | [a, b, c, d], _, 3, _ => simp [beNat]; have := a.toNat_lt; have := b.toNat_lt; have := c.toNat_lt; have := d.toNat_lt; omega
  | [_], _, _ + 1, hi => simp at hi
  | [_, _], _, _ + 2, hi => simp at hi; omega
  | [_, _, _], _, _ + 3, hi => simp at hi; omega
  | [_, _, _, _], _, _ + 4, hi => simp at hi; omega
  | _ :: _ :: _ :: _ :: _ :: _, h, _, _ => simp at h

theorem be32_single (x : UInt8) : (be32 [x]).toUInt8 = x := by
  apply UInt8.toNat_inj.mp
  rw [UInt32.toNat_toUInt8, be32_toNat [x] (by simp)]
  simp only [beNat, List.length_nil, Nat.pow_zero, Nat.mul_one, Nat.add_zero]
  have := x.toNat_lt
  omega
end Sx
