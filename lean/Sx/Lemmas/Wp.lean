import Sx.RunP
import Sx.Model.Driver
/-
  A small weakest-precondition calculus for driver programs under plain execution (`runP`):
  `wp x h s Q` says that running `x` from handle `h` and state `s` ends without undefined
  behaviour in a return value, handle and state satisfying `Q`.
-/
namespace Sx
open DM

theorem runP_bind (p : Prog α) (f : α → Prog β) (s : PState) :
    runP (p.bind f) s = match runP p s with
      | .done a s' => runP (f a) s'
      | .ub u s' => .ub u s' := by
  induction p generalizing s with
  | ret a => simp [Prog.bind, runP]
  | ub u => simp [Prog.bind, runP]
  | sread reg n k ih => simp only [Prog.bind, runP]; exact ih _ _
  | rread reg k ih => simp only [Prog.bind, runP]; exact ih _ _
  | swrite reg d k ih => simp only [Prog.bind, runP]; exact ih _ _
  | bwrite reg d k ih => simp only [Prog.bind, runP]; exact ih _ _
  | bread reg n k ih => simp only [Prog.bind, runP]; exact ih _ _
  | rawbread reg n k ih => simp only [Prog.bind, runP]; exact ih _ _
  | callback e h k ih => simp only [Prog.bind, runP]; exact ih _ _

/-- no undefined behaviour, and the outcome satisfies `Q` -/
def wp (x : DM α) (h : Handle) (s : PState) (Q : Except Code α → Handle → PState → Prop) : Prop :=
  match runP (x h) s with
  | .done (r, h') s' => Q r h' s'
  | .ub _ _ => False

theorem wp_pure (a : α) (h s Q) : wp (pure a : DM α) h s Q ↔ Q (.ok a) h s := Iff.rfl
theorem wp_fail (c : Code) (h s) (Q : Except Code α → Handle → PState → Prop) : wp (fail c : DM α) h s Q ↔ Q (.error c) h s := Iff.rfl
theorem wp_ub (u : UB) (h s) (Q : Except Code α → Handle → PState → Prop) : wp (DM.ub u : DM α) h s Q ↔ False := Iff.rfl
theorem wp_getH (h s Q) : wp getH h s Q ↔ Q (.ok h) h s := Iff.rfl
theorem wp_setH (h' h s Q) : wp (setH h') h s Q ↔ Q (.ok ()) h' s := Iff.rfl
theorem wp_modH (f h s Q) : wp (modH f) h s Q ↔ Q (.ok ()) (f h) s := Iff.rfl
theorem wp_cb (e h s Q) : wp (cb e) h s Q ↔ Q (.ok ()) h { s with cbs := e :: s.cbs } := Iff.rfl

theorem wp_rread (reg h s Q) : wp (rread reg) h s Q ↔
    Q (.ok (be32 (s.chip.readN reg 1).1).toUInt8) h
      { s with chip := (s.chip.readN reg 1).2, bus := .r reg 1 (.ok (be32 (s.chip.readN reg 1).1)) :: s.bus } := Iff.rfl
theorem wp_sread (reg n h s Q) : wp (sread reg n) h s Q ↔
    Q (.ok (be32 (s.chip.readN reg n).1)) h
      { s with chip := (s.chip.readN reg n).2, bus := .r reg n (.ok (be32 (s.chip.readN reg n).1)) :: s.bus } := Iff.rfl
theorem wp_swrite (reg d h s Q) : wp (swrite reg d) h s Q ↔
    Q (.ok ()) h { s with chip := s.chip.writeN reg d, bus := .w reg d (.ok ()) :: s.bus } := Iff.rfl
theorem wp_bwrite (reg d h s Q) : wp (bwrite reg d) h s Q ↔
    Q (.ok ()) h { s with chip := s.chip.writeN reg d, bus := .wb reg d (.ok ()) :: s.bus } := Iff.rfl
theorem wp_bread (reg n h s Q) : wp (bread reg n) h s Q ↔
    Q (.ok (s.chip.readN reg n).1) h
      { s with chip := (s.chip.readN reg n).2, bus := .rb reg n (.ok (s.chip.readN reg n).1) :: s.bus } := Iff.rfl
theorem wp_rawbread (reg n h s Q) : wp (rawbread reg n) h s Q ↔
    Q (.ok (s.chip.readN reg n).1) h
      { s with chip := (s.chip.readN reg n).2, bus := .rb reg n (.ok (s.chip.readN reg n).1) :: s.bus } := Iff.rfl

theorem wp_bind (x : DM α) (f : α → DM β) (h s) (Q : Except Code β → Handle → PState → Prop) :
    wp (x >>= f) h s Q ↔ wp x h s (fun r h' s' => match r with
      | .ok a => wp (f a) h' s' Q
      | .error c => Q (.error c) h' s') := by
  show (match runP (((x h).bind _)) s with | .done (r, h') s' => Q r h' s' | .ub _ _ => False) ↔ _
  rw [runP_bind]
  unfold wp
  cases hx : runP (x h) s with
  | ub u s' => simp
  | done a s' =>
    obtain ⟨r, h'⟩ := a
    cases r with
    | ok v => simp only; exact Iff.rfl
    | error c => simp [runP]

theorem wp_attempt (x : DM α) (h s) (Q : Except Code (Except Code α) → Handle → PState → Prop) :
    wp (attempt x) h s Q ↔ wp x h s (fun r h' s' => Q (.ok r) h' s') := by
  unfold wp attempt
  rw [runP_bind]
  cases hx : runP (x h) s with
  | ub u s' => simp
  | done a s' => obtain ⟨r, h'⟩ := a; simp [runP]

theorem wp_mono (x : DM α) (h s) (Q Q' : Except Code α → Handle → PState → Prop)
    (hq : ∀ r h' s', Q r h' s' → Q' r h' s') (hw : wp x h s Q) : wp x h s Q' := by
  unfold wp at *
  cases hx : runP (x h) s with
  | ub u s' => rw [hx] at hw; exact hw
  | done a s' => rw [hx] at hw; obtain ⟨r, h'⟩ := a; exact hq _ _ _ hw

theorem wp_ite (c : Prop) [Decidable c] (x y : DM α) (h s Q) :
    wp (if c then x else y) h s Q ↔ (if c then wp x h s Q else wp y h s Q) := by
  split <;> rfl

end Sx
