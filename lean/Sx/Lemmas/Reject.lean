import Sx.Lemmas.Wp
/-
  Reasoning about rejected calls (C10) and healthy-bus executions in general.

  `Prog.hwp p w Q`: on a bus where every transfer succeeds, whatever values the chip returns
  (demonic in the chip's answers), every way `p` can end satisfies `Q w' a`, where the ghost
  flag `w'` says whether a write request was issued (`w` = flag at the start).
-/
namespace Sx
open DM

def Prog.hwp : Prog α → Bool → (Bool → α → Prop) → Prop
  | .ret a, w, Q => Q w a
  | .ub _, _, _ => True
  | .sread _ _ k, w, Q => ∀ v, (k (.ok v)).hwp w Q
  | .rread _ k, w, Q => ∀ v, (k (.ok v)).hwp w Q
  | .swrite _ _ k, _, Q => (k (.ok ())).hwp true Q
  | .bwrite _ _ k, _, Q => (k (.ok ())).hwp true Q
  | .bread _ _ k, w, Q => ∀ v, (k (.ok v)).hwp w Q
  | .rawbread _ _ k, w, Q => ∀ v, (k (.ok v)).hwp w Q
  | .callback _ _ k, w, Q => ∀ h, (k h).hwp w Q

theorem Prog.hwp_bind (p : Prog α) (f : α → Prog β) (w : Bool) (Q : Bool → β → Prop) :
    (p.bind f).hwp w Q ↔ p.hwp w (fun w' a => (f a).hwp w' Q) := by
  induction p generalizing w with
  | ret a => exact Iff.rfl
  | ub u => exact Iff.rfl
  | sread reg n k ih => exact forall_congr' fun v => ih _ _
  | rread reg k ih => exact forall_congr' fun v => ih _ _
  | swrite reg d k ih => exact ih _ _
  | bwrite reg d k ih => exact ih _ _
  | bread reg n k ih => exact forall_congr' fun v => ih _ _
  | rawbread reg n k ih => exact forall_congr' fun v => ih _ _
  | callback e h k ih => exact forall_congr' fun v => ih _ _

theorem Prog.hwp_mono (p : Prog α) (w : Bool) (Q Q' : Bool → α → Prop) (hq : ∀ w a, Q w a → Q' w a)
    (hp : p.hwp w Q) : p.hwp w Q' := by
  induction p generalizing w with
  | ret a => exact hq _ _ hp
  | ub u => trivial
  | sread reg n k ih => exact fun v => ih _ _ (hp v)
  | rread reg k ih => exact fun v => ih _ _ (hp v)
  | swrite reg d k ih => exact ih _ _ hp
  | bwrite reg d k ih => exact ih _ _ hp
  | bread reg n k ih => exact fun v => ih _ _ (hp v)
  | rawbread reg n k ih => exact fun v => ih _ _ (hp v)
  | callback e h k ih => exact fun v => ih _ _ (hp v)

/-- the write requests of a bus trace -/
def writesP : List BusEv → List BusEv
  | [] => []
  | .w reg d r :: l => .w reg d r :: writesP l
  | .wb reg d r :: l => .wb reg d r :: writesP l
  | _ :: l => writesP l

/-- **Soundness for plain execution.** -/
theorem Prog.hwp_runP (p : Prog α) (w : Bool) (Q : Bool → α → Prop) (hp : p.hwp w Q)
    (s s' : PState) (a : α) (hr : runP p s = .done a s') :
    ∃ w', Q w' a ∧ (w' = false → w = false ∧ writesP s'.bus = writesP s.bus) := by
  induction p generalizing w s with
  | ret a0 => simp only [runP] at hr; cases hr; exact ⟨w, hp, fun e => ⟨e, rfl⟩⟩
  | ub u => simp [runP] at hr
  | sread reg n k ih =>
    simp only [runP] at hr
    obtain ⟨w', hq, hw⟩ := ih _ w (hp _) _ hr
    exact ⟨w', hq, fun e => ⟨(hw e).1, (hw e).2⟩⟩
  | rread reg k ih =>
    simp only [runP] at hr
    obtain ⟨w', hq, hw⟩ := ih _ w (hp _) _ hr
    exact ⟨w', hq, fun e => ⟨(hw e).1, (hw e).2⟩⟩
  | swrite reg d k ih =>
    simp only [runP] at hr
    obtain ⟨w', hq, hw⟩ := ih _ true hp _ hr
    exact ⟨w', hq, fun e => absurd (hw e).1 (by simp)⟩
  | bwrite reg d k ih =>
    simp only [runP] at hr
    obtain ⟨w', hq, hw⟩ := ih _ true hp _ hr
    exact ⟨w', hq, fun e => absurd (hw e).1 (by simp)⟩
  | bread reg n k ih =>
    simp only [runP] at hr
    obtain ⟨w', hq, hw⟩ := ih _ w (hp _) _ hr
    exact ⟨w', hq, fun e => ⟨(hw e).1, (hw e).2⟩⟩
  | rawbread reg n k ih =>
    simp only [runP] at hr
    obtain ⟨w', hq, hw⟩ := ih _ w (hp _) _ hr
    exact ⟨w', hq, fun e => ⟨(hw e).1, (hw e).2⟩⟩
  | callback e h k ih =>
    simp only [runP] at hr
    obtain ⟨w', hq, hw⟩ := ih _ w (hp _) _ hr
    exact ⟨w', hq, fun e => ⟨(hw e).1, (hw e).2⟩⟩

/-- a return code that reports a refused call -/
def isReject (c : Code) : Prop := c = Gen.SX127X_ERR_INVALID_ARG ∨ c = Gen.SX127X_ERR_INVALID_STATE

instance (c : Code) : Decidable (isReject c) := by unfold isReject; exact inferInstance

/-- no write request, handle as before — whatever is returned -/
structure DM.Quiet (x : DM α) : Prop where
  q : ∀ h w, (x h).hwp w (fun w' rh => w' = w ∧ rh.2 = h)

/-- never returns a refusal (on a healthy bus) -/
structure DM.NoRej (x : DM α) : Prop where
  q : ∀ h w, (x h).hwp w (fun _ rh => ∀ c, rh.1 = .error c → ¬isReject c)

/-- a refusal means: nothing written, handle unchanged -/
structure DM.RC (x : DM α) : Prop where
  q : ∀ h, (x h).hwp false (fun w' rh => ∀ c, rh.1 = .error c → isReject c → w' = false ∧ rh.2 = h)

namespace DM

theorem hwp_bind' (x : DM α) (f : α → DM β) (h : Handle) (w : Bool) (Q : Bool → Except Code β × Handle → Prop) :
    ((x >>= f) h).hwp w Q ↔ (x h).hwp w (fun w' rh => match rh.1 with
      | .ok a => (f a rh.2).hwp w' Q
      | .error c => Q w' (.error c, rh.2)) := by
  show ((x h).bind _).hwp w Q ↔ _
  rw [Prog.hwp_bind]
  apply Iff.intro <;> intro hp <;> refine Prog.hwp_mono _ _ _ _ ?_ hp <;> intro w' ⟨r, h'⟩ hq <;> cases r <;> exact hq

-- Quiet
theorem Quiet_pure (a : α) : Quiet (pure a : DM α) := ⟨fun _ _ => ⟨rfl, rfl⟩⟩
theorem Quiet_pure' (a : α) : Quiet (pure' a : DM α) := ⟨fun _ _ => ⟨rfl, rfl⟩⟩
theorem Quiet_fail (c : Code) : Quiet (fail c : DM α) := ⟨fun _ _ => ⟨rfl, rfl⟩⟩
theorem Quiet_ub (u : UB) : Quiet (DM.ub u : DM α) := ⟨fun _ _ => trivial⟩
theorem Quiet_getH : Quiet getH := ⟨fun _ _ => ⟨rfl, rfl⟩⟩
theorem Quiet_rread (reg : Nat) : Quiet (rread reg) := ⟨fun _ _ _ => ⟨rfl, rfl⟩⟩
theorem Quiet_sread (reg n : Nat) : Quiet (sread reg n) := ⟨fun _ _ _ => ⟨rfl, rfl⟩⟩
theorem Quiet_bread (reg n : Nat) : Quiet (bread reg n) := ⟨fun _ _ _ => ⟨rfl, rfl⟩⟩
theorem Quiet_rawbread (reg n : Nat) : Quiet (rawbread reg n) := ⟨fun _ _ _ => ⟨rfl, rfl⟩⟩
theorem Quiet_ofExcept (r : Except Code α) : Quiet (ofExcept r) := by cases r <;> exact ⟨fun _ _ => ⟨rfl, rfl⟩⟩
theorem Quiet_bind {x : DM α} {f : α → DM β} (hx : Quiet x) (hf : ∀ a, Quiet (f a)) : Quiet (x >>= f) := by
  constructor
  intro h w
  rw [hwp_bind']
  refine Prog.hwp_mono _ _ _ _ ?_ (hx.q h w)
  intro w' ⟨r, h'⟩ ⟨e1, e2⟩
  cases e1; cases e2
  cases r with
  | ok a => exact (hf a).q _ _
  | error c => exact ⟨rfl, rfl⟩
theorem Quiet_attempt {x : DM α} (hx : Quiet x) : Quiet (attempt x) := by
  constructor
  intro h w
  show ((x h).bind _).hwp w _
  rw [Prog.hwp_bind]
  refine Prog.hwp_mono _ _ _ _ ?_ (hx.q h w)
  intro w' ⟨r, h'⟩ e
  exact e
theorem Quiet_ite {c : Prop} [Decidable c] {x y : DM α} (hx : Quiet x) (hy : Quiet y) : Quiet (if c then x else y) := by
  split <;> assumption

-- NoRej
theorem NoRej_pure (a : α) : NoRej (pure a : DM α) := ⟨fun _ _ c e => by cases e⟩
theorem NoRej_pure' (a : α) : NoRej (pure' a : DM α) := ⟨fun _ _ c e => by cases e⟩
theorem NoRej_fail (c : Code) (hc : ¬isReject c) : NoRej (fail c : DM α) := ⟨fun _ _ c' e => by cases e; exact hc⟩
theorem NoRej_ub (u : UB) : NoRej (DM.ub u : DM α) := ⟨fun _ _ => trivial⟩
theorem NoRej_getH : NoRej getH := ⟨fun _ _ c e => by cases e⟩
theorem NoRej_setH (h : Handle) : NoRej (setH h) := ⟨fun _ _ c e => by cases e⟩
theorem NoRej_modH (f : Handle → Handle) : NoRej (modH f) := ⟨fun _ _ c e => by cases e⟩
theorem NoRej_cb (e : CbEvent) : NoRej (cb e) := ⟨fun _ _ _ c e => by cases e⟩
theorem NoRej_rread (reg : Nat) : NoRej (rread reg) := ⟨fun _ _ _ c e => by cases e⟩
theorem NoRej_sread (reg n : Nat) : NoRej (sread reg n) := ⟨fun _ _ _ c e => by cases e⟩
theorem NoRej_bread (reg n : Nat) : NoRej (bread reg n) := ⟨fun _ _ _ c e => by cases e⟩
theorem NoRej_rawbread (reg n : Nat) : NoRej (rawbread reg n) := ⟨fun _ _ _ c e => by cases e⟩
theorem NoRej_swrite (reg : Nat) (d : List UInt8) : NoRej (swrite reg d) := ⟨fun _ _ c e => by cases e⟩
theorem NoRej_bwrite (reg : Nat) (d : List UInt8) : NoRej (bwrite reg d) := ⟨fun _ _ c e => by cases e⟩
theorem NoRej_bind {x : DM α} {f : α → DM β} (hx : NoRej x) (hf : ∀ a, NoRej (f a)) : NoRej (x >>= f) := by
  constructor
  intro h w
  rw [hwp_bind']
  refine Prog.hwp_mono _ _ _ _ ?_ (hx.q h w)
  intro w' ⟨r, h'⟩ hq
  cases r with
  | ok a => exact (hf a).q h' w'
  | error c => exact fun c' e => by cases e; exact hq c rfl
theorem NoRej_attempt (x : DM α) : NoRej (attempt x) := by
  constructor
  intro h w
  show ((x h).bind _).hwp w _
  rw [Prog.hwp_bind]
  have : ∀ (p : Prog (Except Code α × Handle)) (w : Bool), p.hwp w (fun _ _ => True) := by
    intro p
    induction p with
    | ret a => intro _; trivial
    | ub u => intro _; trivial
    | sread reg n k ih => exact fun w v => ih _ w
    | rread reg k ih => exact fun w v => ih _ w
    | swrite reg d k ih => exact fun w => ih _ true
    | bwrite reg d k ih => exact fun w => ih _ true
    | bread reg n k ih => exact fun w v => ih _ w
    | rawbread reg n k ih => exact fun w v => ih _ w
    | callback e h k ih => exact fun w v => ih _ w
  refine Prog.hwp_mono _ _ _ _ ?_ (this (x h) w)
  intro w' ⟨r, h'⟩ _ c e
  cases e
theorem NoRej_ofExcept (r : Except Code α) (hr : ∀ c, r = .error c → ¬isReject c) : NoRej (ofExcept r) := by
  cases r with
  | ok a => exact ⟨fun _ _ c e => by cases e⟩
  | error c => exact ⟨fun _ _ c' e => by cases e; exact hr c rfl⟩
theorem NoRej_ite {c : Prop} [Decidable c] {x y : DM α} (hx : NoRej x) (hy : NoRej y) : NoRej (if c then x else y) := by
  split <;> assumption

-- RC
theorem RC_of_norej {x : DM α} (hx : NoRej x) : RC x :=
  ⟨fun h => Prog.hwp_mono _ _ _ _ (fun _ _ hq c e r => absurd r (hq c e)) (hx.q h false)⟩
theorem RC_of_quiet {x : DM α} (hx : Quiet x) : RC x :=
  ⟨fun h => Prog.hwp_mono _ _ _ _ (fun _ _ hq _ _ _ => hq) (hx.q h false)⟩
theorem RC_fail (c : Code) : RC (fail c : DM α) := RC_of_quiet (Quiet_fail c)
theorem RC_ub (u : UB) : RC (DM.ub u : DM α) := RC_of_quiet (Quiet_ub u)
theorem RC_pure (a : α) : RC (pure a : DM α) := RC_of_quiet (Quiet_pure a)
theorem RC_bind_quiet {x : DM α} {f : α → DM β} (hx : Quiet x) (hf : ∀ a, RC (f a)) : RC (x >>= f) := by
  constructor
  intro h
  rw [hwp_bind']
  refine Prog.hwp_mono _ _ _ _ ?_ (hx.q h false)
  intro w' ⟨r, h'⟩ ⟨e1, e2⟩
  cases e1; cases e2
  cases r with
  | ok a => exact (hf a).q h'
  | error c => exact fun _ _ _ => ⟨rfl, rfl⟩
theorem RC_ite {c : Prop} [Decidable c] {x y : DM α} (hx : RC x) (hy : RC y) : RC (if c then x else y) := by
  split <;> assumption

/-- what `RC` means for plain execution -/
theorem RC.runP {x : DM α} (hx : RC x) (h : Handle) (s s' : PState) (c : Code) (h' : Handle)
    (hr : runP (x h) s = .done (.error c, h') s') (hc : isReject c) :
    h' = h ∧ writesP s'.bus = writesP s.bus := by
  obtain ⟨w', hq, hw⟩ := Prog.hwp_runP _ _ _ (hx.q h) s s' _ hr
  obtain ⟨e1, e2⟩ := hq c rfl hc
  exact ⟨e2, (hw e1).2⟩

end DM

/-- what C10 asks of one call under plain execution from a chip state -/
def RejectClean (x : DM α) (h : Handle) (chip : Chip) : Prop :=
  ∀ c h' s', runP (x h) ⟨chip, [], []⟩ = .done (.error c, h') s' → isReject c → h' = h ∧ writesP s'.bus = []

theorem RC.clean {x : DM α} (hx : RC x) (h : Handle) (chip : Chip) : RejectClean x h chip :=
  fun c h' s' hr hc => hx.runP h ⟨chip, [], []⟩ s' c h' hr hc


theorem RejectClean.api {x : DM α} {h : Handle} {chip : Chip} (hx : RejectClean x h chip) (o : α → Out) :
    RejectClean (do let a ← x; pure (o a)) h chip := by
  intro c h' s' hr hc
  have : runP (x h) ⟨chip, [], []⟩ = .done (.error c, h') s' := by
    have e : (do let a ← x; pure (o a) : DM Out) h = (x h).bind (fun
        | (.ok a, h1) => (pure (o a) : DM Out) h1
        | (.error c, h1) => .ret (.error c, h1)) := rfl
    rw [e, runP_bind] at hr
    cases hx' : runP (x h) ⟨chip, [], []⟩ with
    | ub u s1 => rw [hx'] at hr; cases hr
    | done rh s1 =>
      rw [hx'] at hr
      obtain ⟨r, h1⟩ := rh
      cases r with
      | ok a => exact absurd hr (by intro e; cases e)
      | error c1 => simpa [runP] using hr
  exact hx c h' s' this hc


macro "quiet_step" : tactic => `(tactic| first
  | intro _
  | exact DM.Quiet_pure _ | exact DM.Quiet_pure' _ | exact DM.Quiet_fail _ | exact DM.Quiet_ub _ | exact DM.Quiet_getH
  | exact DM.Quiet_rread _ | exact DM.Quiet_sread _ _ | exact DM.Quiet_bread _ _ | exact DM.Quiet_rawbread _ _
  | exact DM.Quiet_ofExcept _
  | apply DM.Quiet_bind | apply DM.Quiet_attempt
  | assumption)

macro "norej_step" : tactic => `(tactic| first
  | intro _
  | exact DM.NoRej_pure _ | exact DM.NoRej_pure' _ | exact DM.NoRej_ub _ | exact DM.NoRej_getH | exact DM.NoRej_setH _
  | exact DM.NoRej_modH _ | exact DM.NoRej_cb _
  | exact DM.NoRej_rread _ | exact DM.NoRej_sread _ _ | exact DM.NoRej_bread _ _ | exact DM.NoRej_rawbread _ _
  | exact DM.NoRej_swrite _ _ | exact DM.NoRej_bwrite _ _
  | exact DM.NoRej_attempt _
  | (apply DM.NoRej_fail; decide)
  | apply DM.NoRej_bind
  | assumption)

end Sx
