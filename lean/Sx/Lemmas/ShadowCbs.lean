import Sx.Exec
/-
  The shadow layer and the bus never touch the callback log of the current operation.
-/
namespace Sx

theorem pre_cbs (w : World) : w.pre.1.cbs = w.cbs := rfl

theorem busRead_cbs (w : World) (reg n : Nat) : (w.busRead reg n).2.cbs = w.cbs := by
  unfold World.busRead
  generalize hp : w.pre = p
  obtain ⟨w0, code⟩ := p
  have : w0.cbs = w.cbs := by have := pre_cbs w; rw [hp] at this; exact this
  cases code <;> exact this
theorem busReadBuf_cbs (w : World) (reg n : Nat) : (w.busReadBuf reg n).2.cbs = w.cbs := by
  unfold World.busReadBuf
  generalize hp : w.pre = p
  obtain ⟨w0, code⟩ := p
  have : w0.cbs = w.cbs := by have := pre_cbs w; rw [hp] at this; exact this
  cases code <;> exact this
theorem busWrite_cbs (w : World) (reg : Nat) (d : List UInt8) : (w.busWrite reg d).2.cbs = w.cbs := by
  unfold World.busWrite
  generalize hp : w.pre = p
  obtain ⟨w0, code⟩ := p
  have : w0.cbs = w.cbs := by have := pre_cbs w; rw [hp] at this; exact this
  cases code <;> exact this
theorem busWriteBuf_cbs (w : World) (reg : Nat) (d : List UInt8) : (w.busWriteBuf reg d).2.cbs = w.cbs := by
  unfold World.busWriteBuf
  generalize hp : w.pre = p
  obtain ⟨w0, code⟩ := p
  have : w0.cbs = w.cbs := by have := pre_cbs w; rw [hp] at this; exact this
  cases code <;> exact this

theorem sread_cbs {cached : Bool} {w w' : World} {reg n : Nat} {r : Except Code UInt32}
    (h : Shadow.sread cached w reg n = .ok r w') : w'.cbs = w.cbs := by
  have hb := busRead_cbs w reg n
  unfold Shadow.sread Shadow.busStep Shadow.sreadMiss Shadow.sreadFill at h
  generalize w.busRead reg n = br at h hb
  obtain ⟨res, w1⟩ := br
  simp only at hb h
  split at h
  · cases h; exact hb
  · split at h
    · cases h
    · split at h
      · cases h; exact hb
      · split at h
        · cases h
        · split at h
          · cases h; rfl
          · split at h
            · rename_i heq; cases heq; cases h; exact hb
            · rename_i heq; cases heq
              split at h
              · cases h
              · cases h; exact hb

theorem rread_cbs {cached : Bool} {w w' : World} {reg : Nat} {r : Except Code UInt8}
    (h : Shadow.rread cached w reg = .ok r w') : w'.cbs = w.cbs := by
  have hb := busRead_cbs w reg 1
  unfold Shadow.rread Shadow.busStep1 Shadow.rreadMiss at h
  generalize w.busRead reg 1 = br at h hb
  obtain ⟨res, w1⟩ := br
  simp only at hb h
  split at h
  · cases h; exact hb
  · split at h
    · cases h
    · split at h
      · cases h; exact hb
      · split at h
        · cases h; rfl
        · split at h
          · rename_i heq; cases heq; cases h; exact hb
          · rename_i heq; cases heq; cases h; exact hb

theorem swrite_cbs {cached : Bool} {w w' : World} {reg : Nat} {d : List UInt8} {r : Except Code Unit}
    (h : Shadow.swrite cached w reg d = .ok r w') : w'.cbs = w.cbs := by
  have hb := busWrite_cbs w reg d
  unfold Shadow.swrite Shadow.swriteStore at h
  generalize w.busWrite reg d = br at h hb
  obtain ⟨res, w1⟩ := br
  simp only at hb h
  split at h
  · rename_i heq; cases heq; cases h; exact hb
  · rename_i heq; cases heq
    split at h
    · cases h; exact hb
    · split at h
      · split at h
        · cases h
        · cases h; exact hb
      · split at h
        · cases h
        · cases h; exact hb

theorem bwrite_cbs {cached : Bool} {w w' : World} {reg : Nat} {d : List UInt8} {r : Except Code Unit}
    (h : Shadow.bwrite cached w reg d = .ok r w') : w'.cbs = w.cbs := by
  have hb := busWriteBuf_cbs w reg d
  unfold Shadow.bwrite Shadow.bwriteStore at h
  generalize w.busWriteBuf reg d = br at h hb
  obtain ⟨res, w1⟩ := br
  simp only at hb h
  split at h
  · rename_i heq; cases heq; cases h; exact hb
  · rename_i heq; cases heq
    split at h
    · cases h; exact hb
    · split at h
      · cases h; exact hb
      · split at h
        · cases h
        · cases h; exact hb

end Sx
