import Sx.Lemmas.RxLevel
namespace Sx
open Sx.Model DM

/-- after the end of the packet was signalled, arrivals change nothing in the FIFO -/
theorem adv_over {hdr P g g1} (hi : RxGI hdr P g) (ho : g.over = true) (ha : g.Adv g1) :
    RxGI hdr P g1 ∧ g.Same g1 ∧ g1.over = true ∧ g1.fifo = g.fifo ∧ g1.taken = g.taken ∧ g1.pending = [] := by
  obtain ⟨hw1, hs, hst, _, hov, _, _, htk⟩ := ha.facts hi.wf
  obtain ⟨ho1, _, _, hf⟩ := hov ho
  obtain ⟨hi1, _⟩ := hi.adv ha
  exact ⟨hi1, hs, ho1, hf, htk, hw1.overPending ho1⟩

/-- what holds when a transfer has failed while the rest of a complete packet was being read -/
structure RxFail (g g' : RxG) : Prop where
  wf : g'.Wf
  live : g'.live
  over : g'.over = true
  same : g.Same g'
  faulted : g'.faulted = true

theorem advF_over {hdr P g g'} (hi : RxGI hdr P g) (ho : g.over = true) (ha : g.AdvF g') : RxFail g g' := by
  obtain ⟨g1, ha1, rfl⟩ := ha
  obtain ⟨hi1, hs, ho1, _, _, _⟩ := adv_over hi ho ha1
  exact ⟨hi1.faulted.wf, hi1.faulted.live, ho1, ⟨hs.cfg1, hs.cfg2, hs.plen, hs.crcGood, hs.cbs, hs.ended, hs.poison⟩, rfl⟩

theorem RxFail.trans {a b c : RxG} (h1 : a.Same b) (h2 : RxFail b c) : RxFail a c :=
  ⟨h2.wf, h2.live, h2.over, h1.trans h2.same, h2.faulted⟩

/-- what `read_payload_batch(false)` leaves behind: the whole payload in the buffer -/
structure RxDone (P : List UInt8) (h h' : Handle) : Prop where
  exp : h'.expected.toNat = P.length
  data : h'.packet.take P.length = P
  cb : h'.rxCb = h.rxCb
  crc : h'.crcType = h.crcType
  len : h'.packet.length = h.packet.length

/-- the byte-wise drain -/
theorem drain_spec (hdr P : List UInt8) : ∀ (fuel : Nat) (h : Handle) (g : RxG), RxGI hdr P g → g.over = true →
    PhaseB hdr P h g → h.received.toNat < P.length → P.length ≤ h.packet.length → P.length < 65536 →
    P.length - h.received.toNat ≤ fuel →
    DM.gwp rxE (drainLoop fuel) h g (fun g' r h' =>
      (r = .ok () ∧ RxDone P h h' ∧ g'.live ∧ g.Same g' ∧ g'.fifo = [] ∧ g'.pending = []) ∨ (∃ c, r = .error c ∧ RxFail g g')) := by
  intro fuel
  induction fuel with
  | zero => intro h g _ _ _ hlt _ _ hf; omega
  | succ fuel ih =>
    intro h g hi ho hB hlt hcap h16 hf
    unfold drainLoop
    rw [gwp_bind, gwp_getH]
    dsimp only
    rw [if_neg (by omega), gwp_bind, gwp_rread]
    intro r1 g1 hr1
    rcases rx_rfifo hi.live r1 g1 hr1 with ⟨ce, hre, hae⟩ | ⟨v, g0, hr1v, ha0, hg1, hv⟩
    case inl => subst hre; exact Or.inr ⟨ce, rfl, advF_over hi ho hae⟩
    subst hr1v hg1
    obtain ⟨hi0, hs0, ho0, hf0, htk0, hp0⟩ := adv_over hi ho ha0
    have hrest : g0.fifo = P.drop h.received.toNat := by
      have := rest_of_stream hi0.stream (htk0.trans hB.taken)
      rw [hp0, List.append_nil] at this; exact this
    have hl1 : 1 ≤ g0.fifo.length := by rw [hrest, List.length_drop]; omega
    obtain ⟨hw2, hs2, htk2, hfifo2, hpend2, hover2, _, _⟩ := RxG.take_facts g0 1 hl1 hi0.wf
    have hv' : [v] = (P.drop h.received.toNat).take 1 := by rw [← hrest]; exact hv hl1
    dsimp only
    unfold packetStore
    rw [gwp_bind, gwp_bind, gwp_getH]
    dsimp only
    rw [if_pos (by omega), gwp_setH]
    dsimp only
    rw [gwp_bind, gwp_modH]
    dsimp only
    have hsum : (h.received + 1).toNat = h.received.toNat + 1 := by
      rw [UInt16.toNat_add]; show (h.received.toNat + 1) % 65536 = _; omega
    have hi2 : RxGI hdr P (g0.take 1) := by
      refine ⟨hw2, hs2.live hi0.live, ?_⟩
      rw [htk2, hfifo2, hpend2, List.append_assoc, List.append_assoc, ← List.append_assoc (List.take 1 g0.fifo),
        List.take_append_drop, ← List.append_assoc]
      exact hi0.stream
    have hB2 : PhaseB hdr P { h with packet := h.packet.wr h.received.toNat v, received := h.received + 1 } (g0.take 1) := by
      refine ⟨hB.exp, by show (h.received + 1).toNat ≤ _; rw [hsum]; omega, ?_, ?_⟩
      · show (h.packet.wr h.received.toNat v).take (h.received + 1).toNat = P.take (h.received + 1).toNat
        rw [hsum]
        have hw : h.packet.wr h.received.toNat v = h.packet.wrs h.received.toNat [v] := rfl
        have hx : (h.packet.wrs h.received.toNat [v]).take (h.received.toNat + 1) = h.packet.take h.received.toNat ++ [v] :=
          take_wrs _ _ [v] (by simp; omega)
        rw [hw, hx, hB.stored, hv', ← List.take_add]
      · show (g0.take 1).taken = hdr ++ P.take (h.received + 1).toNat
        rw [htk2, htk0, hB.taken, hsum, hrest, List.append_assoc, ← List.take_add]
    rw [gwp_bind, gwp_rread]
    intro r3 g3 hr3
    have ho2 : (g0.take 1).over = true := by rw [hover2]; exact ho0
    rcases rx_flags hi2.live r3 g3 hr3 with ⟨ce, hre, hae⟩ | ⟨v3, g2', hr3v, ha2, hg3, hfl⟩
    case inl => subst hre; exact Or.inr ⟨ce, rfl, RxFail.trans (hs0.trans hs2) (advF_over hi2 ho2 hae)⟩
    subst hr3v hg3
    obtain ⟨hi2', hs2', ho2', hf2', htk2', hp2'⟩ := adv_over hi2 ho2 ha2
    dsimp only
    have hfifo3 : g2'.fifo = P.drop (h.received.toNat + 1) := by
      rw [hf2', hfifo2, hrest, List.drop_drop]
    have hemp := hfl.2.2.2.2.2.1
    have cEM : u8 Gen.SX127X_FSK_IRQ_FIFO_EMPTY = 0x40 := rfl
    rw [cEM]
    by_cases hz : v3 &&& 0x40 = 0
    · rw [if_pos hz]
      have hne : g2'.fifo ≠ [] := fun he => (hemp.mpr he) hz
      have hlt2 : h.received.toNat + 1 < P.length := by
        rw [hfifo3] at hne
        have : (P.drop (h.received.toNat + 1)).length ≠ 0 := fun h0 => hne (List.eq_nil_of_length_eq_zero h0)
        rw [List.length_drop] at this; omega
      have hi3 : RxGI hdr P { g2' with irq := v3 } :=
        ⟨⟨hi2'.wf.overPending, hi2'.wf.readyOver, hi2'.wf.crc, hi2'.wf.crcReady, hi2'.wf.room⟩, hi2'.live, hi2'.stream⟩
      have hB3 : PhaseB hdr P { h with packet := h.packet.wr h.received.toNat v, received := h.received + 1 } { g2' with irq := v3 } :=
        ⟨hB2.exp, hB2.rcv, hB2.stored, htk2'.trans hB2.taken⟩
      refine gwp_mono rxE _ _ _ _ _ ?_ (ih _ _ hi3 ho2' hB3 (by show (h.received + 1).toNat < _; rw [hsum]; exact hlt2)
        (by show P.length ≤ (h.packet.wr _ _).length; simp; exact hcap) h16 (by show P.length - (h.received + 1).toNat ≤ fuel; rw [hsum]; omega))
      have hs03 : g.Same { g2' with irq := v3 } :=
        (hs0.trans hs2).trans ⟨hs2'.cfg1, hs2'.cfg2, hs2'.plen, hs2'.crcGood, hs2'.cbs, hs2'.ended, hs2'.poison⟩
      intro g' r h' hpost
      rcases hpost with ⟨hr, hd, hl, hsm, hff, hpp⟩ | ⟨ce, hre, hfl'⟩
      · exact Or.inl ⟨hr, ⟨hd.exp, hd.data, hd.cb, hd.crc, by rw [hd.len]; simp⟩, hl, hs03.trans hsm, hff, hpp⟩
      · exact Or.inr ⟨ce, hre, RxFail.trans hs03 hfl'⟩
    · rw [if_neg hz, gwp_pure]
      have he : g2'.fifo = [] := hemp.mp hz
      have hall : h.received.toNat + 1 = P.length := by
        rw [hfifo3] at he
        have := congrArg List.length he
        rw [List.length_drop] at this; simp at this; omega
      refine Or.inl ⟨rfl, ⟨hB2.exp, ?_, rfl, rfl, by simp⟩, hi2'.live, ?_, he, hp2'⟩
      · have := hB2.stored
        rw [show (h.received + 1).toNat = P.length by rw [hsum]; exact hall] at this
        rw [this]; simp
      · exact (hs0.trans hs2).trans ⟨hs2'.cfg1, hs2'.cfg2, hs2'.plen, hs2'.crcGood, hs2'.cbs, hs2'.ended, hs2'.poison⟩
/-- `read_payload_batch(false)`: the payload-ready path takes everything that is left -/
theorem batch_ready (fuel : Nat) (hfuel : 64 ≤ fuel) (hdr P : List UInt8) (h : Handle) (g : RxG)
    (hc : RxCfg hdr P h g) (hi : RxGI hdr P g) (hph : RxPhase hdr P h g) (ho : g.over = true) :
    DM.gwp rxE (fskOokReadPayloadBatch fuel false) h g (fun g' r h' =>
      (r = .ok () ∧ RxDone P h h' ∧ g'.live ∧ g.Same g' ∧ g'.fifo = [] ∧ g'.pending = []) ∨ (∃ c, r = .error c ∧ RxFail g g')) := by
  unfold fskOokReadPayloadBatch
  rw [gwp_bind]
  have hpend : g.pending = [] := hi.wf.overPending ho
  refine gwp_mono rxE _ _ _ _ _ ?_ (header_any hdr P h g hc hi hph (fun htk => by
    have := congrArg List.length hi.stream
    rw [htk, hpend] at this; simp at this; omega))
  intro g1 r1 h1 hpost1
  rcases hpost1 with ⟨c, hr1, _, hB, hh1, hi1, _, hs1, _, _, hov1⟩ | ⟨ce, hre, _, hfe, hfl⟩
  case inr =>
    subst hre
    exact Or.inr ⟨ce, rfl, ⟨hfe.gi.wf, hfe.gi.live, hfe.over ho, hfe.same, hfl⟩⟩
  subst hr1
  have ho1 := hov1 ho
  have hp1 : g1.pending = [] := hi1.wf.overPending ho1
  have hrest : g1.fifo = P.drop h1.received.toNat := by
    have := rest_of_stream hi1.stream hB.taken
    rw [hp1, List.append_nil] at this; exact this
  dsimp only
  rw [gwp_bind, gwp_getH]
  dsimp only
  have hcap1 : P.length ≤ h1.packet.length := by subst hh1; exact hc.fits
  have hfld : h1.rxCb = h.rxCb ∧ h1.crcType = h.crcType ∧ h1.packet.length = h.packet.length := by subst hh1; exact ⟨rfl, rfl, rfl⟩
  by_cases heq : h1.expected = h1.received
  · rw [if_pos heq, gwp_pure]
    have hr : h1.received.toNat = P.length := by rw [← heq]; exact hB.exp
    refine Or.inl ⟨rfl, ⟨hB.exp, ?_, hfld.1, hfld.2.1, hfld.2.2⟩, hi1.live, hs1, ?_, hp1⟩
    · have := hB.stored; rw [hr] at this; rw [this]; simp
    · rw [hrest, hr]; simp
  rw [if_neg heq, if_neg (by rw [hB.exp]; omega)]
  simp only [Bool.false_eq_true, if_false]
  have hlt : h1.received.toNat < P.length := by
    have := hB.rcv
    rcases Nat.lt_or_ge h1.received.toNat P.length with h' | h'
    · exact h'
    · exfalso; apply heq; apply UInt16.toNat_inj.mp; rw [hB.exp]; omega
  by_cases hsc : h1.received = 0 ∧ h1.expected.toNat ≤ Gen.FIFO_SIZE_FSK - c
  · rw [if_pos hsc]
    have hr0 : h1.received.toNat = 0 := by rw [hsc.1]; rfl
    rw [hB.exp, if_pos hcap1, gwp_bind, gwp_bread]
    intro r2 g2 hr2
    rcases rx_bread hi1.live _ r2 g2 hr2 with ⟨ce, hre, hae⟩ | ⟨d, g1', hr2v, ha2, hg2, hdl, hdv⟩
    case inl => subst hre; exact Or.inr ⟨ce, rfl, RxFail.trans hs1 (advF_over hi1 ho1 hae)⟩
    subst hr2v hg2
    obtain ⟨hi1', hs1', ho1', hf1', htk1', hp1'⟩ := adv_over hi1 ho1 ha2
    have hfP : g1'.fifo = P := by rw [hf1', hrest, hr0]; rfl
    have hn : P.length ≤ g1'.fifo.length := by rw [hfP]; exact Nat.le_refl _
    have hd : d = P := by rw [hdv hn, hfP]; simp
    subst hd
    obtain ⟨hw2, hs2, htk2, hfifo2, hpend2, _, _, _⟩ := RxG.take_facts g1' d.length hn hi1'.wf
    dsimp only
    unfold packetCopy
    rw [gwp_bind, gwp_bind, gwp_getH]
    dsimp only
    rw [if_pos (by omega), gwp_setH]
    dsimp only
    rw [gwp_modH]
    refine Or.inl ⟨rfl, ⟨hB.exp, ?_, hfld.1, hfld.2.1, by show (h1.packet.wrs 0 d).length = _; simp; exact hfld.2.2⟩,
      hs2.live hi1'.live, ?_, ?_, ?_⟩
    · show (h1.packet.wrs 0 d).take d.length = d
      exact wrs_take _ _ hcap1
    · exact (hs1.trans hs1').trans hs2
    · rw [hfifo2, hfP]; simp
    · rw [hpend2]; exact hp1'
  · rw [if_neg hsc]
    have hroom := hi1.wf.room
    have hfl : g1.fifo.length = P.length - h1.received.toNat := by rw [hrest, List.length_drop]
    refine gwp_mono rxE _ _ _ _ _ ?_ (drain_spec hdr P fuel h1 g1 hi1 ho1 hB hlt hcap1 hc.p16 (by omega))
    intro g' r h' hpost
    rcases hpost with ⟨hr, hd, hl, hsm, hff, hpp⟩ | ⟨ce, hre, hfl'⟩
    · exact Or.inl ⟨hr, ⟨hd.exp, hd.data, hd.cb.trans hfld.1, hd.crc.trans hfld.2.1, hd.len.trans hfld.2.2⟩, hl, hs1.trans hsm, hff, hpp⟩
    · exact Or.inr ⟨ce, hre, RxFail.trans hs1 hfl'⟩

end Sx
