import Sx.Exec
import Sx.Model.Driver
/-
  A weakest-precondition calculus for driver programs against an *abstract environment*.

  The environment is a ghost state `G` with a relation `R g q ans g'` saying which answers
  `ans` the world may give to request `q` in ghost state `g` (values and failures), and to which
  ghost states that may lead; `C` does the same for what the application may do to the handle
  inside a callback.  `p.gwp E g Q` then says: against *every* behaviour the environment admits,
  `p` reaches no undefined behaviour and ends in a ghost state and result satisfying `Q`.

  With `R := fun _ _ _ _ => True` this is a demonic calculus over all answers; with a relation
  that describes a FIFO being drained or filled by the radio between any two transfers it
  quantifies over all admissible schedules.  `execG_gwp` carries a `gwp` fact to the interpreter
  (either build, any world) once the relation is shown to cover what the interpreter does.
-/
namespace Sx

inductive Ans
  | u32 (r : Except Code UInt32)
  | u8 (r : Except Code UInt8)
  | unit (r : Except Code Unit)
  | bytes (r : Except Code (List UInt8))

structure GEnv (G : Type) where
  R : G → Req → Ans → G → Prop
  C : G → CbEvent → Handle → Handle → G → Prop

variable {G : Type} {α β : Type}

def Prog.gwp (E : GEnv G) : Prog α → G → (G → α → Prop) → Prop
  | .ret a, g, Q => Q g a
  | .ub _, _, _ => False
  | .sread reg n k, g, Q => ∀ r g', E.R g (.sread reg n) (.u32 r) g' → (k r).gwp E g' Q
  | .rread reg k, g, Q => ∀ r g', E.R g (.rread reg) (.u8 r) g' → (k r).gwp E g' Q
  | .swrite reg d k, g, Q => ∀ r g', E.R g (.swrite reg d) (.unit r) g' → (k r).gwp E g' Q
  | .bwrite reg d k, g, Q => ∀ r g', E.R g (.bwrite reg d) (.unit r) g' → (k r).gwp E g' Q
  | .bread reg n k, g, Q => ∀ r g', E.R g (.bread reg n) (.bytes r) g' → (k r).gwp E g' Q
  | .rawbread reg n k, g, Q => ∀ r g', E.R g (.rawbread reg n) (.bytes r) g' → (k r).gwp E g' Q
  | .callback e h k, g, Q => ∀ h' g', E.C g e h h' g' → (k h').gwp E g' Q

theorem Prog.gwp_bind (E : GEnv G) (p : Prog α) (f : α → Prog β) (g : G) (Q : G → β → Prop) :
    (p.bind f).gwp E g Q ↔ p.gwp E g (fun g' a => (f a).gwp E g' Q) := by
  induction p generalizing g with
  | ret a => exact Iff.rfl
  | ub u => exact Iff.rfl
  | sread reg n k ih => exact forall_congr' fun r => forall_congr' fun g' => imp_congr_right fun _ => ih r g'
  | rread reg k ih => exact forall_congr' fun r => forall_congr' fun g' => imp_congr_right fun _ => ih r g'
  | swrite reg d k ih => exact forall_congr' fun r => forall_congr' fun g' => imp_congr_right fun _ => ih r g'
  | bwrite reg d k ih => exact forall_congr' fun r => forall_congr' fun g' => imp_congr_right fun _ => ih r g'
  | bread reg n k ih => exact forall_congr' fun r => forall_congr' fun g' => imp_congr_right fun _ => ih r g'
  | rawbread reg n k ih => exact forall_congr' fun r => forall_congr' fun g' => imp_congr_right fun _ => ih r g'
  | callback e h k ih => exact forall_congr' fun r => forall_congr' fun g' => imp_congr_right fun _ => ih r g'

theorem Prog.gwp_mono (E : GEnv G) (p : Prog α) (g : G) (Q Q' : G → α → Prop)
    (hq : ∀ g a, Q g a → Q' g a) (hp : p.gwp E g Q) : p.gwp E g Q' := by
  induction p generalizing g with
  | ret a => exact hq _ _ hp
  | ub u => exact hp
  | sread reg n k ih => exact fun r g' hr => ih r g' (hp r g' hr)
  | rread reg k ih => exact fun r g' hr => ih r g' (hp r g' hr)
  | swrite reg d k ih => exact fun r g' hr => ih r g' (hp r g' hr)
  | bwrite reg d k ih => exact fun r g' hr => ih r g' (hp r g' hr)
  | bread reg n k ih => exact fun r g' hr => ih r g' (hp r g' hr)
  | rawbread reg n k ih => exact fun r g' hr => ih r g' (hp r g' hr)
  | callback e h k ih => exact fun r g' hr => ih r g' (hp r g' hr)

/-- the calculus on the driver monad -/
def DM.gwp (E : GEnv G) (x : DM α) (h : Handle) (g : G) (Q : G → Except Code α → Handle → Prop) : Prop :=
  (x h).gwp E g (fun g' rh => Q g' rh.1 rh.2)

namespace DM
variable (E : GEnv G)

theorem gwp_pure (a : α) (h g Q) : gwp E (pure a : DM α) h g Q ↔ Q g (.ok a) h := Iff.rfl
theorem gwp_pure' (a : α) (h g Q) : gwp E (pure' a : DM α) h g Q ↔ Q g (.ok a) h := Iff.rfl
theorem gwp_fail (c : Code) (h g) (Q : G → Except Code α → Handle → Prop) : gwp E (fail c : DM α) h g Q ↔ Q g (.error c) h := Iff.rfl
theorem gwp_ub (u : UB) (h g) (Q : G → Except Code α → Handle → Prop) : gwp E (DM.ub u : DM α) h g Q ↔ False := Iff.rfl
theorem gwp_getH (h g Q) : gwp E getH h g Q ↔ Q g (.ok h) h := Iff.rfl
theorem gwp_setH (h' h g Q) : gwp E (setH h') h g Q ↔ Q g (.ok ()) h' := Iff.rfl
theorem gwp_modH (f h g Q) : gwp E (modH f) h g Q ↔ Q g (.ok ()) (f h) := Iff.rfl
theorem gwp_cb (e h g Q) : gwp E (cb e) h g Q ↔ ∀ h' g', E.C g e h h' g' → Q g' (.ok ()) h' := Iff.rfl
theorem gwp_rread (reg h g Q) : gwp E (rread reg) h g Q ↔ ∀ r g', E.R g (.rread reg) (.u8 r) g' → Q g' r h := Iff.rfl
theorem gwp_sread (reg n h g Q) : gwp E (sread reg n) h g Q ↔ ∀ r g', E.R g (.sread reg n) (.u32 r) g' → Q g' r h := Iff.rfl
theorem gwp_swrite (reg d h g Q) : gwp E (swrite reg d) h g Q ↔ ∀ r g', E.R g (.swrite reg d) (.unit r) g' → Q g' r h := Iff.rfl
theorem gwp_bwrite (reg d h g Q) : gwp E (bwrite reg d) h g Q ↔ ∀ r g', E.R g (.bwrite reg d) (.unit r) g' → Q g' r h := Iff.rfl
theorem gwp_bread (reg n h g Q) : gwp E (bread reg n) h g Q ↔ ∀ r g', E.R g (.bread reg n) (.bytes r) g' → Q g' r h := Iff.rfl
theorem gwp_rawbread (reg n h g Q) : gwp E (rawbread reg n) h g Q ↔ ∀ r g', E.R g (.rawbread reg n) (.bytes r) g' → Q g' r h := Iff.rfl

theorem gwp_bind (x : DM α) (f : α → DM β) (h g) (Q : G → Except Code β → Handle → Prop) :
    gwp E (x >>= f) h g Q ↔ gwp E x h g (fun g' r h' => match r with
      | .ok a => gwp E (f a) h' g' Q
      | .error c => Q g' (.error c) h') := by
  show ((x h).bind _).gwp E g _ ↔ _
  rw [Prog.gwp_bind]
  unfold gwp
  apply iff_of_eq
  congr 1
  funext g' rh
  obtain ⟨r, h'⟩ := rh
  cases r <;> rfl

theorem gwp_attempt (x : DM α) (h g) (Q : G → Except Code (Except Code α) → Handle → Prop) :
    gwp E (attempt x) h g Q ↔ gwp E x h g (fun g' r h' => Q g' (.ok r) h') := by
  show ((x h).bind _).gwp E g _ ↔ _
  rw [Prog.gwp_bind]
  exact Iff.rfl

theorem gwp_mono (x : DM α) (h g) (Q Q' : G → Except Code α → Handle → Prop)
    (hq : ∀ g r h', Q g r h' → Q' g r h') (hw : gwp E x h g Q) : gwp E x h g Q' :=
  Prog.gwp_mono E _ g _ _ (fun g a => hq g a.1 a.2) hw

theorem gwp_ite (c : Prop) [Decidable c] (x y : DM α) (h g Q) :
    gwp E (if c then x else y) h g Q ↔ (if c then gwp E x h g Q else gwp E y h g Q) := by
  split <;> rfl

end DM

/-! ### soundness against the interpreter -/

/-- the relation `abs` between worlds and ghost states is preserved by everything the
    interpreter does for a request, and `E.R` admits the answer -/
structure Covers (E : GEnv G) (cached : Bool) (onCb : CbEvent → Handle → World → Outcome Handle)
    (abs : World → G → Prop) : Prop where
  sread : ∀ w g reg n, abs w g → match Shadow.sread cached w reg n with
    | .ok r w' => ∃ g', E.R g (.sread reg n) (.u32 r) g' ∧ abs w' g'
    | .ub _ => True
  rread : ∀ w g reg, abs w g → match Shadow.rread cached w reg with
    | .ok r w' => ∃ g', E.R g (.rread reg) (.u8 r) g' ∧ abs w' g'
    | .ub _ => True
  swrite : ∀ w g reg d, abs w g → match Shadow.swrite cached w reg d with
    | .ok r w' => ∃ g', E.R g (.swrite reg d) (.unit r) g' ∧ abs w' g'
    | .ub _ => True
  bwrite : ∀ w g reg d, abs w g → match Shadow.bwrite cached w reg d with
    | .ok r w' => ∃ g', E.R g (.bwrite reg d) (.unit r) g' ∧ abs w' g'
    | .ub _ => True
  bread : ∀ w g reg n, abs w g →
    ∃ g', E.R g (.bread reg n) (.bytes (w.busReadBuf reg n).1) g' ∧ abs (w.busReadBuf reg n).2 g'
  rawbread : ∀ w g reg n, abs w g →
    ∃ g', E.R g (.rawbread reg n) (.bytes (w.busReadBuf reg n).1) g' ∧ abs (w.busReadBuf reg n).2 g'
  cb : ∀ w g e h, abs w g → match onCb e h w with
    | .done h' w' => ∃ g', E.C g e h h' g' ∧ abs w' g'
    | .ub _ _ => True

/-- every execution is one of the behaviours the calculus quantifies over: if it completes, it
    ends in a world whose abstraction satisfies the postcondition.  (An operation that ends in
    undefined behaviour — possible only in the shadow arrays, C01/C19, or inside the
    application's own reaction — is the subject of C08.) -/
theorem execG_gwp (E : GEnv G) (cached : Bool) (onCb : CbEvent → Handle → World → Outcome Handle)
    (abs : World → G → Prop) (cov : Covers E cached onCb abs)
    (p : Prog α) (g : G) (Q : G → α → Prop) (hp : p.gwp E g Q) (w : World) (ha : abs w g) :
    match execG cached onCb p w with
    | .done a w' => ∃ g', abs w' g' ∧ Q g' a
    | .ub _ _ => True := by
  induction p generalizing w g with
  | ret a => exact ⟨g, ha, hp⟩
  | ub u => trivial
  | sread reg n k ih =>
    simp only [execG]
    have := cov.sread w g reg n ha
    cases hs : Shadow.sread cached w reg n with
    | ok r w' => rw [hs] at this; obtain ⟨g', hr, ha'⟩ := this; exact ih r g' (hp r g' hr) w' ha'
    | ub u => trivial
  | rread reg k ih =>
    simp only [execG]
    have := cov.rread w g reg ha
    cases hs : Shadow.rread cached w reg with
    | ok r w' => rw [hs] at this; obtain ⟨g', hr, ha'⟩ := this; exact ih r g' (hp r g' hr) w' ha'
    | ub u => trivial
  | swrite reg d k ih =>
    simp only [execG]
    have := cov.swrite w g reg d ha
    cases hs : Shadow.swrite cached w reg d with
    | ok r w' => rw [hs] at this; obtain ⟨g', hr, ha'⟩ := this; exact ih r g' (hp r g' hr) w' ha'
    | ub u => trivial
  | bwrite reg d k ih =>
    simp only [execG]
    have := cov.bwrite w g reg d ha
    cases hs : Shadow.bwrite cached w reg d with
    | ok r w' => rw [hs] at this; obtain ⟨g', hr, ha'⟩ := this; exact ih r g' (hp r g' hr) w' ha'
    | ub u => trivial
  | bread reg n k ih =>
    simp only [execG]
    obtain ⟨g', hr, ha'⟩ := cov.bread w g reg n ha
    exact ih _ g' (hp _ g' hr) _ ha'
  | rawbread reg n k ih =>
    simp only [execG]
    obtain ⟨g', hr, ha'⟩ := cov.rawbread w g reg n ha
    exact ih _ g' (hp _ g' hr) _ ha'
  | callback e h k ih =>
    simp only [execG]
    have := cov.cb w g e h ha
    cases ho : onCb e h w with
    | done h' w' => rw [ho] at this; obtain ⟨g', hr, ha'⟩ := this; exact ih h' g' (hp h' g' hr) w' ha'
    | ub u w' => trivial

/-! ### the behaviours the calculus quantifies over, as a relation -/

/-- `p.Runs E g g' a`: against environment `E`, started in ghost state `g`, the program can end
    with result `a` in ghost state `g'` -/
inductive Prog.Runs (E : GEnv G) : Prog α → G → G → α → Prop
  | ret (a : α) (g : G) : Runs E (.ret a) g g a
  | sread {reg n k r g g1 g' a} : E.R g (.sread reg n) (.u32 r) g1 → Runs E (k r) g1 g' a → Runs E (.sread reg n k) g g' a
  | rread {reg k r g g1 g' a} : E.R g (.rread reg) (.u8 r) g1 → Runs E (k r) g1 g' a → Runs E (.rread reg k) g g' a
  | swrite {reg d k r g g1 g' a} : E.R g (.swrite reg d) (.unit r) g1 → Runs E (k r) g1 g' a → Runs E (.swrite reg d k) g g' a
  | bwrite {reg d k r g g1 g' a} : E.R g (.bwrite reg d) (.unit r) g1 → Runs E (k r) g1 g' a → Runs E (.bwrite reg d k) g g' a
  | bread {reg n k r g g1 g' a} : E.R g (.bread reg n) (.bytes r) g1 → Runs E (k r) g1 g' a → Runs E (.bread reg n k) g g' a
  | rawbread {reg n k r g g1 g' a} : E.R g (.rawbread reg n) (.bytes r) g1 → Runs E (k r) g1 g' a → Runs E (.rawbread reg n k) g g' a
  | callback {e h k h' g g1 g' a} : E.C g e h h' g1 → Runs E (k h') g1 g' a → Runs E (.callback e h k) g g' a

theorem Prog.gwp_runs {E : GEnv G} {p : Prog α} {g g' : G} {a : α} {Q : G → α → Prop}
    (hr : p.Runs E g g' a) (hp : p.gwp E g Q) : Q g' a := by
  induction hr with
  | ret a g => exact hp
  | sread h1 _ ih => exact ih (hp _ _ h1)
  | rread h1 _ ih => exact ih (hp _ _ h1)
  | swrite h1 _ ih => exact ih (hp _ _ h1)
  | bwrite h1 _ ih => exact ih (hp _ _ h1)
  | bread h1 _ ih => exact ih (hp _ _ h1)
  | rawbread h1 _ ih => exact ih (hp _ _ h1)
  | callback h1 _ ih => exact ih (hp _ _ h1)

/-- a completed execution ends in a world whose abstraction satisfies `P` -/
def OutcomeP (abs : World → G → Prop) (P : G → α → Prop) : Outcome α → Prop
  | .done a w' => ∃ g', abs w' g' ∧ P g' a
  | .ub _ _ => True

theorem OutcomeP.mono {abs : World → G → Prop} {P P' : G → α → Prop} {o : Outcome α}
    (ho : OutcomeP abs P o) (f : ∀ g' a, P g' a → P' g' a) : OutcomeP abs P' o := by
  cases o with
  | done a w' => obtain ⟨g', hab, hp⟩ := ho; exact ⟨g', hab, f g' a hp⟩
  | ub u w' => trivial

/-- every completed execution of the interpreter is a run against the environment -/
theorem execG_runs (E : GEnv G) (cached : Bool) (onCb : CbEvent → Handle → World → Outcome Handle)
    (abs : World → G → Prop) (cov : Covers E cached onCb abs)
    (p : Prog α) (g : G) (w : World) (ha : abs w g) :
    OutcomeP abs (fun g' a => p.Runs E g g' a) (execG cached onCb p w) := by
  induction p generalizing w g with
  | ret a => exact ⟨g, ha, .ret a g⟩
  | ub u => trivial
  | sread reg n k ih =>
    simp only [execG]
    have := cov.sread w g reg n ha
    cases hs : Shadow.sread cached w reg n with
    | ok r w' =>
      rw [hs] at this; obtain ⟨g1, hr, ha'⟩ := this
      exact (ih r g1 w' ha').mono (fun _ _ hrun => .sread hr hrun)
    | ub u => trivial
  | rread reg k ih =>
    simp only [execG]
    have := cov.rread w g reg ha
    cases hs : Shadow.rread cached w reg with
    | ok r w' =>
      rw [hs] at this; obtain ⟨g1, hr, ha'⟩ := this
      exact (ih r g1 w' ha').mono (fun _ _ hrun => .rread hr hrun)
    | ub u => trivial
  | swrite reg d k ih =>
    simp only [execG]
    have := cov.swrite w g reg d ha
    cases hs : Shadow.swrite cached w reg d with
    | ok r w' =>
      rw [hs] at this; obtain ⟨g1, hr, ha'⟩ := this
      exact (ih r g1 w' ha').mono (fun _ _ hrun => .swrite hr hrun)
    | ub u => trivial
  | bwrite reg d k ih =>
    simp only [execG]
    have := cov.bwrite w g reg d ha
    cases hs : Shadow.bwrite cached w reg d with
    | ok r w' =>
      rw [hs] at this; obtain ⟨g1, hr, ha'⟩ := this
      exact (ih r g1 w' ha').mono (fun _ _ hrun => .bwrite hr hrun)
    | ub u => trivial
  | bread reg n k ih =>
    simp only [execG]
    obtain ⟨g1, hr, ha'⟩ := cov.bread w g reg n ha
    exact (ih _ g1 _ ha').mono (fun _ _ hrun => .bread hr hrun)
  | rawbread reg n k ih =>
    simp only [execG]
    obtain ⟨g1, hr, ha'⟩ := cov.rawbread w g reg n ha
    exact (ih _ g1 _ ha').mono (fun _ _ hrun => .rawbread hr hrun)
  | callback e h k ih =>
    simp only [execG]
    have := cov.cb w g e h ha
    cases ho : onCb e h w with
    | done h' w' =>
      rw [ho] at this; obtain ⟨g1, hr, ha'⟩ := this
      exact (ih h' g1 w' ha').mono (fun _ _ hrun => .callback hr hrun)
    | ub u w' => trivial

/-- `execG_gwp` in terms of `OutcomeP` -/
theorem execG_gwp' (E : GEnv G) (cached : Bool) (onCb : CbEvent → Handle → World → Outcome Handle)
    (abs : World → G → Prop) (cov : Covers E cached onCb abs)
    (p : Prog α) (g : G) (Q : G → α → Prop) (hp : p.gwp E g Q) (w : World) (ha : abs w g) :
    OutcomeP abs Q (execG cached onCb p w) :=
  (execG_runs E cached onCb abs cov p g w ha).mono (fun _ _ hrun => Prog.gwp_runs hrun hp)

end Sx
