import Sx.Lemmas.FailFast
import Sx.Lemmas.Mem
/-
  What the packet readers leave in the handle when they report success (used by C08 for the
  length handed to the receive callback).  All statements are `Prog.fwp` facts: they hold for every
  answer of chip and bus, values and failures alike.
-/
namespace Sx
open Sx.Model DM

namespace DM
variable {α β : Type}

theorem fwp_setH (h0 h : Handle) (f : Bool) (Q) : ((setH h0) h).fwp f Q ↔ Q f (.ok (), h0) := Iff.rfl
theorem fwp_bwrite (reg : Nat) (d : List UInt8) (h : Handle) (f : Bool) (Q) :
    ((bwrite reg d) h).fwp f Q ↔ Q f (.ok (), h) ∧ ∀ c, Q true (.error c, h) := Iff.rfl
theorem fwp_ite (c : Prop) [Decidable c] (x y : DM α) (h : Handle) (f : Bool) (Q) :
    ((if c then x else y) h).fwp f Q ↔ (if c then (x h).fwp f Q else (y h).fwp f Q) := by
  split <;> rfl

end DM

/-- `read_payload_batch` learns the length: the only way to report success without a known packet
    format is with the length still zero -/
theorem header_post (h : Handle) (f : Bool) :
    (readPayloadHeader h).fwp f (fun _ rh => rh.1 = .ok none → rh.2.expected = 0) := by
  unfold readPayloadHeader fskOokIsAddressFiltered fskOokReadFixedPacketLength
  simp only [fwp_bind', fwp_getH, fwp_rread, fwp_bread, fwp_modH, fwp_pure, fwp_ite]
  split
  · intro e; cases e
  · rename_i he
    have he' : h.expected = 0 := Decidable.not_not.mp he
    simp [he']

/-- the drain loop touches neither the expected length nor the size of the buffer -/
theorem drain_keeps (fuel : Nat) (h : Handle) (f : Bool) :
    (drainLoop fuel h).fwp f (fun _ rh => rh.2.expected = h.expected ∧ rh.2.packet.length = h.packet.length) := by
  induction fuel generalizing h f with
  | zero => unfold drainLoop; trivial
  | succ n ih =>
    unfold drainLoop packetStore
    simp only [fwp_bind', fwp_getH, fwp_rread, fwp_modH, fwp_pure, fwp_ite, fwp_setH, fwp_fail, fwp_ub]
    have hw : ∀ v, (h.packet.wr h.received.toNat v).length = h.packet.length := fun v => by simp [Mem.wr]
    split
    · exact ⟨trivial, trivial⟩
    · refine ⟨fun v => ?_, fun c => ⟨trivial, trivial⟩⟩
      split
      · refine ⟨fun v1 => ?_, fun c => ⟨trivial, hw v⟩⟩
        split
        · refine Prog.fwp_mono _ _ _ _ ?_ (ih _ f)
          intro f' rh hq
          exact ⟨hq.1, hq.2.trans (hw v)⟩
        · exact ⟨trivial, hw v⟩
      · trivial

/-- **what a successful `read_payload_batch` leaves**: the expected length fits the buffer, or it
    equals the number of bytes already stored -/
theorem batch_post (fuel : Nat) (b : Bool) (h : Handle) :
    (fskOokReadPayloadBatch fuel b h).fwp false
      (fun _ rh => rh.1 = .ok () → rh.2.expected.toNat ≤ rh.2.packet.length ∨ rh.2.expected = rh.2.received) := by
  unfold fskOokReadPayloadBatch
  rw [fwp_bind']
  refine Prog.fwp_mono _ _ _ _ ?_ (header_post h false)
  intro f' ⟨r, h1⟩ hq
  cases r with
  | error c => intro e; cases e
  | ok hdr =>
    cases hdr with
    | none =>
      intro _
      left
      have : h1.expected = 0 := hq rfl
      show h1.expected.toNat ≤ _
      rw [this]; exact Nat.zero_le _
    | some consumed =>
      dsimp only
      unfold packetCopy
      simp only [fwp_bind', fwp_getH, fwp_bread, fwp_modH, fwp_pure, fwp_ite, fwp_setH, fwp_fail, fwp_ub]
      split
      · intro _; right; assumption
      · split
        · intro e; cases e
        · rename_i hfit
          have hfit' : h1.expected.toNat ≤ h1.packet.length := Nat.le_of_not_gt hfit
          split
          · split
            · split
              · refine ⟨fun v => ?_, fun c e => by cases e⟩
                split
                · intro _; left; rw [Mem.length_wrs]; exact hfit'
                · trivial
              · trivial
            · intro _; left; exact hfit'
          · split
            · refine ⟨fun v => ?_, fun c e => by cases e⟩
              split
              · intro _; right; trivial
              · trivial
            · refine Prog.fwp_mono _ _ _ _ ?_ (drain_keeps fuel h1 f')
              intro f2 rh hk _
              left
              rw [hk.1, hk.2]; exact hfit'

/-- **what a successful LoRa packet read leaves**: the length it recorded fits the buffer -/
theorem loraGuard_post (e : UInt16) (h : Handle) :
    (loraReadGuard e h).fwp false (fun _ rh => rh.1 = .ok () → rh.2.expected.toNat ≤ rh.2.packet.length) := by
  unfold loraReadGuard loraRxReadPayload checkModulation packetCopy
  simp only [fwp_bind', fwp_attempt, fwp_getH, fwp_rread, fwp_swrite, fwp_bread, fwp_modH, fwp_pure, fwp_ite, fwp_setH, fwp_fail, fwp_ub]
  have key : ∀ v : UInt8, v.toUInt16.toNat = v.toNat := fun v => by simp
  simp only [key, Mem.length_wrs, reduceCtorEq, false_implies, implies_true, and_true, true_implies]
  split
  · trivial
  · split
    · intro v
      split
      · trivial
      · rename_i hv
        intro _
        split
        · intro d; split
          · exact Nat.le_of_not_gt hv
          · trivial
        · trivial
    · split
      · trivial
      · rename_i hv
        intro _
        split
        · intro d; split
          · exact Nat.le_of_not_gt hv
          · trivial
        · trivial

end Sx
