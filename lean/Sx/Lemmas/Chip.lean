import Sx.Chip
import Sx.Lemmas.Mem
import Sx.Lemmas.Bits
/-
  Frame lemmas about the chip model: which cells an access or an environment event can change.
-/
namespace Sx
open Mem

namespace Chip

structure WF (c : Chip) : Prop where
  hs : c.shared.length = 128
  hl : c.lora.length = 128
  hf : c.fsk.length = 128
  hb : c.buf.length = 256

theorem wf_init : Chip.init.WF := by
  constructor <;> simp [Chip.init]

/-- `c'` has the same page selection as `c` and the same content in every cell whose address
    is not volatile -/
structure Stable (c c' : Chip) : Prop where
  wf : c'.WF
  page : c'.isLora = c.isLora
  cells : ∀ a, Vol a = false → c'.cell a = c.cell a

theorem Stable.refl {c : Chip} (h : c.WF) : Stable c c := ⟨h, rfl, fun _ _ => rfl⟩

theorem Stable.trans {a b c : Chip} (h1 : Stable a b) (h2 : Stable b c) : Stable a c :=
  ⟨h2.wf, h2.page.trans h1.page, fun x hx => (h2.cells x hx).trans (h1.cells x hx)⟩

theorem isLora_of_shared {c c' : Chip} (h : c'.shared.rd 1 = c.shared.rd 1) : c'.isLora = c.isLora := by
  simp [isLora, h]

theorem rd_wr_vol (m : Mem) (a : Nat) (v : UInt8) (hv : Vol a = true) :
    ∀ x, Vol x = false → (m.wr a v).rd x = m.rd x := by
  intro x hx
  have : a ≠ x := by intro e; subst e; simp [hv] at hx
  exact rd_wr_ne _ _ _ _ this

/-- general introduction rule: every register array keeps its length and its non-volatile
    cells, and the page selection is unchanged -/
theorem stable_intro {c c' : Chip} (_h : c.WF)
    (hs : c'.shared.length = 128 ∧ ∀ a, Vol a = false → c'.shared.rd a = c.shared.rd a)
    (hp : c'.isLora = c.isLora)
    (hl : c'.lora.length = 128 ∧ ∀ a, Vol a = false → c'.lora.rd a = c.lora.rd a)
    (hf : c'.fsk.length = 128 ∧ ∀ a, Vol a = false → c'.fsk.rd a = c.fsk.rd a)
    (hb : c'.buf.length = 256) : Stable c c' := by
  refine ⟨⟨hs.1, hl.1, hf.1, hb⟩, hp, ?_⟩
  intro x hx
  simp only [cell, hp]
  split
  · split
    · exact hl.2 x hx
    · exact hf.2 x hx
  · exact hs.2 x hx

theorem vol_0d : Vol 0x0d = true := by decide
theorem vol_3f : Vol 0x3f = true := by decide
theorem vol_3e : Vol 0x3e = true := by decide
theorem vol_12 : Vol 0x12 = true := by decide
theorem vol_00 : Vol 0x00 = true := by decide
theorem vol_01 : Vol 0x01 = true := by decide

theorem stable_fifoFlush {c : Chip} (h : c.WF) : Stable c c.fifoFlush := by
  refine stable_intro h ⟨h.hs, fun _ _ => rfl⟩ rfl ⟨h.hl, fun _ _ => rfl⟩ ⟨?_, ?_⟩ h.hb
  · simp [fifoFlush, h.hf]
  · exact rd_wr_vol _ _ _ vol_3f

/-- a register read changes volatile cells only -/
theorem read_stable {c : Chip} (h : c.WF) (a : Nat) : Stable c (c.read a).2 := by
  unfold read
  dsimp only
  split
  · split
    · dsimp only
      refine stable_intro h ⟨h.hs, fun _ _ => rfl⟩ rfl ⟨?_, ?_⟩ ⟨h.hf, fun _ _ => rfl⟩ h.hb
      · simp [h.hl]
      · exact rd_wr_vol _ _ _ vol_0d
    · split
      · dsimp only
        exact stable_intro h ⟨h.hs, fun _ _ => rfl⟩ rfl ⟨h.hl, fun _ _ => rfl⟩ ⟨h.hf, fun _ _ => rfl⟩ h.hb
      · dsimp only
        split
        · refine stable_intro h ⟨h.hs, fun _ _ => rfl⟩ rfl ⟨h.hl, fun _ _ => rfl⟩ ⟨?_, ?_⟩ h.hb
          · simp [h.hf]
          · exact rd_wr_vol _ _ _ vol_3f
        · exact stable_intro h ⟨h.hs, fun _ _ => rfl⟩ rfl ⟨h.hl, fun _ _ => rfl⟩ ⟨h.hf, fun _ _ => rfl⟩ h.hb
  · exact Stable.refl h

theorem read_nonzero {c : Chip} (a : Nat) (h0 : a % 128 ≠ 0) : c.read a = (c.peek (a % 128), c) := by
  simp [read, h0]

/-- the effect of a plain register write: the cell holds the value; other cells keep theirs,
    except that a write to RegOpMode (address 1) may re-map the paged addresses -/
structure Upd (c c' : Chip) (a : Nat) (v : UInt8) : Prop where
  wf : c'.WF
  page : a ≠ 1 → c'.isLora = c.isLora
  self : c'.cell a = v
  others : ∀ b, b ≠ a → (a ≠ 1 ∨ inPage b = false) → c'.cell b = c.cell b

theorem setCell_upd {c : Chip} (h : c.WF) (a : Nat) (v : UInt8) (ha : a < 128) :
    Upd c (c.setCell a v) a v := by
  unfold setCell
  by_cases hp : inPage a = true
  · have h1 : a ≠ 1 := by intro e; subst e; simp [inPage] at hp
    by_cases hl : c.isLora = true
    · simp only [hp, hl, ↓reduceIte]
      have hiso : ({ c with lora := c.lora.wr a v } : Chip).isLora = c.isLora := rfl
      refine ⟨⟨h.hs, by simp [h.hl], h.hf, h.hb⟩, fun _ => hiso, ?_, ?_⟩
      · simp only [cell, hp, hiso, hl, ↓reduceIte]
        exact rd_wr_same _ _ _ (by rw [h.hl]; exact ha)
      · intro b hb _
        simp only [cell, hiso]
        repeat' split
        all_goals first | rfl | exact rd_wr_ne _ _ _ _ (Ne.symm hb)
    · have hl' : c.isLora = false := by simpa using hl
      simp only [hp, hl', Bool.false_eq_true, ↓reduceIte]
      have hiso : ({ c with fsk := c.fsk.wr a v } : Chip).isLora = c.isLora := rfl
      refine ⟨⟨h.hs, h.hl, by simp [h.hf], h.hb⟩, fun _ => hiso, ?_, ?_⟩
      · simp only [cell, hp, hiso, hl', Bool.false_eq_true, ↓reduceIte]
        exact rd_wr_same _ _ _ (by rw [h.hf]; exact ha)
      · intro b hb _
        simp only [cell, hiso]
        repeat' split
        all_goals first | rfl | exact rd_wr_ne _ _ _ _ (Ne.symm hb)
  · have hp' : inPage a = false := by simpa using hp
    simp only [hp', Bool.false_eq_true, ↓reduceIte]
    refine ⟨⟨by simp [h.hs], h.hl, h.hf, h.hb⟩, ?_, ?_, ?_⟩
    · intro h1
      simp [isLora, rd_wr_ne _ _ _ _ h1]
    · simp only [cell, hp']
      exact rd_wr_same _ _ _ (by rw [h.hs]; exact ha)
    · intro b hb hor
      by_cases hpb : inPage b = true
      · have h1 : a ≠ 1 := by
          rcases hor with h1 | h1
          · exact h1
          · simp [hpb] at h1
        have hiso : ({ c with shared := c.shared.wr a v } : Chip).isLora = c.isLora := by
          simp [isLora, rd_wr_ne _ _ _ _ h1]
        simp only [cell, hpb, hiso, ↓reduceIte]
      · have hpb' : inPage b = false := by simpa using hpb
        simp only [cell, hpb']
        exact rd_wr_ne _ _ _ _ (Ne.symm hb)

theorem stable_fsk3f {c : Chip} (h : c.WF) (x : UInt8) : Stable c { c with fsk := c.fsk.wr 0x3f x } := by
  refine stable_intro h ⟨h.hs, fun _ _ => rfl⟩ rfl ⟨h.hl, fun _ _ => rfl⟩ ⟨?_, ?_⟩ h.hb
  · simp [h.hf]
  · exact rd_wr_vol _ _ _ vol_3f

theorem write_zero_stable {c : Chip} (h : c.WF) (a : Nat) (v : UInt8) (h0 : a % 128 = 0) : Stable c (c.write a v) := by
  unfold write
  dsimp only
  rw [if_pos h0]
  split
  · refine stable_intro h ⟨h.hs, fun _ _ => rfl⟩ rfl ⟨?_, ?_⟩ ⟨h.hf, fun _ _ => rfl⟩ ?_
    · simp [h.hl]
    · exact rd_wr_vol _ _ _ vol_0d
    · simp [h.hb]
  · split
    · refine stable_intro h ⟨h.hs, fun _ _ => rfl⟩ rfl ⟨h.hl, fun _ _ => rfl⟩ ⟨?_, ?_⟩ h.hb
      · simp [h.hf]
      · exact rd_wr_vol _ _ _ vol_3f
    · exact stable_intro h ⟨h.hs, fun _ _ => rfl⟩ rfl ⟨h.hl, fun _ _ => rfl⟩ ⟨h.hf, fun _ _ => rfl⟩ h.hb

/-- a register write either touches volatile cells only (FIFO, write-1-to-clear flag
    registers) or is a plain store -/
theorem write_effect {c : Chip} (h : c.WF) (a : Nat) (v : UInt8) :
    (Vol (a % 128) = true ∧ a % 128 ≠ 1 ∧ Stable c (c.write a v)) ∨ Upd c (c.write a v) (a % 128) v := by
  have ha : a % 128 < 128 := Nat.mod_lt _ (by decide)
  unfold write
  dsimp only
  split
  · rename_i h0
    left
    refine ⟨by rw [h0]; exact vol_00, by omega, ?_⟩
    split
    · refine stable_intro h ⟨h.hs, fun _ _ => rfl⟩ rfl ⟨?_, ?_⟩ ⟨h.hf, fun _ _ => rfl⟩ ?_
      · simp [h.hl]
      · exact rd_wr_vol _ _ _ vol_0d
      · simp [h.hb]
    · split
      · refine stable_intro h ⟨h.hs, fun _ _ => rfl⟩ rfl ⟨h.hl, fun _ _ => rfl⟩ ⟨?_, ?_⟩ h.hb
        · simp [h.hf]
        · exact rd_wr_vol _ _ _ vol_3f
      · exact stable_intro h ⟨h.hs, fun _ _ => rfl⟩ rfl ⟨h.hl, fun _ _ => rfl⟩ ⟨h.hf, fun _ _ => rfl⟩ h.hb
  · split
    · rename_i h12
      left
      refine ⟨by rw [h12.2]; exact vol_12, by omega, ?_⟩
      refine stable_intro h ⟨h.hs, fun _ _ => rfl⟩ rfl ⟨?_, ?_⟩ ⟨h.hf, fun _ _ => rfl⟩ h.hb
      · simp [h.hl]
      · exact rd_wr_vol _ _ _ vol_12
    · split
      · rename_i h3e
        left
        refine ⟨by rw [h3e.2]; exact vol_3e, by omega, ?_⟩
        refine stable_intro h ⟨h.hs, fun _ _ => rfl⟩ rfl ⟨h.hl, fun _ _ => rfl⟩ ⟨?_, ?_⟩ h.hb
        · simp [h.hf]
        · exact rd_wr_vol _ _ _ vol_3e
      · split
        · rename_i h3f
          left
          refine ⟨by rw [h3f.2]; exact vol_3f, by omega, ?_⟩
          have step1 : Stable c (if v &&& 0x10 ≠ 0 then fifoFlush { c with fsk := c.fsk.wr 0x3f (c.fsk.rd 0x3f &&& 0xef) } else c) := by
            split
            · have hw : ({ c with fsk := c.fsk.wr 0x3f (c.fsk.rd 0x3f &&& 0xef) } : Chip).WF :=
                ⟨h.hs, h.hl, by simp [h.hf], h.hb⟩
              refine Stable.trans ?_ (stable_fifoFlush hw)
              refine stable_intro h ⟨h.hs, fun _ _ => rfl⟩ rfl ⟨h.hl, fun _ _ => rfl⟩ ⟨?_, ?_⟩ h.hb
              · simp [h.hf]
              · exact rd_wr_vol _ _ _ vol_3f
            · exact Stable.refl h
          split
          · exact Stable.trans step1 (stable_fsk3f step1.wf _)
          · exact step1
        · right
          exact setCell_upd h _ v ha

end Chip
end Sx

namespace Sx
open Mem Chip

theorem vol_of_contains_lora {a : Nat} (h : volatileLora.contains a = true) : Vol a = true := by
  unfold Vol; rw [h]; rfl
theorem vol_of_contains_fsk {a : Nat} (h : volatileFsk.contains a = true) : Vol a = true := by
  unfold Vol; rw [h]; simp
theorem vol_of_contains_shared {a : Nat} (h : volatileShared.contains a = true) : Vol a = true := by
  unfold Vol; rw [h]; simp

theorem foldl_buf_length (data : List UInt8) (start : UInt8) (b : Mem) (l : List Nat) :
    (l.foldl (fun b i => b.wr ((start.toNat + i) % 256) (data.getD i 0)) b).length = b.length := by
  induction l generalizing b with
  | nil => rfl
  | cons x xs ih => rw [List.foldl, ih]; simp

/-- the frame conditions of `stable_intro`, discharged for a chip whose LoRa / FSK page was
    written at volatile addresses only -/
macro "stable_frames" h:ident : tactic => `(tactic| (
  refine stable_intro $h ⟨by simp [($h).hs], ?_⟩ (by rfl) ⟨by simp [($h).hl], ?_⟩ ⟨by simp [($h).hf], ?_⟩ (by simp [($h).hb])
  all_goals first
    | exact fun _ _ => rfl
    | exact rd_wr_vol _ _ _ (by decide)
    | (intro x hx; repeat rw [rd_wr_vol _ _ _ (by decide) x hx])))

/-- an admissible environment event changes volatile cells only -/
theorem Env.apply_stable {c : Chip} (h : c.WF) (e : Env) (ha : e.Admissible = true) : Stable c (e.apply c) := by
  cases e with
  | rxByte b =>
    unfold Env.apply
    dsimp only
    split <;> stable_frames h
  | rxEnd ok =>
    unfold Env.apply
    dsimp only
    split
    · exact stable_fifoFlush h
    · stable_frames h
  | flag1 m => unfold Env.apply; dsimp only; stable_frames h
  | flag2 m => unfold Env.apply; dsimp only; stable_frames h
  | txShift =>
    unfold Env.apply
    dsimp only
    split <;> stable_frames h
  | txSent => unfold Env.apply; dsimp only; stable_frames h
  | loraRx start crcErr data =>
    unfold Env.apply
    dsimp only
    refine stable_intro h ⟨h.hs, fun _ _ => rfl⟩ rfl ⟨?_, ?_⟩ ⟨h.hf, fun _ _ => rfl⟩ ?_
    · simp [h.hl]
    · intro x hx
      rw [rd_wr_vol _ _ _ vol_12 x hx, rd_wr_vol _ _ _ (by decide) x hx, rd_wr_vol _ _ _ (by decide) x hx,
        rd_wr_vol _ _ _ (by decide) x hx]
    · rw [foldl_buf_length]; exact h.hb
  | loraFlags m => unfold Env.apply; dsimp only; stable_frames h
  | chip page a v =>
    simp only [Env.Admissible, Bool.or_eq_true, Bool.and_eq_true, decide_eq_true_eq] at ha
    unfold Env.apply
    dsimp only
    rcases ha with (⟨hp, hv⟩ | ⟨⟨hp, hv⟩, _⟩) | ⟨⟨hp, hv⟩, _⟩
    · subst hp
      simp only [↓reduceIte]
      split
      · rename_i h1
        refine stable_intro h ⟨by simp [h.hs], ?_⟩ ?_ ⟨h.hl, fun _ _ => rfl⟩ ⟨h.hf, fun _ _ => rfl⟩ h.hb
        · exact rd_wr_vol _ _ _ vol_01
        · simp only [isLora, rd_wr_same _ _ _ (show 1 < c.shared.length by rw [h.hs]; decide)]
          rw [opmode_keep_80, opmode_keep_40]
      · rename_i h1
        refine stable_intro h ⟨by simp [h.hs], ?_⟩ ?_ ⟨h.hl, fun _ _ => rfl⟩ ⟨h.hf, fun _ _ => rfl⟩ h.hb
        · exact rd_wr_vol _ _ _ (vol_of_contains_shared hv)
        · simp only [isLora, rd_wr_ne _ _ _ _ h1]
    · subst hp
      simp only [show ('l' : Char) ≠ 's' by decide, ↓reduceIte]
      refine stable_intro h ⟨h.hs, fun _ _ => rfl⟩ rfl ⟨by simp [h.hl], ?_⟩ ⟨h.hf, fun _ _ => rfl⟩ h.hb
      exact rd_wr_vol _ _ _ (vol_of_contains_lora hv)
    · subst hp
      simp only [show ('f' : Char) ≠ 's' by decide, show ('f' : Char) ≠ 'l' by decide, ↓reduceIte]
      refine stable_intro h ⟨h.hs, fun _ _ => rfl⟩ rfl ⟨h.hl, fun _ _ => rfl⟩ ⟨by simp [h.hf], ?_⟩ h.hb
      exact rd_wr_vol _ _ _ (vol_of_contains_fsk hv)
  | buf a v => unfold Env.apply; dsimp only; stable_frames h
  | chipRand s => simp [Env.Admissible] at ha

end Sx
