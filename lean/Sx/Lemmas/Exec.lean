import Sx.Lemmas.Cache
import Sx.Lemmas.Bytes
/-
  The world invariant `Inv` (chip and cache well-formed, cache coherent, only admissible events
  scheduled) is preserved by every shadow-layer operation of the cached interpreter, hence by
  every program whose requests satisfy `CohReq`.
-/
namespace Sx
open Mem Chip Cache

/-- the requests for which the cache model is a faithful, coherent cache: multi-byte register
    reads fit a `uint32_t`; a multi-byte register write does not start at the FIFO address;
    buffer writes never start at RegOpMode.  Every request the driver issues satisfies this
    (`Sx.Props.C19`). -/
def CohReq : Req → Prop
  | .sread _ n => n ≤ 4
  | .swrite reg d => reg ≠ 0 ∨ d.length ≤ 1
  | .bwrite reg _ => reg ≠ 1
  | _ => True

theorem foldl_env_stable {c : Chip} (h : c.WF) (l : List (Nat × Env)) (hl : ∀ e ∈ l, e.2.Admissible = true)
    (p : Nat × Env → Bool) :
    Stable c (l.foldl (fun c e => if p e then e.2.apply c else c) c) := by
  induction l generalizing c with
  | nil => exact Stable.refl h
  | cons e es ih =>
    rw [List.foldl]
    have he := hl e (List.mem_cons_self ..)
    have hes : ∀ e' ∈ es, e'.2.Admissible = true := fun e' m => hl e' (List.mem_cons_of_mem _ m)
    by_cases hp : p e = true
    · simp only [hp, ↓reduceIte]
      have s1 := Env.apply_stable h e.2 he
      exact Stable.trans s1 (ih s1.wf hes)
    · simp only [hp]
      exact ih h hes

theorem inv_of_stable {w w' : World} (i : Inv w) (hc : w'.cache = w.cache) (hs : w'.sched = w.sched)
    (s : Stable w.chip w'.chip) : Inv w' :=
  ⟨s.wf, hc ▸ i.cache, hc ▸ coh_stable i.cache i.coh s, hs ▸ i.sched⟩

theorem pre_inv {w : World} (i : Inv w) : Inv w.pre.1 := by
  unfold World.pre
  dsimp only
  refine inv_of_stable i rfl rfl ?_
  have := foldl_env_stable i.chip w.sched i.sched (fun e => decide (e.1 = w.xfer))
  simpa using this

theorem pre_cache (w : World) : w.pre.1.cache = w.cache := rfl
theorem pre_sched (w : World) : w.pre.1.sched = w.sched := rfl

theorem busRead_inv {w : World} (i : Inv w) (reg n : Nat) : Inv (w.busRead reg n).2 := by
  unfold World.busRead
  have ip := pre_inv i
  generalize w.pre = p at ip
  obtain ⟨w1, code⟩ := p
  cases code with
  | some c => exact inv_of_stable ip rfl rfl (Stable.refl ip.chip)
  | none => exact inv_of_stable ip rfl rfl (readN_stable ip.chip reg n)

theorem busReadBuf_inv {w : World} (i : Inv w) (reg n : Nat) : Inv (w.busReadBuf reg n).2 := by
  unfold World.busReadBuf
  have ip := pre_inv i
  generalize w.pre = p at ip
  obtain ⟨w1, code⟩ := p
  cases code with
  | some c => exact inv_of_stable ip rfl rfl (Stable.refl ip.chip)
  | none => exact inv_of_stable ip rfl rfl (readN_stable ip.chip reg n)

end Sx

namespace Sx
open Mem Chip Cache

theorem peek_eq_cell {c : Chip} {a : Nat} (hv : Vol a = false) : c.peek a = c.cell a := by
  unfold peek
  split
  · rename_i h
    rw [h.1] at hv
    exact absurd hv (by decide)
  · rfl

/-- what a burst read returns at a non-volatile address is what the chip holds afterwards -/
theorem readN_vals {c : Chip} (h : c.WF) (reg n : Nat) (h1 : 1 ≤ reg) (hn : reg + n ≤ 128) (i : Nat) (hi : i < n)
    (hv : Vol (reg + i) = false) :
    (c.readN reg n).1.getD i 0 = (c.readN reg n).2.cell (reg + i) := by
  induction n generalizing c reg i with
  | zero => omega
  | succ n ih =>
    have hne : reg ≠ 0 := by omega
    have hmod : reg % 128 = reg := Nat.mod_eq_of_lt (by omega)
    have hr : c.read reg = (c.peek reg, c) := by
      rw [read_nonzero reg (by rw [hmod]; exact hne), hmod]
    simp only [readN, hr, if_neg hne]
    cases i with
    | zero =>
      simp only [Nat.add_zero] at hv ⊢
      simp only [List.getD_cons_zero]
      rw [peek_eq_cell hv]
      exact ((readN_stable h (reg + 1) n).cells reg hv).symm
    | succ j =>
      simp only [List.getD_cons_succ]
      have := ih h (reg + 1) (by omega) (by omega) j (by omega) (by rw [show reg + 1 + j = reg + (j + 1) by omega]; exact hv)
      rw [show reg + 1 + j = reg + (j + 1) by omega] at this
      exact this

theorem readN_length (c : Chip) (reg n : Nat) : (c.readN reg n).1.length = n := by
  induction n generalizing c reg with
  | zero => rfl
  | succ n ih => simp [readN, ih]

/-- filling the cache from a burst read keeps it coherent with the chip as it is after the read -/
theorem coh_store_fill {k : Cache} {c : Chip} (wk : k.WF) (wc : c.WF) (h : Coh k c) (bytes : List UInt8) (reg : Nat)
    (hlen : reg + bytes.length ≤ Cache.N)
    (hb : ∀ i, i < bytes.length → Vol (reg + i) = false → bytes.getD i 0 = c.cell (reg + i)) :
    (k.store reg bytes).WF ∧ Coh (k.store reg bytes) c := by
  induction bytes generalizing k reg with
  | nil => exact ⟨wk, h⟩
  | cons v vs ih =>
    rw [store_cons]
    have hreg : reg < Cache.N := by simp at hlen; omega
    have hcoh : Coh (k.put reg v) c := by
      intro b hbN hc
      by_cases hab : reg = b
      · subst hab
        rw [put_self wk reg v hreg hc]
        have hnv : Vol reg = false := by
          cases hv : Vol reg with
          | false => rfl
          | true =>
            have hi := wk.vol reg hreg hv
            have : k.put reg v = k := by simp [Cache.put, hi]
            rw [this, not_cached_of_ignore hi] at hc; cases hc
        have := hb 0 (by simp) (by simpa using hnv)
        simpa using this
      · rw [put_vals reg b v hab]
        rw [put_isCached reg b v hab] at hc
        exact h b hbN hc
    refine ih (put_wf wk reg v) hcoh (reg + 1) (by simp at hlen ⊢; omega) ?_
    intro i hi hv
    have := hb (i + 1) (by simp; omega) (by rw [show reg + (i + 1) = reg + 1 + i by omega]; exact hv)
    rw [show reg + (i + 1) = reg + 1 + i by omega] at this
    simpa using this

end Sx

namespace Sx
open Mem Chip Cache

theorem busRead_ok {w : World} (reg n : Nat) (v : UInt32) (w1 : World) (h : w.busRead reg n = (.ok v, w1)) :
    v = be32 (w.pre.1.chip.readN reg n).1 ∧ w1.chip = (w.pre.1.chip.readN reg n).2 := by
  unfold World.busRead at h
  generalize w.pre = p at h ⊢
  obtain ⟨w0, code⟩ := p
  cases code with
  | some c => simp at h
  | none =>
    simp only [Prod.mk.injEq, Except.ok.injEq] at h
    obtain ⟨h1, h2⟩ := h
    subst h2
    exact ⟨h1.symm, rfl⟩

theorem sreadFill_inv {w : World} (i : Inv w) (reg n : Nat) (hn : n ≤ 4) (v : UInt32) (w1 : World)
    (hbr : w.busRead reg n = (.ok v, w1)) (hreg1 : 1 ≤ reg) (r : Except Code UInt32) (w' : World)
    (h : Shadow.sreadFill w1 reg n v = .ok r w') : Inv w' := by
  have ib : Inv w1 := by have := busRead_inv i reg n; rw [hbr] at this; exact this
  obtain ⟨hv1, hv2⟩ := busRead_ok reg n v w1 hbr
  unfold Shadow.sreadFill at h
  split at h
  · cases h
  · rename_i hsz
    cases h
    have hsize : w1.cache.size = Cache.N := ib.cache.hs
    have hregn : reg + n ≤ Cache.N := by omega
    have ip := pre_inv i
    have hlen : ((List.range n).map (byteOf v n)).length = n := by simp
    have hfill := coh_store_fill ib.cache ib.chip ib.coh ((List.range n).map (byteOf v n)) reg
      (by rw [hlen]; exact hregn) (by
        intro j hj hvj
        rw [hlen] at hj
        have hrl := readN_length w.pre.1.chip reg n
        rw [show ((List.range n).map (byteOf v n)).getD j 0 = byteOf v n j by simp [List.getD, hj]]
        rw [hv1]
        have := byteOf_be32 (w.pre.1.chip.readN reg n).1 (by rw [hrl]; exact hn) j (by rw [hrl]; exact hj)
        rw [hrl] at this
        rw [this, hv2]
        exact readN_vals ip.chip reg n hreg1 (by rw [N_eq] at hregn; omega) j hj hvj)
    exact ⟨ib.chip, hfill.1, hfill.2, ib.sched⟩

theorem busStep_inv {w : World} (i : Inv w) (reg n : Nat) (r : Except Code UInt32) (w' : World)
    (h : Shadow.busStep w reg n = .ok r w') : Inv w' := by
  unfold Shadow.busStep at h
  have := busRead_inv i reg n
  generalize w.busRead reg n = br at h this
  obtain ⟨r0, w0⟩ := br
  cases h; exact this

theorem sread_inv {w : World} (i : Inv w) (reg n : Nat) (hn : n ≤ 4) (r : Except Code UInt32) (w' : World)
    (h : Shadow.sread true w reg n = .ok r w') : Inv w' := by
  unfold Shadow.sread at h
  simp only [Bool.not_true, Bool.false_eq_true, ↓reduceIte] at h
  split at h
  · cases h
  · split at h
    · exact busStep_inv i reg n r w' h
    · rename_i hig
      split at h
      · cases h
      · split at h
        · cases h; exact i
        · have hreg1 : 1 ≤ reg := by
            cases reg with
            | zero =>
              exfalso
              have : w.cache.isIgnore 0 = true := i.cache.vol 0 (by decide) (by decide)
              exact hig this
            | succ m => omega
          unfold Shadow.sreadMiss at h
          have ib := busRead_inv i reg n
          generalize hbr : w.busRead reg n = br at h ib
          obtain ⟨res, w1⟩ := br
          cases res with
          | error c => simp only at h; cases h; exact ib
          | ok v => exact sreadFill_inv i reg n hn v w1 hbr hreg1 r w' h

theorem busRead_cache (w : World) (reg n : Nat) : (w.busRead reg n).2.cache = w.cache := by
  unfold World.busRead
  have hp := pre_cache w
  generalize w.pre = p at hp ⊢
  obtain ⟨w0, code⟩ := p
  cases code <;> simpa using hp

theorem busStep1_inv {w : World} (i : Inv w) (reg : Nat) (r : Except Code UInt8) (w' : World)
    (h : Shadow.busStep1 w reg = .ok r w') : Inv w' := by
  unfold Shadow.busStep1 at h
  have := busRead_inv i reg 1
  generalize w.busRead reg 1 = br at h this
  obtain ⟨r0, w0⟩ := br
  cases h; exact this

theorem rread_inv {w : World} (i : Inv w) (reg : Nat) (r : Except Code UInt8) (w' : World)
    (h : Shadow.rread true w reg = .ok r w') : Inv w' := by
  unfold Shadow.rread at h
  simp only [Bool.not_true, Bool.false_eq_true, ↓reduceIte] at h
  split at h
  · cases h
  · rename_i hsz
    split at h
    · exact busStep1_inv i reg r w' h
    · rename_i hig
      split at h
      · cases h; exact i
      · unfold Shadow.rreadMiss at h
        have ib := busRead_inv i reg 1
        generalize hbr : w.busRead reg 1 = br at h ib
        obtain ⟨res, w1⟩ := br
        cases res with
        | error c => simp only at h; cases h; exact ib
        | ok v =>
          simp only at h ib
          cases h
          obtain ⟨hv1, hv2⟩ := busRead_ok reg 1 v w1 hbr
          have hregN : reg < Cache.N := by have := i.cache.hs; simp [Cache.size] at hsz; omega
          have hreg1 : 1 ≤ reg := by
            cases reg with
            | zero =>
              exfalso
              have : w.cache.isIgnore 0 = true := i.cache.vol 0 (by decide) (by decide)
              exact hig this
            | succ m => omega
          have ip := pre_inv i
          -- the single-register fill is `put` of the byte read
          have hig1 : w1.cache.isIgnore reg = false := by
            have : w1.cache = w.cache := by
              have := busRead_cache w reg 1
              rw [hbr] at this; exact this
            rw [this]; simpa using hig
          have hput : ({ vals := w1.cache.vals.wr reg v.toUInt8, sync := w1.cache.sync.wr reg (UInt8.ofNat Gen.SHADOW_CACHED) } : Cache)
              = w1.cache.store reg [v.toUInt8] := by
            simp [Cache.store, hig1]
          rw [hput]
          have hfill := coh_store_fill ib.cache ib.chip ib.coh [v.toUInt8] reg (by simp; omega) (by
            intro j hj hvj
            have hj0 : j = 0 := by simp at hj; omega
            subst hj0
            simp only [List.getD_cons_zero, Nat.add_zero] at hvj ⊢
            have hb := byteOf_be32 (w.pre.1.chip.readN reg 1).1 (by rw [readN_length]; decide) 0 (by rw [readN_length]; decide)
            rw [readN_length] at hb
            have hval := readN_vals ip.chip reg 1 hreg1 (by rw [N_eq] at hregN; omega) 0 (by decide) (by simpa using hvj)
            simp only [Nat.add_zero] at hval
            rw [hv2, ← hval, ← hb, ← hv1]
            unfold byteOf
            simp only [Nat.sub_self, Nat.zero_sub, Nat.pow_zero, Nat.div_one]
            rfl)
          exact ⟨ib.chip, hfill.1, hfill.2, ib.sched⟩

theorem busWrite_cases (w : World) (reg : Nat) (d : List UInt8) :
    (∃ c w1, w.busWrite reg d = (.error c, w1) ∧ w1.chip = w.pre.1.chip ∧ w1.cache = w.cache ∧ w1.sched = w.sched)
    ∨ (∃ w1, w.busWrite reg d = (.ok (), w1) ∧ w1.chip = w.pre.1.chip.writeN reg d ∧ w1.cache = w.cache ∧ w1.sched = w.sched) := by
  unfold World.busWrite
  have hp := pre_cache w
  have hs := pre_sched w
  generalize w.pre = p at hp hs ⊢
  obtain ⟨w0, code⟩ := p
  cases code with
  | some c => left; exact ⟨c, _, rfl, rfl, hp, hs⟩
  | none => right; exact ⟨_, rfl, rfl, hp, hs⟩

theorem busWriteBuf_cases (w : World) (reg : Nat) (d : List UInt8) :
    (∃ c w1, w.busWriteBuf reg d = (.error c, w1) ∧ w1.chip = w.pre.1.chip ∧ w1.cache = w.cache ∧ w1.sched = w.sched)
    ∨ (∃ w1, w.busWriteBuf reg d = (.ok (), w1) ∧ w1.chip = w.pre.1.chip.writeN reg d ∧ w1.cache = w.cache ∧ w1.sched = w.sched) := by
  unfold World.busWriteBuf
  have hp := pre_cache w
  have hs := pre_sched w
  generalize w.pre = p at hp hs ⊢
  obtain ⟨w0, code⟩ := p
  cases code with
  | some c => left; exact ⟨c, _, rfl, rfl, hp, hs⟩
  | none => right; exact ⟨_, rfl, rfl, hp, hs⟩

/-- coherence of cache-after-store with chip-after-write, for every register write the driver
    can issue (`CohReq`) -/
theorem coh_write {k : Cache} {c : Chip} (wk : k.WF) (wc : c.WF) (h : Coh k c) (reg : Nat) (d : List UInt8)
    (hreq : reg ≠ 0 ∨ d.length ≤ 1) (hlen : reg + d.length ≤ Cache.N) :
    let k' := if reg = Gen.REGOPMODE then k.dropPage else k
    (k'.store reg d).WF ∧ (c.writeN reg d).WF ∧ Coh (k'.store reg d) (c.writeN reg d) := by
  intro k'
  by_cases h0 : reg = 0
  · -- a single byte (or nothing) to the FIFO address
    subst h0
    have hk' : k' = k := by simp [k', show (0 : Nat) ≠ Gen.REGOPMODE by decide]
    rw [hk']
    have hst : k.store 0 d = k := by
      match d, hreq with
      | [], _ => rfl
      | [v], _ =>
        have := wk.vol 0 (by decide) (by decide)
        simp [Cache.store, this]
      | _ :: _ :: _, hreq => simp at hreq
    rw [hst]
    have s := writeN_zero_stable wc d
    exact ⟨wk, s.wf, coh_stable wk h s⟩
  · by_cases h1 : reg = 1
    · subst h1
      have hk' : k' = k.dropPage := by simp [k', show (1 : Nat) = Gen.REGOPMODE by decide]
      rw [hk']
      have wd := dropPage_wf wk
      match d with
      | [] =>
        refine ⟨wd, wc, ?_⟩
        show Coh k.dropPage c
        intro a ha hc
        obtain ⟨hck, _⟩ := dropPage_cached wk hc
        rw [dropPage_vals]
        exact h a ha hck
      | v :: vs =>
        rw [store_cons]
        simp only [writeN, show (1 : Nat) ≠ 0 by decide, ↓reduceIte]
        have hi := wd.vol 1 (by decide) (by decide)
        have hput : k.dropPage.put 1 v = k.dropPage := by simp [Cache.put, hi]
        rw [hput]
        -- the write to RegOpMode is a plain store that may re-map the paged addresses
        have hu : Upd c (c.write 1 v) 1 v := by
          rcases write_effect wc 1 v with ⟨_, hne, _⟩ | u
          · exact absurd rfl hne
          · exact u
        have hcoh : Coh k.dropPage (c.write 1 v) := by
          intro a ha hc
          obtain ⟨hck, hpg⟩ := dropPage_cached wk hc
          rw [dropPage_vals]
          have ha1 : a ≠ 1 := by
            intro e; subst e
            rw [not_cached_of_ignore hi] at hc; cases hc
          rw [hu.others a ha1 (Or.inr hpg)]
          exact h a ha hck
        exact coh_store_writeN wd hu.wf hcoh 2 vs (by decide) (by simp at hlen; omega)
    · have hk' : k' = k := by
        have : reg ≠ Gen.REGOPMODE := h1
        simp [k', this]
      rw [hk']
      exact coh_store_writeN wk wc h reg d (by omega) hlen

theorem swrite_inv {w : World} (i : Inv w) (reg : Nat) (d : List UInt8) (hreq : reg ≠ 0 ∨ d.length ≤ 1)
    (r : Except Code Unit) (w' : World) (h : Shadow.swrite true w reg d = .ok r w') : Inv w' := by
  unfold Shadow.swrite at h
  have ip := pre_inv i
  rcases busWrite_cases w reg d with ⟨c, w1, hb, hc, hk, hs⟩ | ⟨w1, hb, hc, hk, hs⟩
  · rw [hb] at h
    simp only at h
    cases h
    exact ⟨hc ▸ ip.chip, hk ▸ i.cache, by rw [hk, hc]; exact ip.coh, hs ▸ i.sched⟩
  · rw [hb] at h
    simp only [Bool.not_true, Bool.false_eq_true, ↓reduceIte] at h
    unfold Shadow.swriteStore at h
    dsimp only at h
    have hkw : w1.cache.WF := hk ▸ i.cache
    have hcoh1 : Coh w1.cache w.pre.1.chip := by rw [hk]; exact ip.coh
    by_cases hop : reg = Gen.REGOPMODE
    · rw [if_pos hop] at h
      split at h
      · cases h
      · rename_i hsz
        cases h
        have hsize : w1.cache.dropPage.size = Cache.N := (dropPage_wf hkw).hs
        have := coh_write hkw ip.chip hcoh1 reg d hreq (by omega)
        dsimp only at this
        rw [if_pos hop] at this
        exact ⟨hc ▸ this.2.1, this.1, by rw [hc]; exact this.2.2, hs ▸ i.sched⟩
    · rw [if_neg hop] at h
      split at h
      · cases h
      · rename_i hsz
        cases h
        have hsize : w1.cache.size = Cache.N := hkw.hs
        have := coh_write hkw ip.chip hcoh1 reg d hreq (by omega)
        dsimp only at this
        rw [if_neg hop] at this
        exact ⟨hc ▸ this.2.1, this.1, by rw [hc]; exact this.2.2, hs ▸ i.sched⟩

theorem bwrite_inv {w : World} (i : Inv w) (reg : Nat) (d : List UInt8) (hreq : reg ≠ 1)
    (r : Except Code Unit) (w' : World) (h : Shadow.bwrite true w reg d = .ok r w') : Inv w' := by
  unfold Shadow.bwrite at h
  have ip := pre_inv i
  rcases busWriteBuf_cases w reg d with ⟨c, w1, hb, hc, hk, hs⟩ | ⟨w1, hb, hc, hk, hs⟩
  · rw [hb] at h
    simp only at h
    cases h
    exact ⟨hc ▸ ip.chip, hk ▸ i.cache, by rw [hk, hc]; exact ip.coh, hs ▸ i.sched⟩
  · rw [hb] at h
    simp only [Bool.not_true, Bool.false_eq_true, ↓reduceIte] at h
    unfold Shadow.bwriteStore at h
    split at h
    · rename_i h0
      cases h
      have h0' : reg = 0 := h0
      subst h0'
      have s := writeN_zero_stable ip.chip d
      exact ⟨hc ▸ s.wf, hk ▸ i.cache, by rw [hk, hc]; exact coh_stable i.cache ip.coh s, hs ▸ i.sched⟩
    · rename_i h0
      split at h
      · cases h
      · rename_i hsz
        cases h
        have hsize : w1.cache.size = Cache.N := (hk ▸ i.cache : w1.cache.WF).hs
        have h0' : reg ≠ 0 := h0
        have := coh_store_writeN (k := w1.cache) (c := w.pre.1.chip) (hk ▸ i.cache) ip.chip (by rw [hk]; exact ip.coh)
          reg d (by omega) (by omega)
        exact ⟨hc ▸ this.2.1, this.1, by rw [hc]; exact this.2.2, hs ▸ i.sched⟩

/-- every program whose requests satisfy `CohReq` preserves the invariant, whatever the
    callbacks do as long as they preserve it too.  On undefined behaviour the world returned is
    the one before the failing request. -/
theorem execG_inv (onCb : CbEvent → Handle → World → Outcome Handle)
    (hcb : ∀ e h w, Inv w → Inv (onCb e h w).world)
    (p : Prog α) (hp : p.All CohReq) (w : World) (i : Inv w) : Inv (execG true onCb p w).world := by
  induction p generalizing w with
  | ret a => exact i
  | ub u => exact i
  | sread reg n k ih =>
    simp only [execG]
    cases hs : Shadow.sread true w reg n with
    | ok r w' => exact ih r (hp.2 r) w' (sread_inv i reg n hp.1 r w' hs)
    | ub u => exact i
  | rread reg k ih =>
    simp only [execG]
    cases hs : Shadow.rread true w reg with
    | ok r w' => exact ih r (hp.2 r) w' (rread_inv i reg r w' hs)
    | ub u => exact i
  | swrite reg d k ih =>
    simp only [execG]
    cases hs : Shadow.swrite true w reg d with
    | ok r w' => exact ih r (hp.2 r) w' (swrite_inv i reg d hp.1 r w' hs)
    | ub u => exact i
  | bwrite reg d k ih =>
    simp only [execG]
    cases hs : Shadow.bwrite true w reg d with
    | ok r w' => exact ih r (hp.2 r) w' (bwrite_inv i reg d hp.1 r w' hs)
    | ub u => exact i
  | bread reg n k ih =>
    simp only [execG]
    have := busReadBuf_inv i reg n
    generalize w.busReadBuf reg n = br at this
    obtain ⟨r, w1⟩ := br
    exact ih r (hp.2 r) w1 this
  | rawbread reg n k ih =>
    simp only [execG]
    have := busReadBuf_inv i reg n
    generalize w.busReadBuf reg n = br at this
    obtain ⟨r, w1⟩ := br
    exact ih r (hp.2 r) w1 this
  | callback e h k ih =>
    simp only [execG]
    have := hcb e h w i
    cases hc : onCb e h w with
    | done h' w' => rw [hc] at this; exact ih h' (hp h') w' this
    | ub u w' => rw [hc] at this; exact this

theorem logCb_inv (e : CbEvent) (h : Handle) (w : World) (i : Inv w) : Inv (logCb e h w).world :=
  ⟨i.chip, i.cache, i.coh, i.sched⟩

theorem exec0_inv (p : Prog α) (hp : p.All CohReq) (w : World) (i : Inv w) : Inv (exec0 true p w).world :=
  execG_inv logCb logCb_inv p hp w i

/-- the application's reactions issue coherent requests only -/
def Cfg.CohOk (cfg : Cfg) : Prop :=
  cfg.cached = true ∧ ∀ e re, cfg.reactionFor e = some re → ∀ h, (re.run h).All CohReq

theorem onCb_inv (cfg : Cfg) (hc : cfg.CohOk) (e : CbEvent) (h : Handle) (w : World) (i : Inv w) :
    Inv (cfg.onCb e h w).world := by
  unfold Cfg.onCb
  cases hr : cfg.reactionFor e with
  | none => exact logCb_inv e h w i
  | some re =>
    simp only
    have := exec0_inv (re.run h) (hc.2 e re hr h) w i
    rw [hc.1]
    cases hx : exec0 true (re.run h) w with
    | done a w' =>
      rw [hx] at this
      obtain ⟨txt, h'⟩ := a
      exact ⟨this.chip, this.cache, this.coh, this.sched⟩
    | ub u w' => rw [hx] at this; exact this

theorem exec_inv (cfg : Cfg) (hc : cfg.CohOk) (p : Prog α) (hp : p.All CohReq) (w : World) (i : Inv w) :
    Inv (exec cfg p w).world := by
  unfold exec
  rw [hc.1]
  exact execG_inv cfg.onCb (onCb_inv cfg hc) p hp w i

end Sx
