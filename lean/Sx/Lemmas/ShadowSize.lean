import Sx.Lemmas.ContractAll
import Sx.Lemmas.Exec
/-
  Within the SPI contract (C19) no request reaches outside the shadow arrays: the four
  shadow-layer entry points never end in `oobShadow` when the arrays have their declared size,
  and they keep that size.
-/
namespace Sx
open Sx.Model DM

/-- the shadow arrays have their declared size -/
def SzOk (w : World) : Prop := w.cache.size = 0x71

theorem store_size (k : Cache) (reg : Nat) (d : List UInt8) : (k.store reg d).size = k.size := by
  induction d generalizing k reg with
  | nil => rfl
  | cons v vs ih =>
    simp only [Cache.store]
    rw [ih]
    split
    · rfl
    · simp [Cache.size]

theorem dropPage_size (k : Cache) : k.dropPage.size = k.size := by
  simp only [Cache.size, dropPage_sync, foldl_dropStep_length]

theorem busReadBuf_cache (w : World) (reg n : Nat) : (w.busReadBuf reg n).2.cache = w.cache := by
  unfold World.busReadBuf
  generalize hp : w.pre = p
  obtain ⟨w0, code⟩ := p
  have : w0.cache = w.cache := by have := pre_cache w; rw [hp] at this; exact this
  cases code <;> exact this
theorem busWrite_cache (w : World) (reg : Nat) (d : List UInt8) : (w.busWrite reg d).2.cache = w.cache := by
  unfold World.busWrite
  generalize hp : w.pre = p
  obtain ⟨w0, code⟩ := p
  have : w0.cache = w.cache := by have := pre_cache w; rw [hp] at this; exact this
  cases code <;> exact this
theorem busWriteBuf_cache (w : World) (reg : Nat) (d : List UInt8) : (w.busWriteBuf reg d).2.cache = w.cache := by
  unfold World.busWriteBuf
  generalize hp : w.pre = p
  obtain ⟨w0, code⟩ := p
  have : w0.cache = w.cache := by have := pre_cache w; rw [hp] at this; exact this
  cases code <;> exact this

theorem probeEnd_le (k n : Nat) (hk : k ≤ n) : Shadow.probeEnd k n ≤ n := by
  unfold Shadow.probeEnd; split <;> omega

theorem prefixLen_le (c : Cache) (reg n : Nat) : c.prefixLen reg n ≤ n := by
  induction n generalizing reg with
  | zero => simp [Cache.prefixLen]
  | succ n ih =>
    simp only [Cache.prefixLen]
    split
    · have := ih (reg + 1); omega
    · omega

theorem beNat_lt (l : List UInt8) : beNat l < 256 ^ l.length := by
  induction l with
  | nil => decide
  | cons b bs ih =>
    have hb := b.toNat_lt
    have hp : 0 < 256 ^ bs.length := Nat.pow_pos (by decide)
    show b.toNat * 256 ^ bs.length + beNat bs < 256 ^ (bs.length + 1)
    rw [Nat.pow_succ]
    calc b.toNat * 256 ^ bs.length + beNat bs < b.toNat * 256 ^ bs.length + 256 ^ bs.length := by omega
      _ = (b.toNat + 1) * 256 ^ bs.length := by rw [Nat.add_mul, Nat.one_mul]
      _ ≤ 256 * 256 ^ bs.length := Nat.mul_le_mul_right _ (by omega)
      _ = 256 ^ bs.length * 256 := Nat.mul_comm _ _

/-- the value of an `n`-byte register read is below `2^(8n)` -/
theorem be32_lt (l : List UInt8) : (be32 l).toNat < 2 ^ (8 * l.length) := by
  have h := beNat_lt l
  have e : (256 : Nat) ^ l.length = 2 ^ (8 * l.length) := by
    rw [show (256 : Nat) = 2 ^ 8 from rfl, ← Nat.pow_mul]
  unfold be32
  rw [UInt32.toNat_ofNat']
  exact Nat.lt_of_le_of_lt (Nat.mod_le _ _) (e ▸ h)

theorem busRead_val (w : World) (reg n : Nat) (v : UInt32) (w1 : World) (h : w.busRead reg n = (.ok v, w1)) :
    v.toNat < 2 ^ (8 * n) := by
  unfold World.busRead at h
  generalize w.pre = pr at h
  obtain ⟨w0, code⟩ := pr
  cases code with
  | some c => simp at h
  | none =>
    simp only at h
    have hv : v = be32 (w0.chip.readN reg n).1 := by
      have := congrArg Prod.fst h
      simpa using this.symm
    rw [hv]
    have := be32_lt (w0.chip.readN reg n).1
    rwa [readN_length] at this

/-- within the SPI contract no access leaves the shadow arrays, and an `n`-byte read answers below `2^(8n)` -/
theorem sread_sz {cached : Bool} {w : World} (hs : SzOk w) (reg n : Nat) (hp : ContractReq (.sread reg n)) :
    ∃ r w', Shadow.sread cached w reg n = .ok r w' ∧ SzOk w' ∧ (∀ v, r = .ok v → v.toNat < 2 ^ (8 * n)) := by
  obtain ⟨h1, h2, h3, h4⟩ := hp
  have hbus : ∀ w0 : World, w0.cache = w.cache → SzOk w0 := fun w0 e => by unfold SzOk; rw [e]; exact hs
  have hstep : ∃ r w', Shadow.busStep w reg n = .ok r w' ∧ SzOk w' ∧ (∀ v, r = .ok v → v.toNat < 2 ^ (8 * n)) := by
    refine ⟨(w.busRead reg n).1, (w.busRead reg n).2, rfl, hbus _ (busRead_cache w reg n), ?_⟩
    intro v hv
    exact busRead_val w reg n v (w.busRead reg n).2 (Prod.ext hv rfl)
  unfold Shadow.sread
  split
  · exact hstep
  · rw [if_neg (by rw [hs]; omega)]
    split
    · exact hstep
    · have hpe := probeEnd_le _ _ (prefixLen_le w.cache reg n)
      rw [if_neg (by rw [hs]; omega)]
      split
      · refine ⟨_, _, rfl, hs, ?_⟩
        intro v hv
        have e : v = be32 (w.cache.vals.rds reg n) := by cases hv; rfl
        rw [e]
        have := be32_lt (w.cache.vals.rds reg n)
        rwa [length_rds] at this
      · unfold Shadow.sreadMiss
        have hc := busRead_cache w reg n
        have hval := busRead_val w reg n
        generalize w.busRead reg n = br at hc hval
        obtain ⟨res, w1⟩ := br
        cases res with
        | error c => exact ⟨_, _, rfl, hbus _ hc, fun v hv => by cases hv⟩
        | ok v =>
          simp only
          unfold Shadow.sreadFill
          have hsz1 : w1.cache.size = 0x71 := by rw [show w1.cache = w.cache from hc]; exact hs
          rw [if_neg (by rw [hsz1]; omega)]
          refine ⟨_, _, rfl, by unfold SzOk; show (w1.cache.store _ _).size = _; rw [store_size]; exact hsz1, ?_⟩
          intro v' hv'
          have e : v' = v := by cases hv'; rfl
          rw [e]
          exact hval v w1 rfl
theorem rread_sz {cached : Bool} {w : World} (hs : SzOk w) (reg : Nat) (hp : ContractReq (.rread reg)) :
    ∃ r w', Shadow.rread cached w reg = .ok r w' ∧ SzOk w' := by
  have hreg : reg ≤ 0x70 := hp
  have hbus : ∀ w0 : World, w0.cache = w.cache → SzOk w0 := fun w0 e => by unfold SzOk; rw [e]; exact hs
  unfold Shadow.rread
  split
  · unfold Shadow.busStep1
    exact ⟨_, _, rfl, hbus _ (busRead_cache w reg 1)⟩
  · rw [if_neg (by rw [hs]; omega)]
    split
    · unfold Shadow.busStep1
      exact ⟨_, _, rfl, hbus _ (busRead_cache w reg 1)⟩
    · split
      · exact ⟨_, _, rfl, hs⟩
      · unfold Shadow.rreadMiss
        have hc := busRead_cache w reg 1
        generalize w.busRead reg 1 = br at hc
        obtain ⟨res, w1⟩ := br
        cases res with
        | error c => exact ⟨_, _, rfl, hbus _ hc⟩
        | ok v =>
          refine ⟨_, _, rfl, ?_⟩
          unfold SzOk
          show (w1.cache.sync.wr reg _).length = _
          rw [Mem.length_wr, show w1.cache = w.cache from hc]; exact hs

theorem swrite_sz {cached : Bool} {w : World} (hs : SzOk w) (reg : Nat) (d : List UInt8) (hp : ContractReq (.swrite reg d)) :
    ∃ r w', Shadow.swrite cached w reg d = .ok r w' ∧ SzOk w' := by
  obtain ⟨h1, h2, h3, h4⟩ := hp
  have hbus : ∀ w0 : World, w0.cache = w.cache → SzOk w0 := fun w0 e => by unfold SzOk; rw [e]; exact hs
  unfold Shadow.swrite
  have hc := busWrite_cache w reg d
  generalize w.busWrite reg d = br at hc
  obtain ⟨res, w1⟩ := br
  cases res with
  | error c => exact ⟨_, _, rfl, hbus _ hc⟩
  | ok u =>
    simp only
    split
    · exact ⟨_, _, rfl, hbus _ hc⟩
    · unfold Shadow.swriteStore
      have hsz1 : w1.cache.size = 0x71 := by rw [show w1.cache = w.cache from hc]; exact hs
      dsimp only
      have hk : (if reg = Gen.REGOPMODE then w1.cache.dropPage else w1.cache).size = 0x71 := by
        split
        · rw [dropPage_size]; exact hsz1
        · exact hsz1
      rw [if_neg (by rw [hk]; omega)]
      exact ⟨_, _, rfl, by unfold SzOk; show (Cache.store _ _ _).size = _; rw [store_size]; exact hk⟩

theorem bwrite_sz {cached : Bool} {w : World} (hs : SzOk w) (reg : Nat) (d : List UInt8) (hp : ContractReq (.bwrite reg d)) :
    ∃ r w', Shadow.bwrite cached w reg d = .ok r w' ∧ SzOk w' := by
  obtain ⟨h1, h2⟩ := hp
  have hbus : ∀ w0 : World, w0.cache = w.cache → SzOk w0 := fun w0 e => by unfold SzOk; rw [e]; exact hs
  unfold Shadow.bwrite
  have hc := busWriteBuf_cache w reg d
  generalize w.busWriteBuf reg d = br at hc
  obtain ⟨res, w1⟩ := br
  cases res with
  | error c => exact ⟨_, _, rfl, hbus _ hc⟩
  | ok u =>
    simp only
    split
    · exact ⟨_, _, rfl, hbus _ hc⟩
    · unfold Shadow.bwriteStore
      have hsz1 : w1.cache.size = 0x71 := by rw [show w1.cache = w.cache from hc]; exact hs
      split
      · exact ⟨_, _, rfl, hbus _ hc⟩
      · rename_i hne
        have : 2 ≤ reg ∧ reg + d.length ≤ 0x71 := by
          rcases h2 with e | e
          · exact absurd e hne
          · exact e
        rw [if_neg (by rw [hsz1]; omega)]
        exact ⟨_, _, rfl, by unfold SzOk; show (Cache.store _ _ _).size = _; rw [store_size]; exact hsz1⟩

end Sx
