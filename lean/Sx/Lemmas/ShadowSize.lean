import Sx.Lemmas.ContractAll
import Sx.Lemmas.Exec
/-
  Within the SPI contract (C19) no request reaches outside the shadow arrays: the four
  shadow-layer entry points never end in `oobShadow` when the arrays have their declared size,
  and they keep that size.
-/
namespace Sx
open Sx.Model DM

/-- the shadow arrays have their declared size -/
def SzOk (w : World) : Prop := w.cache.size = 0x71

theorem store_size (k : Cache) (reg : Nat) (d : List UInt8) : (k.store reg d).size = k.size := by
  induction d generalizing k reg with
  | nil => rfl
  | cons v vs ih =>
    simp only [Cache.store]
    rw [ih]
    split
    · rfl
    · simp [Cache.size]

theorem dropPage_size (k : Cache) : k.dropPage.size = k.size := by
  simp only [Cache.size, dropPage_sync, foldl_dropStep_length]

theorem busReadBuf_cache (w : World) (reg n : Nat) : (w.busReadBuf reg n).2.cache = w.cache := by
  unfold World.busReadBuf
  generalize hp : w.pre = p
  obtain ⟨w0, code⟩ := p
  have : w0.cache = w.cache := by have := pre_cache w; rw [hp] at this; exact this
  cases code <;> exact this
theorem busWrite_cache (w : World) (reg : Nat) (d : List UInt8) : (w.busWrite reg d).2.cache = w.cache := by
  unfold World.busWrite
  generalize hp : w.pre = p
  obtain ⟨w0, code⟩ := p
  have : w0.cache = w.cache := by have := pre_cache w; rw [hp] at this; exact this
  cases code <;> exact this
theorem busWriteBuf_cache (w : World) (reg : Nat) (d : List UInt8) : (w.busWriteBuf reg d).2.cache = w.cache := by
  unfold World.busWriteBuf
  generalize hp : w.pre = p
  obtain ⟨w0, code⟩ := p
  have : w0.cache = w.cache := by have := pre_cache w; rw [hp] at this; exact this
  cases code <;> exact this

theorem probeEnd_le (k n : Nat) (hk : k ≤ n) : Shadow.probeEnd k n ≤ n := by
  unfold Shadow.probeEnd; split <;> omega

theorem prefixLen_le (c : Cache) (reg n : Nat) : c.prefixLen reg n ≤ n := by
  induction n generalizing reg with
  | zero => simp [Cache.prefixLen]
  | succ n ih =>
    simp only [Cache.prefixLen]
    split
    · have := ih (reg + 1); omega
    · omega

/-- within the SPI contract no access leaves the shadow arrays -/
theorem sread_sz {cached : Bool} {w : World} (hs : SzOk w) (reg n : Nat) (hp : ContractReq (.sread reg n)) :
    ∃ r w', Shadow.sread cached w reg n = .ok r w' ∧ SzOk w' := by
  obtain ⟨h1, h2, h3, h4⟩ := hp
  have hbus : ∀ w0 : World, w0.cache = w.cache → SzOk w0 := fun w0 e => by unfold SzOk; rw [e]; exact hs
  unfold Shadow.sread
  split
  · unfold Shadow.busStep
    exact ⟨_, _, rfl, hbus _ (busRead_cache w reg n)⟩
  · rw [if_neg (by rw [hs]; omega)]
    split
    · unfold Shadow.busStep
      exact ⟨_, _, rfl, hbus _ (busRead_cache w reg n)⟩
    · have hpe := probeEnd_le _ _ (prefixLen_le w.cache reg n)
      rw [if_neg (by rw [hs]; omega)]
      split
      · exact ⟨_, _, rfl, hs⟩
      · unfold Shadow.sreadMiss
        have hc := busRead_cache w reg n
        generalize w.busRead reg n = br at hc
        obtain ⟨res, w1⟩ := br
        cases res with
        | error c => exact ⟨_, _, rfl, hbus _ hc⟩
        | ok v =>
          simp only
          unfold Shadow.sreadFill
          have hsz1 : w1.cache.size = 0x71 := by rw [show w1.cache = w.cache from hc]; exact hs
          rw [if_neg (by rw [hsz1]; omega)]
          exact ⟨_, _, rfl, by unfold SzOk; show (w1.cache.store _ _).size = _; rw [store_size]; exact hsz1⟩
theorem rread_sz {cached : Bool} {w : World} (hs : SzOk w) (reg : Nat) (hp : ContractReq (.rread reg)) :
    ∃ r w', Shadow.rread cached w reg = .ok r w' ∧ SzOk w' := by
  have hreg : reg ≤ 0x70 := hp
  have hbus : ∀ w0 : World, w0.cache = w.cache → SzOk w0 := fun w0 e => by unfold SzOk; rw [e]; exact hs
  unfold Shadow.rread
  split
  · unfold Shadow.busStep1
    exact ⟨_, _, rfl, hbus _ (busRead_cache w reg 1)⟩
  · rw [if_neg (by rw [hs]; omega)]
    split
    · unfold Shadow.busStep1
      exact ⟨_, _, rfl, hbus _ (busRead_cache w reg 1)⟩
    · split
      · exact ⟨_, _, rfl, hs⟩
      · unfold Shadow.rreadMiss
        have hc := busRead_cache w reg 1
        generalize w.busRead reg 1 = br at hc
        obtain ⟨res, w1⟩ := br
        cases res with
        | error c => exact ⟨_, _, rfl, hbus _ hc⟩
        | ok v =>
          refine ⟨_, _, rfl, ?_⟩
          unfold SzOk
          show (w1.cache.sync.wr reg _).length = _
          rw [Mem.length_wr, show w1.cache = w.cache from hc]; exact hs

theorem swrite_sz {cached : Bool} {w : World} (hs : SzOk w) (reg : Nat) (d : List UInt8) (hp : ContractReq (.swrite reg d)) :
    ∃ r w', Shadow.swrite cached w reg d = .ok r w' ∧ SzOk w' := by
  obtain ⟨h1, h2, h3, h4⟩ := hp
  have hbus : ∀ w0 : World, w0.cache = w.cache → SzOk w0 := fun w0 e => by unfold SzOk; rw [e]; exact hs
  unfold Shadow.swrite
  have hc := busWrite_cache w reg d
  generalize w.busWrite reg d = br at hc
  obtain ⟨res, w1⟩ := br
  cases res with
  | error c => exact ⟨_, _, rfl, hbus _ hc⟩
  | ok u =>
    simp only
    split
    · exact ⟨_, _, rfl, hbus _ hc⟩
    · unfold Shadow.swriteStore
      have hsz1 : w1.cache.size = 0x71 := by rw [show w1.cache = w.cache from hc]; exact hs
      dsimp only
      have hk : (if reg = Gen.REGOPMODE then w1.cache.dropPage else w1.cache).size = 0x71 := by
        split
        · rw [dropPage_size]; exact hsz1
        · exact hsz1
      rw [if_neg (by rw [hk]; omega)]
      exact ⟨_, _, rfl, by unfold SzOk; show (Cache.store _ _ _).size = _; rw [store_size]; exact hk⟩

theorem bwrite_sz {cached : Bool} {w : World} (hs : SzOk w) (reg : Nat) (d : List UInt8) (hp : ContractReq (.bwrite reg d)) :
    ∃ r w', Shadow.bwrite cached w reg d = .ok r w' ∧ SzOk w' := by
  obtain ⟨h1, h2⟩ := hp
  have hbus : ∀ w0 : World, w0.cache = w.cache → SzOk w0 := fun w0 e => by unfold SzOk; rw [e]; exact hs
  unfold Shadow.bwrite
  have hc := busWriteBuf_cache w reg d
  generalize w.busWriteBuf reg d = br at hc
  obtain ⟨res, w1⟩ := br
  cases res with
  | error c => exact ⟨_, _, rfl, hbus _ hc⟩
  | ok u =>
    simp only
    split
    · exact ⟨_, _, rfl, hbus _ hc⟩
    · unfold Shadow.bwriteStore
      have hsz1 : w1.cache.size = 0x71 := by rw [show w1.cache = w.cache from hc]; exact hs
      split
      · exact ⟨_, _, rfl, hbus _ hc⟩
      · rename_i hne
        have : 2 ≤ reg ∧ reg + d.length ≤ 0x71 := by
          rcases h2 with e | e
          · exact absurd e hne
          · exact e
        rw [if_neg (by rw [hsz1]; omega)]
        exact ⟨_, _, rfl, by unfold SzOk; show (Cache.store _ _ _).size = _; rw [store_size]; exact hsz1⟩

end Sx
