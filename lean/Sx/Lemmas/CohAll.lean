import Sx.Lemmas.Struct
import Sx.Lemmas.Exec
/-
  Every request any API function can issue is one for which the cache model stays coherent
  (`CohReq`): structural traversal of the model of each function of sx127x.c.
-/
namespace Sx
open Sx.Model DM

attribute [local irreducible] DM.rread DM.sread DM.swrite DM.bwrite DM.bread DM.rawbread DM.cb DM.modH DM.setH
  DM.getH DM.fail DM.ub DM.attempt DM.pure' DM.bind' DM.ofExcept
  frfOf freqOfRaw loraFreqError fskFreqError ppmFloat beaconTimers fskBitrateValue ookBitrateValue fdevValue
  calculateBwRegister rssiRefine snrOf bandwidthOfCode F.lt F.gt F.le F.toSInt F.toUInt F.ofBits32

macro "coh_leaf" : tactic => `(tactic| first
  | (apply DM.All_rread; exact True.intro)
  | (apply DM.All_sread; show _ ≤ 4; decide)
  | (apply DM.All_swrite; first | (left; decide) | (right; simp))
  | (apply DM.All_bwrite; show _ ≠ 1; decide)
  | (apply DM.All_bread; exact True.intro)
  | (apply DM.All_rawbread; exact True.intro))

theorem coh_checkModulation (m : Nat) : DM.All CohReq (checkModulation m) := by
  unfold checkModulation; repeat (first | dm_step | coh_leaf | split)
theorem coh_checkFskOok : DM.All CohReq checkFskOok := by
  unfold checkFskOok; repeat (first | dm_step | coh_leaf | split)
theorem coh_appendRegister (reg : Nat) (v m : UInt8) (h : reg ≠ 0) : DM.All CohReq (appendRegister reg v m) := by
  unfold appendRegister
  apply DM.All_bind
  · apply DM.All_rread; exact True.intro
  · intro _; apply DM.All_swrite; left; exact h

macro "coh0" : tactic => `(tactic| repeat (first
  | dm_step | coh_leaf
  | exact coh_checkModulation _ | exact coh_checkFskOok | (apply coh_appendRegister; decide)
  | split | dsimp only))

theorem coh_setLdro (e : Bool) : DM.All CohReq (loraSetLowDatarateOptimization e) := by
  unfold loraSetLowDatarateOptimization; coh0
theorem coh_getBw : DM.All CohReq loraGetBandwidth := by unfold loraGetBandwidth; coh0
theorem coh_reloadLdro : DM.All CohReq reloadLowDatarateOptimization := by
  unfold reloadLowDatarateOptimization
  repeat (first | exact coh_getBw | exact coh_setLdro _ | dm_step | coh_leaf | split | dsimp only)
theorem coh_fixedLen : DM.All CohReq fskOokReadFixedPacketLength := by unfold fskOokReadFixedPacketLength; coh0
theorem coh_addrFilt : DM.All CohReq fskOokIsAddressFiltered := by unfold fskOokIsAddressFiltered; coh0
theorem coh_packetStore (i : Nat) (v : UInt8) : DM.All CohReq (packetStore i v) := by unfold packetStore; coh0
theorem coh_packetCopy (i : Nat) (d : List UInt8) : DM.All CohReq (packetCopy i d) := by unfold packetCopy; coh0
theorem coh_drainLoop (fuel : Nat) : DM.All CohReq (drainLoop fuel) := by
  induction fuel with
  | zero => unfold drainLoop; coh0
  | succ n ih =>
    unfold drainLoop
    repeat (first | exact ih | exact coh_packetStore _ _ | dm_step | coh_leaf | split | dsimp only)
theorem coh_header : DM.All CohReq readPayloadHeader := by
  unfold readPayloadHeader
  repeat (first | exact coh_fixedLen | exact coh_addrFilt | dm_step | coh_leaf | split | dsimp only)
theorem coh_batch (fuel : Nat) (b : Bool) : DM.All CohReq (fskOokReadPayloadBatch fuel b) := by
  unfold fskOokReadPayloadBatch
  repeat (first | exact coh_header | exact coh_drainLoop _ | exact coh_packetCopy _ _ | dm_step | coh_leaf | split | dsimp only)
theorem coh_getRssi : DM.All CohReq fskOokGetRssi := by unfold fskOokGetRssi; coh0
theorem coh_rxCb : DM.All CohReq rxCallback := by unfold rxCallback; coh0
theorem coh_txCb : DM.All CohReq txCallback := by unfold txCallback; coh0
theorem coh_fskIrq (fuel : Nat) : DM.All CohReq (fskOokHandleInterrupt fuel) := by
  unfold fskOokHandleInterrupt
  repeat (first | exact coh_batch _ _ | exact coh_getRssi | exact coh_rxCb | exact coh_txCb | dm_step | coh_leaf | split | dsimp only)
theorem coh_loraRead : DM.All CohReq loraRxReadPayload := by
  unfold loraRxReadPayload
  repeat (first | exact coh_packetCopy _ _ | exact coh_checkModulation _ | dm_step | coh_leaf | split | dsimp only)
theorem coh_setFreq (f : UInt64) : DM.All CohReq (setFrequency f) := by unfold setFrequency; coh0
theorem coh_getFreq : DM.All CohReq getFrequency := by unfold getFrequency; coh0
theorem coh_loraIrq : DM.All CohReq loraHandleInterrupt := by
  unfold loraHandleInterrupt
  repeat (first | exact coh_loraRead | exact coh_setFreq _ | exact coh_rxCb | exact coh_txCb | dm_step | coh_leaf | split | dsimp only)
theorem coh_irq (fuel : Nat) : DM.All CohReq (handleInterrupt fuel) := by
  unfold handleInterrupt
  repeat (first | exact coh_loraIrq | exact coh_fskIrq _ | dm_step | split | dsimp only)


/-- traversal with every helper lemma available -/
macro "coh1" : tactic => `(tactic| repeat (first
  | dm_step | coh_leaf
  | exact coh_checkModulation _ | exact coh_checkFskOok | (apply coh_appendRegister; decide)
  | exact coh_setLdro _ | exact coh_getBw | exact coh_reloadLdro | exact coh_packetStore _ _ | exact coh_packetCopy _ _
  | exact coh_setFreq _ | exact coh_getFreq | exact coh_irq _
  | split | dsimp only))

theorem coh_create (cap : Nat) : DM.All CohReq (Model.create cap) := by unfold Model.create; coh1
theorem coh_setOpmod (o m : Nat) : DM.All CohReq (setOpmod o m) := by unfold setOpmod; coh1
theorem coh_loraResetFifo : DM.All CohReq loraResetFifo := by unfold loraResetFifo; coh1
theorem coh_rxSetLnaGain (g : Nat) : DM.All CohReq (rxSetLnaGain g) := by unfold rxSetLnaGain; coh1
theorem coh_rxSetLnaBoostHf (e : Bool) : DM.All CohReq (rxSetLnaBoostHf e) := by unfold rxSetLnaBoostHf; coh1
theorem coh_loraSetBandwidth (b : Nat) : DM.All CohReq (loraSetBandwidth b) := by unfold loraSetBandwidth; coh1
theorem coh_loraSetModemConfig2 (s : Nat) : DM.All CohReq (loraSetModemConfig2 s) := by unfold loraSetModemConfig2; coh1
theorem coh_loraSetSyncword (v : UInt8) : DM.All CohReq (loraSetSyncword v) := by unfold loraSetSyncword; coh1
theorem coh_setPreambleLength (v : UInt16) : DM.All CohReq (setPreambleLength v) := by unfold setPreambleLength; coh1
theorem coh_loraSetImplicitHeader (h : Option (UInt8 × Bool × Nat)) : DM.All CohReq (loraSetImplicitHeader h) := by
  unfold loraSetImplicitHeader; coh1
theorem coh_loraTxSetExplicitHeader (h : Option (Bool × Nat)) : DM.All CohReq (loraTxSetExplicitHeader h) := by
  unfold loraTxSetExplicitHeader; coh1
theorem coh_loraSetFrequencyHopping (p : UInt8) (f : Option (List UInt64)) (l : UInt8) :
    DM.All CohReq (loraSetFrequencyHopping p f l) := by unfold loraSetFrequencyHopping; coh1
theorem coh_loraRxGetPacketSnr : DM.All CohReq loraRxGetPacketSnr := by unfold loraRxGetPacketSnr; coh1
theorem coh_rxGetPacketRssi : DM.All CohReq rxGetPacketRssi := by
  unfold rxGetPacketRssi
  repeat (first | exact coh_loraRxGetPacketSnr | exact coh_getFreq | dm_step | coh_leaf | split | dsimp only)
theorem coh_rxGetFrequencyError : DM.All CohReq rxGetFrequencyError := by unfold rxGetFrequencyError; coh1
theorem coh_dumpRegisters : DM.All CohReq dumpRegisters := by unfold dumpRegisters; coh1
theorem coh_txSetOcp (e : Bool) (m : UInt8) : DM.All CohReq (txSetOcp e m) := by unfold txSetOcp; coh1
theorem coh_txSetPaConfig (p : Nat) (w : Int) : DM.All CohReq (txSetPaConfig p w) := by
  unfold txSetPaConfig
  repeat (first | exact coh_txSetOcp _ _ | dm_step | coh_leaf | split | dsimp only)
theorem coh_loraTxSetForTransmission (d : List UInt8) : DM.All CohReq (loraTxSetForTransmission d) := by
  unfold loraTxSetForTransmission; coh1
theorem coh_loraSetPpmOffset (e : Int) : DM.All CohReq (loraSetPpmOffset e) := by unfold loraSetPpmOffset; coh1
theorem coh_fskOokTxWithRemaining (n : UInt16) : DM.All CohReq (fskOokTxWithRemaining n) := by
  unfold fskOokTxWithRemaining; coh1
theorem coh_fskOokTxSetForTransmission (d : List UInt8) : DM.All CohReq (fskOokTxSetForTransmission d) := by
  unfold fskOokTxSetForTransmission
  repeat (first | exact coh_fskOokTxWithRemaining _ | exact coh_packetStore _ _ | exact coh_packetCopy _ _ | exact coh_checkFskOok | dm_step | coh_leaf | split | dsimp only)
theorem coh_fskOokTxSetForTransmissionWithAddress (d : List UInt8) (a : UInt8) :
    DM.All CohReq (fskOokTxSetForTransmissionWithAddress d a) := by
  unfold fskOokTxSetForTransmissionWithAddress
  repeat (first | exact coh_fskOokTxWithRemaining _ | exact coh_packetStore _ _ | exact coh_packetCopy _ _ | exact coh_checkFskOok | dm_step | coh_leaf | split | dsimp only)
theorem coh_fskOokTxStartBeacon (d : List UInt8) (i : Nat) : DM.All CohReq (fskOokTxStartBeacon d i) := by
  unfold fskOokTxStartBeacon
  repeat (first | exact coh_fskOokTxSetForTransmission _ | exact coh_checkFskOok | (apply coh_appendRegister; decide) | dm_step | coh_leaf | split | dsimp only)
theorem coh_fskOokTxStopBeacon : DM.All CohReq fskOokTxStopBeacon := by unfold fskOokTxStopBeacon; coh1
theorem coh_fskOokSetBitrate (b : F) : DM.All CohReq (fskOokSetBitrate b) := by unfold fskOokSetBitrate; coh1
theorem coh_fskSetFdev (b : F) : DM.All CohReq (fskSetFdev b) := by unfold fskSetFdev; coh1
theorem coh_ookRxSetPeakMode (s : Nat) (f : UInt8) (d : Nat) : DM.All CohReq (ookRxSetPeakMode s f d) := by
  unfold ookRxSetPeakMode; coh1
theorem coh_ookRxSetFixedMode (t : UInt8) : DM.All CohReq (ookRxSetFixedMode t) := by unfold ookRxSetFixedMode; coh1
theorem coh_ookRxSetAvgMode (o t : Nat) : DM.All CohReq (ookRxSetAvgMode o t) := by unfold ookRxSetAvgMode; coh1
theorem coh_fskOokRxSetCollisionRestart (e : Bool) (t : UInt8) : DM.All CohReq (fskOokRxSetCollisionRestart e t) := by
  unfold fskOokRxSetCollisionRestart; coh1
theorem coh_fskOokRxSetAfcAuto (a : Bool) : DM.All CohReq (fskOokRxSetAfcAuto a) := by unfold fskOokRxSetAfcAuto; coh1
theorem coh_fskOokRxSetAfcBandwidth (b : F) : DM.All CohReq (fskOokRxSetAfcBandwidth b) := by
  unfold fskOokRxSetAfcBandwidth; coh1
theorem coh_fskOokRxSetBandwidth (b : F) : DM.All CohReq (fskOokRxSetBandwidth b) := by unfold fskOokRxSetBandwidth; coh1
theorem coh_fskOokRxSetTrigger (t : Nat) : DM.All CohReq (fskOokRxSetTrigger t) := by unfold fskOokRxSetTrigger; coh1
theorem coh_fskOokSetSyncword (s : List UInt8) : DM.All CohReq (fskOokSetSyncword s) := by unfold fskOokSetSyncword; coh1
theorem coh_fskOokRxSetRssiConfig (s : Nat) (o : Int) : DM.All CohReq (fskOokRxSetRssiConfig s o) := by
  unfold fskOokRxSetRssiConfig; coh1
theorem coh_fskOokSetPacketEncoding (e : Nat) : DM.All CohReq (fskOokSetPacketEncoding e) := by
  unfold fskOokSetPacketEncoding; coh1
theorem coh_fskOokSetCrc (c : Nat) : DM.All CohReq (fskOokSetCrc c) := by unfold fskOokSetCrc; coh1
theorem coh_fskOokSetPacketFormat (f : Nat) (l : UInt16) : DM.All CohReq (fskOokSetPacketFormat f l) := by
  unfold fskOokSetPacketFormat; coh1
theorem coh_fskOokSetAddressFiltering (t : Nat) (n b : UInt8) : DM.All CohReq (fskOokSetAddressFiltering t n b) := by
  unfold fskOokSetAddressFiltering; coh1
theorem coh_fskSetDataShaping (s r : Nat) : DM.All CohReq (fskSetDataShaping s r) := by unfold fskSetDataShaping; coh1
theorem coh_ookSetDataShaping (s r : Nat) : DM.All CohReq (ookSetDataShaping s r) := by unfold ookSetDataShaping; coh1
theorem coh_fskOokSetPreambleType (t : Nat) : DM.All CohReq (fskOokSetPreambleType t) := by unfold fskOokSetPreambleType; coh1
theorem coh_fskOokRxSetPreambleDetector (e : Bool) (s t : UInt8) : DM.All CohReq (fskOokRxSetPreambleDetector e s t) := by
  unfold fskOokRxSetPreambleDetector; coh1
theorem coh_calibrateLoop (fuel : Nat) : DM.All CohReq (calibrateLoop fuel) := by
  induction fuel with
  | zero => unfold calibrateLoop; coh1
  | succ n ih => unfold calibrateLoop; repeat (first | exact ih | dm_step | coh_leaf | split | dsimp only)
theorem coh_fskOokRxCalibrate (fuel : Nat) : DM.All CohReq (fskOokRxCalibrate fuel) := by
  unfold fskOokRxCalibrate
  repeat (first | exact coh_calibrateLoop _ | exact coh_checkFskOok | (apply coh_appendRegister; decide) | dm_step | coh_leaf | split | dsimp only)
theorem coh_fskOokGetRawTemperature : DM.All CohReq fskOokGetRawTemperature := by unfold fskOokGetRawTemperature; coh1
theorem coh_fskOokSetTempMonitor (e : Bool) : DM.All CohReq (fskOokSetTempMonitor e) := by unfold fskOokSetTempMonitor; coh1
theorem coh_writeRegister (r : Nat) (v : UInt8) : DM.All CohReq (Model.writeRegister r v) := by unfold Model.writeRegister; coh1

/-- every request of every API call keeps the cache model coherent -/
theorem coh_api (cap fuel : Nat) (a : Api) : DM.All CohReq (Api.prog cap fuel a) := by
  cases a <;> unfold Api.prog <;>
  repeat (first
    | exact coh_create _ | exact coh_setOpmod _ _ | exact coh_setFreq _ | exact coh_getFreq | exact coh_loraResetFifo
    | exact coh_rxSetLnaGain _ | exact coh_rxSetLnaBoostHf _ | exact coh_loraSetBandwidth _ | exact coh_getBw
    | exact coh_loraSetModemConfig2 _ | exact coh_setLdro _ | exact coh_loraSetSyncword _ | exact coh_setPreambleLength _
    | exact coh_loraSetImplicitHeader _ | exact coh_loraTxSetExplicitHeader _ | exact coh_loraSetFrequencyHopping _ _ _
    | exact coh_rxGetPacketRssi | exact coh_loraRxGetPacketSnr | exact coh_rxGetFrequencyError | exact coh_dumpRegisters
    | exact coh_txSetPaConfig _ _ | exact coh_txSetOcp _ _ | exact coh_loraTxSetForTransmission _ | exact coh_loraSetPpmOffset _
    | exact coh_fskOokTxSetForTransmission _ | exact coh_fskOokTxSetForTransmissionWithAddress _ _
    | exact coh_fskOokTxStartBeacon _ _ | exact coh_fskOokTxStopBeacon | exact coh_fskOokSetBitrate _ | exact coh_fskSetFdev _
    | exact coh_ookRxSetPeakMode _ _ _ | exact coh_ookRxSetFixedMode _ | exact coh_ookRxSetAvgMode _ _
    | exact coh_fskOokRxSetCollisionRestart _ _ | exact coh_fskOokRxSetAfcAuto _ | exact coh_fskOokRxSetAfcBandwidth _
    | exact coh_fskOokRxSetBandwidth _ | exact coh_fskOokRxSetTrigger _ | exact coh_fskOokSetSyncword _
    | exact coh_fskOokRxSetRssiConfig _ _ | exact coh_fskOokSetPacketEncoding _ | exact coh_fskOokSetCrc _
    | exact coh_fskOokSetPacketFormat _ _ | exact coh_fskOokSetAddressFiltering _ _ _ | exact coh_fskSetDataShaping _ _
    | exact coh_ookSetDataShaping _ _ | exact coh_fskOokSetPreambleType _ | exact coh_fskOokRxSetPreambleDetector _ _ _
    | exact coh_fskOokRxCalibrate _ | exact coh_fskOokGetRawTemperature | exact coh_fskOokSetTempMonitor _
    | exact coh_writeRegister _ _ | exact coh_irq _
    | dm_step | coh_leaf | split | dsimp only)

end Sx
