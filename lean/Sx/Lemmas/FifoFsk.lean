import Sx.Lemmas.Cells
import Sx.Lemmas.Fifo
/- The FSK/OOK FIFO behind address 0 and its flush; `memcpy` into the packet buffer read back. -/
namespace Sx
open Mem Chip Sx.Model DM

theorem write_fifo_fsk (c : Chip) (v : UInt8) (hl : c.isLora = false) (hroom : c.fifo.length < 64) :
    c.write 0 v = { c with fifo := c.fifo ++ [v] } := by
  have : ¬c.fifo.length ≥ 64 := by omega
  simp [Chip.write, hl, this]

theorem writeN_fifo_fsk (d : List UInt8) : ∀ (c : Chip), c.isLora = false → c.fifo.length + d.length ≤ 64 →
    c.writeN 0 d = { c with fifo := c.fifo ++ d } := by
  induction d with
  | nil => intro c _ _; simp [Chip.writeN]
  | cons v vs ih =>
    intro c hl hlen
    simp only [List.length_cons] at hlen
    simp only [Chip.writeN, ↓reduceIte]
    rw [write_fifo_fsk c v hl (by omega)]
    rw [ih _ (by exact hl) (by simp; omega)]
    simp

/-- the chip after FifoOverrun (bit 4) was written to RegIrqFlags2: the flag cleared, the FIFO
    emptied, PayloadReady/CrcOk cleared with it -/
def flush10 (c : Chip) : Chip := Chip.fifoFlush { c with fsk := c.fsk.wr 0x3f (c.fsk.rd 0x3f &&& 0xef) }

theorem write_flush_fsk (c : Chip) (hl : c.isLora = false) : c.write 0x3f 0x10 = flush10 c := by
  have h1 : (0x10 : UInt8) &&& 0x10 ≠ 0 := by decide
  have h2 : ¬((0x10 : UInt8) &&& 0x01 ≠ 0) := by decide
  simp only [Chip.write, hl, flush10, show (0x3f % 128) = 0x3f from rfl, show ¬(0x3f = 0) by decide, ↓reduceIte,
    Bool.false_eq_true, false_and, Bool.not_false, true_and, show ¬(0x3f = 0x3e) by decide, h1, h2, ne_eq, not_false_eq_true]

theorem flush10_fifo (c : Chip) : (flush10 c).fifo = [] := rfl
theorem flush10_isLora (c : Chip) : (flush10 c).isLora = c.isLora := rfl
theorem flush10_shared (c : Chip) : (flush10 c).shared = c.shared := rfl
theorem flush10_fsk_other (c : Chip) (a : Nat) (ha : a ≠ 0x3f) : (flush10 c).fsk.rd a = c.fsk.rd a := by
  simp [flush10, Chip.fifoFlush, rd_wr_ne _ 0x3f a _ (Ne.symm ha)]

theorem isLora_fsk_upd' (c : Chip) (m : Mem) : ({ c with fsk := m } : Chip).isLora = c.isLora := rfl

theorem rds_eq_take (m : Mem) (n : Nat) (h : n ≤ m.length) : m.rds 0 n = m.take n := by
  apply List.ext_getElem
  · simp [Mem.rds]; omega
  · intro i h1 h2
    simp only [Mem.rds, List.getElem_map, List.getElem_range, Nat.zero_add, Mem.rd, List.getElem_take]
    have : i < m.length := by simp [Mem.rds] at h1; omega
    simp [List.getD, this]

theorem rds_wrs_zero (m : Mem) (d : List UInt8) (h : d.length ≤ m.length) : (m.wrs 0 d).rds 0 d.length = d := by
  rw [rds_eq_take _ _ (by simp; exact h)]
  exact wrs_take m d h

end Sx
