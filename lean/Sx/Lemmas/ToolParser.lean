import Sx.Model.DebugTool
/- Lemmas about the parser model of debug_registers (C20): bounds of the allocation, and the
   read-back of one printed value. -/
namespace Sx.Tool

theorem count_tail_le (r : List Char) : r.tail.count ',' ≤ r.count ',' := by
  cases r with
  | nil => simp
  | cons a t => simp [List.count_cons]

theorem count_cons_le (c : Char) (r : List Char) : r.count ',' ≤ (c :: r).count ',' := by
  simp [List.count_cons]

/-- as long as the allocation has room for one value per remaining `','` plus the final one, no
    store leaves it -/
theorem scan_no_oob (cap : Nat) (l : List Char) (cur : UInt8) (has : Bool) (buf : List UInt8)
    (h : buf.length + l.count ',' + 1 ≤ cap) : scan cap l cur has buf ≠ .oob := by
  fun_induction scan cap l cur has buf
  case case1 => intro e; cases e
  case case2 hn => simp at h; omega
  case case3 => intro e; cases e
  case case4 c r cur has buf hc ih => exact ih (by have := count_cons_le c r; omega)
  case case5 r cur has buf hlt hc ih =>
    apply ih
    simp [List.count_cons] at h ⊢
    omega
  case case6 r cur has buf hn hc => simp [List.count_cons] at h; omega
  case case7 c r cur has buf h1 h2 h3 ih =>
    exact ih (by have := count_tail_le r; have := count_cons_le c r; omega)
  case case8 c r cur has buf h1 h2 h3 d hd ih => exact ih (by have := count_cons_le c r; omega)
  case case9 => intro e; cases e

theorem hexDigit_facts : ∀ n : Fin 16,
    hexVal (hexDigit n.val) = some (UInt8.ofNat n.val) ∧ hexDigit n.val ≠ ' ' ∧ hexDigit n.val ≠ ':' ∧
    hexDigit n.val ≠ ',' ∧ hexDigit n.val ≠ 'x' := by decide

theorem byte_of_nibbles : ∀ b : UInt8, (0 : UInt8) * 16 + UInt8.ofNat (b.toNat / 16) = UInt8.ofNat (b.toNat / 16) ∧
    UInt8.ofNat (b.toNat / 16) * 16 + UInt8.ofNat (b.toNat % 16) = b := by
  intro b
  have : ∀ v : BitVec 8, (0 : UInt8) * 16 + UInt8.ofNat ((⟨v⟩ : UInt8).toNat / 16) = UInt8.ofNat ((⟨v⟩ : UInt8).toNat / 16) ∧
      UInt8.ofNat ((⟨v⟩ : UInt8).toNat / 16) * 16 + UInt8.ofNat ((⟨v⟩ : UInt8).toNat % 16) = ⟨v⟩ := by decide
  exact this b.toBitVec

/-- one printed value `0xhh` is read back as the byte, whatever follows it (a separator or the end) -/
theorem scan_renderByte (cap : Nat) (b : UInt8) (rest : List Char) (buf : List UInt8)
    (hrest : rest.head? ≠ some 'x') :
    scan cap (renderByte b ++ rest) 0 false buf = scan cap rest b true buf := by
  have h1 := hexDigit_facts ⟨b.toNat / 16, by have := b.toNat_lt; omega⟩
  have h2 := hexDigit_facts ⟨b.toNat % 16, by omega⟩
  obtain ⟨v1, a1, a2, a3, a4⟩ := h1
  obtain ⟨v2, b1, b2, b3, b4⟩ := h2
  simp only at v1 a1 a2 a3 a4 v2 b1 b2 b3 b4
  have hb := byte_of_nibbles b
  unfold renderByte
  simp only [List.cons_append, List.nil_append]
  rw [scan]
  simp only [show ¬('0' = ' ' ∨ '0' = ':') by decide, show ¬('0' = ',') by decide, ↓reduceIte, List.head?_cons, true_and, List.tail_cons]
  rw [scan]
  have c1 : ¬(hexDigit (b.toNat / 16) = ' ' ∨ hexDigit (b.toNat / 16) = ':') := fun h => h.elim a1 a2
  have c2 : ¬(hexDigit (b.toNat / 16) = '0' ∧ (hexDigit (b.toNat % 16) :: rest).head? = some 'x') := by
    intro ⟨_, e⟩
    simp only [List.head?_cons, Option.some.injEq] at e
    exact b4 e
  rw [if_neg c1, if_neg a3, if_neg c2, v1]
  simp only [hb.1]
  rw [scan]
  have d1 : ¬(hexDigit (b.toNat % 16) = ' ' ∨ hexDigit (b.toNat % 16) = ':') := fun h => h.elim b1 b2
  have d2 : ¬(hexDigit (b.toNat % 16) = '0' ∧ rest.head? = some 'x') := fun h => hrest h.2
  rw [if_neg d1, if_neg b3, if_neg d2, v2]
  simp only [hb.2]

/-- **round trip**: a dump printed as the README prescribes is read back value by value,
    the last one included -/
theorem scan_render (cap : Nat) (bs : List UInt8) (buf : List UInt8) (hne : bs ≠ [])
    (hcap : buf.length + bs.length ≤ cap) :
    scan cap (render bs) 0 false buf = .ok (buf ++ bs) := by
  induction bs generalizing buf with
  | nil => exact absurd rfl hne
  | cons b r ih =>
    cases r with
    | nil =>
      show scan cap (renderByte b) 0 false buf = _
      have := scan_renderByte cap b [] buf (by simp)
      rw [List.append_nil] at this
      rw [this, scan]
      simp only [↓reduceIte]
      rw [if_pos (by simp at hcap; omega)]
    | cons b' r' =>
      show scan cap (renderByte b ++ ',' :: render (b' :: r')) 0 false buf = _
      rw [scan_renderByte cap b _ buf (by simp), scan]
      simp only [show ¬(',' = ' ' ∨ ',' = ':') by decide, ↓reduceIte]
      rw [if_pos (by simp at hcap; omega)]
      rw [ih (buf ++ [b]) (by simp) (by simp at hcap ⊢; omega)]
      simp

theorem count_renderByte (b : UInt8) : (renderByte b).count ',' = 0 := by
  have h1 := (hexDigit_facts ⟨b.toNat / 16, by have := b.toNat_lt; omega⟩).2.2.2.1
  have h2 := (hexDigit_facts ⟨b.toNat % 16, by omega⟩).2.2.2.1
  simp only at h1 h2
  unfold renderByte
  simp [List.count_cons, h1, h2]

theorem count_render (bs : List UInt8) : (render bs).count ',' = bs.length - 1 := by
  induction bs with
  | nil => rfl
  | cons b r ih =>
    cases r with
    | nil => show (renderByte b).count ',' = 0; exact count_renderByte b
    | cons b' r' =>
      show (renderByte b ++ ',' :: render (b' :: r')).count ',' = _
      rw [List.count_append, count_renderByte, List.count_cons, ih]
      simp

end Sx.Tool
