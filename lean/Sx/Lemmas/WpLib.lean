import Sx.Lemmas.Wp
import Sx.Lemmas.ChipOps
import Sx.Lemmas.RunP
/- Reusable weakest-precondition facts about the helper functions of the driver. -/
namespace Sx
open Sx.Model DM Mem Chip

/-- read-modify-write of a LoRa-page register under plain execution -/
theorem wp_appendRegister_lora (reg : Nat) (v m : UInt8) (h : Handle) (c : Chip) (bus : List BusEv) (cbs : List CbEvent)
    (Q : Except Code Unit → Handle → PState → Prop)
    (hl : c.isLora = true) (ha : reg < 128) (hp : inPage reg = true) (h12 : reg ≠ 0x12) :
    wp (appendRegister reg v m) h ⟨c, bus, cbs⟩ Q ↔
      Q (.ok ()) h ⟨{ c with lora := c.lora.wr reg ((c.lora.rd reg &&& m) ||| v) },
        .w reg [(c.lora.rd reg &&& m) ||| v] (.ok ()) :: .r reg 1 (.ok (be32 [c.lora.rd reg])) :: bus, cbs⟩ := by
  have hm : reg % 128 = reg := Nat.mod_eq_of_lt ha
  have h0 : reg % 128 ≠ 0 := by rw [hm]; intro e; subst e; simp [inPage] at hp
  unfold appendRegister
  rw [wp_bind, wp_rread]
  simp only [readN_one _ _ h0, hm, peek_lora _ _ hl hp, be32_single]
  rw [wp_swrite]
  simp only [writeN_one, write_lora _ _ _ hl ha hp h12]

theorem wp_checkModulation (m : Nat) (h : Handle) (s : PState) (Q : Except Code Unit → Handle → PState → Prop) :
    wp (checkModulation m) h s Q ↔
      (if h.activeModem ≠ m then Q (.error Gen.SX127X_ERR_INVALID_STATE) h s else Q (.ok ()) h s) := by
  unfold checkModulation
  rw [wp_bind, wp_getH]
  simp only
  rw [wp_ite, wp_fail, wp_pure]

/-- every property over all bytes is decided over the 256 bit patterns -/
theorem forall_byte (P : UInt8 → Prop) (h : ∀ b : BitVec 8, P ⟨b⟩) : ∀ x : UInt8, P x := fun x => h x.toBitVec

/-- lift a statement about a driver function returning `Unit` to the corresponding API call -/
theorem wp_api_unit (x : DM Unit) (h : Handle) (s : PState) (Q : Except Code Unit → Handle → PState → Prop)
    (hw : wp x h s Q) :
    wp (do x; pure Out.none) h s (fun r h' s' => match r with
      | .ok o => o = Out.none ∧ Q (.ok ()) h' s'
      | .error e => Q (.error e) h' s') := by
  rw [wp_bind]
  apply wp_mono _ _ _ _ _ _ hw
  intro r h' s' hq
  cases r with
  | ok u => simp only [wp_pure]; exact ⟨by trivial, hq⟩
  | error e => exact hq

end Sx
