import Sx.Props.C15
/-
  Failed calls leave the handle as it was (used by C11).

  `DM.KeepH x` — `x` never changes the handle; `DM.FS x` — after a failed transfer `x` ends with an
  error; `DM.TX x` — whenever a transfer of `x` has failed, `x` ends with the handle it started
  with.  `TX (x >>= g)` follows from `KeepH x`, `FS x` and `TX (g a)`: every public function of
  the driver reads and writes the chip first and updates the handle last.
-/
namespace Sx
open Sx.Model DM

theorem KeepH_bwrite (reg : Nat) (d : List UInt8) : KeepH (bwrite reg d) := ⟨fun _ _ => by simp [DM.bwrite, Prog.fwp]⟩
theorem KeepH_rawbread (reg n : Nat) : KeepH (rawbread reg n) := ⟨fun _ _ => by simp [DM.rawbread, Prog.fwp]⟩
theorem KeepH_ub (u : UB) : KeepH (DM.ub u : DM α) := ⟨fun _ _ => trivial⟩
theorem KeepH_ofExcept (r : Except Code α) : KeepH (ofExcept r) := by cases r <;> exact ⟨fun _ _ => rfl⟩
theorem TX_modH (g : Handle → Handle) : TX (modH g) := ⟨fun _ e => by cases e⟩

/-- the two handles agree on everything but the per-packet fields (`packet`,
    `expected_packet_length`, `fsk_ook_packet_sent_received`) -/
def Handle.cfgEq (h h' : Handle) : Prop :=
  { h' with packet := h.packet, expected := h.expected, received := h.received } = h

theorem Handle.cfgEq_refl (h : Handle) : h.cfgEq h := rfl
theorem Handle.cfgEq_trans {a b c : Handle} (h1 : a.cfgEq b) (h2 : b.cfgEq c) : a.cfgEq c := by
  cases a; cases b; cases c
  simp only [Handle.cfgEq, Handle.mk.injEq] at *
  simp_all

/-- `x` changes at most the per-packet fields of the handle, whatever the chip answers -/
structure DM.KeepC (x : DM α) : Prop where
  q : ∀ h f, (x h).fwp f (fun _ rh => h.cfgEq rh.2)

namespace DM
theorem KeepC_of_keepH {x : DM α} (hx : KeepH x) : KeepC x :=
  ⟨fun h f => Prog.fwp_mono _ _ _ _ (fun _ _ e => by rw [e]; exact Handle.cfgEq_refl _) (hx.q h f)⟩
theorem KeepC_bind {x : DM α} {g : α → DM β} (hx : KeepC x) (hg : ∀ a, KeepC (g a)) : KeepC (x >>= g) := by
  constructor
  intro h f
  rw [fwp_bind']
  refine Prog.fwp_mono _ _ _ _ ?_ (hx.q h f)
  intro f' ⟨r, h'⟩ e
  cases r with
  | error c => exact e
  | ok a => exact Prog.fwp_mono _ _ _ _ (fun _ _ e2 => Handle.cfgEq_trans e e2) ((hg a).q _ _)
theorem KeepC_modH (g : Handle → Handle) (hg : ∀ h : Handle, h.cfgEq (g h)) : KeepC (modH g) := ⟨fun h _ => hg h⟩
end DM

theorem keepC_packetStore (i : Nat) (v : UInt8) : KeepC (packetStore i v) := by
  constructor
  intro h f
  unfold packetStore
  rw [fwp_bind']
  show Prog.fwp _ f _
  simp only [getH, Prog.fwp]
  split
  · exact rfl
  · trivial

theorem keepC_packetCopy (i : Nat) (d : List UInt8) : KeepC (packetCopy i d) := by
  constructor
  intro h f
  unfold packetCopy
  rw [fwp_bind']
  show Prog.fwp _ f _
  simp only [getH, Prog.fwp]
  split
  · exact rfl
  · trivial

theorem KeepH_attempt {x : DM α} (hx : KeepH x) : KeepH (attempt x) := ⟨fun h f => by rw [fwp_attempt]; exact hx.q h f⟩

attribute [local irreducible] DM.rread DM.sread DM.swrite DM.bwrite DM.bread DM.rawbread DM.cb DM.modH DM.setH

/-- structural proof that a function never changes the handle -/
macro "keepA" : tactic => `(tactic| repeat (first
  | intro _
  | exact KeepH_pure _ | exact KeepH_fail _ | exact KeepH_getH | exact KeepH_rread _ | exact KeepH_sread _ _
  | exact KeepH_bread _ _ | exact KeepH_swrite _ _ | exact KeepH_bwrite _ _ | exact KeepH_rawbread _ _ | exact KeepH_ub _
  | exact keep_append _ _ _
  | apply KeepH_bind | split | dsimp only))

macro "fsA" : tactic => `(tactic| repeat (first
  | exact fs_append _ _ _ | fs_step | split | dsimp only))

theorem keep_checkFskOok : KeepH checkFskOok := by unfold checkFskOok; keepA
theorem fs_checkFskOok : FS checkFskOok := by unfold checkFskOok; fsA
theorem keep_checkModulation (m : Nat) : KeepH (checkModulation m) := by unfold checkModulation; keepA

theorem fs_checkModulation' (m : Nat) : FS (checkModulation m) := fs_checkModulation m
theorem keep_getFrequency : KeepH getFrequency := by
  unfold getFrequency
  apply KeepH_bind (KeepH_sread _ _); intro raw
  split
  · exact KeepH_pure _
  · exact KeepH_ub _
theorem fs_getFrequency : FS getFrequency := by unfold getFrequency; fsA
theorem keep_setFrequency (f : UInt64) : KeepH (setFrequency f) := by
  unfold setFrequency; split
  · exact KeepH_swrite _ _
  · exact KeepH_ub _
theorem keep_getBw : KeepH loraGetBandwidth := by
  unfold loraGetBandwidth
  apply KeepH_bind (keep_checkModulation _); intro _
  keepA
theorem fs_getBw : FS loraGetBandwidth := by
  unfold loraGetBandwidth
  apply FS_bind (fs_checkModulation _); intro _
  fsA
theorem keep_setLdro (e : Bool) : KeepH (loraSetLowDatarateOptimization e) := by
  unfold loraSetLowDatarateOptimization
  exact KeepH_bind (keep_checkModulation _) (fun _ => keep_append _ _ _)
theorem fs_setLdro (e : Bool) : FS (loraSetLowDatarateOptimization e) := by
  unfold loraSetLowDatarateOptimization
  exact FS_bind (fs_checkModulation _) (fun _ => fs_append _ _ _)
theorem keep_reload : KeepH reloadLowDatarateOptimization := by
  unfold reloadLowDatarateOptimization
  apply KeepH_bind keep_getBw; intro _
  apply KeepH_bind (KeepH_rread _); intro _
  exact keep_setLdro _
theorem fs_reload : FS reloadLowDatarateOptimization := by
  unfold reloadLowDatarateOptimization
  apply FS_bind fs_getBw; intro _
  apply FS_bind (FS_rread _); intro _
  exact fs_setLdro _
theorem keep_snr : KeepH loraRxGetPacketSnr := by
  unfold loraRxGetPacketSnr
  apply KeepH_bind (keep_checkModulation _); intro _
  keepA
theorem keep_txSetOcp (e : Bool) (m : UInt8) : KeepH (txSetOcp e m) := by unfold txSetOcp; keepA
theorem fs_txSetOcp (e : Bool) (m : UInt8) : FS (txSetOcp e m) := by unfold txSetOcp; fsA
theorem keep_calibrateLoop (fuel : Nat) : KeepH (calibrateLoop fuel) := by
  induction fuel with
  | zero => unfold calibrateLoop; exact KeepH_ub _
  | succ n ih =>
    unfold calibrateLoop
    apply KeepH_bind (KeepH_rread _); intro v
    split
    · exact ih
    · exact KeepH_pure _

/-- as `keepA`, knowing the helper functions -/
macro "keepB" : tactic => `(tactic| repeat (first
  | intro _
  | with_reducible exact keep_checkModulation _ | with_reducible exact keep_checkFskOok | with_reducible exact keep_getFrequency | with_reducible exact keep_setFrequency _
  | with_reducible exact keep_getBw | with_reducible exact keep_setLdro _ | with_reducible exact keep_reload | with_reducible exact keep_snr | with_reducible exact keep_txSetOcp _ _
  | with_reducible exact keep_calibrateLoop _ | with_reducible exact keep_append _ _ _
  | with_reducible exact KeepH_pure _ | with_reducible exact KeepH_fail _ | with_reducible exact KeepH_getH | with_reducible exact KeepH_rread _ | with_reducible exact KeepH_sread _ _
  | with_reducible exact KeepH_bread _ _ | with_reducible exact KeepH_swrite _ _ | with_reducible exact KeepH_bwrite _ _ | with_reducible exact KeepH_rawbread _ _ | with_reducible exact KeepH_ub _
  | with_reducible exact KeepH_ofExcept _ | with_reducible apply KeepH_attempt
  | with_reducible apply KeepH_bind | split | dsimp only))

macro "fsB" : tactic => `(tactic| repeat (first
  | with_reducible exact fs_checkModulation _ | with_reducible exact fs_checkFskOok | with_reducible exact fs_getFrequency | with_reducible exact fs_setFrequency _
  | with_reducible exact fs_getBw | with_reducible exact fs_setLdro _ | with_reducible exact fs_reload | with_reducible exact fs_txSetOcp _ _ | with_reducible exact fs_append _ _ _
  | with_reducible fs_step | split | dsimp only))

macro "txA" : tactic => `(tactic| repeat (first
  | with_reducible exact TX_pure _ | with_reducible exact TX_modH _
  | ((with_reducible apply TX_of_keepH); (focus (keepB; done)))
  | ((with_reducible refine TX_bind_keep ?_ ?_ ?_); (focus (keepB; done)); (focus (fsB; done)); intro _)
  | split | dsimp only))

theorem TX_bind_pure {α β : Type} {x : DM α} (g : α → β) (hx : TX x) : TX (x >>= fun a => (pure (g a) : DM β)) := by
  constructor
  intro h
  rw [fwp_bind']
  refine Prog.fwp_mono _ _ _ _ ?_ (hx.q h)
  intro f' ⟨r, h'⟩ hq
  cases r <;> exact hq

/-- the calls whose purpose is to change per-packet state: handle creation, the interrupt handler,
    and the FSK/OOK transmit calls (which stage the frame in the handle before the first transfer) -/
def Api.isPacketOp : Api → Bool
  | .create | .irq | .fskOokTxSetForTransmission _ | .fskOokTxSetForTransmissionWithAddress _ _ | .fskOokTxStartBeacon _ _ => true
  | _ => false

theorem txc_setFrequency (cap fuel : Nat) (f : UInt64) : TX (Api.prog cap fuel (.setFrequency f)) := by
  unfold Api.prog; dsimp only; apply TX_bind_pure
  unfold Model.setFrequency
  txA

theorem txc_getFrequency (cap fuel : Nat) : TX (Api.prog cap fuel (.getFrequency)) := by
  unfold Api.prog; dsimp only; apply TX_bind_pure
  unfold Model.getFrequency
  txA

theorem txc_loraResetFifo (cap fuel : Nat) : TX (Api.prog cap fuel (.loraResetFifo)) := by
  unfold Api.prog; dsimp only; apply TX_bind_pure
  unfold Model.loraResetFifo
  txA

theorem txc_rxSetLnaGain (cap fuel : Nat) (gain : Nat) : TX (Api.prog cap fuel (.rxSetLnaGain gain)) := by
  unfold Api.prog; dsimp only; apply TX_bind_pure
  unfold Model.rxSetLnaGain
  txA

theorem txc_rxSetLnaBoostHf (cap fuel : Nat) (enable : Bool) : TX (Api.prog cap fuel (.rxSetLnaBoostHf enable)) := by
  unfold Api.prog; dsimp only; apply TX_bind_pure
  unfold Model.rxSetLnaBoostHf
  txA

theorem txc_loraSetBandwidth (cap fuel : Nat) (bw : Nat) : TX (Api.prog cap fuel (.loraSetBandwidth bw)) := by
  unfold Api.prog; dsimp only; apply TX_bind_pure
  unfold Model.loraSetBandwidth
  txA

theorem txc_loraGetBandwidth (cap fuel : Nat) : TX (Api.prog cap fuel (.loraGetBandwidth)) := by
  unfold Api.prog; dsimp only; apply TX_bind_pure
  unfold Model.loraGetBandwidth
  txA

theorem txc_loraSetModemConfig2 (cap fuel : Nat) (sf : Nat) : TX (Api.prog cap fuel (.loraSetModemConfig2 sf)) := by
  unfold Api.prog; dsimp only; apply TX_bind_pure
  unfold Model.loraSetModemConfig2
  txA

theorem txc_loraSetLowDatarateOptimization (cap fuel : Nat) (enable : Bool) : TX (Api.prog cap fuel (.loraSetLowDatarateOptimization enable)) := by
  unfold Api.prog; dsimp only; apply TX_bind_pure
  unfold Model.loraSetLowDatarateOptimization
  txA

theorem txc_loraSetSyncword (cap fuel : Nat) (v : UInt8) : TX (Api.prog cap fuel (.loraSetSyncword v)) := by
  unfold Api.prog; dsimp only; apply TX_bind_pure
  unfold Model.loraSetSyncword
  txA

theorem txc_setPreambleLength (cap fuel : Nat) (v : UInt16) : TX (Api.prog cap fuel (.setPreambleLength v)) := by
  unfold Api.prog; dsimp only; apply TX_bind_pure
  unfold Model.setPreambleLength
  txA

theorem txc_rxGetPacketRssi (cap fuel : Nat) : TX (Api.prog cap fuel (.rxGetPacketRssi)) := by
  unfold Api.prog; dsimp only; apply TX_bind_pure
  unfold Model.rxGetPacketRssi
  refine TX_bind_keep KeepH_getH FS_getH ?_
  intro h
  split
  · apply TX_of_keepH; keepB
  · split
    · split
      · exact TX_of_keepH (KeepH_fail _)
      · exact TX_modH_pure _ _
    · exact TX_of_keepH (KeepH_fail _)

theorem txc_loraRxGetPacketSnr (cap fuel : Nat) : TX (Api.prog cap fuel (.loraRxGetPacketSnr)) := by
  unfold Api.prog; dsimp only; apply TX_bind_pure
  unfold Model.loraRxGetPacketSnr
  txA

theorem txc_rxGetFrequencyError (cap fuel : Nat) : TX (Api.prog cap fuel (.rxGetFrequencyError)) := by
  unfold Api.prog; dsimp only; apply TX_bind_pure
  unfold Model.rxGetFrequencyError
  txA

theorem txc_dumpRegisters (cap fuel : Nat) : TX (Api.prog cap fuel (.dumpRegisters)) := by
  unfold Api.prog; dsimp only; apply TX_bind_pure
  unfold Model.dumpRegisters
  txA

theorem txc_txSetPaConfig (cap fuel : Nat) (pin : Nat) (power : Int) : TX (Api.prog cap fuel (.txSetPaConfig pin power)) := by
  unfold Api.prog; dsimp only; apply TX_bind_pure
  unfold Model.txSetPaConfig
  txA

theorem txc_txSetOcp (cap fuel : Nat) (enable : Bool) (ma : UInt8) : TX (Api.prog cap fuel (.txSetOcp enable ma)) := by
  unfold Api.prog; dsimp only; apply TX_bind_pure
  unfold Model.txSetOcp
  txA

theorem txc_loraTxSetForTransmission (cap fuel : Nat) (data : List UInt8) : TX (Api.prog cap fuel (.loraTxSetForTransmission data)) := by
  unfold Api.prog; dsimp only; apply TX_bind_pure
  unfold Model.loraTxSetForTransmission
  txA

theorem txc_loraSetPpmOffset (cap fuel : Nat) (err : Int) : TX (Api.prog cap fuel (.loraSetPpmOffset err)) := by
  unfold Api.prog; dsimp only; apply TX_bind_pure
  unfold Model.loraSetPpmOffset
  txA

theorem txc_fskOokTxStopBeacon (cap fuel : Nat) : TX (Api.prog cap fuel (.fskOokTxStopBeacon)) := by
  unfold Api.prog; dsimp only; apply TX_bind_pure
  unfold Model.fskOokTxStopBeacon
  txA

theorem txc_fskOokSetBitrate (cap fuel : Nat) (bits : UInt32) : TX (Api.prog cap fuel (.fskOokSetBitrate bits)) := by
  unfold Api.prog; dsimp only; apply TX_bind_pure
  unfold Model.fskOokSetBitrate
  txA

theorem txc_fskSetFdev (cap fuel : Nat) (bits : UInt32) : TX (Api.prog cap fuel (.fskSetFdev bits)) := by
  unfold Api.prog; dsimp only; apply TX_bind_pure
  unfold Model.fskSetFdev
  txA

theorem txc_ookRxSetPeakMode (cap fuel : Nat) (step : Nat) (floor : UInt8) (dec : Nat) : TX (Api.prog cap fuel (.ookRxSetPeakMode step floor dec)) := by
  unfold Api.prog; dsimp only; apply TX_bind_pure
  unfold Model.ookRxSetPeakMode
  txA

theorem txc_ookRxSetFixedMode (cap fuel : Nat) (thr : UInt8) : TX (Api.prog cap fuel (.ookRxSetFixedMode thr)) := by
  unfold Api.prog; dsimp only; apply TX_bind_pure
  unfold Model.ookRxSetFixedMode
  txA

theorem txc_ookRxSetAvgMode (cap fuel : Nat) (off thr : Nat) : TX (Api.prog cap fuel (.ookRxSetAvgMode off thr)) := by
  unfold Api.prog; dsimp only; apply TX_bind_pure
  unfold Model.ookRxSetAvgMode
  txA

theorem txc_fskOokRxSetCollisionRestart (cap fuel : Nat) (enable : Bool) (thr : UInt8) : TX (Api.prog cap fuel (.fskOokRxSetCollisionRestart enable thr)) := by
  unfold Api.prog; dsimp only; apply TX_bind_pure
  unfold Model.fskOokRxSetCollisionRestart
  txA

theorem txc_fskOokRxSetAfcAuto (cap fuel : Nat) (auto : Bool) : TX (Api.prog cap fuel (.fskOokRxSetAfcAuto auto)) := by
  unfold Api.prog; dsimp only; apply TX_bind_pure
  unfold Model.fskOokRxSetAfcAuto
  txA

theorem txc_fskOokRxSetAfcBandwidth (cap fuel : Nat) (bits : UInt32) : TX (Api.prog cap fuel (.fskOokRxSetAfcBandwidth bits)) := by
  unfold Api.prog; dsimp only; apply TX_bind_pure
  unfold Model.fskOokRxSetAfcBandwidth
  txA

theorem txc_fskOokRxSetBandwidth (cap fuel : Nat) (bits : UInt32) : TX (Api.prog cap fuel (.fskOokRxSetBandwidth bits)) := by
  unfold Api.prog; dsimp only; apply TX_bind_pure
  unfold Model.fskOokRxSetBandwidth
  txA

theorem txc_fskOokRxSetTrigger (cap fuel : Nat) (t : Nat) : TX (Api.prog cap fuel (.fskOokRxSetTrigger t)) := by
  unfold Api.prog; dsimp only; apply TX_bind_pure
  unfold Model.fskOokRxSetTrigger
  txA

theorem txc_fskOokSetSyncword (cap fuel : Nat) (sw : List UInt8) : TX (Api.prog cap fuel (.fskOokSetSyncword sw)) := by
  unfold Api.prog; dsimp only; apply TX_bind_pure
  unfold Model.fskOokSetSyncword
  txA

theorem txc_fskOokRxSetRssiConfig (cap fuel : Nat) (smoothing : Nat) (offset : Int) : TX (Api.prog cap fuel (.fskOokRxSetRssiConfig smoothing offset)) := by
  unfold Api.prog; dsimp only; apply TX_bind_pure
  unfold Model.fskOokRxSetRssiConfig
  txA

theorem txc_fskOokSetPacketEncoding (cap fuel : Nat) (e : Nat) : TX (Api.prog cap fuel (.fskOokSetPacketEncoding e)) := by
  unfold Api.prog; dsimp only; apply TX_bind_pure
  unfold Model.fskOokSetPacketEncoding
  txA

theorem txc_fskOokSetCrc (cap fuel : Nat) (c : Nat) : TX (Api.prog cap fuel (.fskOokSetCrc c)) := by
  unfold Api.prog; dsimp only; apply TX_bind_pure
  unfold Model.fskOokSetCrc
  txA

theorem txc_fskOokSetPacketFormat (cap fuel : Nat) (fmt : Nat) (len : UInt16) : TX (Api.prog cap fuel (.fskOokSetPacketFormat fmt len)) := by
  unfold Api.prog; dsimp only; apply TX_bind_pure
  unfold Model.fskOokSetPacketFormat
  txA

theorem txc_fskOokSetAddressFiltering (cap fuel : Nat) (t : Nat) (node bcast : UInt8) : TX (Api.prog cap fuel (.fskOokSetAddressFiltering t node bcast)) := by
  unfold Api.prog; dsimp only; apply TX_bind_pure
  unfold Model.fskOokSetAddressFiltering
  txA

theorem txc_fskSetDataShaping (cap fuel : Nat) (s r : Nat) : TX (Api.prog cap fuel (.fskSetDataShaping s r)) := by
  unfold Api.prog; dsimp only; apply TX_bind_pure
  unfold Model.fskSetDataShaping
  txA

theorem txc_ookSetDataShaping (cap fuel : Nat) (s r : Nat) : TX (Api.prog cap fuel (.ookSetDataShaping s r)) := by
  unfold Api.prog; dsimp only; apply TX_bind_pure
  unfold Model.ookSetDataShaping
  txA

theorem txc_fskOokSetPreambleType (cap fuel : Nat) (t : Nat) : TX (Api.prog cap fuel (.fskOokSetPreambleType t)) := by
  unfold Api.prog; dsimp only; apply TX_bind_pure
  unfold Model.fskOokSetPreambleType
  txA

theorem txc_fskOokRxSetPreambleDetector (cap fuel : Nat) (enable : Bool) (size tol : UInt8) : TX (Api.prog cap fuel (.fskOokRxSetPreambleDetector enable size tol)) := by
  unfold Api.prog; dsimp only; apply TX_bind_pure
  unfold Model.fskOokRxSetPreambleDetector
  txA

theorem txc_fskOokRxCalibrate (cap fuel : Nat) : TX (Api.prog cap fuel (.fskOokRxCalibrate)) := by
  unfold Api.prog; dsimp only; apply TX_bind_pure
  unfold Model.fskOokRxCalibrate
  txA

theorem txc_fskOokGetRawTemperature (cap fuel : Nat) : TX (Api.prog cap fuel (.fskOokGetRawTemperature)) := by
  unfold Api.prog; dsimp only; apply TX_bind_pure
  unfold Model.fskOokGetRawTemperature
  txA

theorem txc_fskOokSetTempMonitor (cap fuel : Nat) (enable : Bool) : TX (Api.prog cap fuel (.fskOokSetTempMonitor enable)) := by
  unfold Api.prog; dsimp only; apply TX_bind_pure
  unfold Model.fskOokSetTempMonitor
  txA

theorem txc_readRegister (cap fuel : Nat) (reg : Nat) : TX (Api.prog cap fuel (.readRegister reg)) := by
  unfold Api.prog; dsimp only; apply TX_bind_pure
  txA

theorem txc_writeRegister (cap fuel : Nat) (reg : Nat) (v : UInt8) : TX (Api.prog cap fuel (.writeRegister reg v)) := by
  unfold Api.prog; dsimp only; apply TX_bind_pure
  unfold Model.writeRegister
  txA

theorem txc_rxSetCallback (cap fuel : Nat) (on : Bool) : TX (Api.prog cap fuel (.rxSetCallback on)) := by
  unfold Api.prog; dsimp only; apply TX_bind_pure
  txA

theorem txc_txSetCallback (cap fuel : Nat) (on : Bool) : TX (Api.prog cap fuel (.txSetCallback on)) := by
  unfold Api.prog; dsimp only; apply TX_bind_pure
  txA

theorem txc_loraCadSetCallback (cap fuel : Nat) (on : Bool) : TX (Api.prog cap fuel (.loraCadSetCallback on)) := by
  unfold Api.prog; dsimp only; apply TX_bind_pure
  txA

theorem txc_loraSetImplicitHeader (cap fuel : Nat) (header : Option (UInt8 × Bool × Nat)) : TX (Api.prog cap fuel (.loraSetImplicitHeader header)) := by
  unfold Api.prog; dsimp only; apply TX_bind_pure
  unfold Model.loraSetImplicitHeader
  txA

theorem txc_loraTxSetExplicitHeader (cap fuel : Nat) (header : Option (Bool × Nat)) : TX (Api.prog cap fuel (.loraTxSetExplicitHeader header)) := by
  unfold Api.prog; dsimp only; apply TX_bind_pure
  unfold Model.loraTxSetExplicitHeader
  txA

theorem txc_loraSetFrequencyHopping (cap fuel : Nat) (period : UInt8) (freqs : Option (List UInt64)) (len : UInt8) :
    TX (Api.prog cap fuel (.loraSetFrequencyHopping period freqs len)) := by
  unfold Api.prog; dsimp only; apply TX_bind_pure
  unfold Model.loraSetFrequencyHopping
  txA

/-- every public function other than the packet operations: if any of its transfers failed, the
    handle is what it was before the call -/
theorem tx_api (cap fuel : Nat) (a : Api) (hp : a.isPacketOp = false) : TX (Api.prog cap fuel a) := by
  cases a
  case create => cases hp
  case irq => cases hp
  case fskOokTxSetForTransmission d => cases hp
  case fskOokTxSetForTransmissionWithAddress d x => cases hp
  case fskOokTxStartBeacon d i => cases hp
  case setOpmod o m => unfold Api.prog; exact TX_bind_pure _ (C15_handle_unchanged_on_failure o m)
  case setFrequency x0 => exact txc_setFrequency cap fuel x0
  case getFrequency => exact txc_getFrequency cap fuel
  case loraResetFifo => exact txc_loraResetFifo cap fuel
  case rxSetLnaGain x0 => exact txc_rxSetLnaGain cap fuel x0
  case rxSetLnaBoostHf x0 => exact txc_rxSetLnaBoostHf cap fuel x0
  case loraSetBandwidth x0 => exact txc_loraSetBandwidth cap fuel x0
  case loraGetBandwidth => exact txc_loraGetBandwidth cap fuel
  case loraSetModemConfig2 x0 => exact txc_loraSetModemConfig2 cap fuel x0
  case loraSetLowDatarateOptimization x0 => exact txc_loraSetLowDatarateOptimization cap fuel x0
  case loraSetSyncword x0 => exact txc_loraSetSyncword cap fuel x0
  case setPreambleLength x0 => exact txc_setPreambleLength cap fuel x0
  case rxGetPacketRssi => exact txc_rxGetPacketRssi cap fuel
  case loraRxGetPacketSnr => exact txc_loraRxGetPacketSnr cap fuel
  case rxGetFrequencyError => exact txc_rxGetFrequencyError cap fuel
  case dumpRegisters => exact txc_dumpRegisters cap fuel
  case txSetPaConfig x0 x1 => exact txc_txSetPaConfig cap fuel x0 x1
  case txSetOcp x0 x1 => exact txc_txSetOcp cap fuel x0 x1
  case loraTxSetForTransmission x0 => exact txc_loraTxSetForTransmission cap fuel x0
  case loraSetPpmOffset x0 => exact txc_loraSetPpmOffset cap fuel x0
  case fskOokTxStopBeacon => exact txc_fskOokTxStopBeacon cap fuel
  case fskOokSetBitrate x0 => exact txc_fskOokSetBitrate cap fuel x0
  case fskSetFdev x0 => exact txc_fskSetFdev cap fuel x0
  case ookRxSetPeakMode x0 x1 x2 => exact txc_ookRxSetPeakMode cap fuel x0 x1 x2
  case ookRxSetFixedMode x0 => exact txc_ookRxSetFixedMode cap fuel x0
  case ookRxSetAvgMode x0 x1 => exact txc_ookRxSetAvgMode cap fuel x0 x1
  case fskOokRxSetCollisionRestart x0 x1 => exact txc_fskOokRxSetCollisionRestart cap fuel x0 x1
  case fskOokRxSetAfcAuto x0 => exact txc_fskOokRxSetAfcAuto cap fuel x0
  case fskOokRxSetAfcBandwidth x0 => exact txc_fskOokRxSetAfcBandwidth cap fuel x0
  case fskOokRxSetBandwidth x0 => exact txc_fskOokRxSetBandwidth cap fuel x0
  case fskOokRxSetTrigger x0 => exact txc_fskOokRxSetTrigger cap fuel x0
  case fskOokSetSyncword x0 => exact txc_fskOokSetSyncword cap fuel x0
  case fskOokRxSetRssiConfig x0 x1 => exact txc_fskOokRxSetRssiConfig cap fuel x0 x1
  case fskOokSetPacketEncoding x0 => exact txc_fskOokSetPacketEncoding cap fuel x0
  case fskOokSetCrc x0 => exact txc_fskOokSetCrc cap fuel x0
  case fskOokSetPacketFormat x0 x1 => exact txc_fskOokSetPacketFormat cap fuel x0 x1
  case fskOokSetAddressFiltering x0 x1 x2 => exact txc_fskOokSetAddressFiltering cap fuel x0 x1 x2
  case fskSetDataShaping x0 x1 => exact txc_fskSetDataShaping cap fuel x0 x1
  case ookSetDataShaping x0 x1 => exact txc_ookSetDataShaping cap fuel x0 x1
  case fskOokSetPreambleType x0 => exact txc_fskOokSetPreambleType cap fuel x0
  case fskOokRxSetPreambleDetector x0 x1 x2 => exact txc_fskOokRxSetPreambleDetector cap fuel x0 x1 x2
  case fskOokRxCalibrate => exact txc_fskOokRxCalibrate cap fuel
  case fskOokGetRawTemperature => exact txc_fskOokGetRawTemperature cap fuel
  case fskOokSetTempMonitor x0 => exact txc_fskOokSetTempMonitor cap fuel x0
  case readRegister x0 => exact txc_readRegister cap fuel x0
  case writeRegister x0 x1 => exact txc_writeRegister cap fuel x0 x1
  case rxSetCallback x0 => exact txc_rxSetCallback cap fuel x0
  case txSetCallback x0 => exact txc_txSetCallback cap fuel x0
  case loraCadSetCallback x0 => exact txc_loraCadSetCallback cap fuel x0
  case loraSetImplicitHeader x => exact txc_loraSetImplicitHeader cap fuel x
  case loraTxSetExplicitHeader x => exact txc_loraTxSetExplicitHeader cap fuel x
  case loraSetFrequencyHopping x y z => exact txc_loraSetFrequencyHopping cap fuel x y z

theorem keepC_txWithRemaining (n : UInt16) : KeepC (fskOokTxWithRemaining n) := by
  unfold fskOokTxWithRemaining
  refine KeepC_bind (KeepC_modH _ ?_) ?_
  · intro _; rfl
  intro _
  apply KeepC_of_keepH; keepB

macro "keepC" : tactic => `(tactic| repeat (first
  | intro _
  | with_reducible exact keepC_packetStore _ _ | with_reducible exact keepC_packetCopy _ _
  | with_reducible exact keepC_txWithRemaining _
  | ((with_reducible apply KeepC_of_keepH); (focus (keepB; done)))
  | with_reducible apply KeepC_bind | split | dsimp only))

theorem keepC_fskTx (d : List UInt8) : KeepC (fskOokTxSetForTransmission d) := by
  unfold fskOokTxSetForTransmission; keepC
theorem keepC_fskTxAddr (d : List UInt8) (a : UInt8) : KeepC (fskOokTxSetForTransmissionWithAddress d a) := by
  unfold fskOokTxSetForTransmissionWithAddress; keepC
theorem keepC_beacon (d : List UInt8) (i : Nat) : KeepC (fskOokTxStartBeacon d i) := by
  unfold fskOokTxStartBeacon
  repeat (first
  | intro _
  | with_reducible exact keepC_fskTx _
  | ((with_reducible apply KeepC_of_keepH); (focus (keepB; done)))
  | with_reducible apply KeepC_bind | split | dsimp only)

/-- every public function except handle creation and the interrupt handler: if a transfer failed,
    the handle differs from the one before the call at most in the per-packet fields -/
theorem cfg_api (cap fuel : Nat) (a : Api) (hirq : a.isIrq = false) (hc : a ≠ .create) (h : Handle) :
    (Api.prog cap fuel a h).fwp false (fun failed rh => failed = true → h.cfgEq rh.2) := by
  by_cases hp : a.isPacketOp = false
  · refine Prog.fwp_mono _ _ _ _ ?_ ((tx_api cap fuel a hp).q h)
    intro f' rh hq e
    rw [hq e]; exact Handle.cfgEq_refl _
  · have keepC_pure : ∀ {x : DM Unit}, KeepC x → KeepC (do x; pure Out.none) :=
      fun hx => KeepC_bind hx (fun _ => KeepC_of_keepH (KeepH_pure _))
    cases a
    case create => exact absurd rfl hc
    case irq => cases hirq
    case fskOokTxSetForTransmission d =>
      have hk := (keepC_pure (keepC_fskTx d)).q h false
      unfold Api.prog
      exact Prog.fwp_mono _ _ _ _ (fun _ _ e _ => e) hk
    case fskOokTxSetForTransmissionWithAddress d x =>
      have hk := (keepC_pure (keepC_fskTxAddr d x)).q h false
      unfold Api.prog
      exact Prog.fwp_mono _ _ _ _ (fun _ _ e _ => e) hk
    case fskOokTxStartBeacon d i =>
      have hk := (keepC_pure (keepC_beacon d i)).q h false
      unfold Api.prog
      exact Prog.fwp_mono _ _ _ _ (fun _ _ e _ => e) hk
    all_goals (exfalso; apply hp; rfl)

end Sx
